#!/bin/bash
# prep.sh [bin...] — make the build products the checks need, reading /repo's
# current working tree and writing only under /verif (.gen, .bin, .cache).
#   always: .gen/messages.go, .gen/lib.zip, .gen/overlay.json (regenerated when
#           the language files, lib/, or the generator tools change)
#   on request (arguments): ego, ego-race, langlint, lang
set -euo pipefail
V=/verif
R=${VERIF_REPO:-/repo}
if [ "$R" = /repo ]; then
  GEN=$V/.gen; BIN=$V/.bin
else
  # an alternative tree (scratch worktree with a candidate fix or a seeded
  # change): its own generated files and binaries
  K=$(echo -n "$R" | md5sum | cut -c1-12)
  GEN=$V/.cache/alt-$K/gen; BIN=$V/.cache/alt-$K/bin
fi
export PATH=/opt/veriftools/go1.26.8/bin:$PATH
export GOFLAGS=-mod=mod GOPROXY=off GOTOOLCHAIN=local GOSUMDB=off
mkdir -p "$GEN" "$BIN" "$V/.cache"

# serialise concurrent preps (several checks may start together)
exec 9>"$V/.cache/prep-$(echo -n "$GEN" | md5sum | cut -c1-8).lock"
flock 9

hash_inputs() {
  (cd "$R" && find internal/i18n/languages lib tools/lang tools/zipgo -type f -print0 2>/dev/null \
     | sort -z | xargs -0 sha256sum) | sha256sum | cut -d' ' -f1
}
H=$(hash_inputs)
if [ ! -f "$GEN/hash" ] || [ "$(cat "$GEN/hash")" != "$H" ] || [ ! -f "$GEN/messages.go" ] || [ ! -f "$GEN/lib.zip" ]; then
  rm -f "$GEN/hash"
  (cd "$R" && go build -o "$GEN/lang.tool" ./tools/lang && go build -o "$GEN/zipgo.tool" ./tools/zipgo)
  # tools/lang writes <path>/../<source>; run it on a copy so /repo stays clean
  rm -rf "$GEN/i18n"; mkdir -p "$GEN/i18n"
  cp -r "$R/internal/i18n/languages" "$GEN/i18n/languages"
  (cd "$GEN/i18n" && "$GEN/lang.tool" -c -p languages -s messages.go >/dev/null)
  mv "$GEN/i18n/messages.go" "$GEN/messages.go"
  rm -rf "$GEN/i18n"
  # zipgo: archive /repo/lib into .gen/lib.zip (run from a scratch dir; the tool
  # may write a digest next to its output)
  rm -rf "$GEN/zip"; mkdir -p "$GEN/zip"
  (cd "$GEN/zip" && "$GEN/zipgo.tool" "$R/lib" --output lib.zip --digest --omit https-server.crt,https-server.key >/dev/null)
  mv "$GEN/zip/lib.zip" "$GEN/lib.zip"
  rm -rf "$GEN/zip"
  echo "$H" > "$GEN/hash"
fi
cat > "$GEN/overlay.json" <<EOF
{"Replace": {
  "$R/internal/i18n/messages.go": "$GEN/messages.go",
  "$R/internal/cli/app/lib.zip": "$GEN/lib.zip"
}}
EOF

for b in "$@"; do
  case "$b" in
    ego)      (cd "$R" && go build -tags verif -overlay "$GEN/overlay.json" -o "$BIN/ego" .) ;;
    ego-race) (cd "$R" && go build -race -tags verif -overlay "$GEN/overlay.json" -o "$BIN/ego-race" .) ;;
    langlint) (cd "$R" && go build -tags verif -o "$BIN/langlint" ./tools/langlint) ;;
    lang)     (cd "$R" && go build -tags verif -o "$BIN/lang" ./tools/lang) ;;
    *) echo "prep: unknown target $b" >&2; exit 2 ;;
  esac
done
