#!/bin/bash
# setup: offline build of everything the checks share (generated files, overlay,
# binaries) and a warm compile of every harness test package.
set -euo pipefail
cd /verif
export PATH=/opt/veriftools/go1.26.8/bin:$PATH
export GOFLAGS=-mod=mod GOPROXY=off GOTOOLCHAIN=local GOSUMDB=off
./tools/prep.sh ego langlint lang
cd harness
go vet -tags verif -overlay /verif/.gen/overlay.json ./... >/dev/null 2>&1 || true
go test -tags verif -overlay /verif/.gen/overlay.json -count=1 -run '^$' ./... >/dev/null
echo "setup ok"
