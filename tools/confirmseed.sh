#!/bin/bash
# confirmseed.sh CNN <pkgdir> <TestRegex>
# Confirms a seeded change delivered in /tmp/seed-CNN(-out): the patch is what
# is applied in the worktree, the tree builds, the demo test FAILS with the
# change and PASSES without it. Then files everything under /verif/seeded/CNN/
# (patch.diff, demo/, notes.md) — meta.json is written by the caller.
set -u
id=$1; pkg=$2; re=$3
wt=/tmp/seed-$id; out=/tmp/seed-$id-out
export PATH=/opt/veriftools/go1.26.8/bin:$PATH GOFLAGS=-mod=mod GOPROXY=off GOTOOLCHAIN=local GOSUMDB=off
cd $wt || exit 2
demo=$(ls $out/demo/*_test.go | head -1)
base=$(basename $demo)
# state: change applied?
git diff --quiet && { echo "worktree has no change applied; applying patch"; git apply $out/patch.diff || exit 2; }
git diff > /tmp/seed-$id-current.diff
cp $demo $pkg/$base
go build ./... || { echo "RESULT $id build-failed"; rm -f $pkg/$base; exit 1; }
go test ./$pkg/ -run "$re" -count=1 -timeout 30m > /tmp/seed-$id-with.log 2>&1; with=$?
git apply -R /tmp/seed-$id-current.diff || { echo "cannot revert"; rm -f $pkg/$base; exit 2; }
go test ./$pkg/ -run "$re" -count=1 -timeout 30m > /tmp/seed-$id-without.log 2>&1; without=$?
git apply /tmp/seed-$id-current.diff
rm -f $pkg/$base
echo "RESULT $id demo-with-change-exit=$with demo-without-change-exit=$without"
if [ $with -ne 0 ] && [ $without -eq 0 ]; then
  mkdir -p /verif/seeded/$id/demo
  cp /tmp/seed-$id-current.diff /verif/seeded/$id/patch.diff
  cp -r $out/demo/. /verif/seeded/$id/demo/
  cp $out/notes.md /verif/seeded/$id/notes.md
  tail -5 /tmp/seed-$id-with.log > /verif/seeded/$id/demo-output-with-change.txt
  echo "CONFIRMED $id"
else
  echo "NOT CONFIRMED $id"; tail -20 /tmp/seed-$id-with.log /tmp/seed-$id-without.log
fi
