#!/bin/bash
# mkseedwt.sh CNN... — scratch worktree /tmp/seed-CNN of /repo HEAD for a
# mutation-seeding sub-agent, with the two go:generate products copied in (they
# are git-ignored there) so that plain `go build ./...` works in it.
set -e
/verif/tools/prep.sh >/dev/null
for id in "$@"; do
  d=/tmp/seed-$id
  git -C /repo worktree remove --force $d 2>/dev/null || true
  rm -rf $d $d-out
  git -C /repo worktree add -q --detach $d HEAD
  cp /verif/.gen/messages.go $d/internal/i18n/messages.go
  cp /verif/.gen/lib.zip $d/internal/cli/app/lib.zip
  cp /repo/go.sum $d/go.sum 2>/dev/null || true
  mkdir -p $d-out
  echo "$d ready"
done
