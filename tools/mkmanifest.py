#!/usr/bin/env python3
"""Regenerate /verif/MANIFEST.json from checks.json (+ properties.jsonl for the
not_applicable list). Run after editing checks.json."""
import json, os, subprocess
V = "/verif"
import glob
cfg = json.load(open(f"{V}/checks.json"))
for f in sorted(glob.glob(f"{V}/harness/*/check.json")):
    c = json.load(open(f))
    cfg["checks"].setdefault(c["id"], c)
props = [json.loads(l) for l in open(f"{V}/properties.jsonl")]
hooks = []
try:
    out = subprocess.run(["git", "-C", "/repo", "log", "--format=%H %s"], capture_output=True, text=True).stdout
    hooks = [l.split()[0] for l in out.splitlines() if l.split(" ", 1)[1].startswith("verif hook:")]
except Exception:
    pass
checks = []
for pid in sorted(cfg["checks"]):
    c = cfg["checks"][pid]
    if c.get("disabled") or pid not in cfg.get("enabled", []):
        continue
    m = c.get("manifest", {})
    checks.append({
        "property_id": pid,
        "quick_cmd": f"./check {pid} quick",
        "thorough_cmd": f"./check {pid} thorough",
        "evidence_file": f"/verif/evidence/{pid}.json",
        "replay_cmd_template": f"./check {pid} --replay {{path}}",
        "engine": m.get("engine", "rapid"),
        "level_claimed": {
            "category": m.get("level", "exploration"),
            "text": m.get("text", ""),
            "design_ref": m.get("design_ref", f"DESIGN.md §3 {pid}"),
        },
        "level_note": m.get("note", ""),
        "technique": m.get("technique", "property-based testing (rapid) against an explicit oracle"),
    })
claimed = {c["property_id"] for c in checks}
na = []
for p in props:
    if p["id"] not in claimed:
        reason = cfg.get("not_applicable", {}).get(p["id"], "no check built yet in this session; not claimed")
        na.append({"property_id": p["id"], "reason": reason})
man = {
    "version": 1,
    "setup_cmd": "./tools/setup.sh",
    "hooks": {
        "guard": "verif",
        "enable": "go build/test -tags verif -overlay /verif/.gen/overlay.json (the overlay supplies the two go:generate products, messages.go and lib.zip, without writing into /repo)",
        "baseline_off_cmd": cfg.get("baseline_off_cmd", ""),
        "source_commits": hooks,
        "add_only": True,
    },
    "engines": cfg.get("engines", []),
    "checks": checks,
    "notes": cfg.get("notes", ""),
    "not_applicable": na,
}
json.dump(man, open(f"{V}/MANIFEST.json", "w"), indent=1)
print("checks:", len(checks), "not_applicable:", len(na))
