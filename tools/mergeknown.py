#!/usr/bin/env python3
"""mergeknown.py CNN [--drop SUBSTR]... [--fixed "property=CNN <commit> <what>"]... [--enable]
Merge harness/cNN/known.json into known_findings.json (minus entries whose
signature contains a --drop substring: those were repaired in /repo), record
fixed: lines, remove the fragment, optionally enable the check."""
import json, os, sys
V="/verif"
args=sys.argv[1:]
pid=args.pop(0)
drops=[];fixed=[];enable=False
while args:
    a=args.pop(0)
    if a=="--drop": drops.append(args.pop(0))
    elif a=="--fixed": fixed.append(args.pop(0))
    elif a=="--enable": enable=True
k=json.load(open(f"{V}/known_findings.json"))
frag=f"{V}/harness/{pid.lower()}/known.json"
kept=dropped=0
if os.path.exists(frag):
    for f in json.load(open(frag))["findings"]:
        if any(d in f["sig"] for d in drops):
            dropped+=1
            continue
        if not any(x["property"]==f["property"] and x["sig"]==f["sig"] for x in k["findings"]):
            k["findings"].append(f); kept+=1
    os.remove(frag)
for t in fixed:
    line="fixed: "+t
    if line not in k["fixed"]: k["fixed"].append(line)
json.dump(k,open(f"{V}/known_findings.json","w"),indent=1)
if enable:
    c=json.load(open(f"{V}/checks.json"))
    c["enabled"]=sorted(set(c["enabled"]+[pid]))
    json.dump(c,open(f"{V}/checks.json","w"),indent=1)
print(pid,"kept",kept,"dropped",dropped,"fixed",len(fixed))
