// Node worker of check C33 (see /verif/harness/c33/c33_test.go).
//
// Batch protocol: one JSON object per line on stdin, one JSON object per line
// on stdout, answered in order, so one node process serves many cases.
//
//   {"id":N,"op":"run","scripts":[s0,s1,...],"probe":"...","timeout":ms}
//     Each script is run in its own FRESH vm context that holds only `log`
//     and the host globals below. Afterwards `probe` (a second script) is run
//     in the SAME context; it reports whether file-scope names and globals
//     are still reachable.
//     -> {"id":N,"results":[{"syntax":null|"SyntaxError: ...",
//                            "logs":[...],"error":null|{"cls":"TypeError","msg":"..."},
//                            "timeout":false,
//                            "probe":{"syntax":...,"logs":[...],"error":...,"timeout":false}}, ...]}
//
//   {"id":N,"op":"parse","scripts":[...]}
//     -> {"id":N,"results":[{"syntax":null|"SyntaxError: ..."}, ...]}
//
//   {"id":N,"op":"ping"} -> {"id":N,"pong":process.version}
//
// Nothing here depends on the wall clock except the vm timeout, which the Go
// side reports as inconclusive, never as a verdict.
'use strict';
const vm = require('vm');
const readline = require('readline');

function ser(v, seen) {
  try {
    if (v === undefined) return 'undefined';
    if (v === null) return 'null';
    const t = typeof v;
    if (t === 'function') return '[function]';
    if (t === 'bigint') return String(v) + 'n';
    if (t === 'symbol') return '[symbol]';
    if (t === 'number') return Object.is(v, -0) ? '-0' : String(v);
    if (t === 'string') return JSON.stringify(v);
    if (t === 'boolean') return String(v);
    seen = seen || [];
    if (seen.indexOf(v) >= 0) return '[cycle]';
    if (seen.length > 6) return '[deep]';
    seen = seen.concat([v]);
    const tag = Object.prototype.toString.call(v);
    if (tag === '[object RegExp]') return 'RegExp(' + String(v) + ')';
    if (tag === '[object Error]') return 'Error(' + String(v.name) + ': ' + String(v.message) + ')';
    if (Array.isArray(v) || tag === '[object Array]') {
      const parts = [];
      for (let i = 0; i < v.length && i < 50; i++) parts.push(ser(v[i], seen));
      return '[' + parts.join(',') + ']';
    }
    if (tag === '[object Set]' || tag === '[object Map]') {
      return tag + ser(Array.from(v), seen);
    }
    // own enumerable string keys in insertion order (observable to scripts),
    // accessors are read (observable through JSON.stringify & co).
    const keys = Object.keys(v);
    const parts = [];
    for (const k of keys.slice(0, 50)) {
      let pv;
      try { pv = ser(v[k], seen); } catch (e) { pv = '[throws ' + (e && e.name) + ']'; }
      parts.push(JSON.stringify(k) + ':' + pv);
    }
    let cname = '';
    try {
      const p = Object.getPrototypeOf(v);
      if (p && p.constructor && typeof p.constructor.name === 'string' && p.constructor.name !== 'Object') cname = p.constructor.name;
    } catch (e) { /* ignore */ }
    return cname + '{' + parts.join(',') + '}';
  } catch (e) {
    return '[unserialisable]';
  }
}

function errInfo(e) {
  let cls = 'non-error';
  let msg = '';
  try {
    if (e && typeof e === 'object') {
      cls = String(e.name || (e.constructor && e.constructor.name) || 'Object');
      msg = String(e.message || '');
    } else {
      msg = String(e);
    }
  } catch (x) { /* ignore */ }
  return { cls, msg };
}

// Host globals: what "another file" or the browser would provide. Created
// inside the new context so that instanceof / prototypes behave as in a page.
const HOST = `
var status = "idle";
var total = 7;
var state = { n: 1, label: "L" };
var history = [1, 2, 3];
var DEFAULT_LIMIT = 10;
var label = "host-label";
var items = [4, 5];
function sharedHelper(x) { return "sh:" + x; }
function otherFileFn(a, b) { return a + "|" + b; }
`;
const hostScript = new vm.Script(HOST, { filename: 'host.js' });

function runOne(src, filename, ctx, timeout) {
  const out = { syntax: null, error: null, timeout: false };
  let script;
  try {
    script = new vm.Script(src, { filename });
  } catch (e) {
    const i = errInfo(e);
    out.syntax = i.cls + ': ' + i.msg;
    return out;
  }
  try {
    script.runInContext(ctx, { timeout });
  } catch (e) {
    if (e && e.code === 'ERR_SCRIPT_EXECUTION_TIMEOUT') out.timeout = true;
    else out.error = errInfo(e);
  }
  return out;
}

function runCase(req) {
  const timeout = req.timeout || 2000;
  const results = [];
  for (const src of req.scripts) {
    const logs = [];
    const sandbox = {};
    const ctx = vm.createContext(sandbox);
    hostScript.runInContext(ctx);
    sandbox.log = function () {
      if (logs.length < 2000) logs.push(Array.prototype.map.call(arguments, (a) => ser(a)).join(' '));
    };
    const r = runOne(src, 'case.js', ctx, timeout);
    r.logs = logs.slice();
    if (r.syntax === null && req.probe) {
      logs.length = 0;
      const p = runOne(req.probe, 'probe.js', ctx, timeout);
      p.logs = logs.slice();
      r.probe = p;
    }
    results.push(r);
  }
  return results;
}

function handle(line) {
  let req;
  try { req = JSON.parse(line); } catch (e) { return { id: -1, fatal: 'bad request: ' + e.message }; }
  try {
    if (req.op === 'ping') return { id: req.id, pong: process.version };
    if (req.op === 'parse') {
      return {
        id: req.id,
        results: req.scripts.map((s) => {
          try { new vm.Script(s, { filename: 'asset.js' }); return { syntax: null }; } catch (e) {
            const i = errInfo(e); return { syntax: i.cls + ': ' + i.msg };
          }
        }),
      };
    }
    if (req.op === 'run') return { id: req.id, results: runCase(req) };
    return { id: req.id, fatal: 'unknown op ' + req.op };
  } catch (e) {
    return { id: req.id, fatal: 'runner exception: ' + (e && e.stack || e) };
  }
}

const rl = readline.createInterface({ input: process.stdin, crlfDelay: Infinity });
rl.on('line', (line) => {
  if (!line.trim()) return;
  process.stdout.write(JSON.stringify(handle(line)) + '\n');
});
rl.on('close', () => process.exit(0));
