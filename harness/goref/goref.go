// Package goref runs generated programs with the real Go toolchain: many
// programs are compiled into one binary (each program's top-level names carry
// its own prefix) and each is executed in its own process, so a runtime panic
// of one program does not affect the others.
package goref

import (
	"bytes"
	"fmt"
	"os"
	"os/exec"
	"path/filepath"
	"strings"
)

// Result of running one program with Go.
type Result struct {
	Stdout string `json:"stdout"`
	// Panicked: the process ended with a Go runtime panic (exit status 2 and
	// "panic:" on stderr).
	Panicked bool   `json:"panicked"`
	Stderr   string `json:"stderr,omitempty"`
	// BuildErr is set when the batch containing the program did not compile.
	BuildErr string `json:"build_err,omitempty"`
}

// Unit is one program: the text of its top-level declarations and the name
// of its entry function (no arguments, no results).
type Unit struct {
	Body  string
	Entry string
}

const goBin = "/opt/veriftools/go1.26.8/bin/go"

func workDir() string {
	d := os.Getenv("VERIF_RUN_DIR")
	if d == "" {
		d = os.TempDir()
	}
	return d
}

// RunBatch compiles the units into one binary and runs each. If the batch
// does not compile, it is split to isolate the offending unit(s), whose
// Result carries BuildErr.
func RunBatch(units []Unit) ([]Result, error) {
	res := make([]Result, len(units))
	if len(units) == 0 {
		return res, nil
	}
	dir, err := os.MkdirTemp(workDir(), "goref")
	if err != nil {
		return nil, err
	}
	defer os.RemoveAll(dir)
	var src strings.Builder
	src.WriteString("package main\n\nimport (\n\t\"fmt\"\n\t\"os\"\n)\n\nvar _ = fmt.Sprint\n\n")
	for _, u := range units {
		src.WriteString(u.Body)
		src.WriteString("\n")
	}
	src.WriteString("func main() {\n\tswitch os.Args[1] {\n")
	for i, u := range units {
		fmt.Fprintf(&src, "\tcase \"%d\":\n\t\t%s()\n", i, u.Entry)
	}
	src.WriteString("\t}\n}\n")
	if err := os.WriteFile(filepath.Join(dir, "main.go"), []byte(src.String()), 0o644); err != nil {
		return nil, err
	}
	if err := os.WriteFile(filepath.Join(dir, "go.mod"), []byte("module batch\n\ngo 1.26\n"), 0o644); err != nil {
		return nil, err
	}
	bin := filepath.Join(dir, "batch")
	cmd := exec.Command(goBin, "build", "-o", bin, ".")
	cmd.Dir = dir
	cmd.Env = append(os.Environ(), "GOFLAGS=-mod=mod", "GOPROXY=off", "GOTOOLCHAIN=local", "GOSUMDB=off", "GOWORK=off")
	out, err := cmd.CombinedOutput()
	if err != nil {
		if len(units) == 1 {
			res[0].BuildErr = string(out)
			return res, nil
		}
		mid := len(units) / 2
		a, e1 := RunBatch(units[:mid])
		if e1 != nil {
			return nil, e1
		}
		b, e2 := RunBatch(units[mid:])
		if e2 != nil {
			return nil, e2
		}
		return append(a, b...), nil
	}
	for i := range units {
		c := exec.Command(bin, fmt.Sprint(i))
		var so, se bytes.Buffer
		c.Stdout, c.Stderr = &so, &se
		c.Env = append(os.Environ(), "GOTRACEBACK=none")
		runErr := c.Run()
		res[i].Stdout = so.String()
		if runErr != nil {
			res[i].Stderr = clip(se.String(), 600)
			res[i].Panicked = strings.Contains(se.String(), "panic:") || strings.Contains(se.String(), "fatal error:")
			if !res[i].Panicked {
				return nil, fmt.Errorf("go program %d failed without a panic: %v: %s", i, runErr, se.String())
			}
		}
	}
	return res, nil
}

func clip(s string, n int) string {
	if len(s) > n {
		return s[:n]
	}
	return s
}
