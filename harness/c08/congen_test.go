package c08

// congen: generator of concurrent programs for property C08.
//
// A Program is plain data (a list of Scenarios). One Program is printed as two
// texts, Ego (`chan`, `make(chan, n)`) and Go (`chan int`, `make(chan int, n)`),
// and its expected output is computed from the data alone (expectedLines), never
// by running anything.
//
// Every scenario computes one int and main prints one line per scenario:
//
//	S<i> <kind> <value>
//
// Class 1 scenarios (mutexsum, fanin, pool, pipeline, ring, queues) touch their
// shared state only under a sync.Mutex or through channels and join their
// goroutines (WaitGroup, done channel, close+range) before the value is read, so
// the value is the same under every schedule. They never rely on the rendezvous
// of an unbuffered channel (Ego gives `make(chan)` a buffer of one), only on
// "a send happens before the matching receive completes" and on close.
//
// The class 2 scenario (racy) lets >= 2 goroutines update one scalar of an
// enclosing scope (a captured local, or a package-level variable) with no
// synchronisation at all. Its printed value is not judged and it is left out of
// the Go text (in Go it is a data race, i.e. undefined).

import (
	"fmt"
	"sort"
	"strings"

	"pgregory.net/rapid"
)

// Worker parametrises one goroutine of a scenario.
type Worker struct {
	N    int    `json:"n"`              // iterations / values sent
	D    int    `json:"d"`              // delta added per iteration (mutexsum, racy, ring)
	Base int    `json:"base,omitempty"` // fanin: first value
	Step int    `json:"step,omitempty"` // fanin: distance between values
	Op   string `json:"op,omitempty"`   // racy: assign | pluseq | incr | cond
}

// Stage is one transforming goroutine of a pipeline: out = (v*A + B) % 1009,
// dropped when Mod > 0 and out % Mod == 0.
type Stage struct {
	A     int    `json:"a"`
	B     int    `json:"b"`
	Mod   int    `json:"mod,omitempty"`
	Buf   int    `json:"buf"`   // capacity of the stage's output channel
	Named bool   `json:"named"` // top-level function instead of a function literal
	Recv  string `json:"recv"`  // range | commaok
}

// Scenario is one concurrency pattern.
type Scenario struct {
	Kind        string   `json:"kind"`   // mutexsum | fanin | pool | pipeline | ring | queues | racy
	Place       string   `json:"place"`  // func (own top-level function) | main (inline in main)
	Launch      string   `json:"launch"` // literal | loop | varclosure | named | global | nested
	Join        string   `json:"join,omitempty"`
	Buf         int      `json:"buf"`
	DeferDone   bool     `json:"defer_done,omitempty"`
	DeferUnlock bool     `json:"defer_unlock,omitempty"`
	Extra       string   `json:"extra,omitempty"`      // mutexsum: "" | slice | map
	MainOps     int      `json:"main_ops,omitempty"`   // main updates the shared object too, while the goroutines run
	MainDecls   int      `json:"main_decls,omitempty"` // main declares this many new variables in the captured scope while the goroutines run
	Workers     []Worker `json:"workers,omitempty"`
	Stages      []Stage  `json:"stages,omitempty"`
	Sink        string   `json:"sink,omitempty"`      // pipeline: main | goroutine
	Consumers   int      `json:"consumers,omitempty"` // pool
	Jobs        int      `json:"jobs,omitempty"`      // pool / pipeline source length
	A           int      `json:"a,omitempty"`
	B           int      `json:"b,omitempty"`
	Rounds      int      `json:"rounds,omitempty"` // ring
}

// Program is a list of scenarios; with Overlap the scenarios themselves run as
// goroutines of main at the same time.
type Program struct {
	Overlap bool       `json:"overlap,omitempty"`
	Scens   []Scenario `json:"scens"`
}

func (s Scenario) racy() bool { return s.Kind == "racy" }

func (p Program) hasRacy() bool {
	for _, s := range p.Scens {
		if s.racy() {
			return true
		}
	}
	return false
}

func (p Program) hasSync() bool {
	for _, s := range p.Scens {
		if !s.racy() {
			return true
		}
	}
	return false
}

// goroutines is the number of goroutines of the scenario that touch its shared
// object (the main goroutine counts when it takes part).
func (s Scenario) goroutines() int {
	n := 0
	switch s.Kind {
	case "mutexsum", "racy":
		n = len(s.Workers)
		if s.MainOps > 0 {
			n++
		}
	case "fanin":
		n = len(s.Workers) + 1
	case "pool":
		n = s.Consumers + 1
	case "pipeline":
		n = len(s.Stages) + 2
	case "ring":
		n = len(s.Workers) + 1
	case "queues":
		n = len(s.Workers) + 1
	}
	return n
}

// ------------------------------------------------------------------ expected

const digestMod = 1000003

func digest(vs []int) int {
	h := 0
	for _, v := range vs {
		h = (h*31 + v) % digestMod
	}
	return h
}

// expectedValue computes what a class 1 scenario prints.
func expectedValue(s Scenario) int {
	decl := 0
	for i := 1; i <= s.MainDecls; i++ {
		decl += i
	}
	switch s.Kind {
	case "mutexsum":
		total, items, even, odd := 0, 0, 0, 0
		for _, w := range s.Workers {
			total += w.N * w.D
			items += w.N
			if w.D%2 == 0 {
				even += w.N
			} else {
				odd += w.N
			}
		}
		total += s.MainOps
		r := total
		switch s.Extra {
		case "slice":
			r = total*1000 + items
		case "map":
			r = total*1000 + even*3 + odd*5
		}
		return r + decl
	case "fanin":
		var vs []int
		for _, w := range s.Workers {
			for j := 0; j < w.N; j++ {
				vs = append(vs, w.Base+j*w.Step)
			}
		}
		sort.Ints(vs)
		return digest(vs)*1000 + len(vs) + decl
	case "pool":
		total := 0
		for i := 0; i < s.Jobs; i++ {
			v := i*s.A + s.B
			total += (v*3 + 1) % 97
		}
		return total*1000 + s.Jobs
	case "pipeline":
		var vs []int
		for i := 1; i <= s.Jobs; i++ {
			vs = append(vs, i)
		}
		for _, st := range s.Stages {
			var out []int
			for _, v := range vs {
				o := (v*st.A + st.B) % 1009
				if st.Mod > 0 && o%st.Mod == 0 {
					continue
				}
				out = append(out, o)
			}
			vs = out
		}
		return digest(vs)*1000 + len(vs)
	case "ring":
		d := 0
		for _, w := range s.Workers {
			d += w.D
		}
		return s.A + s.Rounds*d
	case "queues":
		var vs []int
		for _, w := range s.Workers {
			for j := 0; j < w.N; j++ {
				vs = append(vs, j*w.D+1)
			}
		}
		return digest(vs)
	}
	return 0
}

// Line is one expected output line; Judged is false for class 2 scenarios,
// whose value may be anything.
type Line struct {
	Prefix string
	Value  int
	Judged bool
	Kind   string
	Launch string
}

func expectedLines(p Program) []Line {
	var ls []Line
	for i, s := range p.Scens {
		l := Line{Prefix: fmt.Sprintf("S%d %s", i, s.Kind), Kind: s.Kind, Launch: s.Launch}
		if !s.racy() {
			l.Judged = true
			l.Value = expectedValue(s)
		}
		ls = append(ls, l)
	}
	return ls
}

// ------------------------------------------------------------------ printer

type dialect int

const (
	egoText dialect = iota
	goText
)

type emitter struct {
	d        dialect
	top      strings.Builder // top-level declarations
	b        *strings.Builder
	ind      int
	useSync  bool
	useSort  bool
	skipRacy bool
}

func (e *emitter) w(format string, args ...any) {
	e.b.WriteString(strings.Repeat("    ", e.ind))
	fmt.Fprintf(e.b, format, args...)
	e.b.WriteString("\n")
}

func (e *emitter) chanT() string {
	if e.d == goText {
		return "chan int"
	}
	return "chan"
}

func (e *emitter) mkchan(n int) string {
	if e.d == goText {
		if n == 0 {
			return "make(chan int)"
		}
		return fmt.Sprintf("make(chan int, %d)", n)
	}
	if n == 0 {
		return "make(chan)"
	}
	return fmt.Sprintf("make(chan, %d)", n)
}

// inTop runs f with output redirected to the top-level section.
func (e *emitter) inTop(f func()) {
	saveB, saveInd := e.b, e.ind
	e.b, e.ind = &e.top, 0
	f()
	e.top.WriteString("\n")
	e.b, e.ind = saveB, saveInd
}

// locked writes stmts under the mutex named mu, either between Lock/Unlock or
// in an immediately called function literal with a deferred Unlock.
func (e *emitter) locked(mu string, deferUnlock bool, stmts []string) {
	e.useSync = true
	if deferUnlock {
		e.w("func() {")
		e.ind++
		e.w("%s.Lock()", mu)
		e.w("defer %s.Unlock()", mu)
		for _, s := range stmts {
			e.w("%s", s)
		}
		e.ind--
		e.w("}()")
		return
	}
	e.w("%s.Lock()", mu)
	for _, s := range stmts {
		e.w("%s", s)
	}
	e.w("%s.Unlock()", mu)
}

// mainDecls writes n declarations of new variables in the current scope (the
// one the goroutines captured) and returns the expression of their sum.
func (e *emitter) mainDecls(x int, n int) string {
	if n == 0 {
		return ""
	}
	e.w("j%d_1 := 1", x)
	for i := 2; i <= n; i++ {
		e.w("j%d_%d := j%d_%d + 1", x, i, x, i-1)
	}
	var terms []string
	for i := 1; i <= n; i++ {
		terms = append(terms, fmt.Sprintf("j%d_%d", x, i))
	}
	return strings.Join(terms, " + ")
}

func intList(vs []int) string {
	var ss []string
	for _, v := range vs {
		ss = append(ss, fmt.Sprint(v))
	}
	return "[]int{" + strings.Join(ss, ", ") + "}"
}

// launchClosures writes the go statements of a scenario whose goroutines are
// function literals with int parameters (names params) capturing the
// enclosing scope. body writes the literal's body. args[i] are the arguments
// of goroutine i. before is written in front of every go statement.
func (e *emitter) launchClosures(x int, launch string, params []string, args [][]int, before string, body func()) {
	var ps []string
	for _, p := range params {
		ps = append(ps, p+" int")
	}
	sig := "func(" + strings.Join(ps, ", ") + ")"
	argText := func(a []int) string {
		var ss []string
		for _, v := range a {
			ss = append(ss, fmt.Sprint(v))
		}
		return strings.Join(ss, ", ")
	}
	switch launch {
	case "varclosure":
		e.w("f%d := %s {", x, sig)
		e.ind++
		body()
		e.ind--
		e.w("}")
		for _, a := range args {
			if before != "" {
				e.w("%s", before)
			}
			e.w("go f%d(%s)", x, argText(a))
		}
	case "loop":
		// the arguments come from slices indexed by the loop variable; the go
		// statement sits in the loop's block scope
		for pi, p := range params {
			var col []int
			for _, a := range args {
				col = append(col, a[pi])
			}
			e.w("a%d_%s := %s", x, p, intList(col))
		}
		e.w("for k%d := 0; k%d < %d; k%d++ {", x, x, len(args), x)
		e.ind++
		if before != "" {
			e.w("%s", before)
		}
		e.w("go %s {", sig)
		e.ind++
		body()
		e.ind--
		var as []string
		for _, p := range params {
			as = append(as, fmt.Sprintf("a%d_%s[k%d]", x, p, x))
		}
		e.w("}(%s)", strings.Join(as, ", "))
		e.ind--
		e.w("}")
	default: // literal
		for _, a := range args {
			if before != "" {
				e.w("%s", before)
			}
			e.w("go %s {", sig)
			e.ind++
			body()
			e.ind--
			e.w("}(%s)", argText(a))
		}
	}
}

// scenario writes the statements of scenario x; they leave the result in r<x>.
func (e *emitter) scenario(s Scenario, x int) {
	e.w("r%d := 0", x)
	switch s.Kind {
	case "mutexsum":
		e.mutexsum(s, x)
	case "fanin":
		e.fanin(s, x)
	case "pool":
		e.pool(s, x)
	case "pipeline":
		e.pipeline(s, x)
	case "ring":
		e.ring(s, x)
	case "queues":
		e.queues(s, x)
	case "racy":
		e.racy(s, x)
	}
}

func (e *emitter) mutexsum(s Scenario, x int) {
	e.useSync = true
	wg, mu, total, done := fmt.Sprintf("wg%d", x), fmt.Sprintf("mu%d", x), fmt.Sprintf("total%d", x), fmt.Sprintf("done%d", x)
	items, mp := fmt.Sprintf("items%d", x), fmt.Sprintf("mp%d", x)
	useWG := s.Join == "wg"
	if useWG {
		e.w("var %s sync.WaitGroup", wg)
	} else {
		e.w("%s := %s", done, e.mkchan(s.Buf))
	}
	named := s.Launch == "named" || s.Launch == "global"
	if s.Launch == "global" {
		total, mu = "g"+total, "g"+mu
		e.inTop(func() {
			e.w("var %s int", total)
			e.w("var %s sync.Mutex", mu)
		})
	} else {
		e.w("var %s sync.Mutex", mu)
		e.w("%s := 0", total)
	}
	if !named {
		switch s.Extra {
		case "slice":
			e.w("%s := []int{}", items)
		case "map":
			e.w("%s := map[int]int{0: 0, 1: 0}", mp)
		}
	}
	var args [][]int
	for _, w := range s.Workers {
		args = append(args, []int{w.N, w.D})
	}
	before := ""
	if useWG {
		before = wg + ".Add(1)"
	}
	if named {
		fn := fmt.Sprintf("add%d", x)
		e.inTop(func() {
			var ps []string
			ps = append(ps, "n int", "d int")
			tot, m := total, mu
			if s.Launch == "named" {
				ps = append(ps, "total *int", "mu *sync.Mutex")
				tot, m = "*total", "mu"
			}
			if useWG {
				ps = append(ps, "wg *sync.WaitGroup")
			} else {
				ps = append(ps, "done "+e.chanT())
			}
			e.w("func %s(%s) {", fn, strings.Join(ps, ", "))
			e.ind++
			if useWG && s.DeferDone {
				e.w("defer wg.Done()")
			}
			e.w("for i := 0; i < n; i++ {")
			e.ind++
			e.locked(m, s.DeferUnlock, []string{fmt.Sprintf("%s = %s + d", tot, tot)})
			e.ind--
			e.w("}")
			if useWG && !s.DeferDone {
				e.w("wg.Done()")
			}
			if !useWG {
				e.w("done <- 1")
			}
			e.ind--
			e.w("}")
		})
		for _, a := range args {
			if before != "" {
				e.w("%s", before)
			}
			call := fmt.Sprintf("go %s(%d, %d", fn, a[0], a[1])
			if s.Launch == "named" {
				call += fmt.Sprintf(", &%s, &%s", total, mu)
			}
			if useWG {
				call += ", &" + wg
			} else {
				call += ", " + done
			}
			e.w("%s)", call)
		}
	} else {
		stmts := []string{fmt.Sprintf("%s = %s + d", total, total)}
		switch s.Extra {
		case "slice":
			stmts = append(stmts, fmt.Sprintf("%s = append(%s, d)", items, items))
		case "map":
			stmts = append(stmts, fmt.Sprintf("%s[d%%2] = %s[d%%2] + 1", mp, mp))
		}
		e.launchClosures(x, s.Launch, []string{"n", "d"}, args, before, func() {
			if useWG && s.DeferDone {
				e.w("defer %s.Done()", wg)
			}
			e.w("for i := 0; i < n; i++ {")
			e.ind++
			e.locked(mu, s.DeferUnlock, stmts)
			e.ind--
			e.w("}")
			if useWG && !s.DeferDone {
				e.w("%s.Done()", wg)
			}
			if !useWG {
				e.w("%s <- 1", done)
			}
		})
	}
	// the main goroutine takes part while the others run
	if s.MainOps > 0 {
		e.w("for i := 0; i < %d; i++ {", s.MainOps)
		e.ind++
		e.locked(mu, false, []string{fmt.Sprintf("%s = %s + 1", total, total)})
		e.ind--
		e.w("}")
	}
	decl := e.mainDecls(x, s.MainDecls)
	if useWG {
		e.w("%s.Wait()", wg)
	} else {
		e.w("for i := 0; i < %d; i++ {", len(s.Workers))
		e.ind++
		e.w("t := <-%s", done)
		e.w("r%d = r%d + t - 1", x, x)
		e.ind--
		e.w("}")
	}
	// all goroutines are joined: reading without the mutex is synchronised
	// by the join, but take it anyway for the global form (as a user would)
	e.w("%s.Lock()", mu)
	switch {
	case !named && s.Extra == "slice":
		e.w("r%d = r%d + %s*1000 + len(%s)", x, x, total, items)
	case !named && s.Extra == "map":
		e.w("r%d = r%d + %s*1000 + %s[0]*3 + %s[1]*5", x, x, total, mp, mp)
	default:
		e.w("r%d = r%d + %s", x, x, total)
	}
	e.w("%s.Unlock()", mu)
	if decl != "" {
		e.w("r%d = r%d + %s", x, x, decl)
	}
}

func (e *emitter) fanin(s Scenario, x int) {
	e.useSync, e.useSort = true, true
	ch, wg, got := fmt.Sprintf("ch%d", x), fmt.Sprintf("wg%d", x), fmt.Sprintf("got%d", x)
	e.w("%s := %s", ch, e.mkchan(s.Buf))
	e.w("var %s sync.WaitGroup", wg)
	var args [][]int
	total := 0
	for _, w := range s.Workers {
		args = append(args, []int{w.Base, w.N, w.Step})
		total += w.N
	}
	if s.Launch == "named" {
		fn := fmt.Sprintf("prod%d", x)
		e.inTop(func() {
			e.w("func %s(base int, n int, step int, ch %s, wg *sync.WaitGroup) {", fn, e.chanT())
			e.ind++
			if s.DeferDone {
				e.w("defer wg.Done()")
			}
			e.w("for i := 0; i < n; i++ {")
			e.w("    ch <- base + i*step")
			e.w("}")
			if !s.DeferDone {
				e.w("wg.Done()")
			}
			e.ind--
			e.w("}")
		})
		for _, a := range args {
			e.w("%s.Add(1)", wg)
			e.w("go %s(%d, %d, %d, %s, &%s)", fn, a[0], a[1], a[2], ch, wg)
		}
	} else {
		e.launchClosures(x, s.Launch, []string{"base", "n", "step"}, args, wg+".Add(1)", func() {
			if s.DeferDone {
				e.w("defer %s.Done()", wg)
			}
			e.w("for i := 0; i < n; i++ {")
			e.w("    %s <- base + i*step", ch)
			e.w("}")
			if !s.DeferDone {
				e.w("%s.Done()", wg)
			}
		})
	}
	e.w("%s := []int{}", got)
	if s.Join == "close" {
		e.w("go func() {")
		e.w("    %s.Wait()", wg)
		e.w("    close(%s)", ch)
		e.w("}()")
		decl := e.mainDecls(x, s.MainDecls)
		e.w("for v := range %s {", ch)
		e.w("    %s = append(%s, v)", got, got)
		e.w("}")
		if decl != "" {
			e.w("r%d = r%d + %s", x, x, decl)
		}
	} else {
		decl := e.mainDecls(x, s.MainDecls)
		e.w("for i := 0; i < %d; i++ {", total)
		e.w("    v := <-%s", ch)
		e.w("    %s = append(%s, v)", got, got)
		e.w("}")
		e.w("%s.Wait()", wg)
		if decl != "" {
			e.w("r%d = r%d + %s", x, x, decl)
		}
	}
	e.w("sort.Ints(%s)", got)
	e.w("h%d := 0", x)
	e.w("for _, v := range %s {", got)
	e.w("    h%d = (h%d*31 + v) %% %d", x, x, digestMod)
	e.w("}")
	e.w("r%d = r%d + h%d*1000 + len(%s)", x, x, x, got)
}

func (e *emitter) pool(s Scenario, x int) {
	if s.Join == "mutex" {
		e.useSync = true
	}
	jobs, wg, mu, total, cnt, res := fmt.Sprintf("jobs%d", x), fmt.Sprintf("wg%d", x), fmt.Sprintf("mu%d", x), fmt.Sprintf("total%d", x), fmt.Sprintf("cnt%d", x), fmt.Sprintf("res%d", x)
	e.w("%s := %s", jobs, e.mkchan(s.Buf))
	e.w("%s := 0", total)
	e.w("%s := 0", cnt)
	useMutex := s.Join == "mutex"
	if useMutex {
		e.w("var %s sync.WaitGroup", wg)
		e.w("var %s sync.Mutex", mu)
	} else {
		// every consumer reports (sum, count) as one value
		e.w("%s := %s", res, e.mkchan(s.B%3))
	}
	consumerBody := func(jobsN, totalN, cntN, muN, wgN, resN string) {
		if useMutex && s.DeferDone {
			e.w("defer %s.Done()", wgN)
		}
		e.w("local := 0")
		e.w("seen := 0")
		e.w("for v := range %s {", jobsN)
		e.w("    local = local + (v*3+1)%%97")
		e.w("    seen++")
		e.w("}")
		if useMutex {
			e.locked(muN, s.DeferUnlock, []string{fmt.Sprintf("%s = %s + local", totalN, totalN), fmt.Sprintf("%s = %s + seen", cntN, cntN)})
			if !s.DeferDone {
				e.w("%s.Done()", wgN)
			}
		} else {
			e.w("%s <- local*1000 + seen", resN)
		}
	}
	if s.Launch == "named" {
		fn := fmt.Sprintf("consume%d", x)
		e.inTop(func() {
			if useMutex {
				e.w("func %s(jobs %s, total *int, cnt *int, mu *sync.Mutex, wg *sync.WaitGroup) {", fn, e.chanT())
				e.ind++
				consumerBody("jobs", "*total", "*cnt", "mu", "wg", "")
			} else {
				e.w("func %s(jobs %s, res %s) {", fn, e.chanT(), e.chanT())
				e.ind++
				consumerBody("jobs", "", "", "", "", "res")
			}
			e.ind--
			e.w("}")
		})
		for i := 0; i < s.Consumers; i++ {
			if useMutex {
				e.w("%s.Add(1)", wg)
				e.w("go %s(%s, &%s, &%s, &%s, &%s)", fn, jobs, total, cnt, mu, wg)
			} else {
				e.w("go %s(%s, %s)", fn, jobs, res)
			}
		}
	} else {
		var args [][]int
		for i := 0; i < s.Consumers; i++ {
			args = append(args, []int{i})
		}
		before := ""
		if useMutex {
			before = wg + ".Add(1)"
		}
		e.launchClosures(x, s.Launch, []string{"id"}, args, before, func() {
			e.w("if id < 0 {")
			e.w("    return")
			e.w("}")
			consumerBody(jobs, total, cnt, mu, wg, res)
		})
	}
	e.w("for i := 0; i < %d; i++ {", s.Jobs)
	e.w("    %s <- i*%d + %d", jobs, s.A, s.B)
	e.w("}")
	e.w("close(%s)", jobs)
	if useMutex {
		e.w("%s.Wait()", wg)
	} else {
		e.w("for i := 0; i < %d; i++ {", s.Consumers)
		e.w("    t := <-%s", res)
		e.w("    %s = %s + t/1000", total, total)
		e.w("    %s = %s + t%%1000", cnt, cnt)
		e.w("}")
	}
	e.w("r%d = %s*1000 + %s", x, total, cnt)
}

func (e *emitter) pipeline(s Scenario, x int) {
	cn := func(j int) string { return fmt.Sprintf("c%d_%d", x, j) }
	e.w("%s := %s", cn(0), e.mkchan(s.Buf))
	for j, st := range s.Stages {
		e.w("%s := %s", cn(j+1), e.mkchan(st.Buf))
	}
	// source
	e.w("go func(n int) {")
	e.w("    for i := 1; i <= n; i++ {")
	e.w("        %s <- i", cn(0))
	e.w("    }")
	e.w("    close(%s)", cn(0))
	e.w("}(%d)", s.Jobs)
	stageBody := func(in, out string, st Stage) {
		if st.Recv == "commaok" {
			e.w("for {")
			e.ind++
			e.w("v, ok := <-%s", in)
			e.w("if !ok {")
			e.w("    break")
			e.w("}")
		} else {
			e.w("for v := range %s {", in)
			e.ind++
		}
		e.w("o := (v*a + b) %% 1009")
		if st.Mod > 0 {
			e.w("if o%%%d == 0 {", st.Mod)
			e.w("    continue")
			e.w("}")
		}
		e.w("%s <- o", out)
		e.ind--
		e.w("}")
		e.w("close(%s)", out)
	}
	for j, st := range s.Stages {
		if st.Named {
			fn := fmt.Sprintf("stage%d_%d", x, j+1)
			st := st
			e.inTop(func() {
				e.w("func %s(in %s, out %s, a int, b int) {", fn, e.chanT(), e.chanT())
				e.ind++
				stageBody("in", "out", st)
				e.ind--
				e.w("}")
			})
			e.w("go %s(%s, %s, %d, %d)", fn, cn(j), cn(j+1), st.A, st.B)
		} else {
			e.w("go func(a int, b int) {")
			e.ind++
			stageBody(cn(j), cn(j+1), st)
			e.ind--
			e.w("}(%d, %d)", st.A, st.B)
		}
	}
	last := cn(len(s.Stages))
	sink := func(target string) {
		e.w("h := 0")
		e.w("cnt := 0")
		e.w("for v := range %s {", last)
		e.w("    h = (h*31 + v) %% %d", digestMod)
		e.w("    cnt++")
		e.w("}")
		e.w("%s h*1000 + cnt", target)
	}
	if s.Sink == "goroutine" {
		res := fmt.Sprintf("res%d", x)
		e.w("%s := %s", res, e.mkchan(s.B%2))
		e.w("go func() {")
		e.ind++
		sink(res + " <-")
		e.ind--
		e.w("}()")
		e.w("r%d = <-%s", x, res)
	} else {
		e.w("if r%d == 0 {", x)
		e.ind++
		sink(fmt.Sprintf("r%d =", x))
		e.ind--
		e.w("}")
	}
}

func (e *emitter) ring(s Scenario, x int) {
	cn := func(j int) string { return fmt.Sprintf("c%d_%d", x, j) }
	k := len(s.Workers)
	for j := 0; j <= k; j++ {
		e.w("%s := %s", cn(j), e.mkchan(s.Buf))
	}
	body := func(in, out string) {
		e.w("for i := 0; i < r; i++ {")
		e.w("    v := <-%s", in)
		e.w("    %s <- v + d", out)
		e.w("}")
	}
	if s.Launch == "named" {
		fn := fmt.Sprintf("hop%d", x)
		e.inTop(func() {
			e.w("func %s(in %s, out %s, d int, r int) {", fn, e.chanT(), e.chanT())
			e.ind++
			body("in", "out")
			e.ind--
			e.w("}")
		})
		for j, w := range s.Workers {
			e.w("go %s(%s, %s, %d, %d)", fn, cn(j), cn(j+1), w.D, s.Rounds)
		}
	} else {
		for j, w := range s.Workers {
			e.w("go func(in %s, out %s, d int, r int) {", e.chanT(), e.chanT())
			e.ind++
			body("in", "out")
			e.ind--
			e.w("}(%s, %s, %d, %d)", cn(j), cn(j+1), w.D, s.Rounds)
		}
	}
	e.w("v%d := %d", x, s.A)
	e.w("for i := 0; i < %d; i++ {", s.Rounds)
	e.w("    %s <- v%d", cn(0), x)
	e.w("    v%d = <-%s", x, cn(k))
	e.w("}")
	e.w("r%d = v%d", x, x)
}

func (e *emitter) queues(s Scenario, x int) {
	fn := fmt.Sprintf("queue%d", x)
	e.inTop(func() {
		e.w("func %s(n int, a int) %s {", fn, e.chanT())
		e.w("    q := %s", e.mkchan(s.Buf))
		e.w("    go func() {")
		e.w("        for i := 0; i < n; i++ {")
		e.w("            q <- i*a + 1")
		e.w("        }")
		e.w("        close(q)")
		e.w("    }()")
		e.w("    return q")
		e.w("}")
	})
	for j, w := range s.Workers {
		e.w("q%d_%d := %s(%d, %d)", x, j, fn, w.N, w.D)
	}
	e.w("h%d := 0", x)
	for j := range s.Workers {
		e.w("for v := range q%d_%d {", x, j)
		e.w("    h%d = (h%d*31 + v) %% %d", x, x, digestMod)
		e.w("}")
	}
	e.w("r%d = h%d", x, x)
}

// racy: the class 2 scenario. Only ever printed as Ego text.
func (e *emitter) racy(s Scenario, x int) {
	e.useSync = true
	wg, xv := fmt.Sprintf("wg%d", x), fmt.Sprintf("x%d", x)
	e.w("var %s sync.WaitGroup", wg)
	op := func(name, kind string) []string {
		switch kind {
		case "pluseq":
			return []string{fmt.Sprintf("%s += d", name)}
		case "incr":
			return []string{fmt.Sprintf("%s++", name)}
		case "cond":
			return []string{fmt.Sprintf("if %s < 0 {", name), fmt.Sprintf("    %s = 0", name), "}", fmt.Sprintf("%s = %s + d", name, name)}
		default:
			return []string{fmt.Sprintf("%s = %s + d", name, name)}
		}
	}
	loopBody := func(name, kind string) {
		if kind == "incr" {
			// Ego rejects a parameter that is never used
			e.w("if d < 0 {")
			e.w("    n = 0")
			e.w("}")
		}
		e.w("for i := 0; i < n; i++ {")
		e.ind++
		for _, l := range op(name, kind) {
			e.w("%s", l)
		}
		e.ind--
		e.w("}")
	}
	var args [][]int
	for _, w := range s.Workers {
		args = append(args, []int{w.N, w.D})
	}
	kind := s.Workers[0].Op
	switch s.Launch {
	case "global":
		xv = "g" + xv
		fn := fmt.Sprintf("bump%d", x)
		e.inTop(func() {
			e.w("var %s int", xv)
			e.w("func %s(n int, d int, wg *sync.WaitGroup) {", fn)
			e.ind++
			if s.DeferDone {
				e.w("defer wg.Done()")
			}
			loopBody(xv, kind)
			if !s.DeferDone {
				e.w("wg.Done()")
			}
			e.ind--
			e.w("}")
		})
		for _, a := range args {
			e.w("%s.Add(1)", wg)
			e.w("go %s(%d, %d, &%s)", fn, a[0], a[1], wg)
		}
	case "nested":
		// an outer goroutine starts the workers, which capture the scope two
		// levels up
		e.w("%s := 0", xv)
		e.w("%s.Add(1)", wg)
		e.w("go func() {")
		e.ind++
		e.w("defer %s.Done()", wg)
		for _, a := range args {
			e.w("%s.Add(1)", wg)
			e.w("go func(n int, d int) {")
			e.ind++
			e.w("defer %s.Done()", wg)
			loopBody(xv, kind)
			e.ind--
			e.w("}(%d, %d)", a[0], a[1])
		}
		e.ind--
		e.w("}()")
	default:
		e.w("%s := 0", xv)
		e.launchClosures(x, s.Launch, []string{"n", "d"}, args, wg+".Add(1)", func() {
			if s.DeferDone {
				e.w("defer %s.Done()", wg)
			}
			loopBody(xv, kind)
			if !s.DeferDone {
				e.w("%s.Done()", wg)
			}
		})
	}
	if s.MainOps > 0 {
		e.w("for i := 0; i < %d; i++ {", s.MainOps)
		e.w("    %s = %s + 1", xv, xv)
		e.w("}")
	}
	decl := e.mainDecls(x, s.MainDecls)
	e.w("%s.Wait()", wg)
	e.w("r%d = %s", x, xv)
	if decl != "" {
		e.w("r%d = r%d + %s", x, x, decl)
	}
}

// render prints the program in the given dialect. With skipRacy the class 2
// scenarios are left out (Go text).
func render(p Program, d dialect, skipRacy bool) string {
	e := &emitter{d: d, skipRacy: skipRacy}
	var funcs, mainBody strings.Builder
	type sc struct {
		i int
		s Scenario
	}
	var scs []sc
	for i, s := range p.Scens {
		if skipRacy && s.racy() {
			continue
		}
		scs = append(scs, sc{i, s})
	}
	for _, c := range scs {
		if c.s.Place == "func" || p.Overlap {
			e.b, e.ind = &funcs, 0
			e.w("func scen%d() int {", c.i)
			e.ind++
			e.scenario(c.s, c.i)
			e.w("return r%d", c.i)
			e.ind--
			e.w("}")
			e.w("")
		}
	}
	e.b, e.ind = &mainBody, 1
	if p.Overlap {
		for _, c := range scs {
			e.w("o%d := %s", c.i, e.mkchan(1))
			e.w("go func() {")
			e.w("    o%d <- scen%d()", c.i, c.i)
			e.w("}()")
		}
		for _, c := range scs {
			e.w("v%d := <-o%d", c.i, c.i)
			e.w("fmt.Println(\"S%d\", \"%s\", v%d)", c.i, c.s.Kind, c.i)
		}
	} else {
		for _, c := range scs {
			if c.s.Place == "func" {
				e.w("fmt.Println(\"S%d\", \"%s\", scen%d())", c.i, c.s.Kind, c.i)
			} else {
				e.scenario(c.s, c.i)
				e.w("fmt.Println(\"S%d\", \"%s\", r%d)", c.i, c.s.Kind, c.i)
			}
		}
	}
	var out strings.Builder
	out.WriteString("package main\n\n")
	if d == goText {
		out.WriteString("import (\n\t\"fmt\"\n")
		if e.useSort {
			out.WriteString("\t\"sort\"\n")
		}
		if e.useSync {
			out.WriteString("\t\"sync\"\n")
		}
		out.WriteString(")\n\n")
	} else {
		out.WriteString("import \"fmt\"\n")
		if e.useSort {
			out.WriteString("import \"sort\"\n")
		}
		if e.useSync {
			out.WriteString("import \"sync\"\n")
		}
		out.WriteString("\n")
	}
	out.WriteString(e.top.String())
	out.WriteString(funcs.String())
	out.WriteString("func main() {\n")
	out.WriteString(mainBody.String())
	out.WriteString("}\n")
	return out.String()
}

// ------------------------------------------------------------------ generator

func genWorkers(t *rapid.T, min, max, maxN int) []Worker {
	k := rapid.IntRange(min, max).Draw(t, "k")
	ws := make([]Worker, k)
	for i := range ws {
		ws[i] = Worker{
			N: rapid.IntRange(1, maxN).Draw(t, "n"),
			D: rapid.IntRange(1, 9).Draw(t, "d"),
		}
	}
	return ws
}

func genScenario(t *rapid.T, kind string) Scenario {
	s := Scenario{Kind: kind}
	s.Place = rapid.SampledFrom([]string{"func", "main"}).Draw(t, "place")
	s.Buf = rapid.SampledFrom([]int{0, 0, 1, 2, 5}).Draw(t, "buf")
	s.DeferDone = rapid.Bool().Draw(t, "defer_done")
	s.DeferUnlock = rapid.Bool().Draw(t, "defer_unlock")
	switch kind {
	case "mutexsum":
		s.Launch = rapid.SampledFrom([]string{"literal", "loop", "varclosure", "named", "global"}).Draw(t, "launch")
		s.Join = rapid.SampledFrom([]string{"wg", "wg", "done"}).Draw(t, "join")
		s.Workers = genWorkers(t, 2, 5, 40)
		s.MainOps = rapid.SampledFrom([]int{0, 0, 7, 30}).Draw(t, "main_ops")
		if s.Launch != "named" && s.Launch != "global" {
			s.Extra = rapid.SampledFrom([]string{"", "slice", "map"}).Draw(t, "extra")
			s.MainDecls = rapid.SampledFrom([]int{0, 0, 3, 20, 40}).Draw(t, "main_decls")
		}
	case "fanin":
		s.Launch = rapid.SampledFrom([]string{"literal", "loop", "varclosure", "named"}).Draw(t, "launch")
		s.Join = rapid.SampledFrom([]string{"count", "close"}).Draw(t, "term")
		s.Workers = genWorkers(t, 2, 5, 12)
		for i := range s.Workers {
			s.Workers[i].Base = rapid.IntRange(0, 500).Draw(t, "base")
			s.Workers[i].Step = rapid.IntRange(0, 7).Draw(t, "step")
		}
		if s.Launch != "named" {
			s.MainDecls = rapid.SampledFrom([]int{0, 0, 3, 20}).Draw(t, "main_decls")
		}
	case "pool":
		s.Launch = rapid.SampledFrom([]string{"literal", "loop", "varclosure", "named"}).Draw(t, "launch")
		s.Join = rapid.SampledFrom([]string{"mutex", "results"}).Draw(t, "join")
		s.Consumers = rapid.IntRange(2, 5).Draw(t, "consumers")
		s.Jobs = rapid.IntRange(1, 60).Draw(t, "jobs")
		s.A = rapid.IntRange(1, 9).Draw(t, "a")
		s.B = rapid.IntRange(0, 9).Draw(t, "b")
	case "pipeline":
		s.Launch = "literal"
		s.Jobs = rapid.IntRange(1, 40).Draw(t, "jobs")
		ns := rapid.IntRange(1, 3).Draw(t, "stages")
		for j := 0; j < ns; j++ {
			s.Stages = append(s.Stages, Stage{
				A:     rapid.IntRange(1, 20).Draw(t, "a"),
				B:     rapid.IntRange(0, 20).Draw(t, "b"),
				Mod:   rapid.SampledFrom([]int{0, 0, 2, 3, 7}).Draw(t, "mod"),
				Buf:   rapid.SampledFrom([]int{0, 0, 1, 3}).Draw(t, "sbuf"),
				Named: rapid.Bool().Draw(t, "named"),
				Recv:  rapid.SampledFrom([]string{"range", "commaok"}).Draw(t, "recv"),
			})
		}
		s.Sink = rapid.SampledFrom([]string{"main", "goroutine"}).Draw(t, "sink")
		s.B = rapid.IntRange(0, 1).Draw(t, "resbuf")
	case "ring":
		s.Launch = rapid.SampledFrom([]string{"literal", "named"}).Draw(t, "launch")
		s.Workers = genWorkers(t, 1, 4, 1)
		s.Rounds = rapid.IntRange(1, 25).Draw(t, "rounds")
		s.A = rapid.IntRange(0, 50).Draw(t, "start")
	case "queues":
		s.Launch = "helper"
		s.Workers = genWorkers(t, 1, 4, 15)
	case "racy":
		s.Launch = rapid.SampledFrom([]string{"literal", "loop", "varclosure", "nested", "global"}).Draw(t, "launch")
		s.Join = "wg"
		s.Workers = genWorkers(t, 2, 4, 150)
		op := rapid.SampledFrom([]string{"assign", "pluseq", "incr", "cond"}).Draw(t, "op")
		for i := range s.Workers {
			s.Workers[i].Op = op
			if s.Workers[i].N < 20 {
				s.Workers[i].N += 20
			}
		}
		s.MainOps = rapid.SampledFrom([]int{0, 50, 150}).Draw(t, "main_ops")
		if s.Launch != "global" {
			s.MainDecls = rapid.SampledFrom([]int{0, 0, 3, 20, 40}).Draw(t, "main_decls")
		}
	}
	return s
}

var syncKinds = []string{"mutexsum", "mutexsum", "fanin", "pool", "pipeline", "ring", "queues"}

func genProgram(t *rapid.T) Program {
	var p Program
	n := rapid.IntRange(1, 3).Draw(t, "scenarios")
	class2 := rapid.IntRange(0, 9).Draw(t, "class") < 4
	for i := 0; i < n; i++ {
		kind := rapid.SampledFrom(syncKinds).Draw(t, "kind")
		if class2 && i == 0 {
			kind = "racy"
		}
		p.Scens = append(p.Scens, genScenario(t, kind))
	}
	if class2 && n > 1 {
		// the racy scenario is not always the first one
		j := rapid.IntRange(0, n-1).Draw(t, "racy_pos")
		p.Scens[0], p.Scens[j] = p.Scens[j], p.Scens[0]
	}
	p.Overlap = n > 1 && rapid.IntRange(0, 2).Draw(t, "overlap") == 0
	return p
}
