package c08

// Development aids, not part of the check (the driver runs ^TestC08$ only).
// C08_DEV=go   : draw programs, compile the Go text with -race, compare with the generator's expectation
// C08_DEV=ego  : the same programs through the plain (non-race) ego binary
// C08_DEV=dump : print the texts

import (
	"bytes"
	"fmt"
	"os"
	"os/exec"
	"path/filepath"
	"strconv"
	"strings"
	"testing"

	"pgregory.net/rapid"
)

func devPrograms(t *testing.T) []Program {
	n := 12
	if v, err := strconv.Atoi(os.Getenv("C08_DEV_N")); err == nil {
		n = v
	}
	var ps []Program
	for _, c := range fixed() {
		ps = append(ps, c.Prog)
	}
	seed, _ := strconv.Atoi(os.Getenv("C08_DEV_SEED"))
	g := rapid.Custom(genProgram)
	for i := 0; i < n; i++ {
		ps = append(ps, g.Example(seed*1000+i))
	}
	return ps
}

func TestC08Dev(t *testing.T) {
	mode := os.Getenv("C08_DEV")
	if mode == "" {
		t.Skip("C08_DEV not set")
	}
	base := os.Getenv("VERIF_RUN_DIR")
	if base == "" {
		base = t.TempDir()
	}
	for i, p := range devPrograms(t) {
		want := expectedLines(p)
		switch mode {
		case "dump":
			fmt.Printf("===== program %d\n%s\n----- go\n%s\n----- expected\n%s\n", i, render(p, egoText, false), render(p, goText, true), wantText(want))
		case "go":
			if !p.hasSync() {
				continue
			}
			var goWant []Line
			for _, w := range want {
				if w.Judged {
					goWant = append(goWant, w)
				}
			}
			src := render(p, goText, true)
			g := runGo(filepath.Join(base, fmt.Sprintf("devgo-%d", i)), src)
			if g.err != nil || g.buildErr != "" || g.races > 0 || compare(outputLines(g.stdout), goWant) >= 0 {
				t.Errorf("program %d: err=%v build=%s races=%d\nstdout:\n%s\nwant:\n%s\nstderr:\n%s\nsrc:\n%s", i, g.err, g.buildErr, g.races, g.stdout, wantText(goWant), clip(g.stderr, 3000), src)
			} else {
				fmt.Printf("program %d: go ok (%d lines)\n", i, len(goWant))
			}
		case "ego":
			dir := filepath.Join(base, fmt.Sprintf("devego-%d", i))
			_ = os.MkdirAll(filepath.Join(dir, "bin"), 0o755)
			_ = os.MkdirAll(filepath.Join(dir, "home"), 0o755)
			ego := filepath.Join(dir, "bin", "ego")
			_ = os.Symlink("/verif/.bin/ego", ego)
			src := render(p, egoText, false)
			_ = os.WriteFile(filepath.Join(dir, "prog.ego"), []byte(src), 0o644)
			args := []string{"run"}
			if ty := os.Getenv("C08_DEV_TYPES"); ty != "" {
				args = append(args, "--types", ty)
			}
			if o := os.Getenv("C08_DEV_OPT"); o != "" {
				args = append(args, "--optimize", o)
			}
			cmd := exec.Command("timeout", append([]string{"300", ego}, append(args, "prog.ego")...)...)
			cmd.Dir = dir
			cmd.Env = []string{"HOME=" + filepath.Join(dir, "home"), "EGO_PATH=" + filepath.Join(dir, "bin"), "PATH=/usr/bin:/bin", "LANG=C", "EGO_LANG=en", "VERIF_YIELD=5:3"}
			var so, se bytes.Buffer
			cmd.Stdout, cmd.Stderr = &so, &se
			err := cmd.Run()
			if d := compare(outputLines(so.String()), want); d >= 0 || err != nil {
				t.Errorf("program %d: err=%v first diff line %d\nstdout:\n%s\nwant:\n%s\nstderr:\n%s\nsrc:\n%s", i, err, d, so.String(), wantText(want), clip(se.String(), 3000), src)
			} else {
				fmt.Printf("program %d: ego ok: %s\n", i, strings.ReplaceAll(strings.TrimSpace(so.String()), "\n", " | "))
			}
			_ = os.RemoveAll(dir)
		}
	}
}
