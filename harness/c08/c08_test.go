// Package c08 decides property C08, "Concurrent Ego programs cannot corrupt
// the interpreter":
//
//	For any Ego program that uses goroutines, channels, WaitGroups and mutexes,
//	the interpreter itself never performs an unsynchronized access to shared
//	state and never fails with a concurrent-map or similar fatal error, under
//	every scheduling. A program whose result is fully synchronized (its shared
//	state is only touched under a mutex or through channels) prints the same
//	result under every schedule and CPU count, and the same result Go prints.
//
// Every case is one generated program (congen_test.go) and a list of run
// configurations (GOMAXPROCS x yield seed:rate x --optimize x --types). The
// program is executed by the real CLI built with the Go race detector and the
// `verif` tag ($VERIF_BIN/ego-race, `ego run FILE`) once per configuration;
// VERIF_YIELD=seed:rate (hook H3) makes the bytecode dispatch loop call
// runtime.Gosched() at pseudo-random instruction counts.
//
// What is a violation (reading of the statement):
//
//   - A Go race detector report ("WARNING: DATA RACE") from the ego process.
//     An Ego program contains no Go code of its own: every memory access of the
//     process is performed by the interpreter or its runtime packages on behalf
//     of the program, so every report is an unsynchronized access by "the
//     interpreter itself". This holds for class 2 too: the unsynchronised
//     scalar of a class 2 program lives in a symbol-table slot of a scope that
//     goByteCode marks `shared`, and tables.go/get.go/set.go promise that every
//     access to a shared table takes the table lock; the user-level race (lost
//     updates, any printed value) is allowed, a Go-level race on the slot, the
//     name map or the value bins is not. Reports are classified by the first
//     frame inside github.com/tucats/ego of both accesses; a report with no ego
//     frame on either side (third-party start-up goroutine) is recorded as a
//     label and not judged.
//   - A Go `fatal error:` (concurrent map access, unlock of unlocked mutex,
//     all goroutines asleep) or an unrecovered Go panic of the ego process.
//   - Class 1 only: stdout differs from the result the generator computed, or
//     the run ends with an Ego error. The same expected result is checked
//     against the Go text of the program, compiled with the real Go toolchain
//     and -race (which also confirms that the class 1 scenarios are data-race
//     free as Go programs); a disagreement there is a generator defect and is
//     reported with a "HARNESS" signature so that it cannot pass silently.
//
// A run that exceeds the wall-clock limit is killed and the case is
// Inconclusive, never a violation.
//
// Preconditions taken from the documentation (docs/LANGUAGE.md "Threads",
// "sync" package): channels are written `chan` / `make(chan, n)`; WaitGroup and
// Mutex values are passed to named functions by address; wg.Add precedes the go
// statement; a program ends when main returns, so every program joins its
// goroutines before printing; map elements are created before goroutines update
// them (reading a missing key yields nil in Ego, not 0).
package c08

import (
	"bytes"
	"context"
	"encoding/json"
	"fmt"
	"os"
	"os/exec"
	"path/filepath"
	"regexp"
	"sort"
	"strconv"
	"strings"
	"sync"
	"sync/atomic"
	"syscall"
	"testing"
	"time"

	"github.com/tucats/ego/verif/vkit"
	"pgregory.net/rapid"
)

// RunCfg is one execution configuration of a program.
type RunCfg struct {
	Procs     int    `json:"procs"`      // GOMAXPROCS
	YieldSeed uint64 `json:"yield_seed"` // VERIF_YIELD=seed:rate; rate 0 = no injected yields
	YieldRate uint64 `json:"yield_rate"`
	Opt       int    `json:"opt"`             // --optimize N; -1 = option not given
	Types     string `json:"types,omitempty"` // --types X; "" = option not given
}

func (r RunCfg) String() string {
	return fmt.Sprintf("GOMAXPROCS=%d VERIF_YIELD=%d:%d optimize=%d types=%q", r.Procs, r.YieldSeed, r.YieldRate, r.Opt, r.Types)
}

// Case is a program and the configurations it is run under.
type Case struct {
	Prog Program  `json:"prog"`
	Runs []RunCfg `json:"runs"`
}

// ---------------------------------------------------------------- running

const (
	goBin = "/opt/veriftools/go1.26.8/bin/go"
	// GORACE: keep running after a report so that all reports of a run are
	// collected; no sleep at exit.
	goRace = "halt_on_error=0 exitcode=66 atexit_sleep_ms=0"
)

var (
	setupOnce sync.Once
	setupErr  error
	rootDir   string
	egoPath   string
	caseSeq   int
	seqMu     sync.Mutex
	runLimit  = 300 * time.Second
	lanes     = 4 // configurations of one case executed at the same time
)

func setup() {
	setupOnce.Do(func() {
		bin := os.Getenv("VERIF_BIN")
		if bin == "" {
			bin = filepath.Join(vkit.Root(), ".bin")
		}
		real := filepath.Join(bin, "ego-race")
		if _, err := os.Stat(real); err != nil {
			setupErr = fmt.Errorf("ego-race binary: %v", err)
			return
		}
		base := os.Getenv("VERIF_RUN_DIR")
		if base == "" {
			base, setupErr = os.MkdirTemp("", "c08-")
			if setupErr != nil {
				return
			}
		}
		if v, err := strconv.Atoi(os.Getenv("C08_LANES")); err == nil && v >= 1 && v <= 16 {
			lanes = v
		}
		if v := os.Getenv("C08_RUN_LIMIT_S"); v != "" {
			if d, err := time.ParseDuration(v + "s"); err == nil {
				runLimit = d
			}
		}
		rootDir = filepath.Join(base, fmt.Sprintf("c08-%d-%d", vkit.ShardIndex(), os.Getpid()))
		// ego takes the directory of argv[0] / EGO_PATH as its library location
		// and unpacks the embedded library there on first use: run it through a
		// link inside the scratch directory so nothing is written next to the
		// real binary.
		if setupErr = os.MkdirAll(filepath.Join(rootDir, "bin"), 0o755); setupErr != nil {
			return
		}
		egoPath = filepath.Join(rootDir, "bin", "ego-race")
		if setupErr = os.Symlink(real, egoPath); setupErr != nil {
			return
		}
		for l := 0; l < lanes; l++ {
			if setupErr = os.MkdirAll(filepath.Join(rootDir, fmt.Sprintf("home-%d", l)), 0o755); setupErr != nil {
				return
			}
		}
		// warm-up: the first run creates the profile and unpacks the library
		warm := "package main\n\nimport \"fmt\"\n\nfunc main() {\n    fmt.Println(\"warm\")\n}\n"
		for l := 0; l < lanes; l++ {
			r := runEgo(filepath.Join(rootDir, "warm"), l, RunCfg{Procs: 2, Opt: -1}, warm, 4*runLimit)
			if r.err != nil || r.timedOut || !strings.Contains(r.stdout, "warm") {
				setupErr = fmt.Errorf("warm-up run failed: err=%v timeout=%v exit=%d stdout=%q stderr=%q", r.err, r.timedOut, r.exit, r.stdout, clip(r.stderr, 2000))
				return
			}
		}
	})
}

type result struct {
	stdout, stderr string
	exit           int
	timedOut       bool
	err            error
}

func runEgo(dir string, lane int, cfg RunCfg, src string, limit time.Duration) result {
	if err := os.MkdirAll(dir, 0o755); err != nil {
		return result{err: err}
	}
	file := "prog.ego"
	if err := os.WriteFile(filepath.Join(dir, file), []byte(src), 0o644); err != nil {
		return result{err: err}
	}
	args := []string{"run"}
	if cfg.Opt >= 0 {
		args = append(args, "--optimize", fmt.Sprint(cfg.Opt))
	}
	if cfg.Types != "" {
		args = append(args, "--types", cfg.Types)
	}
	args = append(args, file)
	ctx, cancel := context.WithTimeout(context.Background(), limit)
	defer cancel()
	cmd := exec.CommandContext(ctx, egoPath, args...)
	cmd.Dir = dir
	cmd.SysProcAttr = &syscall.SysProcAttr{Setpgid: true}
	cmd.Cancel = func() error { return syscall.Kill(-cmd.Process.Pid, syscall.SIGKILL) }
	cmd.WaitDelay = 10 * time.Second
	// PATH is empty on purpose: at start-up ego asks gopsutil for the host
	// description, which runs /usr/bin/lsb_release when it is found.
	cmd.Env = []string{
		"HOME=" + filepath.Join(rootDir, fmt.Sprintf("home-%d", lane)),
		"EGO_PATH=" + filepath.Join(rootDir, "bin"),
		"PATH=/nonexistent", "LANG=C", "EGO_LANG=en",
		fmt.Sprintf("GOMAXPROCS=%d", cfg.Procs),
		"GORACE=" + goRace,
		"GOTRACEBACK=all",
	}
	if cfg.YieldRate > 0 {
		cmd.Env = append(cmd.Env, fmt.Sprintf("VERIF_YIELD=%d:%d", cfg.YieldSeed, cfg.YieldRate))
	}
	so, se := &watchBuf{}, &watchBuf{}
	cmd.Stdout, cmd.Stderr = so, se
	if err := cmd.Start(); err != nil {
		return result{err: err}
	}
	// A run that has printed an Ego "Error:" line is a failure whatever
	// follows; when a goroutine died of it, main usually waits for it for
	// ever. Give the process a grace period to end by itself, then stop it
	// instead of waiting for the wall-clock limit.
	stop := make(chan struct{})
	var killedEarly atomic.Bool
	go func() {
		tick := time.NewTicker(2 * time.Second)
		defer tick.Stop()
		var seen time.Time
		for {
			select {
			case <-stop:
				return
			case <-tick.C:
				if seen.IsZero() && (so.sawError() || se.sawError()) {
					seen = time.Now()
				}
				if !seen.IsZero() && time.Since(seen) > 20*time.Second {
					killedEarly.Store(true)
					_ = syscall.Kill(-cmd.Process.Pid, syscall.SIGKILL)
					return
				}
			}
		}
	}()
	err := cmd.Wait()
	close(stop)
	r := result{stdout: so.String(), stderr: se.String()}
	if ctx.Err() == context.DeadlineExceeded || killedEarly.Load() {
		r.timedOut = true
		return r
	}
	if err != nil {
		if ee, ok := err.(*exec.ExitError); ok && ee.ProcessState.Exited() {
			r.exit = ee.ExitCode()
		} else {
			r.err = err
		}
	}
	return r
}

// watchBuf collects output and remembers whether a line starting with
// "Error:" has been written.
type watchBuf struct {
	mu  sync.Mutex
	b   bytes.Buffer
	err bool
}

func (w *watchBuf) Write(p []byte) (int, error) {
	w.mu.Lock()
	defer w.mu.Unlock()
	w.b.Write(p)
	if !w.err && (bytes.HasPrefix(w.b.Bytes(), []byte("Error:")) || bytes.Contains(w.b.Bytes(), []byte("\nError:"))) {
		w.err = true
	}
	return len(p), nil
}

func (w *watchBuf) sawError() bool {
	w.mu.Lock()
	defer w.mu.Unlock()
	return w.err
}

func (w *watchBuf) String() string {
	w.mu.Lock()
	defer w.mu.Unlock()
	return w.b.String()
}

// goResult is what the Go text of the program does.
type goResult struct {
	stdout   string
	races    int
	buildErr string
	stderr   string
	timedOut bool
	err      error
}

func runGo(dir, src string) goResult {
	if err := os.MkdirAll(dir, 0o755); err != nil {
		return goResult{err: err}
	}
	defer os.RemoveAll(dir)
	if err := os.WriteFile(filepath.Join(dir, "main.go"), []byte(src), 0o644); err != nil {
		return goResult{err: err}
	}
	if err := os.WriteFile(filepath.Join(dir, "go.mod"), []byte("module c08ref\n\ngo 1.26\n"), 0o644); err != nil {
		return goResult{err: err}
	}
	bin := filepath.Join(dir, "ref")
	build := exec.Command(goBin, "build", "-race", "-o", bin, ".")
	build.Dir = dir
	build.Env = append(os.Environ(), "GOFLAGS=-mod=mod", "GOPROXY=off", "GOTOOLCHAIN=local", "GOSUMDB=off", "GOWORK=off")
	if out, err := build.CombinedOutput(); err != nil {
		return goResult{buildErr: string(out)}
	}
	ctx, cancel := context.WithTimeout(context.Background(), runLimit)
	defer cancel()
	cmd := exec.CommandContext(ctx, bin)
	cmd.Env = append(os.Environ(), "GORACE="+goRace, "GOMAXPROCS=4")
	var so, se bytes.Buffer
	cmd.Stdout, cmd.Stderr = &so, &se
	err := cmd.Run()
	g := goResult{stdout: so.String(), stderr: se.String()}
	g.races = strings.Count(g.stderr, "WARNING: DATA RACE")
	if ctx.Err() == context.DeadlineExceeded {
		g.timedOut = true
		return g
	}
	if err != nil && g.races == 0 {
		g.err = fmt.Errorf("go reference program failed: %v: %s", err, clip(g.stderr, 1500))
	}
	return g
}

func clip(s string, n int) string {
	if len(s) > n {
		return s[:n] + "…"
	}
	return s
}

// ---------------------------------------------------------------- race reports

// report is one "WARNING: DATA RACE" block: the first ego frame of each of the
// two accesses.
type report struct {
	top     [2]string
	culprit string // see culpritOf
	raw     string
}

var accessRE = regexp.MustCompile(`^(Read|Write|Previous read|Previous write|Atomic read|Atomic write|Previous atomic read|Previous atomic write) at 0x[0-9a-f]+ by (main goroutine|goroutine \d+):`)

const egoMod = "github.com/tucats/ego/"

func shortFrame(f string) string {
	f = strings.TrimSuffix(strings.TrimSpace(f), "()")
	f = strings.TrimPrefix(f, egoMod)
	f = strings.TrimPrefix(f, "internal/")
	return f
}

func parseReports(stderr string) []report {
	var reps []report
	for _, block := range strings.Split(stderr, "==================") {
		if !strings.Contains(block, "WARNING: DATA RACE") {
			continue
		}
		r := report{raw: strings.TrimSpace(block)}
		var frames [2][]string // ego frames of the two accesses, innermost first
		acc := -1
		for _, line := range strings.Split(block, "\n") {
			switch {
			case accessRE.MatchString(line):
				acc++
			case strings.TrimSpace(line) == "":
				if acc >= 1 {
					acc = 99
				}
			case strings.HasPrefix(line, "Goroutine "):
				acc = 99
			case acc >= 0 && acc < 2 && strings.HasPrefix(line, "  ") && !strings.HasPrefix(line, "      "):
				if strings.HasPrefix(strings.TrimSpace(line), egoMod) {
					frames[acc] = append(frames[acc], shortFrame(line))
				}
			}
		}
		for a := 0; a < 2; a++ {
			if len(frames[a]) == 0 {
				continue
			}
			r.top[a] = frames[a][0]
			if r.culprit == "" {
				r.culprit = culpritOf(frames[a])
			}
		}
		reps = append(reps, r)
	}
	return reps
}

// culpritOf recognises an access that is illegitimate by itself, whatever the
// other goroutine was doing at that moment. Such a report is named by the
// culprit alone ("<culprit> / any"): the other side, and which helper the
// culprit happens to be in, vary from run to run for one and the same cause,
// and a signature per frame pair would list one defect many times.
func culpritOf(frames []string) string {
	has := func(i int, suffix string) bool { return i < len(frames) && strings.HasSuffix(frames[i], suffix) }
	// An access made by the start-up (or wind-down) code of a new Ego goroutine
	// itself: bytecode.GoRoutine and what it calls, outside the dispatch loop
	// of the goroutine's own context.
	for _, f := range frames {
		if strings.HasSuffix(f, "bytecode.(*Context).RunFromAddress") || strings.HasSuffix(f, "bytecode.(*Context).Run") {
			break
		}
		if strings.HasSuffix(f, "bytecode.GoRoutine") {
			return "bytecode.GoRoutine's own start-up code (outside the new context's dispatch loop)"
		}
	}
	// The type check of a declared parameter reads through a pointer argument
	// (the program only passed the address).
	// (directly, or in the conformance check it calls: data.TypeOf etc.)
	argCheck, viaArg := false, false
	for i := 0; i < 4; i++ {
		argCheck = argCheck || has(i, "bytecode.requiredTypeByteCodeImpl")
	}
	for i := 1; i < 7; i++ {
		viaArg = viaArg || has(i, "fetchArgValue")
	}
	if argCheck && viaArg {
		return "the type check of a pointer argument reads the pointee (requiredTypeByteCodeImpl <- fetchArgValue)"
	}
	// Running a deferred call rewrites the boundary flag of the deferring
	// function's symbol table, which goroutines started there still walk.
	if has(0, "symbols.(*SymbolTable).Boundary") && (has(1, "invokeDeferredStatements") || has(1, "invokePanicDefers")) {
		return "a deferred call rewrites the boundary flag of the deferring function's table (SymbolTable.Boundary <- invokeDeferredStatements)"
	}
	return ""
}

func (r report) sig() string {
	if r.culprit != "" {
		return "data race: " + r.culprit + " / any"
	}
	a, b := r.top[0], r.top[1]
	if a == "" {
		a = "<no ego frame>"
	}
	if b == "" {
		b = "<no ego frame>"
	}
	if b < a {
		a, b = b, a
	}
	return "data race: " + a + " / " + b
}

func (r report) inEgo() bool { return r.top[0] != "" || r.top[1] != "" }

var fatalRE = regexp.MustCompile(`(?m)^(fatal error: .*|panic: .*)$`)

// goFailure finds a Go runtime fatal error or unrecovered panic in stderr and
// names it by its message and the first ego frame of the trace that follows.
func goFailure(stderr string) (sig string, found bool) {
	loc := fatalRE.FindStringIndex(stderr)
	if loc == nil {
		return "", false
	}
	msg := stderr[loc[0]:loc[1]]
	// strip addresses and values from the message
	msg = regexp.MustCompile(`0x[0-9a-f]+|\d+`).ReplaceAllString(msg, "N")
	frame := ""
	for _, line := range strings.Split(stderr[loc[1]:], "\n") {
		if strings.HasPrefix(line, egoMod) {
			if i := strings.LastIndex(line, "("); i > 0 {
				line = line[:i]
			}
			frame = shortFrame(line)
			break
		}
	}
	return clip(msg, 120) + " @ " + frame, true
}

// ---------------------------------------------------------------- oracle

func outputLines(s string) []string {
	var ls []string
	for _, l := range strings.Split(s, "\n") {
		l = strings.TrimRight(l, "\r ")
		if l != "" {
			ls = append(ls, l)
		}
	}
	return ls
}

// compare checks the output lines against the expected ones; it returns the
// index of the first line that differs (-1 = all good).
func compare(got []string, want []Line) int {
	for i, w := range want {
		if i >= len(got) {
			return i
		}
		if w.Judged {
			if got[i] != fmt.Sprintf("%s %d", w.Prefix, w.Value) {
				return i
			}
		} else if !strings.HasPrefix(got[i], w.Prefix+" ") {
			return i
		}
	}
	if len(got) > len(want) {
		return len(want)
	}
	return -1
}

func wantText(want []Line) string {
	var b strings.Builder
	for _, w := range want {
		if w.Judged {
			fmt.Fprintf(&b, "%s %d\n", w.Prefix, w.Value)
		} else {
			fmt.Fprintf(&b, "%s <any value>\n", w.Prefix)
		}
	}
	return b.String()
}

func oracle(c Case) (out vkit.Outcome) {
	setup()
	if setupErr != nil {
		out.Skip = "setup: " + clip(setupErr.Error(), 200)
		return out
	}
	if len(c.Prog.Scens) == 0 || len(c.Runs) == 0 {
		out.Skip = "empty case"
		return out
	}
	egoSrc := render(c.Prog, egoText, false)
	want := expectedLines(c.Prog)
	class := "class1 (synchronized)"
	if c.Prog.hasRacy() {
		class = "class2 (unsynchronised scalar)"
	}

	seqMu.Lock()
	caseSeq++
	seq := caseSeq
	seqMu.Unlock()
	dir := filepath.Join(rootDir, fmt.Sprintf("case-%06d", seq))
	defer os.RemoveAll(dir)

	// non-triviality: a scenario in which >= 2 goroutines touch the shared object
	maxG := 0
	for _, s := range c.Prog.Scens {
		if g := s.goroutines(); g > maxG {
			maxG = g
		}
	}
	out.NonTrivial = maxG >= 2
	out.Key = fmt.Sprintf("%x|%v", vkit.Hash64(egoSrc), c.Runs)

	labels := map[string]bool{class: true, fmt.Sprintf("scenarios=%d", len(c.Prog.Scens)): true}
	if c.Prog.Overlap {
		labels["scenarios run concurrently"] = true
	}
	for _, s := range c.Prog.Scens {
		labels["kind="+s.Kind] = true
		labels["kind="+s.Kind+" launch="+s.Launch] = true
		if s.Join != "" {
			labels["kind="+s.Kind+" join="+s.Join] = true
		}
		labels["place="+s.Place] = true
		if s.MainOps > 0 {
			labels["main goroutine takes part"] = true
		}
		if s.MainDecls >= 20 {
			labels["main declares >=20 variables in the captured scope meanwhile"] = true
		}
		if s.Kind == "mutexsum" || s.Kind == "fanin" || s.Kind == "pool" || s.Kind == "pipeline" || s.Kind == "ring" || s.Kind == "queues" {
			if s.Buf == 0 {
				labels["unbuffered data channel"] = true
			} else {
				labels["buffered data channel"] = true
			}
		}
	}
	defer func() {
		for l := range labels {
			out.Labels = append(out.Labels, l)
		}
		sort.Strings(out.Labels)
	}()

	// 1. the Go text of the synchronized part: validates the generator's
	// expectation and that the scenarios are race free as Go programs.
	if c.Prog.hasSync() {
		goSrc := render(c.Prog, goText, true)
		var goWant []Line
		for _, w := range want {
			if w.Judged {
				goWant = append(goWant, w)
			}
		}
		g := runGo(filepath.Join(dir, "go"), goSrc)
		switch {
		case g.err != nil || g.timedOut:
			out.Inconclusive = "go reference could not be run"
			return out
		case g.buildErr != "":
			out.Fail = &vkit.Failure{Sig: "HARNESS generator: Go text does not compile", Observed: g.buildErr + "\n--- go text ---\n" + goSrc, Expected: "a valid Go program"}
			return out
		case g.races > 0:
			out.Fail = &vkit.Failure{Sig: "HARNESS generator: the Go race detector reports a race in a class 1 program", Observed: clip(g.stderr, 4000) + "\n--- go text ---\n" + goSrc, Expected: "a data-race-free Go program"}
			return out
		}
		if d := compare(outputLines(g.stdout), goWant); d >= 0 {
			kind := "?"
			if d < len(goWant) {
				kind = goWant[d].Kind + " launch=" + goWant[d].Launch
			}
			out.Fail = &vkit.Failure{Sig: "HARNESS generator: Go prints a different result than the generator computed, kind=" + kind, Observed: g.stdout + "\n--- go text ---\n" + goSrc, Expected: wantText(goWant)}
			return out
		}
		labels["go reference agrees with the generator"] = true
	}

	// 2. the configurations, `lanes` at a time
	res := make([]result, len(c.Runs))
	var wg sync.WaitGroup
	sem := make(chan int, lanes)
	for l := 0; l < lanes; l++ {
		sem <- l
	}
	for i, cfg := range c.Runs {
		wg.Add(1)
		go func(i int, cfg RunCfg) {
			defer wg.Done()
			lane := <-sem
			defer func() { sem <- lane }()
			res[i] = runEgo(filepath.Join(dir, fmt.Sprintf("run-%d", i)), lane, cfg, egoSrc, runLimit)
		}(i, cfg)
	}
	wg.Wait()

	// 3. verdict; precedence: fatal error / panic, race report, output
	type verdict struct {
		rank int
		f    *vkit.Failure
	}
	// One failure is reported per case: the gravest one whose signature is not
	// already listed as a known finding (so that a pervasive known defect does
	// not hide another failure of the same case); a known one otherwise.
	var worst *verdict
	consider := func(rank int, f *vkit.Failure) {
		if knownSigs()[f.Sig] {
			rank += 100
		}
		if worst == nil || rank < worst.rank {
			worst = &verdict{rank, f}
		}
	}
	observed := func(cfg RunCfg, r result, extra string) string {
		return fmt.Sprintf("%s\n%s\nexit=%d\n--- program (prog.ego) ---\n%s\n--- stdout ---\n%s\n--- stderr ---\n%s\n--- reproduce ---\nGOMAXPROCS=%d VERIF_YIELD=%d:%d GORACE=%q $VERIF_BIN/ego-race run%s%s prog.ego",
			cfg, extra, r.exit, egoSrc, r.stdout, clip(r.stderr, 6000), cfg.Procs, cfg.YieldSeed, cfg.YieldRate, goRace, optArg(cfg), typesArg(cfg))
	}
	timeouts := 0
	for i, cfg := range c.Runs {
		r := res[i]
		labels[fmt.Sprintf("run GOMAXPROCS=%d", cfg.Procs)] = true
		if cfg.YieldRate > 0 {
			labels["run with injected yields"] = true
		} else {
			labels["run without injected yields"] = true
		}
		labels[fmt.Sprintf("run optimize=%d", cfg.Opt)] = true
		labels[fmt.Sprintf("run types=%q", cfg.Types)] = true
		if r.err != nil {
			out.Inconclusive = "could not run ego-race"
			return out
		}
		if msg := egoError(r); msg != "" {
			// The program (or one of its goroutines, in which case main may
			// wait forever and the run is killed) ended with an Ego run-time
			// or compile error. None of the generated programs contains an
			// error, and a class 2 program's race cannot produce one either
			// (every value is an int).
			consider(2, &vkit.Failure{Sig: fmt.Sprintf("ego error %q; goroutine started from a closure variable=%v optimize=%d", msg, usesVarClosure(c.Prog), cfg.Opt),
				Observed: observed(cfg, r, fmt.Sprintf("timed out=%v; %s", r.timedOut, class)), Expected: "the program runs to its end without an error\n" + wantText(want)})
			continue
		}
		if r.timedOut {
			timeouts++
			continue
		}
		if sig, ok := goFailure(r.stderr); ok {
			consider(0, &vkit.Failure{Sig: "go runtime failure: " + sig, Observed: observed(cfg, r, ""), Expected: "no fatal error and no Go panic in the interpreter"})
			continue
		}
		reps := parseReports(r.stderr)
		for _, rep := range reps {
			if !rep.inEgo() {
				labels["race report without any ego frame (not judged)"] = true
				continue
			}
			consider(1, &vkit.Failure{Sig: rep.sig(), Observed: observed(cfg, r, fmt.Sprintf("%d race report(s); %s\n--- the report this signature is taken from ---\n%s", len(reps), class, clip(rep.raw, 5000))), Expected: "no unsynchronized access inside the interpreter (no race report)"})
		}
		got := outputLines(r.stdout)
		if d := compare(got, want); d >= 0 {
			kind, judged := "<extra output>", true
			if d < len(want) {
				kind, judged = want[d].Kind+" launch="+want[d].Launch, want[d].Judged
			}
			how := "prints a different value"
			if d >= len(got) {
				how = "output ends early"
				if r.exit != 0 && r.exit != 66 {
					how = "run ends with an error"
				}
			}
			if !judged {
				// the line of a class 2 scenario is missing or malformed: the
				// program did not run to its end
				how = "class 2 scenario did not finish: " + how
			}
			consider(2, &vkit.Failure{Sig: fmt.Sprintf("stdout: %s, kind=%s", how, kind), Observed: observed(cfg, r, fmt.Sprintf("first differing line: %d", d)), Expected: wantText(want)})
			continue
		}
		if r.exit != 0 && r.exit != 66 {
			consider(3, &vkit.Failure{Sig: "exit status not 0 although the output is complete", Observed: observed(cfg, r, ""), Expected: "exit status 0"})
		}
	}
	if worst != nil {
		labels["outcome: a run failed (violation or known finding)"] = true
		out.Fail = worst.f
		return out
	}
	if timeouts > 0 {
		labels["outcome: a run was killed at the wall-clock limit"] = true
		out.Inconclusive = "a run exceeded the wall-clock limit"
		return out
	}
	labels["outcome: all runs clean"] = true
	return out
}

var (
	knownOnce sync.Once
	knownSet  = map[string]bool{}
)

// knownSigs reads the signatures recorded for C08 in the known-findings file
// the run uses (the same file vkit reads).
func knownSigs() map[string]bool {
	knownOnce.Do(func() {
		p := os.Getenv("VERIF_KNOWN")
		if p == "" {
			p = filepath.Join(vkit.Root(), "known_findings.json")
		}
		b, err := os.ReadFile(p)
		if err != nil {
			return
		}
		var kf struct {
			Findings []struct {
				Property string `json:"property"`
				Sig      string `json:"sig"`
			} `json:"findings"`
		}
		if json.Unmarshal(b, &kf) != nil {
			return
		}
		for _, k := range kf.Findings {
			if k.Property == "C08" {
				knownSet[k.Sig] = true
			}
		}
	})
	return knownSet
}

var (
	errLineRE = regexp.MustCompile(`(?m)^Error: (.*)$`)
	errAtRE   = regexp.MustCompile(`^at .*?\(line \d+\), |^at line \d+(:\d+)?, `)
)

// egoError returns the normalised text of the first "Error:" line ego printed
// (location and the offending name removed), or "".
func egoError(r result) string {
	m := errLineRE.FindStringSubmatch(r.stdout + "\n" + r.stderr)
	if m == nil {
		return ""
	}
	msg := errAtRE.ReplaceAllString(m[1], "")
	if i := strings.Index(msg, ":"); i > 0 {
		msg = msg[:i]
	}
	return clip(strings.TrimSpace(msg), 80)
}

func usesVarClosure(p Program) bool {
	for _, s := range p.Scens {
		if s.Launch == "varclosure" {
			return true
		}
	}
	return false
}

func optArg(c RunCfg) string {
	if c.Opt >= 0 {
		return fmt.Sprintf(" --optimize %d", c.Opt)
	}
	return ""
}

func typesArg(c RunCfg) string {
	if c.Types != "" {
		return " --types " + c.Types
	}
	return ""
}

// ---------------------------------------------------------------- generator of cases

var procsList = []int{1, 2, 4, 16}

func genCase(t *rapid.T) Case {
	c := Case{Prog: genProgram(t)}
	// every GOMAXPROCS value twice: once with injected yields, and once
	// either with a second yield seed (always, for GOMAXPROCS=1, where
	// nothing else interleaves the goroutines) or without yields (the race
	// detector then sees the natural overlap).
	opt := rapid.SampledFrom([]int{-1, -1, 0, 1, 2, 3}).Draw(t, "optimize")
	types := rapid.SampledFrom([]string{"", "", "dynamic", "relaxed", "strict"}).Draw(t, "types")
	for _, p := range procsList {
		c.Runs = append(c.Runs, RunCfg{Procs: p, Opt: opt, Types: types,
			YieldSeed: rapid.Uint64Range(1, 1<<20).Draw(t, "yield_seed"),
			YieldRate: rapid.SampledFrom([]uint64{2, 3, 7, 19, 61}).Draw(t, "yield_rate")})
		second := RunCfg{Procs: p, Opt: opt, Types: types}
		if p == 1 || rapid.Bool().Draw(t, "second_yield") {
			second.YieldSeed = rapid.Uint64Range(1, 1<<20).Draw(t, "yield_seed2")
			second.YieldRate = rapid.SampledFrom([]uint64{2, 5, 11, 37}).Draw(t, "yield_rate2")
		}
		c.Runs = append(c.Runs, second)
	}
	return c
}

// fixed: one hand-picked program per scenario kind and launch form, so that
// every form is exercised in every run whatever the seed.
func fixed() []Case {
	w := func(n, d int) Worker { return Worker{N: n, D: d} }
	runs := []RunCfg{
		{Procs: 1, YieldSeed: 11, YieldRate: 3, Opt: -1},
		{Procs: 2, YieldSeed: 12, YieldRate: 7, Opt: -1},
		{Procs: 4, Opt: -1},
		{Procs: 16, YieldSeed: 13, YieldRate: 19, Opt: -1},
	}
	progs := []Program{
		{Scens: []Scenario{
			{Kind: "mutexsum", Place: "main", Launch: "loop", Join: "wg", DeferDone: true, Extra: "slice", MainOps: 7, MainDecls: 20, Workers: []Worker{w(30, 1), w(20, 2), w(10, 3)}},
			{Kind: "mutexsum", Place: "func", Launch: "global", Join: "done", Buf: 0, DeferUnlock: true, Workers: []Worker{w(25, 2), w(25, 5)}},
		}},
		{Overlap: true, Scens: []Scenario{
			{Kind: "fanin", Place: "func", Launch: "named", Join: "close", Buf: 2, Workers: []Worker{{N: 8, Base: 100, Step: 3}, {N: 8, Base: 7, Step: 0}, {N: 5, Base: 300, Step: 1}}},
			{Kind: "pipeline", Place: "func", Launch: "literal", Jobs: 30, Buf: 0, Sink: "goroutine", Stages: []Stage{{A: 3, B: 1, Mod: 3, Buf: 1, Named: true, Recv: "commaok"}, {A: 7, B: 2, Buf: 0, Recv: "range"}}},
			{Kind: "pool", Place: "func", Launch: "varclosure", Join: "mutex", Consumers: 3, Jobs: 40, A: 3, B: 2, DeferDone: true},
		}},
		{Scens: []Scenario{
			{Kind: "racy", Place: "main", Launch: "literal", Join: "wg", DeferDone: true, MainOps: 150, MainDecls: 40, Workers: []Worker{{N: 150, D: 1, Op: "assign"}, {N: 150, D: 2, Op: "assign"}, {N: 100, D: 3, Op: "assign"}}},
			{Kind: "ring", Place: "main", Launch: "named", Buf: 0, Rounds: 10, A: 5, Workers: []Worker{w(1, 2), w(1, 3)}},
			{Kind: "queues", Place: "func", Launch: "helper", Buf: 1, Workers: []Worker{w(10, 3), w(5, 2)}},
		}},
		{Scens: []Scenario{
			{Kind: "racy", Place: "func", Launch: "nested", Join: "wg", MainOps: 50, Workers: []Worker{{N: 120, D: 1, Op: "pluseq"}, {N: 120, D: 1, Op: "pluseq"}}},
			{Kind: "racy", Place: "func", Launch: "global", Join: "wg", MainOps: 50, Workers: []Worker{{N: 120, D: 1, Op: "incr"}, {N: 120, D: 1, Op: "incr"}}},
			{Kind: "pool", Place: "main", Launch: "named", Join: "results", Consumers: 4, Jobs: 25, A: 2, B: 4},
		}},
	}
	var cs []Case
	for _, p := range progs {
		cs = append(cs, Case{Prog: p, Runs: runs})
	}
	return cs
}

func TestC08(t *testing.T) {
	vkit.Run(t, vkit.Spec[Case]{
		ID:    "C08",
		Level: "exploration",
		Rule: "congen programs: 1-3 scenarios (run one after the other or, overlapped, as goroutines of main) out of mutexsum (k goroutines add to an int / append to a slice / update a map under a sync.Mutex; joined by WaitGroup or done channel), fanin (k producers, one channel, receive-by-count or close+range, sorted receipts), pool (main feeds a job channel, 2-5 consumers, results under a mutex or through a channel), pipeline (source, 1-3 stages, sink; close propagates), ring (token passed through 1-4 hops), queues (helper functions returning a channel fed by a goroutine they started) and racy (class 2: 2-4 goroutines and main update one captured local or package variable with no synchronisation); goroutines are function literals (go func(){}(), in a loop block, via a variable, nested) and named functions with arguments (values, channels, *sync.Mutex, *sync.WaitGroup, *int); channels buffered and unbuffered. " +
			"Each program runs under ego-race with GOMAXPROCS 1,2,4,16 x 2 yield configurations (x --optimize, --types). Violation: race report with an ego frame, Go fatal error/panic, (class 1) stdout != generator's result; timeout = inconclusive. " +
			"Non-trivial: some scenario has >= 2 goroutines touching its shared object (always, by construction); distinct by program text x run configurations.",
		Assumptions: []string{
			"every memory access of the ego process is an access by the interpreter: any race report with an ego frame counts, also for the class 2 program's shared symbol-table slot",
			"the dispatch loop's own atomic instruction counter (and H3's tick counter) order instructions of different goroutines for the race detector; only accesses of instructions that overlap in time (or are separated by an injected yield) can be reported",
			"a run killed after the wall-clock limit is inconclusive",
			"the Go text is compiled by the real toolchain with -race; its output must equal the generator's expected result",
		},
		Gen:      genCase,
		Oracle:   oracle,
		Fixed:    fixed,
		Quick:    3,
		Thorough: 8,
	})
}
