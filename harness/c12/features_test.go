package c12

// Feature snippets for the generated programs. Tracing prints the operands of
// every instruction and the profiler and debugger look at every statement, so
// what matters for C12 is which kinds of value and which runtime calls pass
// through a program: channels (send, receive, close, len), goroutines joined by
// a WaitGroup or a channel, mutexes, structs with value and pointer receivers,
// maps, slices, type switches, function values and calls into the runtime
// packages. Every snippet is deterministic (goroutines only communicate through
// channels that are read in a fixed order or summed) and prints tagged lines.

import (
	"fmt"

	"pgregory.net/rapid"
)

var featureNames = []string{
	"chan-buffered", "chan-close-then-drain", "goroutines-waitgroup", "goroutine-literal-done",
	"mutex", "struct-methods", "map-ops", "slice-sort", "strings-strconv", "json-errors-math",
	"type-switch", "func-value",
}

func (g *pgen) feature(indent int, c ctx, role string) {
	name := rapid.SampledFrom(featureNames).Draw(g.t, "feature")
	g.features[name]++
	g.uniq++
	u := g.uniq
	all := append(append([]string{}, c.vars...), c.ro...)
	v := g.pick("fv", all)
	k := rapid.IntRange(1, 4).Draw(g.t, "fk")
	switch name {
	case "chan-buffered":
		g.w(indent, "ch%d := make(chan, %d)", u, k)
		g.w(indent, "for j%d := 0; j%d < %d; j%d = j%d + 1 {", u, u, k, u, u)
		g.w(indent+1, "ch%d <- j%d + %s", u, u, v)
		g.w(indent, "}")
		g.w(indent, "r%d := <-ch%d", u, u)
		g.print(indent, "channel receive", fmt.Sprintf("r%d", u), fmt.Sprintf("len(ch%d)", u))
		if rapid.Bool().Draw(g.t, "closeit") {
			g.w(indent, "close(ch%d)", u)
			g.print(indent, "channel closed", fmt.Sprintf("len(ch%d)", u))
		}
	case "chan-close-then-drain":
		g.w(indent, "ch%d := make(chan, %d)", u, k)
		g.w(indent, "for j%d := 0; j%d < %d; j%d = j%d + 1 {", u, u, k, u, u)
		g.w(indent+1, "ch%d <- j%d * %s", u, u, v)
		g.w(indent, "}")
		g.w(indent, "close(ch%d)", u)
		g.w(indent, "s%d := 0", u)
		g.w(indent, "for j%d := 0; j%d < %d; j%d = j%d + 1 {", u, u, k, u, u)
		g.w(indent+1, "s%d = s%d + <-ch%d", u, u, u)
		g.w(indent, "}")
		g.print(indent, "channel drained after close", fmt.Sprintf("s%d", u))
	case "goroutines-waitgroup":
		g.imports["sync"] = true
		fmt.Fprintf(&g.topDecls, "func worker%d(id int, ch chan, wg *sync.WaitGroup) {\n    ch <- id * 10 + 1\n    wg.Done()\n}\n\n", u)
		g.w(indent, "var wg%d sync.WaitGroup", u)
		g.w(indent, "res%d := make(chan, %d)", u, k)
		g.w(indent, "for j%d := 0; j%d < %d; j%d = j%d + 1 {", u, u, k, u, u)
		g.w(indent+1, "wg%d.Add(1)", u)
		g.w(indent+1, "go worker%d(j%d + %s, res%d, &wg%d)", u, u, v, u, u)
		g.w(indent, "}")
		g.w(indent, "wg%d.Wait()", u)
		g.w(indent, "s%d := 0", u)
		g.w(indent, "for j%d := 0; j%d < %d; j%d = j%d + 1 {", u, u, k, u, u)
		g.w(indent+1, "s%d = s%d + <-res%d", u, u, u)
		g.w(indent, "}")
		if rapid.Bool().Draw(g.t, "closeres") {
			g.w(indent, "close(res%d)", u)
		}
		g.print(indent, "goroutines joined", fmt.Sprintf("s%d", u))
	case "goroutine-literal-done":
		g.w(indent, "done%d := make(chan)", u)
		g.w(indent, "go func() {")
		g.w(indent+1, "done%d <- %s + %d", u, v, k)
		g.w(indent, "}()")
		g.w(indent, "d%d := <-done%d", u, u)
		g.print(indent, "goroutine result", fmt.Sprintf("d%d", u))
	case "mutex":
		g.imports["sync"] = true
		g.w(indent, "var mu%d sync.Mutex", u)
		g.w(indent, "mu%d.Lock()", u)
		g.w(indent, "%s = %s + %d", c.vars[0], c.vars[0], k)
		g.w(indent, "mu%d.Unlock()", u)
		g.print(indent, "after mutex", c.vars[0])
	case "struct-methods":
		g.imports["strconv"] = true
		if !g.haveAcct {
			g.haveAcct = true
			g.topDecls.WriteString("type Acct struct {\n    Name string\n    Bal  int\n}\n\nfunc (a *Acct) Dep(n int) {\n    a.Bal = a.Bal + n\n}\n\nfunc (a Acct) Desc() string {\n    return a.Name + \":\" + strconv.Itoa(a.Bal)\n}\n\n")
		}
		g.w(indent, "ac%d := Acct{Name: \"n%d\", Bal: %s}", u, k, v)
		g.w(indent, "pa%d := &ac%d", u, u)
		g.w(indent, "pa%d.Dep(%d)", u, k)
		g.print(indent, "struct and methods", fmt.Sprintf("ac%d.Desc()", u), fmt.Sprintf("ac%d", u))
	case "map-ops":
		g.w(indent, "mp%d := map[string]int{\"a\": %s, \"b\": %d}", u, v, k)
		g.w(indent, "mp%d[\"c\"] = %d", u, k+1)
		g.w(indent, "delete(mp%d, \"a\")", u)
		g.w(indent, "mv%d, ok%d := mp%d[\"a\"]", u, u, u)
		g.print(indent, "map operations", fmt.Sprintf("len(mp%d)", u), fmt.Sprintf("mv%d", u), fmt.Sprintf("ok%d", u), fmt.Sprintf("mp%d[\"c\"]", u))
	case "slice-sort":
		g.imports["sort"] = true
		g.w(indent, "sl%d := []int{5, %s, 9}", u, v)
		g.w(indent, "sl%d = append(sl%d, %d)", u, u, k)
		g.w(indent, "sort.Ints(sl%d)", u)
		g.print(indent, "slice sorted", fmt.Sprintf("sl%d", u), fmt.Sprintf("sl%d[1:3]", u))
	case "strings-strconv":
		g.imports["strings"] = true
		g.imports["strconv"] = true
		g.w(indent, "st%d := strings.Repeat(\"ab\", %d) + strconv.Itoa(%s)", u, k, v)
		g.w(indent, "cv%d, ce%d := strconv.Atoi(\"%dx\")", u, u, k)
		g.print(indent, "strings and strconv", fmt.Sprintf("strings.ToUpper(st%d)", u), fmt.Sprintf("strings.Split(\"a,b,c\", \",\")"), fmt.Sprintf("cv%d", u), fmt.Sprintf("ce%d", u))
	case "json-errors-math":
		g.imports["json"] = true
		g.imports["errors"] = true
		g.imports["math"] = true
		g.w(indent, "jb%d, _ := json.Marshal(map[string]int{\"k\": %s})", u, v)
		g.w(indent, "er%d := errors.New(\"e%d\")", u, k)
		g.print(indent, "json errors math", fmt.Sprintf("string(jb%d)", u), fmt.Sprintf("er%d", u), fmt.Sprintf("math.Sqrt(%d.0)", k*k))
	case "type-switch":
		g.w(indent, "var iv%d interface{} = %s", u, v)
		if k%2 == 0 {
			g.w(indent, "iv%d = \"s%d\"", u, k)
		}
		g.w(indent, "switch tv%d := iv%d.(type) {", u, u)
		g.w(indent, "case int:")
		g.print(indent+1, "type switch int", fmt.Sprintf("tv%d", u))
		g.w(indent, "case string:")
		g.print(indent+1, "type switch string", fmt.Sprintf("tv%d", u))
		g.w(indent, "}")
	case "func-value":
		g.w(indent, "fn%d := func(q int) int { return q * %d }", u, k)
		g.w(indent, "fl%d := []int{fn%d(%s), fn%d(%d)}", u, u, v, u, k)
		g.print(indent, "function value", fmt.Sprintf("fl%d", u))
	}
}
