package c12

// handPrograms are small hand-written programs, one language feature area
// each, in the style of the corpus under /repo/tests and /repo/examples; every
// output line is tagged. A name ending in "-dynamic" is only run with
// --types dynamic.
var handPrograms = map[string]string{
	"recursion-and-loops": `package main

import "fmt"

func fact(n int) int {
    if n <= 1 {
        return 1
    }
    return n * fact(n-1)
}

func fib(n int) int {
    a := 0
    b := 1
    for i := 0; i < n; i = i + 1 {
        t := a + b
        a = b
        b = t
    }
    return a
}

func main() {
    for i := 0; i < 6; i = i + 1 {
        fmt.Println("T0:", i, fact(i), fib(i))
    }
    total := 0
    for _, v := range []int{3, 1, 4, 1, 5} {
        total = total + v
        if v == 4 {
            continue
        }
        fmt.Println("T1:", v, total)
    }
    fmt.Println("T2:", total)
}
`,
	"defer-order": `package main

import "fmt"

func work(n int) int {
    defer fmt.Println("T0: first registered", n)
    defer func() {
        fmt.Println("T1: closure defer", n)
    }()
    for i := 0; i < n; i = i + 1 {
        defer fmt.Println("T2: loop defer", i)
    }
    fmt.Println("T3: body", n)
    return n * 2
}

func early(n int) int {
    defer fmt.Println("T4: early defer", n)
    if n > 1 {
        return 1
    }
    fmt.Println("T5: not early")
    return 0
}

func main() {
    fmt.Println("T6:", work(3))
    fmt.Println("T7:", early(2), early(0))
    defer fmt.Println("T8: main defer")
    fmt.Println("T9: end of main")
}
`,
	"try-catch-nesting": `package main

import "fmt"

func risky(n int) int {
    defer fmt.Println("T0: risky defer", n)
    d := n - 2
    return 10 / d
}

func main() {
    for i := 0; i < 4; i = i + 1 {
        try {
            fmt.Println("T1: try", i)
            v := risky(i)
            fmt.Println("T2: value", v)
        } catch (e) {
            fmt.Println("T3: caught", e)
        }
    }
    try {
        try {
            a := []int{1}
            fmt.Println("T4:", a[3])
        } catch (inner) {
            fmt.Println("T5: inner", inner)
            x := 0
            fmt.Println("T6:", 1 / x)
        }
    } catch (outer) {
        fmt.Println("T7: outer", outer)
    }
    fmt.Println("T8: done")
}
`,
	"closures-and-counters": `package main

import "fmt"

func counter(start int) func() int {
    n := start
    return func() int {
        n = n + 1
        return n
    }
}

func apply(f func(int) int, v int) int {
    return f(v)
}

func main() {
    c1 := counter(10)
    c2 := counter(100)
    for i := 0; i < 3; i = i + 1 {
        fmt.Println("T0:", c1(), c2())
    }
    double := func(x int) int { return x * 2 }
    fmt.Println("T1:", apply(double, 21))
    acc := 0
    add := func(x int) {
        acc = acc + x
    }
    for _, v := range []int{1, 2, 3} {
        add(v)
    }
    fmt.Println("T2:", acc)
}
`,
	"panic-recover": `package main

import "fmt"

func safe(n int) (r int) {
    defer func() {
        if x := recover(); x != nil {
            fmt.Println("T0: recovered", x)
        }
    }()
    if n > 1 {
        panic("too big")
    }
    return n
}

func main() {
    for i := 0; i < 3; i = i + 1 {
        fmt.Println("T1:", i, safe(i))
    }
    fmt.Println("T2: end")
}
`,
	"uncaught-error-in-callee": `package main

import "fmt"

func inner(a []int, i int) int {
    defer fmt.Println("T0: inner defer")
    return a[i]
}

func outer(i int) int {
    defer fmt.Println("T1: outer defer")
    v := inner([]int{1, 2, 3}, i)
    fmt.Println("T2: got", v)
    return v
}

func main() {
    for i := 1; i < 6; i = i + 2 {
        fmt.Println("T3: calling", i)
        fmt.Println("T4:", outer(i))
    }
    fmt.Println("T5: not reached")
}
`,
	"uncaught-panic": `package main

import "fmt"

func deep(n int) int {
    if n == 0 {
        panic("bottom")
    }
    return deep(n-1) + 1
}

func main() {
    defer fmt.Println("T0: main defer")
    for i := 0; i < 2; i = i + 1 {
        fmt.Println("T1:", i)
    }
    fmt.Println("T2:", deep(3))
    fmt.Println("T3: not reached")
}
`,
	"structs-and-methods": `package main

import "fmt"

type Account struct {
    name    string
    balance int
}

func (a *Account) deposit(n int) {
    a.balance = a.balance + n
}

func (a Account) describe() string {
    return fmt.Sprintf("%s has %d", a.name, a.balance)
}

func main() {
    acct := &Account{name: "sue", balance: 5}
    for i := 1; i <= 3; i = i + 1 {
        acct.deposit(i * 10)
        fmt.Println("T0:", acct.describe())
    }
    list := []Account{{name: "a", balance: 1}, {name: "b", balance: 2}}
    for i, x := range list {
        fmt.Println("T1:", i, x.describe())
    }
}
`,
	"switch-and-labels": `package main

import "fmt"

func classify(n int) string {
    switch {
    case n < 0:
        return "neg"
    case n == 0:
        return "zero"
    case n%2 == 0:
        return "even"
    default:
        return "odd"
    }
}

func main() {
    for i := -1; i < 4; i = i + 1 {
        fmt.Println("T0:", i, classify(i))
    }
    count := 0
    for i := 0; i < 5; i = i + 1 {
        for j := 0; j < 5; j = j + 1 {
            if j > i {
                break
            }
            count = count + 1
        }
    }
    fmt.Println("T1:", count)
    switch count % 4 {
    case 0:
        fmt.Println("T2: zero")
    case 1, 2:
        fmt.Println("T2: one or two")
    case 3:
        fmt.Println("T2: three")
    }
}
`,
	"strings-maps-arrays": `package main

import (
    "fmt"
    "strings"
)

func words(s string) []string {
    return strings.Split(s, " ")
}

func main() {
    m := map[string]int{}
    for _, w := range words("the quick brown fox jumps over the lazy dog the end") {
        m[w] = m[w] + 1
    }
    for _, k := range []string{"the", "fox", "cat"} {
        fmt.Println("T0:", k, m[k])
    }
    a := make([]int, 0)
    for i := 0; i < 5; i = i + 1 {
        a = append(a, i*i)
    }
    fmt.Println("T1:", a, len(a))
    fmt.Println("T2:", strings.ToUpper("abc"), strings.Repeat("x", 3))
}
`,
	"error-values": `package main

import (
    "errors"
    "fmt"
)

func check(n int) error {
    if n%2 == 1 {
        return errors.New("odd value")
    }
    return nil
}

func main() {
    for i := 0; i < 4; i = i + 1 {
        err := check(i)
        if err != nil {
            fmt.Println("T0:", i, err)
        } else {
            fmt.Println("T1:", i, "fine")
        }
    }
    try {
        x := int("12x")
        fmt.Println("T2:", x)
    } catch (e) {
        fmt.Println("T3: caught", e)
    }
    var p *int
    fmt.Println("T4: before")
    fmt.Println("T5:", *p)
}
`,
	"untyped-values-dynamic": `package main

import "fmt"

func describe(v interface{}) string {
    return fmt.Sprintf("%v", v)
}

func main() {
    x := 1
    for i := 0; i < 3; i = i + 1 {
        fmt.Println("T0:", describe(x))
        x = x * 2
    }
    y := 1.5
    y = y + 1
    fmt.Println("T1:", y)
    s := "n="
    s = s + string(65)
    fmt.Println("T2:", s)
}
`,
	"deferred-in-try": `package main

import "fmt"

func step(n int) int {
    defer fmt.Println("T0: step defer", n)
    try {
        if n == 2 {
            z := 0
            fmt.Println("T1:", n / z)
        }
        fmt.Println("T2: fine", n)
    } catch (e) {
        fmt.Println("T3: caught in step", e)
        return -1
    }
    return n
}

func main() {
    sum := 0
    for i := 0; i < 4; i = i + 1 {
        sum = sum + step(i)
    }
    fmt.Println("T4:", sum)
}
`,
}
