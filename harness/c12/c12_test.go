// Package c12 decides property C12, "Diagnostics modes do not change
// behaviour":
//
//	Running a program with statement profiling, bytecode tracing, or under the
//	interactive debugger with only 'continue' commands produces the same
//	program output and outcome as running it plainly.
//
// Every case is one Ego program whose every output line starts with a tag
// ("T7:"), so that what the program printed can be told apart from what a
// diagnostic mode prints (profile report, trace lines, debugger prompts). The
// program is run with the real CLI four times:
//
//	ego run [--types X] FILE                               (plain)
//	ego run --profile FILE                                 (statement profiling)
//	ego run --trace --log-file F FILE   or
//	ego --log TRACE --log-file F run FILE                  (bytecode tracing)
//	ego run --debug FILE   with "continue\n" lines on stdin (debugger)
//
// and the oracle requires of every diagnostic run: the same tagged lines in the
// same order (whole line text), the same exit status, the same "Error:" lines.
// Nothing is asserted about the diagnostic output itself.
//
// Programs: generated (functions, counted and range loops, if, switch,
// closures, try/catch, defer, run-time errors caught and uncaught, panic with
// recover; `:=` and `var x int` declarations; --types dynamic/relaxed/strict);
// hand-written feature programs; and the corpus under /repo/tests, converted
// mechanically to a `func main` (each `@test "name"` becomes a tagged print,
// each `@assert X` a tagged "ok"/"ASSERT FAILED" print) because test files
// cannot be run by `ego run` as they are. A corpus file is used only if the
// plain run of its conversion compiles; otherwise the case is skipped.
//
// Preconditions / assumptions (from internal/commands/run.go and `ego run
// --help`): the options exist under these names; the debugger reads its
// commands from stdin, and "continue" resumes until the program ends when no
// breakpoint is set; programs are single-threaded and deterministic (no
// goroutines, time, random numbers, map iteration).
package c12

import (
	"bytes"
	"fmt"
	"os"
	"os/exec"
	"path/filepath"
	"regexp"
	"sort"
	"strings"
	"sync"
	"testing"
	"time"

	"github.com/tucats/ego/verif/vkit"
	"pgregory.net/rapid"
)

// Case is one program and how to run it.
type Case struct {
	Kind     string            `json:"kind"`               // gen | hand | corpus
	Name     string            `json:"name,omitempty"`     // hand: program name; corpus: path below the repository
	Source   string            `json:"source"`             // gen: the program text
	Types    string            `json:"types"`              // dynamic | relaxed | strict
	TraceVia string            `json:"trace_via"`          // run (ego run --trace) | log (ego --log TRACE)
	Roles    map[string]string `json:"roles,omitempty"`    // tag -> what kind of statement prints it
	Features []string          `json:"features,omitempty"` // gen: feature snippets the program contains (label only)
}

// ---------------------------------------------------------------- running

var (
	setupOnce sync.Once
	setupErr  error
	rootDir   string
	egoPath   string // symlink to the binary inside the scratch directory
	repoDir   string
	caseSeq   int
)

var modes = []string{"plain", "profile", "trace", "debug"}

func setup() {
	setupOnce.Do(func() {
		bin := os.Getenv("VERIF_BIN")
		if bin == "" {
			bin = filepath.Join(vkit.Root(), ".bin")
		}
		real := filepath.Join(bin, "ego")
		if _, err := os.Stat(real); err != nil {
			setupErr = fmt.Errorf("ego binary: %v", err)
			return
		}
		repoDir = os.Getenv("VERIF_REPO")
		if repoDir == "" {
			repoDir = "/repo"
		}
		base := os.Getenv("VERIF_RUN_DIR")
		if base == "" {
			base, setupErr = os.MkdirTemp("", "c12-")
			if setupErr != nil {
				return
			}
		}
		rootDir = filepath.Join(base, fmt.Sprintf("c12-%d-%d", vkit.ShardIndex(), os.Getpid()))
		// ego takes the directory of argv[0] as its default library location
		// and unpacks the embedded library there (or into the working
		// directory) on first use: run it through a link inside the scratch
		// directory so that nothing is written next to the real binary.
		if setupErr = os.MkdirAll(filepath.Join(rootDir, "bin"), 0o755); setupErr != nil {
			return
		}
		egoPath = filepath.Join(rootDir, "bin", "ego")
		if setupErr = os.Symlink(real, egoPath); setupErr != nil {
			return
		}
		warm := "package main\nimport \"fmt\"\nfunc main() {\n    fmt.Println(\"T0: warm\")\n}\n"
		for _, m := range modes {
			if setupErr = os.MkdirAll(filepath.Join(rootDir, "home-"+m), 0o755); setupErr != nil {
				return
			}
			// twice: the first run creates the profile and unpacks the library
			for i := 0; i < 2; i++ {
				r := runMode(filepath.Join(rootDir, "warm"), "plain", m, Case{Source: warm, Types: "dynamic", TraceVia: "run"}, warm)
				if r.err != nil {
					setupErr = r.err
					return
				}
			}
		}
	})
}

type result struct {
	stdout, stderr string
	exit           int
	err            error
	hung           bool // blocked: every thread asleep and no CPU time used for 40 s; killed
}

// procState returns the CPU time (clock ticks, user+system) of a process and
// whether every one of its threads is in interruptible sleep.
func procState(pid int) (cpu int64, allSleeping bool) {
	tasks, err := os.ReadDir(fmt.Sprintf("/proc/%d/task", pid))
	if err != nil || len(tasks) == 0 {
		return -1, false
	}
	allSleeping = true
	for _, t := range tasks {
		b, err := os.ReadFile(fmt.Sprintf("/proc/%d/task/%s/stat", pid, t.Name()))
		if err != nil {
			return -1, false
		}
		text := string(b)
		i := strings.LastIndex(text, ")")
		if i < 0 {
			return -1, false
		}
		f := strings.Fields(text[i+1:])
		if len(f) < 13 {
			return -1, false
		}
		if f[0] != "S" {
			allSleeping = false
		}
		var ut, st int64
		fmt.Sscan(f[11], &ut)
		fmt.Sscan(f[12], &st)
		cpu += ut + st
	}
	return cpu, allSleeping
}

// runMode runs src in the given mode; home selects the HOME directory (one per
// mode, so that the four runs of a case can go in parallel without sharing a
// profile file).
func runMode(dir, mode, home string, c Case, src string) result {
	// one directory per mode, the same relative file name in each: the file
	// name is part of ego's error messages
	dir = filepath.Join(dir, mode)
	if err := os.MkdirAll(dir, 0o755); err != nil {
		return result{err: err}
	}
	file := "prog.ego"
	if err := os.WriteFile(filepath.Join(dir, file), []byte(src), 0o644); err != nil {
		return result{err: err}
	}
	var args []string
	runArgs := []string{"run"}
	if c.Types != "" && c.Types != "default" {
		runArgs = append(runArgs, "--types", c.Types)
	}
	if c.Kind == "corpus" {
		runArgs = append(runArgs, "--auto-import", "true")
	}
	var stdin string
	switch mode {
	case "plain":
		args = runArgs
	case "profile":
		args = append(runArgs, "--profile")
	case "trace":
		logf := "trace.log"
		if c.TraceVia == "log" {
			args = append([]string{"--log", "TRACE", "--log-file", logf}, runArgs...)
		} else {
			args = append(runArgs, "--trace", "--log-file", logf)
		}
	case "debug":
		args = append(runArgs, "--debug")
		stdin = strings.Repeat("continue\n", 400)
	}
	args = append(args, file)
	cmd := exec.Command(egoPath, args...)
	cmd.Dir = dir
	h := filepath.Join(rootDir, "home-"+home)
	// PATH is empty on purpose: at start-up ego asks gopsutil for the host
	// description, which runs /usr/bin/lsb_release (a shell script spawning
	// seven more processes) when it is found.
	cmd.Env = []string{"HOME=" + h, "EGO_PATH=" + filepath.Join(rootDir, "bin"), "PATH=/nonexistent", "LANG=C", "EGO_LANG=en"}
	cmd.Stdin = strings.NewReader(stdin)
	var so, se bytes.Buffer
	cmd.Stdout, cmd.Stderr = &so, &se
	if err := cmd.Start(); err != nil {
		return result{err: err}
	}
	waited := make(chan error, 1)
	go func() { waited <- cmd.Wait() }()
	var err error
	hung, capped := false, false
	idle, started := 0, time.Now()
	lastCPU := int64(-1)
watch:
	for {
		select {
		case err = <-waited:
			break watch
		case <-time.After(2 * time.Second):
		}
		// A blocked process is told from a starved one by what the kernel
		// says, not by the clock alone: every thread sleeping and the CPU time
		// of the process unchanged over 20 consecutive samples (40 s). A
		// process that is merely slow on a loaded machine is runnable or keeps
		// accumulating CPU time.
		cpu, allSleeping := procState(cmd.Process.Pid)
		if allSleeping && cpu == lastCPU {
			idle++
		} else {
			idle = 0
		}
		lastCPU = cpu
		if idle >= 20 {
			hung = true
		} else if time.Since(started) > 20*time.Minute {
			capped = true
		}
		if hung || capped {
			_ = cmd.Process.Kill()
			err = <-waited
			break watch
		}
	}
	r := result{stdout: so.String(), stderr: se.String(), hung: hung}
	if capped {
		r.err = fmt.Errorf("run exceeded 20 minutes")
		return r
	}
	if hung {
		return r
	}
	if err != nil {
		if ee, ok := err.(*exec.ExitError); ok && ee.ProcessState.Exited() {
			r.exit = ee.ExitCode()
		} else {
			r.err = err
		}
	}
	return r
}

var tagRE = regexp.MustCompile(`^T\d+:`)

var tryRE = regexp.MustCompile(`\btry\s*\{`)

func tagged(out string) []string {
	var ls []string
	for _, l := range strings.Split(out, "\n") {
		l = strings.TrimRight(l, "\r")
		if tagRE.MatchString(l) {
			ls = append(ls, l)
		}
	}
	return ls
}

func errorLines(r result) []string {
	var ls []string
	for _, l := range strings.Split(r.stdout+"\n"+r.stderr, "\n") {
		if strings.HasPrefix(l, "Error:") {
			ls = append(ls, strings.TrimRight(l, "\r "))
		}
	}
	return ls
}

func tagOf(line string) string {
	if i := strings.Index(line, ":"); i > 0 {
		return line[:i]
	}
	return ""
}

// ---------------------------------------------------------------- oracle

func oracle(c Case) vkit.Outcome {
	var out vkit.Outcome
	setup()
	if setupErr != nil {
		out.Skip = "setup: " + setupErr.Error()
		return out
	}
	src := c.Source
	switch c.Kind {
	case "hand":
		src = handPrograms[c.Name]
		if src == "" {
			out.Skip = "unknown hand-written program"
			return out
		}
	case "corpus":
		b, err := os.ReadFile(filepath.Join(repoDir, c.Name))
		if err != nil {
			out.Skip = "corpus file missing"
			return out
		}
		var why string
		src, why = convertTestFile(string(b))
		if why != "" {
			out.Skip = "corpus file not convertible"
			return out
		}
	}
	caseSeq++
	dir := filepath.Join(rootDir, fmt.Sprintf("case-%06d", caseSeq))
	defer os.RemoveAll(dir)

	res := make([]result, len(modes))
	var wg sync.WaitGroup
	for i, m := range modes {
		wg.Add(1)
		go func(i int, m string) {
			defer wg.Done()
			res[i] = runMode(dir, m, m, c, src)
		}(i, m)
	}
	wg.Wait()
	for _, r := range res {
		if r.err != nil {
			out.Inconclusive = "could not run ego"
			return out
		}
	}
	plain := res[0]
	if plain.hung {
		out.Skip = "the plain run itself blocks"
		return out
	}
	want := tagged(plain.stdout)
	wantErr := errorLines(plain)

	if c.Kind == "corpus" && len(want) == 0 {
		// the conversion does not compile as a program (or prints nothing)
		out.Skip = "corpus conversion does not run"
		return out
	}

	// classification
	hasLoop := strings.Contains(src, "for ")
	hasCall := regexp.MustCompile(`\b(f\d+|boom|c\d+|rec|[a-z][A-Za-z0-9_]*)\(`).MatchString(stripPrints(src)) && strings.Count(src, "func ") > 1
	out.NonTrivial = hasLoop && hasCall && len(want) >= 2
	out.Key = c.Kind + "|" + c.Name + "|" + c.Types + "|" + c.TraceVia + "|" + fmt.Sprint(vkit.Hash64(src))
	labels := map[string]bool{"kind=" + c.Kind: true, "types=" + c.Types: true, "trace-via=" + c.TraceVia: true}
	if plain.exit != 0 {
		labels["plain: ends with error"] = true
	} else {
		labels["plain: ends normally"] = true
	}
	for _, f := range []struct{ label, needle string }{
		{"has try/catch", "try {"}, {"has defer", "defer "}, {"has closure", ":= func("}, {"has loop", "for "},
		{"has switch", "switch "}, {"has panic", "panic("}, {"has recover", "recover()"}, {"has var-typed decl", "var "},
	} {
		if strings.Contains(src, f.needle) {
			labels[f.label] = true
		}
	}
	for _, f := range c.Features {
		labels["feature: "+f] = true
	}
	roleSeen := map[string]bool{}
	for _, l := range want {
		if r := rolesFromCase(c, src)[tagOf(l)]; r != "" && !roleSeen[r] {
			roleSeen[r] = true
			labels["executed role: "+r] = true
		}
	}
	switch {
	case len(want) < 5:
		labels["tagged lines <5"] = true
	case len(want) < 20:
		labels["tagged lines 5-19"] = true
	default:
		labels["tagged lines >=20"] = true
	}
	for l := range labels {
		out.Labels = append(out.Labels, l)
	}
	sort.Strings(out.Labels)

	roles := c.Roles
	if len(roles) == 0 {
		roles = rolesFromSource(src)
	}
	role := func(line string) string {
		if line == "" {
			return "<end of output>"
		}
		if r := roles[tagOf(line)]; r != "" {
			return r
		}
		return "other"
	}
	plainOutcome := "ends normally"
	switch {
	case plain.exit == 0:
	case strings.Contains(strings.Join(wantErr, "\n"), "unhandled panic"):
		plainOutcome = "unhandled panic"
	case len(wantErr) > 0 && len(want) > 0:
		plainOutcome = "run-time error"
	default:
		plainOutcome = "error"
	}
	for i, m := range modes {
		if i == 0 {
			continue
		}
		got := tagged(res[i].stdout)
		gotErr := errorLines(res[i])
		if res[i].hung && !plain.hung {
			out.Fail = &vkit.Failure{Sig: fmt.Sprintf("mode=%s: the run blocks for ever (every thread asleep, no CPU use) where the plain run ends; plain run: %s", m, plainOutcome),
				Observed: fmt.Sprintf("mode=%s killed after 40 s of every thread sleeping without using CPU time; plain exit=%d\n--- program ---\n%s\n--- tagged lines, plain ---\n%s\n--- tagged lines, %s, before it blocked ---\n%s", m, plain.exit, src, strings.Join(want, "\n"), m, strings.Join(got, "\n")),
				Expected: "the run ends like the plain run"}
			return out
		}
		observed := func() string {
			return fmt.Sprintf("mode=%s exit=%d (plain exit=%d)\n--- program ---\n%s\n--- tagged lines, plain ---\n%s\n--- tagged lines, %s ---\n%s\n--- Error lines plain / %s ---\n%s\n/\n%s",
				m, res[i].exit, plain.exit, src, strings.Join(want, "\n"), m, strings.Join(got, "\n"), m, strings.Join(wantErr, "\n"), strings.Join(gotErr, "\n"))
		}
		// first difference in the tagged lines
		n := len(want)
		if len(got) < n {
			n = len(got)
		}
		diff := -1
		for k := 0; k < n; k++ {
			if want[k] != got[k] {
				diff = k
				break
			}
		}
		if diff < 0 && len(want) != len(got) {
			diff = n
		}
		if diff >= 0 {
			w, g := "", ""
			if diff < len(want) {
				w = want[diff]
			}
			if diff < len(got) {
				g = got[diff]
			}
			var sig string
			switch {
			case m == "debug" && tryRE.MatchString(src):
				// Under the debugger every try body is abandoned (finding
				// C12-1), which changes whatever the program computes from
				// then on: the first visible difference can be anywhere, so
				// it says nothing about the cause. One signature for the
				// whole region; programs without try keep the detailed ones.
				sig = "mode=debug: tagged lines differ in a program that uses try/catch"
			case w != "" && g != "" && tagOf(w) == tagOf(g):
				sig = fmt.Sprintf("mode=%s: same statement prints a different text, role=%s", m, role(w))
			case g != "" && role(g) == "catch":
				sig = fmt.Sprintf("mode=%s: a catch block runs that does not run in the plain run", m)
			default:
				sig = fmt.Sprintf("mode=%s: tagged lines differ, plain has %s where the mode has %s", m, role(w), role(g))
			}
			out.Fail = &vkit.Failure{Sig: sig, Observed: observed(), Expected: "the tagged lines of the plain run, in the same order"}
			return out
		}
		if (res[i].exit == 0) != (plain.exit == 0) || (res[i].exit != plain.exit) {
			out.Fail = &vkit.Failure{Sig: fmt.Sprintf("mode=%s: exit status differs (plain %d, mode %d); plain run: %s", m, plain.exit, res[i].exit, plainOutcome), Observed: observed(), Expected: fmt.Sprintf("exit status %d", plain.exit)}
			return out
		}
		if strings.Join(wantErr, "\n") != strings.Join(gotErr, "\n") {
			out.Fail = &vkit.Failure{Sig: fmt.Sprintf("mode=%s: Error: line differs; plain run: %s", m, plainOutcome), Observed: observed(), Expected: strings.Join(wantErr, "\n")}
			return out
		}
	}
	return out
}

// rolesFromSource classifies the tagged print statements of a program that
// carries no role table (hand-written, corpus) by the innermost try or catch
// block they are written in: "try body", "catch" or "other".
func rolesFromSource(src string) map[string]string {
	roles := map[string]string{}
	var stack []string
	tagIn := regexp.MustCompile(`"(T\d+):`)
	for _, line := range strings.Split(src, "\n") {
		t := strings.TrimSpace(line)
		if strings.HasPrefix(t, "}") && len(stack) > 0 {
			stack = stack[:len(stack)-1]
		}
		cur := "other"
		for i := len(stack) - 1; i >= 0; i-- {
			if stack[i] != "other" {
				cur = stack[i]
				break
			}
		}
		for _, m := range tagIn.FindAllStringSubmatch(line, -1) {
			if strings.Contains(line, "defer ") {
				roles[m[1]] = "deferred call"
			} else {
				roles[m[1]] = cur
			}
		}
		if strings.HasSuffix(t, "{") {
			switch {
			case strings.Contains(t, "catch"):
				stack = append(stack, "catch")
			case strings.HasPrefix(t, "try"):
				stack = append(stack, "try body")
			case strings.Contains(t, "func"):
				stack = append(stack, "func") // a function literal starts a new context
			default:
				stack = append(stack, "other")
			}
		}
	}
	for k, v := range roles {
		if v == "func" {
			roles[k] = "other"
		}
	}
	return roles
}

func rolesFromCase(c Case, src string) map[string]string {
	if len(c.Roles) > 0 {
		return c.Roles
	}
	return rolesFromSource(src)
}

var printRE = regexp.MustCompile(`fmt\.Println\([^\n]*\)`)

func stripPrints(s string) string { return printRE.ReplaceAllString(s, "") }

// ---------------------------------------------------------------- generator

type pgen struct {
	t       *rapid.T
	b       strings.Builder
	tag     int
	roles   map[string]string
	typed   bool
	closure int
	uniq    int
	useBoom bool
	// feature snippets (features.go): imports and top-level declarations they need
	imports  map[string]bool
	topDecls strings.Builder
	haveAcct bool
	features map[string]int
}

func (g *pgen) w(indent int, format string, args ...any) {
	g.b.WriteString(strings.Repeat("    ", indent))
	fmt.Fprintf(&g.b, format, args...)
	g.b.WriteString("\n")
}

func (g *pgen) newTag(role string) string {
	t := fmt.Sprintf("T%d", g.tag)
	g.tag++
	g.roles[t] = role
	return t
}

func (g *pgen) print(indent int, role string, exprs ...string) {
	t := g.newTag(role)
	args := append([]string{fmt.Sprintf("%q", t+":"), fmt.Sprintf("%q", role)}, exprs...)
	g.w(indent, "fmt.Println(%s)", strings.Join(args, ", "))
}

type ctx struct {
	vars     []string // int variables that may be read and assigned
	ro       []string // int values that may only be read (loop variables, parameters)
	callable []string // functions / closures taking one int and returning int
	inTry    bool
	depth    int
	topLevel bool // directly in a function body (defer allowed)
}

func (g *pgen) pick(name string, xs []string) string {
	return rapid.SampledFrom(xs).Draw(g.t, name)
}

func (g *pgen) intExpr(c ctx) string {
	all := append(append([]string{}, c.vars...), c.ro...)
	a := g.pick("ea", all)
	k := rapid.IntRange(1, 9).Draw(g.t, "k")
	switch rapid.IntRange(0, 5).Draw(g.t, "eform") {
	case 0:
		return fmt.Sprintf("%s + %d", a, k)
	case 1:
		return fmt.Sprintf("(%s * %d + %s) %% 1000", a, k, g.pick("eb", all))
	case 2:
		return fmt.Sprintf("%s - %s", a, g.pick("eb", all))
	case 3:
		return fmt.Sprintf("%s %% %d", a, k+1)
	case 4:
		return fmt.Sprintf("%d", k*7)
	default:
		return fmt.Sprintf("%s / %d", a, k)
	}
}

func (g *pgen) cond(c ctx) string {
	all := append(append([]string{}, c.vars...), c.ro...)
	a := g.pick("ca", all)
	switch rapid.IntRange(0, 3).Draw(g.t, "cform") {
	case 0:
		return fmt.Sprintf("%s %% 2 == 0", a)
	case 1:
		return fmt.Sprintf("%s > %s", a, g.pick("cb", all))
	case 2:
		return fmt.Sprintf("%s < %d", a, rapid.IntRange(0, 20).Draw(g.t, "ck"))
	default:
		return fmt.Sprintf("%s != %s && %s >= 0", a, g.pick("cb", all), a)
	}
}

// errStmt writes a statement that raises a run-time error.
func (g *pgen) errStmt(indent int, c ctx) {
	v := g.pick("errv", c.vars)
	g.uniq++
	switch rapid.IntRange(0, 4).Draw(g.t, "errkind") {
	case 0:
		g.w(indent, "z%d := 0", g.uniq)
		g.w(indent, "%s = %s / z%d", v, v, g.uniq)
	case 1:
		g.w(indent, "arr%d := []int{1, 2, 3}", g.uniq)
		g.w(indent, "%s = arr%d[%s %% 2 + 7]", v, g.uniq, v)
	case 2:
		g.w(indent, "%s = int(\"x\" + \"y\")", v)
	case 3:
		g.useBoom = true
		g.w(indent, "%s = boom(%s)", v, v)
	default:
		g.w(indent, "var p%d *int", g.uniq)
		g.w(indent, "%s = *p%d", v, g.uniq)
	}
}

func (g *pgen) stmts(indent int, c ctx, role string) {
	n := rapid.IntRange(1, 3).Draw(g.t, "nstmts")
	for i := 0; i < n; i++ {
		g.stmt(indent, c, role)
	}
}

func (g *pgen) stmt(indent int, c ctx, role string) {
	max := 12
	if c.depth <= 0 {
		max = 3
	}
	kind := rapid.IntRange(0, max).Draw(g.t, "stmt")
	all := append(append([]string{}, c.vars...), c.ro...)
	inner := c
	inner.depth--
	inner.topLevel = false
	switch kind {
	case 0:
		g.print(indent, role, all...)
	case 1:
		g.w(indent, "%s = %s", g.pick("lhs", c.vars), g.intExpr(c))
	case 2:
		if len(c.callable) > 0 {
			g.w(indent, "%s = %s(%s %% 5)", g.pick("lhs", c.vars), g.pick("callee", c.callable), g.pick("arg", all))
		} else {
			g.print(indent, role, all...)
		}
	case 3:
		if c.topLevel {
			if rapid.Bool().Draw(g.t, "deferclosure") {
				g.w(indent, "defer func() {")
				g.print(indent+1, "deferred closure", c.vars...)
				g.w(indent, "}()")
			} else {
				t := g.newTag("deferred call")
				g.w(indent, "defer fmt.Println(%q, \"deferred call\", %s)", t+":", g.pick("dv", all))
			}
		} else {
			g.print(indent, role, all...)
		}
	case 4:
		g.uniq++
		iv := fmt.Sprintf("i%d", g.uniq)
		g.w(indent, "for %s := 0; %s < %d; %s = %s + 1 {", iv, iv, rapid.IntRange(1, 4).Draw(g.t, "bound"), iv, iv)
		inner.ro = append(append([]string{}, c.ro...), iv)
		g.print(indent+1, "loop body", append(append([]string{}, c.vars...), inner.ro...)...)
		g.stmts(indent+1, inner, "loop body")
		g.w(indent, "}")
	case 5:
		g.uniq++
		xv := fmt.Sprintf("x%d", g.uniq)
		elems := rapid.SliceOfN(rapid.IntRange(0, 30), 1, 4).Draw(g.t, "elems")
		var es []string
		for _, e := range elems {
			es = append(es, fmt.Sprint(e))
		}
		g.w(indent, "for _, %s := range []int{%s} {", xv, strings.Join(es, ", "))
		inner.ro = append(append([]string{}, c.ro...), xv)
		g.print(indent+1, "range body", append(append([]string{}, c.vars...), inner.ro...)...)
		g.stmts(indent+1, inner, "range body")
		g.w(indent, "}")
	case 6:
		g.w(indent, "if %s {", g.cond(c))
		g.stmts(indent+1, inner, "if branch")
		if rapid.Bool().Draw(g.t, "else") {
			g.w(indent, "} else {")
			g.stmts(indent+1, inner, "else branch")
		}
		g.w(indent, "}")
	case 7:
		g.uniq++
		ev := fmt.Sprintf("e%d", g.uniq)
		g.w(indent, "try {")
		tr := inner
		tr.inTry = true
		g.stmts(indent+1, tr, "try body")
		switch rapid.IntRange(0, 2).Draw(g.t, "tryerr") {
		case 0: // no error
		case 1:
			g.errStmt(indent+1, tr)
			g.print(indent+1, "try body after error", c.vars...)
		default:
			g.stmts(indent+1, tr, "try body")
			g.errStmt(indent+1, tr)
		}
		g.w(indent, "} catch (%s) {", ev)
		g.print(indent+1, "catch", ev)
		if rapid.Bool().Draw(g.t, "catchmore") {
			g.stmts(indent+1, inner, "catch")
		}
		g.w(indent, "}")
		g.print(indent, "after try", c.vars...)
	case 8:
		g.closure++
		name := fmt.Sprintf("c%d", g.closure)
		g.w(indent, "%s := func(q int) int {", name)
		cl := inner
		cl.ro = append(append([]string{}, c.ro...), "q")
		cl.topLevel = true
		g.print(indent+1, "closure body", append(append([]string{}, c.vars...), cl.ro...)...)
		g.stmts(indent+1, cl, "closure body")
		g.w(indent+1, "return q + %s", g.pick("cv", c.vars))
		g.w(indent, "}")
		g.w(indent, "%s = %s(%s)", g.pick("lhs", c.vars), name, g.pick("carg", all))
		if rapid.Bool().Draw(g.t, "callagain") {
			g.w(indent, "%s = %s(%d)", g.pick("lhs", c.vars), name, rapid.IntRange(0, 9).Draw(g.t, "lit"))
		}
	case 10, 11, 12:
		g.feature(indent, c, role)
	default:
		g.w(indent, "switch %s %% 3 {", g.pick("sw", all))
		g.w(indent, "case 0:")
		g.stmts(indent+1, inner, "switch case")
		g.w(indent, "case 1:")
		g.stmts(indent+1, inner, "switch case")
		g.w(indent, "default:")
		g.stmts(indent+1, inner, "switch default")
		g.w(indent, "}")
	}
}

func (g *pgen) decl(indent int, name, expr string) {
	if g.typed {
		g.w(indent, "var %s int = %s", name, expr)
	} else {
		g.w(indent, "%s := %s", name, expr)
	}
}

func genProgram(t *rapid.T) Case {
	g := &pgen{t: t, roles: map[string]string{}, imports: map[string]bool{}, features: map[string]int{}}
	g.typed = rapid.Bool().Draw(t, "typed")
	nf := rapid.IntRange(1, 3).Draw(t, "nfuncs")
	var funcs []string
	var body strings.Builder
	for j := 0; j < nf; j++ {
		g.b.Reset()
		name := fmt.Sprintf("f%d", j)
		g.w(0, "func %s(n int) int {", name)
		g.decl(1, "a", fmt.Sprintf("n + %d", rapid.IntRange(0, 9).Draw(t, "a0")))
		g.decl(1, "b", fmt.Sprint(rapid.IntRange(0, 9).Draw(t, "b0")))
		g.print(1, "function entry", "n")
		c := ctx{vars: []string{"a", "b"}, ro: []string{"n"}, callable: append([]string{}, funcs...), depth: rapid.IntRange(1, 2).Draw(t, "fdepth"), topLevel: true}
		g.stmts(1, c, "function body")
		// a guaranteed loop with a call when an earlier function exists
		if j > 0 && rapid.Bool().Draw(t, "loopcall") {
			g.w(1, "for k := 0; k < 2; k = k + 1 {")
			g.w(2, "a = a + %s(k)", funcs[rapid.IntRange(0, len(funcs)-1).Draw(t, "lc")])
			g.w(1, "}")
		}
		g.print(1, "function exit", "a", "b")
		g.w(1, "return (a + b) %% 1000")
		g.w(0, "}")
		g.w(0, "")
		body.WriteString(g.b.String())
		funcs = append(funcs, name)
	}
	g.b.Reset()
	g.w(0, "func main() {")
	g.decl(1, "a", fmt.Sprint(rapid.IntRange(0, 9).Draw(t, "ma")))
	g.decl(1, "b", fmt.Sprint(rapid.IntRange(0, 9).Draw(t, "mb")))
	g.print(1, "start", "a", "b")
	c := ctx{vars: []string{"a", "b"}, callable: append([]string{}, funcs...), depth: 2, topLevel: true}
	// main always has a loop that calls a function: the non-triviality rule
	g.w(1, "for m := 0; m < %d; m = m + 1 {", rapid.IntRange(1, 3).Draw(t, "mainloop"))
	g.w(2, "a = a + %s(m + b %% 3)", funcs[rapid.IntRange(0, len(funcs)-1).Draw(t, "mf")])
	g.print(2, "main loop", "a", "b", "m")
	g.w(1, "}")
	n := rapid.IntRange(1, 4).Draw(t, "mainstmts")
	for i := 0; i < n; i++ {
		g.stmt(1, c, "main body")
	}
	// most programs carry at least one feature snippet (channels, goroutines,
	// structs, maps, runtime packages): tracing formats every value it meets
	for i := rapid.IntRange(0, 2).Draw(t, "mainfeatures"); i > 0; i-- {
		g.feature(1, c, "main body")
	}
	switch rapid.IntRange(0, 5).Draw(t, "ending") {
	case 0:
		g.errStmt(1, c)
		g.print(1, "after uncaught error", "a", "b")
	case 1:
		g.w(1, "panic(\"final panic\")")
	default:
	}
	g.print(1, "end", "a", "b")
	g.w(0, "}")
	mainText := g.b.String()

	var src strings.Builder
	src.WriteString("package main\n\nimport (\n    \"fmt\"\n")
	for _, imp := range []string{"errors", "json", "math", "sort", "strconv", "strings", "sync"} {
		if g.imports[imp] {
			src.WriteString("    \"" + imp + "\"\n")
		}
	}
	src.WriteString(")\n\n")
	src.WriteString(g.topDecls.String())
	if g.useBoom {
		g.b.Reset()
		g.w(0, "func boom(n int) int {")
		t1 := g.newTag("deferred call")
		g.w(1, "defer fmt.Println(%q, \"deferred call in boom\", n)", t1+":")
		g.w(1, "z := 0")
		g.print(1, "function entry", "n")
		g.w(1, "return n / z")
		g.w(0, "}")
		g.w(0, "")
		src.WriteString(g.b.String())
	}
	src.WriteString(body.String())
	src.WriteString(mainText)
	return Case{
		Kind:     "gen",
		Source:   src.String(),
		Types:    rapid.SampledFrom([]string{"dynamic", "dynamic", "relaxed", "strict"}).Draw(t, "types"),
		TraceVia: rapid.SampledFrom([]string{"run", "run", "log"}).Draw(t, "tracevia"),
		Roles:    g.roles,
		Features: featureList(g.features),
	}
}

func featureList(m map[string]int) []string {
	var out []string
	for k := range m {
		out = append(out, k)
	}
	sort.Strings(out)
	return out
}

// ---------------------------------------------------------------- corpus

var (
	testRE      = regexp.MustCompile(`^\s*@test\s+(".*")\s*$`)
	assertRE    = regexp.MustCompile(`^(\s*)@assert\s+(.+?)\s*$`)
	directiveRE = regexp.MustCompile(`^\s*@([a-z]+)`)
)

// convertTestFile turns an `ego test` file into a program for `ego run`: the
// whole file becomes the body of main, `@test "x"` a tagged print of the name
// and each one-line `@assert X` a tagged print of whether X held. Files using
// anything else that only exists in test mode are refused (why != "").
func convertTestFile(text string) (src string, why string) {
	var b strings.Builder
	b.WriteString("package main\n\nfunc main() {\n")
	tag := 0
	for _, line := range strings.Split(text, "\n") {
		trim := strings.TrimSpace(line)
		switch {
		case strings.HasPrefix(trim, "import ") || strings.HasPrefix(trim, "package "):
			return "", "import/package statement"
		case testRE.MatchString(line):
			m := testRE.FindStringSubmatch(line)
			fmt.Fprintf(&b, "fmt.Println(\"T%d:\", \"test\", %s)\n", tag, m[1])
			tag++
		case assertRE.MatchString(line):
			m := assertRE.FindStringSubmatch(line)
			expr := m[2]
			if i := strings.Index(expr, "//"); i >= 0 && !strings.Contains(expr[:i], "\"") {
				expr = strings.TrimSpace(expr[:i])
			}
			if strings.Count(expr, "(") != strings.Count(expr, ")") || strings.HasSuffix(expr, "&&") || strings.HasSuffix(expr, "||") || strings.Contains(expr, "T.") {
				return "", "multi-line or T. assert"
			}
			fmt.Fprintf(&b, "%sif %s {\n%s    fmt.Println(\"T%d:\", \"ok\")\n%s} else {\n%s    fmt.Println(\"T%d:\", \"ASSERT FAILED\")\n%s}\n", m[1], expr, m[1], tag, m[1], m[1], tag, m[1])
			tag++
		case directiveRE.MatchString(line):
			return "", "directive @" + directiveRE.FindStringSubmatch(line)[1]
		default:
			if strings.Contains(line, "T.") && regexp.MustCompile(`\bT\.[A-Za-z]`).MatchString(line) {
				return "", "uses T."
			}
			b.WriteString(line + "\n")
		}
	}
	b.WriteString("}\n")
	if tag < 2 {
		return "", "no tests"
	}
	return b.String(), ""
}

// corpusFiles is the part of /repo/tests whose conversion compiles and runs
// deterministically under `ego run` (found with TestC12Survey).
var corpusFiles = []string{
	"tests/base64/base64.ego",
	"tests/builtins/delete.ego",
	"tests/builtins/len.ego",
	"tests/builtins/make.ego",
	"tests/builtins/typeof.ego",
	"tests/cast/bool.ego",
	"tests/cast/nil.ego",
	"tests/cast/numeric.ego",
	"tests/cast/string.ego",
	"tests/datamodel/coerce.ego",
	"tests/datamodel/float32.ego",
	"tests/datamodel/math_functions.ego",
	"tests/datamodel/operator_precedence.ego",
	"tests/datamodel/slices.ego",
	"tests/datamodel/arraycasts.ego",
	"tests/datamodel/interfaces_parms.ego",
	"tests/datamodel/embedded_types.ego",
	"tests/defer/named_returns.ego",
	"tests/errors/in_at_clone.ego",
	"tests/flow/defer_scope.ego",
	"tests/flow/for_loopvar.ego",
	"tests/flow/for_range_advanced.ego",
	"tests/flow/for_shared_scope.ego",
	"tests/flow/qualified_increment.ego",
	"tests/flow/scope_unwind.ego",
	"tests/flow/simple_increment_stack_leak.ego",
	"tests/flow/while_loop.ego",
	"tests/flow/if_expressions.ego",
	"tests/functions/returns.ego",
	"tests/functions/func_arg_return.ego",
	"tests/json/json_scalar.ego",
	"tests/json/parse.ego",
	"tests/math/aggregate.ego",
	"tests/math/powers.ego",
	"tests/math/rounding.ego",
	"tests/sort/generic_sort.ego",
	"tests/sort/issorted.ego",
	"tests/sort/search.ego",
	"tests/sort/stable.ego",
	"tests/strconv/atoi_itoa.ego",
	"tests/strconv/parse.ego",
	"tests/strconv/roman.ego",
	"tests/strings/builder.ego",
	"tests/strings/search.ego",
	"tests/strings/split_join.ego",
	"tests/strings/transform.ego",
	"tests/types/append_type_check.ego",
	"tests/types/make_map.ego",
	"tests/types/scalar_types.ego",
	"tests/types/struct_field_type_collision.ego",
}

// ---------------------------------------------------------------- fixed

func fixed() []Case {
	var cs []Case
	var names []string
	for n := range handPrograms {
		names = append(names, n)
	}
	sort.Strings(names)
	for i, n := range names {
		types := []string{"dynamic", "relaxed", "strict"}[i%3]
		if strings.HasSuffix(n, "-dynamic") {
			types = "dynamic"
		}
		cs = append(cs, Case{Kind: "hand", Name: n, Types: types, TraceVia: []string{"run", "log"}[i%2]})
	}
	for i, f := range corpusFiles {
		cs = append(cs, Case{Kind: "corpus", Name: f, Types: "dynamic", TraceVia: []string{"run", "log"}[i%2]})
	}
	return cs
}

func TestC12(t *testing.T) {
	vkit.Run(t, vkit.Spec[Case]{
		ID:    "C12",
		Level: "exploration",
		Rule: "generated programs (1-3 functions + main; counted/range loops, if, switch, closures, try/catch, defer, caught and uncaught run-time errors, final panic; := or var-typed declarations; --types dynamic/relaxed/strict), hand-written feature programs and converted /repo/tests files, every output line tagged; " +
			"each run plainly and with --profile, with tracing (run --trace or --log TRACE, log file given) and with --debug fed 'continue' lines; tagged lines, exit status and Error: lines must equal the plain run's. " +
			"Non-trivial: the program has a loop and a call of a user function and prints >= 2 tagged lines; distinct by program text x types x trace option.",
		Assumptions: []string{
			"programs are single-threaded and deterministic",
			"no line of diagnostic output starts with T<digits>: (profile report, trace lines and debugger prompts do not)",
			"'continue' with no breakpoint set runs the program to its end",
		},
		Gen:      genProgram,
		Oracle:   oracle,
		Fixed:    fixed,
		Quick:    25,
		Thorough: 300,
	})
}
