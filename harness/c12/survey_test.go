package c12

import (
	"fmt"
	"os"
	"path/filepath"
	"sort"
	"strings"
	"sync"
	"testing"
)

// TestC12Survey is a development aid (C12_SURVEY=<output file>): it lists which files of
// /repo/tests convert to a program whose plain run compiles, ends normally,
// prints tagged lines and does so identically twice. Its output was used to
// fill corpusFiles.
func TestC12Survey(t *testing.T) {
	if os.Getenv("C12_SURVEY") == "" {
		t.Skip("development aid")
	}
	setup()
	if setupErr != nil {
		t.Fatal(setupErr)
	}
	var files []string
	_ = filepath.Walk(filepath.Join(repoDir, "tests"), func(p string, info os.FileInfo, err error) error {
		if err == nil && !info.IsDir() && strings.HasSuffix(p, ".ego") {
			rel, _ := filepath.Rel(repoDir, p)
			files = append(files, rel)
		}
		return nil
	})
	sort.Strings(files)
	type row struct {
		f, verdict string
		n          int
	}
	rows := make([]row, len(files))
	sem := make(chan struct{}, 4)
	var wg sync.WaitGroup
	for i, f := range files {
		wg.Add(1)
		go func(i int, f string) {
			defer wg.Done()
			sem <- struct{}{}
			defer func() { <-sem }()
			b, _ := os.ReadFile(filepath.Join(repoDir, f))
			src, why := convertTestFile(string(b))
			if why != "" {
				rows[i] = row{f, "refused: " + why, 0}
				return
			}
			c := Case{Kind: "corpus", Name: f, Types: "dynamic", TraceVia: "run"}
			dir := filepath.Join(rootDir, fmt.Sprintf("survey-%d", i))
			defer os.RemoveAll(dir)
			r1 := runMode(dir, "plain", modes[i%4], c, src)
			r2 := runMode(dir, "plain", modes[i%4], c, src)
			l1, l2 := tagged(r1.stdout), tagged(r2.stdout)
			switch {
			case r1.err != nil:
				rows[i] = row{f, "run error", 0}
			case len(l1) == 0:
				rows[i] = row{f, "no output: " + strings.Join(errorLines(r1), " | "), 0}
			case strings.Join(l1, "\n") != strings.Join(l2, "\n"):
				rows[i] = row{f, "nondeterministic", len(l1)}
			case r1.exit != 0:
				rows[i] = row{f, "ends with error: " + strings.Join(errorLines(r1), " | "), len(l1)}
			case strings.Contains(r1.stdout, "ASSERT FAILED"):
				rows[i] = row{f, "assert failed in conversion", len(l1)}
			default:
				rows[i] = row{f, "OK", len(l1)}
			}
		}(i, f)
	}
	wg.Wait()
	var sb strings.Builder
	for _, r := range rows {
		fmt.Fprintf(&sb, "SURVEY %-50s %4d %s\n", r.f, r.n, r.verdict)
	}
	if err := os.WriteFile(os.Getenv("C12_SURVEY"), []byte(sb.String()), 0o644); err != nil {
		t.Fatal(err)
	}
}
