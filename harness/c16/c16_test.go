package c16

// C16 "SQL reformatting preserves statements".
//
// Preconditions taken from the real caller (internal/server/tables/sql.go,
// sql_permissions.go):
//   - the @sql handler splits the client's text with splitSQLStatements, which
//     strips SQL comments and the terminating ';' before a statement reaches
//     sqlparse.New, so generated statements carry neither comments nor ';';
//   - statements are executed with db.Exec / db.Query and no arguments, so a
//     statement with a bind parameter fails on both sides; parameters are only
//     generated outside the "portable" (executing) subset;
//   - the dialect passed to sqlparse.New is the DSN's provider; both are used,
//     execution is only possible for SQLite;
//   - only statements sqlparse accepts are in the property's domain (a parse
//     error on generated text is a Skip).
//
// What "same result" means here: the same number of result columns, the same
// rows (as a sequence when the top-level ORDER BY lists every result column,
// else as a multiset), the same error-ness, and the same database afterwards
// (all objects of sqlite_master/sqlite_temp_master with their definitions
// compared modulo layout, every table's and view's rows). Column *names* of
// unaliased expressions are not compared: SQLite documents them as unspecified.

import (
	"fmt"
	"os"
	"reflect"
	"regexp"
	"sort"
	"strings"
	"sync"
	"testing"

	"github.com/tucats/ego/internal/sqlparse"
	"github.com/tucats/ego/internal/sqlparse/ast"
	"github.com/tucats/ego/verif/sqlgen"
	"github.com/tucats/ego/verif/vkit"
	"pgregory.net/rapid"
)

// Case is one statement in one dialect. Everything but SQL and Dialect is
// generator metadata (labels, and whether the row order is fully determined).
type Case struct {
	Dialect  int      `json:"dialect"` // 0 SQLite, 1 PostgreSQL
	SQL      string   `json:"sql"`
	Kind     string   `json:"kind,omitempty"`
	Ordered  bool     `json:"ordered,omitempty"`
	Features []string `json:"features,omitempty"`
}

var (
	twinMu sync.Mutex
	twinA  *twinDB
	twinB  *twinDB
)

func dialectName(d int) string {
	if d == sqlparse.PostgreSQL {
		return "pg"
	}
	return "sqlite"
}

var quotedRe = regexp.MustCompile(`'[^']*'|"[^"]*"`)
var numRe = regexp.MustCompile(`\b\d+\b`)

// normMsg makes an error message value-free: quoted fragments that are not
// SQL keywords become 'X', numbers become N.
func normMsg(m string) string {
	m = quotedRe.ReplaceAllStringFunc(m, func(q string) string {
		inner := strings.ToLower(q[1 : len(q)-1])
		if sqlKeywords[inner] {
			return "'" + strings.ToUpper(inner) + "'"
		}
		if inner != "" && !plainWord(inner) && len(inner) <= 3 {
			return "'" + inner + "'" // punctuation / operator
		}
		return "'X'"
	})
	m = numRe.ReplaceAllString(m, "N")
	if i := strings.Index(m, " at line"); i > 0 {
		m = m[:i]
	}
	return m
}

var debugErrs map[string]int

var sqlKeywords = map[string]bool{}

func init() {
	for _, w := range strings.Fields(`select from where group by having order limit offset union intersect except
		all distinct as on using join inner left right full outer cross natural insert into values default update set
		delete create drop alter table index view unique primary key foreign references check constraint not null
		and or in is like glob regexp match ilike between escape case when then else end cast exists collate asc desc
		nulls first last with recursive returning conflict do nothing if temp temporary begin commit rollback savepoint
		release transaction true false isnull notnull indexed replace ignore abort fail add column rename to without
		rowid generated always stored virtual filter autoincrement deferrable initially deferred immediate cascade
		restrict action no work exclusive pragma`) {
		sqlKeywords[w] = true
	}
}

// verdict is the outcome of comparing one candidate reformatted text with the
// original: nil when all oracle parts hold.
type verdict struct {
	part, sig, observed, expected string
}

// judge applies the three oracle parts to (original, formatted).
func judge(c Case, orig *sqlparse.Sqlparse, formatted string, reformat bool) (v *verdict, execClass string) {
	execClass = "not-executed"
	p2, err := sqlparse.New(formatted, c.Dialect)
	if err != nil {
		return &verdict{"reparse", "reparse-error: " + normMsg(err.Error()),
			fmt.Sprintf("formatted text does not parse: %v\n--- formatted ---\n%s", err, formatted), "formatted text parses to the same tree"}, execClass
	}
	d1, d2 := dumpTree(orig.Statement()), dumpTree(p2.Statement())
	if d1 != d2 {
		path, what, _ := firstDiff(reflect.ValueOf(orig.Statement()), reflect.ValueOf(p2.Statement()), "")
		return &verdict{"tree", "tree-diff: " + shortPath(path) + " " + what,
			fmt.Sprintf("tree of formatted text differs at %s (%s)\n--- formatted ---\n%s\n--- tree(original) ---\n%s\n--- tree(formatted) ---\n%s", path, what, formatted, d1, d2),
			"parse(format(s)) == parse(s)"}, execClass
	}
	if reformat {
		if f2 := p2.Format(); f2 != formatted {
			return &verdict{"idempotence", "format-not-idempotent",
				fmt.Sprintf("format(format(s)) != format(s)\n--- once ---\n%s\n--- twice ---\n%s", formatted, f2), "format(format(s)) == format(s)"}, execClass
		}
	}
	if c.Dialect != sqlparse.SQLite {
		return nil, execClass
	}
	twinMu.Lock()
	defer twinMu.Unlock()
	if twinA == nil {
		twinA, twinB = openTwin(), openTwin()
	}
	wantState := orig.StatementKind() != sqlparse.StmtSelect
	// CREATE TABLE .. AS SELECT and CREATE VIEW without a column list name
	// their columns after the select list; for an unaliased expression that
	// name is the expression's source text, which SQLite documents as
	// unspecified. Such an object is compared by column count and rows.
	var loose []string
	switch s := orig.Statement().(type) {
	case *ast.CreateTableStmt:
		if s.AsSelect != nil && s.Table != nil {
			loose = append(loose, s.Table.Name)
		}
	case *ast.CreateViewStmt:
		if len(s.Columns) == 0 {
			loose = append(loose, s.Name)
		}
	}
	var ra, rb execResult
	twinA, ra = twinA.run(c.SQL, wantState, loose...)
	twinB, rb = twinB.run(formatted, wantState, loose...)
	show := func(r execResult) string {
		return fmt.Sprintf("err=%q ncols=%d rows=%v", r.err, r.ncols, r.rows)
	}
	execClass = "ok"
	if ra.err != "" {
		execClass = "error"
		if debugErrs != nil {
			debugErrs[normMsg(ra.err)]++
		}
	}
	if strings.Contains(ra.err, "syntax error") {
		// The original is not SQLite syntax at all (ego's parser accepts a
		// superset, e.g. PostgreSQL spellings); "executed against SQLite where
		// the dialect allows" does not cover it.
		return nil, "original-not-sqlite-syntax"
	}
	both := fmt.Sprintf("--- original ---\n%s\n%s\n--- formatted ---\n%s\n%s", c.SQL, show(ra), formatted, show(rb))
	if (ra.err == "") != (rb.err == "") {
		side, msg := "formatted-fails", rb.err
		if ra.err != "" {
			side, msg = "original-fails", ra.err
		}
		return &verdict{"exec", "exec-errorness " + side + ": " + normMsg(msg), both, "same error-ness"}, execClass
	}
	if ra.ncols != rb.ncols {
		return &verdict{"exec", "exec-ncols", both, "same result columns"}, execClass
	}
	x, y := ra.rows, rb.rows
	if !c.Ordered {
		x, y = append([]string{}, x...), append([]string{}, y...)
		sort.Strings(x)
		sort.Strings(y)
	}
	if !reflect.DeepEqual(x, y) {
		return &verdict{"exec", "exec-rows", both, "same rows"}, execClass
	}
	if ra.state != rb.state {
		return &verdict{"exec", "exec-state: " + stateDiffClass(ra.state, rb.state),
			both + "\n--- state after original ---\n" + ra.state + "\n--- state after formatted ---\n" + rb.state, "same final database state"}, execClass
	}
	return nil, execClass
}

// shortPath keeps the last two steps of a tree path: enough to name the
// construct, independent of where in the statement it sits.
func shortPath(p string) string {
	parts := strings.Split(strings.Trim(p, "/"), "/")
	if len(parts) > 2 {
		parts = parts[len(parts)-2:]
	}
	return strings.Join(parts, "/")
}

// stateDiffClass names the first differing line of two dumps without values.
func stateDiffClass(a, b string) string {
	la, lb := strings.Split(a, "\n"), strings.Split(b, "\n")
	for i := 0; i < len(la) || i < len(lb); i++ {
		var x, y string
		if i < len(la) {
			x = la[i]
		}
		if i < len(lb) {
			y = lb[i]
		}
		if x != y {
			f := strings.Fields(strings.TrimSpace(x + " "))
			if len(f) == 0 {
				f = strings.Fields(y)
			}
			if len(f) >= 2 && strings.HasPrefix(f[0], "sqlite_") {
				return f[1] + " definition"
			}
			if len(f) >= 1 {
				return f[0]
			}
		}
	}
	return "?"
}

func oracle(c Case) vkit.Outcome {
	var out vkit.Outcome
	out.Key = fmt.Sprintf("%d:%s", c.Dialect, c.SQL)
	p, err := sqlparse.New(c.SQL, c.Dialect)
	if err != nil {
		if debugErrs != nil {
			debugErrs["SKIPPED: "+c.SQL]++
		}
		out.Skip = "parser-rejects " + dialectName(c.Dialect) + " " + c.Kind + ": " + normMsg(err.Error())
		return out
	}
	why := nonTrivial(p.Statement(), c.SQL)
	out.NonTrivial = len(why) > 0
	kind := p.StatementKind().String()
	switch kind {
	case "BEGIN", "COMMIT", "ROLLBACK", "SAVEPOINT", "RELEASE":
		kind = "TXN"
	}
	out.Labels = append(out.Labels, "kind "+dialectName(c.Dialect)+" "+kind)
	for _, w := range why {
		out.Labels = append(out.Labels, "nt "+w)
	}
	for _, f := range c.Features {
		if f == "quoted-ident" || f == "prec-mix" || f == "table-alias-as" || f == "alias-as" {
			continue // same information as the nt labels / too common to be informative
		}
		out.Labels = append(out.Labels, "f "+f)
	}
	formatted := p.Format()
	v, execClass := judge(c, p, formatted, true)
	if c.Dialect == sqlparse.SQLite {
		// did the original execute without error? (histogram)
		out.Labels = append(out.Labels, "exec "+execClass)
	}
	if v == nil {
		return out
	}
	sig := v.sig
	if cause := diagnose(c, p, formatted, v); cause != "" {
		sig = cause
	}
	out.Fail = &vkit.Failure{Sig: sig, Observed: "[" + v.sig + "] " + v.observed, Expected: v.expected}
	return out
}

func gen(t *rapid.T) Case {
	d := rapid.SampledFrom([]int{sqlparse.SQLite, sqlparse.SQLite, sqlparse.SQLite, sqlparse.PostgreSQL}).Draw(t, "dialect")
	portable := d == sqlparse.SQLite && rapid.IntRange(0, 9).Draw(t, "portable") < 9
	s := sqlgen.Gen(t, sqlgen.Options{Dialect: sqlgen.Dialect(d), Portable: portable})
	return Case{Dialect: d, SQL: s.SQL, Kind: string(s.Kind), Ordered: s.Ordered, Features: s.Features}
}

func TestC16(t *testing.T) {
	if os.Getenv("C16_DEBUG_ERRORS") != "" {
		debugErrs = map[string]int{}
	}
	vkit.Run(t, vkit.Spec[Case]{
		ID:    "C16",
		Level: "exploration",
		Rule: "sqlgen statements (all 11 statement kinds + transaction control, both dialects, fixed schema t1/t2/t3/v1; operator-precedence chains with needed and redundant parentheses, " +
			"quoted/keyword identifiers, string escapes, every optional clause, subqueries in every expression position, CTEs, joins, compound selects) plus the sqlparse test corpus. " +
			"Oracle: parse(format(s)) == parse(s) modulo positions; format(format(s)) == format(s); SQLite dialect: original and formatted executed on twin seeded databases give the same " +
			"column count, rows (sequence iff ORDER BY lists every result column, else multiset), error-ness and final database dump. " +
			"Non-trivial: >=2 binary operators of different precedence, or a quoted identifier, or an optional clause (computed from the parsed tree); distinct by dialect+text.",
		Assumptions: []string{
			"SQLite (modernc 3.53) is deterministic for a given statement text and database state, so two texts that differ only in layout/case/quoting produce identical rows",
			"column names of unaliased result expressions are not part of the result (SQLite leaves them unspecified)",
			"statements reach sqlparse without comments or a trailing ';' (splitSQLStatements removes them) and are executed without bind arguments",
			"PostgreSQL-dialect statements are judged on tree equality and idempotence only (no PostgreSQL server here)",
		},
		Gen:    gen,
		Oracle: oracle,
		Fixed:  fixedCases,
		Extra: func() map[string]any {
			if debugErrs == nil {
				return nil
			}
			return map[string]any{"sqlite_errors": debugErrs}
		},
		MaxRounds: 3,
		Quick:     1500,
		Thorough:  12000,
	})
}
