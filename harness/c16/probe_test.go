package c16

import (
	"database/sql"
	"fmt"
	"testing"
	"time"

	_ "modernc.org/sqlite"
)

func TestProbe(t *testing.T) {
	start := time.Now()
	for i := 0; i < 200; i++ {
		db, err := sql.Open("sqlite", "file::memory:")
		if err != nil {
			t.Fatal(err)
		}
		db.SetMaxOpenConns(1)
		for _, s := range []string{
			`CREATE TABLE t1 (a INTEGER PRIMARY KEY, b INTEGER, c TEXT)`,
			`CREATE TABLE t2 (a INTEGER, d REAL, UNIQUE (a))`,
			`INSERT INTO t1 VALUES (1,10,'x'),(2,20,'y''s'),(3,NULL,'Z')`,
			`INSERT INTO t2 VALUES (1,1.5),(2,NULL)`,
		} {
			if _, err := db.Exec(s); err != nil {
				t.Fatal(err)
			}
		}
		db.Close()
	}
	fmt.Println("per db:", time.Since(start)/200)
	db, _ := sql.Open("sqlite", "file::memory:")
	db.SetMaxOpenConns(1)
	db.Exec(`CREATE TABLE t1 (a INTEGER PRIMARY KEY, b INTEGER, c TEXT)`)
	db.Exec(`INSERT INTO t1 VALUES (1,10,'x'),(2,20,'y''s'),(3,NULL,'Z')`)
	var v string
	db.QueryRow(`select sqlite_version()`).Scan(&v)
	fmt.Println("version", v)
	for _, q := range []string{
		`SELECT a FROM t1 WHERE a = ?`,
		`SELECT a FROM t1 WHERE a = :x`,
		`UPDATE t1 SET b = b + 1 WHERE a < 3 RETURNING a, b`,
		`SELECT * FROM t1`,
		`SELECT --1
 FROM t1`,
		`SELECT - -a FROM t1`,
		`SELECT select FROM t1`,
		`SELECT a AS "from" FROM t1`,
		`SELECT a AS from FROM t1`,
		`SELECT main.t1.* FROM t1`,
		`SELECT 1 WHERE 1 IS DISTINCT FROM 2`,
		`SELECT * FROM t1 RIGHT JOIN t1 AS x USING (a)`,
		`SELECT E'a'`,
		`INSERT OR ROLLBACK INTO t1 VALUES (1,1,1)`,
		`SELECT a FROM t1 AS s(x)`,
		`SELECT * FROM (SELECT a FROM t1) AS s(x)`,
		`DELETE FROM t1 USING t1 AS o WHERE 1`,
		`SELECT a FROM t1 HAVING 1`,
		`SELECT a ISNULL, a NOT NULL FROM t1`,
		`SELECT ?1, :a, @b, $c`,
	} {
		rows, err := db.Query(q)
		if err != nil {
			fmt.Printf("%q -> query err %v\n", q, err)
			continue
		}
		n := 0
		cols, _ := rows.Columns()
		for rows.Next() {
			n++
		}
		fmt.Printf("%q -> cols %v rows %d err %v\n", q, cols, n, rows.Err())
		rows.Close()
	}
}
