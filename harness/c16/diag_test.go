package c16

import (
	"strings"
	"testing"

	"github.com/tucats/ego/internal/sqlparse"
	"github.com/tucats/ego/internal/sqlparse/ast"
)

// Root-cause probes. When a case fails, the harness tries textual repairs of
// the *formatted* text, each of which undoes exactly one suspected printer
// defect. If the repaired text satisfies every oracle part, the failure is
// attributed to the first repair that was necessary, and that name is the
// failure's signature; otherwise the generic signature (oracle part + where it
// failed) is kept. The probes never influence whether a case fails.

type repair struct {
	name string
	fn   func(orig, formatted string) string
}

var repairs = []repair{
	// first: "--" hides the rest of its line from the tokenizer the other
	// repairs use
	{"nested unary minus is printed as '--' (starts a comment)", splitDoubleMinus},
	{"identifier spelled like a keyword is printed unquoted (sqlite)", requoteKeywordIdents},
	{"REFERENCES target table is printed unquoted", requoteReferences},
	{"double-quoted name that SQLite reads as a string literal is printed unquoted", requoteAllQuoted},
	{"x ISNULL COLLATE c is printed as x IS NULL COLLATE c (SQLite binds COLLATE to NULL)", restoreIsnullCollate},
}

// restoreIsnullCollate undoes the ISNULL -> IS NULL spelling change in front
// of COLLATE: SQLite reads "x IS NULL COLLATE c" as x IS (NULL COLLATE c) but
// "x ISNULL COLLATE c" as (x ISNULL) COLLATE c.
func restoreIsnullCollate(orig, formatted string) string {
	ts := lexSQL(orig)
	has := false
	for i := 0; i+1 < len(ts); i++ {
		if ts[i].kind == tWord && (strings.EqualFold(ts[i].text, "isnull") || strings.EqualFold(ts[i].text, "notnull")) &&
			ts[i+1].kind == tWord && strings.EqualFold(ts[i+1].text, "collate") {
			has = true
		}
	}
	if !has {
		return formatted
	}
	out := strings.ReplaceAll(formatted, " IS NOT NULL COLLATE ", " NOTNULL COLLATE ")
	return strings.ReplaceAll(out, " IS NULL COLLATE ", " ISNULL COLLATE ")
}

// requoteAllQuoted restores the quotes of every plain name the original wrote
// quoted (SQLite falls back to a string literal for "name" when no column of
// that name is in scope; the bare word has no such fallback).
func requoteAllQuoted(orig, formatted string) string {
	q := map[string]bool{}
	for _, t := range lexSQL(orig) {
		if t.kind == tQIdent && plainWord(t.text) && !sqlKeywords[strings.ToLower(t.text)] {
			q[t.text] = true
		}
	}
	if len(q) == 0 {
		return formatted
	}
	var b strings.Builder
	last := 0
	for _, t := range lexSQL(formatted) {
		if t.kind == tWord && q[t.text] {
			b.WriteString(formatted[last:t.start])
			b.WriteString(`"` + t.text + `"`)
			last = t.end
		}
	}
	b.WriteString(formatted[last:])
	return b.String()
}

// requoteReferences puts the quotes back around a foreign-key target table
// that the original wrote quoted (the printer writes that name verbatim).
func requoteReferences(orig, formatted string) string {
	ts := lexSQL(orig)
	out := formatted
	for i := 0; i+1 < len(ts); i++ {
		if ts[i].kind == tWord && strings.EqualFold(ts[i].text, "references") && ts[i+1].kind == tQIdent {
			name := ts[i+1].text
			if plainWord(name) && !sqlKeywords[strings.ToLower(name)] {
				continue
			}
			out = strings.ReplaceAll(out, "REFERENCES "+name+" ", "REFERENCES \""+strings.ReplaceAll(name, "\"", "\"\"")+"\" ")
			out = strings.ReplaceAll(out, "REFERENCES "+name+"\n", "REFERENCES \""+strings.ReplaceAll(name, "\"", "\"\"")+"\"\n")
		}
	}
	return out
}

// requoteKeywordIdents puts quotes back around bare words of the formatted
// text that the original wrote as quoted identifiers spelled like keywords.
func requoteKeywordIdents(orig, formatted string) string {
	kw := map[string]bool{}
	for _, t := range lexSQL(orig) {
		if t.kind == tQIdent && sqlKeywords[strings.ToLower(t.text)] {
			kw[t.text] = true
		}
	}
	if len(kw) == 0 {
		return formatted
	}
	var b strings.Builder
	last := 0
	for _, t := range lexSQL(formatted) {
		if t.kind == tWord && kw[t.text] {
			b.WriteString(formatted[last:t.start])
			b.WriteString(`"` + t.text + `"`)
			last = t.end
		}
	}
	b.WriteString(formatted[last:])
	return b.String()
}

// splitDoubleMinus rewrites "--" (which the formatter can only have produced
// from nested unary minus operators; it never prints comments) as "- -".
func splitDoubleMinus(orig, formatted string) string {
	var b strings.Builder
	last := 0
	changed := false
	for _, t := range lexSQL(formatted) {
		if t.kind == tComment && strings.HasPrefix(t.text, "--") {
			b.WriteString(formatted[last:t.start])
			txt := formatted[t.start:t.end]
			i := 0
			for i < len(txt) && txt[i] == '-' {
				b.WriteString("- ")
				i++
			}
			// the rest of the "comment" is ordinary SQL; it may itself contain "--"
			b.WriteString(splitDoubleMinus(orig, txt[i:]))
			last = t.end
			changed = true
		}
	}
	if !changed {
		return formatted
	}
	b.WriteString(formatted[last:])
	return b.String()
}

// Constructs whose loss cannot be undone textually are recognised in the
// original statement instead; they are only consulted for a failure that the
// textual repairs do not explain, and only for the oracle parts they can cause.

// rightNestedJoin: "a JOIN (b JOIN c ON ..) ON ..": the parser keeps the
// grouping only as tree shape (JoinClause.Right is a JoinClause) and the
// printer writes a flat chain.
func rightNestedJoin(p *sqlparse.Sqlparse) bool {
	found := false
	ast.Walk(p.Statement(), func(n ast.Node) bool {
		if j, ok := n.(*ast.JoinClause); ok {
			if _, ok := j.Right.(*ast.JoinClause); ok {
				found = true
			}
		}
		return true
	})
	return found
}

// parenJoinGroup: the text has "( a JOIN b ... )" as a FROM item.
func parenJoinGroup(sql string) bool {
	ts := lexSQL(sql)
	for i := 1; i+1 < len(ts); i++ {
		if ts[i].text != "(" {
			continue
		}
		prev := strings.ToUpper(ts[i-1].text)
		if !(ts[i-1].kind == tWord && (prev == "FROM" || prev == "JOIN" || prev == "USING")) && prev != "," {
			continue
		}
		nx := strings.ToUpper(ts[i+1].text)
		if !(ts[i+1].kind == tQIdent || (ts[i+1].kind == tWord && nx != "SELECT" && nx != "WITH" && nx != "VALUES")) {
			continue
		}
		depth := 0
		for j := i; j < len(ts); j++ {
			if ts[j].text == "(" {
				depth++
			} else if ts[j].text == ")" {
				depth--
				if depth == 0 {
					break
				}
			} else if depth == 1 && ts[j].kind == tWord && strings.EqualFold(ts[j].text, "join") {
				return true
			}
		}
	}
	return false
}

// otherQuoteStyle: the text quotes a name with [..] or `..`.
func otherQuoteStyle(sql string) bool {
	for _, t := range lexSQL(sql) {
		if t.kind == tQIdent && (sql[t.start] == '[' || sql[t.start] == '`') {
			return true
		}
	}
	return false
}

// conflictTargetNotPlainColumn: ON CONFLICT ( <something other than bare
// column names> ): the parser drops such entries from the target list.
func conflictTargetNotPlainColumn(sql string) bool {
	ts := lexSQL(sql)
	for i := 0; i+2 < len(ts); i++ {
		if ts[i].kind == tWord && strings.EqualFold(ts[i].text, "on") && ts[i+1].kind == tWord &&
			strings.EqualFold(ts[i+1].text, "conflict") && ts[i+2].text == "(" {
			depth, n := 0, 0
			for j := i + 2; j < len(ts); j++ {
				switch ts[j].text {
				case "(":
					depth++
					continue
				case ")":
					depth--
					if depth == 0 {
						return n != 1
					}
					continue
				case ",":
					if depth == 1 {
						if n != 1 {
							return true
						}
						n = 0
						continue
					}
				}
				n++
			}
		}
	}
	return false
}

func diagnose(c Case, p *sqlparse.Sqlparse, formatted string, first *verdict) string {
	f := formatted
	var applied []int
	for i, r := range repairs {
		if f2 := r.fn(c.SQL, f); f2 != f {
			applied = append(applied, i)
			f = f2
		}
	}
	rest := first
	if len(applied) > 0 {
		rest, _ = judge(c, p, f, false)
	}
	if rest != nil {
		// not (fully) explained by the textual repairs
		if rightNestedJoin(p) && (rest.part == "reparse" || rest.part == "tree") {
			return "parenthesised join group on the right of a JOIN is printed without its parentheses"
		}
		if rest.part == "exec" && strings.Contains(rest.sig, "original-fails") && strings.Contains(rest.sig, "no such column") && parenJoinGroup(c.SQL) {
			return "parenthesised join group is printed without its parentheses (name scoping changes)"
		}
		if rest.part == "exec" && strings.Contains(rest.sig, "original-fails") && strings.Contains(rest.sig, "no such column") && otherQuoteStyle(c.SQL) {
			return "[name] or `name` that matches no column is printed as \"name\", which SQLite reads as a string literal"
		}
		if conflictTargetNotPlainColumn(c.SQL) {
			return "ON CONFLICT target that is not a bare column name is dropped"
		}
		return ""
	}
	if len(applied) == 1 {
		return repairs[applied[0]].name
	}
	for _, i := range applied {
		g := formatted
		for _, j := range applied {
			if j != i {
				g = repairs[j].fn(c.SQL, g)
			}
		}
		if v, _ := judge(c, p, g, false); v != nil {
			return repairs[i].name
		}
	}
	return repairs[applied[0]].name
}

// corpus: the statements of internal/sqlparse's own tests (parser_test.go
// validStatementCases, format_test.go, analyze_test.go).
var corpus = []string{
	`SELECT * FROM users`,
	`SELECT id, name AS n FROM users WHERE id = 1`,
	`SELECT u.* FROM users u`,
	`SELECT DISTINCT name FROM users`,
	`SELECT u.id, o.total FROM users u INNER JOIN orders o ON o.user_id = u.id`,
	`SELECT * FROM a LEFT OUTER JOIN b USING (id)`,
	`SELECT * FROM a, b WHERE a.id = b.id`,
	`SELECT dept, COUNT(*) FROM emp GROUP BY dept HAVING COUNT(*) > 1`,
	`SELECT * FROM t ORDER BY a DESC, b ASC LIMIT 10 OFFSET 5`,
	`SELECT * FROM t LIMIT 5, 10`,
	`SELECT a FROM t1 UNION SELECT a FROM t2 ORDER BY a`,
	`SELECT a FROM t1 UNION ALL SELECT a FROM t2 INTERSECT SELECT a FROM t3 EXCEPT SELECT a FROM t4`,
	`SELECT * FROM (SELECT id FROM users) AS sub WHERE sub.id > 1`,
	`SELECT id, (SELECT COUNT(*) FROM orders o WHERE o.user_id = u.id) AS n FROM users u`,
	`SELECT * FROM users u WHERE EXISTS (SELECT 1 FROM orders o WHERE o.user_id = u.id)`,
	`SELECT * FROM users u WHERE NOT EXISTS (SELECT 1 FROM orders o WHERE o.user_id = u.id)`,
	`SELECT * FROM t WHERE a IN (1, 2, 3)`,
	`SELECT * FROM t WHERE a NOT IN (SELECT id FROM u)`,
	`SELECT * FROM t WHERE a BETWEEN 1 AND 10`,
	`SELECT * FROM t WHERE a NOT BETWEEN 1 AND 10`,
	`SELECT * FROM t WHERE name LIKE 'a%' ESCAPE '\'`,
	`SELECT * FROM t WHERE a IS NULL AND b IS NOT NULL`,
	`SELECT * FROM t WHERE a ISNULL AND b NOTNULL`,
	`SELECT * FROM t WHERE a IS DISTINCT FROM b`,
	`SELECT CASE WHEN a > 1 THEN 'x' WHEN a > 0 THEN 'y' ELSE 'z' END FROM t`,
	`SELECT CASE a WHEN 1 THEN 'one' ELSE 'other' END FROM t`,
	`SELECT CAST(a AS VARCHAR(10)) FROM t`,
	`SELECT COUNT(*) FROM t`,
	`SELECT COUNT(DISTINCT a) FILTER (WHERE a > 0) FROM t`,
	`SELECT 1 + 2 * 3 - 4 / 2 FROM t`,
	`SELECT (a & b) | c, name || '!' FROM t`,
	`SELECT * FROM t WHERE a = ? AND b = ?`,
	`SELECT * FROM t WHERE a = $1 AND b = $2`,
	`SELECT * FROM t WHERE a = :name OR b = @other`,
	`WITH recent AS (SELECT id FROM orders WHERE created > 0) SELECT * FROM recent`,
	`WITH RECURSIVE r(n) AS (SELECT 1 UNION ALL SELECT n + 1 FROM r WHERE n < 10) SELECT * FROM r`,
	`SELECT "select" FROM "order"`,
	`SELECT [col] FROM [table]`,
	`SELECT * FROM t WHERE b = X'48656C6C6F'`,
	`SELECT -1, 0x1F, 1.5e10, .5, 100. FROM t`,
	`SELECT data->'key', data->>'key2' FROM t`,
	`SELECT * FROM t ORDER BY name COLLATE NOCASE`,
	`INSERT INTO t (a, b) VALUES (1, 2), (3, 4)`,
	`INSERT INTO t DEFAULT VALUES`,
	`INSERT INTO t (a) SELECT a FROM u`,
	`INSERT OR REPLACE INTO t (a) VALUES (1)`,
	`INSERT INTO t (a) VALUES (1) ON CONFLICT (a) DO NOTHING`,
	`INSERT INTO t (a, b) VALUES (1, 2) ON CONFLICT (a) DO UPDATE SET b = excluded.b WHERE t.a = 1`,
	`INSERT INTO t (a) VALUES (1) RETURNING id`,
	`UPDATE t SET a = 1, b = 2 WHERE id = 1`,
	`UPDATE t SET (a, b) = (1, 2) WHERE id = 1`,
	`UPDATE t SET a = u.a FROM u WHERE t.id = u.id`,
	`UPDATE t SET a = 1 RETURNING a, b`,
	`DELETE FROM t WHERE id = 1`,
	`DELETE FROM t USING u WHERE t.id = u.id`,
	`DELETE FROM t WHERE id = 1 RETURNING id`,
	`DELETE FROM t`,
	`CREATE TABLE t (id INTEGER PRIMARY KEY, name TEXT NOT NULL)`,
	`CREATE TABLE IF NOT EXISTS t (id INTEGER)`,
	`CREATE TEMP TABLE t (id INTEGER)`,
	`CREATE TABLE t (id INTEGER PRIMARY KEY AUTOINCREMENT, name TEXT NOT NULL UNIQUE, age INTEGER CHECK (age >= 0) DEFAULT 0, dept_id INTEGER REFERENCES dept(id) ON DELETE CASCADE ON UPDATE SET NULL, full_name TEXT GENERATED ALWAYS AS (name || ' x') STORED, CONSTRAINT pk2 UNIQUE (name, age), FOREIGN KEY (dept_id) REFERENCES dept(id), CHECK (age < 200))`,
	`CREATE TABLE t (id INTEGER PRIMARY KEY) WITHOUT ROWID`,
	`CREATE TABLE t AS SELECT * FROM u`,
	`CREATE TABLE t (a INTEGER REFERENCES u(id) DEFERRABLE INITIALLY DEFERRED)`,
	`CREATE TABLE t (a)`,
	`DROP TABLE t`,
	`DROP TABLE IF EXISTS t CASCADE`,
	`ALTER TABLE t ADD COLUMN a INTEGER`,
	`ALTER TABLE t ADD a INTEGER NOT NULL DEFAULT 0`,
	`ALTER TABLE t DROP COLUMN a`,
	`ALTER TABLE t RENAME TO t2`,
	`ALTER TABLE t RENAME COLUMN a TO b`,
	`CREATE INDEX idx_t_a ON t (a)`,
	`CREATE UNIQUE INDEX IF NOT EXISTS idx ON t (a DESC, b COLLATE NOCASE) WHERE a IS NOT NULL`,
	`DROP INDEX idx_t_a`,
	`DROP INDEX IF EXISTS idx_t_a`,
	`CREATE VIEW v AS SELECT * FROM t`,
	`CREATE OR REPLACE VIEW v (a, b) AS SELECT x, y FROM t`,
	`DROP VIEW IF EXISTS v`,
	`BEGIN`, `BEGIN DEFERRED TRANSACTION foo`, `COMMIT`, `ROLLBACK`, `SAVEPOINT sp1`, `RELEASE sp1`,
	`select a, b from t where a = 1 order by a limit 5`,
	`SELECT a FROM t WHERE a = 1 GROUP BY a HAVING a > 0 ORDER BY a LIMIT 1`,
	`SELECT MyColumn FROM MyTable`,
	`SELECT "weird col" FROM t`,
	`SELECT a - (b - c), a / (b * c), NOT (a AND b) FROM t1`,
	`SELECT DISTINCT b FROM t1 ORDER BY 1 LIMIT 2 OFFSET 1`,
	`SELECT 'it''s', c FROM t1 WHERE c = 'y''s'`,
}

func fixedCases() []Case {
	var out []Case
	for _, d := range []int{sqlparse.SQLite, sqlparse.PostgreSQL} {
		for _, s := range corpus {
			out = append(out, Case{Dialect: d, SQL: s, Kind: "corpus"})
		}
	}
	return out
}

// FuzzC16 is the native fuzz entry for manual/thorough exploration: oracle
// parts (1) tree equality and (2) idempotence on arbitrary text in both
// dialects, seeded with the sqlparse test corpus. The rapid run decides the
// tier; this target only ever adds counterexamples.
func FuzzC16(f *testing.F) {
	for _, s := range corpus {
		f.Add(s)
	}
	f.Fuzz(func(t *testing.T, s string) {
		for _, d := range []int{sqlparse.SQLite, sqlparse.PostgreSQL} {
			p, err := sqlparse.New(s, d)
			if err != nil {
				continue
			}
			formatted := p.Format()
			p2, err := sqlparse.New(formatted, d)
			if err != nil {
				t.Fatalf("dialect %d: formatted text does not parse: %v\n--- original ---\n%s\n--- formatted ---\n%s", d, err, s, formatted)
			}
			if a, b := dumpTree(p.Statement()), dumpTree(p2.Statement()); a != b {
				t.Fatalf("dialect %d: tree differs\n--- original ---\n%s\n--- formatted ---\n%s\n%s\n%s", d, s, formatted, a, b)
			}
			if f2 := p2.Format(); f2 != formatted {
				t.Fatalf("dialect %d: not idempotent\n--- once ---\n%s\n--- twice ---\n%s", d, formatted, f2)
			}
		}
	})
}
