package c16

import (
	"context"
	"database/sql"
	"encoding/hex"
	"fmt"
	"sort"
	"strings"

	"github.com/tucats/ego/verif/sqlgen"
	_ "modernc.org/sqlite"
)

// twinDB is one of the two SQLite databases a case executes on. Both are
// created from sqlgen.Setup(); a statement runs inside a transaction that is
// rolled back afterwards, and the database is rebuilt whenever the rollback
// did not restore the initial dump (so every case sees the same seed state).
type twinDB struct {
	db      *sql.DB
	conn    *sql.Conn
	initial string
}

type execResult struct {
	ncols int
	rows  []string
	err   string
	state string
}

var ctx = context.Background()

func openTwin() *twinDB {
	db, err := sql.Open("sqlite", "file::memory:")
	if err != nil {
		panic(err)
	}
	db.SetMaxOpenConns(1)
	conn, err := db.Conn(ctx)
	if err != nil {
		panic(err)
	}
	for _, s := range sqlgen.Setup() {
		if _, err := conn.ExecContext(ctx, s); err != nil {
			panic(fmt.Sprintf("setup %q: %v", s, err))
		}
	}
	tw := &twinDB{db: db, conn: conn}
	tw.initial = tw.dump()
	return tw
}

func (tw *twinDB) close() {
	tw.conn.Close()
	tw.db.Close()
}

func renderRow(vals []any) string {
	parts := make([]string, len(vals))
	for i, v := range vals {
		switch x := v.(type) {
		case nil:
			parts[i] = "NULL"
		case []byte:
			parts[i] = "blob:" + hex.EncodeToString(x)
		case string:
			parts[i] = fmt.Sprintf("text:%q", x)
		default:
			parts[i] = fmt.Sprintf("%T:%v", v, v)
		}
	}
	return strings.Join(parts, "|")
}

func (tw *twinDB) query(q string) (int, []string, error) {
	rows, err := tw.conn.QueryContext(ctx, q)
	if err != nil {
		return 0, nil, err
	}
	defer rows.Close()
	cols, err := rows.Columns()
	if err != nil {
		return 0, nil, err
	}
	var out []string
	for rows.Next() {
		vals := make([]any, len(cols))
		ptrs := make([]any, len(cols))
		for i := range vals {
			ptrs[i] = &vals[i]
		}
		if err := rows.Scan(ptrs...); err != nil {
			return len(cols), out, err
		}
		out = append(out, renderRow(vals))
	}
	return len(cols), out, rows.Err()
}

func quoteName(n string) string { return `"` + strings.ReplaceAll(n, `"`, `""`) + `"` }

// dump renders the whole database (loose names objects whose column names are
// derived from unaliased expressions and therefore unspecified: only their
// column count and rows are rendered): every schema object (main and temp) with
// its layout-independent definition, every table's column list and rows (as a
// sorted multiset), and every view's rows or the fact that it cannot be read.
func (tw *twinDB) dump(loose ...string) string {
	var b strings.Builder
	for _, master := range []string{"sqlite_master", "sqlite_temp_master"} {
		type obj struct{ typ, name, sql string }
		var list []obj
		_, raw, err := tw.queryRaw("SELECT type, name, coalesce(sql,'') FROM " + master + " ORDER BY type, name")
		if err != nil {
			fmt.Fprintf(&b, "%s: error %v\n", master, err)
			continue
		}
		for _, r := range raw {
			list = append(list, obj{r[0], r[1], r[2]})
		}
		for _, o := range list {
			if strings.HasPrefix(o.name, "sqlite_") && o.typ == "index" {
				fmt.Fprintf(&b, "%s %s %q auto\n", master, o.typ, o.name)
				continue
			}
			isLoose := false
			for _, l := range loose {
				if strings.EqualFold(l, o.name) {
					isLoose = true
				}
			}
			switch {
			case isLoose:
				fmt.Fprintf(&b, "%s %s %q (column names unspecified)\n", master, o.typ, o.name)
			case o.typ == "view":
				fmt.Fprintf(&b, "%s view %q\n", master, o.name)
			default:
				fmt.Fprintf(&b, "%s %s %q: %s\n", master, o.typ, o.name, normSchemaSQL(o.sql))
			}
			if o.typ == "table" || o.typ == "view" {
				if _, info, err := tw.queryRaw("PRAGMA table_xinfo(" + quoteName(o.name) + ")"); err == nil {
					for _, r := range info {
						if isLoose {
							fmt.Fprintf(&b, "   col\n")
							continue
						}
						fmt.Fprintf(&b, "   col %s\n", normInfoRow(r))
					}
				} else {
					fmt.Fprintf(&b, "   table_xinfo error\n")
				}
				_, rows, err := tw.query("SELECT * FROM " + quoteName(o.name))
				if err != nil {
					fmt.Fprintf(&b, "   unreadable\n")
					continue
				}
				sort.Strings(rows)
				for _, r := range rows {
					fmt.Fprintf(&b, "   row %s\n", r)
				}
			}
		}
	}
	return b.String()
}

// normInfoRow renders a table_xinfo row (cid, name, type, notnull,
// dflt_value, pk, hidden) with name, declared type and default normalised:
// SQLite stores type and default as source text, layout included, and names a
// column of CREATE TABLE .. AS / CREATE VIEW that has no alias after the
// expression's source text (documented as unspecified).
func normInfoRow(r []string) string {
	parts := append([]string{}, r...)
	for _, i := range []int{1, 2, 4} {
		if len(parts) > i {
			parts[i] = normSchemaSQL(parts[i])
		}
	}
	return strings.Join(parts, " | ")
}

func (tw *twinDB) queryRaw(q string) (int, [][]string, error) {
	rows, err := tw.conn.QueryContext(ctx, q)
	if err != nil {
		return 0, nil, err
	}
	defer rows.Close()
	cols, _ := rows.Columns()
	var out [][]string
	for rows.Next() {
		vals := make([]sql.NullString, len(cols))
		ptrs := make([]any, len(cols))
		for i := range vals {
			ptrs[i] = &vals[i]
		}
		if err := rows.Scan(ptrs...); err != nil {
			return len(cols), out, err
		}
		r := make([]string, len(cols))
		for i, v := range vals {
			r[i] = v.String
		}
		out = append(out, r)
	}
	return len(cols), out, rows.Err()
}

// run executes one statement on the seed state and returns what it produced
// and (when wantState) the database afterwards.
func (tw *twinDB) run(stmt string, wantState bool, loose ...string) (*twinDB, execResult) {
	var res execResult
	if _, err := tw.conn.ExecContext(ctx, "BEGIN"); err != nil {
		tw.close()
		tw = openTwin()
		if _, err := tw.conn.ExecContext(ctx, "BEGIN"); err != nil {
			panic(err)
		}
	}
	n, rows, err := tw.query(stmt)
	res.ncols, res.rows = n, rows
	if err != nil {
		res.err = err.Error()
	}
	if wantState {
		res.state = tw.dump(loose...)
	}
	_, _ = tw.conn.ExecContext(ctx, "ROLLBACK")
	if wantState {
		if tw.dump() != tw.initial {
			tw.close()
			tw = openTwin()
		}
	}
	return tw, res
}
