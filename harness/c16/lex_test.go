package c16

import (
	"strings"
	"unicode"
)

// A small SQL tokenizer used by the harness only: to see whether a text has
// a quoted identifier (non-triviality rule), to compare schema texts modulo
// layout, and for the root-cause probes that name a failure. It never decides
// a verdict about ego's lexer.

type tokKind int

const (
	tWord   tokKind = iota // bare identifier or keyword
	tQIdent                // "x" `x` [x]; text is the decoded name
	tString                // '...' (text decoded); E'..' keeps its raw form
	tNumber
	tOp
	tComment
)

type tok struct {
	kind       tokKind
	text       string
	start, end int // byte offsets in the source
}

func isWordStart(r rune) bool { return r == '_' || unicode.IsLetter(r) }
func isWordCont(r rune) bool {
	return r == '_' || r == '$' || unicode.IsLetter(r) || unicode.IsDigit(r)
}

func lexSQL(s string) []tok {
	var out []tok
	rs := []rune(s)
	// byte offsets per rune index
	offs := make([]int, len(rs)+1)
	o := 0
	for i, r := range rs {
		offs[i] = o
		o += len(string(r))
	}
	offs[len(rs)] = o
	i := 0
	for i < len(rs) {
		r := rs[i]
		switch {
		case r == ' ' || r == '\t' || r == '\n' || r == '\r':
			i++
		case r == '-' && i+1 < len(rs) && rs[i+1] == '-':
			j := i
			for j < len(rs) && rs[j] != '\n' {
				j++
			}
			out = append(out, tok{tComment, string(rs[i:j]), offs[i], offs[j]})
			i = j
		case r == '/' && i+1 < len(rs) && rs[i+1] == '*':
			j := i + 2
			for j+1 < len(rs) && !(rs[j] == '*' && rs[j+1] == '/') {
				j++
			}
			j += 2
			if j > len(rs) {
				j = len(rs)
			}
			out = append(out, tok{tComment, string(rs[i:j]), offs[i], offs[j]})
			i = j
		case r == '\'':
			j, text := scanQuoted(rs, i, '\'')
			out = append(out, tok{tString, text, offs[i], offs[j]})
			i = j
		case r == '"' || r == '`':
			j, text := scanQuoted(rs, i, r)
			out = append(out, tok{tQIdent, text, offs[i], offs[j]})
			i = j
		case r == '[':
			j := i + 1
			for j < len(rs) && rs[j] != ']' {
				j++
			}
			text := string(rs[i+1 : j])
			if j < len(rs) {
				j++
			}
			out = append(out, tok{tQIdent, text, offs[i], offs[j]})
			i = j
		case isWordStart(r):
			j := i
			for j < len(rs) && isWordCont(rs[j]) {
				j++
			}
			w := string(rs[i:j])
			if j < len(rs) && rs[j] == '\'' && len(w) == 1 && strings.ContainsAny(w, "xXeE") {
				// blob or E-string: keep raw
				k := j + 1
				for k < len(rs) {
					if rs[k] == '\\' && (w == "e" || w == "E") {
						k += 2
						continue
					}
					if rs[k] == '\'' {
						if k+1 < len(rs) && rs[k+1] == '\'' {
							k += 2
							continue
						}
						break
					}
					k++
				}
				if k < len(rs) {
					k++
				}
				out = append(out, tok{tString, string(rs[i:k]), offs[i], offs[k]})
				i = k
				continue
			}
			out = append(out, tok{tWord, w, offs[i], offs[j]})
			i = j
		case unicode.IsDigit(r) || (r == '.' && i+1 < len(rs) && unicode.IsDigit(rs[i+1])):
			j := i
			for j < len(rs) && (unicode.IsDigit(rs[j]) || unicode.IsLetter(rs[j]) || rs[j] == '.' ||
				((rs[j] == '+' || rs[j] == '-') && j > i && (rs[j-1] == 'e' || rs[j-1] == 'E') && !strings.HasPrefix(strings.ToLower(string(rs[i:j])), "0x"))) {
				j++
			}
			out = append(out, tok{tNumber, string(rs[i:j]), offs[i], offs[j]})
			i = j
		default:
			j := i + 1
			for _, op := range []string{"->>", "::", "->", "<<", ">>", "<=", ">=", "<>", "!=", "==", "||"} {
				if strings.HasPrefix(string(rs[i:min(len(rs), i+3)]), op) {
					j = i + len([]rune(op))
					break
				}
			}
			// placeholders :name @name ?1 $1 are kept as one op-ish token
			if (r == ':' || r == '@' || r == '?' || r == '$') && j == i+1 {
				for j < len(rs) && isWordCont(rs[j]) {
					j++
				}
			}
			out = append(out, tok{tOp, string(rs[i:j]), offs[i], offs[j]})
			i = j
		}
	}
	return out
}

func scanQuoted(rs []rune, i int, q rune) (int, string) {
	var b strings.Builder
	j := i + 1
	for j < len(rs) {
		if rs[j] == q {
			if j+1 < len(rs) && rs[j+1] == q {
				b.WriteRune(q)
				j += 2
				continue
			}
			return j + 1, b.String()
		}
		b.WriteRune(rs[j])
		j++
	}
	return j, b.String()
}

func hasQuotedIdent(s string) bool {
	for _, t := range lexSQL(s) {
		if t.kind == tQIdent {
			return true
		}
	}
	return false
}

func plainWord(s string) bool {
	if s == "" {
		return false
	}
	for i, r := range s {
		if !(r == '_' || unicode.IsLetter(r) || (i > 0 && unicode.IsDigit(r))) {
			return false
		}
	}
	return true
}

// normSchemaSQL renders a CREATE statement stored in sqlite_master in a
// layout-, case- and quoting-independent form, and removes the spellings
// ego's formatter is documented to normalise without changing the meaning on
// SQLite: ASC (the default direction), GENERATED ALWAYS / VIRTUAL (defaults of
// a generated column), TEMPORARY (= TEMP), the optional AS before an alias,
// ISNULL / NOTNULL (= IS NULL / IS NOT NULL), "==" (= "=").
func normSchemaSQL(s string) string {
	var parts []string
	for _, t := range lexSQL(s) {
		switch t.kind {
		case tComment:
		case tWord:
			w := strings.ToUpper(t.text)
			switch w {
			case "ASC", "GENERATED", "ALWAYS", "VIRTUAL", "AS":
				continue
			case "TEMPORARY":
				w = "TEMP"
			case "ISNULL":
				parts = append(parts, "IS", "NULL")
				continue
			case "NOTNULL":
				parts = append(parts, "IS", "NOT", "NULL")
				continue
			}
			parts = append(parts, w)
		case tQIdent:
			if plainWord(t.text) {
				parts = append(parts, strings.ToUpper(t.text))
			} else if len(t.text) < len(s) {
				// a derived column name is expression source text: same treatment
				parts = append(parts, "\""+normSchemaSQL(t.text)+"\"")
			} else {
				parts = append(parts, "\""+t.text+"\"")
			}
		case tString:
			if len(t.text) > 1 && (t.text[0] == 'x' || t.text[0] == 'X') && t.text[1] == '\'' {
				parts = append(parts, "X"+t.text[1:]) // blob literal: prefix case is free
			} else {
				parts = append(parts, "'"+t.text+"'")
			}
		case tNumber:
			parts = append(parts, t.text)
		default:
			parts = append(parts, t.text)
		}
	}
	return strings.Join(parts, " ")
}
