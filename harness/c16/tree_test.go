package c16

import (
	"fmt"
	"reflect"
	"strings"

	"github.com/tucats/ego/internal/sqlparse/ast"
)

var (
	baseNodeT = reflect.TypeOf(ast.BaseNode{})
	baseStmtT = reflect.TypeOf(ast.BaseStmt{})
	positionT = reflect.TypeOf(ast.Position{})
)

func positional(t reflect.Type) bool { return t == baseNodeT || t == baseStmtT || t == positionT }

// dumpTree renders a syntax tree canonically with every position left out.
func dumpTree(n any) string {
	var b strings.Builder
	dumpVal(&b, reflect.ValueOf(n))
	return b.String()
}

func dumpVal(b *strings.Builder, v reflect.Value) {
	if !v.IsValid() {
		b.WriteString("nil")
		return
	}
	switch v.Kind() {
	case reflect.Interface, reflect.Ptr:
		if v.IsNil() {
			b.WriteString("nil")
			return
		}
		dumpVal(b, v.Elem())
	case reflect.Struct:
		b.WriteString(v.Type().Name())
		b.WriteString("{")
		first := true
		for i := 0; i < v.NumField(); i++ {
			f := v.Type().Field(i)
			if positional(f.Type) {
				continue
			}
			if !first {
				b.WriteString(" ")
			}
			first = false
			b.WriteString(f.Name)
			b.WriteString(":")
			dumpVal(b, v.Field(i))
		}
		b.WriteString("}")
	case reflect.Slice, reflect.Array:
		b.WriteString("[")
		for i := 0; i < v.Len(); i++ {
			if i > 0 {
				b.WriteString(" ")
			}
			dumpVal(b, v.Index(i))
		}
		b.WriteString("]")
	case reflect.String:
		fmt.Fprintf(b, "%q", v.String())
	default:
		fmt.Fprintf(b, "%v", v.Interface())
	}
}

func typeName(v reflect.Value) string {
	for v.IsValid() && (v.Kind() == reflect.Interface || v.Kind() == reflect.Ptr) {
		if v.IsNil() {
			return "nil"
		}
		v = v.Elem()
	}
	if !v.IsValid() {
		return "nil"
	}
	return v.Type().Name()
}

// firstDiff locates the first difference between two trees: the field path
// (no indexes) and a value-free description of the difference.
func firstDiff(a, b reflect.Value, path string) (string, string, bool) {
	for a.IsValid() && (a.Kind() == reflect.Interface || a.Kind() == reflect.Ptr) && !a.IsNil() {
		a = a.Elem()
	}
	for b.IsValid() && (b.Kind() == reflect.Interface || b.Kind() == reflect.Ptr) && !b.IsNil() {
		b = b.Elem()
	}
	an, bn := typeName(a), typeName(b)
	if an == "nil" || bn == "nil" {
		if an != bn {
			return path, an + " vs " + bn, true
		}
		return "", "", false
	}
	if a.Type() != b.Type() {
		return path, an + " vs " + bn, true
	}
	switch a.Kind() {
	case reflect.Struct:
		for i := 0; i < a.NumField(); i++ {
			f := a.Type().Field(i)
			if positional(f.Type) {
				continue
			}
			if p, w, ok := firstDiff(a.Field(i), b.Field(i), path+"/"+an+"."+f.Name); ok {
				return p, w, true
			}
		}
	case reflect.Slice, reflect.Array:
		if a.Len() != b.Len() {
			return path, "length", true
		}
		for i := 0; i < a.Len(); i++ {
			if p, w, ok := firstDiff(a.Index(i), b.Index(i), path); ok {
				return p, w, true
			}
		}
	default:
		if !reflect.DeepEqual(a.Interface(), b.Interface()) {
			return path, "value(" + a.Kind().String() + ")", true
		}
	}
	return "", "", false
}

var opLevel = map[string]int{"OR": 1, "AND": 2, "=": 4, "==": 4, "!=": 4, "<>": 4, "<": 5, "<=": 5, ">": 5, ">=": 5,
	"&": 7, "|": 7, "<<": 7, ">>": 7, "+": 8, "-": 8, "*": 9, "/": 9, "%": 9, "||": 10, "->": 10, "->>": 10}

// nonTrivial applies the stated rule to a parsed statement: two binary
// operators of different precedence, or a quoted identifier in the text, or an
// optional clause. It returns the rule parts that fired.
func nonTrivial(stmt ast.Statement, text string) []string {
	var why []string
	levels := map[int]bool{}
	optional := false
	ast.Walk(stmt, func(n ast.Node) bool {
		switch v := n.(type) {
		case *ast.BinaryExpr:
			if l, ok := opLevel[v.Op]; ok {
				levels[l] = true
			}
		case *ast.SelectStmt:
			optional = optional || v.With != nil || len(v.OrderBy) > 0 || v.Limit != nil
		case *ast.SelectCore:
			optional = optional || v.Distinct || v.All || v.Where != nil || len(v.GroupBy) > 0 || v.Having != nil
		case *ast.JoinClause, *ast.CompoundSelect, *ast.OnConflictClause, *ast.ReturningClause:
			optional = true
		case *ast.ResultColumn:
			optional = optional || v.Alias != ""
		case *ast.TableRef:
			optional = optional || v.Alias != "" || v.Schema != "" || v.IndexedBy != "" || v.NotIndexed
		case *ast.InsertStmt:
			optional = optional || v.OrAction != "" || len(v.Columns) > 0
		case *ast.UpdateStmt:
			optional = optional || v.OrAction != "" || len(v.From) > 0 || v.Where != nil
		case *ast.DeleteStmt:
			optional = optional || len(v.Using) > 0 || v.Where != nil
		case *ast.CreateTableStmt:
			optional = optional || v.Temp || v.IfNotExists || v.WithoutRowID || len(v.Constraints) > 0 || v.AsSelect != nil
		case *ast.ColumnDef:
			optional = optional || len(v.Constraints) > 0
		case *ast.DropTableStmt:
			optional = optional || v.IfExists || v.Cascade || v.Restrict
		case *ast.DropIndexStmt:
			optional = optional || v.IfExists || v.Schema != ""
		case *ast.DropViewStmt:
			optional = optional || v.IfExists || v.Cascade || v.Restrict
		case *ast.CreateIndexStmt:
			optional = optional || v.Unique || v.IfNotExists || v.Where != nil
		case *ast.CreateViewStmt:
			optional = optional || v.OrReplace || v.Temp || v.IfNotExists || len(v.Columns) > 0
		case *ast.OrderByTerm:
			optional = optional || v.Desc || v.Collation != "" || v.NullsFirst != nil
		case *ast.FuncCall:
			optional = optional || v.Distinct || v.Filter != nil
		case *ast.CaseExpr:
			optional = optional || v.Operand != nil || v.Else != nil
		case *ast.LikeExpr:
			optional = optional || v.Escape != nil
		case *ast.BeginStmt:
			optional = optional || v.Mode != "" || v.Name != ""
		case *ast.RollbackStmt:
			optional = optional || v.To != ""
		}
		return true
	})
	if len(levels) >= 2 {
		why = append(why, "prec-mix")
	}
	if hasQuotedIdent(text) {
		why = append(why, "quoted-ident")
	}
	if optional {
		why = append(why, "optional-clause")
	}
	return why
}
