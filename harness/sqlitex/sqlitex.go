// Package sqlitex holds small SQLite helpers for the /verif checks that judge
// SQL text by what SQLite itself would do with it (C14, reusable by C15/C17):
//
//   - Statements splits SQL text into statements with SQLite's lexical rules
//     (string literals, quoted identifiers, comments, NUL terminates the text),
//     so that "is this a single statement" never depends on a regexp.
//   - Explainer runs EXPLAIN on a read-only scratch copy of a database and
//     reports which tables a statement would open for reading and writing
//     (root page -> sqlite_master), which virtual tables it opens and whether
//     it changes the schema. EXPLAIN compiles a statement without running it.
//
// WARNING (probed): database/sql + modernc.org/sqlite executes *every*
// statement of a multi-statement string, so "EXPLAIN a; b" really runs b. The
// Explainer therefore refuses text that is not exactly one statement, and the
// scratch database is opened read-only with query_only on top.
package sqlitex

import (
	"database/sql"
	"fmt"
	"net/url"
	"sort"
	"strings"

	_ "modernc.org/sqlite"
)

// Statements returns the statements contained in text: the segments between
// top-level semicolons that contain at least one token (whitespace and
// comments are not tokens). An unterminated string, quoted identifier or
// block comment extends to the end of the text, as in SQLite's tokenizer. A
// NUL byte ends the text (the C API takes a NUL-terminated string).
func Statements(text string) []string {
	if i := strings.IndexByte(text, 0); i >= 0 {
		text = text[:i]
	}
	var out []string
	start, hasToken := 0, false
	flush := func(end int) {
		if hasToken {
			out = append(out, strings.TrimSpace(text[start:end]))
		}
		start, hasToken = end+1, false
	}
	n := len(text)
	for i := 0; i < n; {
		c := text[i]
		switch {
		case c == '\'' || c == '"' || c == '`':
			hasToken = true
			i++
			for i < n {
				if text[i] == c {
					if i+1 < n && text[i+1] == c {
						i += 2
						continue
					}
					break
				}
				i++
			}
			i++
		case c == '[':
			hasToken = true
			j := strings.IndexByte(text[i:], ']')
			if j < 0 {
				i = n
			} else {
				i += j + 1
			}
		case c == '-' && i+1 < n && text[i+1] == '-':
			j := strings.IndexByte(text[i:], '\n')
			if j < 0 {
				i = n
			} else {
				i += j + 1
			}
		case c == '/' && i+1 < n && text[i+1] == '*':
			j := strings.Index(text[i+2:], "*/")
			if j < 0 {
				i = n
			} else {
				i += j + 4
			}
		case c == ';':
			flush(i)
			i++
		case c == ' ' || c == '\t' || c == '\n' || c == '\r' || c == '\f':
			i++
		default:
			hasToken = true
			i++
		}
	}
	if start <= n {
		flush(n)
	}
	return out
}

// Verb returns the upper-cased first keyword of a statement ("" if none),
// skipping leading whitespace and comments.
func Verb(stmt string) string {
	s := stmt
	for {
		s = strings.TrimLeft(s, " \t\r\n\f")
		switch {
		case strings.HasPrefix(s, "--"):
			j := strings.IndexByte(s, '\n')
			if j < 0 {
				return ""
			}
			s = s[j+1:]
			continue
		case strings.HasPrefix(s, "/*"):
			j := strings.Index(s[2:], "*/")
			if j < 0 {
				return ""
			}
			s = s[j+4:]
			continue
		}
		break
	}
	i := 0
	for i < len(s) && (s[i] >= 'A' && s[i] <= 'Z' || s[i] >= 'a' && s[i] <= 'z' || s[i] == '_') {
		i++
	}
	return strings.ToUpper(s[:i])
}

// Access is what one statement would touch.
type Access struct {
	// Reads / Writes are lower-cased table names (an index counts as its
	// table; root page 1 is "sqlite_master"), sorted, without duplicates.
	Reads, Writes []string
	// Virtual is non-empty when the statement opens a virtual table or a
	// table-valued function (pragma_*, json_each, dbstat, ...).
	Virtual []string
	// SchemaChange: the program creates/destroys b-trees, reparses the schema
	// or bumps the schema cookie.
	SchemaChange bool
	// UnknownRoots are root pages that no sqlite_master row owns.
	UnknownRoots []int64
}

// Touched returns Reads ∪ Writes.
func (a *Access) Touched() []string {
	m := map[string]bool{}
	for _, t := range a.Reads {
		m[t] = true
	}
	for _, t := range a.Writes {
		m[t] = true
	}
	out := make([]string, 0, len(m))
	for t := range m {
		out = append(out, t)
	}
	sort.Strings(out)
	return out
}

// Explainer EXPLAINs statements against a scratch database file.
type Explainer struct {
	db    *sql.DB
	roots map[int64]string
}

// CopyTo writes a consistent copy of the database behind src to dst (which
// must not exist) with VACUUM INTO.
func CopyTo(src *sql.DB, dst string) error {
	_, err := src.Exec("VACUUM INTO '" + strings.ReplaceAll(dst, "'", "''") + "'")
	return err
}

// OpenExplainer opens the scratch copy read-only and loads the root-page map.
func OpenExplainer(scratch string) (*Explainer, error) {
	u := url.URL{Scheme: "file", Path: scratch, RawQuery: "mode=ro&_pragma=query_only(1)"}
	db, err := sql.Open("sqlite", u.String())
	if err != nil {
		return nil, err
	}
	db.SetMaxOpenConns(1)
	e := &Explainer{db: db, roots: map[int64]string{1: "sqlite_master"}}
	rows, err := db.Query(`SELECT tbl_name, rootpage FROM sqlite_master WHERE rootpage > 0`)
	if err != nil {
		db.Close()
		return nil, err
	}
	defer rows.Close()
	for rows.Next() {
		var t string
		var r int64
		if err := rows.Scan(&t, &r); err != nil {
			return nil, err
		}
		e.roots[r] = strings.ToLower(t)
	}
	return e, rows.Err()
}

// Close releases the scratch connection.
func (e *Explainer) Close() { e.db.Close() }

// ErrNotSingle is returned by Explain for text that is not exactly one statement.
var ErrNotSingle = fmt.Errorf("sqlitex: text is not exactly one statement")

// Explain compiles stmt (which must be exactly one statement) with nparams
// positional parameters bound to NULL and reports what it would touch. A
// non-nil error other than ErrNotSingle means SQLite refused to prepare the
// statement against this schema: it cannot execute on a database with the same
// schema either.
func (e *Explainer) Explain(stmt string, nparams int) (*Access, error) {
	if len(Statements(stmt)) != 1 {
		return nil, ErrNotSingle
	}
	if i := strings.IndexByte(stmt, 0); i >= 0 {
		stmt = stmt[:i]
	}
	args := make([]any, nparams)
	rows, err := e.db.Query("EXPLAIN "+stmt, args...)
	if err != nil {
		return nil, err
	}
	defer rows.Close()
	acc := &Access{}
	rd, wr, vt, unk := map[string]bool{}, map[string]bool{}, map[string]bool{}, map[int64]bool{}
	name := func(root int64) (string, bool) {
		t, ok := e.roots[root]
		if !ok {
			unk[root] = true
		}
		return t, ok
	}
	for rows.Next() {
		var addr, p1, p2, p3 int64
		var opcode string
		var p4, p5, comment any
		if err := rows.Scan(&addr, &opcode, &p1, &p2, &p3, &p4, &p5, &comment); err != nil {
			return nil, err
		}
		switch opcode {
		case "OpenRead", "ReopenIdx":
			if p3 != 0 { // not the main database (temp/attached)
				vt[fmt.Sprintf("db#%d", p3)] = true
				continue
			}
			if t, ok := name(p2); ok {
				rd[t] = true
			}
		case "OpenWrite":
			if p3 != 0 {
				vt[fmt.Sprintf("db#%d", p3)] = true
				continue
			}
			if t, ok := name(p2); ok {
				wr[t] = true
			}
		case "Clear", "Destroy":
			if t, ok := name(p1); ok {
				wr[t] = true
			}
			if opcode == "Destroy" {
				acc.SchemaChange = true
			}
		case "VOpen", "VFilter", "VUpdate", "VCreate", "VDestroy", "VBegin":
			vt[fmt.Sprint(opcode)] = true
		case "CreateBtree", "ParseSchema", "DropTable", "DropIndex", "DropTrigger", "SetCookie", "SqlExec":
			acc.SchemaChange = true
		}
	}
	if err := rows.Err(); err != nil {
		return nil, err
	}
	keys := func(m map[string]bool) []string {
		out := make([]string, 0, len(m))
		for k := range m {
			out = append(out, k)
		}
		sort.Strings(out)
		return out
	}
	acc.Reads, acc.Writes, acc.Virtual = keys(rd), keys(wr), keys(vt)
	for r := range unk {
		acc.UnknownRoots = append(acc.UnknownRoots, r)
	}
	sort.Slice(acc.UnknownRoots, func(i, j int) bool { return acc.UnknownRoots[i] < acc.UnknownRoots[j] })
	return acc, nil
}
