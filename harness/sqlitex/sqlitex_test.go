package sqlitex

import (
	"database/sql"
	"path/filepath"
	"reflect"
	"testing"
)

func TestStatements(t *testing.T) {
	for _, c := range []struct {
		in   string
		want int
	}{
		{`SELECT 1`, 1},
		{`SELECT 1;`, 1},
		{`SELECT 1; -- x`, 1},
		{`SELECT 1; /* y */ `, 1},
		{`SELECT ';' FROM "a;b"`, 1},
		{`SELECT 'it''s; fine'`, 1},
		{`SELECT * FROM "t1" ORDER BY id; DELETE FROM secrets --  LIMIT 1000`, 2},
		{`SELECT 1 -- ; DROP TABLE x`, 1},
		{"SELECT 1 -- c\n; DROP TABLE x", 2},
		{"SELECT 1\x00; DROP TABLE x", 1},
		{`SELECT 'unterminated ; DROP TABLE x`, 1},
		{`SELECT [a;b] FROM t; SELECT 2`, 2},
		{"", 0},
		{" ; ; ", 0},
	} {
		if got := len(Statements(c.in)); got != c.want {
			t.Errorf("Statements(%q) = %d (%q), want %d", c.in, got, Statements(c.in), c.want)
		}
	}
	if v := Verb("  /* c */ -- d\n  select 1"); v != "SELECT" {
		t.Errorf("Verb = %q", v)
	}
}

func TestExplain(t *testing.T) {
	dir := t.TempDir()
	db, err := sql.Open("sqlite", filepath.Join(dir, "a.db"))
	if err != nil {
		t.Fatal(err)
	}
	defer db.Close()
	for _, s := range []string{
		`CREATE TABLE "t1"("id" INTEGER, "name" TEXT, "_row_id_" TEXT UNIQUE)`,
		`CREATE TABLE "secrets"("id" INTEGER, "token" TEXT)`,
		`INSERT INTO secrets VALUES (1,'x')`,
	} {
		if _, err := db.Exec(s); err != nil {
			t.Fatal(err)
		}
	}
	scratch := filepath.Join(dir, "scratch.db")
	if err := CopyTo(db, scratch); err != nil {
		t.Fatal(err)
	}
	e, err := OpenExplainer(scratch)
	if err != nil {
		t.Fatal(err)
	}
	defer e.Close()
	type want struct {
		r, w   []string
		vt     bool
		schema bool
		fail   bool
	}
	for _, c := range []struct {
		q string
		n int
		w want
	}{
		{`SELECT * FROM t1 WHERE 1=0`, 0, want{r: []string{"t1"}}},
		{`SELECT * FROM t1,secrets WHERE 1=0`, 0, want{r: []string{"secrets", "t1"}}},
		{`SELECT * FROM "t1" WHERE ("id" = $1) ORDER BY (SELECT token FROM secrets) LIMIT 10`, 1, want{r: []string{"secrets", "t1"}}},
		{`INSERT INTO "t1"("_row_id_","id","name") VALUES ($1,$2,$3)`, 3, want{w: []string{"t1"}}},
		{`UPDATE t1 SET "name" = $1 WHERE ("id" = 1)`, 1, want{w: []string{"t1"}}},
		{`DELETE FROM "t1"`, 0, want{w: []string{"t1"}}},
		{`SELECT * FROM sqlite_master`, 0, want{r: []string{"sqlite_master"}}},
		{`SELECT * FROM pragma_table_info('secrets')`, 0, want{vt: true}},
		{`SELECT count(*) FROM secrets -- FROM "t1"  LIMIT 1000`, 0, want{r: []string{"secrets"}}},
		{`SELECT * FROM nosuch`, 0, want{fail: true}},
		{`DROP TABLE secrets`, 0, want{r: []string{"sqlite_master"}, w: []string{"secrets", "sqlite_master"}, schema: true}},
	} {
		a, err := e.Explain(c.q, c.n)
		if c.w.fail {
			if err == nil {
				t.Errorf("%s: expected prepare failure", c.q)
			}
			continue
		}
		if err != nil {
			t.Errorf("%s: %v", c.q, err)
			continue
		}
		if len(a.Reads)+len(c.w.r) > 0 && !reflect.DeepEqual(a.Reads, c.w.r) {
			t.Errorf("%s: reads %v want %v", c.q, a.Reads, c.w.r)
		}
		if len(a.Writes)+len(c.w.w) > 0 && !reflect.DeepEqual(a.Writes, c.w.w) {
			t.Errorf("%s: writes %v want %v", c.q, a.Writes, c.w.w)
		}
		if (len(a.Virtual) > 0) != c.w.vt || a.SchemaChange != c.w.schema {
			t.Errorf("%s: virtual %v schema %v", c.q, a.Virtual, a.SchemaChange)
		}
	}
	if _, err := e.Explain(`SELECT 1; DELETE FROM secrets`, 0); err != ErrNotSingle {
		t.Errorf("multi-statement: %v", err)
	}
	// the scratch copy is read-only: even a direct write must fail
	if _, err := e.db.Exec(`DELETE FROM secrets`); err == nil {
		t.Errorf("scratch database is writable")
	}
}
