package c33

// Generator of semicolon-terminated JavaScript programs in the style of the
// dashboard assets: file-scope var/let/const/function/class declarations,
// functions with locals and closures, object literals (shorthand, methods,
// accessors, spread, computed keys), destructuring (with aliases, defaults,
// rest), template literals with ${} (also nested), regex literals, optional
// chaining, loops, switch, try/catch, IIFEs. Every observable goes through
// log(...).
//
// The generator is scope- and type-aware so that the ORIGINAL program is valid
// and terminates: it never references an undeclared name, never re-declares a
// name in a scope, never refers to an outer name in a function that later
// declares the same name (no TDZ / hoisting surprises), and only calls
// functions declared earlier (no recursion). No statement relies on automatic
// semicolon insertion.
//
// Names are drawn from one small shared pool for locals, parameters, property
// keys, method names and references to host globals, so that a local sharing
// its name with a property, a global or a file-scope name is the normal case.

import (
	"fmt"
	"math/bits"
	"sort"
	"strings"

	"pgregory.net/rapid"
)

// Note records one use of a name in a role that matters for diagnosing a
// failure (root-cause signature) and for the non-triviality rule. It never
// influences the verdict.
type Note struct {
	Role string `json:"role"`
	Name string `json:"name"`
}

const (
	tN = 'N' // number
	tS = 'S' // string
	tO = 'O' // object with known keys (values N or S)
	tA = 'A' // array of numbers
	tF = 'F' // function
)

type vr struct {
	name   string
	typ    byte
	keys   []string        // tO: keys in insertion order
	ktyp   map[string]byte // tO: key -> tN/tS
	params []byte          // tF
	ret    byte            // tF
	mut    bool
	host   bool // provided by the host context, not declared in the program
	file   bool // declared at file scope
}

type fctx struct {
	used     map[string]bool // names referenced or declared anywhere in this function so far
	declared map[string]bool
	top      bool
}

type scope struct {
	vars   []*vr
	parent *scope
}

type jg struct {
	t         *rapid.T
	notes     []Note
	fileScope []string
	fns       []*fctx
	sc        *scope
	fileSc    *scope // the program's own top-level scope
	fnSc      []*scope // outermost scope of each enclosing function body
	uniq      int
	budget    int // remaining statements
	exotic    bool
	// plainTemplates: in this case ${...} only refers to file-scope names,
	// host globals and literals (half of the cases), so that the search also
	// covers programs outside the "local inside a template" region.
	plainTemplates bool
	globalsOnly    int // >0 while generating such a ${...} expression
}

func (g *jg) pick(n int, label string) int {
	if n <= 1 {
		return 0
	}
	k := bits.Len(uint(n-1)) + 4
	v := 0
	for i := 0; i < k; i++ {
		v <<= 1
		if rapid.Bool().Draw(g.t, label) {
			v |= 1
		}
	}
	return (v * n) >> k
}
func (g *jg) chance(pct int, label string) bool { return g.pick(100, label) >= 100-pct }
func (g *jg) from(pool []string, label string) string {
	return pool[g.pick(len(pool), label)]
}
func (g *jg) note(role, name string) { g.notes = append(g.notes, Note{role, name}) }

// shared pool: local / parameter / property / method names. Several are also
// host globals (status, total, state, history, label, items).
var namePool = []string{"name", "value", "status", "data", "item", "count", "total", "key", "id", "type", "list", "cb", "opts",
	"result", "index", "text", "user", "body", "state", "label", "items", "history", "rows", "cfg", "msg", "n", "i", "x", "a", "b",
	"from", "get", "length", "source", "username"}

// file-scope names (never host-global names: a top-level let/const would
// clash with the host's var of the same name).
var filePool = []string{"activeTab", "SQL_KEYWORDS", "codeFormatEnabled", "legacyGlobal", "showSettings", "renderRow", "fmtValue",
	"data", "count", "name", "value", "cfg", "rows", "user", "opts", "result", "helper", "text", "key", "list"}

var hostGlobals = []*vr{
	{name: "status", typ: tS, host: true},
	{name: "total", typ: tN, host: true},
	{name: "state", typ: tO, keys: []string{"n", "label"}, ktyp: map[string]byte{"n": tN, "label": tS}, host: true},
	{name: "history", typ: tA, host: true},
	{name: "DEFAULT_LIMIT", typ: tN, host: true},
	{name: "label", typ: tS, host: true},
	{name: "items", typ: tA, host: true},
	{name: "sharedHelper", typ: tF, params: []byte{tN}, ret: tS, host: true},
	{name: "otherFileFn", typ: tF, params: []byte{tS, tN}, ret: tS, host: true},
}

var hostNames = map[string]bool{"status": true, "total": true, "state": true, "history": true, "DEFAULT_LIMIT": true, "label": true,
	"items": true, "sharedHelper": true, "otherFileFn": true, "log": true}

func (g *jg) fn() *fctx { return g.fns[len(g.fns)-1] }

func (g *jg) push() { g.sc = &scope{parent: g.sc} }
func (g *jg) pop()  { g.sc = g.sc.parent }

// visible returns the variables of the wanted type that a reference at this
// point resolves to (inner declarations shadow outer ones by name).
func (g *jg) visible(typ byte, mutOnly bool) []*vr {
	seen := map[string]bool{}
	var out []*vr
	for s := g.sc; s != nil; s = s.parent {
		for i := len(s.vars) - 1; i >= 0; i-- {
			v := s.vars[i]
			if seen[v.name] {
				continue
			}
			seen[v.name] = true
			if g.globalsOnly > 0 && !v.file && !v.host {
				continue
			}
			if v.typ == typ && (!mutOnly || v.mut) {
				out = append(out, v)
			}
		}
	}
	// deterministic order independent of map iteration
	sort.SliceStable(out, func(i, j int) bool { return out[i].name < out[j].name })
	return out
}

// ref marks a use of v in every enclosing function (so that none of them
// declares the same name later) and returns its name.
func (g *jg) ref(v *vr) string {
	for _, f := range g.fns {
		f.used[v.name] = true
	}
	switch {
	case v.host:
		g.note("global-ref", v.name)
	case v.file:
		g.note("filescope-ref", v.name)
	}
	return v.name
}

// fresh picks a name that the current function has neither declared nor
// referenced. At file scope host-global names are excluded.
func (g *jg) fresh(label string) string {
	f := g.fn()
	pool := namePool
	if f.top {
		pool = filePool
	}
	for try := 0; try < 6; try++ {
		n := g.from(pool, label)
		if f.used[n] || f.declared[n] || n == "log" || (f.top && hostNames[n]) {
			continue
		}
		return n
	}
	g.uniq++
	return fmt.Sprintf("v%d", g.uniq)
}

// declare registers a new variable in the current scope.
func (g *jg) declare(v *vr, how string) *vr {
	f := g.fn()
	f.declared[v.name] = true
	f.used[v.name] = true
	g.sc.vars = append(g.sc.vars, v)
	switch {
	case f.top && g.sc == g.fileSc:
		v.file = true
		g.fileScope = append(g.fileScope, v.name)
		g.note("filescope", v.name)
	case f.top && how == "var":
		// var inside a top-level block is still a file-scope binding
		v.file = true
		g.fileScope = append(g.fileScope, v.name)
		g.note("filescope", v.name)
		g.note("toplevel-block-var", v.name)
	default:
		g.note("local", v.name)
	}
	return v
}

// ── layout ───────────────────────────────────────────────────────────────────

var commentTexts = []string{"note", "it's \"quoted\"", "a / b", "TODO: fix `this`", "x = y; // nested", "{ brace", "} brace", "regex /a+/ here",
	"  spaced   out  ", "${notATemplate}", "*"}

func (g *jg) nl() string {
	switch k := g.pick(100, "nl"); {
	case k < 55:
		return "\n"
	case k < 70:
		return "\n\n"
	case k < 80:
		return " "
	case k < 90:
		return " // " + g.from(commentTexts, "lc") + "\n"
	default:
		return " /* " + g.from(commentTexts, "bc") + " */\n"
	}
}

func (g *jg) sp() string {
	switch k := g.pick(100, "sp"); {
	case k < 70:
		return " "
	case k < 85:
		return ""
	case k < 93:
		return "\n    "
	default:
		return " /* " + g.from(commentTexts, "ic") + " */ "
	}
}

// ── literals ─────────────────────────────────────────────────────────────────

var numLits = []string{"0", "1", "2", "3", "7", "10", "42", "0xff", "1e3", "1_000", ".5", "2.5", "0b101", "100"}

func (g *jg) strLit() string {
	pieces := []string{"a", "hello", "  two  spaces  ", "it", "//", "/*", "*/", "x / y", "`", "${z}", "\\n", "\\\\", "{", "}", "name", "value", ";", "é", "a+b", "status"}
	q := g.from([]string{"'", "\""}, "q")
	if q == "'" {
		pieces = append(pieces, "\\'", "\"")
	} else {
		pieces = append(pieces, "\\\"", "'")
	}
	n := 1 + g.pick(3, "strn")
	var sb strings.Builder
	sb.WriteString(q)
	for i := 0; i < n; i++ {
		sb.WriteString(g.from(pieces, "strp"))
	}
	sb.WriteString(q)
	return sb.String()
}

var regexLits = []string{"/a+/", "/hello world/gi", "/\\s+/g", "/[a-z]+/i", "/\\d+(?:\\.\\d+)?/", "/[/]/", "/\\//g", "/a  b/", "/\"/", "/'/g", "/(x|y)*/",
	"/^\\s*func\\s+main\\s*\\(\\s*\\)/m", "/\\(.*\\)/", "/[`]/", "/{/", "/e/"}

// ── expressions ──────────────────────────────────────────────────────────────

func (g *jg) exprN(d int) string {
	vs := g.visible(tN, false)
	k := g.pick(100, "N")
	if d <= 0 {
		if len(vs) > 0 && k < 60 {
			return g.ref(vs[g.pick(len(vs), "Nv")])
		}
		return g.from(numLits, "numlit")
	}
	switch {
	case k < 12:
		return g.from(numLits, "numlit")
	case k < 30 && len(vs) > 0:
		return g.ref(vs[g.pick(len(vs), "Nv")])
	case k < 48:
		op := g.from([]string{"+", "-", "*", "%", "-", "+", "&", "|", ">>", "**"}, "binop")
		l, r := g.exprN(d-1), g.exprN(d-1)
		if op == "%" {
			r = "3"
		}
		if op == "**" {
			l, r = "("+l+")", "2"
		}
		if strings.HasPrefix(r, "-") || strings.HasPrefix(r, "+") {
			r = "(" + r + ")"
		}
		return l + " " + op + " " + r
	case k < 54:
		return "(" + g.exprN(d-1) + " + " + g.exprN(d-1) + ") / 2"
	case k < 58:
		return g.from([]string{"-", "+", "- -", "+ +", "~"}, "unop") + g.atomN()
	case k < 66:
		if os := g.visible(tO, false); len(os) > 0 {
			o := os[g.pick(len(os), "No")]
			if key := g.keyOf(o, tN); key != "" {
				return g.member(o, key)
			}
		}
		return g.from(numLits, "numlit")
	case k < 72:
		if as := g.visible(tA, false); len(as) > 0 {
			a := as[g.pick(len(as), "Na")]
			if g.chance(50, "alen") {
				return g.ref(a) + ".length"
			}
			return g.ref(a) + "[" + g.from([]string{"0", "1"}, "aidx") + "]"
		}
		return g.from(numLits, "numlit")
	case k < 80:
		if c := g.call(tN, d); c != "" {
			return c
		}
		return g.from(numLits, "numlit")
	case k < 86:
		return "(" + g.exprB(d-1) + " ? " + g.exprN(d-1) + " : " + g.exprN(d-1) + ")"
	case k < 91:
		return g.from([]string{"Math.max", "Math.min"}, "math") + "(" + g.exprN(d-1) + "," + g.sp() + g.exprN(d-1) + ")"
	case k < 95:
		return "(" + g.exprS(d-1) + ").length"
	default:
		return "parseInt(" + g.exprS(d-1) + ", 10)"
	}
}

func (g *jg) atomN() string {
	if vs := g.visible(tN, false); len(vs) > 0 && g.chance(60, "atomv") {
		return g.ref(vs[g.pick(len(vs), "Nv")])
	}
	return g.from([]string{"1", "2", "7", "42"}, "atomlit")
}

// keyOf returns a key of o with the wanted value type, or "".
func (g *jg) keyOf(o *vr, typ byte) string {
	var ks []string
	for _, k := range o.keys {
		if o.ktyp[k] == typ {
			ks = append(ks, k)
		}
	}
	if len(ks) == 0 {
		return ""
	}
	return ks[g.pick(len(ks), "key")]
}

func (g *jg) member(o *vr, key string) string {
	g.note("prop", key)
	switch k := g.pick(100, "member"); {
	case k < 55:
		return g.ref(o) + "." + key
	case k < 75:
		return g.ref(o) + "?." + key
	case k < 85:
		return g.ref(o) + "\n      ." + key
	default:
		return g.ref(o) + "[\"" + key + "\"]"
	}
}

func (g *jg) template(d int) string {
	var sb strings.Builder
	sb.WriteString("`")
	n := 1 + g.pick(3, "tn")
	for i := 0; i < n; i++ {
		sb.WriteString(g.from([]string{"", "a ", "x  y ", "<li>", "it's ", "// ", "{ ", "\\` ", "$ ", "name: ", "/* "}, "ttext"))
		var e string
		if g.plainTemplates {
			g.globalsOnly++
		}
		switch k := g.pick(100, "tk"); {
		case k < 45:
			e = g.exprN(d - 1)
		case k < 80:
			e = g.exprS(d - 1)
		case k < 90 && d > 1:
			// nested template literal
			e = g.exprB(d-1) + " ? `[" + g.from([]string{"", "in  ner ", "x "}, "ntext") + "${" + g.exprN(0) + "}]` : " + g.strLit()
		default:
			e = g.exprN(0)
		}
		if g.plainTemplates {
			g.globalsOnly--
		}
		g.noteTemplateNames(e)
		if strings.Contains(e, "`") {
			// a nested template literal, or a string that contains a backtick
			g.note("backtick-in-template-expr", "")
		}
		sb.WriteString("${" + g.from([]string{"", " "}, "tsp") + e + g.from([]string{"", " "}, "tsp2") + "}")
	}
	sb.WriteString(g.from([]string{"", " end", "  "}, "ttail"))
	sb.WriteString("`")
	return sb.String()
}

// noteTemplateNames records which identifiers occur inside a ${...}.
func (g *jg) noteTemplateNames(e string) {
	for _, id := range identsOf(e) {
		g.note("in-template", id)
	}
}

func (g *jg) exprS(d int) string {
	vs := g.visible(tS, false)
	k := g.pick(100, "S")
	if d <= 0 {
		if len(vs) > 0 && k < 55 {
			return g.ref(vs[g.pick(len(vs), "Sv")])
		}
		return g.strLit()
	}
	switch {
	case k < 12:
		return g.strLit()
	case k < 28 && len(vs) > 0:
		return g.ref(vs[g.pick(len(vs), "Sv")])
	case k < 40:
		return g.exprS(d-1) + " + " + g.exprS(d-1)
	case k < 47:
		return g.exprS(d-1) + " + " + g.atomN()
	case k < 65:
		return g.template(d)
	case k < 71:
		return g.atomS(d-1) + g.from([]string{".toUpperCase()", ".trim()", ".slice(1)", "\n      .toLowerCase()"}, "smeth")
	case k < 77:
		return g.atomS(d-1) + ".replace(" + g.from(regexLits, "re") + "," + g.sp() + g.strLit() + ")"
	case k < 82:
		if os := g.visible(tO, false); len(os) > 0 {
			o := os[g.pick(len(os), "So")]
			if key := g.keyOf(o, tS); key != "" {
				return g.member(o, key)
			}
			return "JSON.stringify(" + g.ref(o) + ")"
		}
		return g.strLit()
	case k < 87:
		if as := g.visible(tA, false); len(as) > 0 {
			return g.ref(as[g.pick(len(as), "Sa")]) + ".join(" + g.strLit() + ")"
		}
		return "String(" + g.exprN(d-1) + ")"
	case k < 93:
		if c := g.call(tS, d); c != "" {
			return c
		}
		return g.strLit()
	case k < 97:
		return "typeof " + g.atomN()
	default:
		return "(" + g.exprB(d-1) + " ? " + g.exprS(d-1) + " : " + g.exprS(d-1) + ")"
	}
}

// atomS is a string expression that a member access can be appended to.
func (g *jg) atomS(d int) string {
	if vs := g.visible(tS, false); len(vs) > 0 && g.chance(50, "atomSv") {
		return g.ref(vs[g.pick(len(vs), "Sv")])
	}
	if d <= 0 {
		return g.strLit()
	}
	return "(" + g.exprS(d) + ")"
}

func (g *jg) exprB(d int) string {
	switch k := g.pick(100, "B"); {
	case k < 30 || d <= 0:
		return g.exprN(0) + " " + g.from([]string{"<", ">", "<=", ">=", "===", "!==", "==", "!="}, "cmp") + " " + g.exprN(0)
	case k < 45:
		return g.exprS(d-1) + " === " + g.exprS(d-1)
	case k < 60:
		return g.from(regexLits, "re") + ".test(" + g.exprS(d-1) + ")"
	case k < 70:
		if os := g.visible(tO, false); len(os) > 0 {
			o := os[g.pick(len(os), "Bo")]
			key := g.from(namePool, "inkey")
			g.note("string-key", key)
			return "\"" + key + "\" in " + g.ref(o)
		}
		return "true"
	case k < 78:
		return "!(" + g.exprB(d-1) + ")"
	case k < 90:
		return g.exprB(d-1) + " " + g.from([]string{"&&", "||"}, "logic") + " " + g.exprB(d-1)
	default:
		return "typeof " + g.atomN() + " === " + g.from([]string{"\"number\"", "'string'"}, "tyof")
	}
}

// call returns a call of a visible function returning typ, or "".
func (g *jg) call(typ byte, d int) string {
	var fs []*vr
	for _, f := range g.visible(tF, false) {
		if f.ret == typ {
			fs = append(fs, f)
		}
	}
	if len(fs) == 0 {
		return ""
	}
	f := fs[g.pick(len(fs), "callf")]
	var args []string
	for _, p := range f.params {
		args = append(args, g.exprOf(p, d-1))
	}
	return g.ref(f) + "(" + strings.Join(args, ","+g.sp()) + ")"
}

func (g *jg) exprOf(typ byte, d int) string {
	switch typ {
	case tN:
		return g.exprN(d)
	case tS:
		return g.exprS(d)
	case tA:
		e, _ := g.exprA(d)
		return e
	case tO:
		e, _ := g.exprO(d)
		return e
	}
	return "null"
}

// exprO returns an object-literal expression and the description of its keys.
func (g *jg) exprO(d int) (string, *vr) {
	o := &vr{typ: tO, ktyp: map[string]byte{}}
	var parts []string
	add := func(k string, t byte) bool {
		if _, dup := o.ktyp[k]; dup {
			return false
		}
		o.keys = append(o.keys, k)
		o.ktyp[k] = t
		return true
	}
	if g.chance(15, "ospread") {
		if os := g.visible(tO, false); len(os) > 0 {
			src := os[g.pick(len(os), "spreadsrc")]
			for _, k := range src.keys {
				add(k, src.ktyp[k])
			}
			parts = append(parts, "..."+g.ref(src))
		}
	}
	n := 1 + g.pick(4, "nkeys")
	for i := 0; i < n; i++ {
		switch k := g.pick(100, "okind"); {
		case k < 50:
			key := g.from(namePool, "okey")
			t := byte(tN)
			if g.chance(45, "oval") {
				t = tS
			}
			if !add(key, t) {
				continue
			}
			g.note("prop", key)
			g.note("obj-key", key)
			quoted := g.chance(10, "qkey")
			ks := key
			if quoted {
				ks = "\"" + key + "\""
			}
			parts = append(parts, ks+":"+g.sp()+g.exprOf(t, d-1))
		case k < 75:
			// shorthand property from a visible variable
			var cands []*vr
			cands = append(cands, g.visible(tN, false)...)
			cands = append(cands, g.visible(tS, false)...)
			if len(cands) == 0 {
				continue
			}
			v := cands[g.pick(len(cands), "shv")]
			if !add(v.name, v.typ) {
				continue
			}
			g.note("prop", v.name)
			g.note("shorthand", v.name)
			parts = append(parts, g.ref(v))
		case k < 82:
			// computed key
			key := g.from(namePool, "ckey")
			if !add(key, tN) {
				continue
			}
			g.note("prop", key)
			g.note("string-key", key)
			parts = append(parts, "[\""+key+"\"]: "+g.exprN(d-1))
		case k < 92:
			// method shorthand; called through a later member call is not
			// typed, so methods are only logged via typeof / direct call below
			key := g.from(namePool, "mkey")
			if _, dup := o.ktyp[key]; dup {
				continue
			}
			g.note("prop", key)
			g.note("method-name", key)
			p := g.from(namePool, "mparam")
			parts = append(parts, key+"("+p+") { return "+p+" + 1; }")
			o.keys = append(o.keys, key)
			o.ktyp[key] = 'M'
		default:
			key := g.from(namePool, "gkey")
			if !add(key, tN) {
				continue
			}
			g.note("prop", key)
			g.note("accessor-name", key)
			parts = append(parts, "get "+key+"() { return "+g.from(numLits, "gval")+"; }")
		}
	}
	if len(parts) == 0 {
		key := g.from(namePool, "okey1")
		add(key, tN)
		g.note("prop", key)
		g.note("obj-key", key)
		parts = append(parts, key+": 1")
	}
	sep := "," + g.from([]string{" ", "", "\n      "}, "osep")
	return "{" + g.sp() + strings.Join(parts, sep) + g.sp() + "}", o
}

func (g *jg) exprA(d int) (string, *vr) {
	as := g.visible(tA, false)
	switch k := g.pick(100, "A"); {
	case k < 20 && len(as) > 0:
		return "[..." + g.ref(as[g.pick(len(as), "Asp")]) + "," + g.sp() + g.exprN(d-1) + "]", nil
	case k < 35 && len(as) > 0:
		p := g.from([]string{"x", "item", "value", "n", "v"}, "mapp")
		body := p + " * 2"
		switch g.pick(3, "mapform") {
		case 0:
			return g.ref(as[g.pick(len(as), "Amap")]) + ".map(function (" + p + ") { return " + body + "; })", nil
		case 1:
			return g.ref(as[g.pick(len(as), "Amap")]) + ".map((" + p + ") => " + body + ")", nil
		default:
			return g.ref(as[g.pick(len(as), "Amap")]) + ".filter(" + p + " => " + p + " > 1)", nil
		}
	default:
		n := 1 + g.pick(3, "alen")
		var el []string
		for i := 0; i < n; i++ {
			el = append(el, g.exprN(d-1))
		}
		return "[" + strings.Join(el, ","+g.sp()) + "]", nil
	}
}

// identsOf returns the identifier-like words of a piece of generated code,
// ignoring the contents of quoted strings (crude; used for notes only).
func identsOf(e string) []string {
	var out []string
	i := 0
	for i < len(e) {
		c := e[i]
		switch {
		case c == '"' || c == '\'':
			j := i + 1
			for j < len(e) && e[j] != c {
				if e[j] == '\\' {
					j++
				}
				j++
			}
			i = j + 1
		case c == '_' || c == '$' || (c >= 'a' && c <= 'z') || (c >= 'A' && c <= 'Z'):
			j := i
			for j < len(e) && (e[j] == '_' || e[j] == '$' || (e[j] >= 'a' && e[j] <= 'z') || (e[j] >= 'A' && e[j] <= 'Z') || (e[j] >= '0' && e[j] <= '9')) {
				j++
			}
			if i == 0 || (e[i-1] != '.' && !(e[i-1] >= '0' && e[i-1] <= '9')) {
				out = append(out, e[i:j])
			}
			i = j
		default:
			i++
		}
	}
	return out
}

// ── statements ───────────────────────────────────────────────────────────────

func (g *jg) logOf(v *vr) string {
	switch v.typ {
	case tF:
		return "log(\"" + v.name + "\", typeof " + g.ref(v) + ");"
	}
	return "log(\"" + v.name + "\"," + g.sp() + g.ref(v) + ");"
}

func (g *jg) atFunctionTop() bool {
	if len(g.fnSc) == 0 {
		return g.sc == g.fileSc
	}
	return g.sc == g.fnSc[len(g.fnSc)-1]
}

func (g *jg) declKw() string {
	kw := g.from([]string{"let", "const", "var", "let", "const"}, "kw")
	// var is function-scoped: inside a nested block it would stay visible
	// (possibly unassigned) after the block, which the scope model here does
	// not follow. So var is only used directly in a function body or at file
	// scope; "var inside a top-level block" has its own statement kind.
	if kw == "var" && !g.atFunctionTop() {
		kw = "let"
	}
	return kw
}

// stmt appends one statement (possibly several lines) to sb.
func (g *jg) stmt(sb *strings.Builder, d int, inLoop bool) {
	g.budget--
	ind := strings.Repeat("  ", len(g.fns)-1)
	w := func(s string) { sb.WriteString(ind + s + g.nl()) }
	top := g.fn().top
	k := g.pick(100, "stmt")
	if d <= 0 && k >= 44 && k < 90 {
		k = g.pick(44, "stmtflat")
	}
	switch {
	case k < 10: // number declaration
		kw := g.declKw()
		e := g.exprN(2)
		v := g.declare(&vr{name: g.fresh("nm"), typ: tN, mut: kw != "const"}, kw)
		w(kw + " " + v.name + " =" + g.sp() + e + ";")
		w(g.logOf(v))
	case k < 18: // string declaration
		kw := g.declKw()
		e := g.exprS(2)
		v := g.declare(&vr{name: g.fresh("nm"), typ: tS, mut: kw != "const"}, kw)
		w(kw + " " + v.name + " = " + e + ";")
		w(g.logOf(v))
	case k < 25: // object declaration
		kw := g.declKw()
		e, o := g.exprO(2)
		o.name, o.mut = g.fresh("nm"), false
		// methods are callable through the object
		v := g.declare(o, kw)
		w(kw + " " + v.name + " = " + e + ";")
		w("log(\"" + v.name + "\", " + g.ref(v) + ");")
		for _, key := range v.keys {
			if v.ktyp[key] == 'M' {
				w("log(" + g.ref(v) + "." + key + "(" + g.exprN(0) + "));")
			}
		}
	case k < 29: // array declaration
		kw := g.declKw()
		e, _ := g.exprA(2)
		v := g.declare(&vr{name: g.fresh("nm"), typ: tA}, kw)
		w(kw + " " + v.name + " = " + e + ";")
		w(g.logOf(v))
	case k < 32: // several declarators in one statement
		kw := g.from([]string{"let", "var"}, "mkw")
		if kw == "var" && !g.atFunctionTop() {
			kw = "let"
		}
		e1, e2 := g.exprN(1), g.exprS(1)
		v1 := g.declare(&vr{name: g.fresh("nm"), typ: tN, mut: true}, kw)
		v2 := g.declare(&vr{name: g.fresh("nm"), typ: tS, mut: true}, kw)
		w(kw + " " + v1.name + " = " + e1 + "," + g.sp() + v2.name + " = " + e2 + ";")
		w("log(" + g.ref(v1) + ", " + g.ref(v2) + ");")
	case k < 40: // object destructuring
		os := g.visible(tO, false)
		if len(os) == 0 {
			w("log(" + g.exprS(1) + ");")
			return
		}
		o := os[g.pick(len(os), "dso")]
		srcRef := g.ref(o) // before any new name is chosen: "let {x} = x" would hit the TDZ
		kw := g.declKw()
		var parts, logs []string
		f := g.fn()
		for _, key := range o.keys {
			if o.ktyp[key] == 'M' || len(parts) >= 3 {
				continue
			}
			switch kk := g.pick(100, "dkind"); {
			case kk < 45: // {key}
				if f.used[key] || f.declared[key] || (f.top && hostNames[key]) || key == "log" {
					continue
				}
				v := g.declare(&vr{name: key, typ: o.ktyp[key], mut: kw != "const"}, kw)
				g.note("prop", key)
				g.note("destructure-shorthand", key)
				parts = append(parts, key)
				logs = append(logs, v.name)
			case kk < 70: // {key: alias}
				v := g.declare(&vr{name: g.fresh("alias"), typ: o.ktyp[key], mut: kw != "const"}, kw)
				g.note("prop", key)
				g.note("obj-key", key)
				g.note("pattern-key", key)
				parts = append(parts, key+":"+g.sp()+v.name)
				logs = append(logs, v.name)
			case kk < 90: // {key = default}
				// the default is drawn first: it may refer to an outer
				// variable called key, which then rules the name out
				dflt := g.exprOf(o.ktyp[key], 0)
				if f.used[key] || f.declared[key] || (f.top && hostNames[key]) || key == "log" {
					continue
				}
				v := g.declare(&vr{name: key, typ: o.ktyp[key], mut: kw != "const"}, kw)
				g.note("prop", key)
				g.note("destructure-default", key)
				for _, id := range identsOf(dflt) {
					g.note("in-pattern-default", id)
				}
				parts = append(parts, key+" = "+dflt)
				logs = append(logs, v.name)
			}
		}
		// a key the object does not have, with a default
		if g.chance(30, "dmissing") {
			key := g.from(namePool, "dmk")
			dflt := g.exprN(0)
			if _, has := o.ktyp[key]; !has && !f.used[key] && !f.declared[key] && !(f.top && hostNames[key]) && key != "log" {
				v := g.declare(&vr{name: key, typ: tN, mut: kw != "const"}, kw)
				g.note("prop", key)
				g.note("destructure-default", key)
				for _, id := range identsOf(dflt) {
					g.note("in-pattern-default", id)
				}
				parts = append(parts, key+" = "+dflt)
				logs = append(logs, v.name)
			}
		}
		if g.chance(20, "drest") {
			v := g.declare(&vr{name: g.fresh("rest"), typ: tO, ktyp: map[string]byte{}}, kw)
			parts = append(parts, "..."+v.name)
			logs = append(logs, v.name)
		}
		if len(parts) == 0 {
			w("log(" + srcRef + ");")
			return
		}
		w(kw + " {" + g.sp() + strings.Join(parts, ","+g.sp()) + g.sp() + "} = " + srcRef + ";")
		w("log(" + strings.Join(logs, ", ") + ");")
	case k < 44: // array destructuring
		as := g.visible(tA, false)
		if len(as) == 0 {
			w("log(" + g.exprN(1) + ");")
			return
		}
		a := as[g.pick(len(as), "dsa")]
		srcRef := g.ref(a)
		kw := g.declKw()
		v1 := g.declare(&vr{name: g.fresh("nm"), typ: tN, mut: kw != "const"}, kw)
		v2 := g.declare(&vr{name: g.fresh("nm"), typ: tN, mut: kw != "const"}, kw)
		pat := v1.name + ", " + v2.name + " = " + g.from(numLits, "addef")
		logs := v1.name + ", " + v2.name
		if g.chance(30, "arest") {
			v3 := g.declare(&vr{name: g.fresh("nm"), typ: tA}, kw)
			pat += ", ..." + v3.name
			logs += ", " + v3.name
		}
		w(kw + " [" + pat + "] = " + srcRef + ";")
		w("log(" + logs + ");")
	case k < 52: // if / else
		c := g.exprB(2)
		if g.chance(35, "ifnobrace") {
			w("if (" + c + ") log(\"then\", " + g.exprN(1) + ");")
			if g.chance(50, "else1") {
				w("else log(\"else\", " + g.exprS(1) + ");")
			}
			return
		}
		w("if (" + c + ") {")
		g.block(sb, d-1, inLoop)
		if g.chance(50, "else2") {
			w("} else {")
			g.block(sb, d-1, inLoop)
		}
		w("}")
	case k < 58: // classic for with an accumulator
		acc := g.declare(&vr{name: g.fresh("acc"), typ: tN, mut: true}, "let")
		w("let " + acc.name + " = 0;")
		g.push()
		kw := "let"
		iv := g.declare(&vr{name: g.fresh("iv"), typ: tN}, kw)
		w("for (" + kw + " " + iv.name + " = 0; " + iv.name + " < " + g.from([]string{"2", "3", "4"}, "forn") + "; " + iv.name + "++) {")
		w("  " + acc.name + " += " + g.exprN(1) + ";")
		g.block(sb, d-1, true)
		w("}")
		g.pop()
		w(g.logOf(acc))
	case k < 63: // for-of / for-in
		if g.chance(50, "forof") {
			as := g.visible(tA, false)
			if len(as) == 0 {
				w("log(" + g.exprN(1) + ");")
				return
			}
			a := g.ref(as[g.pick(len(as), "foa")])
			g.push()
			v := g.declare(&vr{name: g.fresh("ov"), typ: tN}, "const")
			w("for (const " + v.name + " of " + a + ") {")
			w("  log(\"of\", " + v.name + ");")
			g.block(sb, d-1, true)
			w("}")
			g.pop()
		} else {
			os := g.visible(tO, false)
			if len(os) == 0 {
				w("log(" + g.exprS(1) + ");")
				return
			}
			o := g.ref(os[g.pick(len(os), "fio")])
			g.push()
			v := g.declare(&vr{name: g.fresh("kv"), typ: tS}, "const")
			w("for (const " + v.name + " in " + o + ") {")
			w("  log(\"in\", " + v.name + ");")
			w("}")
			g.pop()
		}
	case k < 66: // while / do-while with a counter
		// the body must not assign to the counter (mut false), or the loop may never end
		c := g.declare(&vr{name: g.fresh("ctr"), typ: tN}, "let")
		w("let " + c.name + " = 0;")
		if g.chance(50, "dowhile") {
			w("do {")
			w("  " + c.name + "++;")
			g.block(sb, d-1, true)
			w("} while (" + c.name + " < 2);")
		} else {
			w("while (" + c.name + " < 3) {")
			w("  " + c.name + " += 1;")
			g.block(sb, d-1, true)
			w("}")
		}
		w(g.logOf(c))
	case k < 70: // switch
		w("switch (" + g.exprN(1) + " % 3) {")
		w("  case 0:")
		w("    log(\"zero\", " + g.exprS(1) + ");")
		w("    break;")
		w("  case 1: {")
		g.block(sb, d-1, false)
		w("    break;")
		w("  }")
		w("  default:")
		w("    log(\"dflt\");")
		w("}")
	case k < 74: // try / catch / finally
		w("try {")
		w("  if (" + g.exprB(1) + ") throw new Error(" + g.strLit() + ");")
		g.block(sb, d-1, inLoop)
		e := g.from([]string{"err", "e", "error", "ex"}, "catchv")
		w("} catch (" + e + ") {")
		w("  log(\"caught\", " + e + ".message);")
		if g.chance(40, "finally") {
			w("} finally {")
			w("  log(\"finally\");")
		}
		w("}")
	case k < 82: // function declaration + call
		g.function(sb, d-1, "decl")
	case k < 85: // closure factory
		g.closure(sb)
	case k < 88: // class
		g.class(sb)
	case k < 90: // IIFE
		arrow := g.chance(40, "iifearrow")
		if arrow {
			w("(() => {")
		} else {
			w("(function () {")
		}
		g.fns = append(g.fns, &fctx{used: map[string]bool{}, declared: map[string]bool{}})
		g.push()
		g.fnSc = append(g.fnSc, g.sc)
		g.blockBody(sb, d-1, false)
		g.fnSc = g.fnSc[:len(g.fnSc)-1]
		g.pop()
		g.fns = g.fns[:len(g.fns)-1]
		w("})();")
	case k < 93: // assignment to a mutable variable
		if vs := g.visible(tN, true); len(vs) > 0 {
			v := vs[g.pick(len(vs), "asv")]
			if !v.host {
				switch g.pick(5, "asop") {
				case 0:
					w(g.ref(v) + " = " + g.exprN(1) + ";")
				case 1:
					w(g.ref(v) + " += " + g.exprN(1) + ";")
				case 2:
					w(g.ref(v) + "++;")
				case 3:
					w("--" + g.ref(v) + ";")
				default:
					w(g.ref(v) + " = " + g.ref(v) + " - -" + g.atomN() + ";")
				}
				w(g.logOf(v))
				return
			}
		}
		w("log(" + g.exprN(2) + ");")
	case k < 95 && g.exotic: // regex literal right after ')' (statement position)
		g.note("regex-after-paren", "")
		w("if (" + g.exprB(1) + ") " + g.from(regexLits, "re2") + ".test(" + g.exprS(1) + ") && log(\"matched\");")
	case k < 96 && g.exotic && top && g.sc == g.fileSc: // var in a top-level block
		g.push()
		e := g.exprN(1)
		v := g.declare(&vr{name: g.fresh("tbv"), typ: tN, mut: true}, "var")
		g.pop()
		// the binding outlives the block: register it at file scope
		g.sc.vars = append(g.sc.vars, v)
		kind := g.from([]string{"{", "if (true) {", "try {"}, "tbkind")
		w(kind)
		w("  var " + v.name + " = " + e + ";")
		if kind == "try {" {
			w("} catch (e) { log(\"never\"); }")
		} else {
			w("}")
		}
		w(g.logOf(v))
	case k < 97 && g.exotic && inLoop == false: // labelled loop
		lbl := g.from(namePool, "lbl")
		if g.fn().used[lbl] || g.fn().declared[lbl] {
			w("log(\"nolabel\");")
			return
		}
		g.note("label", lbl)
		iv := "q" + fmt.Sprint(g.pick(9, "lq"))
		w(lbl + ": for (let " + iv + " = 0; " + iv + " < 3; " + iv + "++) {")
		w("  if (" + iv + " === 1) continue " + lbl + ";")
		w("  log(\"lbl\", " + iv + ");")
		w("}")
	default:
		w("log(" + g.exprS(2) + "," + g.sp() + g.exprN(2) + ");")
	}
}

// block writes 1-3 statements in a new block scope (the braces are written by
// the caller).
func (g *jg) block(sb *strings.Builder, d int, inLoop bool) {
	g.push()
	g.fns = append(g.fns, g.fn()) // same function, deeper indentation
	n := 1 + g.pick(2, "blockn")
	for i := 0; i < n && g.budget > 0; i++ {
		g.stmt(sb, d, inLoop)
	}
	if n == 0 || g.budget <= 0 {
		sb.WriteString(strings.Repeat("  ", len(g.fns)-1) + "log(\"blk\");\n")
	}
	g.fns = g.fns[:len(g.fns)-1]
	g.pop()
}

func (g *jg) blockBody(sb *strings.Builder, d int, inLoop bool) {
	n := 1 + g.pick(3, "bodyn")
	for i := 0; i < n && g.budget > 0; i++ {
		g.stmt(sb, d, inLoop)
	}
}

// function writes a function (declaration, function expression or arrow
// bound to a const) followed by a call that logs its result.
func (g *jg) function(sb *strings.Builder, d int, _ string) {
	ind := strings.Repeat("  ", len(g.fns)-1)
	w := func(s string) { sb.WriteString(ind + s + g.nl()) }
	name := g.fresh("fn")
	ret := byte(tN)
	if g.chance(45, "fret") {
		ret = tS
	}
	np := g.pick(4, "np")
	inner := &fctx{used: map[string]bool{name: true}, declared: map[string]bool{}}
	var ptypes []byte
	var pdecl []string
	var pvars []*vr
	form := g.pick(100, "fform")
	if form < 60 && !g.atFunctionTop() {
		// A function declaration inside a nested block is hoisted to the
		// enclosing function in sloppy mode (Annex B.3.3) and would stay
		// visible after the block, which the scope model here does not
		// follow; nested blocks get function expressions instead.
		form = 60 + form/3
	}
	destructured := false
	for i := 0; i < np; i++ {
		var pn string
		for try := 0; ; try++ {
			pn = g.from(namePool, "pname")
			if !inner.declared[pn] && pn != name && pn != "log" {
				break
			}
			if try > 5 {
				g.uniq++
				pn = fmt.Sprintf("p%d", g.uniq)
				break
			}
		}
		inner.declared[pn], inner.used[pn] = true, true
		pt := byte(tN)
		if g.chance(40, "ptyp") {
			pt = tS
		}
		ptypes = append(ptypes, pt)
		pvars = append(pvars, &vr{name: pn, typ: pt, mut: true})
		g.note("local", pn)
		g.note("param", pn)
		s := pn
		if i == np-1 && pt == tN && g.chance(35, "pdefault") && form < 80 {
			// default value, sometimes a host global or a file-scope name
			dv := g.from(numLits, "pdlit")
			if g.chance(60, "pdglobal") {
				if vs := g.visible(tN, false); len(vs) > 0 {
					v := vs[g.pick(len(vs), "pdv")]
					if v.name != pn && !inner.declared[v.name] {
						dv = g.ref(v)
						inner.used[v.name] = true
						g.note("in-param-default", v.name)
					}
				}
			}
			s = pn + " = " + dv
		}
		pdecl = append(pdecl, s)
	}
	// an object parameter taken apart in the parameter list
	if form < 80 && g.chance(15, "pdestruct") {
		k1, k2 := g.from(namePool, "pk1"), g.from(namePool, "pk2")
		if k1 != k2 && !inner.declared[k1] && !inner.declared[k2] && k1 != name && k2 != name && k1 != "log" && k2 != "log" {
			inner.declared[k1], inner.used[k1], inner.declared[k2], inner.used[k2] = true, true, true, true
			pvars = append(pvars, &vr{name: k1, typ: tN, mut: true}, &vr{name: k2, typ: tN, mut: true})
			g.note("local", k1)
			g.note("local", k2)
			g.note("prop", k1)
			g.note("prop", k2)
			g.note("destructure-shorthand", k1)
			g.note("destructure-default", k2)
			pdecl = append(pdecl, "{ "+k1+", "+k2+" = 5 }")
			destructured = true
			_ = k2
			// the caller passes {k1: 1}
			ptypes = append(ptypes, 'D')
			pvars[len(pvars)-2].keys = []string{k1}
		}
	}
	params := strings.Join(pdecl, ","+g.sp())
	switch {
	case form < 60:
		w("function " + name + "(" + params + ")" + g.from([]string{" ", "", "\n"}, "fbrace") + "{")
	case form < 80:
		w("const " + name + " = function (" + params + ") {")
	default:
		w("const " + name + " = (" + params + ") => {")
	}
	// the function's own name is in scope inside its body (and shadows any
	// outer variable of that name); ret 'X' keeps the body from calling it
	fv := &vr{name: name, typ: tF, ret: 'X'}
	how := "function"
	if form >= 60 {
		how = "const"
	}
	g.declare(fv, how)
	outerFns := g.fns
	g.fns = append(g.fns, inner)
	g.push()
	g.fnSc = append(g.fnSc, g.sc)
	for _, pv := range pvars {
		g.sc.vars = append(g.sc.vars, pv)
	}
	g.blockBody(sb, d, false)
	retE := g.exprOf(ret, 2)
	sb.WriteString(ind + "  return " + retE + ";\n")
	g.fnSc = g.fnSc[:len(g.fnSc)-1]
	g.pop()
	g.fns = outerFns
	// names the body referenced must not be declared later by the enclosing
	// functions either
	for n := range inner.used {
		if !inner.declared[n] {
			for _, f := range g.fns {
				f.used[n] = true
			}
		}
	}
	if form < 60 {
		w("}")
	} else {
		w("};")
	}
	if !destructured {
		// callable from later expressions
		fv.params = ptypes
		fv.ret = ret
	}
	var args []string
	for i, pt := range ptypes {
		if pt == 'D' {
			args = append(args, "{ "+pvars[len(pvars)-2].name+": 1 }")
			continue
		}
		if i == len(ptypes)-1 && strings.Contains(pdecl[i], " = ") && g.chance(50, "omitdefault") {
			break
		}
		args = append(args, g.exprOf(pt, 1))
	}
	w("log(\"" + name + "\"," + g.sp() + g.ref(fv) + "(" + strings.Join(args, ", ") + "));")
}

func (g *jg) closure(sb *strings.Builder) {
	ind := strings.Repeat("  ", len(g.fns)-1)
	w := func(s string) { sb.WriteString(ind + s + g.nl()) }
	name := g.fresh("mk")
	p := g.from(namePool, "cp")
	c := g.from(namePool, "cc")
	if c == p || p == name || c == name || p == "log" || c == "log" {
		p, c = "start", "tally"
	}
	g.note("local", p)
	g.note("param", p)
	g.note("local", c)
	declForm := g.atFunctionTop()
	if declForm {
		w("function " + name + "(" + p + ") {")
	} else {
		w("const " + name + " = function (" + p + ") {")
	}
	w("  let " + c + " = " + p + ";")
	w("  return function () {")
	w("    " + c + " += 1;")
	if g.plainTemplates {
		w("    return " + c + " + \"/\" + " + p + ";")
	} else {
		w("    return `${" + c + "}/${" + p + "}`;")
		g.note("in-template", c)
		g.note("in-template", p)
	}
	w("  };")
	if declForm {
		w("}")
	} else {
		w("};")
	}
	fv := g.declare(&vr{name: name, typ: tF, ret: 'X'}, "function")
	inst := g.declare(&vr{name: g.fresh("inst"), typ: tF, ret: 'X'}, "const")
	w("const " + inst.name + " = " + g.ref(fv) + "(" + g.exprN(1) + ");")
	w("log(" + inst.name + "(), " + inst.name + "());")
}

func (g *jg) class(sb *strings.Builder) {
	ind := strings.Repeat("  ", len(g.fns)-1)
	w := func(s string) { sb.WriteString(ind + s + g.nl()) }
	cname := g.from([]string{"Box", "DsnEditor", "Row", "Widget"}, "cname")
	f := g.fn()
	if f.used[cname] || f.declared[cname] {
		w("log(\"noclass\");")
		return
	}
	field := g.from(namePool, "cfield")
	meth := g.from(namePool, "cmeth")
	acc := g.from(namePool, "cacc")
	mp := g.from(namePool, "cmp")
	cp := g.from(namePool, "ccp")
	if meth == acc || meth == "constructor" || acc == "constructor" || field == meth || field == acc {
		meth, acc, field = "describe", "size", "tag"
	}
	g.note("prop", field)
	g.note("class-field", field)
	g.note("prop", meth)
	g.note("method-name", meth)
	g.note("prop", acc)
	g.note("accessor-name", acc)
	g.note("local", mp)
	g.note("param", mp)
	g.note("local", cp)
	g.note("param", cp)
	w("class " + cname + " {")
	if g.chance(50, "hasfield") {
		w("  " + field + " = " + g.from(numLits, "fieldv") + ";")
	} else {
		field = ""
	}
	w("  constructor(" + cp + ") { this.inner = " + cp + "; }")
	w("  get " + acc + "() { return this.inner * 2; }")
	w("  " + meth + "(" + mp + ") { return this.inner + " + mp + "; }")
	w("  static make(" + cp + ") { return new " + cname + "(" + cp + "); }")
	w("}")
	cv := g.declare(&vr{name: cname, typ: tF, ret: 'X'}, "class")
	inst := g.declare(&vr{name: g.fresh("obj"), typ: tF, ret: 'X'}, "const")
	w("const " + inst.name + " = " + g.from([]string{"new " + g.ref(cv), cname + ".make"}, "newform") + "(" + g.exprN(1) + ");")
	line := "log(" + inst.name + "." + acc + ", " + inst.name + "." + meth + "(" + g.exprN(0) + ")"
	if field != "" {
		line += ", " + inst.name + "." + field
	}
	w(line + ", " + inst.name + ");")
}

// genProgram draws one program.
func genProgram(t *rapid.T) Case {
	g := &jg{t: t}
	g.exotic = g.chance(25, "exotic")
	g.plainTemplates = g.chance(50, "plaintemplates")
	g.budget = 6 + g.pick(14, "budget")
	g.fns = []*fctx{{used: map[string]bool{}, declared: map[string]bool{}, top: true}}
	g.sc = &scope{}
	for _, h := range hostGlobals {
		// host globals live "below" file scope
		g.sc.vars = append(g.sc.vars, h)
	}
	g.sc = &scope{parent: g.sc}
	g.fileSc = g.sc
	var sb strings.Builder
	if g.chance(30, "header") {
		sb.WriteString("// " + g.from(commentTexts, "hdr") + "\n")
	}
	if g.chance(10, "usestrict") {
		sb.WriteString("'use strict';\n")
	}
	for g.budget > 0 {
		g.stmt(&sb, 3, false)
	}
	return Case{Src: sb.String(), FileScope: dedupe(g.fileScope), Notes: g.notes}
}

func dedupe(in []string) []string {
	seen := map[string]bool{}
	var out []string
	for _, s := range in {
		if !seen[s] {
			seen[s] = true
			out = append(out, s)
		}
	}
	return out
}
