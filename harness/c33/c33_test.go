package c33

// C33 "Minified dashboard JavaScript behaves like the original".
//
// Statement decided: for every semicolon-terminated script, the minified
// script (with or without local renaming) is valid JavaScript and, when run,
// produces the same observable results as the original; property names,
// file-scope names and globals are never renamed. Every JavaScript file
// shipped with the dashboard still parses after minification.
//
// Preconditions taken from the real caller (internal/server/assets/handler.go
// Loader): javascript.Minify(data, shortenNames) receives the complete bytes
// of one .js asset; shortenNames is the setting ego.server.js.short.names
// (default false), so both values are reachable. Each asset is minified on
// its own and then shares one global scope with the other assets and with
// inline handlers in dashboard.html — hence "host globals" (names this file
// does not declare) and the second "probe" script that looks up the file's
// own file-scope names from outside. Inputs are whole scripts in which every
// statement that needs a semicolon has one (the generator never relies on
// automatic semicolon insertion).
//
// Oracle: /verif/js/runner.js (node, vm module) runs the original, the
// minified-without-renaming and the minified-with-renaming text each in a
// fresh context that holds only log() and the host globals, and then a probe
// script in the same context. Compared with the original: no SyntaxError,
// the same log lines, the same error class (or none), the same probe output.
// Minify(src, true) assigns short names in Go map order, so it is called
// several times and every distinct output is judged.
//
// A vm timeout or a dead worker is reported as inconclusive, never as a
// violation. If node cannot be started the test prints HARNESS-ERROR and fails
// without a VIOLATION line, which the driver maps to exit 2.

import (
	"bufio"
	"encoding/json"
	"fmt"
	"io"
	"os"
	"os/exec"
	"path/filepath"
	"sort"
	"strings"
	"sync"
	"testing"

	"github.com/tucats/ego/internal/util/javascript"
	"github.com/tucats/ego/verif/vkit"
)

type Case struct {
	Src       string   `json:"src,omitempty"`
	FileScope []string `json:"file_scope,omitempty"`
	Notes     []Note   `json:"notes,omitempty"`
	// File names a shipped asset (lib/assets/dashboard/<File>) that must
	// still construct a vm.Script after minification.
	File string `json:"file,omitempty"`
}

// ── node worker ──────────────────────────────────────────────────────────────

type errInfo struct {
	Cls string `json:"cls"`
	Msg string `json:"msg"`
}

type runResult struct {
	Syntax  *string    `json:"syntax"`
	Logs    []string   `json:"logs"`
	Error   *errInfo   `json:"error"`
	Timeout bool       `json:"timeout"`
	Probe   *runResult `json:"probe"`
}

type response struct {
	ID      int         `json:"id"`
	Results []runResult `json:"results"`
	Fatal   string      `json:"fatal"`
	Pong    string      `json:"pong"`
}

type worker struct {
	mu    sync.Mutex
	cmd   *exec.Cmd
	in    io.WriteCloser
	out   *bufio.Reader
	seq   int
	dead  bool
	nodeV string
}

var (
	theWorker *worker
	nodePath  string
)

// findNode looks for node/nodejs. VERIF_NODE overrides the search (a path
// that does not exist means "no node", which is how the exit-2 path is
// exercised).
func findNode() string {
	if v := os.Getenv("VERIF_NODE"); v != "" {
		if st, err := os.Stat(v); err == nil && !st.IsDir() {
			return v
		}
		return ""
	}
	for _, n := range []string{"node", "nodejs"} {
		if p, err := exec.LookPath(n); err == nil {
			return p
		}
	}
	for _, p := range []string{"/usr/bin/node", "/usr/bin/nodejs", "/usr/local/bin/node"} {
		if st, err := os.Stat(p); err == nil && !st.IsDir() {
			return p
		}
	}
	return ""
}

func startWorker() (*worker, error) {
	script := filepath.Join(vkit.Root(), "js", "runner.js")
	if _, err := os.Stat(script); err != nil {
		return nil, fmt.Errorf("runner script missing: %v", err)
	}
	cmd := exec.Command(nodePath, script)
	cmd.Stderr = os.Stderr
	in, err := cmd.StdinPipe()
	if err != nil {
		return nil, err
	}
	out, err := cmd.StdoutPipe()
	if err != nil {
		return nil, err
	}
	if err := cmd.Start(); err != nil {
		return nil, err
	}
	w := &worker{cmd: cmd, in: in, out: bufio.NewReaderSize(out, 1<<20)}
	resp, err := w.roundTrip(map[string]any{"op": "ping"})
	if err != nil {
		return nil, fmt.Errorf("node worker does not answer: %v", err)
	}
	w.nodeV = resp.Pong
	return w, nil
}

func (w *worker) roundTrip(req map[string]any) (*response, error) {
	w.seq++
	req["id"] = w.seq
	b, _ := json.Marshal(req)
	if _, err := w.in.Write(append(b, '\n')); err != nil {
		w.dead = true
		return nil, err
	}
	line, err := w.out.ReadBytes('\n')
	if err != nil {
		w.dead = true
		return nil, err
	}
	var resp response
	if err := json.Unmarshal(line, &resp); err != nil {
		w.dead = true
		return nil, fmt.Errorf("bad answer %q: %v", clip(string(line), 200), err)
	}
	if resp.ID != w.seq {
		w.dead = true
		return nil, fmt.Errorf("answer id %d for request %d", resp.ID, w.seq)
	}
	if resp.Fatal != "" {
		return nil, fmt.Errorf("runner: %s", resp.Fatal)
	}
	return &resp, nil
}

// ask sends one request; a dead worker is restarted once.
func ask(req map[string]any) (*response, error) {
	workerMu.Lock()
	defer workerMu.Unlock()
	for attempt := 0; attempt < 2; attempt++ {
		if theWorker == nil || theWorker.dead {
			w, err := startWorker()
			if err != nil {
				return nil, err
			}
			theWorker = w
		}
		resp, err := theWorker.roundTrip(req)
		if err == nil {
			return resp, nil
		}
		if !theWorker.dead {
			return nil, err
		}
		_ = theWorker.cmd.Process.Kill()
		_ = theWorker.cmd.Wait()
		theWorker = nil
	}
	return nil, fmt.Errorf("node worker died twice on the same request")
}

var workerMu sync.Mutex

// ── oracle ───────────────────────────────────────────────────────────────────

const vmTimeoutMS = 20000

func probeScript(fileScope []string) string {
	var sb strings.Builder
	names := append([]string{}, fileScope...)
	sort.Strings(names)
	for _, n := range names {
		// typeof never throws for an undeclared name; value shown for data
		fmt.Fprintf(&sb, "log(%q, typeof %s, (typeof %s === 'function' || typeof %s === 'undefined') ? '-' : %s);\n", "fs:"+n, n, n, n, n)
	}
	for _, h := range hostGlobals {
		fmt.Fprintf(&sb, "log(%q, typeof %s);\n", "host:"+h.name, h.name)
	}
	return sb.String()
}

func repoDir() string {
	if r := os.Getenv("VERIF_REPO"); r != "" {
		return r
	}
	return "/repo"
}

// minifiedVariants returns the distinct outputs of Minify: exactly one
// without renaming, and the distinct results of several renaming runs (the
// assignment of short names follows Go map iteration order).
func minifiedVariants(src string) (plain string, renamed []string) {
	plain = string(javascript.Minify([]byte(src), false))
	seen := map[string]bool{}
	for i := 0; i < 4; i++ {
		r := string(javascript.Minify([]byte(src), true))
		if !seen[r] {
			seen[r] = true
			renamed = append(renamed, r)
		}
	}
	sort.Strings(renamed)
	return plain, renamed
}

func describe(r runResult) string {
	var sb strings.Builder
	if r.Syntax != nil {
		return "does not parse: " + *r.Syntax
	}
	fmt.Fprintf(&sb, "logs=%s", clip(strings.Join(r.Logs, " ⏎ "), 600))
	if r.Error != nil {
		fmt.Fprintf(&sb, " error=%s(%s)", r.Error.Cls, clip(r.Error.Msg, 120))
	}
	if r.Probe != nil {
		fmt.Fprintf(&sb, " probe=%s", clip(strings.Join(r.Probe.Logs, " ⏎ "), 400))
		if r.Probe.Error != nil {
			fmt.Fprintf(&sb, " probe-error=%s(%s)", r.Probe.Error.Cls, clip(r.Probe.Error.Msg, 120))
		}
	}
	return sb.String()
}

func errCls(r *runResult) string {
	if r == nil || r.Error == nil {
		return "none"
	}
	return r.Error.Cls
}

// compare returns "" when got behaves like want, else the kind of difference.
func compare(want, got runResult) string {
	switch {
	case got.Syntax != nil:
		return "syntax-error"
	case errCls(&want) != errCls(&got):
		return fmt.Sprintf("error-class %s->%s", errCls(&want), errCls(&got))
	case !equalLogs(want.Logs, got.Logs):
		return "logs-differ"
	case want.Probe != nil && got.Probe != nil && (errCls(want.Probe) != errCls(got.Probe) || !equalLogs(want.Probe.Logs, got.Probe.Logs)):
		return "probe-differs"
	}
	return ""
}

func equalLogs(a, b []string) bool {
	if len(a) != len(b) {
		return false
	}
	for i := range a {
		if a[i] != b[i] {
			return false
		}
	}
	return true
}

func oracle(c Case) vkit.Outcome {
	if c.File != "" {
		return oracleFile(c)
	}
	var out vkit.Outcome
	out.Key = c.Src
	out.Labels, out.NonTrivial = classify(c)
	plain, renamed := minifiedVariants(c.Src)
	scripts := append([]string{c.Src, plain}, renamed...)
	resp, err := ask(map[string]any{"op": "run", "scripts": scripts, "probe": probeScript(c.FileScope), "timeout": vmTimeoutMS})
	if err != nil {
		out.Inconclusive = "node worker failed"
		fmt.Printf("HARNESS-ERROR property=C33 node worker: %v\n", err)
		return out
	}
	if len(resp.Results) != len(scripts) {
		out.Inconclusive = "short answer from worker"
		return out
	}
	orig := resp.Results[0]
	if orig.Syntax != nil {
		// a generator defect, not a property of the minifier
		out.Skip = "original does not parse"
		if os.Getenv("C33_DEBUG") != "" {
			fmt.Printf("ORIG-SYNTAX %s\n%s\n", *orig.Syntax, c.Src)
		}
		return out
	}
	for i, r := range resp.Results {
		if r.Timeout || (r.Probe != nil && r.Probe.Timeout) {
			out.Inconclusive = "vm timeout"
			if os.Getenv("C33_DEBUG") != "" {
				fmt.Printf("VM-TIMEOUT variant %d\n%s\n", i, scripts[i])
			}
			return out
		}
	}
	if orig.Error != nil {
		if os.Getenv("C33_DEBUG") != "" {
			fmt.Printf("ORIG-THROWS %s: %s\n%s\n", orig.Error.Cls, orig.Error.Msg, c.Src)
		}
		out.Labels = append(out.Labels, "original throws "+orig.Error.Cls)
	}
	if len(renamed) > 1 {
		out.Labels = append(out.Labels, "renaming output varies between runs")
	}
	for i, r := range resp.Results[1:] {
		variant := "plain"
		if i >= 1 {
			variant = "renamed"
		}
		kind := compare(orig, r)
		if kind == "" {
			continue
		}
		out.Fail = &vkit.Failure{
			Sig:      variant + ": " + diagnose(c, variant, kind, scripts[i+1], r),
			Observed: fmt.Sprintf("[%s, %s] minified=%q → %s", variant, kind, clip(scripts[i+1], 700), describe(r)),
			Expected: "as the original: " + describe(orig),
		}
		return out
	}
	return out
}

func oracleFile(c Case) vkit.Outcome {
	var out vkit.Outcome
	out.Key = "file:" + c.File
	out.Labels = []string{"origin:shipped-asset"}
	b, err := os.ReadFile(filepath.Join(repoDir(), "lib", "assets", "dashboard", filepath.Base(c.File)))
	if err != nil {
		out.Skip = "asset not readable"
		return out
	}
	src := string(b)
	plain, renamed := minifiedVariants(src)
	scripts := append([]string{src, plain}, renamed...)
	resp, err := ask(map[string]any{"op": "parse", "scripts": scripts})
	if err != nil || len(resp.Results) != len(scripts) {
		out.Inconclusive = "node worker failed"
		fmt.Printf("HARNESS-ERROR property=C33 node worker: %v\n", err)
		return out
	}
	if resp.Results[0].Syntax != nil {
		out.Skip = "shipped asset itself does not parse as a script"
		return out
	}
	out.NonTrivial = true
	for i, r := range resp.Results[1:] {
		if r.Syntax == nil {
			continue
		}
		variant := "plain"
		if i >= 1 {
			variant = "renamed"
		}
		out.Fail = &vkit.Failure{
			Sig:      fmt.Sprintf("%s: shipped asset %s no longer parses", variant, c.File),
			Observed: *r.Syntax,
			Expected: "new vm.Script(minified) succeeds",
		}
		return out
	}
	return out
}

// ── diagnosis (signature only; never influences the verdict) ────────────────

// wordCounts counts every identifier-like word of the text, wherever it
// occurs. Strings, regex literals and property names are identical in the
// two minified texts, so a name whose count drops was renamed somewhere.
func wordCounts(src string) map[string]int {
	m := map[string]int{}
	isStart := func(c byte) bool { return c == '_' || c == '$' || (c >= 'a' && c <= 'z') || (c >= 'A' && c <= 'Z') }
	for i := 0; i < len(src); {
		if !isStart(src[i]) {
			if src[i] >= '0' && src[i] <= '9' {
				for i < len(src) && (isStart(src[i]) || (src[i] >= '0' && src[i] <= '9')) {
					i++
				}
				continue
			}
			i++
			continue
		}
		j := i
		for j < len(src) && (isStart(src[j]) || (src[j] >= '0' && src[j] <= '9')) {
			j++
		}
		m[src[i:j]]++
		i = j
	}
	return m
}

// diagnose names the most specific known-risky construct of the case that
// involves a name the minifier actually renamed. The order is a priority
// list: a case that contains several risky constructs is attributed to the
// first, so a recorded finding can hide a co-occurring one in the same case —
// but not in the many cases that contain only the other construct.
func diagnose(c Case, variant, kind, minified string, r runResult) string {
	roles := map[string]map[string]bool{}
	for _, n := range c.Notes {
		if roles[n.Role] == nil {
			roles[n.Role] = map[string]bool{}
		}
		roles[n.Role][n.Name] = true
	}
	has := func(role string) bool { return len(roles[role]) > 0 }
	if variant == "plain" {
		switch {
		case has("backtick-in-template-expr"):
			return "template literal: a backtick inside ${} (nested template or string) ends the token"
		case has("regex-after-paren"):
			return "regex literal after ')' is tokenized as division"
		}
		return "unexplained " + kind
	}
	// which names did the renamer touch? (fewer bare occurrences than in the
	// plain minified text)
	plain := string(javascript.Minify([]byte(c.Src), false))
	pc, rc := wordCounts(plain), wordCounts(minified)
	renamedNames := map[string]bool{}
	for n, k := range pc {
		// fewer bare occurrences, or a shorthand {n} expanded to {n:short}
		if rc[n] < k || strings.Count(minified, n+":") > strings.Count(plain, n+":") {
			renamedNames[n] = true
		}
	}
	// a name mentioned by the error message gets priority
	mentioned := ""
	if r.Error != nil {
		if f := strings.Fields(r.Error.Msg); len(f) > 0 {
			mentioned = f[0]
		}
	}
	hit := func(role string) bool {
		for n := range roles[role] {
			if renamedNames[n] || (mentioned != "" && n == mentioned) {
				return true
			}
		}
		return false
	}
	switch {
	case hit("in-template"):
		return "identifier inside template literal ${} is not renamed with its declaration"
	case has("backtick-in-template-expr"):
		return "template literal: a backtick inside ${} (nested template or string) ends the token"
	case hit("destructure-default"):
		return "destructuring shorthand with default {name = v} loses its property key"
	case hit("method-name") || hit("accessor-name") || hit("class-field"):
		return "method / accessor / class-field name equal to a local is renamed"
	case hit("in-param-default") || hit("in-pattern-default"):
		return "identifier in a parameter or pattern default value is collected as a local"
	case hit("pattern-key"):
		return "property key of a destructuring pattern {key: alias} is collected as a local"
	case hit("toplevel-block-var"):
		return "var inside a top-level block is treated as a local"
	case hit("label"):
		return "statement label equal to a local"
	case hit("global-ref"):
		return "host global with the same name as a local is renamed"
	case has("regex-after-paren"):
		return "regex literal after ')' is tokenized as division"
	}
	return "unexplained " + kind
}

// classify: labels and the non-triviality rule (a local shares its name with
// a property, a global or a file-scope name).
func classify(c Case) ([]string, bool) {
	roles := map[string]map[string]bool{}
	for _, n := range c.Notes {
		if roles[n.Role] == nil {
			roles[n.Role] = map[string]bool{}
		}
		roles[n.Role][n.Name] = true
	}
	set := map[string]bool{}
	nt := false
	for n := range roles["local"] {
		if roles["prop"][n] {
			nt = true
			set["local = property name"] = true
		}
		if roles["global-ref"][n] {
			nt = true
			set["local = referenced host global"] = true
		}
		if roles["filescope"][n] {
			nt = true
			set["local = file-scope name"] = true
		}
		if roles["in-template"][n] {
			set["local used inside ${}"] = true
		}
		if roles["method-name"][n] || roles["accessor-name"][n] || roles["class-field"][n] {
			set["local = method/accessor/field name"] = true
		}
		if roles["shorthand"][n] {
			set["local in shorthand property"] = true
		}
		if roles["destructure-shorthand"][n] {
			set["local from destructuring shorthand"] = true
		}
		if roles["destructure-default"][n] {
			set["local from destructuring default"] = true
		}
	}
	for role := range roles {
		switch role {
		case "backtick-in-template-expr", "regex-after-paren", "toplevel-block-var", "label", "in-param-default", "param", "global-ref", "filescope-ref":
			set["has "+role] = true
		}
	}
	for _, kw := range []string{"class ", "=>", "?.", "...", "`", "switch (", "try {", "for (", "function (", "get ", "'use strict'"} {
		if strings.Contains(c.Src, kw) {
			set["src has "+strings.TrimSpace(kw)] = true
		}
	}
	if nt {
		set["nontrivial"] = true
	}
	var labels []string
	for l := range set {
		labels = append(labels, l)
	}
	sort.Strings(labels)
	return labels, nt
}

func clip(s string, n int) string {
	if len(s) > n {
		return s[:n] + "…"
	}
	return s
}

// ── fixed cases ──────────────────────────────────────────────────────────────

func fixed() []Case {
	var cs []Case
	files, _ := filepath.Glob(filepath.Join(repoDir(), "lib", "assets", "dashboard", "*.js"))
	sort.Strings(files)
	for _, f := range files {
		cs = append(cs, Case{File: filepath.Base(f)})
	}
	// the snippets of minify_test.go (intended behaviour), made observable
	for _, s := range []struct {
		src string
		fs  []string
	}{
		{"var x = 1; // this is a comment\nvar y = 2; log(x, y);", []string{"x", "y"}},
		{"var x = /* inline comment */ 42; log(x);", []string{"x"}},
		{"var msg = \"hello   world\"; var m2 = 'it is a   test'; var m3 = `hello   world`; log(msg, m2, m3);", []string{"msg", "m2", "m3"}},
		{"function f() {\nvar myLongVariableName = 42;\nlog(myLongVariableName);\n}\nf();", []string{"f"}},
		{"function add(firstNumber, secondNumber) { return firstNumber + secondNumber; }\nlog(add(1, 2));", []string{"add"}},
		{"var obj = {}; obj.myProperty = 1; log(obj);", []string{"obj"}},
		{"function f() { var alpha = 1, beta = 2, gamma = 3; return alpha + beta + gamma; } log(f());", []string{"f"}},
		{"var re = /hello world/gi; log(re.test(\"x hello world\"));", []string{"re"}},
		{"let hi = 0n; hi = (hi << 8n) + 1n; log(hi);", []string{"hi"}},
		{"function f(tok){ let value = 1; return tok?.value === value; } log(f({value: 1}), f(null));", []string{"f"}},
		{"function f(){const resolved = new Set(); resolved.add(1); return [...resolved][0];} log(f());", []string{"f"}},
		{"function login(body) { return JSON.stringify({body: body}); } log(login(3));", []string{"login"}},
		{"function login(username, password) { return JSON.stringify({username, password, source: 'Dashboard'}); } log(login('u', 'p'));", []string{"login"}},
		{"function process(obj) { const {username, password} = obj; return username + password; } log(process({username: 'a', password: 'b'}));", []string{"process"}},
		{"const activeTab = 'memory';\nfunction openTab(activeTab) { return activeTab; }\nfunction readIt() { return activeTab; }\nlog(openTab('x'), readIt());", []string{"activeTab", "openTab", "readIt"}},
		{"function outer() {\n\tif (true) { let innerBlockName = 1; return innerBlockName; }\n}\nconst afterTheBlock = 2; log(outer(), afterTheBlock);", []string{"outer", "afterTheBlock"}},
		{"function compact(paramName){var insideName=paramName+1;return insideName;}\nconst stillFileScope = 3; log(compact(1), stillFileScope);", []string{"compact", "stillFileScope"}},
		{"function setCookie(name, value, maxAgeSeconds) {\n\tlet cookie = encodeURIComponent(name) + '=' + encodeURIComponent(value);\n\tif (maxAgeSeconds) cookie += '; max-age=' + maxAgeSeconds;\n\treturn cookie;\n}\nlog(setCookie('a b', 'c', 5));", []string{"setCookie"}},
		{"class DsnEditor { constructor() { this.x = 1; } }\nfunction showSettings() { return new DsnEditor().x; } log(showSettings());", []string{"DsnEditor", "showSettings"}},
	} {
		cs = append(cs, Case{Src: s.src, FileScope: s.fs})
	}
	return cs
}

func TestC33(t *testing.T) {
	nodePath = findNode()
	if nodePath == "" {
		fmt.Println("HARNESS-ERROR property=C33 node (node/nodejs) not found on PATH; the check is inconclusive")
		t.Fatalf("node not found")
	}
	if _, err := ask(map[string]any{"op": "ping"}); err != nil {
		fmt.Printf("HARNESS-ERROR property=C33 cannot start node worker: %v\n", err)
		t.Fatalf("node worker: %v", err)
	}
	defer func() {
		workerMu.Lock()
		if theWorker != nil {
			_ = theWorker.in.Close()
			_ = theWorker.cmd.Wait()
		}
		workerMu.Unlock()
	}()
	vkit.Run(t, vkit.Spec[Case]{
		ID:    "C33",
		Level: "exploration",
		Rule: "scope- and type-aware generated scripts (6-19 statements; file-scope var/let/const/function/class, functions with parameters incl. defaults and destructuring, " +
			"closures, object literals with shorthand/methods/accessors/spread/computed keys, destructuring with aliases/defaults/rest, template literals with ${} (also nested), " +
			"regex literals, optional chaining, loops, switch, try/catch, IIFEs, comments; names for locals, properties, methods and host globals come from one shared pool) " +
			"plus the snippets of minify_test.go and every shipped lib/assets/dashboard/*.js (parse only). " +
			"Non-trivial: a local (parameter or block-level declaration) shares its name with a property, a referenced host global or a file-scope name; distinct by program text.",
		Assumptions: []string{
			"node's vm module is the JavaScript engine; a fresh context per script holds only log() and nine host globals that stand for other files / the browser",
			"observable behaviour = the sequence of log() lines (values serialised structurally), the class of an uncaught error, and what a second script in the same context sees of the file-scope names",
			"programs never rely on automatic semicolon insertion; timing, randomness and I/O are not used",
			"Minify(src,true) depends on Go map order; 4 runs per case, every distinct output is judged",
		},
		Gen:      genProgram,
		Oracle:   oracle,
		Fixed:    fixed,
		Quick:    300,
		Thorough: 2500,
		Extra: func() map[string]any {
			v := ""
			if theWorker != nil {
				v = theWorker.nodeV
			}
			return map[string]any{"node_version": v}
		},
	})
}
