// Package c39 decides property C39: "Static assets are served exactly and only
// from the asset root".
//
// A request for /assets/<path> (GET or HEAD, any path spelling, any Range
// header) must return
//
//   - 200 and the exact bytes of the named file under <lib>/assets after the
//     documented transformation (JavaScript/CSS minification when
//     ego.server.js.minify is on, Markdown rendered to HTML), or
//   - 206 and exactly the requested byte range with a correct Content-Range, or
//   - an error status (>= 400);
//
// it never returns content from outside the asset root and never panics.
//
// Preconditions taken from real callers / the documentation:
//
//   - Requests are what Go's net/http server hands to the router: the request
//     target parses as a URL (invalid %-escapes and raw control characters are
//     rejected with 400 by net/http before any ego code runs; srvfix reports
//     them as status -1 and the oracle skips them). The router is the
//     http.Server's Handler itself (commands/server.go makeHTTPServer), there is
//     no ServeMux in front of it, so "..", "//" and "%2e%2e" do reach the
//     handler unchanged.
//   - The asset root is <lib>/assets where <lib> is ego.runtime.path.lib or
//     <EGO_PATH>/lib (normalizeAssetPath joins <lib> with the URL path, which
//     starts with /assets/). The named file of a request is
//     Clean(<lib> + URL.Path), the lexical meaning of the path.
//   - The asset cache "holds a value until flushed" (docs/API.md) and is keyed by
//     URL path; js.minify is applied "before being cached" (docs/CONFIG.md). A
//     case therefore fixes the minify settings, flushes the cache at its start
//     and then sends a short request list, so later requests of the list may be
//     answered from the cache but never from a rendering made under other
//     settings. Files never change after the tree is built.
//   - No If-None-Match header is sent (a 304 is neither of the three outcomes
//     of the statement and conditional requests are not in its quantifier).
//   - 206 is judged against either the file's bytes or the transformed content
//     (the handler does not document which of the two a range addresses): there
//     must be one reference R in {raw, transformed} such that Content-Range is
//     "bytes s-e/len(R)", 0 <= s <= e < len(R), and the body is R[s:e+1]. For a
//     single well-formed satisfiable range-spec (a-b, a-, -k) s and e must also
//     be the ones RFC 9110 assigns to that spec. A server may ignore a Range
//     header it does not understand, so 200 with the full content is accepted
//     for every Range header.
package c39

import (
	"bytes"
	"encoding/json"
	"fmt"
	"net/url"
	"os"
	"path/filepath"
	"regexp"
	"sort"
	"strconv"
	"strings"
	"sync"
	"testing"

	"github.com/gomarkdown/markdown"
	mdhtml "github.com/gomarkdown/markdown/html"
	"github.com/gomarkdown/markdown/parser"
	"github.com/tucats/ego/internal/cli/settings"
	"github.com/tucats/ego/internal/defs"
	"github.com/tucats/ego/internal/server/assets"
	"github.com/tucats/ego/internal/util/javascript"
	"github.com/tucats/ego/verif/srvfix"
	"github.com/tucats/ego/verif/vkit"
	"pgregory.net/rapid"
)

// ---------------------------------------------------------------- the tree

// treeDir is the directory under the asset root that holds this check's files.
const treeDir = "c39"

// Canary markers: each file outside the asset root holds exactly one.
const (
	canaryOutside = "C39-CANARY-OUTSIDE-7f3a9b1c" // <EGO_PATH>/c39-outside/canary.txt (outside <lib>)
	canarySibling = "C39-CANARY-SIBLING-2d8e4f60" // <lib>/c39-sibling/canary.txt (inside <lib>, outside <lib>/assets)
	canaryDir     = "C39-CANARY-OUTDIR-91c0a7e5"  // <EGO_PATH>/c39-outside/dir/inner.txt
	canaryJS      = "C39-CANARY-JS-5b6c7d8e"      // <EGO_PATH>/c39-outside/canary.js
	canaryLibPfx  = "C39-CANARY-LIBPFX-0a1b2c3d"  // <EGO_PATH>/lib-c39/canary.txt (name shares the prefix "<lib>")
	canaryRootPfx = "C39-CANARY-ROOTPFX-4e5f6a7b" // <lib>/assets-c39/canary.txt (name shares the prefix "<lib>/assets")
)

var canaries = []string{canaryOutside, canarySibling, canaryDir, canaryJS, canaryLibPfx, canaryRootPfx}

const bigSize = 5*1024*1024 + 4096 // > maxAssetCacheSize/2 (never cached) and > MaxAssetSize

const jsSmall = `// leading comment
function   add ( first , second ) {
    /* block comment */
    var   total = first + second ;   // trailing comment
    var   text  = "a  string  with  //  no comment" ;
    return   total ;
}

var  answer  =  add( 40 ,  2 ) ;
`

const cssSmall = `/* style sheet */
body   {
    margin : 0 ;
    padding :  0px ;
    color : #ffffff ;
}

.a   >   .b  { background : url( "x  y.png" ) ; }
`

const mdSmall = "# Title\n\nSome *emphasis* and a [link](http://example.com/).\n\n* one\n* two\n\n```\ncode  block\n```\n\n| a | b |\n|---|---|\n| 1 | 2 |\n"

// files maps the path below <asset root>/c39 to the content. Deterministic:
// the generator (which knows the sizes) and the oracle (which reads the files
// back) agree in every process.
func treeFiles() map[string][]byte {
	bin := make([]byte, 1024)
	for i := range bin {
		bin[i] = byte(i)
	}
	big := make([]byte, bigSize)
	for i := range big {
		big[i] = byte((i*7 + i/251) % 253)
	}
	var jsMed strings.Builder
	for i := 0; i < 120; i++ {
		fmt.Fprintf(&jsMed, "// function number %d\nfunction  f%d ( argumentOne , argumentTwo ) {\n    var  localValue = argumentOne * %d ;\n    return  localValue + argumentTwo ;  /* done */\n}\n\n", i, i, i)
	}
	return map[string][]byte{
		"a.txt":         []byte("alpha file, plain text\nline two\nline three\n"),
		"app.js":        []byte(jsSmall),
		"medium.js":     []byte(jsMed.String()),
		"style.css":     []byte(cssSmall),
		"doc.md":        []byte(mdSmall),
		"bin.dat":       bin,
		"empty.txt":     {},
		"empty.js":      {},
		"empty.md":      {},
		"big.bin":       big,
		"sub/inner.txt": []byte("inner file in a sub-directory\n"),
		"sub/a.txt":     []byte("a DIFFERENT a.txt, in the sub-directory\n"),
		"sub/deep/x.js": []byte("var   deep   =   1 ;  // c\n"),
		"sp ace.txt":    []byte("file with a space in its name\n"),
		"uni-é.txt":     []byte("file with a non-ASCII name\n"),
		"a..b.txt":      []byte("two dots inside a name\n"),
		".hidden":       []byte("dot file\n"),
		"page.html":     []byte("<html><body>  <p>page</p>  </body></html>\n"),
		"data.json":     []byte("{ \"a\" : [ 1 , 2 , 3 ] }\n"),
		"noext":         []byte("no extension\n"),
		"x.js.txt":      []byte("var  notjs  =  1 ;\n"),
		"UPPER.JS":      []byte("var  upper  =  1 ;  // not .js\n"),
	}
}

// symlinks below <asset root>/c39: name -> target (relative targets are
// relative to the link's directory; "@out" / "@sib" are replaced by the
// absolute outside directories).
var treeLinks = map[string]string{
	"link-in.txt":     "a.txt",                           // inside -> inside
	"link-in.js":      "app.js",                          // inside -> inside (minified under the link's name)
	"link-dir":        "sub",                             // directory link inside -> inside
	"link-abs-in.txt": "@root/c39/a.txt",                 // absolute target inside the root
	"link-out.txt":    "@out/canary.txt",                 // absolute target outside
	"link-out.js":     "@out/canary.js",                  // outside, .js
	"link-outdir":     "@out/dir",                        // directory link to outside
	"link-rel-out":    "../../../c39-outside/canary.txt", // relative target leaving <lib>
	"link-sib.txt":    "@sib/canary.txt",                 // inside <lib> but outside <lib>/assets
	"link-dangling":   "nowhere.txt",
	"link-loop":       "link-loop",
}

type env struct {
	f        *srvfix.Fixture
	lib      string // <lib>
	root     string // <lib>/assets
	outside  string
	sibling  string
	sizes    map[string]int // tree path -> raw size
	fileList []string       // sorted tree paths (files and links)
}

var (
	envOnce sync.Once
	theEnv  *env
	envErr  error
)

func libRoot() string {
	if p := settings.Get(defs.EgoLibPathSetting); p != "" {
		return p
	}
	return filepath.Join(settings.Get(defs.EgoPathSetting), defs.LibPathName)
}

func getEnv() (*env, error) {
	envOnce.Do(func() {
		f, err := srvfix.Start(srvfix.Options{})
		if err != nil {
			envErr = err
			return
		}
		e := &env{f: f, lib: libRoot(), sizes: map[string]int{}}
		e.root = filepath.Join(e.lib, "assets")
		e.outside = filepath.Join(filepath.Dir(e.lib), "c39-outside")
		e.sibling = filepath.Join(e.lib, "c39-sibling")
		write := func(p string, b []byte) {
			if envErr != nil {
				return
			}
			if err := os.MkdirAll(filepath.Dir(p), 0o755); err != nil {
				envErr = err
				return
			}
			envErr = os.WriteFile(p, b, 0o644)
		}
		for name, b := range treeFiles() {
			write(filepath.Join(e.root, treeDir, name), b)
			e.sizes[name] = len(b)
			e.fileList = append(e.fileList, name)
		}
		write(filepath.Join(e.outside, "canary.txt"), []byte("secret text "+canaryOutside+" end\n"))
		write(filepath.Join(e.outside, "canary.js"), []byte("var  secret = \""+canaryJS+"\" ;\n"))
		write(filepath.Join(e.outside, "dir", "inner.txt"), []byte("secret dir "+canaryDir+" end\n"))
		write(filepath.Join(e.sibling, "canary.txt"), []byte("secret sibling "+canarySibling+" end\n"))
		write(e.lib+"-c39/canary.txt", []byte("secret lib prefix "+canaryLibPfx+" end\n"))
		write(e.root+"-c39/canary.txt", []byte("secret root prefix "+canaryRootPfx+" end\n"))
		for name, target := range treeLinks {
			target = strings.ReplaceAll(target, "@out", e.outside)
			target = strings.ReplaceAll(target, "@sib", e.sibling)
			target = strings.ReplaceAll(target, "@root", e.root)
			p := filepath.Join(e.root, treeDir, name)
			_ = os.Remove(p)
			if err := os.Symlink(target, p); err != nil && envErr == nil {
				envErr = err
			}
			e.fileList = append(e.fileList, name)
		}
		sort.Strings(e.fileList)
		theEnv = e
	})
	return theEnv, envErr
}

// static sizes for the generator (no fixture needed to draw a case)
var genSizes = func() map[string]int {
	m := map[string]int{}
	for k, v := range treeFiles() {
		m[k] = len(v)
	}
	m["link-in.txt"] = m["a.txt"]
	m["link-in.js"] = m["app.js"]
	m["link-abs-in.txt"] = m["a.txt"]
	m["link-dir/inner.txt"] = m["sub/inner.txt"]
	m["link-out.txt"] = 40
	m["link-out.js"] = 40
	m["link-outdir/inner.txt"] = 40
	m["link-rel-out"] = 40
	m["link-sib.txt"] = 40
	return m
}()

// ---------------------------------------------------------------- the case

type Req struct {
	Method string `json:"method"`
	Path   string `json:"path"`            // request target as sent (escaped)
	Range  string `json:"range,omitempty"` // Range header; "" = none
	// classification only (labels, signatures); the verdict does not use them
	Target string `json:"target"` // which file the generator aimed at
	Spell  string `json:"spell"`  // path spelling class
	RClass string `json:"rclass"` // range class
}

type Case struct {
	MinifyJS   bool  `json:"minify_js"`
	ShortNames bool  `json:"short_names"`
	Reqs       []Req `json:"reqs"`
}

// ---------------------------------------------------------------- generator

var targets = []string{
	"a.txt", "a.txt", "app.js", "app.js", "medium.js", "style.css", "style.css", "doc.md", "doc.md", "bin.dat", "bin.dat",
	"empty.txt", "empty.js", "empty.md", "big.bin", "sub/inner.txt", "sub/a.txt", "sub/a.txt", "sub/deep/x.js", "sp ace.txt", "uni-é.txt", "a..b.txt",
	".hidden", "page.html", "data.json", "noext", "x.js.txt", "UPPER.JS",
	"link-in.txt", "link-in.js", "link-dir/inner.txt", "link-abs-in.txt",
	"link-out.txt", "link-out.txt", "link-out.js", "link-outdir/inner.txt", "link-rel-out", "link-sib.txt", "link-dangling", "link-loop",
	"missing.txt", "sub", "sub/", "",
}

// escapes of one path segment character set: every byte outside the unreserved
// set is %-encoded so that the request target always parses.
func escSeg(s string) string {
	var b strings.Builder
	for i := 0; i < len(s); i++ {
		c := s[i]
		if c >= 'a' && c <= 'z' || c >= 'A' && c <= 'Z' || c >= '0' && c <= '9' || c == '-' || c == '_' || c == '.' || c == '~' {
			b.WriteByte(c)
		} else {
			fmt.Fprintf(&b, "%%%02X", c)
		}
	}
	return b.String()
}

func escPath(p string) string {
	parts := strings.Split(p, "/")
	for i, s := range parts {
		parts[i] = escSeg(s)
	}
	return strings.Join(parts, "/")
}

var dotdotSpellings = []string{"..", "%2e%2e", "%2E%2E", ".%2e", "%2e.", "..%2f", "..%2F", "%2e%2e%2f", "..%5c", "..\\", "...", "....", "..;", "%c0%ae%c0%ae", "..%00", "%252e%252e", ".%20.", "..%20"}
var sepSpellings = []string{"/", "//", "///", "/./", "%2f", "%2F", "/%2f", "\\", "%5c", "/.//"}

// genPath returns (request target, spelling class) for a target file.
func genPath(t *rapid.T, target string) (string, string) {
	canon := "/assets/" + treeDir + "/" + escPath(target)
	// where the canaries are, relative to <lib>/assets/c39: ../../../c39-outside/…
	escTargets := []string{"../../../c39-outside/canary.txt", "../../c39-sibling/canary.txt", "../../../c39-outside/dir/inner.txt", "../../../users.json", "../../../c39-outside/canary.js", "../../services/hello.ego", "../../../../../../../../etc/passwd", "../../../lib-c39/canary.txt", "../../assets-c39/canary.txt"}
	switch rapid.IntRange(0, 15).Draw(t, "spell") {
	case 0, 1, 2:
		return canon, "plain"
	case 3: // repeated / odd separators between the segments
		segs := strings.Split(strings.TrimPrefix(canon, "/"), "/")
		var b strings.Builder
		for i, s := range segs {
			if i == 0 {
				b.WriteString(rapid.SampledFrom([]string{"/", "/", "//", "/./"}).Draw(t, "lead"))
			} else {
				b.WriteString(rapid.SampledFrom(sepSpellings).Draw(t, "sep"))
			}
			b.WriteString(s)
		}
		return b.String(), "separators"
	case 4: // a detour that stays inside the root: x/../ or ./
		dd := rapid.SampledFrom(dotdotSpellings).Draw(t, "dd")
		where := rapid.SampledFrom([]string{"/assets/" + treeDir + "/sub/" + dd + "/", "/assets/" + treeDir + "/zz/" + dd + "/", "/assets/" + dd + "/assets/" + treeDir + "/", "/assets/" + treeDir + "/./", "/assets/./" + treeDir + "/"}).Draw(t, "where")
		return where + escPath(target), "inner-detour"
	case 5, 6: // escape attempt towards a canary with a spelling of ".."
		et := rapid.SampledFrom(escTargets).Draw(t, "esc")
		n := strings.Count(et, "../")
		rest := strings.TrimLeft(et, "./")
		var b strings.Builder
		b.WriteString("/assets/" + treeDir + "/")
		extra := rapid.IntRange(0, 2).Draw(t, "extra")
		for i := 0; i < n+extra; i++ {
			dd := rapid.SampledFrom(dotdotSpellings).Draw(t, "dd")
			b.WriteString(dd)
			if !strings.HasSuffix(strings.ToLower(dd), "%2f") {
				b.WriteString(rapid.SampledFrom([]string{"/", "/", "/", "%2f", "//", "\\", "%5c"}).Draw(t, "s"))
			}
		}
		b.WriteString(rest)
		return b.String(), "escape-dotdot"
	case 7: // absolute-looking paths
		abs := rapid.SampledFrom([]string{"@OUT/canary.txt", "@SIB/canary.txt", "/etc/passwd", "@OUT/dir/inner.txt", "@ROOT/c39/a.txt"}).Draw(t, "abs")
		pre := rapid.SampledFrom([]string{"/assets/", "/assets//", "/assets/%2f", "/assets/c39//", "/assets/c39/%2F", "/assets/file:", "/assets/file:%2f%2f"}).Draw(t, "pre")
		return pre + strings.TrimPrefix(abs, "/"), "absolute"
	case 8: // trailing decorations
		tail := rapid.SampledFrom([]string{".", "..", "/", "/.", "/..", "//", "%00", "%00.txt", "%20", "/%2e", "%2f", "::$DATA", ";x=1", "\\", "%5c", "/x/..", "/x/%2e%2e"}).Draw(t, "tail")
		return canon + tail, "trailing"
	case 9: // NUL and other control bytes inside
		pos := rapid.IntRange(len("/assets/"), len(canon)).Draw(t, "pos")
		ins := rapid.SampledFrom([]string{"%00", "%0a", "%0d%0a", "%09", "%7f", "%ff", "%c3", "%e2%80%ae"}).Draw(t, "ins")
		return canon[:pos] + ins + canon[pos:], "control"
	case 10: // very long
		n := rapid.SampledFrom([]int{255, 256, 1024, 4096, 8192, 70000}).Draw(t, "n")
		switch rapid.IntRange(0, 3).Draw(t, "lk") {
		case 0:
			return "/assets/" + treeDir + "/" + strings.Repeat("a", n), "long"
		case 1:
			return "/assets/" + treeDir + "/" + strings.Repeat("./", n/2) + escPath(target), "long"
		case 2:
			return "/assets/" + treeDir + "/" + strings.Repeat("sub/../", n/7) + escPath(target), "long"
		default:
			return "/assets/" + strings.Repeat("%2e%2e/", n/7) + "etc/passwd", "long"
		}
	case 11: // %-encoding of ordinary characters (same file)
		var b strings.Builder
		for i := 0; i < len(canon); i++ {
			c := canon[i]
			if i >= len("/assets/") && c != '/' && c != '%' && (i < 2 || canon[i-1] != '%') && (i < 3 || canon[i-2] != '%') && rapid.IntRange(0, 3).Draw(t, "e") == 0 {
				fmt.Fprintf(&b, "%%%02x", c)
			} else {
				b.WriteByte(c)
			}
		}
		return b.String(), "pct-encoded"
	case 12: // case variants / prefix variants of the route itself
		return rapid.SampledFrom([]string{"/assets", "/assets/", "/assets/.", "/assets/..", "/assets/%2e%2e", "/ASSETS/" + treeDir + "/" + escPath(target), "/assets/" + strings.ToUpper(treeDir) + "/" + escPath(target), "/assets/" + treeDir, "/assets/" + treeDir + "/", "/assets/../assets/" + treeDir + "/" + escPath(target), "/assets/..%2fassets/" + treeDir + "/" + escPath(target)}).Draw(t, "rt"), "route-variant"
	case 13: // the sibling inside <lib>: /assets/../c39-sibling, /assets/../services
		dd := rapid.SampledFrom(dotdotSpellings).Draw(t, "dd")
		rest := rapid.SampledFrom([]string{"c39-sibling/canary.txt", "services/hello.ego", "defaults.json", "../users.json", "../c39-outside/canary.txt", "assets-c39/canary.txt", "../lib-c39/canary.txt"}).Draw(t, "rest")
		if strings.HasSuffix(strings.ToLower(dd), "%2f") {
			return "/assets/" + dd + rest, "escape-lib"
		}
		return "/assets/" + dd + "/" + rest, "escape-lib"
	case 14: // query string and fragment-like noise after a good path
		return canon + rapid.SampledFrom([]string{"?x=1", "?", "?../../x", "?range=0-1", "%3f", "%23"}).Draw(t, "q"), "query"
	default: // dashboard files that ship with the server (real content)
		return rapid.SampledFrom([]string{"/assets/dashboard/dashboard.html", "/assets/dashboard/dashboard.css", "/assets/dashboard/dashboard.js", "/assets/logo.png"}).Draw(t, "real"), "shipped"
	}
}

func genRange(t *rapid.T, size int) (string, string) {
	n := int64(size)
	num := func(label string) int64 {
		return rapid.SampledFrom([]int64{0, 0, 1, 2, 5, 9, n / 2, n - 2, n - 1, n, n + 1, n + 100, 2 * n, 1 << 31, 1<<63 - 1}).Filter(func(v int64) bool { return v >= 0 }).Draw(t, label)
	}
	switch rapid.IntRange(0, 17).Draw(t, "rclass") {
	case 0, 1, 2, 3:
		return "", "none"
	case 4, 5: // a-b well-formed, a <= b
		a := num("a")
		b := num("b")
		if a > b {
			a, b = b, a
		}
		cls := "a-b"
		if a >= n {
			cls = "a-b start>=size"
		} else if b >= n {
			cls = "a-b end>=size"
		}
		return fmt.Sprintf("bytes=%d-%d", a, b), cls
	case 6: // small in-range a-b
		if n < 2 {
			return "bytes=0-0", "a-b small"
		}
		a := rapid.Int64Range(0, n-1).Draw(t, "a")
		b := rapid.Int64Range(a, n-1).Draw(t, "b")
		return fmt.Sprintf("bytes=%d-%d", a, b), "a-b inside"
	case 7: // open-ended
		a := num("a")
		cls := "a-"
		if a >= n {
			cls = "a- start>=size"
		}
		return fmt.Sprintf("bytes=%d-", a), cls
	case 8: // suffix
		return fmt.Sprintf("bytes=-%d", num("k")), "-k suffix"
	case 9: // no dash
		return fmt.Sprintf("bytes=%d", num("a")), "no-dash"
	case 10: // inverted
		a := rapid.Int64Range(1, 1<<40).Draw(t, "a")
		b := rapid.Int64Range(0, a-1).Draw(t, "b")
		return fmt.Sprintf("bytes=%d-%d", a, b), "inverted"
	case 11: // multiple ranges
		return rapid.SampledFrom([]string{"bytes=0-1,3-4", "bytes=0-0,-1", "bytes=0-1, 3-4", "bytes=5-,0-1", "bytes=0-1,0-1,0-1", "bytes=1-2,", "bytes=,1-2"}).Draw(t, "multi"), "multiple"
	case 12: // negative / signed numbers
		return rapid.SampledFrom([]string{"bytes=-5-10", "bytes=--5", "bytes=0--5", "bytes=-0", "bytes=+1-+5", "bytes=-1-", "bytes=-9223372036854775808-", "bytes=0-+9"}).Draw(t, "neg"), "negative"
	case 13: // huge
		return rapid.SampledFrom([]string{"bytes=9223372036854775807-", "bytes=0-9223372036854775807", "bytes=9223372036854775806-9223372036854775807", "bytes=9223372036854775808-", "bytes=0-18446744073709551616", "bytes=99999999999999999999999-", "bytes=0-99999999999999999999999", "bytes=9223372036854775807-9223372036854775807"}).Draw(t, "huge"), "huge"
	case 14: // non-numeric
		return rapid.SampledFrom([]string{"bytes=a-b", "bytes=0x10-0x20", "bytes=1e3-", "bytes= 0 - 9", "bytes=0 -9", "bytes=١-٢", "bytes=0.5-9", "bytes=-", "bytes=", "bytes", "", "=", "-", "bytes=0-\t9", "bytes==0-9", "bytes=0-9;q=1"}).Draw(t, "nn"), "non-numeric"
	case 15: // other units / spellings of the unit
		return rapid.SampledFrom([]string{"items=0-9", "Bytes=0-9", "BYTES=0-9", "bytes =0-9", "lines=1-2", "bytes=bytes=0-9", "0-9", "5", "5-", "-5", "bytesbytes==0-9", "bits=0-7"}).Draw(t, "unit"), "other-unit"
	case 16: // exactly the boundaries
		return rapid.SampledFrom([]string{fmt.Sprintf("bytes=%d-", n), fmt.Sprintf("bytes=%d-%d", n, n), fmt.Sprintf("bytes=%d-", n+1), fmt.Sprintf("bytes=%d-%d", n-1, n-1), fmt.Sprintf("bytes=%d-%d", n-1, n), fmt.Sprintf("bytes=0-%d", n-1), fmt.Sprintf("bytes=0-%d", n), "bytes=0-0", "bytes=0-"}).Draw(t, "edge"), "boundary"
	default:
		return "bytes=0-", "0-"
	}
}

func genReq(t *rapid.T, prev []Req) Req {
	// repeat an earlier path of the case (answers from the cache) one time in four
	if len(prev) > 0 && rapid.IntRange(0, 3).Draw(t, "repeat") == 0 {
		p := prev[rapid.IntRange(0, len(prev)-1).Draw(t, "which")]
		r := Req{Method: rapid.SampledFrom([]string{"GET", "GET", "HEAD"}).Draw(t, "method"), Path: p.Path, Target: p.Target, Spell: p.Spell}
		r.Range, r.RClass = genRange(t, genSizes[strings.TrimSuffix(p.Target, "/")])
		return r
	}
	target := rapid.SampledFrom(targets).Draw(t, "target")
	r := Req{Method: rapid.SampledFrom([]string{"GET", "GET", "HEAD"}).Draw(t, "method"), Target: target}
	r.Path, r.Spell = genPath(t, target)
	size, ok := genSizes[target]
	if !ok || r.Spell == "shipped" {
		size = rapid.SampledFrom([]int{0, 10, 40, 1000, 50957}).Draw(t, "anysize")
	}
	r.Range, r.RClass = genRange(t, size)
	return r
}

func genCase(t *rapid.T) Case {
	c := Case{MinifyJS: rapid.Bool().Draw(t, "minify"), ShortNames: rapid.Bool().Draw(t, "short")}
	n := rapid.IntRange(1, 4).Draw(t, "n")
	for i := 0; i < n; i++ {
		c.Reqs = append(c.Reqs, genReq(t, c.Reqs))
	}
	return c
}

// ---------------------------------------------------------------- oracle

// renderMarkdown is assets.mdToHTML (unexported): the same library calls with
// the same options.
func renderMarkdown(md []byte) []byte {
	p := parser.NewWithExtensions(parser.CommonExtensions | parser.AutoHeadingIDs | parser.NoEmptyLineBeforeBlock)
	doc := p.Parse(md)
	r := mdhtml.NewRenderer(mdhtml.RendererOptions{Flags: mdhtml.CommonFlags | mdhtml.HrefTargetBlank})
	return markdown.Render(doc, r)
}

// transform is the documented rendering of a file served under a name with the
// given suffix.
func transform(name string, raw []byte, minify, short bool) []byte {
	out := raw
	switch {
	case strings.HasSuffix(name, ".js") && minify:
		out = javascript.Minify(append([]byte{}, raw...), short)
	case strings.HasSuffix(name, ".css") && minify:
		out = javascript.MinifyCSS(append([]byte{}, raw...))
	}
	if strings.HasSuffix(name, ".md") {
		out = renderMarkdown(append([]byte{}, out...))
	}
	return out
}

type refKey struct {
	file          string
	name          string
	minify, short bool
}

var refCache = map[refKey][][]byte{}

// references returns the contents a 200/206 may be judged against for the
// named file: raw bytes first, then the transformed renderings (by the URL's
// suffix and by the file's own suffix; normally the same).
func references(file, urlPath string, minify, short bool) ([][]byte, error) {
	k := refKey{file, urlPath, minify, short}
	if r, ok := refCache[k]; ok {
		return r, nil
	}
	raw, err := os.ReadFile(file)
	if err != nil {
		return nil, err
	}
	refs := [][]byte{raw}
	for _, name := range []string{urlPath, file} {
		tr := transform(name, raw, minify, short)
		dup := false
		for _, r := range refs[1:] {
			if bytes.Equal(r, tr) {
				dup = true
			}
		}
		if !dup {
			refs = append(refs, tr)
		}
	}
	if len(raw) < 1<<20 && len(refCache) < 4096 {
		refCache[k] = refs
	}
	return refs, nil
}

var contentRangeRE = regexp.MustCompile(`^bytes (\d+)-(\d+)/(\d+)$`)
var looseRangeRE = regexp.MustCompile(`^bytes (\d+)-(-?\d+)/(\d+)$`)
var singleRangeRE = regexp.MustCompile(`^bytes=(\d*)-(\d*)$`)

// requested resolves a single well-formed range-spec against a representation
// of n bytes (RFC 9110 §14.1.2). ok=false: not a single well-formed spec;
// sat=false: well-formed but unsatisfiable.
func requested(h string, n int64) (s, e int64, ok, sat bool) {
	m := singleRangeRE.FindStringSubmatch(h)
	if m == nil || (m[1] == "" && m[2] == "") {
		return 0, 0, false, false
	}
	if m[1] == "" { // suffix
		k, err := strconv.ParseInt(m[2], 10, 64)
		if err != nil {
			return 0, 0, false, false
		}
		if k == 0 || n == 0 {
			return 0, 0, true, false
		}
		if k > n {
			k = n
		}
		return n - k, n - 1, true, true
	}
	a, err := strconv.ParseInt(m[1], 10, 64)
	if err != nil {
		return 0, 0, false, false
	}
	b := int64(-1)
	if m[2] != "" {
		if b, err = strconv.ParseInt(m[2], 10, 64); err != nil {
			return 0, 0, false, false
		}
		if b < a {
			return 0, 0, false, false
		}
	}
	if a >= n {
		return 0, 0, true, false
	}
	if b < 0 || b >= n {
		b = n - 1
	}
	return a, b, true, true
}

func within(root, p string) bool {
	return strings.HasPrefix(p, root+string(filepath.Separator))
}

func extClass(p string) string {
	switch {
	case strings.HasSuffix(p, ".md"):
		return "md"
	case strings.HasSuffix(p, ".js"):
		return "js"
	case strings.HasSuffix(p, ".css"):
		return "css"
	}
	return "other"
}

// panicSite: the first ego frame below the ORIGINAL panic. With recovery off
// reportRequestPanic re-panics, so the trace holds two "panic(" lines; the
// original one is the last.
func panicSite(stack string) string {
	lines := strings.Split(stack, "\n")
	last := -1
	for i, l := range lines {
		if strings.HasPrefix(l, "panic(") {
			last = i
		}
	}
	if last < 0 {
		return "unknown"
	}
	for _, l := range lines[last+1:] {
		if strings.HasPrefix(l, "github.com/tucats/ego/") && !strings.Contains(l, "/verif/") {
			if i := strings.LastIndex(l, "("); i > 0 {
				l = l[:i]
			}
			return strings.TrimPrefix(l, "github.com/tucats/ego/")
		}
	}
	return "unknown"
}

func clipB(b []byte) string {
	if len(b) > 120 {
		return fmt.Sprintf("%q…(%d bytes)", b[:120], len(b))
	}
	return fmt.Sprintf("%q", b)
}

// judge checks one response. It returns a failure or nil, and the outcome
// class for the label histogram.
func (e *env) judge(c Case, rq Req, resp *srvfix.Response) (*vkit.Failure, string) {
	desc := fmt.Sprintf("%s %s Range=%q (minify=%v short=%v)", rq.Method, rq.Path, rq.Range, c.MinifyJS, c.ShortNames)
	if resp.Panic != nil {
		return &vkit.Failure{Sig: "panic:" + panicSite(resp.Stack), Observed: fmt.Sprintf("%s: handler panic: %v", desc, resp.Panic), Expected: "a response (200, 206 or an error status), no panic"}, "panic"
	}
	// which file does the path name?
	u, err := url.Parse("http://localhost" + rq.Path)
	if err != nil {
		return &vkit.Failure{Sig: "harness: unparsable path answered", Observed: desc, Expected: "-"}, "harness"
	}
	named := filepath.Clean(filepath.Join(e.lib, u.Path))
	ec := extClass(u.Path)
	for _, cn := range canaries {
		if bytes.Contains(resp.Body, []byte(cn)) {
			// a path that lexically stays under the root can only have left it
			// through a symbolic link
			via := "path"
			if within(e.root, named) {
				via = "symlink"
			}
			return &vkit.Failure{Sig: "content from outside the asset root via " + via, Observed: fmt.Sprintf("%s: status %d, body contains canary %s: %s", desc, resp.Status, cn, clipB(resp.Body)), Expected: "never content of a file outside " + e.root}, "canary"
		}
	}
	if resp.Status >= 400 {
		return nil, fmt.Sprintf("status %d", resp.Status)
	}
	if resp.Status != 200 && resp.Status != 206 {
		return &vkit.Failure{Sig: fmt.Sprintf("status %d", resp.Status), Observed: fmt.Sprintf("%s: status %d", desc, resp.Status), Expected: "200, 206 or an error status"}, "odd-status"
	}
	if !within(e.root, named) {
		return &vkit.Failure{Sig: "success for a path that names nothing under the asset root", Observed: fmt.Sprintf("%s: status %d for %s: %s", desc, resp.Status, named, clipB(resp.Body)), Expected: "an error status: the path does not name a file under " + e.root}, "outside-lexical"
	}
	real, err := filepath.EvalSymlinks(named)
	if err != nil {
		return &vkit.Failure{Sig: "success for a file that does not exist", Observed: fmt.Sprintf("%s: status %d but %v: %s", desc, resp.Status, err, clipB(resp.Body)), Expected: "an error status"}, "nonexistent"
	}
	realRoot, _ := filepath.EvalSymlinks(e.root)
	if !within(realRoot, real) {
		return &vkit.Failure{Sig: "content from outside the asset root via symlink", Observed: fmt.Sprintf("%s: status %d, served %s -> %s: %s", desc, resp.Status, named, real, clipB(resp.Body)), Expected: "never content of a file outside " + e.root}, "symlink-out"
	}
	refs, err := references(named, u.Path, c.MinifyJS, c.ShortNames)
	if err != nil {
		return &vkit.Failure{Sig: "success for an unreadable file", Observed: fmt.Sprintf("%s: status %d but %v", desc, resp.Status, err), Expected: "an error status"}, "unreadable"
	}
	transformed := refs[1:] // refs[0] is raw; transformed renderings follow (may equal raw)
	if resp.Status == 200 {
		for _, r := range transformed {
			if rq.Method == "HEAD" {
				if cl := resp.Header.Get("Content-Length"); cl == "" || cl == strconv.Itoa(len(r)) {
					return nil, "200 " + ec
				}
			} else if sameContent(resp.Body, r, ec == "js" && c.MinifyJS && c.ShortNames) {
				return nil, "200 " + ec
			}
		}
		if rq.Method == "HEAD" {
			return &vkit.Failure{Sig: "HEAD 200 Content-Length != size ext=" + ec, Observed: fmt.Sprintf("%s: Content-Length %q", desc, resp.Header.Get("Content-Length")), Expected: fmt.Sprintf("%d", len(transformed[0]))}, "200-bad"
		}
		return &vkit.Failure{Sig: "200 body != file content ext=" + ec, Observed: fmt.Sprintf("%s: body %s", desc, clipB(resp.Body)), Expected: fmt.Sprintf("the content of %s after the documented transformation: %s", named, clipB(transformed[0]))}, "200-bad"
	}
	// 206
	raw := refs[0]
	cr := resp.Header.Get("Content-Range")
	obs := fmt.Sprintf("%s: Content-Range %q, body %s", desc, cr, clipB(resp.Body))
	want := "the exact requested byte range of " + named + " with Content-Range bytes start-end/size, or an error status"
	// (a) a single well-formed range-spec that no representation of the file
	// can satisfy, or a Content-Range whose start is not below the (correctly
	// reported) size: any 206 is wrong. One root cause: start >= size is not
	// rejected.
	unsat := true
	for _, r := range refs {
		if _, _, ok, sat := requested(rq.Range, int64(len(r))); !ok || sat {
			unsat = false
		}
	}
	if lm := looseRangeRE.FindStringSubmatch(cr); lm != nil && !unsat {
		ls, _ := strconv.ParseInt(lm[1], 10, 64)
		ln, _ := strconv.ParseInt(lm[3], 10, 64)
		for _, r := range refs {
			if ln == int64(len(r)) && ls >= ln {
				unsat = true
			}
		}
	}
	if unsat {
		return &vkit.Failure{Sig: "206 for an unsatisfiable range (start >= size)", Observed: obs + fmt.Sprintf(": the file has %d bytes", len(raw)), Expected: "416 (or another error status)"}, "206-bad"
	}
	// (b) total size reported as 0 for a file that is not empty
	if strings.HasSuffix(cr, "/0") && len(raw) > 0 && len(transformed[0]) > 0 {
		return &vkit.Failure{Sig: "206 Content-Range reports total size 0 for a non-empty file", Observed: obs + fmt.Sprintf(": the file has %d bytes", len(raw)), Expected: want}, "206-bad"
	}
	m := contentRangeRE.FindStringSubmatch(cr)
	if m == nil {
		return &vkit.Failure{Sig: "206 Content-Range malformed", Observed: obs, Expected: want}, "206-bad"
	}
	s, _ := strconv.ParseInt(m[1], 10, 64)
	en, _ := strconv.ParseInt(m[2], 10, 64)
	n, _ := strconv.ParseInt(m[3], 10, 64)
	why, rel := "", ""
	for _, r := range refs {
		if n != int64(len(r)) {
			if why == "" {
				why, rel = fmt.Sprintf("size %d is not the size of the file (%d raw, %d transformed)", n, len(raw), len(transformed[0])), "total size"
			}
			continue
		}
		if !(0 <= s && s <= en && en < n) {
			why, rel = fmt.Sprintf("range %d-%d is not inside 0..%d", s, en, n-1), "bounds"
			continue
		}
		if rs, re, ok, sat := requested(rq.Range, n); ok && (!sat || rs != s || re != en) {
			why, rel = fmt.Sprintf("the request denotes %d-%d of %d bytes (satisfiable=%v)", rs, re, n, sat), "not the requested range"
			continue
		}
		if rq.Method == "HEAD" {
			if cl := resp.Header.Get("Content-Length"); cl != "" && cl != strconv.FormatInt(en-s+1, 10) {
				why, rel = fmt.Sprintf("HEAD Content-Length %s is not the length of %d-%d", cl, s, en), "HEAD length"
				continue
			}
			return nil, "206 " + ec
		}
		whole := s == 0 && en == n-1
		if !sameContent(resp.Body, r[s:en+1], whole && ec == "js" && c.MinifyJS && c.ShortNames) {
			why, rel = fmt.Sprintf("body is not bytes %d-%d of the file (want %s)", s, en, clipB(r[s:en+1])), "body"
			continue
		}
		return nil, "206 " + ec
	}
	sig := "206 " + rel
	if ec == "md" {
		// one root cause: the Markdown renderer runs on the slice / after the
		// size was taken
		sig = "206 of a markdown asset is not a byte range of it"
	}
	return &vkit.Failure{Sig: sig, Observed: obs + ": " + why, Expected: want}, "206-bad"
}

// sameContent is byte equality; with modRename (JavaScript minified with
// ego.server.js.shortvarnames, whose generated names differ from call to call
// of javascript.Minify) it is equality up to a consistent one-to-one renaming
// of identifiers outside string literals. The JavaScript files of the tree use
// only '…' and "…" literals without escapes, no regex or template literals.
func sameContent(got, want []byte, modRename bool) bool {
	if bytes.Equal(got, want) {
		return true
	}
	if !modRename {
		return false
	}
	gt, wt := jsTokens(got), jsTokens(want)
	if len(gt) != len(wt) {
		return false
	}
	fwd, back := map[string]string{}, map[string]string{}
	for i := range gt {
		g, w := gt[i], wt[i]
		gi, wi := isIdent(g), isIdent(w)
		if gi != wi {
			return false
		}
		if !gi {
			if g != w {
				return false
			}
			continue
		}
		if x, ok := fwd[g]; ok && x != w {
			return false
		}
		if x, ok := back[w]; ok && x != g {
			return false
		}
		fwd[g], back[w] = w, g
	}
	return true
}

func identByte(c byte, first bool) bool {
	return c == '_' || c == '$' || c >= 'a' && c <= 'z' || c >= 'A' && c <= 'Z' || (!first && c >= '0' && c <= '9')
}

func isIdent(t string) bool { return t != "" && identByte(t[0], true) }

func jsTokens(b []byte) []string {
	var out []string
	for i := 0; i < len(b); {
		c := b[i]
		switch {
		case c == '"' || c == '\'':
			j := i + 1
			for j < len(b) && b[j] != c {
				j++
			}
			if j < len(b) {
				j++
			}
			out = append(out, string(b[i:j]))
			i = j
		case identByte(c, true):
			j := i + 1
			for j < len(b) && identByte(b[j], false) {
				j++
			}
			out = append(out, string(b[i:j]))
			i = j
		case c >= '0' && c <= '9':
			j := i + 1
			for j < len(b) && (identByte(b[j], false) || b[j] == '.') {
				j++
			}
			out = append(out, "#"+string(b[i:j]))
			i = j
		default:
			out = append(out, string(b[i:i+1]))
			i++
		}
	}
	return out
}

func oracle(c Case) vkit.Outcome {
	var out vkit.Outcome
	e, err := getEnv()
	if err != nil {
		out.Inconclusive = "fixture: " + err.Error()
		return out
	}
	settings.SetDefault(defs.JSMinifySetting, strconv.FormatBool(c.MinifyJS))
	settings.SetDefault(defs.JSShortVarNamesSetting, strconv.FormatBool(c.ShortNames))
	assets.FlushAssetCache()
	seen := map[string]bool{}
	for _, rq := range c.Reqs {
		h := map[string]string{"Accept": "*/*"}
		if rq.RClass != "none" || rq.Range != "" {
			h["Range"] = rq.Range
		}
		resp := e.f.Do(srvfix.Request{Method: rq.Method, Path: rq.Path, Header: h})
		if resp.Status == -1 {
			out.Labels = append(out.Labels, "unsendable spell="+rq.Spell)
			continue
		}
		if rq.RClass != "none" || rq.Spell != "plain" {
			out.NonTrivial = true
		}
		fail, class := e.judge(c, rq, resp)
		short := class
		if strings.HasPrefix(class, "status ") {
			short = "error-status"
		} else if strings.HasPrefix(class, "200") || strings.HasPrefix(class, "206 ") {
			short = class[:3]
		}
		out.Labels = append(out.Labels, "spell="+rq.Spell+" -> "+short, "range="+rq.RClass+" -> "+short, "outcome="+class, "method="+rq.Method)
		if seen[rq.Path] {
			out.Labels = append(out.Labels, "repeat-path outcome="+class)
		}
		seen[rq.Path] = true
		if strings.HasPrefix(rq.Target, "link-") {
			out.Labels = append(out.Labels, "target="+rq.Target+" outcome="+class)
		}
		// report the first failure that is not a listed known finding, so that
		// a known defect early in a request list does not mask a new one later
		if fail != nil && (out.Fail == nil || (knownSigs[out.Fail.Sig] && !knownSigs[fail.Sig])) {
			out.Fail = fail
		}
	}
	if len(out.Labels) == 0 {
		out.Skip = "no sendable request"
	}
	return out
}

// knownSigs are the signatures listed for C39 in the known-findings file of
// this run (same file vkit reads); used only to choose which of several
// failures of one case is reported.
var knownSigs = func() map[string]bool {
	m := map[string]bool{}
	p := os.Getenv("VERIF_KNOWN")
	if p == "" {
		p = filepath.Join(vkit.Root(), "known_findings.json")
	}
	b, err := os.ReadFile(p)
	if err != nil {
		return m
	}
	var kf struct {
		Findings []struct{ Property, Sig string } `json:"findings"`
	}
	if json.Unmarshal(b, &kf) == nil {
		for _, f := range kf.Findings {
			if f.Property == "C39" {
				m[f.Sig] = true
			}
		}
	}
	return m
}()

func fixed() []Case {
	mk := func(minify bool, reqs ...Req) Case { return Case{MinifyJS: minify, Reqs: reqs} }
	g := func(p, rg string) Req {
		rc := "fixed"
		if rg == "" {
			rc = "none"
		}
		return Req{Method: "GET", Path: p, Range: rg, Target: strings.TrimPrefix(p, "/assets/c39/"), Spell: "plain", RClass: rc}
	}
	var cs []Case
	for _, f := range []string{"a.txt", "app.js", "style.css", "doc.md", "bin.dat", "empty.txt", "big.bin", "link-in.txt", "link-out.txt", "link-sib.txt"} {
		for _, mf := range []bool{false, true} {
			p := "/assets/c39/" + f
			cs = append(cs, mk(mf, g(p, ""), g(p, ""), g(p, "bytes=0-9"), g(p, "bytes=5-"), g(p, "bytes=0-"), Req{Method: "HEAD", Path: p, Target: f, Spell: "plain", RClass: "none"}))
		}
	}
	cs = append(cs,
		mk(false, g("/assets/c39/a.txt", "bytes=5")),
		mk(false, g("/assets/c39/a.txt", "bytes=1000-")),
		mk(false, g("/assets/c39/a.txt", "bytes=43-")),
		mk(false, g("/assets/c39/../../../c39-outside/canary.txt", "")),
		mk(false, g("/assets/c39/%2e%2e/%2e%2e/%2e%2e/c39-outside/canary.txt", "")),
		mk(false, g("/assets/c39/..%2f..%2f..%2fc39-outside/canary.txt", "")),
	)
	return cs
}

func TestC39(t *testing.T) {
	if _, err := getEnv(); err != nil {
		t.Fatalf("fixture: %v", err)
	}
	vkit.Run(t, vkit.Spec[Case]{
		ID:    "C39",
		Level: "exploration",
		Rule: "case = minify settings + 1..4 requests (cache flushed at case start, so repeats are answered from the cache); request = GET/HEAD x target (22 files incl. binary/empty/5MB/odd names, 11 symlinks inside->inside/outside/dangling/loop, directories, missing) x path spelling (plain, separators, inner detour, dot-dot escapes in 18 spellings towards 9 outside files (two in directories whose names share the prefix of <lib> / <lib>/assets), absolute, trailing decorations, control bytes, long, %-encoded, route variants, lib sibling, query, shipped dashboard files) x Range (none, a-b, a-, -k, no dash, inverted, multiple, negative, huge, non-numeric, other units, size boundaries). " +
			"Non-trivial: a request that reached the server with a Range header or a non-plain spelling; distinct by case.",
		Assumptions: []string{
			"asset root = <lib>/assets; the named file is Clean(<lib>+URL.Path)",
			"206 is accepted against either the raw or the transformed content (undocumented which one a range addresses)",
			"200 with the full content is accepted for any Range header (a server may ignore Range)",
			"markdown rendering reference = gomarkdown with the options of assets.mdToHTML (unexported)",
			"no conditional requests (If-None-Match) are generated",
		},
		Gen:      genCase,
		Oracle:   oracle,
		Fixed:    fixed,
		Quick:    1500,
		Thorough: 40000,
	})
}
