package c07

import (
	"encoding/json"
	"fmt"
	"os"
	"sort"
	"strconv"
	"strings"
	"testing"

	"github.com/tucats/ego/verif/workerproc"
	"pgregory.net/rapid"
)

// Development aid (C07_SURVEY=<out.json> [C07_SURVEY_CLASS=sem|seq]): run many
// generated cases through the worker only (no CLI confirmation, no
// shrinking) and record, per crash signature, the shortest source seen. Used
// to enumerate root causes on the unchanged tree before triage.
func TestSurvey(t *testing.T) {
	outFile := os.Getenv("C07_SURVEY")
	if outFile == "" {
		t.Skip()
	}
	type hit struct {
		Sig    string `json:"sig"`
		N      int    `json:"n"`
		Entry  string `json:"entry"`
		Header string `json:"header"`
		Src    string `json:"src"`
		Case   Case   `json:"case"`
	}
	hits := map[string]*hit{}
	hist := map[string]int{}
	g := gen
	switch os.Getenv("C07_SURVEY_CLASS") {
	case "sem":
		g = genSem
	case "seq":
		g = genSeq
	}
	save := func() {
		var hs []*hit
		for _, h := range hits {
			hs = append(hs, h)
		}
		sort.Slice(hs, func(i, j int) bool { return hs[i].Sig < hs[j].Sig })
		b, _ := json.MarshalIndent(map[string]any{"hits": hs, "hist": hist}, "", " ")
		_ = os.WriteFile(outFile, b, 0o644)
	}
	n := 0
	rapid.Check(t, func(rt *rapid.T) {
		c := g(rt)
		src := c.Source()
		v := thePool.exec(c, src)
		hist[c.Class+" "+c.Entry+" "+v.status+" "+v.res.Phase+" "+v.why]++
		if v.res.Msg != "" {
			m := v.res.Msg
			if i := strings.Index(m, ", "); i > 0 {
				m = m[i+2:]
			}
			hist["msg: "+m]++
		}
		sig := ""
		if v.status == "crash" {
			sig = v.crash.Sig
		} else if v.res.Phase == "handler-panic-recovered" {
			sig = "server-recovered " + workerproc.PanicSite(v.res.Stack)
		}
		if sig != "" {
			h := hits[sig]
			if h == nil {
				h = &hit{Sig: sig}
				hits[sig] = h
			}
			h.N++
			if h.Src == "" || len(src) < len(h.Src) {
				h.Src, h.Entry, h.Header, h.Case = string(src), c.Entry, v.crash.Header+v.res.GoPanic, c
			}
		}
		n++
		if n%200 == 0 {
			save()
		}
	})
	save()
	fmt.Println("cases", n, "distinct sigs", len(hits), "->", outFile, strconv.Itoa(thePool.started), "workers")
	if thePool.w != nil {
		thePool.w.Kill()
	}
}
