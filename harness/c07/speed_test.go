package c07

import (
	"fmt"
	"os"
	"strings"
	"testing"

	"pgregory.net/rapid"
)

// development aid: outcome histogram of one generator class
func TestSpeed(t *testing.T) {
	if os.Getenv("C07_DEV") == "" {
		t.Skip()
	}
	hist := map[string]int{}
	msgs := map[string]int{}
	rapid.Check(t, func(rt *rapid.T) {
		c := genSem(rt)
		src := c.Source()
		v := thePool.exec(c, src)
		r := v.res
		hist[c.Entry+" "+v.status+" "+r.Phase]++
		if r.Phase == "compile-error" || r.Phase == "error" {
			m := r.Msg
			if len(m) > 90 { m = m[:90] }
			if i := strings.Index(m, ", "); i > 0 { m = m[i+2:] }
			msgs[m]++
		}
		if v.status == "crash" || r.Phase == "handler-panic-recovered" { fmt.Println("PANIC", v.crash.Sig, v.observed, r.GoPanic, string(src)) }
	})
	fmt.Println(hist)
	for k, v := range msgs { if v > 1 { fmt.Println(v, k) } }
	thePool.w.Kill()
}
