// C07 "No source text crashes the host process".
//
// What is decided: for generated source texts, every way a user can hand text
// to ego for compiling and running ends with output, a reported Ego error, or
// a timeout — never with a Go panic or a fatal runtime error of the process.
//
// Entry points (Case.Entry):
//
//	run     `ego run FILE`       (internal/commands/run.go loadFile + compileAndRun)
//	pipe    `ego run` with the program on a piped stdin (readPipedSource: this is
//	        what the REPL code path does when stdin is not a terminal)
//	test    `ego test FILE`      (internal/commands/test.go)
//	server  POST /admin/run      (admin.RunCodeHandler called with httptest)
//
// Cases are executed in a worker process (package workerproc). A finding is
// only reported when the *host* is shown to die:
//   - run / pipe / test: the in-process result (worker died with a Go crash
//     report, or a Go panic was recovered by the harness) is re-run by the real
//     binary $VERIF_BIN/ego; VIOLATION only if that process prints a Go crash
//     report. Neither main.go, internal/cli/app nor internal/commands recover
//     panics (only callNative.go safeReflectCall, data/channel.go and
//     router/serve.go do), so this normally agrees with the in-process result;
//     a disagreement is counted as inconclusive "inproc-only" and listed in the
//     evidence.
//   - server: router.ServeHTTP (and net/http) recover a panic of the handler
//     goroutine and answer 500, so a recovered handler panic is NOT a violation
//     there (counted under the label outcome=handler-panic-recovered). A worker
//     death (stack overflow, fatal error, panic in a goroutine the program
//     started) is: nothing in a server can recover those.
//
// Preconditions taken from real callers:
//   - `ego run FILE` appends "\n@entrypoint main" and strips a #! line;
//     piped input is normalised (\r\n), gets a trailing newline, "@line 1;\n" in
//     front, and "@entrypoint main" only when it declares func main(.
//   - The server endpoint rejects bodies > 256 KiB, takes the code as a JSON
//     string (so invalid UTF-8 arrives as U+FFFD) and needs a UUID session.
//   - Everything runs sandboxed (Context.Sandboxed(true), CLI --sandbox true)
//     with HOME, EGO_PATH, TMPDIR and the working directory in a scratch
//     directory, and the generator's dictionary contains no os./exec./rest./io.
//     names; the corpus sample excludes files using such packages.
//   - The time bound (5 s per case unless the case carries its own) is a bound
//     on work: 5 s of CPU time of the worker process, or 5 s during which the
//     worker uses no CPU at all (sleeping, deadlocked), with a wall-clock cap of
//     60 s; it does not depend on how loaded the machine is (workerproc.limiter).
//     The time bound, the worker's RSS watchdog (3 GiB) and Go's own "out of
//     memory" are resource bounds: inconclusive, never a violation.
package c07

import (
	"bytes"
	"crypto/sha256"
	"embed"
	"encoding/hex"
	"encoding/json"
	"fmt"
	"os"
	"path/filepath"
	"runtime"
	"sort"
	"strconv"
	"strings"
	"sync"
	"testing"
	"time"
	"unicode"
	"unicode/utf8"

	"github.com/tucats/ego/internal/cli/settings"
	"github.com/tucats/ego/internal/defs"
	"github.com/tucats/ego/verif/egorun"
	"github.com/tucats/ego/verif/vkit"
	"github.com/tucats/ego/verif/workerproc"
	"pgregory.net/rapid"
)

//go:embed corpus/*.ego
var corpusFS embed.FS

func TestMain(m *testing.M) { workerproc.Main(m) }

// ------------------------------------------------------------------ the case

// Seg is a piece of source text repeated N times (N==0 means once). B is used
// instead of S when the bytes are not valid UTF-8 (JSON would mangle them).
type Seg struct {
	S string `json:"s,omitempty"`
	B []byte `json:"b,omitempty"`
	N int    `json:"n,omitempty"`
}

// Mut is one token-level mutation of the base text. Positions are reduced
// modulo the number of tokens of the text they are applied to.
type Mut struct {
	Op  string `json:"op"` // del dup swap ins repl splice trunc
	Pos int    `json:"pos"`
	P2  int    `json:"p2,omitempty"`
	Len int    `json:"len,omitempty"`
	Tok string `json:"tok,omitempty"`
}

// Case is one source text, given either as a base text (corpus file or small
// program) plus mutations, or as a run-length recipe (hostile shapes, raw
// bytes), and the entry point and configuration it is handed to.
type Case struct {
	Entry    string        `json:"entry"`
	Cfg      egorun.Config `json:"cfg"`
	Class    string        `json:"class"`
	Base     string        `json:"base,omitempty"` // "corpus:<file>" or "prog:<n>"
	Muts     []Mut         `json:"muts,omitempty"`
	Segs     []Seg         `json:"segs,omitempty"`
	Tags     []string      `json:"tags,omitempty"`      // generator's labels (class seq: type.method at model state)
	TimeoutS int           `json:"timeout_s,omitempty"` // 0 = default
}

const defaultTimeout = 5 * time.Second

var (
	corpusOnce  sync.Once
	corpusNames []string
	corpusText  = map[string]string{}
)

func loadCorpus() {
	corpusOnce.Do(func() {
		ents, err := corpusFS.ReadDir("corpus")
		if err != nil {
			panic(err)
		}
		for _, e := range ents {
			b, err := corpusFS.ReadFile("corpus/" + e.Name())
			if err != nil {
				panic(err)
			}
			corpusNames = append(corpusNames, e.Name())
			corpusText[e.Name()] = string(b)
		}
		sort.Strings(corpusNames)
	})
}

func baseText(base string) string {
	loadCorpus()
	switch {
	case strings.HasPrefix(base, "corpus:"):
		return corpusText[strings.TrimPrefix(base, "corpus:")]
	case strings.HasPrefix(base, "corpusrun:"):
		return runnable(corpusText[strings.TrimPrefix(base, "corpusrun:")])
	case strings.HasPrefix(base, "corpusmain:"):
		// `ego run FILE` does not accept statements at file level
		return "package main\nfunc main() {\n" + runnable(corpusText[strings.TrimPrefix(base, "corpusmain:")]) + "}\n"
	case strings.HasPrefix(base, "prog:"):
		n, _ := strconv.Atoi(strings.TrimPrefix(base, "prog:"))
		if n >= 0 && n < len(smallPrograms) {
			return smallPrograms[n]
		}
	}
	return ""
}

// runnable turns an `ego test` file into statements `ego run` accepts (the
// @test and @assert directives are "invalid for mode" there and would end the
// compilation at the first line): "@test …" lines become blank or "{", and
// "@assert X" becomes "fmt.Println(X)". 71 of the 114 corpus files then run to
// completion under `ego run`, the rest stop at a later error.
func runnable(text string) string {
	var b strings.Builder
	for _, l := range strings.Split(text, "\n") {
		tl := strings.TrimSpace(l)
		switch {
		case strings.HasPrefix(tl, "@test"):
			if strings.HasSuffix(tl, "{") {
				b.WriteString("{")
			}
		case strings.HasPrefix(tl, "@assert "):
			b.WriteString("fmt.Println(" + strings.TrimPrefix(tl, "@assert ") + ")")
		default:
			b.WriteString(l)
		}
		b.WriteString("\n")
	}
	return b.String()
}

// Source renders the case to the bytes handed to ego.
func (c Case) Source() []byte {
	var b bytes.Buffer
	if c.Base != "" {
		b.WriteString(applyMuts(baseText(c.Base), c.Muts))
	}
	for _, s := range c.Segs {
		n := s.N
		if n <= 0 {
			n = 1
		}
		piece := []byte(s.S)
		if s.B != nil {
			piece = s.B
		}
		if len(piece)*n > 64<<20 {
			n = (64 << 20) / max(len(piece), 1)
		}
		b.Write(bytes.Repeat(piece, n))
	}
	return b.Bytes()
}

// ------------------------------------------------------ lexemes and mutation

// lexemes splits text into pieces whose concatenation is the text: white
// space runs (newlines separately), comments, string / rune / raw-string
// literals, words (identifiers and numbers), multi-character operators and
// single characters. It is the harness's own splitter, independent of ego's
// tokenizer, so that mutations are defined even for text ego cannot lex.
func lexemes(s string) []string {
	var out []string
	ops := []string{"<<=", ">>=", "...", ":=", "==", "!=", "<=", ">=", "&&", "||", "<<", ">>", "<-", "->", "++", "--", "+=", "-=", "*=", "/=", "%=", "&=", "|=", "^="}
	i := 0
	for i < len(s) {
		c := s[i]
		j := i + 1
		switch {
		case c == '\n':
		case c == ' ' || c == '\t' || c == '\r':
			for j < len(s) && (s[j] == ' ' || s[j] == '\t' || s[j] == '\r') {
				j++
			}
		case strings.HasPrefix(s[i:], "//"):
			for j < len(s) && s[j] != '\n' {
				j++
			}
		case strings.HasPrefix(s[i:], "/*"):
			if k := strings.Index(s[i+2:], "*/"); k >= 0 {
				j = i + 2 + k + 2
			} else {
				j = len(s)
			}
		case c == '"' || c == '\'':
			for j < len(s) && s[j] != c && s[j] != '\n' {
				if s[j] == '\\' && j+1 < len(s) {
					j++
				}
				j++
			}
			if j < len(s) && s[j] == c {
				j++
			}
		case c == '`':
			if k := strings.IndexByte(s[i+1:], '`'); k >= 0 {
				j = i + 1 + k + 1
			} else {
				j = len(s)
			}
		case c == '_' || c >= 0x80 || unicode.IsLetter(rune(c)) || unicode.IsDigit(rune(c)):
			for j < len(s) && (s[j] == '_' || s[j] >= 0x80 || unicode.IsLetter(rune(s[j])) || unicode.IsDigit(rune(s[j]))) {
				j++
			}
		default:
			for _, op := range ops {
				if strings.HasPrefix(s[i:], op) {
					j = i + len(op)
					break
				}
			}
		}
		out = append(out, s[i:j])
		i = j
	}
	return out
}

func lexKind(l string) int {
	if l == "" {
		return 0
	}
	c := l[0]
	switch {
	case c >= '0' && c <= '9':
		return 1
	case c == '"' || c == '`' || c == '\'':
		return 2
	case c == '_' || c >= 0x80 || unicode.IsLetter(rune(c)):
		if _, kw := keywords[l]; kw {
			return 5
		}
		return 3
	case strings.HasPrefix(l, "//") || strings.HasPrefix(l, "/*"):
		return 6
	case strings.ContainsAny(l, "(){}[],;"):
		return 7
	}
	return 4
}

var keywords = map[string]struct{}{"func": {}, "var": {}, "const": {}, "type": {}, "struct": {}, "interface": {}, "map": {}, "chan": {}, "if": {}, "else": {}, "for": {}, "range": {}, "switch": {}, "case": {}, "default": {}, "break": {}, "continue": {}, "return": {}, "go": {}, "defer": {}, "try": {}, "catch": {}, "import": {}, "package": {}}

func isSpaceLexeme(l string) bool {
	return l != "" && strings.Trim(l, " \t\r\n") == ""
}

// applyMuts applies the mutations in order; positions index the non-space
// lexemes of the current text.
func applyMuts(text string, muts []Mut) string {
	lx := lexemes(text)
	for _, m := range muts {
		var idx []int // positions of non-space lexemes
		for i, l := range lx {
			if !isSpaceLexeme(l) {
				idx = append(idx, i)
			}
		}
		if len(idx) == 0 {
			if m.Op == "ins" || m.Op == "repl" {
				lx = append(lx, m.Tok)
			}
			continue
		}
		at := func(p int) int {
			if p < 0 {
				p = -p
			}
			return idx[p%len(idx)]
		}
		p := at(m.Pos)
		n := m.Len
		if n <= 0 {
			n = 1
		}
		switch m.Op {
		case "del":
			end := min(p+n, len(lx))
			lx = append(lx[:p:p], lx[end:]...)
		case "dup":
			end := min(p+n, len(lx))
			seg := append([]string{}, lx[p:end]...)
			seg = append(seg, " ")
			lx = append(lx[:p:p], append(seg, lx[p:]...)...)
		case "swap":
			q := at(m.P2)
			lx[p], lx[q] = lx[q], lx[p]
		case "ins":
			lx = append(lx[:p:p], append([]string{m.Tok, " "}, lx[p:]...)...)
		case "repl":
			lx[p] = m.Tok
		case "copy":
			// replace by the next lexeme of the same kind found from P2 on
			// (identifier by identifier, number by number, string by string,
			// operator by operator): keeps the text syntactically plausible
			k := lexKind(lx[p])
			start := m.P2
			if start < 0 {
				start = -start
			}
			for d := 0; d < len(idx); d++ {
				q := idx[(start+d)%len(idx)]
				if q != p && lexKind(lx[q]) == k && lx[q] != lx[p] {
					lx[p] = lx[q]
					break
				}
			}
		case "splice":
			q := at(m.P2)
			end := min(q+n, len(lx))
			seg := append([]string{}, lx[q:end]...)
			seg = append(seg, " ")
			lx = append(lx[:p:p], append(seg, lx[p:]...)...)
		case "trunc":
			lx = lx[:p:p]
			if m.Tok != "" {
				lx = append(lx, m.Tok)
			}
		}
	}
	return strings.Join(lx, "")
}

// dictionary of tokens that mutations insert. No os./exec./rest./io. names.
var dictionary = []string{
	// keywords
	"func", "var", "const", "type", "struct", "interface", "map", "chan", "if", "else", "for", "range", "switch",
	"case", "default", "break", "continue", "return", "go", "defer", "try", "catch", "import", "package", "nil",
	"true", "false", "make", "panic", "recover", "throw", "call", "print", "exit", "fallthrough", "goto", "select",
	"len", "append", "delete", "new", "typeof", "error", "any", "int", "int8", "int16", "int32", "int64", "byte", "uint",
	"float32", "float64", "string", "bool", "complex128",
	// punctuation and operators
	"{", "}", "(", ")", "[", "]", ",", ";", ".", ":", ":=", "=", "==", "!=", "<", "<=", ">", ">=", "+", "-", "*", "/", "%",
	"&", "|", "^", "!", "&&", "||", "<<", ">>", "<-", "->", "++", "--", "+=", "-=", "*=", "/=", "...", "?", "@", "#", "$", "~", "\\",
	"\n", "\n\n", "{\n", "\n}", "()", "[]", "{}", "[]int{", "map[string]int{", "struct{", "func(", "func() {", "}()", ")(", "](", "*", "&",
	// directives
	"@test \"t\"", "@test", "@assert", "@assert true", "@fail", "@fail \"x\"", "@entrypoint main", "@entrypoint", "@line 5", "@line", "@line -1",
	"@line 99999999999999999999", "@file \"x.ego\"", "@file", "@global x 1", "@global", "@type strict", "@type dynamic", "@type", "@error", "@error \"e\"",
	"@localization", "@localization {\"en\":{\"a\":\"b\"}}", "@log", "@template", "@template t \"{{.}}\"", "@authenticated", "@status 200", "@status",
	"@response", "@json", "@json {", "@text", "@text {", "@url", "@wait", "@packages", "@symbols", "@extensions", "@extensions true", "@extensions false",
	"@optimizer on", "@optimizer", "@define a, b", "@define", "@capture", "@compile", "@compile {", "@compile block {", "@compile eof=\"X\" {", "@dump_errors",
	"@endpoint \"GET /x\"", "@endpoint", "@handler", "@package", "@package \"p\"", "@validation", "@profile", "@profile start", "@profile report", "@sandbox", "@sandbox true", "@main", "@pass", "@unknown",
	// literals
	"0", "1", "-1", "9223372036854775807", "9223372036854775808", "-9223372036854775808", "18446744073709551616", "1e309", "1e-400", "0x", "0xFFFFFFFFFFFFFFFFF",
	"0b102", "0o9", "1_000", "1__0", "_1", "1.", ".5", "1.5", "1.5.5", "1e", "1e+", "0x1p-2", "1i", "'a'", "'\\n'", "''", "'ab'", "'\\x'", "'\\u12'", "'", "\"\"",
	"\"a\"", "\"\\x\"", "\"\\u12\"", "\"\\", "\"unterminated", "`raw`", "`unterminated", "/*", "*/", "//", "/* unterminated", "\"a\"\"b\"", "\"\\(x)\"", "\"{{x}}\"",
	// identifiers and types
	"x", "y", "i", "main", "fmt", "fmt.Println", "fmt.Sprintf", "strings", "math", "sort", "sync", "time", "json", "errors", "reflect", "strconv", "T", "_", "__x",
	"a.b.c", "x.", ".x", "x..y", "x[", "x[0]", "x[0:1]", "x[:]", "x[::]", "x.(int)", "x.(type)", "*x", "&x", "&&x", "**x", "[]int", "[][]int", "[3]int", "[...]int",
	"map[string]int", "map[]int", "map[string]", "*int", "chan int", "<-chan", "struct{}", "struct{a int}", "interface{}", "interface{ f() }", "func()", "func(int) int",
	"sync.WaitGroup", "sync.Mutex", "time.Now()", "errors.New(\"e\")", "\xc3\xa9", "\xe2\x82\xac", "\xf0\x9f\x98\x80", "\xef\xbb\xbf", "\u2028", "\u00a0",
}

// ---------------------------------------------------------------- generators

var smallPrograms = []string{
	"package main\nimport \"fmt\"\nfunc main() {\n\tfmt.Println(\"hello\", 1+2)\n}\n",
	"package main\nimport \"fmt\"\ntype P struct {\n\tname string\n\tage int\n}\nfunc (p P) String() string {\n\treturn fmt.Sprintf(\"%s:%d\", p.name, p.age)\n}\nfunc main() {\n\tp := P{name: \"a\", age: 3}\n\tq := &p\n\tq.age = q.age + 1\n\tfmt.Println(p, q.name)\n}\n",
	"package main\nimport \"fmt\"\nfunc fib(n int) int {\n\tif n < 2 {\n\t\treturn n\n\t}\n\treturn fib(n-1) + fib(n-2)\n}\nfunc main() {\n\tfor i := 0; i < 10; i++ {\n\t\tfmt.Println(i, fib(i))\n\t}\n}\n",
	"package main\nimport \"fmt\"\nfunc main() {\n\tm := map[string]int{\"a\": 1, \"b\": 2}\n\tm[\"c\"] = 3\n\tdelete(m, \"a\")\n\tfor k, v := range m {\n\t\tfmt.Println(k, v)\n\t}\n\ta := []int{3, 1, 2}\n\ta = append(a, 4)\n\tfmt.Println(len(a), a[1:3])\n}\n",
	"package main\nimport \"fmt\"\nfunc main() {\n\tdefer func() {\n\t\tif r := recover(); r != nil {\n\t\t\tfmt.Println(\"recovered\", r)\n\t\t}\n\t}()\n\tvar a []int\n\tpanic(\"boom\")\n\tfmt.Println(a[5])\n}\n",
	"package main\nimport \"fmt\"\nfunc main() {\n\ttry {\n\t\tx := 0\n\t\ty := 10 / x\n\t\tfmt.Println(y)\n\t} catch (e) {\n\t\tfmt.Println(\"caught\", e)\n\t}\n}\n",
	"package main\nimport (\n\t\"fmt\"\n\t\"sync\"\n)\nfunc worker(id int, c chan, wg *sync.WaitGroup) {\n\tc <- id * 2\n\twg.Done()\n}\nfunc main() {\n\tvar wg sync.WaitGroup\n\tc := make(chan, 4)\n\tfor i := 0; i < 4; i++ {\n\t\twg.Add(1)\n\t\tgo worker(i, c, &wg)\n\t}\n\twg.Wait()\n\tfor i := 0; i < 4; i++ {\n\t\tv := <-c\n\t\tfmt.Println(v)\n\t}\n}\n",
	"package main\nimport \"fmt\"\nfunc main() {\n\tx := 5\n\tswitch {\n\tcase x < 3:\n\t\tfmt.Println(\"small\")\n\tcase x < 10:\n\t\tfmt.Println(\"medium\")\n\t\tfallthrough\n\tdefault:\n\t\tfmt.Println(\"large\")\n\t}\n\tswitch x {\n\tcase 1, 2:\n\t\tfmt.Println(\"a\")\n\tcase 5:\n\t\tfmt.Println(\"b\")\n\t}\n}\n",
	"package main\nimport \"fmt\"\ntype Shape interface {\n\tArea() float64\n}\ntype Sq struct{ s float64 }\nfunc (q Sq) Area() float64 { return q.s * q.s }\nfunc show(s Shape) { fmt.Println(s.Area()) }\nfunc main() {\n\tvar s Shape = Sq{s: 2.0}\n\tshow(s)\n\tv, ok := s.(Sq)\n\tfmt.Println(v, ok)\n}\n",
	"package main\nimport \"fmt\"\nfunc adder() func(int) int {\n\tsum := 0\n\treturn func(x int) int {\n\t\tsum += x\n\t\treturn sum\n\t}\n}\nfunc main() {\n\tf := adder()\n\tfor i := range 5 {\n\t\tfmt.Println(f(i))\n\t}\n\tg := func(a, b int) (int, error) { return a / b, nil }\n\tr, err := g(4, 2)\n\tfmt.Println(r, err)\n}\n",
	"package main\nimport (\n\t\"fmt\"\n\t\"sort\"\n\t\"strings\"\n)\nfunc main() {\n\ta := []string{\"pear\", \"fig\", \"apple\"}\n\tsort.Slice(a, func(i int, j int) bool {\n\t\treturn a[i] < a[j]\n\t})\n\tfmt.Println(strings.Join(a, \",\"), strings.ToUpper(a[0]))\n}\n",
	"package main\nimport \"fmt\"\nconst (\n\tA = 1\n\tB = \"two\"\n)\nvar g int = 7\nfunc main() {\n\tvar x int8 = 100\n\tvar y float32 = 1.5\n\tvar z = int64(x) + int64(g)\n\tx++\n\ty *= 2\n\tz <<= 2\n\tfmt.Println(A, B, x, y, z, -x, !true, x&3, x|8, x^1)\n}\n",
	"package main\nimport \"fmt\"\nfunc main() {\nouter:\n\tfor i := 0; i < 3; i++ {\n\t\tfor j := 0; j < 3; j++ {\n\t\t\tif j == 2 {\n\t\t\t\tcontinue outer\n\t\t\t}\n\t\t\tif i == 2 {\n\t\t\t\tbreak outer\n\t\t\t}\n\t\t\tfmt.Println(i, j)\n\t\t}\n\t}\n}\n",
	"package main\nimport (\n\t\"fmt\"\n\t\"json\"\n)\ntype R struct {\n\tA int\n\tB []string\n}\nfunc main() {\n\tr := R{A: 1, B: []string{\"x\"}}\n\tb := json.Marshal(r)\n\tfmt.Println(string(b))\n\tvar q R\n\terr := json.Unmarshal(b, &q)\n\tfmt.Println(q, err)\n}\n",
	"package main\nimport (\n\t\"errors\"\n\t\"fmt\"\n)\nfunc f(n int) (int, error) {\n\tif n < 0 {\n\t\treturn 0, errors.New(\"neg\")\n\t}\n\treturn n * 2, nil\n}\nfunc main() {\n\tif v, err := f(-1); err != nil {\n\t\tfmt.Println(\"err\", err)\n\t} else {\n\t\tfmt.Println(v)\n\t}\n\tx := []any{1, \"a\", 2.5, nil, true}\n\tfor _, e := range x {\n\t\tfmt.Println(typeof(e))\n\t}\n}\n",
	"fmt.Println(1 + 2)\nx := []int{1, 2, 3}\nfor i, v := range x {\n\tfmt.Println(i, v)\n}\n",
	"@test \"a: first\"\n{\n\tx := 3\n\t@assert x == 3\n\tfunc sq(n int) int {\n\t\treturn n * n\n\t}\n\t@assert sq(x) == 9\n}\n\n@test \"a: second\"\n{\n\ts := []string{\"b\", \"a\"}\n\tsort.Strings(s)\n\t@assert s[0] == \"a\"\n\ttry {\n\t\ty := s[5]\n\t\t@fail \"no error\"\n\t} catch (e) {\n\t\t@assert e != nil\n\t}\n}\n",
	"package main\nimport \"fmt\"\ntype Node struct {\n\tval int\n\tnext *Node\n}\nfunc main() {\n\tvar head *Node\n\tfor i := 0; i < 3; i++ {\n\t\thead = &Node{val: i, next: head}\n\t}\n\tfor n := head; n != nil; n = n.next {\n\t\tfmt.Println(n.val)\n\t}\n\tvar p *Node\n\tfmt.Println(p == nil)\n}\n",
	"package main\nimport (\n\t\"fmt\"\n\t\"sync\"\n)\nfunc main() {\n\tvar mu sync.Mutex\n\tvar wg sync.WaitGroup\n\tcount := 0\n\tfor i := 0; i < 5; i++ {\n\t\twg.Add(1)\n\t\tgo func() {\n\t\t\tmu.Lock()\n\t\t\tcount++\n\t\t\tmu.Unlock()\n\t\t\twg.Done()\n\t\t}()\n\t}\n\twg.Wait()\n\tfmt.Println(count)\n}\n",
	"package main\nimport \"fmt\"\nfunc variadic(pre string, xs ...int) int {\n\tt := 0\n\tfor _, x := range xs {\n\t\tt += x\n\t}\n\tfmt.Println(pre, t)\n\treturn t\n}\nfunc main() {\n\tvariadic(\"a\")\n\tvariadic(\"b\", 1, 2, 3)\n\ts := []int{4, 5}\n\tvariadic(\"c\", s...)\n\ta, b := 1, 2\n\ta, b = b, a\n\tfmt.Println(a, b)\n}\n",
}

func genCfg(t *rapid.T) egorun.Config {
	return egorun.Config{
		Types:      rapid.SampledFrom([]string{"dynamic", "dynamic", "relaxed", "strict"}).Draw(t, "types"),
		Optimize:   rapid.SampledFrom([]int{0, 1, 1, 2, 3}).Draw(t, "opt"),
		Extensions: rapid.IntRange(0, 3).Draw(t, "ext") != 0,
	}
}

func genEntry(t *rapid.T) string {
	return rapid.SampledFrom([]string{"run", "run", "run", "pipe", "pipe", "test", "test", "server"}).Draw(t, "entry")
}

func genTok(t *rapid.T) string {
	return dictionary[rapid.IntRange(0, len(dictionary)-1).Draw(t, "tok")]
}

func genMut(t *rapid.T) Mut {
	op := rapid.SampledFrom([]string{"del", "del", "dup", "swap", "ins", "ins", "ins", "repl", "repl", "splice", "trunc", "copy", "copy", "copy", "copy"}).Draw(t, "op")
	m := Mut{Op: op, Pos: rapid.IntRange(0, 1<<14).Draw(t, "pos")}
	switch op {
	case "del", "dup":
		m.Len = rapid.IntRange(1, 4).Draw(t, "len")
	case "swap":
		// mostly neighbours
		if rapid.Bool().Draw(t, "near") {
			m.P2 = m.Pos + 1
		} else {
			m.P2 = rapid.IntRange(0, 1<<14).Draw(t, "p2")
		}
	case "ins", "repl":
		m.Tok = genTok(t)
	case "copy":
		m.P2 = rapid.IntRange(0, 1<<14).Draw(t, "p2")
	case "splice":
		m.P2 = rapid.IntRange(0, 1<<14).Draw(t, "p2")
		m.Len = rapid.IntRange(1, 12).Draw(t, "len")
	case "trunc":
		if rapid.Bool().Draw(t, "tail") {
			m.Tok = genTok(t)
		}
	}
	return m
}

func genMutation(t *rapid.T) Case {
	loadCorpus()
	c := Case{Entry: genEntry(t), Cfg: genCfg(t)}
	file := corpusNames[rapid.IntRange(0, len(corpusNames)-1).Draw(t, "file")]
	prog := rapid.IntRange(0, len(smallPrograms)-1).Draw(t, "prog")
	useProg := rapid.IntRange(0, 2).Draw(t, "src") == 0
	switch {
	case c.Entry == "test" && (useProg && rapid.Bool().Draw(t, "testprog") || !strings.Contains(corpusText[file], "@test")):
		// `ego test` skips files without @test: the one small program that has them
		c.Class, c.Base = "mut/prog", "prog:16"
	case c.Entry == "test":
		c.Class, c.Base = "mut/corpus", "corpus:"+file
	case useProg:
		c.Class, c.Base = "mut/prog", "prog:"+strconv.Itoa(prog)
	default:
		// test files rewritten so that `ego run` gets past the first directive
		c.Class, c.Base = "mut/corpusrun", "corpusrun:"+file
		if c.Entry == "run" {
			c.Base = "corpusmain:" + file
		}
	}
	n := rapid.SampledFrom([]int{1, 1, 1, 2, 2, 3, 4, 6, 10}).Draw(t, "nmut")
	for i := 0; i < n; i++ {
		c.Muts = append(c.Muts, genMut(t))
	}
	return c
}

// contexts a hostile fragment is placed in: (before, after), at statement
// level (inside a function or test body) and at file level
var bodyContexts = [][2]string{
	{"x := ", "\n\t_ = x"}, {"", ""}, {"fmt.Println(", ")"}, {"if ", " {\n\t}"}, {"switch ", " {\n\t}"}, {"for ", " {\n\t\tbreak\n\t}"}, {"return ", ""},
	{"x := []int{", "}\n\t_ = x"}, {"x := map[string]any{\"a\": ", "}\n\t_ = x"}, {"go ", ""}, {"defer ", ""}, {"x := \"", "\""}, {"x := `", "`"}, {"var x ", ""},
	{"type T ", ""}, {"x = ", ""}, {"x[", "] = 1"}, {"func f(a ", ") {}"}, {"x, y := 1, ", ""}, {"const c = ", ""}, {"@assert ", ""}, {"x := 1 + ", "\n\t_ = x"},
	{"for i := range ", " {\n\t}"}, {"switch x := ", ".(type) {\n\t}"}, {"c <- ", ""}, {"x := f(", ")"}, {"x := T{a: ", "}"}, {"x := &", ""}, {"panic(", ")"},
}

var topContexts = [][2]string{
	{"var x ", ""}, {"type T ", ""}, {"func f(a ", ") {}"}, {"import ", ""}, {"const c = ", ""}, {"", ""}, {"func (r ", ") f() {}"}, {"func f() ", " { }"},
	{"package ", ""}, {"var x = ", ""}, {"type T struct {\n\ta ", "\n}"}, {"type T interface {\n\t", "\n}"}, {"import (\n\t", "\n)"}, {"const (\n\ta = ", "\n)"},
}

// genContext wraps a fragment position for the given entry: `ego test` needs
// an @test block around statements, the other entries a program (or bare
// statements, which `ego run` also accepts).
func genContext(t *rapid.T, entry string) [2]string {
	top := rapid.IntRange(0, 3).Draw(t, "top") == 0
	var c [2]string
	if top {
		c = topContexts[rapid.IntRange(0, len(topContexts)-1).Draw(t, "ctx")]
	} else {
		c = bodyContexts[rapid.IntRange(0, len(bodyContexts)-1).Draw(t, "ctx")]
	}
	switch {
	case entry == "test" && top:
		return [2]string{c[0], c[1] + "\n@test \"t\"\n{\n\t@assert true\n}\n"}
	case entry == "test":
		return [2]string{"@test \"t\"\n{\n\t" + c[0], c[1] + "\n}\n"}
	case top:
		return [2]string{"package main\n" + c[0], c[1] + "\nfunc main() {}\n"}
	case entry != "run" && rapid.IntRange(0, 2).Draw(t, "bare") == 0:
		// statements at file level: accepted from a pipe and by the server
		return [2]string{c[0], c[1] + "\n"}
	default:
		return [2]string{"package main\nfunc main() {\n\t" + c[0], c[1] + "\n}\n"}
	}
}

// nesting forms: open, core, close
var nests = [][3]string{
	{"(", "1", ")"}, {"[", "1", "]"}, {"{", "", "}"}, {"{\n", "x := 1\n", "}\n"}, {"[]", "int{}", ""}, {"[]", "int", ""},
	{"*", "int", ""}, {"&", "x", ""}, {"-", "1", ""}, {"!", "true", ""}, {"- -", "1", ""}, {"^", "1", ""},
	{"func() int { return ", "1", " }()"}, {"func() { ", "", " }()"}, {"func() {\n", "x := 1\n", "}\n"},
	{"if true {\n", "x := 1\n", "}\n"}, {"if true { ", "", " } else { "}, {"for i := 0; i < 1; i++ {\n", "", "}\n"}, {"try {\n", "x := 1\n", "} catch (e) {}\n"},
	{"switch {\ncase true:\n", "x := 1\n", "}\n"}, {"map[string]", "int", ""}, {"map[", "int", "]int"}, {"struct{ a ", "int", " }"}, {"[]struct{ a ", "int", " }"},
	{"f(", "1", ")"}, {"a[", "0", "]"}, {"x.f(", "", ")"}, {"[]any{", "1", "}"}, {"map[string]any{\"a\": ", "1", "}"}, {"1 + (", "2", ")"}, {"1 * -(", "2", ")"},
	{"len(", "x", ")"}, {"append(x, ", "1", ")"}, {"typeof(", "x", ")"}, {"int(", "1", ")"}, {"chan ", "int", ""}, {"func(", "", ") "}, {"interface{ f() ", "", " }"},
	{"go func() {\n", "", "}()\n"}, {"defer func() {\n", "", "}()\n"}, {"@compile {\n", "", "}\n"}, {"@test \"t\" {\n", "", "}\n"}, {"x = ", "1", ""}, {"x := ", "1", ""},
	{"\"\\(", "1", ")\""}, {"<-", "c", ""}, {"/*", "", "*/"}, {"`", "", "`"},
}

func genDepth(t *rapid.T) int {
	// Compilation time grows faster than linearly with nesting depth (a
	// parenthesis depth of 50 000 takes 7 s), so depths beyond ~10^4 mostly
	// end as timeouts; they are kept rare. The depth at which the 1 GB Go
	// stack is exhausted is covered by a fixed case with its own time bound.
	k := rapid.IntRange(0, 199).Draw(t, "dclass")
	switch {
	case k < 80:
		return rapid.IntRange(1, 40).Draw(t, "depth")
	case k < 150:
		return rapid.IntRange(40, 1000).Draw(t, "depth")
	case k < 197:
		return rapid.IntRange(1000, 8000).Draw(t, "depth")
	case k < 199:
		return rapid.IntRange(8000, 60000).Draw(t, "depth")
	default:
		return rapid.IntRange(60000, 1500000).Draw(t, "depth")
	}
}

func genShape(t *rapid.T) Case {
	c := Case{Entry: genEntry(t), Cfg: genCfg(t)}
	ctx := genContext(t, c.Entry)
	kind := rapid.SampledFrom([]string{"nest", "nest", "nest", "literal", "unterminated", "directive", "chain", "chain"}).Draw(t, "shape")
	c.Class = "shape/" + kind
	c.Segs = append(c.Segs, Seg{S: ctx[0]})
	switch kind {
	case "nest":
		nf := nests[rapid.IntRange(0, len(nests)-1).Draw(t, "nest")]
		d := genDepth(t)
		closeN := d
		switch rapid.IntRange(0, 9).Draw(t, "balance") {
		case 0:
			closeN = 0
		case 1:
			closeN = d - 1
		case 2:
			closeN = d + 1
		}
		c.Segs = append(c.Segs, Seg{S: nf[0], N: d}, Seg{S: nf[1]})
		if nf[2] != "" && closeN > 0 {
			c.Segs = append(c.Segs, Seg{S: nf[2], N: closeN})
		}
		// sometimes a second, different nest inside/after the first
		if rapid.IntRange(0, 4).Draw(t, "second") == 0 {
			nf2 := nests[rapid.IntRange(0, len(nests)-1).Draw(t, "nest2")]
			d2 := rapid.IntRange(1, 300).Draw(t, "depth2")
			c.Segs = append(c.Segs, Seg{S: "\n"}, Seg{S: nf2[0], N: d2}, Seg{S: nf2[1]})
			if nf2[2] != "" {
				c.Segs = append(c.Segs, Seg{S: nf2[2], N: d2})
			}
		}
	case "literal":
		n := rapid.SampledFrom([]int{1, 17, 18, 19, 20, 21, 40, 308, 309, 310, 400, 1000, 5000, 70000, 300000}).Draw(t, "n")
		forms := [][3]string{
			{"", "9", ""}, {"1e", "9", ""}, {"1e-", "9", ""}, {"0x", "F", ""}, {"0b", "1", ""}, {"0o", "7", ""}, {"1.", "0", "1"}, {"0.", "0", "1"}, {"1", "_1", ""},
			{"\"", "a", "\""}, {"`", "a", "`"}, {"\"", "\\n", "\""}, {"\"", "\xc3\xa9", "\""}, {"'", "a", "'"}, {"", "a", ""}, {"a", "_", "b"}, {"", "\xc3\xa9", ""}, {"1", "0", "i"},
			{"\"", "{{", "\""}, {"\"", "\\\"", "\""}, {"\"\\u", "0", "\""}, {"\"\\x", "f", "\""}, {"'\\", "0", "'"}, {"-", "9", ""}, {"1e+", "0", "1"}, {"0", "0", "8"},
		}
		f := forms[rapid.IntRange(0, len(forms)-1).Draw(t, "form")]
		c.Segs = append(c.Segs, Seg{S: f[0]}, Seg{S: f[1], N: n}, Seg{S: f[2]})
	case "unterminated":
		opener := rapid.SampledFrom([]string{"\"abc", "`abc", "/* abc", "'a", "\"abc\\", "'\\", "\"\\u12", "\"a\nb\"", "`a\n", "// c", "/*/", "\"", "`", "'", "(", "[", "{", "func(", "func() {", "x.", "x[", "x(", "x :=", "x =", "if", "for", "switch x {", "case", "struct {", "map[", "[]", "@", "@test", "@test \"", "@assert", "go", "defer", "try {", "try {} catch", "return", "import (", "import \"", "type T", "var", "const (", "x, y :=", "x <-", "<-", "&", "*", "!", "-", "x +", "x ?", "x.("}).Draw(t, "opener")
		c.Segs = append(c.Segs, Seg{S: opener})
		// no closing context: the text ends inside the construct
		if rapid.IntRange(0, 3).Draw(t, "noctx") == 0 {
			c.Segs[0] = Seg{S: ""}
		}
		return c
	case "directive":
		// a directive in an odd place
		d := rapid.SampledFrom(directiveForms).Draw(t, "directive")
		pre := rapid.SampledFrom([]string{"", "1 + ", "x := ", "f(", "[]int{", "if ", "return ", "{ ", "\n", "x.", "func() { ", "go ", "defer ", "@test \"a\" ", "case "}).Draw(t, "pre")
		post := rapid.SampledFrom([]string{"", " + 1", ")", "}", " {", "\n}", " }()", ";", ",", " @", " @line 3"}).Draw(t, "post")
		n := rapid.SampledFrom([]int{1, 1, 1, 2, 50, 3000}).Draw(t, "n")
		c.Segs = append(c.Segs, Seg{S: pre}, Seg{S: d + "\n", N: n}, Seg{S: post})
	case "chain":
		forms := [][3]string{
			{"a", ".b", ""}, {"a", "[0]", ""}, {"a", "()", ""}, {"f", "(1)", ""}, {"x", " + x", ""}, {"x", " && x", ""}, {"x", " == x", ""}, {"x", " * -x", ""}, {"x := 1", "; x++", ""},
			{"x, ", "x, ", "x := 1"}, {"f(", "1, ", "1)"}, {"[]int{", "1, ", "1}"}, {"map[string]int{", "\"a\": 1, ", "}"}, {"struct{ ", "a int; ", "}"}, {"func(", "a int, ", "b int) {}"},
			{"if x {", "} else if x {", "}"}, {"switch x {\n", "case 1:\n", "}"}, {"switch x {\n", "case 1: fallthrough\n", "default:\n}"}, {"", "x := 1\n", ""}, {"", "func f() {}\n", ""}, {"", "L:\n", "x := 1"},
			{"", "import \"fmt\"\n", ""}, {"", "type T struct{}\n", ""}, {"", "var x int\n", ""}, {"", "const c = 1\n", ""}, {"", "{}\n", ""}, {"", ";", ""}, {"", "\n", ""}, {"", "// c\n", ""}, {"", "/* c */", ""},
			{"x", ".(int)", ""}, {"x", "[1:]", ""}, {"x", "++", ""}, {"x", "--", ""}, {"&", "&", "x"}, {"x", "<-", "y"}, {"return ", "1, ", "1"}, {"x = ", "x = ", "1"}, {"a", ".b()", ""}, {"a", "?b:", "c"},
			{"fmt.Println(", "\"a\", ", "1)"}, {"", "defer f()\n", ""}, {"", "go f()\n", ""}, {"", "@assert true\n", ""}, {"", "@test \"t\" {}\n", ""}, {"x := \"a\"", " + \"a\"", ""},
		}
		f := forms[rapid.IntRange(0, len(forms)-1).Draw(t, "form")]
		n := rapid.SampledFrom([]int{2, 3, 10, 10, 50, 100, 255, 256, 257, 400, 1000, 1000, 3000, 5000, 20000, 65536}).Draw(t, "n")
		c.Segs = append(c.Segs, Seg{S: f[0]}, Seg{S: f[1], N: n}, Seg{S: f[2]})
	}
	c.Segs = append(c.Segs, Seg{S: ctx[1]})
	return c
}

var directiveForms = []string{
	"@test \"t\"", "@test", "@test 5", "@test \"t\" {", "@assert", "@assert true", "@assert 1", "@assert x", "@fail", "@fail \"m\"", "@entrypoint main", "@entrypoint", "@entrypoint 5",
	"@entrypoint main.main", "@line 5", "@line", "@line -5", "@line 0", "@line 1;", "@line x", "@line 99999999999999999999", "@line 1.5", "@file \"f\"", "@file", "@file 5", "@global x 1", "@global",
	"@global 5", "@type strict", "@type", "@type 5", "@type bogus", "@error", "@error \"e\"", "@error 5", "@localization", "@localization {}", "@localization {\"en\":{\"k\":\"v\"}}", "@localization {\"en\":5}",
	"@localization [", "@log", "@log x", "@log x \"m\"", "@template", "@template t", "@template t \"{{.}}\"", "@template t \"{{\"", "@authenticated", "@authenticated user", "@authenticated bogus",
	"@status", "@status 200", "@status x", "@response", "@json", "@json {}", "@text", "@text {}", "@url", "@url \"/a/{{b}}\"", "@wait", "@packages", "@symbols", "@symbols \"x\"", "@extensions", "@extensions true",
	"@extensions bogus", "@optimizer", "@optimizer on", "@optimizer bogus", "@define", "@define a", "@define a,", "@define 5", "@capture", "@capture x", "@compile", "@compile {}", "@compile block {}",
	"@compile slots=true {}", "@compile eof=\"X\" {", "@compile eof= {", "@compile optimize=high {}", "@compile bogus=1 {}", "@dump_errors", "@endpoint", "@endpoint \"GET /x\"", "@endpoint 5", "@handler",
	"@handler f", "@package", "@package \"p\"", "@package p", "@validation", "@validation {}", "@profile", "@profile start", "@profile stop", "@profile report", "@profile dump", "@profile bogus",
	"@sandbox", "@sandbox true", "@sandbox bogus", "@debug", "@main", "@pass", "@unknown", "@", "@@", "@ test", "@1", "@\"s\"", "@{", "@(",
}

func genRaw(t *rapid.T) Case {
	c := Case{Entry: genEntry(t), Cfg: genCfg(t), Class: "raw/bytes"}
	special := [][]byte{{0}, {0xff}, {0xfe}, {0xc0, 0x80}, {0xed, 0xa0, 0x80}, {0xef, 0xbb, 0xbf}, {0xf4, 0x90, 0x80, 0x80}, {0x80}, {0xe2, 0x82}, {'\r'}, {'\r', '\n'}, {0x1b}, {0x7f}, {0xe2, 0x80, 0xa8}, {'\\'}, {'"'}, {'`'}, {'\''}, {'@'}, {'\n'}, {'\t'}, {0x0c}, {0x0b}, {0x1a}, {0x85}}
	switch rapid.IntRange(0, 2).Draw(t, "rawkind") {
	case 0: // purely random bytes, biased
		n := rapid.IntRange(0, 120).Draw(t, "n")
		var b []byte
		for i := 0; i < n; i++ {
			switch rapid.IntRange(0, 3).Draw(t, "k") {
			case 0:
				b = append(b, special[rapid.IntRange(0, len(special)-1).Draw(t, "sp")]...)
			case 1:
				b = append(b, []byte(genTok(t))...)
				b = append(b, ' ')
			default:
				b = append(b, byte(rapid.IntRange(0, 255).Draw(t, "b")))
			}
		}
		c.Segs = []Seg{{B: b}}
	default: // bytes spliced into a valid text
		loadCorpus()
		var text string
		if rapid.Bool().Draw(t, "prog") {
			text = smallPrograms[rapid.IntRange(0, len(smallPrograms)-1).Draw(t, "p")]
			c.Class = "raw/prog"
		} else {
			text = corpusText[corpusNames[rapid.IntRange(0, len(corpusNames)-1).Draw(t, "f")]]
			c.Class = "raw/corpus"
		}
		b := []byte(text)
		k := rapid.IntRange(1, 6).Draw(t, "k")
		for i := 0; i < k && len(b) > 0; i++ {
			pos := rapid.IntRange(0, 1<<20).Draw(t, "pos") % len(b)
			sp := special[rapid.IntRange(0, len(special)-1).Draw(t, "sp")]
			switch rapid.IntRange(0, 2).Draw(t, "how") {
			case 0:
				b = append(b[:pos:pos], append(append([]byte{}, sp...), b[pos:]...)...)
			case 1:
				b[pos] = sp[0]
			default:
				b = b[:pos]
				b = append(b, sp...)
			}
		}
		c.Segs = []Seg{{B: b}}
	}
	return c
}

func gen(t *rapid.T) Case {
	switch rapid.IntRange(0, 13).Draw(t, "class") {
	case 0, 1, 2:
		return genMutation(t)
	case 3, 4, 5:
		return genShape(t)
	case 6, 7, 8:
		return genSem(t)
	case 9, 10, 11:
		return genSeq(t)
	default:
		return genRaw(t)
	}
}

// fixed cases: every entry on unmodified small programs (trivial, sanity), and
// the hostile shapes whose cost is beyond the default time bound.
func fixed() []Case {
	var cs []Case
	cfg := egorun.Config{Types: "dynamic", Optimize: 1, Extensions: true}
	for _, e := range []string{"run", "pipe", "test", "server"} {
		for _, p := range []int{0, 6, 15, 16} {
			cs = append(cs, Case{Entry: e, Cfg: cfg, Class: "fixed/valid", Base: "prog:" + strconv.Itoa(p)})
		}
	}
	return cs
}

// -------------------------------------------------------------- worker side

type wireCase struct {
	Entry string        `json:"entry"`
	Cfg   egorun.Config `json:"cfg"`
	Src   []byte        `json:"src"`
}

var baselineGoroutines int

func init() {
	workerproc.OnWorkerStart = func() {
		egorun.Init()
		dir, _ := os.Getwd()
		sb := filepath.Join(dir, "sandbox")
		_ = os.MkdirAll(sb, 0o755)
		settings.SetDefault(defs.SandboxPathSetting, sb)
		// warm up: the first execution starts one-time goroutines (signal
		// delivery loop); measure the baseline after it
		_ = runCase(wireCase{Entry: "run", Cfg: egorun.Config{Types: "dynamic", Extensions: true}, Src: []byte(smallPrograms[0])})
		_ = runCase(wireCase{Entry: "server", Cfg: egorun.Config{Types: "dynamic", Extensions: true}, Src: []byte(smallPrograms[15])})
		time.Sleep(20 * time.Millisecond)
		baselineGoroutines = runtime.NumGoroutine()
	}
	workerproc.Handle("case", func(raw json.RawMessage) (any, error) {
		var wc wireCase
		if err := json.Unmarshal(raw, &wc); err != nil {
			return nil, err
		}
		r := runCase(wc)
		for i := 0; i < 50 && runtime.NumGoroutine() > baselineGoroutines; i++ {
			time.Sleep(2 * time.Millisecond)
		}
		r.Leftover = runtime.NumGoroutine() > baselineGoroutines
		return r, nil
	})
}

func clip(s string, n int) string {
	if len(s) > n {
		return s[:n] + "…"
	}
	return s
}

// Res is the worker's report for one case.
type Res = workerproc.Res

func runCase(wc wireCase) Res { return workerproc.RunEntry(wc.Entry, string(wc.Src), wc.Cfg) }

// -------------------------------------------------------------- parent side

type pool struct {
	mu       sync.Mutex
	w        *workerproc.Worker
	dir      string
	started  int
	timeouts int
	cliRuns  int
	notes    map[string]int
	// every class-seq label seen (the merged evidence keeps only the 200 most
	// frequent labels; this list is complete)
	seqLabels map[string]bool
}

var thePool = &pool{notes: map[string]int{}, seqLabels: map[string]bool{}}

const casesPerWorker = 400

func scratchDir(sub string) string {
	root := os.Getenv("VERIF_RUN_DIR")
	if root == "" {
		root = filepath.Join(os.TempDir(), "verif-c07-"+strconv.Itoa(os.Getpid()))
	}
	d := filepath.Join(root, "c07-"+strconv.Itoa(os.Getpid()), sub)
	_ = os.MkdirAll(d, 0o755)
	return d
}

func (p *pool) fresh() (*workerproc.Worker, error) {
	if p.w != nil {
		p.w.Kill()
		p.w = nil
	}
	if p.dir == "" {
		p.dir = scratchDir("work")
		_ = os.MkdirAll(filepath.Join(p.dir, "tmp"), 0o755)
	}
	w, err := workerproc.Start(workerproc.Options{Dir: p.dir, Env: []string{
		"VERIF_RUN_DIR=" + p.dir, "TMPDIR=" + filepath.Join(p.dir, "tmp"),
	}})
	if err != nil {
		return nil, err
	}
	p.started++
	p.w = w
	return w, nil
}

func (p *pool) note(s string) { p.notes[s]++ }

type verdict struct {
	res      Res
	status   string // ok | timeout | crash | inconclusive
	why      string // for inconclusive
	crash    workerproc.Crash
	observed string
}

func (p *pool) call(wc wireCase, timeout time.Duration, isolated bool) (workerproc.CallResult, bool, error) {
	if isolated || !p.w.Alive() || p.w.Calls >= casesPerWorker {
		if _, err := p.fresh(); err != nil {
			return workerproc.CallResult{}, false, err
		}
	}
	first := p.w.Calls == 0
	r := p.w.Call("case", wc, timeout)
	return r, first, nil
}

// exec runs one case and decides what the in-process evidence is.
func (p *pool) exec(c Case, src []byte) verdict {
	p.mu.Lock()
	defer p.mu.Unlock()
	timeout := defaultTimeout
	if c.TimeoutS > 0 {
		timeout = time.Duration(c.TimeoutS) * time.Second
	}
	wc := wireCase{Entry: c.Entry, Cfg: c.Cfg, Src: src}
	var v verdict
	r, first, err := p.call(wc, timeout, c.TimeoutS > 0)
	if err != nil {
		return verdict{status: "inconclusive", why: "cannot start worker: " + err.Error()}
	}
	suspicious := func(r workerproc.CallResult) bool {
		if r.Status == workerproc.Died {
			return true
		}
		if r.Status == workerproc.OK {
			var rs Res
			_ = json.Unmarshal(r.Data, &rs)
			return rs.Phase == "go-panic"
		}
		return false
	}
	if suspicious(r) && !first {
		// attribute it: the same case alone in a fresh worker
		r2, _, err := p.call(wc, timeout, true)
		if err != nil {
			return verdict{status: "inconclusive", why: "cannot start worker: " + err.Error()}
		}
		if !suspicious(r2) && r2.Status != workerproc.Timeout {
			p.note("crash seen in a shared worker but not alone: " + describe(r))
			_ = json.Unmarshal(r2.Data, &v.res)
			v.status, v.why = "inconclusive", "not-reproducible-alone"
			return v
		}
		r = r2
	}
	switch r.Status {
	case workerproc.Timeout:
		p.timeouts++
		v.status = "timeout"
		return v
	case workerproc.OK:
		if r.Err != "" {
			return verdict{status: "inconclusive", why: "worker error: " + r.Err}
		}
		_ = json.Unmarshal(r.Data, &v.res)
		if v.res.Leftover {
			// do not let this program's goroutines run into the next case
			p.w.Kill()
		}
		if v.res.Phase == "go-panic" {
			v.status = "crash"
			v.crash = workerproc.Crash{Kind: "panic", Header: "panic: " + v.res.GoPanic, Sig: "panic:" + workerproc.PanicSite(v.res.Stack) + " [" + workerproc.PanicClass(v.res.GoPanic) + "]", Trace: v.res.Stack}
			v.observed = "Go panic recovered by the harness around compile+run: " + v.res.GoPanic + "\n" + clip(v.res.Stack, 3000)
			return v
		}
		v.status = "ok"
		return v
	default: // Died
		cr, found := workerproc.FindCrash(r.Stderr)
		switch {
		case r.ExitCode == workerproc.ExitMemLimit:
			v.status, v.why = "inconclusive", "memlimit"
		case found && cr.Kind == "oom":
			v.status, v.why = "inconclusive", "oom"
		case found:
			v.status, v.crash = "crash", cr
			v.observed = fmt.Sprintf("worker process died (exit %d %s): %s\n%s", r.ExitCode, r.Signal, cr.Header, clip(cr.Trace, 3000))
		case r.Signal != "":
			v.status, v.why = "inconclusive", "worker-killed-by-"+r.Signal
		default:
			p.note(fmt.Sprintf("worker exit %d without a Go crash report: %s", r.ExitCode, clip(r.Stderr, 300)))
			v.status, v.why = "inconclusive", "worker-exit-no-crash-report"
		}
		return v
	}
}

func describe(r workerproc.CallResult) string {
	if r.Status == workerproc.Died {
		if cr, ok := workerproc.FindCrash(r.Stderr); ok {
			return cr.Sig
		}
		return fmt.Sprintf("died exit=%d %s", r.ExitCode, r.Signal)
	}
	var rs Res
	_ = json.Unmarshal(r.Data, &rs)
	return "recovered panic:" + workerproc.PanicSite(rs.Stack)
}

// confirmCLI re-runs the case with the real binary. It returns the crash the
// host process reported, or found=false.
func (p *pool) confirmCLI(c Case, src []byte) (cr workerproc.Crash, found bool, note string) {
	bin := os.Getenv("VERIF_BIN")
	if bin == "" {
		bin = "/verif/.bin"
	}
	ego := filepath.Join(bin, "ego")
	if _, err := os.Stat(ego); err != nil {
		return cr, false, "no-ego-binary"
	}
	p.mu.Lock()
	p.cliRuns++
	n := p.cliRuns
	p.mu.Unlock()
	dir := scratchDir(fmt.Sprintf("cli-%d", n))
	defer os.RemoveAll(dir)
	home := filepath.Join(dir, "home")
	tmp := filepath.Join(dir, "tmp")
	_ = os.MkdirAll(home, 0o755)
	_ = os.MkdirAll(tmp, 0o755)
	env := []string{"HOME=" + home, "EGO_PATH=" + home, "TMPDIR=" + tmp, "PATH=/usr/bin:/bin", "EGO_PANIC="}
	file := filepath.Join(dir, "case.ego")
	_ = os.WriteFile(file, src, 0o644)
	timeout := 30 * time.Second
	if c.TimeoutS > 0 {
		timeout = time.Duration(c.TimeoutS) * time.Second
	}
	glob := []string{"--set", "ego.compiler.extensions=" + strconv.FormatBool(c.Cfg.Extensions)}
	opts := []string{"--types", c.Cfg.Types, "-o", strconv.Itoa(c.Cfg.Optimize), "--sandbox", "true"}
	var attempts [][]string
	var stdin []byte
	switch c.Entry {
	case "pipe":
		stdin = src
		attempts = [][]string{append(append(append([]string{}, glob...), "run"), opts...), {"run"}}
	case "test":
		attempts = [][]string{append(append([]string{"test"}, opts...), file), {"test", file}}
	default:
		attempts = [][]string{append(append(append(append([]string{}, glob...), "run"), opts...), file), {"run", file}}
	}
	anyTimeout := false
	for _, a := range attempts {
		out, _, timedOut, err := workerproc.RunCLI(dir, env, stdin, timeout, ego, a...)
		if err != nil {
			return cr, false, "cli-start-failed"
		}
		if cr, ok := workerproc.FindCrash(out); ok {
			cr.Trace = "$ ego " + strings.Join(a, " ") + "\n" + cr.Trace
			return cr, true, ""
		}
		anyTimeout = anyTimeout || timedOut
	}
	if anyTimeout {
		return cr, false, "cli-timeout"
	}
	return cr, false, "inproc-only"
}

func caseKey(c Case, src []byte) string {
	h := sha256.New()
	fmt.Fprintf(h, "%s|%s|%d|%v|", c.Entry, c.Cfg.Types, c.Cfg.Optimize, c.Cfg.Extensions)
	h.Write(src)
	return hex.EncodeToString(h.Sum(nil)[:12])
}

const expected = "program output, a reported Ego error, or a timeout — never an unrecovered Go panic or fatal runtime error of the host process (C07)"

func oracle(c Case) vkit.Outcome {
	var out vkit.Outcome
	src := c.Source()
	out.Key = caseKey(c, src)
	class := c.Class
	if class == "" {
		class = "unclassified"
	}
	modified := c.Base == "" || len(c.Muts) > 0
	v := thePool.exec(c, src)
	outcome := v.res.Phase
	switch v.status {
	case "timeout":
		outcome = "timeout"
		out.Inconclusive = "timeout"
	case "inconclusive":
		outcome = "inconclusive"
		out.Inconclusive = v.why
	case "crash":
		outcome = "crash"
	}
	if c.Entry == "server" && v.status == "ok" && v.res.Phase == "handler-panic-recovered" {
		// router.ServeHTTP recovers this and answers 500: the process lives
		thePool.mu.Lock()
		thePool.note("server handler panic (recovered by the router, not a violation): " + workerproc.PanicSite(v.res.Stack))
		thePool.mu.Unlock()
	}
	out.NonTrivial = modified && v.res.Tokens >= 3
	if v.status != "ok" {
		// token count unknown when the worker did not answer; count from the text
		out.NonTrivial = modified && len(bytes.Fields(src)) >= 3
	}
	out.Labels = []string{"class=" + class, "entry=" + c.Entry + " outcome=" + outcome, "class=" + class + " outcome=" + outcome}
	out.Labels = append(out.Labels, c.Tags...)
	thePool.mu.Lock()
	for _, tg := range c.Tags {
		thePool.seqLabels[tg] = true
	}
	thePool.mu.Unlock()
	if !utf8.Valid(src) {
		out.Labels = append(out.Labels, "invalid-utf8")
	}
	if bytes.IndexByte(src, 0) >= 0 {
		out.Labels = append(out.Labels, "has-NUL")
	}
	if v.status != "crash" {
		return out
	}
	if c.Entry == "server" {
		// the worker process *is* the host here: it died with a crash report
		// while serving the request (a recovered handler panic never gets here)
		out.Fail = &vkit.Failure{Sig: v.crash.Sig, Observed: "entry=server (admin.RunCodeHandler in a worker process): " + v.observed + "\nsource: " + clip(string(src), 400), Expected: expected}
		return out
	}
	cr, found, note := thePool.confirmCLI(c, src)
	if !found {
		thePool.mu.Lock()
		thePool.note("in-process " + v.crash.Sig + " not confirmed by the real binary: " + note)
		thePool.mu.Unlock()
		out.Inconclusive = note
		out.Labels = append(out.Labels, "unconfirmed="+note)
		return out
	}
	out.Fail = &vkit.Failure{Sig: cr.Sig, Observed: fmt.Sprintf("entry=%s: the real binary died: %s\n%s\nsource: %s", c.Entry, cr.Header, clip(cr.Trace, 3000), clip(string(src), 400)), Expected: expected}
	return out
}

func TestC07(t *testing.T) {
	defer func() {
		if thePool.w != nil {
			thePool.w.Kill()
		}
	}()
	vkit.Run(t, vkit.Spec[Case]{
		ID:    "C07",
		Level: "exploration",
		Rule: "source texts: (a) 1-10 token-level mutations (delete/duplicate/swap/insert/replace/splice/truncate, dictionary of keywords, punctuation, directives, literals) of 114 corpus files and 20 small programs; " +
			"(b) hostile shapes: 48 nesting forms to depth 1..1.5e6 (balanced and not), huge literals, unterminated constructs, directives in odd places, long chains, each in one of 43 syntactic contexts; (c) raw bytes incl. invalid UTF-8 and NUL; " +
			"each handed to one of run / pipe / test / server under a sampled configuration. (e) call sequences (2-12 calls, incl. misuse, half of it inside try/catch, blocking calls only inside goroutines, one object shared by 2 goroutines) on 1-3 stateful runtime objects: sync.Mutex, sync.RWMutex, sync.WaitGroup, buffered / unbuffered / nil channels, strings.Builder, strings.Reader, tables, sandboxed os.File, maps, labelled by type.method at model state; Non-trivial: not byte-identical to a valid base text and >= 3 tokens; distinct by entry+configuration+text.",
		Assumptions: []string{
			"cases run in a worker process; a crash seen in-process for run/pipe/test is reported only when the real ego binary also dies with a Go crash report on the same text",
			"for the server entry the worker calling admin.RunCodeHandler is the host; a panic of the handler goroutine is recovered by router.ServeHTTP (HTTP 500) and is not a violation",
			"all runs are sandboxed (Context.Sandboxed / --sandbox true) in a scratch HOME, EGO_PATH, TMPDIR and working directory",
			"the time bound (5 s of worker CPU time or of idleness, 60 s wall cap, unless the case carries its own), the 3 GiB RSS watchdog and Go's out-of-memory abort are resource bounds: inconclusive",
			"the console's `help` command and a terminal-attached REPL are not covered in-process",
		},
		Gen:       gen,
		Oracle:    oracle,
		Fixed:     fixed,
		Quick:     700,
		Thorough:  30000,
		MaxRounds: 8,
		Extra: func() map[string]any {
			thePool.mu.Lock()
			defer thePool.mu.Unlock()
			notes := []string{}
			for k, n := range thePool.notes {
				notes = append(notes, fmt.Sprintf("%s (x%d)", k, n))
			}
			sort.Strings(notes)
			seq := []string{}
			for l := range thePool.seqLabels {
				seq = append(seq, l)
			}
			sort.Strings(seq)
			return map[string]any{"seq_labels_seen": seq, "workers_started": thePool.started, "timeouts": thePool.timeouts, "cli_confirmations": thePool.cliRuns, "notes": notes}
		},
	})
}

// FuzzC07 is the native fuzz entry for manual exploration
// (go test -tags verif -overlay … ./c07 -run ^$ -fuzz FuzzC07 -fuzztime 10m).
// It calls the in-process path directly: the fuzz engine's own worker
// processes detect crashes and hangs. Findings are added by hand to
// /verif/replays; the rapid run decides the tier.
func FuzzC07(f *testing.F) {
	loadCorpus()
	for i, n := range corpusNames {
		f.Add([]byte(corpusText[n]), uint8(i))
	}
	for i, p := range smallPrograms {
		f.Add([]byte(p), uint8(i))
	}
	entries := []string{"run", "pipe", "test", "server"}
	f.Fuzz(func(t *testing.T, data []byte, sel uint8) {
		if len(data) > 256<<10 {
			t.Skip()
		}
		wc := wireCase{Entry: entries[int(sel)%4], Cfg: egorun.Config{Types: []string{"dynamic", "relaxed", "strict"}[int(sel/4)%3], Optimize: int(sel/16) % 4, Extensions: true}, Src: data}
		done := make(chan Res, 1)
		go func() { done <- runCase(wc) }()
		select {
		case r := <-done:
			if r.Phase == "go-panic" {
				t.Fatalf("Go panic at %s: %s\n%s", workerproc.PanicSite(r.Stack), r.GoPanic, r.Stack)
			}
		case <-time.After(5 * time.Second):
			t.Skip("timeout") // the goroutine is abandoned; the engine recycles the worker
		}
	})
}
