package c07

import (
	"fmt"
	"strings"

	"pgregory.net/rapid"
)

// Class "sem": programs that are syntactically valid by construction and
// hostile in their *values*: every operator, conversion, index/slice form,
// builtin and runtime-package function applied to boundary values of every
// type. Each statement is wrapped in try/catch so that an Ego error in one
// does not end the program before the next. This is the value-level analogue
// of the token mutations (the MATH-*/INDEX-*/NILPTR-* audit entries are all
// of this kind).

const semImports = "import (\n\t\"base64\"\n\t\"cmplx\"\n\t\"errors\"\n\t\"fmt\"\n\t\"i18n\"\n\t\"json\"\n\t\"math\"\n\t\"reflect\"\n\t\"sort\"\n\t\"strconv\"\n\t\"strings\"\n\t\"sync\"\n\t\"time\"\n\t\"util\"\n\t\"uuid\"\n)\n"

const semPrelude = semImports + `type S struct {
	a int
	b string
	c []int
}
func (s S) String() string { return "S" + s.b }
func (s *S) Set(v int) { s.a = v }
func id(x any) any { return x }
func two() (int, error) { return 1, nil }
func use(a ...any) {}
`

var semDecls = []string{
	"var i8 int8 = -128", "var i16 int16 = 32767", "var i32 int32 = -2147483648", "var i64 int64 = 9223372036854775807", "var i int = -1", "var z int = 0",
	"var u8 byte = 255", "var f32 float32 = 1.5", "var f64 float64 = -0.0", "var b bool = true", "var s string = \"héllo, wörld\"", "var e string = \"\"",
	"var r = 'x'", "var ai = []int{3, 1, 2}", "var ab = []byte{1, 2, 255}", "var as = []string{\"b\", \"a\"}", "var aa = [][]int{{1}, {}}", "var an = []any{1, \"a\", nil, 2.5}",
	"var ae []int", "var m = map[string]int{\"a\": 1}", "var mi = map[int]string{1: \"a\"}", "var mn map[string]int", "var st = S{a: 1, b: \"x\", c: []int{1}}", "var ps = &st",
	"var pn *S", "var pi = &i", "var fn = func(x int) int { return x + 1 }", "var ch = make(chan, 2)", "var er = errors.New(\"e\")", "var nl any = nil", "var c128 = complex(1.0, -2.0)",
	"var wg sync.WaitGroup", "var mu sync.Mutex", "var sb strings.Builder", "var tm = time.Now()", "var du = time.Duration(1500)",
}

var semVars = []string{"i8", "i16", "i32", "i64", "i", "z", "u8", "f32", "f64", "b", "s", "e", "r", "ai", "ab", "as", "aa", "an", "ae", "m", "mi", "mn", "st", "ps", "pn", "pi", "fn", "ch", "er", "nl", "c128", "wg", "mu", "sb", "tm", "du"}

var semLits = []string{
	"0", "1", "-1", "2", "63", "64", "65", "127", "128", "255", "256", "-129", "32768", "2147483648", "9223372036854775807", "-9223372036854775807 - 1", "1 << 62", "1e308", "1e-320", "0.1", "-0.0",
	"\"\"", "\"a\"", "\"abc\"", "\"%d %s %v %5.2f %x %q %*d %[3]d %!\"", "\"\\u00e9\\U0001F600\"", "\"\\x00\"", "\"9223372036854775808\"", "\"1e400\"", "\"-0x1p-2\"", "\"{\\\"a\\\":[1,{\\\"b\\\":null}]}\"", "\"[\"", "\"2006-01-02\"", "\"1h\"",
	"'a'", "'\\n'", "true", "false", "nil", "[]int{}", "[]int{1, 2, 3}", "[]byte{}", "[]string{}", "[]any{}", "[]any{[]any{nil}}", "map[string]int{}", "map[string]any{\"a\": []int{1}}", "S{}", "&S{}",
	"struct{ x int }{x: 1}", "func() {}", "func(a, b int) bool { return a < b }", "func(a ...int) int { return len(a) }", "int", "string", "[]int", "error", "S",
}

var semTypes = []string{"int", "int8", "int16", "int32", "int64", "byte", "uint", "uint16", "uint32", "uint64", "float32", "float64", "bool", "string", "any", "complex128", "rune", "[]int", "[]byte", "[]string", "[]any", "map[string]int", "*int", "*S", "S", "error", "chan", "func(int) int", "interface{}", "struct{}"}

var semBin = []string{"+", "-", "*", "/", "%", "&", "|", "<<", ">>", "==", "!=", "<", "<=", ">", ">=", "&&", "||"}

var semFuncs = []string{
	"len", "append", "make", "new", "delete", "typeof", "cap", "copy", "min", "max", "close", "index", "complex", "real", "imag", "panic", "recover", "id", "two", "fn",
	"strings.Chars", "strings.Compare", "strings.Contains", "strings.ContainsAny", "strings.ContainsRune", "strings.Count", "strings.Cut", "strings.CutPrefix", "strings.EqualFold", "strings.Fields", "strings.Format",
	"strings.HasPrefix", "strings.Index", "strings.IndexAny", "strings.IndexByte", "strings.IndexRune", "strings.Ints", "strings.Join", "strings.LastIndex", "strings.Left", "strings.Length", "strings.NewReader", "strings.Repeat",
	"strings.Replace", "strings.ReplaceAll", "strings.Right", "strings.Split", "strings.SplitAfterN", "strings.SplitN", "strings.Substring", "strings.Template", "strings.Title", "strings.ToLower", "strings.ToUpper", "strings.ToValidUTF8",
	"strings.Tokenize", "strings.Trim", "strings.TrimLeft", "strings.TrimPrefix", "strings.TrimSpace", "strings.Truncate", "strings.URLPattern",
	"math.Abs", "math.Sqrt", "math.Pow", "math.Floor", "math.Ceil", "math.Log", "math.Max", "math.Min", "math.Mod", "math.Inf", "math.NaN", "math.IsNaN", "math.Normalize", "math.Random", "math.Remainder", "math.Sum", "math.Factor", "math.Primes", "math.Trunc", "math.Round",
	"strconv.Atoi", "strconv.FormatBool", "strconv.FormatFloat", "strconv.FormatInt", "strconv.FormatUint", "strconv.FormatComplex", "strconv.Itoa", "strconv.Itor", "strconv.ParseBool", "strconv.ParseComplex", "strconv.ParseFloat", "strconv.ParseInt", "strconv.ParseUint",
	"strconv.Quote", "strconv.QuoteRune", "strconv.QuoteToASCII", "strconv.Rtoi", "strconv.Unquote", "strconv.IsPrint", "strconv.CanBackquote",
	"sort.Bytes", "sort.Float64s", "sort.Float32s", "sort.Int32s", "sort.Int64s", "sort.Ints", "sort.IntsAreSorted", "sort.IsSorted", "sort.Search", "sort.SearchInts", "sort.SearchStrings", "sort.SearchFloat64s", "sort.Slice", "sort.SliceStable", "sort.Sort", "sort.Stable", "sort.Strings",
	"fmt.Sprintf", "fmt.Sprint", "fmt.Sscanf", "fmt.Println", "fmt.Printf", "fmt.Print",
	"json.Marshal", "json.MarshalIndent", "json.Parse", "json.Unmarshal",
	"reflect.DeepCopy", "reflect.InstanceOf", "reflect.Members", "reflect.Reflect", "reflect.String", "reflect.Type",
	"time.Date", "time.FixedZone", "time.LoadLocation", "time.Now", "time.Parse", "time.ParseAny", "time.ParseDuration", "time.Since", "time.Unix", "time.Duration",
	"errors.New", "errors.Is", "errors.Unwrap", "uuid.New", "uuid.Nil", "uuid.Parse", "uuid.Gibberish", "base64.Decode", "base64.Encode", "cmplx.Polar", "cmplx.Pow", "cmplx.Rect", "cmplx.IsNaN", "cmplx.Inf",
	"i18n.T", "i18n.Format", "i18n.Language", "util.Mode", "util.Symbols", "util.Packages", "util.Package", "util.Memory", "util.SymbolTables",
}

var semMethods = []string{
	"String", "Set", "Error", "Is", "Unwrap", "Context", "In", "At", "Code", "Add", "Done", "Wait", "Lock", "Unlock", "TryLock", "RLock", "RUnlock", "Grow", "Len", "Cap", "Reset", "Write", "WriteByte", "WriteRune", "WriteString", "Read",
	"Format", "Sub", "Before", "After", "Equal", "Unix", "Hour", "Month", "Weekday", "Clock", "Date", "Hours", "Seconds", "Milliseconds", "Nanoseconds", "Minutes", "SleepUntil", "a", "b", "c", "p", "x", "Missing",
}

// semSigs gives, for the functions whose parameters have a fixed shape, the
// kinds expected (s string, n integer, f float, b bool, a array, m map,
// c complex, F function value, t time, d duration, x anything). Three calls in
// four are generated with arguments of these kinds, so that the call gets
// past ego's argument checks and the *values* reach the native function.
var semSigs = map[string]string{
	"strings.Repeat": "sn", "strings.Index": "ss", "strings.Left": "sn", "strings.Right": "sn", "strings.Substring": "snn", "strings.Truncate": "sn", "strings.Split": "ss",
	"strings.SplitN": "ssn", "strings.SplitAfterN": "ssn", "strings.Replace": "sssn", "strings.ReplaceAll": "sss", "strings.Join": "as", "strings.Fields": "s", "strings.Title": "s",
	"strings.Chars": "s", "strings.Ints": "s", "strings.Format": "sx", "strings.Template": "sx", "strings.Tokenize": "s", "strings.TrimLeft": "ss", "strings.Trim": "ss", "strings.IndexByte": "sn",
	"strings.IndexRune": "sn", "strings.ContainsRune": "sn", "strings.Count": "ss", "strings.Compare": "ss", "strings.ToValidUTF8": "ss", "strings.URLPattern": "ss", "strings.Length": "s",
	"strings.Cut": "ss", "strings.CutPrefix": "ss", "strings.EqualFold": "ss", "strings.LastIndex": "ss", "strings.IndexAny": "ss", "strings.HasPrefix": "ss", "strings.NewReader": "s",
	"strings.ToLower": "s", "strings.ToUpper": "s", "strings.TrimSpace": "s", "strings.TrimPrefix": "ss", "strings.Contains": "ss", "strings.ContainsAny": "ss",
	"strconv.Itoa": "n", "strconv.Atoi": "s", "strconv.FormatInt": "nn", "strconv.FormatUint": "nn", "strconv.FormatFloat": "fnnn", "strconv.ParseInt": "snn", "strconv.ParseUint": "snn",
	"strconv.ParseFloat": "sn", "strconv.Quote": "s", "strconv.Unquote": "s", "strconv.QuoteRune": "n", "strconv.QuoteToASCII": "s", "strconv.Itor": "n", "strconv.Rtoi": "s", "strconv.FormatBool": "b",
	"strconv.ParseBool": "s", "strconv.ParseComplex": "sn", "strconv.FormatComplex": "cnnn", "strconv.IsPrint": "n", "strconv.CanBackquote": "s",
	"math.Abs": "f", "math.Sqrt": "f", "math.Pow": "ff", "math.Floor": "f", "math.Ceil": "f", "math.Log": "f", "math.Mod": "ff", "math.Max": "nn", "math.Min": "ff", "math.Sum": "nnn", "math.Factor": "n",
	"math.Primes": "n", "math.Random": "n", "math.Normalize": "nf", "math.Remainder": "ff", "math.Inf": "n", "math.IsNaN": "f", "math.Trunc": "f", "math.Round": "f",
	"sort.Ints": "a", "sort.Strings": "a", "sort.Float64s": "a", "sort.Bytes": "a", "sort.Int32s": "a", "sort.Int64s": "a", "sort.Float32s": "a", "sort.Slice": "aF", "sort.SliceStable": "aF", "sort.Search": "nF",
	"sort.SearchInts": "an", "sort.SearchStrings": "as", "sort.SearchFloat64s": "af", "sort.Sort": "a", "sort.Stable": "a", "sort.IsSorted": "a", "sort.IntsAreSorted": "a",
	"fmt.Sprintf": "sxx", "fmt.Sscanf": "ssx", "fmt.Printf": "sxx", "json.Marshal": "x", "json.MarshalIndent": "xss", "json.Unmarshal": "sx", "json.Parse": "ss",
	"time.Date": "nnnnnnnx", "time.Unix": "nn", "time.Parse": "ss", "time.ParseAny": "s", "time.ParseDuration": "s", "time.FixedZone": "sn", "time.LoadLocation": "s", "time.Duration": "n", "time.Since": "t",
	"base64.Decode": "s", "base64.Encode": "s", "uuid.Parse": "s", "uuid.Gibberish": "x", "cmplx.Polar": "c", "cmplx.Pow": "cc", "cmplx.Rect": "ff", "cmplx.IsNaN": "c",
	"reflect.DeepCopy": "xn", "reflect.Members": "x", "reflect.Reflect": "x", "reflect.Type": "x", "reflect.String": "x", "reflect.InstanceOf": "x", "errors.New": "s", "errors.Is": "xx", "errors.Unwrap": "x",
	"i18n.T": "sx", "i18n.Format": "sx", "util.Symbols": "x", "util.Package": "s",
	"len": "x", "append": "ax", "index": "xx", "copy": "aa", "min": "nn", "max": "nn", "delete": "mx", "close": "x", "cap": "a", "complex": "ff", "real": "c", "imag": "c", "typeof": "x", "id": "x", "fn": "n",
}

// typed method calls on the declared variables: receiver, method, parameter kinds
var semTypedMethods = [][3]string{
	{"sb", "Grow", "n"}, {"sb", "WriteString", "s"}, {"sb", "WriteByte", "n"}, {"sb", "WriteRune", "n"}, {"sb", "Write", "a"}, {"sb", "String", ""}, {"sb", "Len", ""}, {"sb", "Reset", ""}, {"sb", "Cap", ""},
	{"tm", "Add", "d"}, {"tm", "Format", "s"}, {"tm", "Sub", "t"}, {"tm", "Before", "t"}, {"tm", "Equal", "t"}, {"tm", "Unix", ""}, {"tm", "Month", ""}, {"tm", "Weekday", ""}, {"tm", "Clock", ""}, {"tm", "Date", ""},
	{"tm", "SleepUntil", ""}, {"du", "String", ""}, {"du", "Hours", ""}, {"du", "Seconds", ""}, {"du", "Milliseconds", ""}, {"wg", "Add", "n"}, {"wg", "Done", ""}, {"mu", "Lock", ""}, {"mu", "Unlock", ""},
	{"mu", "TryLock", ""}, {"st", "Set", "n"}, {"ps", "Set", "n"}, {"pn", "Set", "n"}, {"st", "String", ""}, {"er", "Error", ""}, {"er", "Is", "x"}, {"er", "Unwrap", ""}, {"er", "Context", "x"},
	{"strings.NewReader(s)", "Read", "a"}, {"time.Now()", "Add", "d"}, {"time.Unix(i64, i64)", "Format", "s"}, {"uuid.New()", "String", ""},
}

var semKindAtoms = map[byte][]string{
	's': {"s", "e", "\"\"", "\"a\"", "\"abc\"", "\"%d %s %v %5.2f %x %q %*d %[3]d %!\"", "\"\\u00e9\\U0001F600\"", "\"\\x00\"", "\"9223372036854775808\"", "\"1e400\"", "\"-0x1p-2\"", "\"{\\\"a\\\":[1,{\\\"b\\\":null}]}\"", "\"[\"", "\"2006-01-02\"", "\"1h\"", "\"{{.}}\"", "\"{{\"", "\"%\"", "\"\\xff\"", "string(ab)", "fmt.Sprint(an)", "strings.Repeat(s, 100)"},
	'n': {"i8", "i16", "i32", "i64", "i", "z", "u8", "r", "0", "1", "-1", "2", "36", "37", "63", "64", "65", "127", "128", "255", "256", "-129", "32768", "2147483648", "9223372036854775807", "-9223372036854775807 - 1", "1 << 62", "len(s)", "-i64", "'a'"},
	'f': {"f32", "f64", "0.0", "-0.0", "0.1", "1e308", "1e-320", "-1.5", "math.Inf(1)", "math.NaN()", "float64(i64)", "i", "z"},
	'b': {"b", "true", "false", "!b"},
	'a': {"ai", "ab", "as", "aa", "an", "ae", "[]int{}", "[]int{1, 2, 3}", "[]byte{}", "[]string{}", "[]any{}", "[]any{[]any{nil}}", "[]float64{2.5, 1.5}", "ai[1:]", "ab[:0]", "make([]int, 3)"},
	'm': {"m", "mi", "mn", "map[string]int{}", "map[string]any{\"a\": []int{1}}"},
	'c': {"c128", "complex(0.0, 0.0)", "complex(1e308, 1e308)", "cmplx.Inf()"},
	'F': {"fn", "func(a, b int) bool { return a < b }", "func(a int) bool { return a > 1 }", "func(a int, b int) bool { return ai[a] < ai[b] }", "func() {}", "func(a ...int) int { return len(a) }", "func(a, b int) bool { panic(\"cmp\") }", "func(a, b int) int { return a / z }"},
	't': {"tm", "time.Now()", "time.Unix(0, 0)", "time.Unix(i64, i64)"},
	'd': {"du", "time.Duration(0)", "time.Duration(i64)", "time.Duration(-1)"},
}

// genSemArg produces an argument of the given kind: mostly a value of that
// kind, sometimes any expression.
func genSemArg(t *rapid.T, kind byte, depth int) string {
	pool := semKindAtoms[kind]
	if pool == nil || rapid.IntRange(0, 4).Draw(t, "wild") == 0 {
		return genSemExpr(t, depth)
	}
	return pool[rapid.IntRange(0, len(pool)-1).Draw(t, "typed")]
}

func genSemExpr(t *rapid.T, depth int) string {
	atom := func() string {
		switch rapid.IntRange(0, 2).Draw(t, "atom") {
		case 0:
			return semVars[rapid.IntRange(0, len(semVars)-1).Draw(t, "var")]
		default:
			return semLits[rapid.IntRange(0, len(semLits)-1).Draw(t, "lit")]
		}
	}
	if depth <= 0 {
		return atom()
	}
	sub := func() string { return genSemExpr(t, depth-1) }
	switch rapid.IntRange(0, 18).Draw(t, "form") {
	case 0:
		return atom()
	case 1:
		return rapid.SampledFrom([]string{"-", "-", "!", "*", "&", "<-"}).Draw(t, "un") + "(" + sub() + ")"
	case 2, 3:
		return "(" + sub() + " " + semBin[rapid.IntRange(0, len(semBin)-1).Draw(t, "bin")] + " " + sub() + ")"
	case 4:
		return sub() + "[" + sub() + "]"
	case 5:
		switch rapid.IntRange(0, 3).Draw(t, "sl") {
		case 0:
			return sub() + "[" + sub() + ":]"
		case 1:
			return sub() + "[:" + sub() + "]"
		case 2:
			return sub() + "[:]"
		default:
			return sub() + "[" + sub() + ":" + sub() + "]"
		}
	case 6:
		// conversions: the simple type names (the first 17 entries)
		return semTypes[rapid.IntRange(0, 16).Draw(t, "type")] + "(" + sub() + ")"
	case 7:
		return sub() + ".(" + semTypes[rapid.IntRange(0, len(semTypes)-1).Draw(t, "type")] + ")"
	case 8:
		return sub() + "." + semMethods[rapid.IntRange(0, len(semMethods)-1).Draw(t, "member")]
	case 9:
		n := rapid.IntRange(0, 3).Draw(t, "argc")
		args := make([]string, n)
		for i := range args {
			args[i] = sub()
		}
		return sub() + "." + semMethods[rapid.IntRange(0, len(semMethods)-1).Draw(t, "method")] + "(" + strings.Join(args, ", ") + ")"
	case 10:
		ty := semTypes[rapid.IntRange(0, len(semTypes)-1).Draw(t, "type")]
		switch rapid.IntRange(0, 2).Draw(t, "mk") {
		case 0:
			return "make(" + ty + ", " + sub() + ")"
		case 1:
			return "make(" + ty + ", " + sub() + ", " + sub() + ")"
		default:
			return "new(" + ty + ")"
		}
	case 11, 12:
		// a typed method call on one of the declared values
		m := semTypedMethods[rapid.IntRange(0, len(semTypedMethods)-1).Draw(t, "tmethod")]
		args := make([]string, len(m[2]))
		for i := range args {
			args[i] = genSemArg(t, m[2][i], depth-1)
		}
		return m[0] + "." + m[1] + "(" + strings.Join(args, ", ") + ")"
	default:
		f := semFuncs[rapid.IntRange(0, len(semFuncs)-1).Draw(t, "func")]
		if sig, ok := semSigs[f]; ok && rapid.IntRange(0, 3).Draw(t, "typedcall") != 0 {
			args := make([]string, len(sig))
			for i := range args {
				args[i] = genSemArg(t, sig[i], depth-1)
			}
			return f + "(" + strings.Join(args, ", ") + ")"
		}
		n := rapid.IntRange(0, 4).Draw(t, "argc")
		args := make([]string, n)
		for i := range args {
			args[i] = sub()
		}
		s := f + "(" + strings.Join(args, ", ")
		if n > 0 && rapid.IntRange(0, 9).Draw(t, "spread") == 0 {
			s += "..."
		}
		return s + ")"
	}
}

func genSemStmt(t *rapid.T) string {
	e := func() string { return genSemExpr(t, rapid.IntRange(0, 3).Draw(t, "depth")) }
	v := func() string { return semVars[rapid.IntRange(0, len(semVars)-1).Draw(t, "lhs")] }
	switch rapid.IntRange(0, 17).Draw(t, "stmt") {
	case 0, 1, 2, 3, 4:
		return "fmt.Println(" + e() + ")"
	case 5:
		return v() + " = " + e()
	case 6:
		return v() + " " + rapid.SampledFrom([]string{"+=", "-=", "*=", "/=", "%=", "<<=", ">>=", "&=", "|=", "^="}).Draw(t, "aop") + " " + e()
	case 7:
		return v() + rapid.SampledFrom([]string{"++", "--"}).Draw(t, "inc")
	case 8:
		return v() + "[" + e() + "] = " + e()
	case 9:
		return v() + "." + semMethods[rapid.IntRange(0, len(semMethods)-1).Draw(t, "fld")] + " = " + e()
	case 10:
		return "for k, v := range " + e() + " {\n\t\t\tfmt.Println(k, v)\n\t\t}"
	case 11:
		return "switch x := " + e() + ".(type) {\n\t\tcase int:\n\t\t\tfmt.Println(x + 1)\n\t\tcase string, []int:\n\t\t\tfmt.Println(x)\n\t\tdefault:\n\t\t\tfmt.Println(typeof(x))\n\t\t}"
	case 12:
		return "x, ok := " + e() + "\n\t\tfmt.Println(x, ok)"
	case 13:
		return "ch <- " + e() + "\n\t\tfmt.Println(<-ch)"
	case 14:
		return "wg.Add(1)\n\t\tgo func(a any) {\n\t\t\tdefer wg.Done()\n\t\t\tfmt.Println(" + e() + ", a)\n\t\t}(" + e() + ")\n\t\twg.Wait()"
	case 15:
		return "func() {\n\t\t\tdefer func() { fmt.Println(recover()) }()\n\t\t\tfmt.Println(" + e() + ")\n\t\t}()"
	case 16:
		return "*" + rapid.SampledFrom([]string{"pi", "ps", "pn"}).Draw(t, "ptr") + " = " + e()
	default:
		return "x := " + e() + "\n\t\ty := x\n\t\tfmt.Println(x == y, typeof(x), len(fmt.Sprint(x)))"
	}
}

func genSem(t *rapid.T) Case {
	c := Case{Entry: genEntry(t), Cfg: genCfg(t), Class: "sem/stmts"}
	c.Cfg.Extensions = true // try/catch is an extension
	var b strings.Builder
	// a random subset of declarations is dropped now and then (undefined names)
	decls := func(indent string) {
		for _, d := range semDecls {
			b.WriteString(indent + d + "\n")
		}
		b.WriteString(indent + "use(" + strings.Join(semVars, ", ") + ")\n")
	}
	n := rapid.IntRange(1, 8).Draw(t, "nstmt")
	body := func(indent string) {
		for i := 0; i < n; i++ {
			st := genSemStmt(t)
			if rapid.IntRange(0, 7).Draw(t, "notry") == 0 {
				fmt.Fprintf(&b, "%s%s\n", indent, st)
			} else {
				fmt.Fprintf(&b, "%stry {\n%s\t%s\n%s} catch (e) {\n%s\tfmt.Println(\"E\", e)\n%s}\n", indent, indent, st, indent, indent, indent)
			}
		}
	}
	switch c.Entry {
	case "test":
		b.WriteString(semPrelude)
		b.WriteString("@test \"sem\"\n{\n")
		decls("\t")
		body("\t")
		b.WriteString("}\n")
	case "run":
		b.WriteString("package main\n" + semPrelude + "func main() {\n")
		decls("\t")
		body("\t")
		b.WriteString("}\n")
	default:
		b.WriteString(semPrelude)
		decls("")
		body("")
	}
	c.Segs = []Seg{{S: b.String()}}
	return c
}
