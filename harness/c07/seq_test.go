package c07

import (
	"fmt"
	"strconv"
	"strings"

	"pgregory.net/rapid"
)

// Class "seq": programs that drive STATEFUL runtime objects through call
// sequences, including misuse. Go ends the process (unrecoverably, or with a
// panic) on unlock of an unlocked Mutex/RWMutex, RUnlock without RLock, a
// negative WaitGroup counter, WaitGroup reuse, close of a closed or nil
// channel, send on a closed channel, concurrent map writes; ego has to keep
// its own bookkeeping per object to turn each of these into an Ego error. A
// single hostile call (class "sem") never reaches the states in which that
// bookkeeping can be wrong; a sequence does (e.g. Lock, failed TryRLock,
// Unlock, RUnlock).
//
// The generator keeps a small model per object (lock held, reader count,
// WaitGroup counter, channel open / fill) for two purposes only: calls that
// would block for ever in the main flow (Lock on a held mutex, receive on an
// empty open channel, Wait with a positive counter, any operation on a nil
// channel) are generated rarely and then inside `go func() { … }()`, so the
// program still ends; and every call is labelled with (type, method, model
// state at the call). The model is never used as an oracle: the verdict is
// the usual one (the host process died with a Go crash report).

type seqObj struct {
	kind string // mu rw wg ch chn sb rd tb fl mp
	name string
	// model
	locked    bool // mu / rw writer
	readers   int  // rw
	counter   int  // wg
	open      bool // ch, fl, tb
	fill, cap int  // ch
	uncertain bool // a blocked goroutine or a concurrent script may have changed the state
	failedTry string
	waited    bool
}

type seqGen struct {
	t    *rapid.T
	objs []*seqObj
	body []string
	tags map[string]bool
	n    int
	// exact: the current object's model knows precisely which calls are
	// errors (sync types, channels); ended: an unguarded misuse was emitted
	exact, ended bool
}

func (g *seqGen) tag(o *seqObj, method, state string, misuse bool) {
	if g.ended {
		return
	}
	s := "seq " + o.kind + "." + method + " " + state
	if o.uncertain {
		s += " uncertain"
	}
	if misuse {
		s += " MISUSE"
	}
	g.tags[s] = true
}

// emit adds one call. blocking: the call cannot return in the modelled state.
// misuse: Go would panic / abort without ego's guard.
func (g *seqGen) emit(stmt string, blocking, misuse bool) {
	if g.ended {
		return
	}
	switch {
	case blocking:
		// timeout-safe shape: the blocked goroutine is abandoned when main ends
		g.body = append(g.body, "go func() {\n\t\t"+strings.ReplaceAll(stmt, "\n", "\n\t\t")+"\n\t}()")
	case misuse && rapid.IntRange(0, 2).Draw(g.t, "try") != 0:
		g.body = append(g.body, "try {\n\t\t"+strings.ReplaceAll(stmt, "\n", "\n\t\t")+"\n\t} catch (e) {\n\t\tfmt.Println(\"E\", e)\n\t}")
	case !misuse && rapid.IntRange(0, 5).Draw(g.t, "try") == 0:
		g.body = append(g.body, "try {\n\t\t"+strings.ReplaceAll(stmt, "\n", "\n\t\t")+"\n\t} catch (e) {\n\t\tfmt.Println(\"E\", e)\n\t}")
	default:
		g.body = append(g.body, stmt)
		// a misuse outside try/catch is reported as an Ego error and ends the
		// program: nothing generated after it would run
		if misuse && g.exact {
			g.ended = true
		}
	}
}

// allowBlock decides whether a call that would block is generated at all
// (rarely), returns true when it should be skipped.
func (g *seqGen) skipBlocking() bool { return rapid.IntRange(0, 9).Draw(g.t, "block") != 0 }

func b2s(b bool) string {
	if b {
		return "1"
	}
	return "0"
}

func rcount(n int) string {
	if n >= 2 {
		return "2+"
	}
	return strconv.Itoa(n)
}

func (g *seqGen) step(o *seqObj) {
	t := g.t
	n := o.name
	pick := func(ms ...string) string { return ms[rapid.IntRange(0, len(ms)-1).Draw(t, "method")] }
	g.exact = o.kind == "mu" || o.kind == "rw" || o.kind == "wg" || o.kind == "ch" || o.kind == "chn"
	switch o.kind {
	case "mu":
		// state-directed choice: while the lock is held the interesting calls
		// are the ones that fail or release; while it is free, acquiring it
		// (2 in 3) or misusing it (1 in 3)
		m := pick("Lock", "Lock", "TryLock", "TryLock", "Unlock", "Unlock")
		if o.locked {
			m = pick("TryLock", "TryLock", "TryLock", "Unlock", "Unlock", "Lock")
		}
		st := "locked=" + b2s(o.locked) + o.failedTry
		switch m {
		case "Lock":
			block := o.locked || o.uncertain
			if block && g.skipBlocking() {
				return
			}
			g.tag(o, m, st, false)
			g.emit(n+".Lock()", block, false)
			if block {
				o.uncertain = true
			} else {
				o.locked = true
			}
		case "Unlock":
			g.tag(o, m, st, !o.locked)
			g.emit(n+".Unlock()", false, !o.locked)
			o.locked = false
		case "TryLock":
			g.tag(o, m, st, false)
			g.emit("fmt.Println("+n+".TryLock())", false, false)
			if o.locked {
				o.failedTry = " afterFailedTryLock"
			} else {
				o.locked = true
			}
		}
	case "rw":
		m := pick("Lock", "Lock", "RLock", "RLock", "TryLock", "TryRLock", "TryRLock", "Unlock", "RUnlock", "RUnlock")
		switch {
		case o.locked:
			m = pick("TryRLock", "TryRLock", "TryRLock", "TryLock", "RUnlock", "RUnlock", "Unlock", "Unlock", "RLock", "Lock")
		case o.readers > 0:
			m = pick("TryLock", "TryLock", "TryRLock", "RLock", "RUnlock", "RUnlock", "RUnlock", "Unlock", "Unlock", "Lock")
		}
		st := "w=" + b2s(o.locked) + " r=" + rcount(o.readers) + o.failedTry
		switch m {
		case "Lock":
			block := o.locked || o.readers > 0 || o.uncertain
			if block && g.skipBlocking() {
				return
			}
			g.tag(o, m, st, false)
			g.emit(n+".Lock()", block, false)
			if block {
				o.uncertain = true
			} else {
				o.locked = true
			}
		case "RLock":
			block := o.locked || o.uncertain
			if block && g.skipBlocking() {
				return
			}
			g.tag(o, m, st, false)
			g.emit(n+".RLock()", block, false)
			if block {
				o.uncertain = true
			} else {
				o.readers++
			}
		case "Unlock":
			g.tag(o, m, st, !o.locked)
			g.emit(n+".Unlock()", false, !o.locked)
			o.locked = false
		case "RUnlock":
			g.tag(o, m, st, o.readers == 0)
			g.emit(n+".RUnlock()", false, o.readers == 0)
			if o.readers > 0 {
				o.readers--
			}
		case "TryLock":
			g.tag(o, m, st, false)
			g.emit("fmt.Println("+n+".TryLock())", false, false)
			if o.locked || o.readers > 0 {
				if !strings.Contains(o.failedTry, "TryLock") {
					o.failedTry += " afterFailedTryLock"
				}
			} else {
				o.locked = true
			}
		case "TryRLock":
			g.tag(o, m, st, false)
			g.emit("fmt.Println("+n+".TryRLock())", false, false)
			if o.locked {
				if !strings.Contains(o.failedTry, "TryRLock") {
					o.failedTry += " afterFailedTryRLock"
				}
			} else {
				o.readers++
			}
		}
	case "wg":
		m := pick("Add", "Add", "Add", "Done", "Wait")
		if o.counter > 0 {
			m = pick("Done", "Done", "Done", "Add", "Wait")
		}
		st := "counter=" + rcount(o.counter)
		if o.waited {
			st += " afterWait"
		}
		switch m {
		case "Add":
			d := rapid.SampledFrom([]int{1, 1, 2, 0, -1, -1, -2}).Draw(t, "delta")
			mis := o.counter+d < 0
			g.tag(o, fmt.Sprintf("Add(%d)", d), st, mis)
			g.emit(fmt.Sprintf("%s.Add(%d)", n, d), false, mis)
			if !mis {
				o.counter += d
			}
		case "Done":
			mis := o.counter == 0
			g.tag(o, m, st, mis)
			g.emit(n+".Done()", false, mis)
			if !mis {
				o.counter--
			}
		case "Wait":
			block := o.counter > 0 || o.uncertain
			if block && g.skipBlocking() {
				return
			}
			g.tag(o, m, st, false)
			g.emit(n+".Wait()", block, false)
			o.waited = true
			if block {
				o.uncertain = true
			}
		}
	case "ch", "chn":
		m := pick("send", "send", "recv", "recv2", "close", "close", "len")
		st := fmt.Sprintf("open=%s fill=%s/%d", b2s(o.open), rcount(o.fill), o.cap)
		if o.kind == "chn" {
			st = "nil"
		}
		switch m {
		case "send":
			block := o.kind == "chn" || (o.open && o.fill >= o.cap) || o.uncertain
			mis := o.kind != "chn" && !o.open
			if block && !mis && g.skipBlocking() {
				return
			}
			g.tag(o, m, st, mis)
			g.emit(n+" <- 7", block && !mis, mis)
			switch {
			case mis:
			case block:
				o.uncertain = true
			default:
				o.fill++
			}
		case "recv", "recv2":
			block := o.kind == "chn" || (o.open && o.fill == 0) || o.uncertain
			if block && g.skipBlocking() {
				return
			}
			g.tag(o, m, st, false)
			g.n++
			v := "v" + strconv.Itoa(g.n)
			if m == "recv" {
				g.emit(v+" := <-"+n+"\nfmt.Println("+v+")", block, false)
			} else {
				g.emit(v+", ok"+v+" := <-"+n+"\nfmt.Println("+v+", ok"+v+")", block, false)
			}
			if block {
				o.uncertain = true
			} else if o.fill > 0 {
				o.fill--
			}
		case "close":
			mis := o.kind == "chn" || !o.open
			g.tag(o, m, st, mis)
			g.emit("close("+n+")", false, mis)
			if o.kind != "chn" {
				o.open = false
			}
		case "len":
			g.tag(o, m, st, false)
			g.emit("fmt.Println(len("+n+"))", false, false)
		}
	case "sb":
		m := pick("WriteString", "WriteByte", "WriteRune", "Grow", "Grow", "Reset", "Len", "String", "Cap", "Write")
		g.tag(o, m, "-", false)
		switch m {
		case "WriteString":
			g.emit(n+".WriteString("+rapid.SampledFrom([]string{"\"abc\"", "\"\"", "strings.Repeat(\"x\", 100000)", "\"\\xff\""}).Draw(t, "arg")+")", false, true)
		case "WriteByte":
			g.emit(n+".WriteByte("+rapid.SampledFrom([]string{"65", "0", "255", "256", "-1"}).Draw(t, "arg")+")", false, true)
		case "WriteRune":
			g.emit(n+".WriteRune("+rapid.SampledFrom([]string{"'a'", "0", "-1", "1114112", "55296"}).Draw(t, "arg")+")", false, true)
		case "Grow":
			g.emit(n+".Grow("+rapid.SampledFrom([]string{"0", "10", "-1", "9223372036854775807", "1 << 40"}).Draw(t, "arg")+")", false, true)
		case "Write":
			g.emit(n+".Write("+rapid.SampledFrom([]string{"[]byte{1, 2}", "[]byte{}", "[]int{1}", "nil"}).Draw(t, "arg")+")", false, true)
		default:
			g.emit("fmt.Println(len(fmt.Sprint("+n+"."+m+"())))", false, true)
		}
	case "rd":
		m := pick("Read", "Read", "ReadBig", "ReadEmpty", "ReadNil")
		g.tag(o, m, "-", false)
		arg := map[string]string{"Read": "make([]byte, 2)", "ReadBig": "make([]byte, 100)", "ReadEmpty": "[]byte{}", "ReadNil": "nil"}[m]
		g.emit("fmt.Println("+n+".Read("+arg+"))", false, true)
	case "tb":
		m := pick("AddRow", "AddRow", "AddRowShort", "AddRowLong", "Sort", "SortBad", "Find", "Len", "Get", "GetRow", "Close", "Close", "AddColumn", "String", "Align", "Pagination")
		st := "open=" + b2s(o.open)
		g.tag(o, m, st, false)
		calls := map[string]string{
			"AddRow": n + ".AddRow(\"a\", 1)", "AddRowShort": n + ".AddRow(\"a\")", "AddRowLong": n + ".AddRow(\"a\", 1, 2, 3)", "Sort": n + ".Sort(\"Name\")", "SortBad": n + ".Sort(\"nope\")",
			"Find": "fmt.Println(" + n + ".Find(func(a string, b string) bool {\n\t_ = b\n\treturn a == \"a\"\n}))", "Len": "fmt.Println(" + n + ".Len())", "Get": "fmt.Println(" + n + ".Get(" + rapid.SampledFrom([]string{"0", "-1", "99"}).Draw(t, "row") + ", \"Name\"))",
			"GetRow": "fmt.Println(" + n + ".GetRow(" + rapid.SampledFrom([]string{"0", "-1", "99"}).Draw(t, "row") + "))", "Close": n + ".Close()", "AddColumn": n + ".AddColumn(\"Extra\")", "String": "fmt.Println(len(" + n + ".String(\"text\")))",
			"Align": n + ".Align(\"Name\", \"left\")", "Pagination": n + ".Pagination(" + rapid.SampledFrom([]string{"0, 0", "-1, -1", "10, 80"}).Draw(t, "pg") + ")",
		}
		g.emit(calls[m], false, true)
		if m == "Close" {
			o.open = false
		}
	case "fl":
		m := pick("WriteString", "Write", "Read", "ReadAt", "ReadAtNeg", "WriteAt", "WriteAtNeg", "Name", "Close", "Close", "Close")
		st := "open=" + b2s(o.open)
		g.tag(o, m, st, false)
		calls := map[string]string{
			"WriteString": "fmt.Println(" + n + ".WriteString(\"abc\"))", "Write": "fmt.Println(" + n + ".Write([]byte{1, 2, 3}))", "Read": "fmt.Println(" + n + ".Read(make([]byte, 4)))",
			"ReadAt": "fmt.Println(" + n + ".ReadAt(make([]byte, 4), 1))", "ReadAtNeg": "fmt.Println(" + n + ".ReadAt(make([]byte, 4), -1))", "WriteAt": "fmt.Println(" + n + ".WriteAt([]byte{9}, 1))",
			"WriteAtNeg": "fmt.Println(" + n + ".WriteAt([]byte{9}, -5))", "Name": "fmt.Println(len(" + n + ".Name()) > 0)", "Close": "fmt.Println(" + n + ".Close())",
		}
		g.emit(calls[m], false, true)
		if m == "Close" {
			o.open = false
		}
	case "mp":
		m := pick("set", "get", "delete", "range-delete", "range-set", "len")
		g.tag(o, m, "-", false)
		calls := map[string]string{
			"set": n + "[\"k" + strconv.Itoa(rapid.IntRange(0, 3).Draw(t, "k")) + "\"] = 1", "get": "fmt.Println(" + n + "[\"k0\"])", "delete": "delete(" + n + ", \"k0\")",
			"range-delete": "for k, _ := range " + n + " {\n\tdelete(" + n + ", k)\n}", "range-set": "for k, _ := range " + n + " {\n\t" + n + "[k+\"x\"] = 2\n\tif len(" + n + ") > 50 {\n\t\tbreak\n\t}\n}", "len": "fmt.Println(len(" + n + "))",
		}
		g.emit(calls[m], false, true)
	}
}

// concurrent emits the same object being used from two goroutines through a
// short fixed script of non-blocking calls, joined by a private WaitGroup.
func (g *seqGen) concurrent(o *seqObj) {
	n := o.name
	var script string
	switch o.kind {
	case "mu":
		script = "for i := 0; i < 20; i++ {\n\t\tif " + n + ".TryLock() {\n\t\t\t" + n + ".Unlock()\n\t\t}\n\t}"
	case "rw":
		script = rapid.SampledFrom([]string{
			"for i := 0; i < 20; i++ {\n\t\tif " + n + ".TryRLock() {\n\t\t\t" + n + ".RUnlock()\n\t\t}\n\t\tif " + n + ".TryLock() {\n\t\t\t" + n + ".Unlock()\n\t\t}\n\t}",
			"for i := 0; i < 20; i++ {\n\t\t" + n + ".TryRLock()\n\t\ttry {\n\t\t\t" + n + ".RUnlock()\n\t\t} catch (e) {\n\t\t\t_ = e\n\t\t}\n\t}",
		}).Draw(g.t, "script")
	case "wg":
		script = "for i := 0; i < 20; i++ {\n\t\t" + n + ".Add(1)\n\t\t" + n + ".Done()\n\t}"
	case "ch":
		if !o.open || o.cap == 0 {
			script = "try {\n\t\tclose(" + n + ")\n\t} catch (e) {\n\t\t_ = e\n\t}"
		} else {
			script = "try {\n\t\t" + n + " <- 1\n\t\tv := <-" + n + "\n\t\t_ = v\n\t} catch (e) {\n\t\t_ = e\n\t}"
		}
	case "sb":
		script = "for i := 0; i < 50; i++ {\n\t\t" + n + ".WriteString(\"ab\")\n\t}"
	case "mp":
		script = "for i := 0; i < 100; i++ {\n\t\t" + n + "[strconv.Itoa(i)] = i\n\t\tdelete(" + n + ", strconv.Itoa(i-1))\n\t}"
	case "tb":
		script = "for i := 0; i < 20; i++ {\n\t\ttry {\n\t\t\t" + n + ".AddRow(\"c\", i)\n\t\t} catch (e) {\n\t\t\t_ = e\n\t\t}\n\t}"
	default:
		return
	}
	g.tags["seq "+o.kind+" concurrent-script x2"] = true
	g.n++
	j := "join" + strconv.Itoa(g.n)
	g.body = append(g.body, fmt.Sprintf("var %s sync.WaitGroup\n\tfor g := 0; g < 2; g++ {\n\t\t%s.Add(1)\n\t\tgo func() {\n\t\t\tdefer %s.Done()\n\t\t\t%s\n\t\t}()\n\t}\n\t%s.Wait()", j, j, j, strings.ReplaceAll(script, "\n", "\n\t\t"), j))
	o.uncertain = o.kind == "mu" || o.kind == "rw" || o.kind == "wg" || o.kind == "ch"
	if o.kind == "ch" && (!o.open || o.cap == 0) {
		o.open, o.uncertain = false, false
	}
}

func genSeq(t *rapid.T) Case {
	c := Case{Entry: genEntry(t), Cfg: genCfg(t), Class: "seq/objects"}
	c.Cfg.Extensions = true
	g := &seqGen{t: t, tags: map[string]bool{}}
	kinds := []string{"mu", "rw", "rw", "wg", "ch", "ch", "chn", "sb", "rd", "tb", "fl", "mp"}
	nobj := rapid.IntRange(1, 3).Draw(t, "nobj")
	var decls []string
	for i := 0; i < nobj; i++ {
		k := kinds[rapid.IntRange(0, len(kinds)-1).Draw(t, "kind")]
		o := &seqObj{kind: k, name: k + strconv.Itoa(i)}
		switch k {
		case "mu":
			decls = append(decls, "var "+o.name+" sync.Mutex")
		case "rw":
			decls = append(decls, "var "+o.name+" sync.RWMutex")
		case "wg":
			decls = append(decls, "var "+o.name+" sync.WaitGroup")
		case "ch":
			o.open = true
			o.cap = rapid.SampledFrom([]int{0, 1, 2, 3}).Draw(t, "cap")
			if o.cap == 0 {
				decls = append(decls, o.name+" := make(chan)")
			} else {
				decls = append(decls, fmt.Sprintf("%s := make(chan, %d)", o.name, o.cap))
			}
		case "chn":
			decls = append(decls, "var "+o.name+" chan")
		case "sb":
			decls = append(decls, "var "+o.name+" strings.Builder")
		case "rd":
			decls = append(decls, o.name+" := strings.NewReader(\"hello\")")
		case "tb":
			o.open = true
			decls = append(decls, o.name+" := tables.New(\"Name\", \"Age\")")
		case "fl":
			o.open = true
			decls = append(decls, o.name+", ferr"+strconv.Itoa(i)+" := os.Create(\"seq"+strconv.Itoa(i)+".txt\")\n\tfmt.Println(ferr"+strconv.Itoa(i)+")")
		case "mp":
			decls = append(decls, o.name+" := map[string]int{\"k0\": 0, \"k1\": 1}")
		}
		g.objs = append(g.objs, o)
	}
	steps := rapid.IntRange(2, 12).Draw(t, "steps")
	for i := 0; i < steps; i++ {
		o := g.objs[rapid.IntRange(0, len(g.objs)-1).Draw(t, "obj")]
		if g.ended {
			break
		}
		if rapid.IntRange(0, 11).Draw(t, "conc") == 0 {
			g.concurrent(o)
			continue
		}
		g.step(o)
	}
	for tg := range g.tags {
		c.Tags = append(c.Tags, tg)
	}
	sortStrings(c.Tags)
	imports := "import (\n\t\"fmt\"\n\t\"os\"\n\t\"strconv\"\n\t\"strings\"\n\t\"sync\"\n\t\"tables\"\n)\n"
	use := "func use(a ...any) {\n\t_ = a\n}\n"
	var names []string
	for _, o := range g.objs {
		names = append(names, o.name)
	}
	body := "\t" + strings.Join(decls, "\n\t") + "\n\tuse(" + strings.Join(names, ", ") + ", strconv.Itoa(1), os.Args)\n\t" + strings.Join(g.body, "\n\t") + "\n\tfmt.Println(\"end\")\n"
	switch c.Entry {
	case "test":
		c.Segs = []Seg{{S: imports + use + "@test \"seq\"\n{\n" + body + "}\n"}}
	case "run":
		c.Segs = []Seg{{S: "package main\n" + imports + use + "func main() {\n" + body + "}\n"}}
	default:
		c.Segs = []Seg{{S: imports + use + body}}
	}
	return c
}

func sortStrings(s []string) {
	for i := 1; i < len(s); i++ {
		for j := i; j > 0 && s[j] < s[j-1]; j-- {
			s[j], s[j-1] = s[j-1], s[j]
		}
	}
}
