#!/usr/bin/env python3
"""Regenerates harness/c07/corpus/ from /repo (run by hand; the result is
committed so that replay files keep meaning the same text).

Rule: every *.ego under /repo/tests and /repo/lib, sorted by path; drop files
that use packages with effects outside the process (exec, os, rest, io, http,
db, sql, tables, filepath, cipher, profile, runtime, util) and files > 12 KiB;
keep every 2nd remaining file. File NNN_<dir>_<name>.ego.
"""
import os, re, sys, shutil
R = "/repo"
out = os.path.join(os.path.dirname(os.path.abspath(__file__)), "corpus")
bad = re.compile(r'\b(exec|os|rest|io|http|db|sql|tables|filepath|cipher|profile|runtime|util)\.')
files = []
for top in ("tests", "lib"):
    for d, _, fs in os.walk(os.path.join(R, top)):
        for f in fs:
            if f.endswith(".ego"):
                files.append(os.path.join(d, f))
files.sort()
keep = []
for p in files:
    t = open(p, encoding="utf-8", errors="replace").read()
    if bad.search(t) or len(t) > 12 * 1024 or "�" in t:
        continue
    keep.append(p)
keep = keep[::2]
shutil.rmtree(out, ignore_errors=True)
os.makedirs(out)
for i, p in enumerate(keep):
    rel = os.path.relpath(p, R).replace("/", "_")
    shutil.copy(p, os.path.join(out, "%03d_%s" % (i, rel)))
print(len(files), "files,", len(keep), "kept")
