// Package egorun compiles and runs Ego source text in-process the way
// `ego run FILE` does (internal/commands/run.go: compiler.New("run"),
// AutoImport(true), Compile, bytecode.NewContext, Run), with the program's
// standard output captured.
package egorun

import (
	"fmt"
	"os"
	"path/filepath"
	"runtime/debug"
	"strconv"
	"strings"
	"sync"
	"sync/atomic"
	"time"

	"github.com/tucats/ego/internal/builtins"
	"github.com/tucats/ego/internal/cli/settings"
	"github.com/tucats/ego/internal/cli/ui"
	"github.com/tucats/ego/internal/defs"
	"github.com/tucats/ego/internal/errors"
	"github.com/tucats/ego/internal/language/bytecode"
	"github.com/tucats/ego/internal/language/compiler"
	"github.com/tucats/ego/internal/language/data"
	"github.com/tucats/ego/internal/language/symbols"
	"github.com/tucats/ego/internal/language/tokenizer"
	"github.com/tucats/ego/internal/runtime/profile"
)

// Config is one execution configuration (the things `ego run` takes from the
// command line or the profile).
type Config struct {
	Types       string `json:"types"`               // dynamic | relaxed | strict
	Optimize    int    `json:"optimize"`            // 0..3
	Registers   bool   `json:"registers,omitempty"` // ego.compiler.registers
	ConstFold   bool   `json:"constfold,omitempty"`
	GlobalCache bool   `json:"globalcache,omitempty"`
	Extensions  bool   `json:"extensions"`
	// EntryPoint: when non-empty, "@entrypoint <name>" is appended as
	// `ego run FILE` does.
	EntryPoint string `json:"entrypoint,omitempty"`
	Sandbox    bool   `json:"sandbox,omitempty"`
}

// Result is the observable outcome of one execution.
type Result struct {
	Stdout     string `json:"stdout"`
	CompileErr string `json:"compile_err,omitempty"`
	RunErr     string `json:"run_err,omitempty"`
	// GoPanic is set when a Go panic escaped compile or run (recovered by the
	// harness). Ego's own panic() builtin surfaces as RunErr, not here.
	GoPanic string `json:"go_panic,omitempty"`
	Stack   string `json:"stack,omitempty"`
	// Exit is set when the program called os.Exit / exit (ErrExit).
	Exit bool `json:"exit,omitempty"`
	// Runaway is set when the harness stopped the program because it had not
	// ended within RunawayAfter (hook H7, Context.VerifStop): an in-process
	// run that loops for ever would otherwise print until memory is gone.
	// Checks report such a run as inconclusive, never as a verdict.
	Runaway bool `json:"runaway,omitempty"`
}

// RunawayAfter bounds one in-process execution (wall clock). Generated
// programs end in milliseconds; the bound is generous so that machine load
// cannot trip it.
var RunawayAfter = 150 * time.Second

// RunawayGrowth bounds how much the resident size of the process may grow
// during one in-process execution.
var RunawayGrowth int64 = 1 << 30

// rssBytes reads the resident set size of this process from /proc.
func rssBytes() int64 {
	b, err := os.ReadFile("/proc/self/statm")
	if err != nil {
		return 0
	}
	f := strings.Fields(string(b))
	if len(f) < 2 {
		return 0
	}
	var pages int64
	fmt.Sscan(f[1], &pages)
	return pages * int64(os.Getpagesize())
}

// Failed reports whether the execution ended in any kind of error.
func (r Result) Failed() bool { return r.CompileErr != "" || r.RunErr != "" || r.GoPanic != "" }

var initOnce sync.Once

// Init prepares process-wide state once: a private, empty profile (so the
// developer's ~/.ego configuration cannot leak into a check) and quiet
// loggers.
func Init() {
	initOnce.Do(func() {
		dir := os.Getenv("VERIF_RUN_DIR")
		if dir == "" {
			dir, _ = os.MkdirTemp("", "egorun")
		}
		home := filepath.Join(dir, fmt.Sprintf("home-%d", os.Getpid()))
		_ = os.MkdirAll(home, 0o755)
		os.Setenv("HOME", home)
		os.Setenv("EGO_PATH", home)
		_ = settings.Load("ego", "default")
		// what `ego run` does in prepareRuntime
		_ = profile.InitProfileDefaults(profile.RuntimeDefaults)
		settings.SetDefault(defs.EgoPathSetting, home)
	})
}

// TypeMode maps a mode name to ego's numeric enforcement level.
func TypeMode(name string) int {
	switch name {
	case "strict":
		return defs.StrictTypeEnforcement
	case "relaxed":
		return defs.RelaxedTypeEnforcement
	default:
		return defs.NoTypeEnforcement
	}
}

// Apply installs the process-global parts of a configuration.
func Apply(cfg Config) {
	settings.SetDefault(defs.OptimizerSetting, strconv.Itoa(cfg.Optimize))
	settings.SetDefault(defs.RegistersSetting, strconv.FormatBool(cfg.Registers || cfg.Optimize > 2))
	settings.SetDefault(defs.ConstFoldSetting, strconv.FormatBool(cfg.ConstFold || cfg.Optimize > 2))
	settings.SetDefault(defs.GlobalCacheSetting, strconv.FormatBool(cfg.GlobalCache || cfg.Optimize > 2))
	settings.SetDefault(defs.ExtensionsEnabledSetting, strconv.FormatBool(cfg.Extensions))
	bytecode.GlobalCacheEnabled = cfg.GlobalCache || cfg.Optimize > 2
}

// NewSymbols builds the symbol table `ego run` would build.
func NewSymbols(cfg Config) *symbols.SymbolTable {
	st := symbols.NewSymbolTable("file verif.ego").Shared(true)
	st.SetGlobalSingleton()
	st.SetAlways(defs.CLIArgumentListVariable, data.NewArrayFromInterfaces(data.StringType))
	st.SetAlways(defs.TypeCheckingVariable, TypeMode(cfg.Types))
	st.SetAlways(defs.ModeVariable, "run")
	builtins.AddBuiltins(st.Root())
	st.Root().SetAlways(defs.MainVariable, defs.Main)
	st.Root().SetAlways(defs.ExtensionsVariable, cfg.Extensions)
	st.Root().SetAlways(defs.UserCodeRunningVariable, true)
	return st
}

// Hooks lets a caller put values into the symbol table before the run and
// read them back afterwards.
type Hooks struct {
	Before func(st *symbols.SymbolTable)
	After  func(st *symbols.SymbolTable, ctx *bytecode.Context)
}

// Run compiles and executes src under cfg. It never panics: a Go panic in
// ego is recovered and reported in Result.GoPanic.
func Run(src string, cfg Config) Result { return RunWith(src, cfg, nil) }

// RunWith is Run with symbol-table hooks.
func RunWith(src string, cfg Config, h *Hooks) (res Result) {
	Init()
	Apply(cfg)
	defer func() {
		if p := recover(); p != nil {
			res.GoPanic = fmt.Sprint(p)
			res.Stack = string(debug.Stack())
		}
	}()
	ui.Active(ui.TraceLogger, false)
	st := NewSymbols(cfg)
	if h != nil && h.Before != nil {
		h.Before(st)
	}
	text := src
	if cfg.EntryPoint != "" {
		text = text + "\n@entrypoint " + cfg.EntryPoint
	}
	comp := compiler.New("run").
		SetNormalization(settings.GetBool(defs.CaseNormalizedSetting)).
		SetExitEnabled(false).
		SetRoot(&symbols.RootSymbolTable).
		SetInteractive(false)
	_ = comp.AutoImport(true, st)
	t := tokenizer.New(text, true)
	comp.Fragment(true)
	b, err := comp.Compile("main 'verif.ego'", t)
	if !errors.Nil(err) {
		res.CompileErr = err.Error()
		return res
	}
	if b == nil {
		return res
	}
	t.Close()
	ctx := bytecode.NewContext(st, b).SetTokenizer(t).SetFullSymbolScope(false)
	ctx.EnableConsoleOutput(false)
	if cfg.Sandbox {
		ctx.Sandboxed(true)
	}
	finished := make(chan struct{})
	var runaway atomic.Bool
	go func() {
		start, base := time.Now(), rssBytes()
		tick := time.NewTicker(250 * time.Millisecond)
		defer tick.Stop()
		for {
			select {
			case <-finished:
				return
			case <-tick.C:
				// the wall-clock bound, or the process has grown by more
				// than RunawayGrowth since the run began (a loop that
				// prints for ever fills the output buffer)
				if time.Since(start) > RunawayAfter || rssBytes()-base > RunawayGrowth {
					runaway.Store(true)
					ctx.VerifStop()
					return
				}
			}
		}
	}()
	err = ctx.Run()
	close(finished)
	res.Stdout = ctx.GetOutput()
	if runaway.Load() {
		res.Runaway = true
		res.RunErr = fmt.Sprintf("stopped by the harness: the program had not ended after %s or grew the process by more than %d MiB", RunawayAfter, RunawayGrowth>>20)
		if len(res.Stdout) > 1<<16 {
			res.Stdout = res.Stdout[:1<<16]
		}
		return res
	}
	if errors.Equals(err, errors.ErrStop) {
		err = nil
	}
	if err != nil {
		if e, ok := err.(*errors.Error); ok && e.Is(errors.ErrExit) {
			res.Exit = true
		} else {
			res.RunErr = err.Error()
		}
	}
	if err == nil {
		if _, cerr := comp.Close(); cerr != nil {
			res.RunErr = cerr.Error()
		}
	}
	if h != nil && h.After != nil {
		h.After(st, ctx)
	}
	return res
}

// StripPositions removes "at main(line N)"-style location text from a
// message so messages can be compared across runs that differ only in line
// numbers.
func StripPositions(msg string) string {
	out := msg
	for {
		i := strings.Index(out, "at ")
		if i < 0 {
			break
		}
		j := strings.Index(out[i:], ", ")
		if j < 0 {
			break
		}
		out = out[:i] + out[i+j+2:]
	}
	return out
}
