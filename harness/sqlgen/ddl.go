package sqlgen

import (
	"pgregory.net/rapid"
)

var newTableNames = []string{"n1", "N2", "n 3", "tbl$1", "é1", "t1", "n_7", "order"}
var newColNames = []string{"k", "v", "w", "k k", "u_1", "K2", "z$", "Select"}
var newIndexNames = []string{"ix1", "IX2", "ix 3", "i1", "ix_5", "ix6", "é2", "index"}
var newViewNames = []string{"w1", "W2", "w 3", "v1", "w_5", "w6", "é3", "view"}

func (g *gen) ifNotExists() []string {
	if g.p(25) {
		g.feat("if-not-exists")
		return g.kw("if not exists")
	}
	return nil
}

func (g *gen) ifExists() []string {
	if g.p(40) {
		g.feat("if-exists")
		return g.kw("if exists")
	}
	return nil
}

func (g *gen) temp() []string {
	if g.p(15) {
		g.feat("temp")
		return g.kw(g.pick([]string{"temp", "temporary"}))
	}
	return nil
}

func (g *gen) conflictClause() []string {
	if g.p(15) {
		g.feat("constraint-on-conflict")
		return g.kw("on conflict " + g.pick([]string{"rollback", "abort", "fail", "ignore", "replace"}))
	}
	return nil
}

func (g *gen) constraintName() []string {
	if g.p(15) {
		g.feat("constraint-name")
		return tk(g.kw("constraint"), g.id(g.pick([]string{"cn1", "cn 2", "CN3", "cn4", "cn5", "cn6", "cn7", "check"})))
	}
	return nil
}

func (g *gen) typeName() []string {
	switch rapid.IntRange(0, 11).Draw(g.t, "type") {
	case 0:
		return nil
	case 1, 2:
		return tk("INTEGER")
	case 3:
		return tk("TEXT")
	case 4:
		return tk("REAL")
	case 5:
		return tk("int")
	case 6:
		g.feat("type-args")
		return tk("VARCHAR(", "10", ")")
	case 7:
		g.feat("type-args")
		return tk("DECIMAL(", "10", ",", "2", ")")
	case 8:
		g.feat("type-multiword")
		return tk("DOUBLE", "PRECISION")
	case 9:
		return tk("BLOB")
	case 10:
		return tk("Text")
	default:
		return tk("BIGINT")
	}
}

func (g *gen) refActions() []string {
	var out []string
	acts := []string{"cascade", "restrict", "set null", "set default", "no action"}
	if g.p(30) {
		g.feat("fk-on-delete")
		out = tk(out, g.kw("on delete "+g.pick(acts)))
	}
	if g.p(25) {
		g.feat("fk-on-update")
		out = tk(out, g.kw("on update "+g.pick(acts)))
	}
	if g.p(20) {
		g.feat("fk-deferrable")
		out = tk(out, g.kw(g.pick([]string{"deferrable", "not deferrable", "deferrable initially deferred", "deferrable initially immediate", "not deferrable initially immediate"})))
	}
	return out
}

func (g *gen) refTarget() []string {
	if g.p(4) {
		g.feat("fk-quoted-table")
		return tk(g.id("t 9"), "(", "x", ")")
	}
	t := Schema[rapid.IntRange(0, 2).Draw(g.t, "reft")]
	out := tk(g.id(t.Name))
	if g.p(70) {
		out = tk(out, "(", g.id(t.Key), ")")
	}
	return out
}

// columnDef produces "name [type] [constraints]". earlier lists the columns
// already defined (for CHECK / GENERATED expressions); alter restricts the
// constraints to what ALTER TABLE ADD COLUMN accepts on SQLite.
func (g *gen) columnDef(name string, earlier []string, pkAllowed *bool, alter bool) []string {
	out := tk(g.id(name))
	ty := g.typeName()
	out = append(out, ty...)
	n := rapid.SampledFrom([]int{0, 0, 1, 1, 1, 2, 3}).Draw(g.t, "ncons")
	seen := map[int]bool{}
	for i := 0; i < n; i++ {
		k := rapid.IntRange(0, 7).Draw(g.t, "cons")
		if seen[k] {
			continue
		}
		seen[k] = true
		switch k {
		case 0:
			if alter || !*pkAllowed {
				continue
			}
			*pkAllowed = false
			g.feat("col-primary-key")
			out = tk(out, g.constraintName(), g.kw("primary key"))
			dir := rapid.IntRange(0, 3).Draw(g.t, "pkdir")
			if dir == 1 {
				out = append(out, g.kw("asc")...)
			}
			if dir == 2 {
				out = append(out, g.kw("desc")...)
				g.feat("pk-desc")
			}
			if len(ty) == 1 && ty[0] == "INTEGER" && dir != 2 && g.p(35) {
				g.feat("autoincrement")
				out = append(out, g.kw("autoincrement")...)
			}
			out = append(out, g.conflictClause()...)
		case 1:
			if alter {
				continue
			}
			g.feat("col-not-null")
			out = tk(out, g.constraintName(), g.kw("not null"), g.conflictClause())
		case 2:
			if alter {
				continue
			}
			g.feat("col-unique")
			out = tk(out, g.constraintName(), g.kw("unique"), g.conflictClause())
		case 3:
			g.feat("col-check")
			g.pushPos("check")
			sub := g.subq
			g.subq = 0 // no subqueries in CHECK
			out = tk(out, g.constraintName(), g.kw("check"), "(", g.cond(&scope{srcs: []src{{cols: []string{name}}}}, 2), ")")
			g.subq = sub
			g.popPos()
		case 4:
			g.feat("col-default")
			out = append(out, g.kw("default")...)
			switch rapid.IntRange(0, 6).Draw(g.t, "dflt") {
			case 0:
				out = append(out, g.pick([]string{"0", "1", "42", "1.5"}))
			case 1:
				out = append(out, "-", "1")
				g.feat("default-signed")
			case 2:
				out = append(out, "+", "2.5")
				g.feat("default-signed")
			case 3:
				out = append(out, g.pick([]string{"'x'", "'it''s'", "''"}))
			case 4:
				out = append(out, g.kw(g.pick([]string{"null", "true", "false"}))...)
			default:
				g.feat("default-expr")
				sub := g.subq
				g.subq = 0
				out = tk(out, "(", g.expr(&scope{}, 2), ")")
				g.subq = sub
			}
		case 5:
			g.feat("col-collate")
			out = tk(out, g.kw("collate"), g.pick([]string{"nocase", "NOCASE", "binary", "rtrim"}))
		case 6:
			g.feat("col-references")
			out = tk(out, g.constraintName(), g.kw("references"), g.refTarget(), g.refActions())
		case 7:
			if alter || len(earlier) == 0 || seen[4] || seen[0] {
				continue
			}
			seen[4], seen[0] = true, true
			g.feat("col-generated")
			sub := g.subq
			g.subq = 0
			e := g.expr(&scope{srcs: []src{{cols: earlier}}}, 2)
			g.subq = sub
			if g.p(50) {
				out = append(out, g.kw("generated always")...)
			}
			out = tk(out, g.kw("as"), "(", e, ")")
			switch rapid.IntRange(0, 2).Draw(g.t, "stored") {
			case 1:
				out = append(out, g.kw("stored")...)
			case 2:
				out = append(out, g.kw("virtual")...)
			}
		}
	}
	return out
}

func (g *gen) colList(cols []string, mods bool) []string {
	out := tk("(")
	for i, c := range cols {
		if i > 0 {
			out = append(out, ",")
		}
		out = append(out, g.id(c))
		if mods {
			if g.p(15) {
				out = tk(out, g.kw("collate"), g.pick([]string{"nocase", "binary"}))
				g.feat("index-collate")
			}
			switch rapid.IntRange(0, 5).Draw(g.t, "idir") {
			case 1:
				out = append(out, g.kw("asc")...)
			case 2:
				out = append(out, g.kw("desc")...)
				g.feat("index-desc")
			}
		}
	}
	return append(out, ")")
}

func (g *gen) createTable() []string {
	name := g.pick(newTableNames)
	g.objs[name] = true
	out := tk(g.kw("create"), g.temp(), g.kw("table"), g.ifNotExists(), g.id(name))
	if g.p(15) {
		g.feat("create-table-as")
		g.pushPos("create-table-as")
		so := selOpts{allowWith: true}
		if g.portable() {
			// derived column names of unaliased expressions are unspecified
			so.ncols = g.n(1, 3)
			so.aliases = []string{"k0", "k1", "k2"}[:so.ncols]
		}
		sel, _, _ := g.selectStmt(nil, so)
		g.popPos()
		return tk(out, g.kw("as"), sel)
	}
	n := g.n(1, 4)
	var cols []string
	for _, c := range newColNames {
		if len(cols) < n && (g.p(55) || len(newColNames)-len(cols) <= n) {
			cols = append(cols, c)
		}
	}
	if len(cols) == 0 {
		cols = []string{"k"}
	}
	pkAllowed := true
	tablePK := len(cols) >= 1 && g.p(15)
	if tablePK {
		pkAllowed = false
	}
	var items [][]string
	for i, c := range cols {
		items = append(items, g.columnDef(c, cols[:i], &pkAllowed, false))
	}
	hasPK := tablePK || !pkAllowed
	var cons [][]string
	if tablePK {
		g.feat("table-primary-key")
		k := cols[:1]
		if len(cols) > 1 && g.p(40) {
			k = cols[:2]
		}
		cons = append(cons, tk(g.constraintName(), g.kw("primary key"), g.colList(k, true), g.conflictClause()))
	}
	if g.p(15) {
		g.feat("table-unique")
		cons = append(cons, tk(g.constraintName(), g.kw("unique"), g.colList(cols[len(cols)-1:], true), g.conflictClause()))
	}
	if g.p(12) {
		g.feat("table-check")
		g.pushPos("check")
		sub := g.subq
		g.subq = 0
		cons = append(cons, tk(g.constraintName(), g.kw("check"), "(", g.cond(&scope{srcs: []src{{cols: cols}}}, 2), ")"))
		g.subq = sub
		g.popPos()
	}
	if g.p(12) {
		g.feat("table-foreign-key")
		cons = append(cons, tk(g.constraintName(), g.kw("foreign key"), g.colList(cols[:1], false), g.kw("references"), g.refTarget(), g.refActions()))
	}
	if g.pg() && len(cons) > 0 && len(items) > 1 && g.p(30) {
		// PostgreSQL allows a table constraint before a column definition
		g.feat("constraint-before-column")
		items = append(append([][]string{items[0]}, cons[0]), items[1:]...)
		cons = cons[1:]
	}
	items = append(items, cons...)
	out = append(out, "(")
	for i, it := range items {
		if i > 0 {
			out = append(out, ",")
		}
		out = append(out, it...)
	}
	out = append(out, ")")
	if hasPK && !g.feats["autoincrement"] && g.p(20) {
		g.feat("without-rowid")
		out = append(out, g.kw("without rowid")...)
	}
	return out
}

func (g *gen) existingTable() string {
	n := g.pick([]string{"t1", "t2", "t3", "t1", "t2", "nosuch", "v1"})
	g.objs[n] = true
	return n
}

func (g *gen) dropTable() []string {
	out := tk(g.kw("drop table"), g.ifExists(), g.id(g.existingTable()))
	if !g.portable() && g.p(30) {
		g.feat("drop-cascade")
		out = append(out, g.kw(g.pick([]string{"cascade", "restrict"}))...)
	}
	return out
}

func (g *gen) alterTable() []string {
	ti := rapid.IntRange(0, 2).Draw(g.t, "alt")
	t := Schema[ti]
	g.objs[t.Name] = true
	name := g.id(t.Name)
	if !g.pg() && g.p(5) {
		name = "main." + name
		g.feat("schema-qualified-table")
	}
	out := tk(g.kw("alter table"), name)
	switch rapid.IntRange(0, 3).Draw(g.t, "action") {
	case 0:
		g.feat("alter-add")
		out = append(out, g.kw("add")...)
		if g.p(60) {
			out = append(out, g.kw("column")...)
		}
		no := false
		return append(out, g.columnDef(g.pick(newColNames), nil, &no, true)...)
	case 1:
		g.feat("alter-drop-column")
		out = append(out, g.kw("drop")...)
		if g.p(60) {
			out = append(out, g.kw("column")...)
		}
		return append(out, g.id(t.Cols[len(t.Cols)-1]))
	case 2:
		g.feat("alter-rename-table")
		return tk(out, g.kw("rename to"), g.id(g.pick(newTableNames)))
	default:
		g.feat("alter-rename-column")
		out = append(out, g.kw("rename")...)
		if g.p(60) {
			out = append(out, g.kw("column")...)
		}
		return tk(out, g.id(g.pick(t.Cols)), g.kw("to"), g.id(g.pick(newColNames)))
	}
}

func (g *gen) createIndex() []string {
	out := g.kw("create")
	if g.p(30) {
		g.feat("unique-index")
		out = append(out, g.kw("unique")...)
	}
	iname := g.pick(newIndexNames)
	t := Schema[rapid.IntRange(0, 2).Draw(g.t, "itbl")]
	g.objs[iname] = true
	g.objs[t.Name] = true
	out = tk(out, g.kw("index"), g.ifNotExists(), g.id(iname), g.kw("on"), g.id(t.Name))
	sc := &scope{srcs: []src{{cols: t.Cols}}}
	if g.p(15) {
		g.feat("index-expr")
		sub := g.subq
		g.subq = 0
		e := g.exprKind(sc, 2, rapid.SampledFrom([]int{2, 12, 19, 11}).Draw(g.t, "ixe"))
		g.subq = sub
		out = tk(out, "(", e, ")")
	} else {
		n := 1
		if g.p(35) {
			n = 2
		}
		out = append(out, g.colList(t.Cols[len(t.Cols)-n:], true)...)
	}
	if g.p(25) {
		g.feat("index-where")
		g.pushPos("index-where")
		sub := g.subq
		g.subq = 0
		out = tk(out, g.kw("where"), g.cond(sc, 2))
		g.subq = sub
		g.popPos()
	}
	return out
}

func (g *gen) dropIndex() []string {
	n := g.pick([]string{"i1", "i2", "nosuch", "i1"})
	g.objs[n] = true
	for _, ix := range Indexes {
		if ix.Name == n {
			g.objs[ix.Table] = true
		}
	}
	name := g.id(n)
	if !g.pg() && g.p(15) {
		name = "main." + name
		g.feat("schema-qualified-index")
	}
	return tk(g.kw("drop index"), g.ifExists(), name)
}

func (g *gen) createView() []string {
	out := g.kw("create")
	if !g.portable() && g.p(25) {
		g.feat("or-replace")
		out = append(out, g.kw("or replace")...)
	}
	name := g.pick(newViewNames)
	g.objs[name] = true
	out = tk(out, g.temp(), g.kw("view"), g.ifNotExists(), g.id(name))
	nc := 0
	if g.p(30) {
		g.feat("view-cols")
		nc = g.n(1, 2)
		out = append(out, g.colList([]string{"p", "q q"}[:nc], false)...)
	}
	g.pushPos("view")
	so := selOpts{ncols: nc, allowWith: true}
	if nc == 0 && g.portable() {
		so.ncols = g.n(1, 3)
		so.aliases = []string{"k0", "k1", "k2"}[:so.ncols]
	}
	sel, _, _ := g.selectStmt(nil, so)
	g.popPos()
	return tk(out, g.kw("as"), sel)
}

func (g *gen) dropView() []string {
	n := g.pick([]string{"v1", "nosuch", "v1", "t1"})
	g.objs[n] = true
	out := tk(g.kw("drop view"), g.ifExists(), g.id(n))
	if !g.portable() && g.p(30) {
		g.feat("drop-cascade")
		out = append(out, g.kw(g.pick([]string{"cascade", "restrict"}))...)
	}
	return out
}

func (g *gen) txn() []string {
	g.feat("txn")
	sp := g.pick([]string{"sp1", "SP2", "s p", "sp4", "sp5", "sp6", "sp7", "to"})
	switch rapid.IntRange(0, 6).Draw(g.t, "txn") {
	case 0:
		out := g.kw("begin")
		if g.p(40) {
			out = append(out, g.kw(g.pick([]string{"deferred", "immediate", "exclusive"}))...)
		}
		if g.p(50) {
			out = append(out, g.kw(g.pick([]string{"transaction", "work"}))...)
			if g.p(20) {
				out = append(out, g.id("tx1"))
			}
		}
		return out
	case 1:
		return tk(g.kw(g.pick([]string{"commit", "end", "commit transaction", "end work"})))
	case 2:
		return g.kw(g.pick([]string{"rollback", "rollback transaction", "rollback work"}))
	case 3:
		return tk(g.kw(g.pick([]string{"rollback to", "rollback to savepoint", "rollback transaction to savepoint"})), g.id(sp))
	case 4:
		return tk(g.kw("savepoint"), g.id(sp))
	default:
		return tk(g.kw(g.pick([]string{"release", "release savepoint"})), g.id(sp))
	}
}
