package sqlgen

func (g *gen) dmlTarget() *Table {
	i := []int{0, 0, 1, 1, 2, 2, 0, 1}[g.uniform(8)]
	t := &Schema[i]
	g.writes[t.Name] = true
	return t
}

func (g *gen) orAction() []string {
	if !g.p(15) {
		return nil
	}
	a := g.pick([]string{"replace", "ignore", "abort", "fail", "rollback"})
	g.feat("or-" + a)
	return g.kw("or " + a)
}

// targetRef renders the DML target with an optional alias and returns the
// source it makes visible.
func (g *gen) targetRef(t *Table, aliasPct int) ([]string, src) {
	out := tk(g.id(t.Name))
	s := src{qual: t.Name, cols: t.Cols, base: true}
	if g.p(aliasPct) {
		alias := g.newAlias()
		g.feat("dml-alias")
		// SQLite requires AS before the alias of a DML target
		if g.portable() || g.p(70) {
			out = append(out, g.kw("as")...)
		}
		out = append(out, g.id(alias))
		s = src{qual: alias, cols: t.Cols}
	}
	return out, s
}

func (g *gen) returning(sc *scope) []string {
	if !g.p(22) {
		return nil
	}
	g.feat("returning")
	g.pushPos("returning")
	defer g.popPos()
	out := g.kw("returning")
	if g.p(30) {
		return append(out, "*")
	}
	n := g.n(1, 2)
	for i := 0; i < n; i++ {
		if i > 0 {
			out = append(out, ",")
		}
		if g.subq > 0 && g.p(14) {
			out = append(out, g.subquery(sc, 1, "scalar")...)
		} else {
			out = append(out, g.expr(sc, 2).t...)
		}
		if g.p(25) {
			out = tk(out, g.kw("as"), g.id(g.newAlias()))
		}
	}
	return out
}

// valueFor draws a value expression for column col of t; key columns get
// small integers so that conflicts with the seed rows happen.
func (g *gen) valueFor(t *Table, col string, sc *scope) []string {
	if col == t.Key && g.p(85) {
		return tk(g.pick([]string{"1", "2", "6", "7", "8", "9", "11"}))
	}
	return g.expr(sc, 2).t
}

func (g *gen) insertStmt() []string {
	t := g.dmlTarget()
	out := tk(g.kw("insert"), g.orAction(), g.kw("into"))
	ref, ts := g.targetRef(t, 8)
	out = append(out, ref...)
	cols := t.Cols
	withCols := g.p(60)
	if withCols {
		g.feat("insert-cols")
		// a non-empty subset, in order
		var sub []string
		for _, c := range t.Cols {
			if g.p(65) {
				sub = append(sub, c)
			}
		}
		if len(sub) == 0 {
			sub = t.Cols[:1]
		}
		cols = sub
		out = append(out, "(")
		for i, c := range cols {
			if i > 0 {
				out = append(out, ",")
			}
			out = append(out, g.id(c))
		}
		out = append(out, ")")
	}
	src0 := g.uniform(10)
	upsert := g.p(28)
	switch {
	case src0 <= 5:
		g.feat("insert-values")
		g.pushPos("values")
		out = append(out, g.kw("values")...)
		rows := g.n(1, 3)
		for r := 0; r < rows; r++ {
			if r > 0 {
				out = append(out, ",")
			}
			out = append(out, "(")
			for i, c := range cols {
				if i > 0 {
					out = append(out, ",")
				}
				out = append(out, g.valueFor(t, c, &scope{})...)
			}
			out = append(out, ")")
		}
		g.popPos()
	case src0 <= 8 || withCols:
		g.feat("insert-select")
		g.pushPos("insert-select")
		sel, _, _ := g.selectStmt(nil, selOpts{ncols: len(cols), allowWith: true})
		g.popPos()
		if upsert {
			// SQLite needs a WHERE before ON CONFLICT to tell it from a join's ON
			sel = tk(g.kw("select"), "*", g.kw("from"), "(", sel, ")", g.kw("as"), "q", g.kw("where"), g.kw("true"))
		}
		out = append(out, sel...)
	default:
		g.feat("insert-default-values")
		out = append(out, g.kw("default values")...)
	}
	if upsert {
		g.feat("on-conflict")
		g.pushPos("on-conflict")
		out = append(out, g.kw("on conflict")...)
		hasTarget := !g.p(15)
		if hasTarget {
			switch {
			case g.p(4):
				g.feat("conflict-target-collate")
				out = tk(out, "(", g.id(t.Key), g.kw("collate"), "binary", ")")
			case g.p(4):
				g.feat("conflict-target-desc")
				out = tk(out, "(", g.id(t.Key), g.kw("desc"), ")")
			default:
				out = tk(out, "(", g.id(t.Key), ")")
			}
			if g.p(4) {
				g.feat("conflict-target-where")
				out = tk(out, g.kw("where"), g.cond(&scope{srcs: []src{{qual: t.Name, cols: t.Cols}}}, 1))
			}
		}
		if g.p(40) || !hasTarget && !g.p(20) {
			g.feat("do-nothing")
			out = append(out, g.kw("do nothing")...)
		} else {
			g.feat("do-update")
			sc := &scope{srcs: []src{ts, {qual: "excluded", cols: t.Cols}}}
			out = tk(out, g.kw("do update set"), g.setList(t, sc))
			if g.p(35) {
				g.feat("do-update-where")
				if g.subq > 0 && g.p(25) {
					out = tk(out, g.kw("where"), g.kw("exists"), g.subquery(sc, 0, "exists"))
				} else {
					out = tk(out, g.kw("where"), g.cond(sc, 2))
				}
			}
		}
		g.popPos()
	}
	out = append(out, g.returning(&scope{srcs: []src{ts}})...)
	return out
}

// setList produces "col = expr, (c1, c2) = (e1, e2), ...".
func (g *gen) setList(t *Table, sc *scope) []string {
	g.pushPos("set")
	defer g.popPos()
	var out []string
	n := g.n(1, 2)
	nonKey := []string{}
	for _, c := range t.Cols {
		if c != t.Key {
			nonKey = append(nonKey, c)
		}
	}
	used := map[string]bool{}
	for i := 0; i < n; i++ {
		c := g.pick(nonKey)
		if g.p(6) {
			c = t.Key
		}
		if used[c] {
			continue
		}
		used[c] = true
		if len(out) > 0 {
			out = append(out, ",")
		}
		if g.p(12) && len(nonKey) >= 2 && c == nonKey[0] && !used[nonKey[1]] {
			g.feat("set-row-value")
			used[nonKey[1]] = true
			out = tk(out, "(", g.id(nonKey[0]), ",", g.id(nonKey[1]), ")", "=")
			if g.subq > 0 && g.p(40) {
				out = append(out, g.subquery(sc, 2, "row")...)
			} else {
				out = tk(out, "(", g.expr(sc, 1), ",", g.expr(sc, 1), ")")
			}
			continue
		}
		out = tk(out, g.id(c), "=")
		if g.subq > 0 && g.p(18) {
			out = append(out, g.subquery(sc, 1, "scalar")...)
		} else {
			out = append(out, g.expr(sc, 2).t...)
		}
	}
	return out
}

func (g *gen) updateStmt() []string {
	t := g.dmlTarget()
	out := tk(g.kw("update"), g.orAction())
	ref, ts := g.targetRef(t, 12)
	out = append(out, ref...)
	sc := &scope{srcs: []src{ts}}
	var from []string
	if g.p(10) {
		g.feat("update-from")
		g.pushPos("update-from")
		// the target's name is taken, but its columns are not visible inside
		// the FROM clause's own ON conditions
		f, fs, _ := g.joinChain(nil, []src{{qual: ts.qual}}, 1)
		g.popPos()
		from = tk(g.kw("from"), f)
		sc.srcs = append(sc.srcs, fs...)
	}
	out = tk(out, g.kw("set"), g.setList(t, sc), from)
	if g.p(70) {
		g.feat("where")
		g.pushPos("where")
		out = tk(out, g.kw("where"), g.cond(sc, 2))
		g.popPos()
	}
	// RETURNING sees the target table only
	out = append(out, g.returning(&scope{srcs: []src{ts}})...)
	return out
}

func (g *gen) deleteStmt() []string {
	t := g.dmlTarget()
	out := g.kw("delete from")
	ref, ts := g.targetRef(t, 12)
	out = append(out, ref...)
	sc := &scope{srcs: []src{ts}}
	if !g.portable() && g.p(12) {
		g.feat("delete-using")
		g.pushPos("delete-using")
		f, fs, _ := g.joinChain(nil, []src{ts}, 1)
		g.popPos()
		out = tk(out, g.kw("using"), f)
		sc.srcs = append(sc.srcs, fs...)
	}
	if g.p(80) {
		g.feat("where")
		g.pushPos("where")
		out = tk(out, g.kw("where"), g.cond(sc, 2))
		g.popPos()
	}
	out = append(out, g.returning(sc)...)
	return out
}
