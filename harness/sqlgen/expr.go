package sqlgen

import (
	"pgregory.net/rapid"
)

// binding strength of an expression's top operator (SQLite's table)
const (
	pOr = iota + 1
	pAnd
	pNot
	pEq  // = == != <> IS IN LIKE BETWEEN ISNULL NOTNULL
	pRel // < <= > >=
	pBit // & | << >>
	pAdd
	pMul
	pCat // || -> ->>
	pCollate
	pUnary
	pAtom
)

// eo is a produced expression: its tokens and binding strength.
type eo struct {
	t []string
	p int
}

func tk(parts ...any) []string {
	var out []string
	for _, p := range parts {
		switch v := p.(type) {
		case string:
			out = append(out, v)
		case []string:
			out = append(out, v...)
		case eo:
			out = append(out, v.t...)
		}
	}
	return out
}

// operand renders child for a position that needs binding strength >= min,
// adding parentheses when required and sometimes when not.
func (g *gen) operand(c eo, min int) []string {
	if c.p < min {
		g.feat("paren-needed")
		return tk("(", c.t, ")")
	}
	if c.p < pAtom && g.p(10) {
		g.feat("paren-redundant")
		return tk("(", c.t, ")")
	}
	return c.t
}

func (g *gen) literal() eo {
	kind := rapid.IntRange(0, 11).Draw(g.t, "lit")
	switch kind {
	case 0, 1, 2:
		return eo{tk(g.pick([]string{"1", "0", "2", "42", "10", "007", "9223372036854775807", "0x1F", "3"})), pAtom}
	case 3:
		g.feat("lit-float")
		return eo{tk(g.pick([]string{"1.5", ".5", "5.", "1e3", "1.5E-2", "2e+1", "0.0", "100.25"})), pAtom}
	case 4, 5, 6:
		s := g.pick([]string{"'abc'", "''", "'it''s'", "''''", "'a''''b'", "'semi;colon'", "'dash--dash'", "'x y'",
			"'say \"hi\"'", "'a\\b'", "'é✓'", "'a%'", "'_b%'", "'/*c*/'", "'line1\nline2'", "'Z'", "'10'"})
		if len(s) > 2 && (s[1] == '\'' || len(s) > 5) {
			g.feat("lit-string-special")
		}
		return eo{tk(s), pAtom}
	case 7:
		return eo{g.kw("null"), pAtom}
	case 8:
		return eo{g.kw(g.pick([]string{"true", "false"})), pAtom}
	case 9:
		if !g.pg() && g.p(10) {
			// SQLite reads a double-quoted name that matches no column as a
			// string literal (its documented legacy behaviour)
			g.feat("dq-string")
			return eo{tk(`"hello"`), pAtom}
		}
		g.feat("lit-blob")
		return eo{tk(g.pick([]string{"X'00FF'", "x'abcd'", "X''"})), pAtom}
	case 10:
		if g.pg() {
			// E'..' is PostgreSQL's; ego's lexer also accepts it from sqlite3
			// source "for leniency", where SQLite itself reads E as a name
			g.feat("lit-estring")
			return eo{tk(g.pick([]string{`E'a\nb'`, `E'it\'s'`, `e'a\\b'`, `E'tab\there'`})), pAtom}
		}
		return eo{tk("-1"), pUnary}
	default:
		if !g.portable() {
			g.feat("placeholder")
			return eo{tk(g.pick([]string{"?", "?1", ":p1", "@p2", "$1", "$2"})), pAtom}
		}
		return eo{tk("1"), pAtom}
	}
}

// colRef draws a column reference visible in sc (falls back to a literal
// when nothing is in scope).
func (g *gen) colRef(sc *scope) eo {
	s := sc
	if s != nil && s.outer != nil && (len(s.srcs) == 0 || g.p(12)) {
		s = s.outer
		g.feat("correlated-ref")
	}
	if s == nil || len(s.srcs) == 0 {
		return g.literal()
	}
	si := rapid.IntRange(0, len(s.srcs)-1).Draw(g.t, "src")
	sr := s.srcs[si]
	if len(sr.cols) == 0 {
		return g.literal()
	}
	col := sr.cols[rapid.IntRange(0, len(sr.cols)-1).Draw(g.t, "col")]
	ambiguous := s != sc
	for i, o := range s.srcs {
		if i == si {
			continue
		}
		for _, c := range o.cols {
			if c == col {
				ambiguous = true
			}
		}
	}
	if sr.qual == "" || (!ambiguous && !g.p(30)) {
		return eo{tk(g.id(col)), pAtom}
	}
	if sr.base && !g.pg() && g.p(5) {
		g.feat("schema-qualified-col")
		return eo{tk("main." + g.id(sr.qual) + "." + g.id(col)), pAtom}
	}
	return eo{tk(g.id(sr.qual) + "." + g.id(col)), pAtom}
}

func (g *gen) atom(sc *scope) eo {
	if g.p(60) {
		return g.colRef(sc)
	}
	return g.literal()
}

var scalarFuncs = []struct {
	name string
	args int
}{{"abs", 1}, {"coalesce", 2}, {"length", 1}, {"upper", 1}, {"lower", 1}, {"substr", 3}, {"ifnull", 2}, {"nullif", 2},
	{"max", 2}, {"min", 2}, {"round", 1}, {"typeof", 1}, {"hex", 1}, {"instr", 2}, {"replace", 3}, {"trim", 1}, {"coalesce", 3}, {"ABS", 1}}

func (g *gen) binary(sc *scope, d int, ops []string, level int) eo {
	l := g.expr(sc, d-1)
	r := g.expr(sc, d-1)
	op := g.pick(ops)
	g.precSeen[level] = true
	if len(g.precSeen) >= 2 {
		g.feat("prec-mix")
	}
	return eo{tk(g.operand(l, level), op, g.operand(r, level+1)), level}
}

func (g *gen) subquery(outer *scope, ncols int, kind string) []string {
	g.subq--
	g.feat("subq:" + kind)
	g.feat("subq@" + g.curPos())
	toks, _, _ := g.selectStmt(outer, selOpts{ncols: ncols, allowWith: g.p(10)})
	return tk("(", toks, ")")
}

// cond draws an expression that reads as a condition.
func (g *gen) cond(sc *scope, d int) eo {
	if d <= 0 {
		return g.expr(sc, 0)
	}
	k := rapid.SampledFrom([]int{3, 3, 3, 4, 4, 5, 7, 8, 9, 10, 17, 18, 21, 0}).Draw(g.t, "ck")
	return g.exprKind(sc, d, k)
}

// expr draws an expression of nesting depth at most d.
func (g *gen) expr(sc *scope, d int) eo {
	if d <= 0 {
		return g.atom(sc)
	}
	k := rapid.SampledFrom([]int{0, 0, 0, 0, 0, 1, 1, 1, 2, 2, 2, 3, 3, 4, 4, 5, 6, 6, 7, 8, 9, 10, 11, 12, 12, 13,
		14, 15, 16, 17, 18, 19, 19, 20, 21, 22, 23, 24, 24}).Draw(g.t, "ek")
	return g.exprKind(sc, d, k)
}

func (g *gen) exprKind(sc *scope, d int, k int) eo {
	switch k {
	case 0:
		return g.colRef(sc)
	case 1:
		return g.literal()
	case 2:
		if g.p(50) {
			return g.binary(sc, d, []string{"+", "-"}, pAdd)
		}
		return g.binary(sc, d, []string{"*", "/", "%"}, pMul)
	case 3:
		if g.p(50) {
			return g.binary(sc, d, []string{"=", "<>", "!=", "=="}, pEq)
		}
		return g.binary(sc, d, []string{"<", "<=", ">", ">="}, pRel)
	case 4:
		l, r := g.cond(sc, d-1), g.cond(sc, d-1)
		g.feat("logical")
		if g.p(50) {
			g.precSeen[pAnd] = true
			return eo{tk(g.operand(l, pAnd), g.kw("and"), g.operand(r, pAnd+1)), pAnd}
		}
		g.precSeen[pOr] = true
		if len(g.precSeen) >= 2 {
			g.feat("prec-mix")
		}
		return eo{tk(g.operand(l, pOr), g.kw("or"), g.operand(r, pOr+1)), pOr}
	case 5:
		x := g.cond(sc, d-1)
		g.feat("not")
		return eo{tk(g.kw("not"), g.operand(x, pNot)), pNot}
	case 6:
		x := g.expr(sc, d-1)
		op := g.pick([]string{"-", "-", "+", "~"})
		g.feat("unary" + op)
		if x.p == pUnary && len(x.t) > 0 && x.t[0] == "-" && op == "-" {
			g.feat("unary-unary-minus")
		}
		return eo{tk(op, g.operand(x, pUnary)), pUnary}
	case 7:
		x := g.expr(sc, d-1)
		form := g.pick([]string{"is null", "is not null", "isnull", "notnull"})
		g.feat("isnull")
		return eo{tk(g.operand(x, pEq), g.kw(form)), pEq}
	case 8:
		x, lo, hi := g.expr(sc, d-1), g.expr(sc, d-1), g.expr(sc, d-1)
		g.feat("between")
		not := []string{}
		if g.p(30) {
			not = g.kw("not")
		}
		return eo{tk(g.operand(x, pEq), not, g.kw("between"), g.operand(lo, pBit), g.kw("and"), g.operand(hi, pBit)), pEq}
	case 9:
		x := g.expr(sc, d-1)
		g.feat("in-list")
		not := []string{}
		if g.p(30) {
			not = g.kw("not")
		}
		out := tk(g.operand(x, pEq), not, g.kw("in"), "(")
		n := g.n(0, 3)
		for i := 0; i < n; i++ {
			if i > 0 {
				out = append(out, ",")
			}
			out = append(out, g.expr(sc, d-1).t...)
		}
		return eo{append(out, ")"), pEq}
	case 10:
		x := g.expr(sc, d-1)
		ops := []string{"like", "like", "glob"}
		if !g.portable() {
			ops = append(ops, "ilike", "regexp", "match")
		}
		op := g.pick(ops)
		g.feat("like:" + op)
		not := []string{}
		if g.p(30) {
			not = g.kw("not")
		}
		pat := g.pick([]string{"'a%'", "'%'", "'_'", "'%s'", "'x\\%'", "'Z'"})
		out := tk(g.operand(x, pEq), not, g.kw(op))
		if g.p(20) {
			out = append(out, g.operand(g.expr(sc, d-1), pBit)...)
		} else {
			out = append(out, pat)
		}
		if op == "like" && g.p(30) {
			g.feat("like-escape")
			out = tk(out, g.kw("escape"), g.pick([]string{`'\'`, "'!'", "'#'"}))
		}
		return eo{out, pEq}
	case 11:
		g.feat("case")
		out := g.kw("case")
		if g.p(40) {
			out = tk(out, g.expr(sc, d-1))
			g.feat("case-operand")
		}
		n := g.n(1, 2)
		for i := 0; i < n; i++ {
			out = tk(out, g.kw("when"), g.cond(sc, d-1), g.kw("then"), g.expr(sc, d-1))
		}
		if g.p(60) {
			out = tk(out, g.kw("else"), g.expr(sc, d-1))
		}
		return eo{tk(out, g.kw("end")), pAtom}
	case 12:
		if sc != nil && sc.aggOK && g.p(60) {
			return g.aggregate(sc, d)
		}
		f := scalarFuncs[rapid.IntRange(0, len(scalarFuncs)-1).Draw(g.t, "fn")]
		g.feat("func")
		out := tk(f.name + "(")
		for i := 0; i < f.args; i++ {
			if i > 0 {
				out = append(out, ",")
			}
			if f.name == "substr" && i > 0 {
				out = append(out, g.pick([]string{"1", "2", "-1"}))
				continue
			}
			out = append(out, g.expr(sc, d-1).t...)
		}
		return eo{append(out, ")"), pAtom}
	case 13:
		g.feat("cast")
		ty := g.pick([]string{"INTEGER", "TEXT", "REAL", "VARCHAR(10)", "DECIMAL(10,2)", "integer", "DOUBLE PRECISION", "NUMERIC"})
		out := tk("CAST(", g.expr(sc, d-1), g.kw("as"))
		switch ty {
		case "VARCHAR(10)":
			out = tk(out, "VARCHAR(", "10", ")")
		case "DECIMAL(10,2)":
			out = tk(out, "DECIMAL(", "10", ",", "2", ")")
		case "DOUBLE PRECISION":
			out = tk(out, "DOUBLE", "PRECISION")
		default:
			out = tk(out, ty)
		}
		return eo{append(out, ")"), pAtom}
	case 14:
		x := g.expr(sc, d-1)
		g.feat("collate")
		return eo{tk(g.operand(x, pCollate), g.kw("collate"), g.pick([]string{"nocase", "NOCASE", "binary", "rtrim", `"nocase"`})), pCollate}
	case 15:
		g.feat("paren-explicit")
		return eo{tk("(", g.expr(sc, d-1), ")"), pAtom}
	case 16:
		if g.subq <= 0 {
			return g.atom(sc)
		}
		return eo{g.subquery(sc, 1, "scalar"), pAtom}
	case 17:
		if g.subq <= 0 {
			return g.atom(sc)
		}
		out := []string{}
		if g.p(35) {
			out = g.kw("not")
			g.feat("not-exists")
		}
		// NOT EXISTS (...) is one unit in ego's grammar but NOT-level in SQLite's
		lvl := pAtom
		if len(out) > 0 {
			lvl = pNot
		}
		return eo{tk(out, g.kw("exists"), g.subquery(sc, 0, "exists")), lvl}
	case 18:
		if g.subq <= 0 {
			return g.atom(sc)
		}
		x := g.expr(sc, d-1)
		not := []string{}
		if g.p(30) {
			not = g.kw("not")
		}
		return eo{tk(g.operand(x, pEq), not, g.kw("in"), g.subquery(sc, 1, "in")), pEq}
	case 19:
		ops := []string{"||"}
		if !g.portable() {
			ops = append(ops, "->", "->>")
		}
		return g.binary(sc, d, ops, pCat)
	case 20:
		return g.binary(sc, d, []string{"&", "|", "<<", ">>"}, pBit)
	case 21:
		x, y := g.expr(sc, d-1), g.expr(sc, d-1)
		form := g.pick([]string{"is", "is not", "is distinct from", "is not distinct from"})
		g.feat("is:" + form)
		return eo{tk(g.operand(x, pEq), g.kw(form), g.operand(y, pRel)), pEq}
	case 22:
		return g.literal()
	case 23:
		g.feat("row-value")
		a, b := g.atom(sc), g.atom(sc)
		c, e := g.expr(sc, d-1), g.expr(sc, d-1)
		return eo{tk("(", a, ",", b, ")", g.pick([]string{"=", "<", "<>"}), "(", c, ",", e, ")"), pEq}
	default:
		return g.atom(sc)
	}
}

func (g *gen) aggregate(sc *scope, d int) eo {
	g.feat("aggregate")
	inner := &scope{srcs: sc.srcs, outer: sc.outer}
	var out []string
	switch rapid.IntRange(0, 5).Draw(g.t, "agg") {
	case 0:
		out = tk("count(", "*", ")")
	case 1:
		g.feat("agg-distinct")
		out = tk("count(", g.kw("distinct"), g.expr(inner, d-1), ")")
	case 2:
		out = tk("sum(", g.expr(inner, d-1), ")")
	case 3:
		out = tk(g.pick([]string{"max(", "min(", "avg(", "total("}), g.expr(inner, d-1), ")")
	case 4:
		out = tk("group_concat(", g.colRef(inner), ",", "','", ")")
	default:
		out = tk("COUNT(", g.colRef(inner), ")")
	}
	if g.p(20) {
		g.feat("agg-filter")
		out = tk(out, g.kw("filter"), "(", g.kw("where"), g.cond(inner, d-1), ")")
	}
	return eo{out, pAtom}
}
