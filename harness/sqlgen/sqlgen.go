// Package sqlgen generates SQL statements of the grammar that ego's
// internal/sqlparse accepts (SQLite and PostgreSQL dialects), as text plus
// metadata, driven by a *rapid.T. It is shared by checks C16 (reformatting
// preserves statements) and C15 (authorization of every table touched).
//
// # API
//
//	sqlgen.Gen(t, sqlgen.Options{Dialect: sqlgen.SQLite, Portable: true}) Stmt
//	sqlgen.Setup() []string   // CREATE + INSERT statements of the fixed schema (SQLite)
//	sqlgen.Schema / sqlgen.Indexes   // the fixed schema as data
//
// Options.Kinds restricts the statement kinds (empty = all, weighted towards
// SELECT). Options.Portable keeps the generator inside what SQLite itself
// executes (no E'..' strings, JSON arrows, ILIKE, DELETE..USING, CASCADE,
// CREATE OR REPLACE VIEW, subquery alias column lists, schema.table.*,
// placeholders, transaction control), so the statement runs on the fixed
// schema; without it the PostgreSQL-only parts of the accepted grammar are
// produced as well.
//
// Stmt carries the text and what the generator knows about it: Kind (same
// spelling as sqlparse.StatementKind.String(), or "TXN"), DDL, Reads (tables
// and views of the fixed schema named in a reading position, at any depth),
// Writes (DML target), SchemaObjs (objects a DDL statement creates, alters or
// drops; for CREATE/DROP INDEX the index name and, when known, its table),
// Ordered (the top-level ORDER BY lists every result column by ordinal, so the
// row order is fully determined), and Features, a sorted list of construct
// labels ("where", "join:LEFT OUTER", "subq@set", "quoted-ident", "prec-mix",
// ...) meant for label histograms. "subq@<pos>" records the expression position
// a subquery was placed in (select-list, where, having, order-by, limit,
// join-on, values, set, on-conflict, returning, check, index-where, ...).
//
// All statements refer to one fixed schema so that they can execute:
//
//	t1(a INTEGER PRIMARY KEY, b INTEGER, c TEXT)      index i1 on t1(b)
//	t2(a INTEGER UNIQUE, d REAL)                      index i2 on t2(d)
//	t3(id INTEGER PRIMARY KEY, e TEXT DEFAULT 'x', "a b" TEXT, "order" INTEGER)
//	v1 = SELECT a, b FROM t1 WHERE b IS NOT NULL
//
// The generator builds every statement as a token list from small tree-shaped
// recursive producers (expressions carry their binding strength, so
// parentheses are emitted where the grammar needs them and, with a small
// probability, where it does not) and joins the tokens with one of several
// whitespace/keyword-case styles. All random choices are rapid draws; index 0
// of every choice is the simplest alternative so that shrinking simplifies.
package sqlgen

import (
	"sort"
	"strings"

	"pgregory.net/rapid"
)

// Dialect values equal sqlparse.SQLite / sqlparse.PostgreSQL.
type Dialect int

const (
	SQLite     Dialect = 0
	PostgreSQL Dialect = 1
)

// Kind names a statement kind.
type Kind string

const (
	Select      Kind = "SELECT"
	Insert      Kind = "INSERT"
	Update      Kind = "UPDATE"
	Delete      Kind = "DELETE"
	CreateTable Kind = "CREATE TABLE"
	DropTable   Kind = "DROP TABLE"
	AlterTable  Kind = "ALTER TABLE"
	CreateIndex Kind = "CREATE INDEX"
	DropIndex   Kind = "DROP INDEX"
	CreateView  Kind = "CREATE VIEW"
	DropView    Kind = "DROP VIEW"
	Txn         Kind = "TXN"
)

// AllKinds lists every kind Gen can produce.
var AllKinds = []Kind{Select, Insert, Update, Delete, CreateTable, DropTable, AlterTable, CreateIndex, DropIndex, CreateView, DropView, Txn}

// Options selects what Gen produces.
type Options struct {
	Dialect  Dialect
	Kinds    []Kind // empty: all kinds, weighted
	Portable bool   // only constructs SQLite executes (see package comment)
}

// Stmt is one generated statement with its metadata.
type Stmt struct {
	SQL        string   `json:"sql"`
	Kind       Kind     `json:"kind"`
	DDL        bool     `json:"ddl"`
	Reads      []string `json:"reads,omitempty"`
	Writes     []string `json:"writes,omitempty"`
	SchemaObjs []string `json:"schema_objs,omitempty"`
	Ordered    bool     `json:"ordered,omitempty"`
	Features   []string `json:"features,omitempty"`
}

// Table describes one relation of the fixed schema.
type Table struct {
	Name string
	Cols []string
	Key  string // column with a PRIMARY KEY / UNIQUE constraint ("" for views)
	View bool
}

// Schema is the fixed schema every generated statement refers to.
var Schema = []Table{
	{Name: "t1", Cols: []string{"a", "b", "c"}, Key: "a"},
	{Name: "t2", Cols: []string{"a", "d"}, Key: "a"},
	{Name: "t3", Cols: []string{"id", "e", "a b", "order"}, Key: "id"},
	{Name: "v1", Cols: []string{"a", "b"}, View: true},
}

// Indexes are the indexes of the fixed schema.
var Indexes = []struct{ Name, Table string }{{"i1", "t1"}, {"i2", "t2"}}

// Setup returns the statements that create and seed the fixed schema on
// SQLite.
func Setup() []string {
	return []string{
		`CREATE TABLE t1 (a INTEGER PRIMARY KEY, b INTEGER, c TEXT)`,
		`CREATE TABLE t2 (a INTEGER, d REAL, UNIQUE (a))`,
		`CREATE TABLE t3 (id INTEGER PRIMARY KEY, e TEXT DEFAULT 'x', "a b" TEXT, "order" INTEGER)`,
		`CREATE INDEX i1 ON t1 (b)`,
		`CREATE INDEX i2 ON t2 (d)`,
		`CREATE VIEW v1 AS SELECT a, b FROM t1 WHERE b IS NOT NULL`,
		`INSERT INTO t1 VALUES (1, 10, 'x'), (2, 20, 'y''s'), (3, NULL, 'Z'), (4, 10, NULL), (5, -5, 'a%b')`,
		`INSERT INTO t2 VALUES (1, 1.5), (2, NULL), (3, -0.25), (7, 100.0)`,
		`INSERT INTO t3 VALUES (1, 'e1', 'p q', 3), (2, 'e2', NULL, 1), (3, 'E3', 'r', 2)`,
	}
}

// keywords the parser (or SQLite) treats specially; an identifier spelled
// like one of these is always written quoted by the generator.
var keywords = map[string]bool{}

func init() {
	for _, w := range strings.Fields(`select from where group by having order limit offset union intersect except
		all distinct as on using join inner left right full outer cross natural insert into values default update set
		delete create drop alter table index view unique primary key foreign references check constraint not null
		and or in is like glob regexp match ilike between escape case when then else end cast exists collate asc desc
		nulls first last with recursive returning conflict do nothing if temp temporary begin commit rollback savepoint
		release transaction true false isnull notnull indexed replace ignore abort fail add column rename to without
		rowid generated always stored virtual filter autoincrement deferrable initially deferred immediate cascade
		restrict action no work exclusive pragma`) {
		keywords[w] = true
	}
}

// src is one row source visible to column references.
type src struct {
	qual string // name to qualify with (alias or table name), raw (unquoted)
	cols []string
	base bool // an unaliased base table (may be written main.t.c)
}

type scope struct {
	srcs  []src
	outer *scope
	aggOK bool
}

type gen struct {
	t        *rapid.T
	o        Options
	feats    map[string]bool
	reads    map[string]bool
	writes   map[string]bool
	objs     map[string]bool
	ctes     []src
	pos      []string
	subq     int // remaining subquery budget
	aliasN   int
	kwStyle  int
	wsStyle  int
	ordered  bool
	precSeen map[int]bool
}

// pTable[i] = {q, T}: P(IntRange(0,99) >= T) is about q percent. rapid's
// integer generators are biased towards small values, so a plain "v < percent"
// test would fire far too often; the thresholds below were measured. True is
// mapped to large draws so that shrinking (towards 0) turns options off.
var pTable = [][2]int{{3, 99}, {5, 95}, {7, 90}, {10, 85}, {12, 80}, {14, 75}, {17, 70}, {19, 65}, {22, 60}, {25, 55},
	{27, 50}, {30, 45}, {33, 40}, {36, 35}, {39, 30}, {43, 25}, {47, 20}, {51, 15}, {57, 10}, {67, 5}, {75, 3}, {85, 2}, {92, 1}, {100, 0}}

// p is true with a probability of roughly percent/100.
func (g *gen) p(percent int) bool {
	v := rapid.IntRange(0, 99).Draw(g.t, "p")
	for _, e := range pTable {
		if percent <= e[0] {
			return v >= e[1]
		}
	}
	return true
}

func (g *gen) n(lo, hi int) int { return rapid.IntRange(lo, hi).Draw(g.t, "n") }

// uniform draws an index in [0,n) with roughly equal probabilities (rapid's
// own integer generators favour small values); all-false bits give index 0.
func (g *gen) uniform(n int) int {
	if n <= 1 {
		return 0
	}
	bits := 0
	for 1<<bits < n {
		bits++
	}
	v := 0
	for i := 0; i < bits; i++ {
		v <<= 1
		if g.p(50) {
			v |= 1
		}
	}
	return v * n >> bits
}

func (g *gen) pick(s []string) string { return s[g.uniform(len(s))] }

func (g *gen) feat(f string) { g.feats[f] = true }

func (g *gen) portable() bool { return g.o.Portable }

func (g *gen) pg() bool { return g.o.Dialect == PostgreSQL }

// kw renders keyword(s) in the statement's keyword-case style.
func (g *gen) kw(words string) []string {
	fs := strings.Fields(words)
	for i, w := range fs {
		switch g.kwStyle {
		case 0:
			fs[i] = strings.ToUpper(w)
		case 1:
			fs[i] = strings.ToLower(w)
		default:
			fs[i] = strings.ToUpper(w[:1]) + strings.ToLower(w[1:])
		}
	}
	return fs
}

func bareable(s string) bool {
	if s == "" {
		return false
	}
	for i, r := range s {
		switch {
		case r == '_' || (r >= 'a' && r <= 'z') || (r >= 'A' && r <= 'Z'):
		case i > 0 && r >= '0' && r <= '9':
		default:
			return false
		}
	}
	return true
}

// id renders an identifier, quoted when it has to be (not a plain word, or a
// keyword) and occasionally when it does not.
func (g *gen) id(name string) string {
	must := !bareable(name) || keywords[strings.ToLower(name)]
	if !must && !g.p(8) {
		return name
	}
	g.feat("quoted-ident")
	if must && keywords[strings.ToLower(name)] {
		g.feat("quoted-keyword-ident")
	}
	style := 0
	if !g.pg() && !strings.ContainsAny(name, "]`") {
		style = rapid.SampledFrom([]int{0, 0, 0, 1, 2}).Draw(g.t, "qstyle")
	}
	switch style {
	case 1:
		return "`" + name + "`"
	case 2:
		return "[" + name + "]"
	}
	return `"` + strings.ReplaceAll(name, `"`, `""`) + `"`
}

func (g *gen) newAlias() string {
	g.aliasN++
	pool := []string{"x", "y", "z", "x y", "é", "x1", `q"q`, "X2"}
	if g.p(7) {
		pool = []string{"from", "Null", "order", "case", "end", "values", "key", "select"}
	}
	base := g.pick(pool)
	if g.aliasN > 1 {
		// keep aliases unique inside one statement
		if bareable(base) {
			return base + string(rune('0'+g.aliasN%10))
		}
		return base + " " + string(rune('0'+g.aliasN%10))
	}
	return base
}

func isOpTok(s string) bool {
	if s == "" {
		return false
	}
	for _, r := range s {
		if !strings.ContainsRune("=<>+-*/%|&~!", r) {
			return false
		}
	}
	return true
}

func safeEdge(r byte) bool {
	return r == '_' || r == '\'' || r == '"' || r == ')' || r == '(' || r == ']' || r == '[' || r == '`' ||
		(r >= '0' && r <= '9') || (r >= 'a' && r <= 'z') || (r >= 'A' && r <= 'Z') || r >= 0x80
}

// join turns the token list into text in the statement's whitespace style.
func (g *gen) join(toks []string) string {
	var b strings.Builder
	for i, tk := range toks {
		if i > 0 {
			prev := toks[i-1]
			tight := false
			if g.wsStyle != 0 {
				if strings.HasSuffix(prev, "(") || tk == ")" || tk == "," {
					tight = true
				}
			}
			if g.wsStyle == 2 && !tight {
				po, no := isOpTok(prev), isOpTok(tk)
				if po != no {
					if po && safeEdge(tk[0]) && i >= 2 && !isOpTok(toks[i-2]) && !strings.HasSuffix(toks[i-2], "(") && toks[i-2] != "," {
						tight = true
					}
					if no && safeEdge(prev[len(prev)-1]) {
						tight = true
					}
				}
			}
			if !tight {
				sep := " "
				if g.wsStyle == 3 {
					sep = []string{" ", "\n", "  ", "\t", " ", "\n  "}[(i*7+len(tk))%6]
				}
				b.WriteString(sep)
			}
		}
		b.WriteString(tk)
	}
	return b.String()
}

func (g *gen) pushPos(p string) { g.pos = append(g.pos, p) }
func (g *gen) popPos()          { g.pos = g.pos[:len(g.pos)-1] }
func (g *gen) curPos() string {
	if len(g.pos) == 0 {
		return "top"
	}
	return g.pos[len(g.pos)-1]
}

func sortedKeys(m map[string]bool) []string {
	var ks []string
	for k := range m {
		ks = append(ks, k)
	}
	sort.Strings(ks)
	return ks
}

var kindWeights = []struct {
	k Kind
	w int
}{{Select, 38}, {Insert, 12}, {Update, 12}, {Delete, 8}, {CreateTable, 9}, {AlterTable, 4}, {CreateIndex, 4},
	{CreateView, 4}, {DropTable, 2}, {DropIndex, 2}, {DropView, 2}, {Txn, 3}}

// Gen draws one statement.
func Gen(t *rapid.T, o Options) Stmt {
	g := &gen{t: t, o: o, feats: map[string]bool{}, reads: map[string]bool{}, writes: map[string]bool{},
		objs: map[string]bool{}, subq: 2, precSeen: map[int]bool{}}
	g.kwStyle = rapid.SampledFrom([]int{0, 0, 1, 2}).Draw(t, "kwstyle")
	g.wsStyle = rapid.SampledFrom([]int{1, 1, 0, 2, 3}).Draw(t, "wsstyle")
	var kinds []Kind
	for _, kw := range kindWeights {
		ok := len(o.Kinds) == 0
		for _, k := range o.Kinds {
			if k == kw.k {
				ok = true
			}
		}
		if kw.k == Txn && o.Portable {
			ok = false
		}
		if ok {
			for i := 0; i < kw.w; i++ {
				kinds = append(kinds, kw.k)
			}
		}
	}
	if len(kinds) == 0 {
		kinds = []Kind{Select}
	}
	k := kinds[g.uniform(len(kinds))]
	var toks []string
	switch k {
	case Select:
		g.pushPos("select")
		var ord bool
		toks, _, ord = g.selectStmt(nil, selOpts{top: true, allowWith: true})
		g.ordered = ord
	case Insert:
		toks = g.insertStmt()
	case Update:
		toks = g.updateStmt()
	case Delete:
		toks = g.deleteStmt()
	case CreateTable:
		toks = g.createTable()
	case DropTable:
		toks = g.dropTable()
	case AlterTable:
		toks = g.alterTable()
	case CreateIndex:
		toks = g.createIndex()
	case DropIndex:
		toks = g.dropIndex()
	case CreateView:
		toks = g.createView()
	case DropView:
		toks = g.dropView()
	case Txn:
		toks = g.txn()
	}
	st := Stmt{SQL: g.join(toks), Kind: k, Ordered: g.ordered}
	switch k {
	case CreateTable, DropTable, AlterTable, CreateIndex, DropIndex, CreateView, DropView:
		st.DDL = true
	}
	st.Reads, st.Writes, st.SchemaObjs, st.Features = sortedKeys(g.reads), sortedKeys(g.writes), sortedKeys(g.objs), sortedKeys(g.feats)
	return st
}
