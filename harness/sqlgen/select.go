package sqlgen

import (
	"fmt"
	"strings"

	"pgregory.net/rapid"
)

type selOpts struct {
	ncols     int      // required number of result columns (0 = free)
	aliases   []string // aliases to give the result columns (len == ncols) or nil
	top       bool
	allowWith bool
}

// selectStmt produces [WITH ...] core [compound ...] [ORDER BY] [LIMIT]; it
// returns the tokens, the number of result columns (-1 when unknown) and
// whether the ORDER BY fully determines the row order.
func (g *gen) selectStmt(outer *scope, o selOpts) ([]string, int, bool) {
	var out []string
	savedCTEs := len(g.ctes)
	defer func() { g.ctes = g.ctes[:savedCTEs] }()
	if o.allowWith && g.p(10) {
		out = append(out, g.withClause(outer)...)
	}
	core, ncols, sc := g.selectCore(outer, o.ncols, o.aliases)
	out = append(out, core...)
	compound := false
	if ncols > 0 && g.p(9) {
		n := g.n(1, 2)
		for i := 0; i < n; i++ {
			op := g.pick([]string{"union", "union all", "intersect", "except"})
			g.feat("compound:" + op)
			c2, _, _ := g.selectCore(outer, ncols, nil)
			out = tk(out, g.kw(op), c2)
			compound = true
		}
	}
	ordered := false
	if g.p(30) {
		g.feat("order-by")
		g.pushPos("order-by")
		out = append(out, g.kw("order by")...)
		var terms [][]string
		nfree := g.n(0, 2)
		total := ncols > 0 && g.p(55)
		if !total && nfree == 0 {
			nfree = 1
		}
		for i := 0; i < nfree; i++ {
			var e []string
			if compound || ncols < 0 {
				if ncols > 0 {
					e = tk(fmt.Sprint(g.n(1, ncols)))
				} else {
					e = tk("1")
				}
			} else {
				osc := &scope{srcs: sc.srcs, outer: sc.outer, aggOK: sc.aggOK}
				e = g.notOrdinal(g.expr(osc, 1).t, osc)
			}
			terms = append(terms, g.orderMods(e))
		}
		if total {
			g.feat("order-total")
			ordered = true
			for i := 1; i <= ncols; i++ {
				terms = append(terms, g.orderMods(tk(fmt.Sprint(i))))
			}
		}
		for i, t := range terms {
			if i > 0 {
				out = append(out, ",")
			}
			out = append(out, t...)
		}
		g.popPos()
	}
	if g.p(20) {
		g.feat("limit")
		g.pushPos("limit")
		lim := g.pick([]string{"2", "1", "3", "0", "10", "-1"})
		limT := tk(lim)
		if g.p(12) {
			limT = tk("1", "+", "1")
			g.feat("limit-expr")
		} else if g.subq > 0 && g.p(6) {
			limT = g.subquery(nil, 1, "scalar")
		}
		switch rapid.IntRange(0, 3).Draw(g.t, "limform") {
		case 0, 1:
			out = tk(out, g.kw("limit"), limT)
		case 2:
			g.feat("offset")
			out = tk(out, g.kw("limit"), limT, g.kw("offset"), g.pick([]string{"1", "0", "2"}))
		default:
			g.feat("limit-comma")
			out = tk(out, g.kw("limit"), g.pick([]string{"1", "0", "2"}), ",", limT)
		}
		g.popPos()
	}
	return out, ncols, ordered
}

// notOrdinal replaces a bare integer (which ORDER BY / GROUP BY read as a
// result-column number, usually out of range) by a column reference.
func (g *gen) notOrdinal(e []string, sc *scope) []string {
	if len(e) == 1 && e[0] != "" && e[0][0] >= '0' && e[0][0] <= '9' {
		return g.colRef(sc).t
	}
	return e
}

func (g *gen) orderMods(e []string) []string {
	out := e
	if g.p(10) {
		g.feat("order-collate")
		out = tk(out, g.kw("collate"), g.pick([]string{"nocase", "binary"}))
	}
	switch rapid.IntRange(0, 5).Draw(g.t, "dir") {
	case 1:
		out = tk(out, g.kw("asc"))
		g.feat("order-asc")
	case 2, 3:
		out = tk(out, g.kw("desc"))
		g.feat("order-desc")
	}
	if g.p(12) {
		g.feat("nulls")
		out = tk(out, g.kw(g.pick([]string{"nulls first", "nulls last"})))
	}
	return out
}

func (g *gen) withClause(outer *scope) []string {
	g.feat("cte")
	out := g.kw("with")
	if g.p(20) {
		g.feat("cte-recursive")
		name := g.pick([]string{"r", "rec", "R2", "with"})
		out = tk(out, g.kw("recursive"), g.id(name), "(", "n", ")", g.kw("as"), "(",
			g.kw("select"), "1", g.kw("union all"), g.kw("select"), "n", "+", "1", g.kw("from"), g.id(name),
			g.kw("where"), "n", "<", g.pick([]string{"3", "5"}), ")")
		g.ctes = append(g.ctes, src{qual: name, cols: []string{"n"}})
		return out
	}
	n := g.n(1, 2)
	names := []string{"c1", "c 2", "C3", "c4", "with"}
	for i := 0; i < n; i++ {
		if i > 0 {
			out = append(out, ",")
		}
		name := names[(rapid.IntRange(0, len(names)-1).Draw(g.t, "cte")+i*2)%len(names)]
		if i == 1 && name == g.ctes[len(g.ctes)-1].qual {
			name = "c9"
		}
		nc := g.n(1, 2)
		cols := []string{"k0", "k1"}[:nc]
		out = append(out, g.id(name))
		var aliases []string
		if g.p(35) {
			g.feat("cte-cols")
			cols = []string{"m", "n n"}[:nc]
			out = append(out, "(")
			for j, c := range cols {
				if j > 0 {
					out = append(out, ",")
				}
				out = append(out, g.id(c))
			}
			out = append(out, ")")
		} else {
			aliases = cols
		}
		g.pushPos("cte")
		body, _, _ := g.selectStmt(outer, selOpts{ncols: nc, aliases: aliases})
		g.popPos()
		out = tk(out, g.kw("as"), "(", body, ")")
		g.ctes = append(g.ctes, src{qual: name, cols: cols})
	}
	return out
}

// selectCore produces SELECT ... [FROM] [WHERE] [GROUP BY [HAVING]].
func (g *gen) selectCore(outer *scope, want int, aliases []string) ([]string, int, *scope) {
	out := g.kw("select")
	switch rapid.IntRange(0, 9).Draw(g.t, "distinct") {
	case 8:
		out = append(out, g.kw("distinct")...)
		g.feat("distinct")
	case 9:
		out = append(out, g.kw("all")...)
		g.feat("select-all")
	}
	sc := &scope{outer: outer}
	var from []string
	starUnknown := false
	if !g.p(10) {
		from, sc.srcs, starUnknown = g.fromClause(outer)
	}
	grouped := len(sc.srcs) > 0 && g.p(15)
	aggOnly := !grouped && len(sc.srcs) > 0 && g.p(8)
	sc.aggOK = grouped || aggOnly
	ncols := want
	g.pushPos("select-list")
	if want == 0 && len(sc.srcs) > 0 && !sc.aggOK && g.p(18) {
		// star forms
		if g.p(60) {
			g.feat("star")
			out = append(out, "*")
			ncols = 0
			for _, s := range sc.srcs {
				ncols += len(s.cols)
			}
		} else {
			g.feat("qualified-star")
			s := sc.srcs[rapid.IntRange(0, len(sc.srcs)-1).Draw(g.t, "starsrc")]
			if s.base && !g.portable() && g.p(25) {
				g.feat("schema-qualified-star")
				out = append(out, "main."+g.id(s.qual)+".*")
			} else {
				out = append(out, g.id(s.qual)+".*")
			}
			ncols = len(s.cols)
			if g.p(30) {
				out = tk(out, ",", g.expr(sc, 1))
				ncols++
			}
		}
		if starUnknown {
			ncols = -1
		}
	} else {
		if ncols == 0 {
			ncols = g.n(1, 3)
		}
		for i := 0; i < ncols; i++ {
			if i > 0 {
				out = append(out, ",")
			}
			d := 2
			if i > 0 {
				d = 1
			}
			if i == 0 && g.p(15) {
				d = 3
			}
			out = append(out, g.expr(sc, d).t...)
			switch {
			case aliases != nil:
				out = tk(out, g.kw("as"), g.id(aliases[i]))
			case g.p(15):
				g.feat("alias-as")
				out = tk(out, g.kw("as"), g.id(g.newAlias()))
			case g.p(6):
				g.feat("alias-bare")
				out = tk(out, g.id(g.newAlias()))
			}
		}
	}
	g.popPos()
	if from != nil {
		out = tk(out, g.kw("from"), from)
	}
	noAgg := &scope{srcs: sc.srcs, outer: outer}
	if g.p(50) {
		g.feat("where")
		g.pushPos("where")
		out = tk(out, g.kw("where"), g.cond(noAgg, 2))
		g.popPos()
	}
	if grouped {
		g.feat("group-by")
		g.pushPos("group-by")
		out = append(out, g.kw("group by")...)
		n := g.n(1, 2)
		for i := 0; i < n; i++ {
			if i > 0 {
				out = append(out, ",")
			}
			out = append(out, g.notOrdinal(g.expr(noAgg, 1).t, noAgg)...)
		}
		g.popPos()
		if g.p(50) {
			g.feat("having")
			g.pushPos("having")
			out = tk(out, g.kw("having"), g.cond(sc, 2))
			g.popPos()
		}
	}
	return out, ncols, sc
}

// fromClause produces the FROM list and the sources it makes visible.
func (g *gen) fromClause(outer *scope) ([]string, []src, bool) {
	var out []string
	var srcs []src
	unknown := false
	items := 1
	if g.p(10) {
		items = 2
		g.feat("from-comma")
	}
	for i := 0; i < items; i++ {
		if i > 0 {
			out = append(out, ",")
		}
		chain, cs, unk := g.joinChain(outer, srcs, 2)
		out = append(out, chain...)
		srcs = append(srcs, cs...)
		unknown = unknown || unk
	}
	return out, srcs, unknown
}

func common(a []src, b src) []string {
	var out []string
	for _, c := range b.cols {
		n := 0
		for _, s := range a {
			for _, x := range s.cols {
				if x == c {
					n++
				}
			}
		}
		if n == 1 {
			out = append(out, c)
		}
	}
	return out
}

func (g *gen) joinChain(outer *scope, before []src, maxJoins int) ([]string, []src, bool) {
	left, ls := g.tableItem(outer, before)
	srcs := []src{ls}
	unknown := false
	nj := 0
	if maxJoins > 0 && g.p(24) {
		nj = g.n(1, maxJoins)
	}
	for j := 0; j < nj; j++ {
		all := append(append([]src{}, before...), srcs...)
		var right []string
		var rs []src
		if g.p(3) {
			// parenthesised join group on the right: a JOIN (b JOIN c ON ..) ON ..
			g.feat("join-paren-right")
			inner, is, unk := g.joinChainForced(outer, all)
			right, rs, unknown = tk("(", inner, ")"), is, unknown || unk
		} else {
			r, s := g.tableItem(outer, all)
			right, rs = r, []src{s}
		}
		types := []string{"", "inner", "left", "left outer", "cross", "right", "full outer", "right outer", "full"}
		jt := g.pick(types)
		natural := g.p(5)
		sc := &scope{srcs: append(append([]src{}, all...), rs...), outer: outer}
		var tail []string
		switch {
		case natural:
			g.feat("join-natural")
			if jt == "cross" {
				jt = ""
			}
			unknown = true
		case jt == "cross" && !g.p(15):
		case len(rs) == 1 && len(common(all, rs[0])) > 0 && g.p(30):
			g.feat("join-using")
			cs := common(all, rs[0])
			tail = tk(g.kw("using"), "(")
			n := 1
			if len(cs) > 1 && g.p(40) {
				n = 2
			}
			for i := 0; i < n; i++ {
				if i > 0 {
					tail = append(tail, ",")
				}
				tail = append(tail, g.id(cs[i]))
			}
			tail = append(tail, ")")
			unknown = true
		case g.p(92):
			g.feat("join-on")
			g.pushPos("join-on")
			tail = tk(g.kw("on"), g.cond(sc, 2))
			g.popPos()
		}
		words := jt + " join"
		if natural {
			words = "natural " + words
		}
		base := strings.TrimSuffix(jt, " outer")
		if base == "" {
			base = "plain"
		}
		g.feat("join:" + base)
		if j == 0 && len(before) == 0 && g.p(6) && len(tail) > 0 {
			// parenthesised group on the left: (a JOIN b ON ..) JOIN c ..
			g.feat("join-paren-left")
			left = tk("(", left, g.kw(words), right, tail, ")")
		} else {
			left = tk(left, g.kw(words), right, tail)
		}
		srcs = append(srcs, rs...)
	}
	return left, srcs, unknown
}

// joinChainForced produces "a JOIN b ON cond" (exactly one join).
func (g *gen) joinChainForced(outer *scope, before []src) ([]string, []src, bool) {
	l, ls := g.tableItem(outer, before)
	all := append(append([]src{}, before...), ls)
	r, rs := g.tableItem(outer, all)
	// inside the parentheses only the group's own sources are visible
	sc := &scope{srcs: []src{ls, rs}, outer: outer}
	g.pushPos("join-on")
	c := g.cond(sc, 1)
	g.popPos()
	jt := g.pick([]string{"join", "left join", "inner join"})
	g.feat("join:" + strings.TrimSuffix(strings.TrimSuffix(jt, "join"), " ") + map[bool]string{true: "plain", false: ""}[jt == "join"])
	return tk(l, g.kw(jt), r, g.kw("on"), c), []src{ls, rs}, false
}

// tableItem produces one FROM item: a base table, view, CTE or subquery.
func (g *gen) tableItem(outer *scope, before []src) ([]string, src) {
	used := func(q string) bool {
		for _, s := range before {
			if s.qual == q {
				return true
			}
		}
		for s := outer; s != nil; s = s.outer {
			for _, x := range s.srcs {
				if x.qual == q {
					return true
				}
			}
		}
		return false
	}
	if g.subq > 0 && g.p(7) {
		g.pushPos("from")
		g.subq--
		g.feat("subq:from")
		g.feat("subq@from")
		nc := g.n(1, 2)
		cols := []string{"k0", "k1"}[:nc]
		body, _, _ := g.selectStmt(outer, selOpts{ncols: nc, aliases: cols, allowWith: g.p(10)})
		g.popPos()
		alias := g.newAlias()
		out := tk("(", body, ")")
		if g.p(75) {
			out = append(out, g.kw("as")...)
		}
		out = append(out, g.id(alias))
		if !g.portable() && g.p(30) {
			g.feat("subq-alias-cols")
			cols = []string{"u", "w"}[:nc]
			out = append(out, "(")
			for i, c := range cols {
				if i > 0 {
					out = append(out, ",")
				}
				out = append(out, g.id(c))
			}
			out = append(out, ")")
		}
		return out, src{qual: alias, cols: cols}
	}
	// base table, view or CTE
	var cands []src
	for _, t := range Schema {
		cands = append(cands, src{qual: t.Name, cols: t.Cols, base: true})
	}
	// weight real tables over the view
	cands = append(cands, cands[0], cands[1])
	for _, c := range g.ctes {
		cands = append(cands, c, c)
	}
	s := cands[rapid.IntRange(0, len(cands)-1).Draw(g.t, "tbl")]
	if s.base {
		g.reads[s.qual] = true
	} else {
		g.feat("cte-ref")
	}
	var out []string
	if s.base && !g.pg() && g.p(4) {
		g.feat("schema-qualified-table")
		out = tk("main." + g.id(s.qual))
	} else {
		out = tk(g.id(s.qual))
	}
	if used(s.qual) || g.p(30) {
		alias := g.newAlias()
		for used(alias) {
			alias = g.newAlias()
		}
		if g.p(60) {
			out = append(out, g.kw("as")...)
			g.feat("table-alias-as")
		} else {
			g.feat("table-alias-bare")
		}
		out = append(out, g.id(alias))
		s = src{qual: alias, cols: s.cols}
	}
	switch {
	case s.qual == "t1" && s.base && g.p(4):
		g.feat("indexed-by")
		out = tk(out, g.kw("indexed by"), "i1")
	case g.p(2):
		g.feat("not-indexed")
		out = tk(out, g.kw("not indexed"))
	}
	return out, s
}
