package sqlgen

import (
	"strings"
	"testing"

	"pgregory.net/rapid"
)

// TestGenSmoke: Gen terminates, produces text, and keeps its metadata
// consistent with the statement kind.
func TestGenSmoke(t *testing.T) {
	rapid.Check(t, func(rt *rapid.T) {
		d := Dialect(rapid.IntRange(0, 1).Draw(rt, "d"))
		s := Gen(rt, Options{Dialect: d, Portable: d == SQLite})
		if strings.TrimSpace(s.SQL) == "" {
			rt.Fatalf("empty statement")
		}
		switch s.Kind {
		case Insert, Update, Delete:
			if len(s.Writes) != 1 {
				rt.Fatalf("%s: writes=%v", s.Kind, s.Writes)
			}
		case Select:
			if len(s.Writes) != 0 || s.DDL {
				rt.Fatalf("select with writes/ddl: %+v", s)
			}
		}
	})
}
