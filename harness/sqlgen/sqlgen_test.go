package sqlgen

import (
	"fmt"
	"sort"
	"testing"
	"time"

	"pgregory.net/rapid"
)

func TestSample(t *testing.T) {
	n := 0
	var lens []int
	start := time.Now()
	rapid.Check(t, func(rt *rapid.T) {
		d := Dialect(rapid.IntRange(0, 1).Draw(rt, "d"))
		s := Gen(rt, Options{Dialect: d, Portable: d == SQLite})
		n++
		lens = append(lens, len(s.SQL))
		if n%97 == 0 {
			fmt.Printf("-- %s\n%s\n", s.Kind, s.SQL)
		}
	})
	sort.Ints(lens)
	fmt.Println("n", n, "median", lens[len(lens)/2], "p90", lens[len(lens)*9/10], "max", lens[len(lens)-1], "per case", time.Since(start)/time.Duration(n))
}
