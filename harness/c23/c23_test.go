// Package c23 decides property C23: "An authorization code yields tokens at
// most once, and a refresh token can be exchanged at most once, no matter how
// many token requests present it concurrently. A code issued with a PKCE
// challenge yields tokens only with the matching verifier."
//
// What runs: the real `ego server` router in-process (srvfix, hook H1) with the
// OAuth2 Authorization Server role switched on through its settings
// (ego.server.oauth.as.enabled/issuer/clients), two registered clients (one
// confidential, one public) read from a client registry file, and the real
// endpoints: GET+POST /oauth2/authorize (login form, CSRF cookie, user
// credentials) to obtain a code, POST /oauth2/token to redeem it.
//
// Three execution modes per case:
//
//	barrier  N requests run concurrently; hook H4 (authserver.VerifSetPoint) is
//	         called by ego between the cache lookup and the delete inside
//	         consumeCode / consumeRefreshToken. The harness holds every request
//	         there until all N requests have either arrived at the point or
//	         finished without reaching it, then releases them together. So every
//	         request that was going to pass the lookup has passed it before any
//	         delete happens: the critical interleaving is forced, not hoped for.
//	stress   no hook at all (VerifSetPoint(nil)); N goroutines leave a start
//	         gate together, GOMAXPROCS 16, several rounds with a fresh
//	         credential each. This mode can only FIND a double redemption, it
//	         can never prove its absence (the Go scheduler owns the schedule).
//	seq      the same credential presented K times one after the other.
//
// Oracle (all modes): the number of token responses that are a success (HTTP
// 200 with a non-empty access_token) for one credential is <= 1; a success for
// a code that was issued with a challenge implies
// BASE64URL(SHA256(verifier)) == challenge; and in seq mode the FIRST
// presentation of a fresh credential by its own client must succeed iff its
// verifier matches (nothing else can have consumed it), which gives the "iff"
// of the PKCE clause.
//
// Preconditions taken from real callers (nothing outside them is generated):
//   - codes are obtained the way a browser does (GET form, POST form with the
//     CSRF cookie and the value from the form), for a user that exists;
//   - the client presenting a credential is the client it was issued to, with
//     its correct secret (Basic header or form fields, both documented);
//     redirect_uri is the registered one. A wrong client / redirect_uri burns
//     the code in ego, about which the property says nothing.
//   - the right verifier is an RFC 7636 verifier (43..128 unreserved chars);
//     the presented verifiers are arbitrary strings.
//
// A ">= 2 successes" observation is a violation in every mode and under any
// timing. Timing can only turn "held" into "inconclusive": if the barrier is
// not complete within its bounded wait everyone is released and the case is
// reported Inconclusive (unless it shows a violation anyway).
package c23

import (
	"crypto/sha256"
	"encoding/base64"
	"encoding/json"
	"fmt"
	"net/url"
	"os"
	"path/filepath"
	"runtime"
	"sort"
	"strings"
	"sync"
	"sync/atomic"
	"testing"
	"time"

	"github.com/tucats/ego/internal/caches"
	"github.com/tucats/ego/internal/server/oauth/authserver"
	"github.com/tucats/ego/verif/srvfix"
	"github.com/tucats/ego/verif/vkit"
	"golang.org/x/crypto/bcrypt"
	"pgregory.net/rapid"
)

// ---------------------------------------------------------------- case data

// Req is one token request of a case.
type Req struct {
	// Verifier is the code_verifier form value ("" = field omitted). Ignored
	// by refresh-token requests.
	Verifier string `json:"verifier"`
	// VClass names how Verifier was derived from the right one (label only;
	// the oracle decides by hashing Verifier).
	VClass string `json:"vclass"`
	// Basic: client credentials in an Authorization: Basic header instead of
	// the client_id / client_secret form fields.
	Basic bool `json:"basic"`
}

// Case is one credential and the requests that present it.
type Case struct {
	Kind   string `json:"kind"`   // "code" | "refresh"
	Mode   string `json:"mode"`   // "barrier" | "stress" | "seq"
	Client string `json:"client"` // "conf" | "pub"
	// PKCE: the code is issued with code_challenge=S256(Right). Always true for
	// the public client (ego refuses public clients without PKCE).
	PKCE  bool   `json:"pkce"`
	Right string `json:"right"` // the verifier the challenge is derived from
	// Challenge is the code_challenge sent to the authorize endpoint ("" when
	// PKCE is false). Normally S256(Right); a small share of cases sends what
	// a sloppy client would (truncated, '=' padded, standard-alphabet base64,
	// upper-cased), which ego stores as it is and which then matches no
	// verifier or only by the equation below. ChClass labels it.
	Challenge string `json:"challenge"`
	ChClass   string `json:"chclass"`
	Scope string `json:"scope"`
	// Rotations (refresh only): how many times the refresh token is rotated
	// (exchanged once, properly) before the token under test is presented.
	Rotations int   `json:"rotations"`
	Reqs      []Req `json:"reqs"`
	// Rounds (stress only): how many fresh credentials are raced.
	Rounds int `json:"rounds"`
}

const (
	redirectURI = "https://app.example/cb"
	confSecret  = "conf-secret-0"
	unreserved  = "ABCDEFGHIJKLMNOPQRSTUVWXYZabcdefghijklmnopqrstuvwxyz0123456789-._~"
)

func s256(v string) string {
	h := sha256.Sum256([]byte(v))
	return base64.RawURLEncoding.EncodeToString(h[:])
}

// challengeOf builds the code_challenge a client of the given kind sends.
func challengeOf(class, right string, cut int) string {
	h := sha256.Sum256([]byte(right))
	switch class {
	case "truncated":
		return s256(right)[:cut]
	case "padded":
		return base64.URLEncoding.EncodeToString(h[:])
	case "stdbase64":
		return base64.RawStdEncoding.EncodeToString(h[:])
	case "upper":
		return strings.ToUpper(s256(right))
	}
	return s256(right)
}

func swapCase(s string) string {
	b := []byte(s)
	for i, c := range b {
		switch {
		case c >= 'a' && c <= 'z':
			b[i] = c - 32
		case c >= 'A' && c <= 'Z':
			b[i] = c + 32
		}
	}
	return string(b)
}

var vclasses = []string{"right", "wrong", "empty", "prefix", "extended", "case", "unicode", "long", "challenge", "space", "nul", "right"}

// variant derives a verifier of the named class from the right one. All draws
// happen here (generator time).
func variant(t *rapid.T, class, right string) string {
	switch class {
	case "right":
		return right
	case "wrong":
		return rapid.StringOfN(rapid.RuneFrom([]rune(unreserved)), 43, 128, -1).Draw(t, "wrongv")
	case "empty":
		return ""
	case "prefix":
		return right[:rapid.IntRange(1, len(right)-1).Draw(t, "cut")]
	case "extended":
		return right + rapid.StringOfN(rapid.RuneFrom([]rune(unreserved)), 1, 8, -1).Draw(t, "ext")
	case "case":
		return swapCase(right)
	case "unicode":
		// replace one character by a look-alike / non-ASCII rune, or append one
		r := []rune(right)
		i := rapid.IntRange(0, len(r)-1).Draw(t, "upos")
		u := rapid.SampledFrom([]rune{'Ａ', 'а', 'é', '０', '​', '𝟘', 'ß', '́'}).Draw(t, "urune")
		if rapid.Bool().Draw(t, "uappend") {
			return right + string(u)
		}
		r[i] = u
		return string(r)
	case "long":
		n := rapid.SampledFrom([]int{129, 1000, 5000, 70000}).Draw(t, "longn")
		return (strings.Repeat(right, n/len(right)+1))[:n]
	case "challenge":
		// the downgrade attempt: present the challenge itself (method "plain")
		return s256(right)
	case "space":
		return rapid.SampledFrom([]string{" " + right, right + " ", right + "\n", "\t" + right}).Draw(t, "sp")
	case "nul":
		return right + "\x00"
	}
	return right
}

func genCase(t *rapid.T) Case {
	c := Case{}
	c.Kind = rapid.SampledFrom([]string{"code", "code", "refresh"}).Draw(t, "kind")
	c.Mode = rapid.SampledFrom([]string{"barrier", "barrier", "barrier", "stress", "seq", "seq"}).Draw(t, "mode")
	c.Client = rapid.SampledFrom([]string{"conf", "pub"}).Draw(t, "client")
	c.PKCE = c.Client == "pub" || rapid.Bool().Draw(t, "pkce")
	c.Right = rapid.StringOfN(rapid.RuneFrom([]rune(unreserved)), 43, 128, -1).Draw(t, "right")
	c.Scope = rapid.SampledFrom([]string{"openid profile", "openid", "ego:read", "", "openid profile ego:read"}).Draw(t, "scope")
	if c.PKCE {
		c.ChClass = rapid.SampledFrom([]string{"s256", "s256", "s256", "s256", "s256", "s256", "truncated", "padded", "stdbase64", "upper"}).Draw(t, "chclass")
		c.Challenge = challengeOf(c.ChClass, c.Right, rapid.IntRange(1, 42).Draw(t, "chcut"))
	}
	n := 0
	switch c.Mode {
	case "seq":
		n = rapid.IntRange(2, 5).Draw(t, "k")
	default:
		n = rapid.SampledFrom([]int{2, 2, 3, 4, 5, 6, 7, 8, 9, 10, 11, 12, 13, 14, 15, 16, 16}).Draw(t, "n")
	}
	if c.Kind == "refresh" {
		c.Rotations = rapid.SampledFrom([]int{0, 0, 1, 2}).Draw(t, "rot")
		if c.PKCE {
			// the refresh token is obtained by a proper exchange first
			c.ChClass, c.Challenge = "s256", s256(c.Right)
		}
	}
	if c.Mode == "stress" {
		c.Rounds = rapid.IntRange(8, 40).Draw(t, "rounds")
	}
	// how verifiers are mixed: all right (the pure race), or a mixture
	allRight := c.Kind == "refresh" || !c.PKCE || rapid.IntRange(0, 2).Draw(t, "mix") == 0
	for i := 0; i < n; i++ {
		r := Req{VClass: "right", Verifier: c.Right, Basic: rapid.Bool().Draw(t, "basic")}
		if c.Kind == "code" && !allRight {
			r.VClass = rapid.SampledFrom(vclasses).Draw(t, "vclass")
			r.Verifier = variant(t, r.VClass, c.Right)
		} else if c.Kind == "code" && !c.PKCE {
			// no challenge: whatever is sent must be ignored
			r.VClass = rapid.SampledFrom([]string{"right", "empty", "wrong"}).Draw(t, "vclass")
			r.Verifier = variant(t, r.VClass, c.Right)
		}
		if c.Kind == "refresh" {
			r.Verifier, r.VClass = "", "n/a"
		}
		c.Reqs = append(c.Reqs, r)
	}
	return c
}

// ---------------------------------------------------------------- fixture

var (
	fx         *srvfix.Fixture
	setupErrs  atomic.Int64
	firstSetup atomic.Value // string
	current    atomic.Pointer[barrier]
	// adaptive barrier wait: when the barrier repeatedly cannot be completed
	// (e.g. a repair that serialises find+delete under a lock makes the point
	// unreachable for all but one request) do not spend the long wait on
	// every case.
	barrierTimeouts atomic.Int64
)

const (
	barrierWaitLong  = 30 * time.Second
	barrierWaitShort = 150 * time.Millisecond
)

func startFixture(t *testing.T) {
	base := os.Getenv("VERIF_RUN_DIR")
	if base == "" {
		base = t.TempDir()
	}
	dir := filepath.Join(base, fmt.Sprintf("c23-%d", os.Getpid()))
	if err := os.MkdirAll(dir, 0o700); err != nil {
		t.Fatalf("mkdir: %v", err)
	}
	// bcrypt at minimum cost: validateClientSecret runs once per token request
	hash, err := bcrypt.GenerateFromPassword([]byte(confSecret), bcrypt.MinCost)
	if err != nil {
		t.Fatal(err)
	}
	clients := []map[string]any{
		{"client_id": "conf", "client_secret_hash": string(hash), "redirect_uris": []string{redirectURI},
			"grant_types": []string{"authorization_code", "refresh_token"}, "scopes": []string{"openid", "profile", "ego:read"}},
		{"client_id": "pub", "redirect_uris": []string{redirectURI},
			"grant_types": []string{"authorization_code", "refresh_token"}, "scopes": []string{"openid", "profile", "ego:read"}},
	}
	b, _ := json.Marshal(clients)
	cf := filepath.Join(dir, "oauth-clients.json")
	if err := os.WriteFile(cf, b, 0o600); err != nil {
		t.Fatal(err)
	}
	f, err := srvfix.Start(srvfix.Options{Settings: map[string]string{
		"ego.server.oauth.as.enabled": "true",
		"ego.server.oauth.as.issuer":  "http://localhost",
		"ego.server.oauth.as.clients": cf,
		// The router tries every Authorization: Basic header against the Ego
		// user database before the handler runs, so an OAuth client that
		// authenticates the RFC 6749 way ("conf":secret) is counted as failed
		// logins of a user "conf" and locked out (429) after five token
		// requests. That is outside C23; the lockout is switched off (documented
		// value 0) so that both client-authentication styles can be driven.
		"ego.server.auth.maxattempts": "0",
		// codes live 5 minutes by default; a stalled process must not be able
		// to turn "expired" into "refused"
		"ego.server.oauth.as.code.expiration": "24h",
	}})
	if err != nil {
		t.Fatalf("srvfix: %v", err)
	}
	fx = f
	authserver.VerifSetPoint(dispatch)
}

func dispatch(name string) {
	if b := current.Load(); b != nil {
		b.hook(name)
	}
}

// ---------------------------------------------------------------- barrier

// barrier holds requests at the H4 point until all n requests of the case are
// accounted for: arrived at the point, or finished without reaching it (refused
// before or at the lookup). Requests that arrived are blocked, so they cannot
// be among the finished ones before the release: arrived+finished counts
// distinct requests.
type barrier struct {
	mu       sync.Mutex
	n        int
	arrived  int
	finished int
	released bool
	timedOut bool
	atPoint  map[string]int
	ch       chan struct{}
	wait     time.Duration
}

func newBarrier(n int) *barrier {
	w := barrierWaitLong
	if barrierTimeouts.Load() >= 3 {
		w = barrierWaitShort
	}
	return &barrier{n: n, ch: make(chan struct{}), atPoint: map[string]int{}, wait: w}
}

func (b *barrier) releaseLocked() {
	if !b.released {
		b.released = true
		close(b.ch)
	}
}

func (b *barrier) hook(name string) {
	b.mu.Lock()
	if b.released {
		b.atPoint[name+" (after release)"]++
		b.mu.Unlock()
		return
	}
	b.arrived++
	b.atPoint[name]++
	if b.arrived+b.finished >= b.n {
		b.releaseLocked()
	}
	ch := b.ch
	b.mu.Unlock()
	tm := time.NewTimer(b.wait)
	defer tm.Stop()
	select {
	case <-ch:
	case <-tm.C:
		b.mu.Lock()
		if !b.released {
			b.timedOut = true
			b.releaseLocked()
		}
		b.mu.Unlock()
	}
}

func (b *barrier) done() {
	b.mu.Lock()
	b.finished++
	if !b.released && b.arrived+b.finished >= b.n {
		b.releaseLocked()
	}
	b.mu.Unlock()
}

// ---------------------------------------------------------------- protocol

type clientInfo struct{ id, secret string }

func clientOf(name string) clientInfo {
	if name == "conf" {
		return clientInfo{"conf", confSecret}
	}
	return clientInfo{"pub", ""}
}

// obtainCode performs the browser flow: GET the login form (which sets the CSRF
// cookie), POST it back with the user's credentials, read the code from the
// redirect.
func obtainCode(cl clientInfo, challenge, scope string) (string, error) {
	q := url.Values{}
	q.Set("response_type", "code")
	q.Set("client_id", cl.id)
	q.Set("redirect_uri", redirectURI)
	if scope != "" {
		q.Set("scope", scope)
	}
	q.Set("state", "st")
	if challenge != "" {
		q.Set("code_challenge", challenge)
		q.Set("code_challenge_method", "S256")
	}
	g := fx.Do(srvfix.Request{Method: "GET", Path: "/oauth2/authorize?" + q.Encode(), Header: map[string]string{"Accept": "text/html"}})
	if g.Status != 200 {
		return "", fmt.Errorf("GET authorize: status %d: %.200s", g.Status, g.Body)
	}
	csrf := ""
	for _, sc := range g.Header.Values("Set-Cookie") {
		if strings.HasPrefix(sc, "ego_oauth_csrf=") {
			csrf = strings.SplitN(strings.TrimPrefix(sc, "ego_oauth_csrf="), ";", 2)[0]
		}
	}
	if csrf == "" {
		return "", fmt.Errorf("GET authorize: no CSRF cookie")
	}
	if !strings.Contains(string(g.Body), csrf) {
		return "", fmt.Errorf("GET authorize: CSRF value not in the form")
	}
	form := url.Values{}
	form.Set("client_id", cl.id)
	form.Set("redirect_uri", redirectURI)
	form.Set("scope", scope)
	form.Set("state", "st")
	if challenge != "" {
		form.Set("code_challenge", challenge)
		form.Set("code_challenge_method", "S256")
	}
	form.Set("username", fx.Opts.AdminUser)
	form.Set("password", fx.Opts.AdminPassword)
	form.Set("csrf_token", csrf)
	p := fx.Do(srvfix.Request{Method: "POST", Path: "/oauth2/authorize", Body: form.Encode(), Header: map[string]string{
		"Content-Type": "application/x-www-form-urlencoded", "Cookie": "ego_oauth_csrf=" + csrf, "Accept": "text/html"}})
	if p.Status != 302 {
		return "", fmt.Errorf("POST authorize: status %d: %.200s", p.Status, p.Body)
	}
	loc, err := url.Parse(p.Header.Get("Location"))
	if err != nil {
		return "", err
	}
	code := loc.Query().Get("code")
	if code == "" {
		return "", fmt.Errorf("POST authorize: no code in %q", p.Header.Get("Location"))
	}
	return code, nil
}

type tokenResult struct {
	status  int
	access  string
	refresh string
	errCode string
	panicv  any
}

func (r tokenResult) success() bool { return r.status == 200 && r.access != "" }

func tokenRequest(cl clientInfo, basic bool, form url.Values) tokenResult {
	h := map[string]string{"Content-Type": "application/x-www-form-urlencoded"}
	if basic {
		h["Authorization"] = srvfix.Basic(cl.id, cl.secret)
	} else {
		form.Set("client_id", cl.id)
		if cl.secret != "" {
			form.Set("client_secret", cl.secret)
		}
	}
	resp := fx.Do(srvfix.Request{Method: "POST", Path: "/oauth2/token", Header: h, Body: form.Encode()})
	out := tokenResult{status: resp.Status, panicv: resp.Panic}
	var m map[string]any
	if json.Unmarshal(resp.Body, &m) == nil {
		out.access, _ = m["access_token"].(string)
		out.refresh, _ = m["refresh_token"].(string)
		out.errCode, _ = m["error"].(string)
	}
	return out
}

func codeForm(code string, r Req) url.Values {
	f := url.Values{}
	f.Set("grant_type", "authorization_code")
	f.Set("code", code)
	f.Set("redirect_uri", redirectURI)
	if r.Verifier != "" {
		f.Set("code_verifier", r.Verifier)
	}
	return f
}

func refreshForm(tok string) url.Values {
	f := url.Values{}
	f.Set("grant_type", "refresh_token")
	f.Set("refresh_token", tok)
	return f
}

// credential is what one round of a case races for.
type credential struct {
	value     string
	challenge string
	// leftovers to remove after the round (harness housekeeping: ego's caches
	// hold at most 1000 entries and refresh tokens live for 24 h)
	refreshMade []string
}

// mint creates the credential under test with the barrier off.
func mint(c Case) (*credential, error) {
	cl := clientOf(c.Client)
	cr := &credential{}
	if c.PKCE {
		cr.challenge = c.Challenge
		if cr.challenge == "" {
			cr.challenge = s256(c.Right)
		}
	}
	code, err := obtainCode(cl, cr.challenge, c.Scope)
	if err != nil {
		return nil, err
	}
	if c.Kind == "code" {
		cr.value = code
		return cr, nil
	}
	first := tokenRequest(cl, true, codeForm(code, Req{Verifier: c.Right}))
	if !first.success() || first.refresh == "" {
		return nil, fmt.Errorf("initial code exchange: status %d error %q refresh=%v", first.status, first.errCode, first.refresh != "")
	}
	tok := first.refresh
	for i := 0; i < c.Rotations; i++ {
		nx := tokenRequest(cl, i%2 == 0, refreshForm(tok))
		if !nx.success() || nx.refresh == "" {
			return nil, fmt.Errorf("rotation %d: status %d error %q", i, nx.status, nx.errCode)
		}
		tok = nx.refresh
	}
	cr.value = tok
	return cr, nil
}

func present(c Case, cr *credential, r Req) tokenResult {
	cl := clientOf(c.Client)
	if c.Kind == "code" {
		return tokenRequest(cl, r.Basic, codeForm(cr.value, r))
	}
	return tokenRequest(cl, r.Basic, refreshForm(cr.value))
}

func cleanup(c Case, cr *credential, results []tokenResult) {
	for _, r := range results {
		if r.refresh != "" {
			caches.Delete(caches.OAuthRefreshCache, r.refresh)
		}
	}
	if c.Kind == "code" {
		caches.Delete(caches.OAuthCodeCache, cr.value)
	} else {
		caches.Delete(caches.OAuthRefreshCache, cr.value)
	}
}

// ---------------------------------------------------------------- oracle

type roundResult struct {
	results  []tokenResult
	arrived  int
	timedOut bool
	atPoint  map[string]int
}

func runConcurrent(c Case, cr *credential, hooked bool) roundResult {
	n := len(c.Reqs)
	rr := roundResult{results: make([]tokenResult, n)}
	var b *barrier
	if hooked {
		b = newBarrier(n)
		current.Store(b)
		defer current.Store(nil)
	}
	start := make(chan struct{})
	var wg sync.WaitGroup
	for i := range c.Reqs {
		wg.Add(1)
		go func(i int) {
			defer wg.Done()
			<-start
			rr.results[i] = present(c, cr, c.Reqs[i])
			if b != nil {
				b.done()
			}
		}(i)
	}
	close(start)
	wg.Wait()
	if b != nil {
		b.mu.Lock()
		rr.arrived, rr.timedOut, rr.atPoint = b.arrived, b.timedOut, b.atPoint
		b.mu.Unlock()
		if rr.timedOut {
			barrierTimeouts.Add(1)
		} else {
			barrierTimeouts.Store(0)
		}
	}
	return rr
}

func describe(c Case, res []tokenResult) string {
	var sb strings.Builder
	for i, r := range res {
		fmt.Fprintf(&sb, "[%d %s basic=%v -> %d", i, c.Reqs[i].VClass, c.Reqs[i].Basic, r.status)
		if r.success() {
			sb.WriteString(" TOKENS")
		}
		if r.errCode != "" {
			sb.WriteString(" " + r.errCode)
		}
		sb.WriteString("] ")
	}
	return sb.String()
}

// judge applies the mode-independent obligations to one round.
func judge(c Case, cr *credential, res []tokenResult, modeClass string) *vkit.Failure {
	succ := 0
	for i, r := range res {
		if r.panicv != nil {
			return &vkit.Failure{Sig: "panic in token endpoint kind=" + c.Kind, Observed: fmt.Sprintf("request %d: panic %v", i, r.panicv), Expected: "a token response or an OAuth error"}
		}
		if !r.success() {
			continue
		}
		succ++
		if c.Kind == "code" && cr.challenge != "" && s256(c.Reqs[i].Verifier) != cr.challenge {
			chc := c.ChClass
			if chc == "" {
				chc = "s256"
			}
			return &vkit.Failure{Sig: "pkce: tokens issued for a non-matching verifier class=" + c.Reqs[i].VClass + " challenge=" + chc,
				Observed: fmt.Sprintf("request %d (verifier class %s, %d bytes) got tokens; %s", i, c.Reqs[i].VClass, len(c.Reqs[i].Verifier), describe(c, res)),
				Expected: "invalid_grant: BASE64URL(SHA256(verifier)) != code_challenge"}
		}
	}
	if succ >= 2 {
		what := "authorization code"
		if c.Kind == "refresh" {
			what = "refresh token"
		}
		return &vkit.Failure{Sig: fmt.Sprintf("double redemption kind=%s mode=%s", c.Kind, modeClass),
			Observed: fmt.Sprintf("%d of %d requests presenting the same %s received tokens: %s", succ, len(res), what, describe(c, res)),
			Expected: "at most one successful token response per " + what}
	}
	return nil
}

func oracle(c Case) vkit.Outcome {
	var out vkit.Outcome
	n := len(c.Reqs)
	out.NonTrivial = n >= 2
	if c.Kind != "code" && c.Kind != "refresh" || n == 0 || len(c.Right) < 2 {
		out.Skip = "malformed case"
		return out
	}
	mixed := false
	for _, r := range c.Reqs {
		if r.VClass != "right" && r.VClass != "n/a" {
			mixed = true
		}
	}
	out.Labels = []string{
		fmt.Sprintf("kind=%s mode=%s", c.Kind, c.Mode),
		fmt.Sprintf("client=%s pkce=%v", c.Client, c.PKCE),
		fmt.Sprintf("n=%02d", n),
	}
	if c.Kind == "code" && c.PKCE {
		for _, r := range c.Reqs {
			out.Labels = append(out.Labels, "verifier class="+r.VClass)
		}
		out.Labels = append(out.Labels, fmt.Sprintf("verifiers mixed=%v", mixed), "challenge class="+c.ChClass)
	}
	if c.Kind == "refresh" {
		out.Labels = append(out.Labels, fmt.Sprintf("refresh rotations=%d", c.Rotations))
	}
	fail := func(err error) vkit.Outcome {
		setupErrs.Add(1)
		firstSetup.CompareAndSwap(nil, err.Error())
		out.Skip = "setup failed"
		return out
	}

	switch c.Mode {
	case "barrier":
		cr, err := mint(c)
		if err != nil {
			return fail(err)
		}
		rr := runConcurrent(c, cr, true)
		cleanup(c, cr, rr.results)
		switch {
		case rr.timedOut:
			out.Labels = append(out.Labels, "barrier: incomplete (bounded wait expired)")
		case rr.arrived == n:
			out.Labels = append(out.Labels, "barrier: all N held between lookup and delete")
		case rr.arrived >= 2:
			out.Labels = append(out.Labels, "barrier: >=2 but not all held (others refused before the point)")
		default:
			out.Labels = append(out.Labels, "barrier: <2 held (others refused before the point)")
		}
		if f := judge(c, cr, rr.results, "concurrent"); f != nil {
			f.Observed += fmt.Sprintf(" | held between lookup and delete: %d of %d %v", rr.arrived, n, sortedCounts(rr.atPoint))
			out.Fail = f
			return out
		}
		if rr.timedOut {
			out.Inconclusive = "barrier incomplete within the bounded wait"
		}
	case "stress":
		authserver.VerifSetPoint(nil)
		defer authserver.VerifSetPoint(dispatch)
		rounds := c.Rounds
		if rounds < 1 {
			rounds = 1
		}
		for i := 0; i < rounds; i++ {
			cr, err := mint(c)
			if err != nil {
				return fail(err)
			}
			rr := runConcurrent(c, cr, false)
			cleanup(c, cr, rr.results)
			if f := judge(c, cr, rr.results, "concurrent"); f != nil {
				f.Observed += fmt.Sprintf(" | hook-free stress, round %d of %d, GOMAXPROCS %d", i+1, rounds, runtime.GOMAXPROCS(0))
				out.Fail = f
				return out
			}
		}
	case "seq":
		cr, err := mint(c)
		if err != nil {
			return fail(err)
		}
		res := make([]tokenResult, n)
		for i, r := range c.Reqs {
			res[i] = present(c, cr, r)
		}
		cleanup(c, cr, res)
		if f := judge(c, cr, res, "seq"); f != nil {
			out.Fail = f
			return out
		}
		// the first presentation of a fresh credential: nothing else can
		// have consumed it, so it succeeds iff the verifier matches
		want := c.Kind == "refresh" || cr.challenge == "" || s256(c.Reqs[0].Verifier) == cr.challenge
		if want && !res[0].success() {
			out.Fail = &vkit.Failure{Sig: fmt.Sprintf("fresh credential refused kind=%s pkce=%v", c.Kind, c.PKCE),
				Observed: fmt.Sprintf("first presentation (verifier class %s): status %d error %q; %s", c.Reqs[0].VClass, res[0].status, res[0].errCode, describe(c, res)),
				Expected: "200 with tokens: valid client, fresh credential, matching verifier"}
			return out
		}
		out.Labels = append(out.Labels, fmt.Sprintf("seq: first presentation expected success=%v", want))
	default:
		out.Skip = "malformed case"
	}
	return out
}

func sortedCounts(m map[string]int) string {
	ks := make([]string, 0, len(m))
	for k := range m {
		ks = append(ks, k)
	}
	sort.Strings(ks)
	var sb strings.Builder
	for _, k := range ks {
		fmt.Fprintf(&sb, "%s=%d ", k, m[k])
	}
	return strings.TrimSpace(sb.String())
}

func fixedCases() []Case {
	right := "dBjftJeZ4CVP-mB92K27uhbUJU1p1r_wW1gFWFOEjXk" // RFC 7636 appendix B
	mk := func(kind, mode, client string, pkce bool, rot int, classes ...string) Case {
		c := Case{Kind: kind, Mode: mode, Client: client, PKCE: pkce, Right: right, Scope: "openid profile", Rotations: rot}
		if pkce {
			c.ChClass, c.Challenge = "s256", s256(right)
		}
		if mode == "stress" {
			c.Rounds = 8
		}
		for i, cl := range classes {
			r := Req{VClass: cl, Basic: i%2 == 0, Verifier: right}
			switch cl {
			case "empty":
				r.Verifier = ""
			case "prefix":
				r.Verifier = right[:20]
			case "case":
				r.Verifier = swapCase(right)
			case "challenge":
				r.Verifier = s256(right)
			case "wrong":
				r.Verifier = strings.Repeat("A", 43)
			case "n/a":
				r.Verifier = ""
			}
			c.Reqs = append(c.Reqs, r)
		}
		return c
	}
	return []Case{
		mk("code", "seq", "pub", true, 0, "right", "right"),
		mk("code", "seq", "conf", false, 0, "empty", "right"),
		mk("code", "seq", "pub", true, 0, "prefix", "right"),
		mk("code", "seq", "conf", true, 0, "case", "challenge", "empty", "wrong"),
		mk("refresh", "seq", "pub", true, 1, "n/a", "n/a", "n/a"),
		func() Case {
			c := mk("code", "seq", "pub", true, 0, "right", "right")
			c.ChClass, c.Challenge = "truncated", s256(right)[:10]
			return c
		}(),
		mk("code", "barrier", "pub", true, 0, "right", "right"),
		mk("code", "barrier", "conf", false, 0, "right", "right", "right", "right"),
		mk("refresh", "barrier", "conf", true, 0, "n/a", "n/a"),
		mk("refresh", "barrier", "pub", true, 2, "n/a", "n/a", "n/a", "n/a", "n/a", "n/a", "n/a", "n/a"),
		mk("code", "stress", "pub", true, 0, "right", "right", "right", "right", "right", "right", "right", "right"),
		mk("refresh", "stress", "conf", false, 0, "n/a", "n/a", "n/a", "n/a", "n/a", "n/a", "n/a", "n/a"),
	}
}

func TestC23(t *testing.T) {
	runtime.GOMAXPROCS(16)
	startFixture(t)
	vkit.Run(t, vkit.Spec[Case]{
		ID:    "C23",
		Level: "exploration",
		Rule: "one credential (authorization code, with or without S256 challenge, for a confidential or a public client; or a refresh token after 0..2 rotations) " +
			"obtained through the real authorize/token endpoints and presented by N=2..16 concurrent token requests (barrier mode: all held at hook H4 between cache lookup and delete, " +
			"then released together; stress mode: no hook, gate start, 8..40 fresh credentials per case) or K=2..5 sequential ones; verifiers drawn from right/wrong/empty/prefix/extended/" +
			"case-changed/unicode/long/challenge-as-verifier/whitespace/NUL; the challenge is S256(right) or, in a small share, what a sloppy client sends (truncated, padded, std-alphabet, upper-cased). Non-trivial: >= 2 requests present the same credential; distinct by the whole case (kind, mode, client, N, per-request verifier and client-auth style).",
		Assumptions: []string{
			"the presenting client is the client the credential was issued to, with correct client authentication and redirect_uri",
			"success = HTTP 200 with a non-empty access_token",
			"barrier mode forces 'every lookup before any delete' only as far as hook H4 sits exactly between the lookup and the delete (it does, codes.go); stress mode can only find, never prove",
			"a barrier not completed within its bounded wait makes the case inconclusive, never a violation; >= 2 successes are a violation under any timing",
		},
		Gen:      genCase,
		Oracle:   oracle,
		Fixed:    fixedCases,
		Quick:    600,
		Thorough: 12000,
		Extra: func() map[string]any {
			return map[string]any{"setup_errors": int(setupErrs.Load())}
		},
	})
	if n := setupErrs.Load(); n > 0 {
		fmt.Printf("HARNESS-ERROR property=C23 %d cases could not obtain their credential; first: %v\n", n, firstSetup.Load())
		t.Errorf("harness error: %d set-up failures; first: %v", n, firstSetup.Load())
	}
}
