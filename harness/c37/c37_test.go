package c37

import (
	"fmt"
	"strings"
	"testing"
	"time"

	"github.com/tucats/ego/internal/util"
	"github.com/tucats/ego/verif/vkit"
	"pgregory.net/rapid"
)

// Case is either a duration to format and read back (Kind "roundtrip") or a
// generated spelling of the documented grammar with the value the model
// assigns to it (Kind "spelling").
type Case struct {
	Kind    string `json:"kind"`
	Seconds int64  `json:"seconds,omitempty"`
	Text    string `json:"text,omitempty"`
	Want    int64  `json:"want_seconds,omitempty"`
}

const maxSeconds = int64(1_000_000) * 3600

func genSeconds(t *rapid.T) int64 {
	switch rapid.IntRange(0, 5).Draw(t, "class") {
	case 0: // boundaries around unit changes
		base := rapid.SampledFrom([]int64{0, 1, 59, 60, 61, 3599, 3600, 3601, 86399, 86400, 86401, 2 * 86400, 7 * 86400, maxSeconds}).Draw(t, "base")
		if rapid.Bool().Draw(t, "neg") {
			base = -base
		}
		return base
	case 1: // field-wise construction: each of d,h,m,s zero or not
		d := rapid.SampledFrom([]int64{0, 0, 1, 2, 30, 365, 41666}).Draw(t, "d")
		h := rapid.SampledFrom([]int64{0, 0, 1, 12, 23}).Draw(t, "h")
		m := rapid.SampledFrom([]int64{0, 0, 1, 30, 59}).Draw(t, "m")
		s := rapid.SampledFrom([]int64{0, 0, 1, 30, 59}).Draw(t, "s")
		v := d*86400 + h*3600 + m*60 + s
		if rapid.Bool().Draw(t, "neg") {
			v = -v
		}
		return v
	case 2:
		return rapid.Int64Range(-86400*3, 86400*3).Draw(t, "small")
	default:
		return rapid.Int64Range(-maxSeconds, maxSeconds).Draw(t, "any")
	}
}

// genSpelling builds a documented spelling: optional sign, then a non-empty
// subsequence of the fields "Nd", "Nh", "Nm", "Ns" in that order, separated
// either by single spaces (the spaced form FormatDuration prints) or by
// nothing (Go's compact form with a day suffix).
func genSpelling(t *rapid.T) Case {
	units := []struct {
		suffix string
		mul    int64
		max    int
	}{{"d", 86400, 400}, {"h", 3600, 23}, {"m", 60, 59}, {"s", 1, 59}}
	spaced := rapid.Bool().Draw(t, "spaced")
	var parts []string
	var total int64
	for _, u := range units {
		if rapid.Bool().Draw(t, "has_"+u.suffix) {
			n := rapid.IntRange(0, u.max).Draw(t, "n_"+u.suffix)
			parts = append(parts, fmt.Sprintf("%d%s", n, u.suffix))
			total += int64(n) * u.mul
		}
	}
	if len(parts) == 0 {
		parts = []string{"0s"}
	}
	sep := ""
	if spaced {
		sep = " "
	}
	return Case{Kind: "spelling", Text: strings.Join(parts, sep), Want: total}
}

func oracle(c Case) vkit.Outcome {
	var out vkit.Outcome
	switch c.Kind {
	case "roundtrip":
		d := time.Duration(c.Seconds) * time.Second
		text := util.FormatDuration(d, true)
		fields := 0
		for _, u := range []int64{86400, 3600, 60, 1} {
			a := c.Seconds
			if a < 0 {
				a = -a
			}
			if (a/u)%map[int64]int64{86400: 1 << 40, 3600: 24, 60: 60, 1: 60}[u] != 0 {
				fields++
			}
		}
		out.NonTrivial = fields >= 2 || c.Seconds < 0
		out.Key = fmt.Sprint("rt:", c.Seconds)
		out.Labels = []string{fmt.Sprintf("roundtrip fields=%d neg=%v", fields, c.Seconds < 0)}
		got, err := util.ParseDuration(text)
		if err != nil {
			out.Fail = &vkit.Failure{Sig: sigFor(text, c.Seconds < 0, "error"), Observed: fmt.Sprintf("FormatDuration(%ds)=%q; ParseDuration error: %v", c.Seconds, text, err), Expected: fmt.Sprintf("%ds", c.Seconds)}
		} else if got.Truncate(time.Second) != d && int64(got/time.Second) != c.Seconds {
			out.Fail = &vkit.Failure{Sig: sigFor(text, c.Seconds < 0, "value"), Observed: fmt.Sprintf("FormatDuration(%ds)=%q; ParseDuration=%v", c.Seconds, text, got), Expected: fmt.Sprintf("%ds", c.Seconds)}
		}
	case "spelling":
		nf := len(strings.Fields(strings.NewReplacer("d", "d ", "h", "h ", "m", "m ", "s", "s ").Replace(c.Text)))
		out.NonTrivial = nf >= 2
		out.Key = "sp:" + c.Text
		spaced := strings.Contains(c.Text, " ")
		out.Labels = []string{fmt.Sprintf("spelling fields=%d spaced=%v days=%v", nf, spaced, strings.Contains(c.Text, "d"))}
		got, err := util.ParseDuration(c.Text)
		if err != nil {
			out.Fail = &vkit.Failure{Sig: sigFor(c.Text, false, "error"), Observed: fmt.Sprintf("ParseDuration(%q) error: %v", c.Text, err), Expected: fmt.Sprintf("%ds", c.Want)}
		} else if int64(got/time.Second) != c.Want {
			out.Fail = &vkit.Failure{Sig: sigFor(c.Text, false, "value"), Observed: fmt.Sprintf("ParseDuration(%q)=%v", c.Text, got), Expected: fmt.Sprintf("%ds", c.Want)}
		}
	}
	return out
}

// sigFor classifies a failing text by its shape: which unit letters it has,
// whether it is spaced, whether negative, and how it failed.
func sigFor(text string, neg bool, how string) string {
	shape := ""
	for _, u := range "dhms" {
		if strings.ContainsRune(text, u) {
			shape += string(u)
		}
	}
	return fmt.Sprintf("%s shape=%s spaced=%v neg=%v", how, shape, strings.Contains(text, " "), neg || strings.HasPrefix(text, "-"))
}

func TestC37(t *testing.T) {
	vkit.Run(t, vkit.Spec[Case]{
		ID:    "C37",
		Level: "exploration",
		Rule: "roundtrip: durations -1e6h..1e6h at second resolution (boundary-weighted), Parse(Format(d,true)) must equal d; " +
			"spelling: optional fields Nd Nh Nm Ns in order, spaced or compact, must parse to the field sum. " +
			"Non-trivial: >=2 non-zero fields or negative; distinct by value / text.",
		Assumptions: []string{"the documented forms are: what FormatDuration(d,true) prints, and d/h/m/s fields in descending order separated by single spaces or nothing"},
		Gen: func(t *rapid.T) Case {
			if rapid.IntRange(0, 2).Draw(t, "kind") == 0 {
				return genSpelling(t)
			}
			return Case{Kind: "roundtrip", Seconds: genSeconds(t)}
		},
		Oracle:   oracle,
		Quick:    20000,
		Thorough: 400000,
	})
}
