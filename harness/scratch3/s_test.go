package scratch3
import ("testing";"fmt";"sort";"os"; "pgregory.net/rapid"; "github.com/tucats/ego/verif/proggen"; "github.com/tucats/ego/verif/goref"; "github.com/tucats/ego/verif/egorun")
func TestS(t *testing.T){
  n := 300
  var units []goref.Unit
  var progs []proggen.Program
  for i := 0; i < n; i++ {
    pfx := fmt.Sprintf("p%d_", i)
    g := rapid.Custom(func(t *rapid.T) proggen.Program { return proggen.GoProgram(t, pfx) })
    p := g.Example(i+1)
    progs = append(progs, p)
    units = append(units, goref.Unit{Body: p.Body, Entry: pfx+"main"})
  }
  res, err := goref.RunBatch(units)
  if err != nil { t.Fatal(err) }
  feats := map[string]int{}
  bad, panics, mism := 0, 0, 0
  kinds := map[string]int{}
  for i, r := range res {
    for _, f := range progs[i].Features { feats[f]++ }
    if r.BuildErr != "" { bad++; if bad <= 3 { fmt.Println("BUILD ERR", r.BuildErr); } ; continue }
    if r.Panicked { panics++ }
    for _, mode := range []string{"dynamic","relaxed","strict"} {
      er := egorun.Run(progs[i].EgoSource(), egorun.Config{Types: mode, Optimize: 0, Extensions: false, EntryPoint: "main"})
      if er.Stdout != r.Stdout || er.Failed() != r.Panicked {
        mism++
        k := er.CompileErr + "|" + er.RunErr
        if idx := len(k); idx > 90 { k = k[:90] }
        kinds[mode+" "+k]++
        if kinds[mode+" "+k] <= 1 { fmt.Printf("---- MISMATCH prog %d mode %s abort=%s\nEGO err=%q %q panic=%q\n", i, mode, progs[i].Abort, er.CompileErr, er.RunErr, er.GoPanic); fmt.Println(firstDiff(r.Stdout, er.Stdout)); os.WriteFile(fmt.Sprintf("/verif/.cache/gg/prog%d.ego", i), []byte(progs[i].EgoSource()), 0o644) }
      }
    }
  }
  fmt.Println("programs", n, "builderr", bad, "go panics", panics, "mismatches", mism)
  var kk []string; for k := range kinds { kk = append(kk, k) }; sort.Strings(kk)
  for _, k := range kk { fmt.Printf("%4d KIND %s\n", kinds[k], k) }
  var ks []string; for k := range feats { ks = append(ks, k) }; sort.Strings(ks)
  for _, k := range ks { fmt.Printf("%4d %s\n", feats[k], k) }
}
func firstDiff(a, b string) string {
  i := 0
  for i < len(a) && i < len(b) && a[i] == b[i] { i++ }
  s := i-80; if s < 0 { s = 0 }
  ea, eb := i+80, i+80
  if ea > len(a) { ea = len(a) }; if eb > len(b) { eb = len(b) }
  return fmt.Sprintf("GO : %q\nEGO: %q", a[s:ea], b[s:eb])
}
