package c34

import (
	"strings"
	"testing"
)

// Self-test of the trusted base: token sequences worked out by hand from CSS
// Syntax Level 3 §4. Not run by the driver (which runs ^TestC34$ only); run
// with `go test ./c34 -run TestTokenizerSelf`.
func TestTokenizerSelf(t *testing.T) {
	show := func(src string) string {
		var parts []string
		for _, tk := range tokenize(src) {
			parts = append(parts, tk.String())
		}
		return strings.Join(parts, " ")
	}
	for _, c := range []struct{ src, want string }{
		{`a .b`, `ident("a") ws delim(".") ident("b")`},
		{`a:hover`, `ident("a") colon ident("hover")`},
		{`1px -2px`, `dimension(1px) ws dimension(-2px)`},
		{`1px-2px`, `dimension(1px-2px)`},
		{`1px + 2px`, `dimension(1px) ws delim("+") ws dimension(2px)`},
		{`1px +2px`, `dimension(1px) ws dimension(2px)`},
		{`and (`, `ident("and") ws (`},
		{`and(`, `function("and")`},
		{`url(a b)`, `bad-url`},
		{`url( a.png )`, `url("a.png")`},
		{`url( "a" )`, `function("url") ws string("a") ws )`},
		{`url(img/*.png)`, `url("img/*.png")`},
		{`0/**/auto`, `number(0) comment ident("auto")`},
		{`"a\"b" 'c\
d'`, `string("a\"b") ws string("cd")`},
		{`.hover\: a`, `delim(".") ident("hover:") ws ident("a")`},
		{`.\31  a`, `delim(".") ident("1") ws ident("a")`},
		{`.\31 a`, `delim(".") ident("1a")`},
		{`#fff #1e3 #-x`, `hash("fff") ws hash("1e3") ws hash("-x")`},
		{`2n+1`, `dimension(2n) number(1)`},
		{`1em.5em`, `dimension(1em) dimension(0.5em)`},
		{`--x:1`, `ident("--x") colon number(1)`},
		{`@media`, `at-keyword("media")`},
		{`<!-- -->`, `CDO ws CDC`},
		{`U+0025-00FF`, `ident("U") number(25) dimension(-0FF)`},
		{`!important`, `delim("!") ident("important")`},
		{`1e3 1e 1.`, `number(1000) ws dimension(1e) ws number(1) delim(".")`},
	} {
		if got := show(c.src); got != c.want {
			t.Errorf("tokenize(%q)\n got  %s\n want %s", c.src, got, c.want)
		}
	}
}
