package c34

// C34 "Minified CSS keeps the stylesheet's meaning".
//
// Statement decided: minifying a stylesheet removes only comments,
// insignificant whitespace and redundant semicolons; the sequence of CSS
// tokens (with whitespace kept where it separates tokens or forms a descendant
// combinator) is unchanged.
//
// Preconditions taken from the real caller (internal/server/assets/handler.go
// Loader): MinifyCSS receives the complete bytes of one .css asset file and
// its result is served as the stylesheet. So inputs are whole, well-formed
// stylesheets (no unterminated strings/comments/blocks); the generator only
// writes such text. The shipped lib/assets/dashboard/*.css files are fixed
// cases.
//
// Oracle (DESIGN.md §3 C34), both directions:
//  1. tokenize original and minified text with a CSS Syntax 3 tokenizer;
//  2. drop comments and whitespace, drop redundant semicolons (a ';' whose
//     next token is ';' or '}') on BOTH sides, and require the two token
//     sequences to be equal token by token (type + value). A dropped, merged,
//     split or invented token fails here; so does whitespace whose removal
//     makes the neighbours re-tokenize differently ("1px -2px", "and (").
//  3. for every position between two tokens where whitespace is significant
//     although the neighbours would re-tokenize the same without it —
//     a descendant combinator in a selector ("a .b", "a :hover"), or
//     whitespace next to a '+' or '-' inside calc()/min()/max()/clamp()
//     (Values 4: required on both sides) — the minified text must have
//     whitespace iff the original has.
//
// Nothing else is demanded: the minifier may keep or drop any other
// whitespace, may keep comments, may keep redundant semicolons.

import (
	"fmt"
	"os"
	"path/filepath"
	"sort"
	"strings"
	"testing"

	"github.com/tucats/ego/internal/util/javascript"
	"github.com/tucats/ego/verif/vkit"
	"pgregory.net/rapid"
)

type Case struct {
	// Src is the stylesheet text (generated and hand-written cases).
	Src string `json:"src,omitempty"`
	// File names a shipped asset relative to lib/assets/dashboard in the
	// tree under test (fixed cases); the oracle reads it.
	File string `json:"file,omitempty"`
}

// item is a significant token plus a description of what separated it from
// the previous significant token.
type item struct {
	tok        token
	gapWS      bool // at least one whitespace token in the gap before tok
	gapComment bool // at least one comment in the gap before tok
	// context of the gap before tok (computed for the original only)
	combinator bool // whitespace here is/would be a descendant combinator
	mathop     bool // whitespace here is next to + or - inside a math function
}

type frameKind int

const (
	fRules frameKind = iota
	fKeyframes
	fDecls
	fBlock
	fParen
)

type frame struct {
	kind frameKind
	sel  bool // selector grammar applies to the contents (only fParen)
	math bool
	at   string // for fParen directly in an at-rule prelude
}

var selectorFunctions = map[string]bool{"not": true, "is": true, "where": true, "has": true, "matches": true, "-webkit-any": true,
	"-moz-any": true, "host": true, "host-context": true, "slotted": true, "cue": true, "current": true, "past": true, "future": true}

var mathFunctions = map[string]bool{"calc": true, "-webkit-calc": true, "-moz-calc": true, "min": true, "max": true, "clamp": true,
	"round": true, "mod": true, "rem": true, "sin": true, "cos": true, "tan": true, "asin": true, "acos": true, "atan": true,
	"atan2": true, "pow": true, "sqrt": true, "hypot": true, "log": true, "exp": true, "abs": true, "sign": true}

var ruleListAtRules = map[string]bool{"media": true, "supports": true, "layer": true, "container": true, "document": true,
	"-moz-document": true, "scope": true, "starting-style": true}

func endsCompound(t token) bool {
	switch t.Kind {
	case tIdent, tHash, tRBracket, tRParen:
		return true
	case tDelim:
		return t.Val == "*" || t.Val == "&"
	}
	return false
}

func startsCompound(t token) bool {
	switch t.Kind {
	case tIdent, tHash, tLBracket, tColon:
		return true
	case tDelim:
		return t.Val == "." || t.Val == "*" || t.Val == "&"
	}
	return false
}

func isPlusMinus(t token) bool { return t.Kind == tDelim && (t.Val == "+" || t.Val == "-") }

// items groups a token list into significant tokens with their gaps and, when
// withContext is set, walks the rule structure to mark the gaps where
// whitespace carries meaning beyond separating tokens.
func items(toks []token, withContext bool) []item {
	var out []item
	var ws, cm bool
	for _, t := range toks {
		switch t.Kind {
		case tWhitespace:
			ws = true
		case tComment:
			cm = true
		default:
			out = append(out, item{tok: t, gapWS: ws, gapComment: cm})
			ws, cm = false, false
		}
	}
	if !withContext {
		return out
	}
	stack := []frame{{kind: fRules}}
	prelude := "" // "", "sel", "kf", "at:<name>"
	for i := range out {
		t := out[i].tok
		top := &stack[len(stack)-1]
		// context of the gap before token i = state after token i-1
		if i > 0 {
			selCtx := (top.kind == fRules && prelude == "sel") || (top.kind == fParen && top.sel)
			out[i].combinator = selCtx && endsCompound(out[i-1].tok) && startsCompound(t)
			out[i].mathop = top.math && (isPlusMinus(out[i-1].tok) || isPlusMinus(t))
		}
		// advance the state over token i
		switch top.kind {
		case fRules, fKeyframes:
			if prelude == "" {
				switch t.Kind {
				case tAtKeyword:
					prelude = "at:" + strings.ToLower(t.Val)
					continue
				case tRBrace:
					if len(stack) > 1 {
						stack = stack[:len(stack)-1]
					}
					continue
				case tSemicolon, tCDO, tCDC:
					continue
				}
				if top.kind == fKeyframes {
					prelude = "kf"
				} else {
					prelude = "sel"
				}
			}
			switch t.Kind {
			case tLBrace:
				nf := frame{kind: fDecls}
				if strings.HasPrefix(prelude, "at:") {
					name := prelude[3:]
					switch {
					case ruleListAtRules[name]:
						nf.kind = fRules
					case strings.HasSuffix(name, "keyframes"):
						nf.kind = fKeyframes
					}
				}
				stack = append(stack, nf)
				prelude = ""
			case tSemicolon:
				prelude = ""
			case tRBrace:
				// stray; treat as end of the enclosing block
				if len(stack) > 1 {
					stack = stack[:len(stack)-1]
				}
				prelude = ""
			case tFunction, tLParen, tLBracket:
				nf := frame{kind: fParen, math: top.math}
				if t.Kind == tFunction {
					name := strings.ToLower(t.Val)
					if prelude == "sel" && selectorFunctions[name] {
						nf.sel = true
					}
					if prelude == "at:supports" && name == "selector" {
						nf.sel = true
					}
					if mathFunctions[name] {
						nf.math = true
					}
				}
				stack = append(stack, nf)
			}
		case fParen:
			switch t.Kind {
			case tFunction, tLParen, tLBracket:
				nf := frame{kind: fParen, math: top.math}
				if t.Kind == tFunction {
					name := strings.ToLower(t.Val)
					if top.sel && selectorFunctions[name] {
						nf.sel = true
					}
					if mathFunctions[name] {
						nf.math = true
					}
				}
				stack = append(stack, nf)
			case tRParen, tRBracket:
				stack = stack[:len(stack)-1]
			}
		case fDecls, fBlock:
			switch t.Kind {
			case tLBrace:
				stack = append(stack, frame{kind: fBlock})
			case tRBrace:
				if len(stack) > 1 {
					stack = stack[:len(stack)-1]
				}
			case tFunction, tLParen, tLBracket:
				nf := frame{kind: fParen}
				if t.Kind == tFunction && mathFunctions[strings.ToLower(t.Val)] {
					nf.math = true
				}
				stack = append(stack, nf)
			}
		}
	}
	return out
}

// dropRedundantSemicolons removes every ';' whose next significant token is
// ';' or '}' (the two forms the statement calls redundant). The gap of a
// removed token is merged into the following one.
func dropRedundantSemicolons(in []item) []item {
	out := make([]item, 0, len(in))
	var ws, cm bool
	for i, it := range in {
		it.gapWS = it.gapWS || ws
		it.gapComment = it.gapComment || cm
		ws, cm = false, false
		if it.tok.Kind == tSemicolon && i+1 < len(in) && (in[i+1].tok.Kind == tSemicolon || in[i+1].tok.Kind == tRBrace) {
			ws, cm = it.gapWS, it.gapComment
			continue
		}
		out = append(out, it)
	}
	return out
}

func gapName(it item) string {
	switch {
	case it.gapWS && it.gapComment:
		return "ws+comment"
	case it.gapWS:
		return "ws"
	case it.gapComment:
		return "comment"
	}
	return "none"
}

// retokenizesSame reports whether writing the two tokens next to each other
// yields exactly the same two tokens.
func retokenizesSame(a, b token) bool {
	r := tokenize(a.Raw + b.Raw)
	return len(r) == 2 && sameToken(r[0], a) && sameToken(r[1], b)
}

func window(its []item, k int) string {
	var sb strings.Builder
	for i := k - 2; i <= k+2; i++ {
		if i < 0 || i >= len(its) {
			continue
		}
		if sb.Len() > 0 {
			sb.WriteString(" ")
		}
		if i > 0 {
			switch gapName(its[i]) {
			case "ws":
				sb.WriteString("␣ ")
			case "comment":
				sb.WriteString("/**/ ")
			case "ws+comment":
				sb.WriteString("␣/**/ ")
			}
		}
		if i == k {
			sb.WriteString("»")
		}
		sb.WriteString(its[i].tok.String())
	}
	return sb.String()
}

func readSource(c Case) (string, error) {
	if c.File == "" {
		return c.Src, nil
	}
	repo := os.Getenv("VERIF_REPO")
	if repo == "" {
		repo = "/repo"
	}
	b, err := os.ReadFile(filepath.Join(repo, "lib", "assets", "dashboard", filepath.Base(c.File)))
	return string(b), err
}

func oracle(c Case) vkit.Outcome {
	var out vkit.Outcome
	src, err := readSource(c)
	if err != nil {
		out.Skip = "asset not readable"
		return out
	}
	min := string(javascript.MinifyCSS([]byte(src)))

	otoks := tokenize(src)
	mtoks := tokenize(min)
	oi := dropRedundantSemicolons(items(otoks, true))
	mi := dropRedundantSemicolons(items(mtoks, false))

	out.Labels, out.NonTrivial = classify(otoks, oi)
	if c.File != "" {
		out.Key = "file:" + c.File
		out.Labels = append(out.Labels, "origin:shipped-asset")
	} else {
		out.Key = src
	}
	for _, t := range otoks {
		if t.Kind == tBadString || t.Kind == tBadURL {
			// the generator is meant to write well-formed CSS only
			out.Labels = append(out.Labels, "input-has-bad-token")
			break
		}
	}

	// 2. token sequences equal
	n := len(oi)
	if len(mi) < n {
		n = len(mi)
	}
	diff := -1
	for k := 0; k < n; k++ {
		if !sameToken(oi[k].tok, mi[k].tok) {
			diff = k
			break
		}
	}
	if diff < 0 && len(oi) != len(mi) {
		diff = n
	}
	if diff >= 0 {
		out.Fail = &vkit.Failure{
			Sig:      tokenDiffSig(oi, mi, diff),
			Observed: fmt.Sprintf("minified %q: token %d differs: minified has …%s…", clip(min, 400), diff, window(mi, diff)),
			Expected: fmt.Sprintf("same token sequence as the original: …%s…", window(oi, diff)),
		}
		return out
	}

	// 3. significant whitespace kept, none invented where it would be significant
	for k := 1; k < len(oi); k++ {
		o, m := oi[k], mi[k]
		if !o.combinator && !o.mathop {
			continue
		}
		what := "descendant-combinator"
		if !o.combinator {
			what = "calc-operator"
		}
		switch {
		case o.gapWS && !m.gapWS:
			out.Fail = &vkit.Failure{
				Sig:      wsDroppedSig(what, oi[k-1].tok, o.tok),
				Observed: fmt.Sprintf("minified %q: no whitespace between %s and %s", clip(min, 400), mi[k-1].tok, m.tok),
				Expected: fmt.Sprintf("whitespace kept (%s): …%s…", what, window(oi, k)),
			}
			return out
		case !o.gapWS && m.gapWS:
			out.Fail = &vkit.Failure{
				Sig:      fmt.Sprintf("ws-invented %s %s|%s", what, oi[k-1].tok.short(), o.tok.short()),
				Observed: fmt.Sprintf("minified %q: whitespace between %s and %s", clip(min, 400), mi[k-1].tok, m.tok),
				Expected: fmt.Sprintf("no whitespace there (it would be a %s): …%s…", what, window(oi, k)),
			}
			return out
		}
	}
	return out
}

// endsWithEscape reports whether the source text of a token ends in a
// backslash escape (e.g. "hover\:" or "\31 ").
func endsWithEscape(raw string) bool {
	rs := []rune(raw)
	for i := 0; i < len(rs); {
		if rs[i] != '\\' {
			i++
			continue
		}
		i++
		if i >= len(rs) {
			return true
		}
		if isHex(rs[i]) {
			n := 0
			for i < len(rs) && n < 6 && isHex(rs[i]) {
				i++
				n++
			}
			if i < len(rs) && (rs[i] == ' ' || rs[i] == '\n' || rs[i] == '\t') {
				i++
			}
		} else {
			i++
		}
		if i >= len(rs) {
			return true
		}
	}
	return false
}

const sigAfterEscape = "backslash escape outside a string is not recognised (whitespace after or inside it is treated as ordinary whitespace)"

// hasEscapedWhitespace reports whether raw contains a backslash directly
// followed by a whitespace character (an escaped space, legal in identifiers
// and unquoted urls).
func hasEscapedWhitespace(raw string) bool {
	for _, w := range []string{"\\ ", "\\\t"} {
		if strings.Contains(raw, w) {
			return true
		}
	}
	return false
}

// tokenDiffSig names the root cause of the first difference as narrowly as
// the token streams allow: which separator the original had between the
// tokens that came out merged, and what kind of text the minifier looked at.
func tokenDiffSig(oi, mi []item, k int) string {
	desc := func(its []item, i int) string {
		if i < 0 || i >= len(its) {
			return "∅"
		}
		return its[i].tok.short()
	}
	gap := func(its []item, i int) string {
		if i <= 0 || i >= len(its) {
			return "none"
		}
		return gapName(its[i])
	}
	if k < len(oi) {
		if o := oi[k].tok; (o.Kind == tURL || o.Kind == tBadURL) && strings.Contains(o.Raw, "/*") {
			return "unquoted url() containing /* is treated as a comment start"
		}
	}
	if k < len(oi) && k < len(mi) {
		o, m := oi[k].tok, mi[k].tok
		if o.Kind == m.Kind && o.Kind != tString && hasEscapedWhitespace(o.Raw) {
			return sigAfterEscape
		}
	}
	// did the original's tokens j and j+1 come out as one token? (j = k, or
	// j = k-1 when the merged token still compares equal, e.g. 0/**/0 -> 00)
	mergedAt := func(j int) bool {
		if j < 0 || j+1 >= len(oi) || j >= len(mi) {
			return false
		}
		o, m := oi[j].tok, mi[j].tok
		if m.Raw == o.Raw+oi[j+1].tok.Raw {
			return true
		}
		if len(m.Raw) > len(o.Raw) && strings.HasPrefix(m.Raw, o.Raw) {
			return true
		}
		return o.Val != "" && len(m.Val) > len(o.Val) && strings.HasPrefix(m.Val, o.Val)
	}
	for _, j := range []int{k, k - 1} {
		if !mergedAt(j) {
			continue
		}
		o, g := oi[j].tok, oi[j+1]
		switch {
		case (g.gapWS || g.gapComment) && endsWithEscape(o.Raw):
			return sigAfterEscape
		case g.gapComment && !g.gapWS:
			return "tokens merged: a comment was their only separator"
		case g.gapWS:
			rs := []rune(o.Raw)
			return fmt.Sprintf("tokens merged: whitespace dropped after %q before %s", string(rs[len(rs)-1]), g.tok.short())
		}
	}
	return fmt.Sprintf("tokens orig=%s[%s]%s[%s]%s min=%s", desc(oi, k-1), gap(oi, k), desc(oi, k), gap(oi, k+1), desc(oi, k+1), desc(mi, k))
}

func wsDroppedSig(what string, l, r token) string {
	if endsWithEscape(l.Raw) {
		return sigAfterEscape
	}
	return fmt.Sprintf("ws-dropped %s %s|%s", what, l.short(), r.short())
}

func clip(s string, n int) string {
	if len(s) > n {
		return s[:n] + "…"
	}
	return s
}

// classify derives the label set and the non-triviality verdict from the
// original's tokens. Non-trivial (DESIGN.md): whitespace adjacent to one of
// + > ~ ( ) : or whitespace inside a string or url token.
func classify(toks []token, its []item) ([]string, bool) {
	set := map[string]bool{}
	nt := false
	prevSig := func(i int) *token {
		for j := i - 1; j >= 0; j-- {
			if toks[j].Kind != tComment && toks[j].Kind != tWhitespace {
				return &toks[j]
			}
		}
		return nil
	}
	nextSig := func(i int) *token {
		for j := i + 1; j < len(toks); j++ {
			if toks[j].Kind != tComment && toks[j].Kind != tWhitespace {
				return &toks[j]
			}
		}
		return nil
	}
	interesting := func(t *token) bool {
		if t == nil {
			return false
		}
		switch t.Kind {
		case tLParen, tRParen, tFunction, tColon:
			return true
		case tDelim:
			return t.Val == "+" || t.Val == ">" || t.Val == "~"
		}
		return false
	}
	for i, t := range toks {
		switch t.Kind {
		case tWhitespace:
			p, n := prevSig(i), nextSig(i)
			if interesting(p) || interesting(n) {
				nt = true
				set["ws-next-to + > ~ ( ) :"] = true
			}
			if n != nil && (n.Kind == tNumber || n.Kind == tDimension || n.Kind == tPercentage) && strings.HasPrefix(n.Raw, "-") && p != nil &&
				(p.Kind == tNumber || p.Kind == tDimension || p.Kind == tPercentage || p.Kind == tIdent) {
				set["value: ws before negative number"] = true
			}
		case tComment:
			set["comment"] = true
		case tString:
			if strings.ContainsAny(t.Raw, " \t\n") {
				nt = true
				set["string with whitespace"] = true
			}
			if strings.Contains(t.Raw, "\\") {
				set["string with escape"] = true
			}
			if strings.Contains(t.Raw, "/*") || strings.Contains(t.Raw, "*/") {
				set["string with comment marker"] = true
			}
		case tURL:
			set["url unquoted"] = true
			if strings.ContainsAny(t.Raw, " \t\n") {
				nt = true
				set["url with whitespace"] = true
			}
		case tFunction:
			if strings.EqualFold(t.Val, "url") {
				set["url quoted"] = true
			}
		case tAtKeyword:
			set["at:"+strings.ToLower(t.Val)] = true
		case tBadString, tBadURL:
			set["bad token in input"] = true
		case tIdent, tHash:
			if strings.Contains(t.Raw, "\\") {
				set["exotic: escape in identifier"] = true
			}
			if strings.HasPrefix(t.Val, "--") {
				set["custom property / var name"] = true
			}
			if strings.EqualFold(t.Val, "important") {
				if p := prevSig(i); p != nil && p.Kind == tDelim && p.Val == "!" {
					set["!important"] = true
				}
			}
		}
	}
	for k := 1; k < len(its); k++ {
		it, prev := its[k], its[k-1]
		if it.combinator && it.gapWS {
			set["selector: descendant combinator"] = true
			if it.tok.Kind == tColon {
				set["selector: descendant before pseudo (a :hover)"] = true
			}
			if prev.tok.Kind == tRParen {
				set["selector: descendant after )"] = true
			}
		}
		if it.combinator && !it.gapWS && it.tok.Kind == tColon {
			set["selector: pseudo attached (a:hover)"] = true
		}
		if it.mathop && it.gapWS {
			set["calc: ws around + or -"] = true
		}
		if it.gapComment && !it.gapWS {
			if !retokenizesSame(prev.tok, it.tok) {
				set["exotic: comment is the only separator of two tokens that would merge"] = true
			} else {
				set["comment between tokens without whitespace"] = true
			}
		}
		if it.gapWS && !retokenizesSame(prev.tok, it.tok) {
			set["ws separates tokens that would merge"] = true
			if it.tok.Kind == tLParen && prev.tok.Kind == tIdent {
				set["ws between ident and ( (e.g. and ()"] = true
			}
		}
		if it.tok.Kind == tSemicolon && k+1 < len(its) {
			// (after normalisation no redundant semicolon is left)
		}
	}
	sel := false
	for _, t := range toks {
		if t.Kind == tFunction && selectorFunctions[strings.ToLower(t.Val)] {
			sel = true
		}
		if t.Kind == tLBracket {
			set["attribute selector or bracket"] = true
		}
		if t.Kind == tDelim && (t.Val == ">" || t.Val == "+" || t.Val == "~") {
			set["delim "+t.Val] = true
		}
	}
	if sel {
		set["pseudo-class with selector argument"] = true
	}
	if nt {
		set["nontrivial"] = true
	}
	var labels []string
	for l := range set {
		labels = append(labels, l)
	}
	sort.Strings(labels)
	return labels, nt
}

// fixed cases: the shipped stylesheets, the snippets of minify_css_test.go
// (they document the intended outputs, so the oracle must accept them), and
// hand-written cases for each construct named in the design.
func fixed() []Case {
	var cs []Case
	repo := os.Getenv("VERIF_REPO")
	if repo == "" {
		repo = "/repo"
	}
	files, _ := filepath.Glob(filepath.Join(repo, "lib", "assets", "dashboard", "*.css"))
	sort.Strings(files)
	for _, f := range files {
		cs = append(cs, Case{File: filepath.Base(f)})
	}
	for _, s := range []string{
		"/* global reset */\nbody { margin: 0; }",
		"body   {   margin:   0;   }",
		"body {\n  color: red;\n  margin: 0;\n}",
		"a { color: red ; margin: 0 ; }",
		"a , b , c { color: red; }",
		"a { color: red; font-size: 14px; }",
		"a :hover { color: blue; }",
		"a:hover { color: blue; }",
		"a { color: red;; margin: 0; }",
		`a { content: "  hello   world  "; }`,
		`a { font-family: 'Times New Roman', serif; }`,
		"a { margin: 0 10px 0 10px; }",
		"a > b { color: red; }",
		"",
		"a { color: /* primary */ red; }",
		"@media (max-width: 600px) { body { font-size: 14px; } }",
		// constructs named in the design
		"a .b > c + d ~ e :not(.a .b) { margin: 1px -2px }",
		"li:nth-child( 2n + 1 ) :checked + .x::before { content: \"\\201C\" }",
		"a[href$=\".pdf\" i], a[ data-x = 'q\"q' ] { color: red !important }",
		"@media screen and (min-width: 600px) and (max-width: 900px), print and (orientation: landscape) { .a .b { width: calc(100% - 2 * var(--gap)) } }",
		"@import url(foo.css) screen and (min-width: 100px);\n@import \"bar.css\";",
		"@font-face { font-family: \"X Y\"; src: url(x.woff2) format(\"woff2\"), url( 'x y.woff' ) format('woff'); unicode-range: U+0025-00FF, U+4??; }",
		"@keyframes spin { from { transform: rotate(0deg) } 50% { opacity: .5 } to { transform: rotate(360deg); } }",
		":root { --x: 1px ; --y:  a  b ; --z: { a: b; } }",
		".a { width: calc( (100vh - 90px) / 2 + 1px ); margin: 1em .5em; background: url(data:image/png;base64,iVBORw0KGgo=) no-repeat }",
		".toggle-switch input:checked + .toggle-slider::before { transform: translateX( 20px ) }",
	} {
		cs = append(cs, Case{Src: s})
	}
	return cs
}

func TestC34(t *testing.T) {
	vkit.Run(t, vkit.Spec[Case]{
		ID:    "C34",
		Level: "exploration",
		Rule: "grammar-generated stylesheets (1-6 top-level items: style rules with selector lists using all four combinators, pseudo-classes with selector / an+b arguments, " +
			"attribute selectors with quoted values, @media/@import/@font-face/@keyframes/@supports/@page/@namespace/@layer/@container/@property, strings with escapes, " +
			"url() quoted and unquoted, comments in every gap, !important, custom properties, calc() with + and -, negative numbers after whitespace; 20% of cases also use " +
			"escapes in identifiers, comment-only separators and '/*' in unquoted urls) plus the shipped lib/assets/dashboard/*.css and the snippets of minify_css_test.go. " +
			"Non-trivial: the original has whitespace adjacent to one of + > ~ ( ) : or inside a string/url token; distinct by stylesheet text.",
		Assumptions: []string{
			"the harness tokenizer implements CSS Syntax Level 3 §4 (written from the specification, independent of the minifier)",
			"whitespace is significant beyond token separation only as a descendant combinator in selector grammar and next to + / - inside math functions",
			"inputs are complete well-formed stylesheets, as the asset loader passes whole files",
		},
		Gen:      func(t *rapid.T) Case { return Case{Src: genStylesheet(t)} },
		Oracle:   oracle,
		Fixed:    fixed,
		Quick:    1500,
		Thorough: 40000,
	})
}
