package c34

// Grammar-based stylesheet generator. It writes valid CSS text from the
// grammar of Selectors 4 / CSS Syntax 3 / Values 4 / Media Queries 4; it knows
// where whitespace is *required* by the grammar (rsp) and where it is optional
// (osp) but it does not share any code with the tokenizer or the oracle.

import (
	"math/bits"
	"strings"

	"pgregory.net/rapid"
)

type gen struct {
	t *rapid.T
	b strings.Builder
	// exotic enables constructs that are valid CSS but rare in hand-written
	// stylesheets (escapes in identifiers, a comment as the only separator of
	// two value tokens, "/*" inside an unquoted url). Drawn once per case so the
	// label histogram shows how much of the search is "plain" CSS.
	exotic bool
}

// pick returns a uniformly distributed value in [0,n). rapid's integer
// generators are deliberately biased towards small and boundary values, which
// would make "rare" grammar branches (drawn as k < small) the most common
// ones; fair bits from rapid.Bool() avoid that and still shrink towards 0,
// i.e. towards the first (simplest) alternative.
func (g *gen) pick(n int, label string) int {
	if n <= 1 {
		return 0
	}
	k := bits.Len(uint(n-1)) + 4
	v := 0
	for i := 0; i < k; i++ {
		v <<= 1
		if rapid.Bool().Draw(g.t, label) {
			v |= 1
		}
	}
	return (v * n) >> k
}
func (g *gen) chance(pct int, label string) bool { return g.pick(100, label) >= 100-pct }
func (g *gen) from(pool []string, label string) string {
	return pool[g.pick(len(pool), label)]
}
func (g *gen) w(s ...string) {
	for _, x := range s {
		g.b.WriteString(x)
	}
}

var commentBodies = []string{
	"", " ", " note ", "*", "**", " a { b: c; } ", " it's \"quoted\" ", " url(x) ", "\n * multi\n * line\n ",
	" ~ + > : ; , ", " • bullet ", "/", "* /", " // not a line comment ", " ' ", " \" ", " } ", " { ",
	" header — logo + menu ",
}

func (g *gen) comment() string { return "/*" + g.from(commentBodies, "cbody") + "*/" }

var plainWS = []string{" ", " ", " ", "\n", "\n  ", "  ", "\t", "\n\n", "\r\n", " \n\t", "\f"}

func (g *gen) ws() string { return g.from(plainWS, "ws") }

// osp: optional whitespace and/or comments (may be empty).
func (g *gen) osp() string {
	switch k := g.pick(100, "osp"); {
	case k < 38:
		return ""
	case k < 75:
		return g.ws()
	case k < 84:
		return g.ws() + g.comment() + g.ws()
	case k < 90:
		return g.comment()
	case k < 95:
		return g.comment() + g.ws()
	default:
		return g.ws() + g.comment()
	}
}

// rsp: required whitespace (always contains at least one real whitespace
// character), possibly with comments around it.
func (g *gen) rsp() string {
	switch k := g.pick(100, "rsp"); {
	case k < 70:
		return g.ws()
	case k < 80:
		return g.ws() + g.comment() + g.ws()
	case k < 90:
		return g.comment() + g.ws()
	default:
		return g.ws() + g.comment()
	}
}

// vsep separates two value components. CSS lets a comment do that job on its
// own ("0/**/auto" is two tokens); that spelling is part of the exotic class.
func (g *gen) vsep() string {
	if g.exotic && g.chance(12, "commentsep") {
		return g.comment()
	}
	return g.rsp()
}

var tags = []string{"a", "div", "span", "li", "ul", "p", "h1", "table", "td", "tr", "input", "button", "body", "svg", "b", "i", "em"}
var names = []string{"btn", "active", "tab-content", "nav_item", "dark", "x1", "is-open", "a", "b", "c", "-x", "hover", "not", "and", "url", "important", "n", "e2", "café"}
// A hexadecimal escape is always written with its terminating space ("\\31 "
// is the identifier "1"); without it the whitespace the grammar puts after the
// name would be swallowed by the escape and the text would not mean what the
// generator intends.
var exoticNames = []string{"sm\\:flex", "w-1\\/2", "a\\.b", "\\31 0", "hover\\:", "md\\:", "x\\+y", "\\31 ", "a\\ b", "p\\>q", "x\\000031 ", "q\\,"}

func (g *gen) name() string {
	if g.exotic && g.chance(20, "escname") {
		return g.from(exoticNames, "exname")
	}
	return g.from(names, "name")
}

var anb = []string{"odd", "even", "2n+1", "2n + 1", "2n+ 1", "2n +1", "-n+3", "-n + 3", "3", "n", "3n", "2n-1", "2n - 1", "+3n", "-2n+4", "10n+0"}
var simplePseudo = []string{":hover", ":focus", ":active", ":disabled", ":checked", ":first-child", ":last-child", ":root", ":empty",
	"::before", "::after", "::placeholder", "::selection", "::-webkit-scrollbar", ":focus-visible", ":-moz-focusring"}

func (g *gen) stringLit() string {
	q := "\""
	other := "'"
	if g.chance(40, "sq") {
		q, other = other, q
	}
	pieces := []string{"a", "hello", " ", "   ", "/*", "*/", "{", "}", ";", ":", ",", ">", " > ", "\\" + q, "\\\\", "\\A ", "\\0041", "\\\n", other,
		"é", "•", "url(", "  x  ", "\\2022", "+", " + ", "~", "Times New Roman", "\\" + other, "\t", ")", "(", "!important", "<length>"}
	n := g.pick(6, "strn")
	var sb strings.Builder
	sb.WriteString(q)
	for i := 0; i < n; i++ {
		sb.WriteString(g.from(pieces, "strpiece"))
	}
	sb.WriteString(q)
	return sb.String()
}

func (g *gen) url() string {
	sp := func() string {
		if g.chance(30, "urlws") {
			return g.ws()
		}
		return ""
	}
	if g.chance(50, "urlquoted") {
		return "url(" + sp() + g.stringLit() + sp() + ")"
	}
	pieces := []string{"a.png", "img/x.svg", "http://example.com/a?b=c&d=e", "data:image/png;base64,iVBORw0KGgo=", "//cdn.x/y.css", "#frag",
		"x,y", "a;b", "%20", "fonts/x.woff2", "a:b", "x>y", "~u", "+", "!", "*", "@2x", "{", "}"}
	n := 1 + g.pick(3, "urln")
	var sb strings.Builder
	for i := 0; i < n; i++ {
		if g.exotic && g.chance(8, "urlexotic") {
			sb.WriteString(g.from([]string{"/*", "\\)", "\\ ", "\\28 "}, "urlex"))
			continue
		}
		sb.WriteString(g.from(pieces, "urlpiece"))
	}
	return "url(" + sp() + sb.String() + sp() + ")"
}

func (g *gen) attr() string {
	var sb strings.Builder
	sb.WriteString("[" + g.osp() + g.from([]string{"href", "type", "data-x", "lang", "class", "title", "aria-label"}, "attrname") + g.osp())
	if g.chance(75, "attrop") {
		sb.WriteString(g.from([]string{"=", "~=", "|=", "^=", "$=", "*="}, "op") + g.osp())
		quoted := g.chance(65, "attrq")
		if quoted {
			sb.WriteString(g.stringLit())
		} else {
			sb.WriteString(g.from([]string{"x", "text", "en-US", "a1", "_b"}, "attrval"))
		}
		if g.chance(20, "attrflag") {
			if quoted {
				sb.WriteString(g.osp())
			} else {
				sb.WriteString(g.rsp())
			}
			sb.WriteString(g.from([]string{"i", "s", "I"}, "flag"))
		}
		sb.WriteString(g.osp())
	}
	sb.WriteString("]")
	return sb.String()
}

func (g *gen) pseudo(depth int) string {
	k := g.pick(100, "pseudo")
	switch {
	case k < 45 || depth > 2:
		return g.from(simplePseudo, "spseudo")
	case k < 65:
		fn := g.from([]string{"not", "is", "where", "matches", "-webkit-any", "host", "host-context"}, "selfn")
		return ":" + fn + "(" + g.osp() + g.selectorList(depth+1) + g.osp() + ")"
	case k < 75:
		lead := ""
		if g.chance(50, "haslead") {
			lead = g.from([]string{">", "+", "~"}, "hascomb") + g.osp()
		}
		return ":has(" + g.osp() + lead + g.complex(depth+1) + g.osp() + ")"
	case k < 92:
		fn := g.from([]string{"nth-child", "nth-last-child", "nth-of-type", "nth-last-of-type"}, "nthfn")
		return ":" + fn + "(" + g.osp() + g.from(anb, "anb") + g.osp() + ")"
	case k < 96:
		return ":lang(" + g.osp() + g.from([]string{"en", "\"fr-CA\"", "de"}, "lang") + g.osp() + ")"
	default:
		return "::slotted(" + g.osp() + g.compound(depth+1) + g.osp() + ")"
	}
}

func (g *gen) compound(depth int) string {
	var sb strings.Builder
	hasType := g.chance(60, "hastype")
	if hasType {
		if g.chance(12, "universal") {
			sb.WriteString("*")
		} else {
			sb.WriteString(g.from(tags, "tag"))
		}
	}
	n := g.pick(4, "nsimple")
	if !hasType && n == 0 {
		n = 1
	}
	for i := 0; i < n; i++ {
		switch k := g.pick(100, "simple"); {
		case k < 35:
			sb.WriteString("." + g.name())
		case k < 50:
			sb.WriteString("#" + g.from([]string{"main", "sql-results", "a1", "x", "-y", "fff"}, "id"))
		case k < 65:
			sb.WriteString(g.attr())
		default:
			sb.WriteString(g.pseudo(depth))
		}
	}
	return sb.String()
}

func (g *gen) complex(depth int) string {
	var sb strings.Builder
	sb.WriteString(g.compound(depth))
	n := g.pick(4, "ncomb")
	if depth > 1 && n > 1 {
		n = 1
	}
	for i := 0; i < n; i++ {
		switch k := g.pick(100, "comb"); {
		case k < 45:
			sb.WriteString(g.rsp()) // descendant combinator
		case k < 70:
			sb.WriteString(g.osp() + ">" + g.osp())
		case k < 85:
			sb.WriteString(g.osp() + "+" + g.osp())
		default:
			sb.WriteString(g.osp() + "~" + g.osp())
		}
		sb.WriteString(g.compound(depth))
	}
	return sb.String()
}

func (g *gen) selectorList(depth int) string {
	var sb strings.Builder
	sb.WriteString(g.complex(depth))
	n := g.pick(3, "nsel")
	if depth > 0 && n > 1 {
		n = 1
	}
	for i := 0; i < n; i++ {
		sb.WriteString(g.osp() + "," + g.osp() + g.complex(depth))
	}
	return sb.String()
}

var numbers = []string{"0", "1", "2", "10", "1.5", ".5", "0.25", "-1", "+2", "-.5", "1e3", "100", "-10", "3"}
var units = []string{"px", "em", "rem", "vh", "vw", "s", "ms", "deg", "fr", "ch", "%", "pt", "x"}
var keywords = []string{"red", "solid", "auto", "none", "inherit", "bold", "sans-serif", "to", "right", "ease-in-out", "inline-block", "transparent",
	"normal", "center", "no-repeat", "infinite", "e", "n", "x", "-webkit-box", "and", "not", "url", "U"}

func (g *gen) number() string { return g.from(numbers, "num") }
func (g *gen) dimension() string {
	return g.from(numbers, "dnum") + g.from(units, "unit")
}

func (g *gen) calcTerm(depth int) string {
	switch k := g.pick(100, "calcterm"); {
	case k < 30:
		return g.number()
	case k < 70:
		return g.dimension()
	case k < 80 && depth < 3:
		return "(" + g.osp() + g.calcSum(depth+1) + g.osp() + ")"
	case k < 90:
		return "var(" + g.osp() + "--" + g.from([]string{"x", "gap", "w"}, "cvar") + g.osp() + ")"
	case depth < 3:
		fn := g.from([]string{"min", "max", "calc"}, "calcnest")
		if fn == "calc" {
			return "calc(" + g.osp() + g.calcSum(depth+1) + g.osp() + ")"
		}
		return fn + "(" + g.osp() + g.calcSum(depth+1) + g.osp() + "," + g.osp() + g.calcSum(depth+1) + g.osp() + ")"
	}
	return g.dimension()
}

func (g *gen) calcSum(depth int) string {
	var sb strings.Builder
	prod := func() {
		sb.WriteString(g.calcTerm(depth))
		for g.chance(25, "calcmul") {
			sb.WriteString(g.osp() + g.from([]string{"*", "/"}, "mulop") + g.osp() + g.calcTerm(depth))
		}
	}
	prod()
	n := g.pick(3, "calcadds")
	for i := 0; i < n; i++ {
		// whitespace is required on both sides of + and - (Values 4 §10.1)
		sb.WriteString(g.rsp() + g.from([]string{"+", "-"}, "addop") + g.rsp())
		prod()
	}
	return sb.String()
}

func (g *gen) function(depth int) string {
	args := func(n int, sep string) string {
		var sb strings.Builder
		for i := 0; i < n; i++ {
			if i > 0 {
				if sep == "," {
					sb.WriteString(g.osp() + "," + g.osp())
				} else {
					sb.WriteString(g.vsep())
				}
			}
			sb.WriteString(g.component(depth + 1))
		}
		return sb.String()
	}
	switch k := g.pick(100, "fn"); {
	case k < 22:
		return "calc(" + g.osp() + g.calcSum(0) + g.osp() + ")"
	case k < 30:
		fn := g.from([]string{"min", "max", "clamp"}, "mathfn")
		n := 2
		if fn == "clamp" {
			n = 3
		}
		var sb strings.Builder
		sb.WriteString(fn + "(" + g.osp())
		for i := 0; i < n; i++ {
			if i > 0 {
				sb.WriteString(g.osp() + "," + g.osp())
			}
			sb.WriteString(g.calcSum(1))
		}
		sb.WriteString(g.osp() + ")")
		return sb.String()
	case k < 42:
		v := "var(" + g.osp() + "--" + g.from([]string{"x", "main-color", "gap", "_y"}, "var")
		if g.chance(40, "varfallback") {
			v += g.osp() + "," + g.osp() + args(1+g.pick(2, "nfallback"), " ")
		}
		return v + g.osp() + ")"
	case k < 52:
		if g.chance(50, "rgbcomma") {
			return g.from([]string{"rgb", "rgba", "hsl"}, "colorfn") + "(" + g.osp() + g.number() + g.osp() + "," + g.osp() + g.number() + g.osp() + "," + g.osp() + g.dimension() + g.osp() + ")"
		}
		return "rgb(" + g.osp() + g.number() + g.rsp() + g.number() + g.rsp() + g.number() + g.osp() + "/" + g.osp() + g.dimension() + g.osp() + ")"
	case k < 60:
		return "linear-gradient(" + g.osp() + "to" + g.rsp() + "right" + g.osp() + "," + g.osp() + "#fff" + g.rsp() + g.dimension() + g.osp() + "," + g.osp() + g.component(depth+1) + g.osp() + ")"
	case k < 70:
		return g.from([]string{"translate", "scale", "rotate", "cubic-bezier", "minmax", "repeat", "steps"}, "genfn") + "(" + g.osp() + args(1+g.pick(3, "nargs"), ",") + g.osp() + ")"
	case k < 78:
		return g.from([]string{"drop-shadow", "attr", "counter", "env", "image-set", "local"}, "spfn") + "(" + g.osp() + args(1+g.pick(3, "nargs2"), " ") + g.osp() + ")"
	case k < 88:
		return "format(" + g.osp() + g.stringLit() + g.osp() + ")"
	default:
		return g.url()
	}
}

func (g *gen) component(depth int) string {
	switch k := g.pick(100, "comp"); {
	case k < 20:
		return g.from(keywords, "kw")
	case k < 32:
		return g.number()
	case k < 55:
		return g.dimension()
	case k < 63:
		return "#" + g.from([]string{"fff", "a1b2c3", "000", "e0e0e0", "2a3a5a", "1e3"}, "hex")
	case k < 73:
		return g.stringLit()
	case k < 80:
		return g.url()
	default:
		if depth > 2 {
			return g.dimension()
		}
		return g.function(depth)
	}
}

func (g *gen) value() string {
	var sb strings.Builder
	n := 1 + g.pick(4, "ncomp")
	for i := 0; i < n; i++ {
		if i > 0 {
			switch k := g.pick(100, "vsepkind"); {
			case k < 70:
				sb.WriteString(g.vsep())
			case k < 90:
				sb.WriteString(g.osp() + "," + g.osp())
			default:
				sb.WriteString(g.osp() + "/" + g.osp())
			}
		}
		sb.WriteString(g.component(0))
	}
	return sb.String()
}

var props = []string{"color", "background", "margin", "padding", "font", "font-family", "border", "content", "transform", "width", "height",
	"box-shadow", "transition", "grid-template-columns", "filter", "-webkit-appearance", "src", "animation", "unicode-range", "quotes"}

func (g *gen) declaration() string {
	var sb strings.Builder
	custom := g.chance(15, "custom")
	if custom {
		sb.WriteString("--" + g.from([]string{"x", "main-color", "gap", "_y", "Important"}, "customname"))
	} else {
		sb.WriteString(g.from(props, "prop"))
	}
	sb.WriteString(g.osp() + ":" + g.osp())
	switch {
	case custom && g.chance(10, "customblock"):
		sb.WriteString("{" + g.osp() + "a" + g.osp() + ":" + g.osp() + g.component(1) + g.osp() + ";" + g.osp() + "}")
	case !custom && g.chance(4, "unicoderange"):
		sb.WriteString(g.from([]string{"U+0025-00FF", "U+4??", "U+26", "U+0-7F", "U+0025-00FF, U+4??"}, "urange"))
	default:
		sb.WriteString(g.value())
	}
	if g.chance(12, "important") {
		sb.WriteString(g.osp() + "!" + g.osp() + g.from([]string{"important", "important", "IMPORTANT"}, "imp"))
	}
	return sb.String()
}

func (g *gen) declBlock() string {
	var sb strings.Builder
	sb.WriteString("{")
	n := g.pick(5, "ndecl")
	for i := 0; i < n; i++ {
		sb.WriteString(g.osp() + g.declaration() + g.osp())
		last := i == n-1
		switch {
		case last && g.chance(40, "nolastsemi"):
		case g.chance(10, "doublesemi"):
			sb.WriteString(";" + g.from([]string{"", " ", "\n"}, "semigap") + ";")
		default:
			sb.WriteString(";")
		}
	}
	sb.WriteString(g.osp() + "}")
	return sb.String()
}

func (g *gen) styleRule() string {
	return g.selectorList(0) + g.osp() + g.declBlock()
}

func (g *gen) mediaFeature() string {
	switch k := g.pick(100, "mf"); {
	case k < 60:
		return "(" + g.osp() + g.from([]string{"min-width", "max-width", "orientation", "prefers-color-scheme", "-webkit-min-device-pixel-ratio", "min-resolution"}, "mfname") +
			g.osp() + ":" + g.osp() + g.from([]string{"600px", "landscape", "dark", "2", "192dpi", "48em", "calc(10px + 2em)"}, "mfval") + g.osp() + ")"
	case k < 75:
		return "(" + g.osp() + g.from([]string{"color", "monochrome", "hover"}, "mfbool") + g.osp() + ")"
	case k < 90:
		return "(" + g.osp() + "width" + g.osp() + g.from([]string{">=", "<=", ">", "<", "="}, "mfcmp") + g.osp() + "600px" + g.osp() + ")"
	default:
		return "(" + g.osp() + "400px" + g.osp() + "<=" + g.osp() + "width" + g.osp() + "<=" + g.osp() + "700px" + g.osp() + ")"
	}
}

func (g *gen) mediaQuery() string {
	var sb strings.Builder
	switch k := g.pick(100, "mq"); {
	case k < 35:
		if g.chance(30, "mqmod") {
			sb.WriteString(g.from([]string{"only", "not"}, "mqmodw") + g.rsp())
		}
		sb.WriteString(g.from([]string{"screen", "print", "all"}, "mtype"))
		n := g.pick(3, "mqands")
		for i := 0; i < n; i++ {
			// "and" must be followed by whitespace, or "and(" is a function token
			sb.WriteString(g.rsp() + "and" + g.rsp() + g.mediaFeature())
		}
	case k < 85:
		sb.WriteString(g.mediaFeature())
		n := g.pick(3, "mqands2")
		word := g.from([]string{"and", "and", "or"}, "mqword")
		for i := 0; i < n; i++ {
			sb.WriteString(g.rsp() + word + g.rsp() + g.mediaFeature())
		}
	default:
		sb.WriteString("not" + g.rsp() + g.mediaFeature())
	}
	return sb.String()
}

func (g *gen) mediaQueryList() string {
	s := g.mediaQuery()
	for g.chance(25, "mqmore") {
		s += g.osp() + "," + g.osp() + g.mediaQuery()
	}
	return s
}

func (g *gen) ruleList(depth int) string {
	var sb strings.Builder
	n := g.pick(3, "nnested")
	for i := 0; i < n; i++ {
		sb.WriteString(g.osp())
		if depth < 2 && g.chance(15, "nestedat") {
			sb.WriteString(g.atRule(depth + 1))
		} else {
			sb.WriteString(g.styleRule())
		}
	}
	sb.WriteString(g.osp())
	return sb.String()
}

func (g *gen) supportsCond(depth int) string {
	dec := "(" + g.osp() + g.from([]string{"display", "position", "--x"}, "supprop") + g.osp() + ":" + g.osp() + g.from([]string{"grid", "sticky", "1px -2px"}, "supval") + g.osp() + ")"
	switch k := g.pick(100, "sup"); {
	case k < 40 || depth > 1:
		return dec
	case k < 55:
		return "not" + g.rsp() + dec
	case k < 80:
		return dec + g.rsp() + g.from([]string{"and", "or"}, "supword") + g.rsp() + "(" + g.osp() + g.supportsCond(depth+1) + g.osp() + ")"
	default:
		return "selector(" + g.osp() + g.complex(1) + g.osp() + ")"
	}
}

func (g *gen) atRule(depth int) string {
	switch k := g.pick(100, "at"); {
	case k < 34:
		return "@media" + g.rsp() + g.mediaQueryList() + g.osp() + "{" + g.ruleList(depth) + "}"
	case k < 44:
		var sb strings.Builder
		sb.WriteString("@import" + g.rsp())
		if g.chance(50, "importurl") {
			sb.WriteString(g.url())
		} else {
			sb.WriteString(g.stringLit())
		}
		if g.chance(30, "importlayer") {
			sb.WriteString(g.rsp() + g.from([]string{"layer", "layer(base)", "supports(display: grid)"}, "importmod"))
		}
		if g.chance(50, "importmq") {
			sb.WriteString(g.rsp() + g.mediaQueryList())
		}
		sb.WriteString(g.osp() + ";")
		return sb.String()
	case k < 56:
		return "@font-face" + g.osp() + g.declBlock()
	case k < 72:
		var sb strings.Builder
		sb.WriteString(g.from([]string{"@keyframes", "@-webkit-keyframes"}, "kfat") + g.rsp() + g.from([]string{"spin", "fade-in", "x", "\"quoted\""}, "kfname") + g.osp() + "{")
		n := 1 + g.pick(3, "nkf")
		for i := 0; i < n; i++ {
			sb.WriteString(g.osp() + g.from([]string{"from", "to", "0%", "50%", "100%", "12.5%", "33.3%"}, "kfsel"))
			for g.chance(25, "kfmore") {
				sb.WriteString(g.osp() + "," + g.osp() + g.from([]string{"to", "25%", "75%"}, "kfsel2"))
			}
			sb.WriteString(g.osp() + g.declBlock())
		}
		sb.WriteString(g.osp() + "}")
		return sb.String()
	case k < 80:
		return "@supports" + g.rsp() + g.supportsCond(0) + g.osp() + "{" + g.ruleList(depth) + "}"
	case k < 85:
		return "@page" + g.from([]string{"", " :first", " :left", " wide"}, "pagesel") + g.osp() + g.declBlock()
	case k < 89:
		return "@namespace" + g.rsp() + g.from([]string{"", "svg "}, "nsprefix") + g.from([]string{"url(http://www.w3.org/2000/svg)", "\"http://www.w3.org/1999/xhtml\""}, "nsurl") + g.osp() + ";"
	case k < 93:
		if g.chance(50, "layerstmt") {
			return "@layer" + g.rsp() + "base" + g.osp() + "," + g.osp() + "components" + g.osp() + ";"
		}
		return "@layer" + g.rsp() + "base" + g.osp() + "{" + g.ruleList(depth) + "}"
	case k < 97:
		return "@container" + g.rsp() + g.from([]string{"", "sidebar "}, "ctname") + g.mediaFeature() + g.osp() + "{" + g.ruleList(depth) + "}"
	default:
		return "@property" + g.rsp() + "--x" + g.osp() + "{" + g.osp() + "syntax" + g.osp() + ":" + g.osp() + "\"<length>\"" + g.osp() + ";" + g.osp() + "inherits" + g.osp() + ":" + g.osp() + "false" + g.osp() + ";" + g.osp() + "initial-value" + g.osp() + ":" + g.osp() + "0px" + g.osp() + "}"
	}
}

func genStylesheet(t *rapid.T) string {
	g := &gen{t: t}
	g.exotic = g.chance(20, "exotic")
	if g.chance(4, "charset") {
		g.w("@charset \"utf-8\";")
	}
	n := 1 + g.pick(5, "nitems")
	for i := 0; i < n; i++ {
		g.w(g.osp())
		switch k := g.pick(100, "item"); {
		case k < 65:
			g.w(g.styleRule())
		default:
			g.w(g.atRule(0))
		}
	}
	g.w(g.osp())
	return g.b.String()
}
