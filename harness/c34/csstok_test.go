package c34

// A CSS Syntax Module Level 3 tokenizer (§4 "Tokenization"), written from the
// specification text and independent of the code under test. Comments are
// kept as pseudo-tokens (kind tComment) so that the oracle can see where the
// original separated two tokens by a comment only.

import (
	"strconv"
	"strings"
)

type tkind int

const (
	tIdent tkind = iota
	tFunction
	tAtKeyword
	tHash
	tString
	tBadString
	tURL
	tBadURL
	tDelim
	tNumber
	tPercentage
	tDimension
	tWhitespace
	tCDO
	tCDC
	tColon
	tSemicolon
	tComma
	tLBracket
	tRBracket
	tLParen
	tRParen
	tLBrace
	tRBrace
	tComment // not a CSS token: kept for gap analysis
)

var kindNames = map[tkind]string{
	tIdent: "ident", tFunction: "function", tAtKeyword: "at-keyword", tHash: "hash", tString: "string",
	tBadString: "bad-string", tURL: "url", tBadURL: "bad-url", tDelim: "delim", tNumber: "number",
	tPercentage: "percentage", tDimension: "dimension", tWhitespace: "ws", tCDO: "CDO", tCDC: "CDC",
	tColon: "colon", tSemicolon: "semicolon", tComma: "comma", tLBracket: "[", tRBracket: "]",
	tLParen: "(", tRParen: ")", tLBrace: "{", tRBrace: "}", tComment: "comment",
}

type token struct {
	Kind tkind
	// Val: the (unescaped) value of ident / function / at-keyword / hash /
	// string / url, or the code point of a delim.
	Val string
	// Num: canonical numeric value of number / percentage / dimension;
	// Int: the number's type flag is "integer".
	Num  float64
	Int  bool
	Unit string // dimension
	ID   bool   // hash type flag "id"
	Raw  string // source text of the token
}

func (t token) short() string {
	k := kindNames[t.Kind]
	if t.Kind == tDelim {
		return "delim" + t.Val
	}
	return k
}

func (t token) String() string {
	switch t.Kind {
	case tIdent, tFunction, tAtKeyword, tHash, tString, tURL, tDelim:
		return kindNames[t.Kind] + "(" + strconv.Quote(t.Val) + ")"
	case tNumber, tPercentage, tDimension:
		return kindNames[t.Kind] + "(" + strconv.FormatFloat(t.Num, 'g', -1, 64) + t.Unit + ")"
	}
	return kindNames[t.Kind]
}

// sameToken compares two tokens by what the tokenizer defines as the token's
// content (type, value, numeric value and type flag, unit, hash flag), not by
// source spelling.
func sameToken(a, b token) bool {
	if a.Kind != b.Kind {
		return false
	}
	switch a.Kind {
	case tIdent, tFunction, tAtKeyword, tString, tURL, tDelim:
		return a.Val == b.Val
	case tHash:
		return a.Val == b.Val && a.ID == b.ID
	case tNumber, tPercentage:
		return a.Num == b.Num && a.Int == b.Int
	case tDimension:
		return a.Num == b.Num && a.Int == b.Int && a.Unit == b.Unit
	}
	return true
}

type tokenizer struct {
	s   []rune
	pos int
}

const eof = rune(-1)

// preprocess implements §3.3: CRLF, CR and FF become LF; NUL and surrogates
// become U+FFFD. Invalid UTF-8 bytes decode to U+FFFD through the []rune
// conversion (as the "decode" step of §3.2 does).
func preprocess(src string) []rune {
	src = strings.ReplaceAll(src, "\r\n", "\n")
	rs := []rune(src)
	for i, r := range rs {
		switch {
		case r == '\r' || r == '\f':
			rs[i] = '\n'
		case r == 0:
			rs[i] = 0xFFFD
		}
	}
	return rs
}

func (z *tokenizer) peek(n int) rune {
	if z.pos+n < len(z.s) {
		return z.s[z.pos+n]
	}
	return eof
}

func isWS(r rune) bool        { return r == '\n' || r == '\t' || r == ' ' }
func isDigit(r rune) bool     { return r >= '0' && r <= '9' }
func isHex(r rune) bool       { return isDigit(r) || (r >= 'a' && r <= 'f') || (r >= 'A' && r <= 'F') }
func isNameStart(r rune) bool { return (r >= 'a' && r <= 'z') || (r >= 'A' && r <= 'Z') || r >= 0x80 || r == '_' }
func isName(r rune) bool      { return isNameStart(r) || isDigit(r) || r == '-' }
func isNonPrintable(r rune) bool {
	return (r >= 0 && r <= 8) || r == 0xB || (r >= 0xE && r <= 0x1F) || r == 0x7F
}

func validEscape(a, b rune) bool { return a == '\\' && b != '\n' && b != eof }

func wouldStartIdent(a, b, c rune) bool {
	switch {
	case a == '-':
		return isNameStart(b) || b == '-' || validEscape(b, c)
	case isNameStart(a):
		return true
	case a == '\\':
		return validEscape(a, b)
	}
	return false
}

func startsNumber(a, b, c rune) bool {
	switch {
	case a == '+' || a == '-':
		if isDigit(b) {
			return true
		}
		return b == '.' && isDigit(c)
	case a == '.':
		return isDigit(b)
	}
	return isDigit(a)
}

// tokenize returns all tokens of src including whitespace and comment
// pseudo-tokens.
func tokenize(src string) []token {
	z := &tokenizer{s: preprocess(src)}
	var out []token
	for {
		start := z.pos
		t, ok := z.next()
		if !ok {
			break
		}
		t.Raw = string(z.s[start:z.pos])
		out = append(out, t)
	}
	return out
}

func (z *tokenizer) next() (token, bool) {
	c := z.peek(0)
	if c == eof {
		return token{}, false
	}
	// comments
	if c == '/' && z.peek(1) == '*' {
		z.pos += 2
		for z.pos < len(z.s) && !(z.peek(0) == '*' && z.peek(1) == '/') {
			z.pos++
		}
		if z.pos < len(z.s) {
			z.pos += 2
		}
		return token{Kind: tComment}, true
	}
	if isWS(c) {
		for isWS(z.peek(0)) {
			z.pos++
		}
		return token{Kind: tWhitespace}, true
	}
	switch c {
	case '"', '\'':
		z.pos++
		return z.consumeString(c), true
	case '#':
		if isName(z.peek(1)) || validEscape(z.peek(1), z.peek(2)) {
			z.pos++
			t := token{Kind: tHash}
			if wouldStartIdent(z.peek(0), z.peek(1), z.peek(2)) {
				t.ID = true
			}
			t.Val = z.consumeName()
			return t, true
		}
		z.pos++
		return token{Kind: tDelim, Val: "#"}, true
	case '(':
		z.pos++
		return token{Kind: tLParen}, true
	case ')':
		z.pos++
		return token{Kind: tRParen}, true
	case ',':
		z.pos++
		return token{Kind: tComma}, true
	case ':':
		z.pos++
		return token{Kind: tColon}, true
	case ';':
		z.pos++
		return token{Kind: tSemicolon}, true
	case '[':
		z.pos++
		return token{Kind: tLBracket}, true
	case ']':
		z.pos++
		return token{Kind: tRBracket}, true
	case '{':
		z.pos++
		return token{Kind: tLBrace}, true
	case '}':
		z.pos++
		return token{Kind: tRBrace}, true
	case '+':
		if startsNumber(c, z.peek(1), z.peek(2)) {
			return z.consumeNumeric(), true
		}
		z.pos++
		return token{Kind: tDelim, Val: "+"}, true
	case '-':
		if startsNumber(c, z.peek(1), z.peek(2)) {
			return z.consumeNumeric(), true
		}
		if z.peek(1) == '-' && z.peek(2) == '>' {
			z.pos += 3
			return token{Kind: tCDC}, true
		}
		if wouldStartIdent(c, z.peek(1), z.peek(2)) {
			return z.consumeIdentLike(), true
		}
		z.pos++
		return token{Kind: tDelim, Val: "-"}, true
	case '.':
		if startsNumber(c, z.peek(1), z.peek(2)) {
			return z.consumeNumeric(), true
		}
		z.pos++
		return token{Kind: tDelim, Val: "."}, true
	case '<':
		if z.peek(1) == '!' && z.peek(2) == '-' && z.peek(3) == '-' {
			z.pos += 4
			return token{Kind: tCDO}, true
		}
		z.pos++
		return token{Kind: tDelim, Val: "<"}, true
	case '@':
		if wouldStartIdent(z.peek(1), z.peek(2), z.peek(3)) {
			z.pos++
			return token{Kind: tAtKeyword, Val: z.consumeName()}, true
		}
		z.pos++
		return token{Kind: tDelim, Val: "@"}, true
	case '\\':
		if validEscape(c, z.peek(1)) {
			return z.consumeIdentLike(), true
		}
		z.pos++
		return token{Kind: tDelim, Val: "\\"}, true
	}
	if isDigit(c) {
		return z.consumeNumeric(), true
	}
	if isNameStart(c) {
		return z.consumeIdentLike(), true
	}
	z.pos++
	return token{Kind: tDelim, Val: string(c)}, true
}

func (z *tokenizer) consumeEscaped() rune {
	// the backslash has been consumed
	c := z.peek(0)
	if c == eof {
		return 0xFFFD
	}
	z.pos++
	if isHex(c) {
		h := string(c)
		for len(h) < 6 && isHex(z.peek(0)) {
			h += string(z.peek(0))
			z.pos++
		}
		if isWS(z.peek(0)) {
			z.pos++
		}
		v, _ := strconv.ParseInt(h, 16, 32)
		if v == 0 || (v >= 0xD800 && v <= 0xDFFF) || v > 0x10FFFF {
			return 0xFFFD
		}
		return rune(v)
	}
	return c
}

func (z *tokenizer) consumeName() string {
	var sb strings.Builder
	for {
		c := z.peek(0)
		switch {
		case isName(c):
			sb.WriteRune(c)
			z.pos++
		case validEscape(c, z.peek(1)):
			z.pos++
			sb.WriteRune(z.consumeEscaped())
		default:
			return sb.String()
		}
	}
}

func (z *tokenizer) consumeString(end rune) token {
	var sb strings.Builder
	for {
		c := z.peek(0)
		switch {
		case c == end:
			z.pos++
			return token{Kind: tString, Val: sb.String()}
		case c == eof:
			return token{Kind: tString, Val: sb.String()}
		case c == '\n':
			return token{Kind: tBadString}
		case c == '\\':
			n := z.peek(1)
			if n == eof {
				z.pos++
			} else if n == '\n' {
				z.pos += 2
			} else {
				z.pos++
				sb.WriteRune(z.consumeEscaped())
			}
		default:
			sb.WriteRune(c)
			z.pos++
		}
	}
}

func (z *tokenizer) consumeNumber() (float64, bool) {
	start := z.pos
	isInt := true
	if c := z.peek(0); c == '+' || c == '-' {
		z.pos++
	}
	for isDigit(z.peek(0)) {
		z.pos++
	}
	if z.peek(0) == '.' && isDigit(z.peek(1)) {
		z.pos += 2
		isInt = false
		for isDigit(z.peek(0)) {
			z.pos++
		}
	}
	if c := z.peek(0); c == 'e' || c == 'E' {
		n1, n2 := z.peek(1), z.peek(2)
		if isDigit(n1) || ((n1 == '+' || n1 == '-') && isDigit(n2)) {
			z.pos += 2
			isInt = false
			for isDigit(z.peek(0)) {
				z.pos++
			}
		}
	}
	text := string(z.s[start:z.pos])
	text = strings.TrimPrefix(text, "+")
	v, _ := strconv.ParseFloat(text, 64)
	return v, isInt
}

func (z *tokenizer) consumeNumeric() token {
	v, isInt := z.consumeNumber()
	if wouldStartIdent(z.peek(0), z.peek(1), z.peek(2)) {
		return token{Kind: tDimension, Num: v, Int: isInt, Unit: z.consumeName()}
	}
	if z.peek(0) == '%' {
		z.pos++
		return token{Kind: tPercentage, Num: v, Int: isInt}
	}
	return token{Kind: tNumber, Num: v, Int: isInt}
}

func (z *tokenizer) consumeIdentLike() token {
	name := z.consumeName()
	if strings.EqualFold(name, "url") && z.peek(0) == '(' {
		z.pos++
		for isWS(z.peek(0)) && isWS(z.peek(1)) {
			z.pos++
		}
		a, b := z.peek(0), z.peek(1)
		if a == '"' || a == '\'' || (isWS(a) && (b == '"' || b == '\'')) {
			return token{Kind: tFunction, Val: name}
		}
		return z.consumeURL()
	}
	if z.peek(0) == '(' {
		z.pos++
		return token{Kind: tFunction, Val: name}
	}
	return token{Kind: tIdent, Val: name}
}

func (z *tokenizer) consumeURL() token {
	var sb strings.Builder
	for isWS(z.peek(0)) {
		z.pos++
	}
	for {
		c := z.peek(0)
		switch {
		case c == ')':
			z.pos++
			return token{Kind: tURL, Val: sb.String()}
		case c == eof:
			return token{Kind: tURL, Val: sb.String()}
		case isWS(c):
			for isWS(z.peek(0)) {
				z.pos++
			}
			if z.peek(0) == ')' {
				z.pos++
				return token{Kind: tURL, Val: sb.String()}
			}
			if z.peek(0) == eof {
				return token{Kind: tURL, Val: sb.String()}
			}
			z.badURLRemnants()
			return token{Kind: tBadURL}
		case c == '"' || c == '\'' || c == '(' || isNonPrintable(c):
			z.pos++
			z.badURLRemnants()
			return token{Kind: tBadURL}
		case c == '\\':
			if validEscape(c, z.peek(1)) {
				z.pos++
				sb.WriteRune(z.consumeEscaped())
			} else {
				z.pos++
				z.badURLRemnants()
				return token{Kind: tBadURL}
			}
		default:
			sb.WriteRune(c)
			z.pos++
		}
	}
}

func (z *tokenizer) badURLRemnants() {
	for {
		c := z.peek(0)
		switch {
		case c == ')':
			z.pos++
			return
		case c == eof:
			return
		case validEscape(c, z.peek(1)):
			z.pos++
			z.consumeEscaped()
		default:
			z.pos++
		}
	}
}
