package c11

// The table of mirrored functions: Ego runtime functions that docs/LANGUAGE.md
// presents with Go's name and signature ("direct native passthrough to the
// identically-named Go function", "mirroring Go's standard math/cmplx", "thin,
// native passthrough to Go's standard path/filepath", …), each with the Go
// function it must agree with. The reference is written out here by hand; it
// is NOT taken from the package's declaration table, so a wrong wiring in that
// table (Index bound to LastIndex, swapped arguments) is visible.

import (
	"math"
	"math/cmplx"
	"path/filepath"
	"strconv"
	"strings"

	"pgregory.net/rapid"
)

type argGen func(t *rapid.T, label string, prev []Arg) Arg

type mirror struct {
	name string   // pkg.Func as written in an Ego program
	ref  any      // the Go function
	gens []argGen // per-parameter override (nil = by type)
}

func intIn(lo, hi int) argGen {
	return func(t *rapid.T, label string, _ []Arg) Arg { return intArg(rapid.IntRange(lo, hi).Draw(t, label)) }
}

func intFrom(vs ...int) argGen {
	return func(t *rapid.T, label string, _ []Arg) Arg { return intArg(rapid.SampledFrom(vs).Draw(t, label)) }
}

func byteFrom(vs string) argGen {
	return func(t *rapid.T, label string, _ []Arg) Arg {
		return Arg{T: "byte", I: int64(rapid.SampledFrom([]byte(vs)).Draw(t, label))}
	}
}

func strFrom(g func(t *rapid.T, label string) string) argGen {
	return func(t *rapid.T, label string, _ []Arg) Arg { return strArg(g(t, label)) }
}

// genNumeric draws text that is, or nearly is, a number in Go syntax.
func genNumeric(t *rapid.T, label string) string {
	if rapid.IntRange(0, 7).Draw(t, label+"special") == 0 {
		return rapid.SampledFrom([]string{"", " ", "+", "-", "0", "-0", "+0", "00", "inf", "-Inf", "+Infinity", "NaN", "nan", "0x", "0b", "_", "1_", "_1", "1__0", "0x_1", "1e", "e1", ".", "1.", ".5",
			"9223372036854775807", "9223372036854775808", "-9223372036854775808", "-9223372036854775809", "18446744073709551615", "18446744073709551616", "2147483647", "2147483648", "-2147483649", "127", "128", "-129", "255", "256",
			"1e309", "-1e309", "1e-400", "4.9e-324", "2.4e-324", "1.7976931348623157e308", "1.7976931348623159e308", "3.4028235e38", "3.4028236e38", "0x1p-2", "0x1.8p1", "0X1P+2", "0x1p1024", "1_000.5", "0x1_0p0", "１２", "١٢", " 1", "1 ", "1\n", "true", "1i", "(1+2i)", "1+2i", "1-2i", "i", "+i", "(1)", "(1+i)", "1+2", "NaN+NaNi", "Inf+Infi", "0x10+0x1p1i"}).Draw(t, label)
	}
	var sb strings.Builder
	sb.WriteString(rapid.SampledFrom([]string{"", "", "", "-", "+"}).Draw(t, label+"sign"))
	prefix := rapid.SampledFrom([]string{"", "", "", "0x", "0X", "0b", "0o", "0"}).Draw(t, label+"prefix")
	sb.WriteString(prefix)
	digits := "0123456789"
	switch strings.ToLower(prefix) {
	case "0x":
		digits = "0123456789abcdefABCDEF"
	case "0b":
		digits = "01"
	case "0o", "0":
		digits = "01234567"
	}
	if rapid.IntRange(0, 9).Draw(t, label+"baddigit") == 0 {
		digits += "9zZ"
	}
	n := rapid.IntRange(0, 22).Draw(t, label+"n")
	for i := 0; i < n; i++ {
		if i > 0 && rapid.IntRange(0, 9).Draw(t, label+"us") == 0 {
			sb.WriteByte('_')
		}
		sb.WriteByte(digits[rapid.IntRange(0, len(digits)-1).Draw(t, label+"d")])
	}
	if rapid.IntRange(0, 3).Draw(t, label+"frac") == 0 {
		sb.WriteByte('.')
		m := rapid.IntRange(0, 8).Draw(t, label+"fn")
		for i := 0; i < m; i++ {
			sb.WriteByte(digits[rapid.IntRange(0, len(digits)-1).Draw(t, label+"fd")])
		}
	}
	if rapid.IntRange(0, 3).Draw(t, label+"exp") == 0 {
		sb.WriteString(rapid.SampledFrom([]string{"e", "E", "p", "P"}).Draw(t, label+"e"))
		sb.WriteString(rapid.SampledFrom([]string{"", "+", "-"}).Draw(t, label+"es"))
		sb.WriteString(strconv.Itoa(rapid.IntRange(0, 400).Draw(t, label+"ev")))
	}
	if rapid.IntRange(0, 11).Draw(t, label+"imag") == 0 {
		sb.WriteByte('i')
	}
	return sb.String()
}

func genBoolText(t *rapid.T, label string) string {
	return rapid.SampledFrom([]string{"1", "t", "T", "TRUE", "true", "True", "0", "f", "F", "FALSE", "false", "False", "", "yes", "tRUE", " true", "2", "TrUe", "no", "y"}).Draw(t, label)
}

// genQuoted draws text that is, or nearly is, a Go quoted string.
func genQuoted(t *rapid.T, label string) string {
	s := genString(t, label)
	switch rapid.IntRange(0, 7).Draw(t, label+"form") {
	case 0:
		return strconv.Quote(s)
	case 1:
		return strconv.QuoteToASCII(s)
	case 2:
		return "`" + s + "`"
	case 3:
		return "'" + s + "'"
	case 4:
		return `"` + s + `"`
	case 5:
		q := strconv.Quote(s)
		return q[:len(q)-1]
	case 6:
		return rapid.SampledFrom([]string{`"\x41"`, `"\101"`, `"é"`, `"\U0001F600"`, `"\q"`, `"\xZZ"`, `"\ud800"`, `'\''`, `'\n'`, `"\'"`, `'\"'`, `"a"b"`, "`a`b`", `""`, `''`, "``", `"`, `'ab'`, "\"\n\"", "`\n`", "`\r`"}).Draw(t, label)
	default:
		return s
	}
}

var pathParts = []string{"a", "b", "c.txt", ".", "..", "", "/", "//", ".hidden", "a.b.c", "x y", "é", "\xff", "a/", "/a", "...", "a//b", "./", "../", "~", "C:", "\\", "tar.gz", "."}

func genPath(t *rapid.T, label string) string {
	n := rapid.IntRange(0, 5).Draw(t, label+"n")
	var sb strings.Builder
	for i := 0; i < n; i++ {
		sb.WriteString(rapid.SampledFrom(pathParts).Draw(t, label))
		if rapid.IntRange(0, 2).Draw(t, label+"sep") > 0 {
			sb.WriteByte('/')
		}
	}
	return sb.String()
}

var (
	gNum      = strFrom(genNumeric)
	gBase     = intFrom(0, 2, 8, 10, 16, 36, 10, 10, 16, 1, 37, -1, 62)
	gBits     = intFrom(0, 8, 16, 32, 64, 64, 64, 32, 7, 65, -1, 128)
	gFBits    = intFrom(32, 64, 64, 64, 0, 10, 128)
	gCBits    = intFrom(64, 128, 128, 0, 32)
	gFmtBase  = intIn(2, 36) // Go panics outside 2..36
	gFmtByte  = byteFrom("beEfgGxXfgez")
	gPrec     = intFrom(-1, -1, 0, 1, 2, 3, 6, 10, 17, 20, 40)
	gFmtBits  = intFrom(32, 64, 64) // Go panics on anything else
	gCFmtBits = intFrom(64, 128, 128)
	gPath     = strFrom(genPath)
	gSmallN   = intIn(-2, 4)
)

var mirrors = []mirror{
	// strings — "a large number of standard functions, based on the Go standard library"; native passthroughs
	{name: "strings.Clone", ref: strings.Clone},
	{name: "strings.Compare", ref: strings.Compare},
	{name: "strings.Contains", ref: strings.Contains},
	{name: "strings.ContainsAny", ref: strings.ContainsAny},
	{name: "strings.ContainsRune", ref: strings.ContainsRune},
	{name: "strings.Count", ref: strings.Count},
	{name: "strings.Cut", ref: strings.Cut},
	{name: "strings.CutPrefix", ref: strings.CutPrefix},
	{name: "strings.CutSuffix", ref: strings.CutSuffix},
	{name: "strings.EqualFold", ref: strings.EqualFold},
	{name: "strings.Fields", ref: strings.Fields},
	{name: "strings.HasPrefix", ref: strings.HasPrefix},
	{name: "strings.HasSuffix", ref: strings.HasSuffix},
	{name: "strings.Index", ref: strings.Index},
	{name: "strings.IndexAny", ref: strings.IndexAny},
	{name: "strings.IndexByte", ref: strings.IndexByte},
	{name: "strings.IndexRune", ref: strings.IndexRune},
	{name: "strings.Join", ref: strings.Join},
	{name: "strings.LastIndex", ref: strings.LastIndex},
	{name: "strings.LastIndexAny", ref: strings.LastIndexAny},
	{name: "strings.LastIndexByte", ref: strings.LastIndexByte},
	{name: "strings.Repeat", ref: strings.Repeat, gens: []argGen{nil, intIn(0, 6)}}, // Go panics on a negative count
	{name: "strings.Replace", ref: strings.Replace, gens: []argGen{nil, nil, nil, gSmallN}},
	{name: "strings.ReplaceAll", ref: strings.ReplaceAll},
	{name: "strings.SplitAfter", ref: strings.SplitAfter},
	{name: "strings.SplitAfterN", ref: strings.SplitAfterN, gens: []argGen{nil, nil, gSmallN}},
	{name: "strings.SplitN", ref: strings.SplitN, gens: []argGen{nil, nil, gSmallN}},
	{name: "strings.Title", ref: strings.Title}, //nolint:staticcheck // deprecated in Go, documented in Ego as Go's
	{name: "strings.ToLower", ref: strings.ToLower},
	{name: "strings.ToTitle", ref: strings.ToTitle},
	{name: "strings.ToUpper", ref: strings.ToUpper},
	{name: "strings.ToValidUTF8", ref: strings.ToValidUTF8},
	{name: "strings.Trim", ref: strings.Trim},
	{name: "strings.TrimLeft", ref: strings.TrimLeft},
	{name: "strings.TrimPrefix", ref: strings.TrimPrefix},
	{name: "strings.TrimRight", ref: strings.TrimRight},
	{name: "strings.TrimSpace", ref: strings.TrimSpace},
	{name: "strings.TrimSuffix", ref: strings.TrimSuffix},

	// strconv — "the parameter and return types below are exactly Go's"
	{name: "strconv.Atoi", ref: strconv.Atoi, gens: []argGen{gNum}},
	{name: "strconv.ParseInt", ref: strconv.ParseInt, gens: []argGen{gNum, gBase, gBits}},
	{name: "strconv.ParseUint", ref: strconv.ParseUint, gens: []argGen{gNum, gBase, gBits}},
	{name: "strconv.ParseFloat", ref: strconv.ParseFloat, gens: []argGen{gNum, gFBits}},
	{name: "strconv.ParseComplex", ref: strconv.ParseComplex, gens: []argGen{gNum, gCBits}},
	{name: "strconv.ParseBool", ref: strconv.ParseBool, gens: []argGen{strFrom(genBoolText)}},
	{name: "strconv.Itoa", ref: strconv.Itoa},
	{name: "strconv.FormatInt", ref: strconv.FormatInt, gens: []argGen{nil, gFmtBase}},
	{name: "strconv.FormatUint", ref: strconv.FormatUint, gens: []argGen{nil, gFmtBase}},
	{name: "strconv.FormatFloat", ref: strconv.FormatFloat, gens: []argGen{nil, gFmtByte, gPrec, gFmtBits}},
	{name: "strconv.FormatComplex", ref: strconv.FormatComplex, gens: []argGen{nil, gFmtByte, gPrec, gCFmtBits}},
	{name: "strconv.FormatBool", ref: strconv.FormatBool},
	{name: "strconv.Quote", ref: strconv.Quote},
	{name: "strconv.Unquote", ref: strconv.Unquote, gens: []argGen{strFrom(genQuoted)}},
	{name: "strconv.QuoteRune", ref: strconv.QuoteRune},
	{name: "strconv.QuoteRuneToASCII", ref: strconv.QuoteRuneToASCII},
	{name: "strconv.QuoteRuneToGraphic", ref: strconv.QuoteRuneToGraphic},
	{name: "strconv.QuoteToASCII", ref: strconv.QuoteToASCII},
	{name: "strconv.QuoteToGraphic", ref: strconv.QuoteToGraphic},
	{name: "strconv.CanBackquote", ref: strconv.CanBackquote},
	{name: "strconv.IsPrint", ref: strconv.IsPrint},
	{name: "strconv.IsGraphic", ref: strconv.IsGraphic},

	// math — "Most functions mirror the Go standard math package directly" (the native ones)
	{name: "math.Abs", ref: math.Abs}, {name: "math.Acos", ref: math.Acos}, {name: "math.Acosh", ref: math.Acosh},
	{name: "math.Asin", ref: math.Asin}, {name: "math.Asinh", ref: math.Asinh}, {name: "math.Atan", ref: math.Atan},
	{name: "math.Atanh", ref: math.Atanh}, {name: "math.Cbrt", ref: math.Cbrt}, {name: "math.Ceil", ref: math.Ceil},
	{name: "math.Cos", ref: math.Cos}, {name: "math.Cosh", ref: math.Cosh}, {name: "math.Erf", ref: math.Erf},
	{name: "math.Erfc", ref: math.Erfc}, {name: "math.Erfcinv", ref: math.Erfcinv}, {name: "math.Erfinv", ref: math.Erfinv},
	{name: "math.Exp2", ref: math.Exp2}, {name: "math.Expm1", ref: math.Expm1}, {name: "math.Floor", ref: math.Floor},
	{name: "math.Gamma", ref: math.Gamma}, {name: "math.Inf", ref: math.Inf}, {name: "math.IsInf", ref: math.IsInf},
	{name: "math.IsNaN", ref: math.IsNaN}, {name: "math.Log", ref: math.Log}, {name: "math.Mod", ref: math.Mod},
	{name: "math.NaN", ref: math.NaN}, {name: "math.Remainder", ref: math.Remainder}, {name: "math.Round", ref: math.Round},
	{name: "math.RoundToEven", ref: math.RoundToEven}, {name: "math.Sin", ref: math.Sin}, {name: "math.Sinh", ref: math.Sinh},
	{name: "math.Sqrt", ref: math.Sqrt}, {name: "math.Tan", ref: math.Tan}, {name: "math.Tanh", ref: math.Tanh},
	{name: "math.Trunc", ref: math.Trunc},

	// cmplx — "mirroring Go's standard math/cmplx package"
	{name: "cmplx.Abs", ref: cmplx.Abs}, {name: "cmplx.Conj", ref: cmplx.Conj}, {name: "cmplx.Cos", ref: cmplx.Cos},
	{name: "cmplx.Exp", ref: cmplx.Exp}, {name: "cmplx.Inf", ref: cmplx.Inf}, {name: "cmplx.IsInf", ref: cmplx.IsInf},
	{name: "cmplx.IsNaN", ref: cmplx.IsNaN}, {name: "cmplx.Log", ref: cmplx.Log}, {name: "cmplx.Log10", ref: cmplx.Log10},
	{name: "cmplx.NaN", ref: cmplx.NaN}, {name: "cmplx.Phase", ref: cmplx.Phase}, {name: "cmplx.Polar", ref: cmplx.Polar},
	{name: "cmplx.Pow", ref: cmplx.Pow}, {name: "cmplx.Rect", ref: cmplx.Rect}, {name: "cmplx.Sin", ref: cmplx.Sin},
	{name: "cmplx.Sqrt", ref: cmplx.Sqrt}, {name: "cmplx.Tan", ref: cmplx.Tan},

	// filepath — "thin, native passthrough to Go's standard path/filepath package, so it behaves identically to Go"
	{name: "filepath.Base", ref: filepath.Base, gens: []argGen{gPath}},
	{name: "filepath.Dir", ref: filepath.Dir, gens: []argGen{gPath}},
	{name: "filepath.Ext", ref: filepath.Ext, gens: []argGen{gPath}},
	{name: "filepath.Clean", ref: filepath.Clean, gens: []argGen{gPath}},
	{name: "filepath.Join", ref: filepath.Join, gens: []argGen{gPath}},
	{name: "filepath.Abs", ref: filepath.Abs, gens: []argGen{gPath}},
}

// uncoveredReason documents why a declared name is not compared with a Go
// function by this check (soundness: when in doubt, leave it out).
var uncoveredReason = map[string]string{
	"strings.Builder": "type (methods not exercised)", "strings.Reader": "type (methods not exercised)", "strings.NewReader": "returns a native reader object",
	"strings.Chars": "Ego-only", "strings.Format": "Ego-only", "strings.Generate": "Ego-only (random)", "strings.Ints": "Ego-only", "strings.Left": "Ego-only", "strings.Right": "Ego-only",
	"strings.Length": "Ego-only", "strings.String": "Ego-only", "strings.Substitution": "Ego-only", "strings.Substring": "Ego-only", "strings.Template": "Ego-only", "strings.Tokenize": "Ego-only",
	"strings.Truncate": "Ego-only", "strings.URLPattern": "Ego-only", "strings.Camel": "Ego-only",
	"strings.Split": "documented with a different signature (optional delimiter)",
	"strconv.Itor":  "Ego-only; covered by the Roman-numeral round trip", "strconv.Rtoi": "Ego-only; covered by the Roman-numeral round trip",
	"math.Max": "documented as variadic over mixed numeric types (not Go's signature)", "math.Min": "documented as variadic over mixed numeric types (not Go's signature)",
	"math.Sum": "Ego-only", "math.Normalize": "Ego-only", "math.Random": "Ego-only (random)", "math.Factor": "Ego-only", "math.Primes": "Ego-only",
	"base64.Encode": "string-to-string signature differs from Go; covered by the base64 checks against encoding/base64.StdEncoding", "base64.Decode": "as base64.Encode",
	"json.Marshal": "variadic extension; single-argument form covered by the JSON checks", "json.Unmarshal": "covered by the JSON round trip", "json.MarshalIndent": "not compared (covered indirectly: same encoder)",
	"json.Parse": "Ego-only", "json.ReadFile": "Ego-only (file I/O)", "json.WriteFile": "Ego-only (file I/O)",
	"sort.Bytes": "Ego signature (returns array, error); covered by the sort checks", "sort.Float32s": "as sort.Bytes", "sort.Float64s": "as sort.Bytes", "sort.Int32s": "as sort.Bytes", "sort.Int64s": "as sort.Bytes", "sort.Ints": "as sort.Bytes",
	"sort.Strings": "as sort.Bytes", "sort.Sort": "as sort.Bytes", "sort.Stable": "as sort.Bytes", "sort.Slice": "covered by the comparator sort checks", "sort.SliceStable": "covered by the comparator sort checks (stability)",
	"sort.Search": "covered by the search checks", "sort.SearchInts": "covered by the search checks", "sort.SearchFloat64s": "covered by the search checks", "sort.SearchStrings": "covered by the search checks",
	"sort.IsSorted": "covered by the is-sorted checks", "sort.IntsAreSorted": "covered by the is-sorted checks", "sort.Float64sAreSorted": "covered by the is-sorted checks", "sort.StringsAreSorted": "covered by the is-sorted checks",
	"time.Now": "reads the clock", "time.Since": "reads the clock", "time.Sleep": "blocks", "time.LoadLocation": "depends on the host's zone database", "time.FixedZone": "returns a native object; exercised only through time.Date-free paths",
	"time.Date": "Ego wrapper with a nil-location convention (documented deviation)", "time.ParseAny": "Ego-only", "time.ParseDuration": "documented extension (d suffix, spaces)",
	"time.Unix": "covered by the time formatting checks", "time.Parse": "covered by the time parsing checks",
	"time.Duration": "type; String/Hours/... covered by the duration checks", "time.Time": "type; Format covered by the time checks", "time.Month": "type", "time.Weekday": "type", "time.Location": "type",
	"fmt.Sprintf": "covered by the scalar-verb checks", "fmt.Sprint": "documented spacing rule, not compared", "fmt.Print": "writes to stdout", "fmt.Printf": "writes to stdout", "fmt.Println": "writes to stdout",
	"fmt.Scan": "Ego signature", "fmt.Sscanf": "Ego signature",
}

// specialCovers lists the declared names that the non-table checks exercise.
var specialCovers = map[string]string{
	"base64.Encode": "base64", "base64.Decode": "base64", "strconv.Itor": "roman", "strconv.Rtoi": "roman",
	"json.Marshal": "json", "json.Unmarshal": "json",
	"sort.Bytes": "sort", "sort.Float32s": "sort", "sort.Float64s": "sort", "sort.Int32s": "sort", "sort.Int64s": "sort", "sort.Ints": "sort", "sort.Strings": "sort", "sort.Sort": "sort", "sort.Stable": "sort",
	"sort.Slice": "sortfunc", "sort.SliceStable": "sortfunc", "sort.Search": "search", "sort.SearchInts": "search", "sort.SearchFloat64s": "search", "sort.SearchStrings": "search",
	"sort.IsSorted": "issorted", "sort.IntsAreSorted": "issorted", "sort.Float64sAreSorted": "issorted", "sort.StringsAreSorted": "issorted",
	"time.Unix": "timefmt", "time.Parse": "timeparse", "time.Duration": "duration", "fmt.Sprintf": "sprintf",
}
