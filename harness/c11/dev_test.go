package c11

import (
	"fmt"
	"os"
	"sort"
	"testing"

	"pgregory.net/rapid"
)

// TestC11Sigs is a development aid (VERIF_DEV=1): it samples the generator and
// prints every failing signature with a count and one example.
func TestC11Sigs(t *testing.T) {
	if os.Getenv("VERIF_DEV") == "" {
		t.Skip("development aid")
	}
	type info struct {
		n  int
		ex string
	}
	sigs := map[string]*info{}
	skips := map[string]int{}
	labels := map[string]int{}
	eval := func(c Case) {
		o := oracle(c)
		if o.Skip != "" {
			skips[o.Skip+" e.g. "+c.Fn]++
			return
		}
		for _, l := range o.Labels {
			labels[l]++
		}
		if o.Fail != nil {
			i := sigs[o.Fail.Sig]
			if i == nil {
				i = &info{ex: o.Fail.Observed + " WANT " + o.Fail.Expected}
				sigs[o.Fail.Sig] = i
			}
			i.n++
		}
	}
	for _, c := range fixed() {
		eval(c)
	}
	rapid.Check(t, func(rt *rapid.T) { eval(gen(rt)) })
	var ks []string
	for k := range sigs {
		ks = append(ks, k)
	}
	sort.Strings(ks)
	for _, k := range ks {
		fmt.Printf("SIG %-70s n=%-5d %s\n", k, sigs[k].n, sigs[k].ex)
	}
	for k, n := range skips {
		fmt.Printf("SKIP %d %s\n", n, k)
	}
	if os.Getenv("VERIF_DEV") == "labels" {
		var ls []string
		for l := range labels {
			ls = append(ls, l)
		}
		sort.Strings(ls)
		for _, l := range ls {
			fmt.Printf("LABEL %6d %s\n", labels[l], l)
		}
	}
}
