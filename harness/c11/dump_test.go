package c11

import (
	"fmt"
	"os"
	"reflect"
	"runtime"
	"sort"
	"strings"
	"testing"

	"github.com/tucats/ego/internal/language/data"
)

func TestDump(t *testing.T) {
	if os.Getenv("VERIF_DEV") == "" {
		t.Skip("dev")
	}
	for _, name := range pkgNames {
		p := pkgs[name]
		keys := p.Keys()
		sort.Strings(keys)
		for _, k := range keys {
			v, _ := p.Get(k)
			f, ok := v.(data.Function)
			if !ok {
				fmt.Printf("%s.%s  [%T]\n", name, k, v)
				continue
			}
			var ps []string
			if f.Declaration != nil {
				for _, pp := range f.Declaration.Parameters {
					ps = append(ps, pp.Name+" "+pp.Type.String())
				}
			}
			var rs []string
			if f.Declaration != nil {
				for _, r := range f.Declaration.Returns {
					rs = append(rs, r.String())
				}
			}
			fn := ""
			if rv := reflect.ValueOf(f.Value); rv.Kind() == reflect.Func {
				fn = runtime.FuncForPC(rv.Pointer()).Name()
			}
			variadic := ""
			if f.Declaration != nil && f.Declaration.Variadic {
				variadic = " variadic"
			}
			fmt.Printf("%s.%s(%s) (%s)%s native=%v ext=%v impl=%s\n", name, k, strings.Join(ps, ", "), strings.Join(rs, ", "), variadic, f.IsNative, f.Extension, fn)
		}
	}
}
