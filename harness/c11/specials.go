package c11

// Checks that are not a plain "same result as the Go function": documented
// round trips, sorts, searches, formatting.

import (
	"encoding/base64"
	"encoding/json"
	"fmt"
	"math"
	"reflect"
	"sort"
	"strconv"
	"strings"
	"time"

	"github.com/tucats/ego/verif/vkit"
	"pgregory.net/rapid"
)

type special struct {
	gen    func(t *rapid.T) Case
	oracle func(c Case) vkit.Outcome
	fixed  func() []Case
}

var specials map[string]special

var specialNames []string

func init() {
	specials = map[string]special{
		"base64": {genBase64, oracleBase64, func() []Case {
			return []Case{{Fn: "special:base64", Args: []Arg{strArg("Hello, World!"), strArg("SGVsbG8sIFdvcmxkIQ==")}}}
		}},
		"roman": {genRoman, oracleRoman, func() []Case { return []Case{{Fn: "special:roman", Args: []Arg{intArg(1994), strArg(" %s ")}}} }},
		"json": {genJSON, oracleJSON, func() []Case {
			return []Case{{Fn: "special:json", Args: []Arg{listArg("[]string", []Arg{strArg("a<b"), strArg("é\xff")})}}}
		}},
		"sort": {genSort, oracleSort, func() []Case {
			return []Case{{Fn: "special:sort", Args: []Arg{strArg("Ints"), listArg("[]int", []Arg{intArg(3), intArg(-1), intArg(2)})}}}
		}},
		"sortfunc": {genSortFunc, oracleSortFunc, func() []Case {
			return []Case{{Fn: "special:sortfunc", Args: []Arg{strArg("SliceStable"), listArg("[]int", []Arg{intArg(1), intArg(0), intArg(1), intArg(0)})}}}
		}},
		"search": {genSearch, oracleSearch, func() []Case {
			return []Case{{Fn: "special:search", Args: []Arg{strArg("SearchInts"), listArg("[]int", []Arg{intArg(1), intArg(3), intArg(5)}), intArg(3)}}}
		}},
		"issorted": {genIsSorted, oracleIsSorted, func() []Case {
			return []Case{{Fn: "special:issorted", Args: []Arg{strArg("IntsAreSorted"), listArg("[]int", []Arg{intArg(1), intArg(3), intArg(2)})}}}
		}},
		"sprintf": {genSprintf, oracleSprintf, func() []Case {
			return []Case{{Fn: "special:sprintf", Args: []Arg{strArg("%08.3f|"), floatArg(3.14159)}}}
		}},
		"timefmt": {genTimeFmt, oracleTimeFmt, func() []Case {
			return []Case{{Fn: "special:timefmt", Args: []Arg{int64Arg(1705315800), int64Arg(5), strArg(time.RFC1123)}}}
		}},
		"timeparse": {genTimeParse, oracleTimeParse, func() []Case {
			return []Case{{Fn: "special:timeparse", Args: []Arg{strArg("1/2/2006 15:04"), strArg("12/7/1960 15:30")}}}
		}},
		"duration": {genDuration, oracleDuration, func() []Case { return []Case{{Fn: "special:duration", Args: []Arg{int64Arg(5400000000000)}}} }},
	}
	for n := range specials {
		specialNames = append(specialNames, n)
	}
	sort.Strings(specialNames)
}

func failf(out vkit.Outcome, sig, observed, expected string) vkit.Outcome {
	out.Fail = &vkit.Failure{Sig: sig, Observed: observed, Expected: expected}
	return out
}

func anyInteresting(args []Arg) bool {
	for _, a := range args {
		if a.interesting() {
			return true
		}
	}
	return false
}

// ------------------------------------------------------------------ base64

func genBase64(t *rapid.T) Case {
	s := genString(t, "plain")
	if rapid.IntRange(0, 3).Draw(t, "long") == 0 {
		s = strings.Repeat(s, rapid.IntRange(1, 20).Draw(t, "rep"))
	}
	// text to decode: a valid encoding, or one damaged in a drawn way
	enc := base64.StdEncoding.EncodeToString([]byte(genString(t, "other")))
	switch rapid.IntRange(0, 7).Draw(t, "damage") {
	case 0:
		enc = strings.TrimRight(enc, "=")
	case 1:
		enc += "="
	case 2:
		if len(enc) > 0 {
			i := rapid.IntRange(0, len(enc)-1).Draw(t, "pos")
			enc = enc[:i] + rapid.SampledFrom([]string{"!", " ", "\n", "\r\n", "-", "_", "=", "é", "\x00"}).Draw(t, "ins") + enc[i:]
		}
	case 3:
		if len(enc) > 1 {
			enc = enc[:len(enc)-1]
		}
	case 4:
		enc = base64.URLEncoding.EncodeToString([]byte(genString(t, "url")))
	case 5:
		enc = genString(t, "junk")
	}
	return Case{Fn: "special:base64", Args: []Arg{strArg(s), strArg(enc)}}
}

func oracleBase64(c Case) vkit.Outcome {
	var out vkit.Outcome
	s, text := c.Args[0].str(), c.Args[1].str()
	out.NonTrivial = anyInteresting(c.Args)
	wantEnc := base64.StdEncoding.EncodeToString([]byte(s))
	wantDec, wantErr := base64.StdEncoding.DecodeString(text)
	out.Labels = []string{fmt.Sprintf("base64 decode-input-valid=%v", wantErr == nil)}
	got, res := runEgo("\te := base64.Encode(a0)\n\tr0 = e\n\td, err := base64.Decode(e)\n\tr1 = d\n\tr2 = err\n\td2, err2 := base64.Decode(a1)\n\tr3 = d2\n\tr4 = err2", []any{s, text})
	if f := egoFailure(res); f != "" {
		return failf(out, "base64: call fails in Ego", fmt.Sprintf("Encode(%s) / Decode(%s): %s", c.Args[0], c.Args[1], f), "no error")
	}
	if g, ok := got[0].(string); !ok || g != wantEnc {
		return failf(out, "base64.Encode: differs from encoding/base64 StdEncoding", fmt.Sprintf("Encode(%s) = %s", c.Args[0], show(got[0])), strconv.Quote(wantEnc))
	}
	if g, ok := got[1].(string); !ok || g != s || got[2] != nil {
		return failf(out, "base64: Decode(Encode(s)) != s", fmt.Sprintf("Decode(Encode(%s)) = %s, %s", c.Args[0], show(got[1]), show(got[2])), c.Args[0].Q+", nil")
	}
	if (got[4] != nil) != (wantErr != nil) {
		return failf(out, "base64.Decode: success/failure differs", fmt.Sprintf("Decode(%s) = %s, %s", c.Args[1], show(got[3]), show(got[4])), fmt.Sprintf("StdEncoding.DecodeString: %q, %v", wantDec, wantErr))
	}
	if wantErr == nil {
		if g, ok := got[3].(string); !ok || g != string(wantDec) {
			return failf(out, "base64.Decode: value differs", fmt.Sprintf("Decode(%s) = %s", c.Args[1], show(got[3])), strconv.QuoteToASCII(string(wantDec)))
		}
	}
	return out
}

// ------------------------------------------------------------------- roman

func genRoman(t *rapid.T) Case {
	var i int
	switch rapid.IntRange(0, 3).Draw(t, "class") {
	case 0:
		i = rapid.SampledFrom([]int{1, 3, 4, 5, 9, 14, 40, 49, 90, 99, 400, 444, 900, 999, 1994, 3888, 3999, 0, -1, 4000, 4001, 10000, math.MinInt32}).Draw(t, "i")
	default:
		i = rapid.IntRange(1, 3999).Draw(t, "i")
	}
	decor := rapid.SampledFrom([]string{"%s", " %s", "%s ", "\t%s\n", "lower", "lower ", "mixed"}).Draw(t, "decor")
	return Case{Fn: "special:roman", Args: []Arg{intArg(i), strArg(decor)}}
}

func toRoman(n int) string {
	vals := []int{1000, 900, 500, 400, 100, 90, 50, 40, 10, 9, 5, 4, 1}
	syms := []string{"M", "CM", "D", "CD", "C", "XC", "L", "XL", "X", "IX", "V", "IV", "I"}
	var sb strings.Builder
	for i, v := range vals {
		for n >= v {
			sb.WriteString(syms[i])
			n -= v
		}
	}
	return sb.String()
}

func oracleRoman(c Case) vkit.Outcome {
	var out vkit.Outcome
	i, decor := int(c.Args[0].I), c.Args[1].str()
	inRange := i >= 1 && i <= 3999
	out.NonTrivial = i > 9 || !inRange
	out.Labels = []string{fmt.Sprintf("roman in-range=%v", inRange)}
	got, res := runEgo("\ts, e := strconv.Itor(a0)\n\tr0 = s\n\tr1 = e", []any{i})
	if f := egoFailure(res); f != "" {
		return failf(out, "roman: Itor call fails in Ego", fmt.Sprintf("Itor(%d): %s", i, f), "a (string, error) result")
	}
	if !inRange {
		// docs: "Values outside that range ... return an error"
		if got[1] == nil {
			return failf(out, "roman: Itor out of range returns no error", fmt.Sprintf("Itor(%d) = %s, nil", i, show(got[0])), "an error (docs: range 1-3999)")
		}
		return out
	}
	s, ok := got[0].(string)
	if got[1] != nil || !ok || s != toRoman(i) {
		return failf(out, "roman: Itor value", fmt.Sprintf("Itor(%d) = %s, %s", i, show(got[0]), show(got[1])), strconv.Quote(toRoman(i))+", nil")
	}
	// parse of the format, also in the spellings the docs allow:
	// "Case-insensitive; leading/trailing whitespace is ignored."
	text := s
	switch {
	case strings.HasPrefix(decor, "lower"):
		text = strings.ToLower(s) + strings.TrimPrefix(decor, "lower")
	case decor == "mixed":
		b := []byte(s)
		for k := range b {
			if k%2 == 1 {
				b[k] += 'a' - 'A'
			}
		}
		text = string(b)
	default:
		text = fmt.Sprintf(decor, s)
	}
	got2, res2 := runEgo("\tn, e := strconv.Rtoi(a0)\n\tr0 = n\n\tr1 = e", []any{text})
	if f := egoFailure(res2); f != "" {
		return failf(out, "roman: Rtoi call fails in Ego", fmt.Sprintf("Rtoi(%q): %s", text, f), strconv.Itoa(i))
	}
	if n, ok := asInt64(got2[0]); !ok || got2[1] != nil || n != int64(i) {
		return failf(out, "roman: Rtoi(Itor(i)) != i", fmt.Sprintf("Itor(%d) = %q; Rtoi(%q) = %s, %s", i, s, text, show(got2[0]), show(got2[1])), fmt.Sprintf("%d, nil", i))
	}
	return out
}

// -------------------------------------------------------------------- json

// A JSON case is one value: a scalar, an array of scalars of one type, a
// map[string]T, or a []interface{} of mixed scalars. Composites are built by
// the Ego program from leaf values in the symbol table.
func genJSONScalar(t *rapid.T, kind string, label string) Arg {
	switch kind {
	case "string":
		return strArg(genString(t, label))
	case "int":
		return Arg{T: "int", I: genInt64(t, label)}
	case "float64":
		f := genFloat(t, label)
		return floatArg(f)
	default:
		return Arg{T: "bool", B: rapid.Bool().Draw(t, label)}
	}
}

func genJSON(t *rapid.T) Case {
	shape := rapid.SampledFrom([]string{"scalar", "array", "map", "mixed"}).Draw(t, "shape")
	kind := rapid.SampledFrom([]string{"string", "int", "float64", "bool"}).Draw(t, "kind")
	switch shape {
	case "scalar":
		return Case{Fn: "special:json", Args: []Arg{genJSONScalar(t, kind, "v")}}
	case "array":
		n := rapid.IntRange(0, 4).Draw(t, "n")
		l := make([]Arg, n)
		for i := range l {
			l[i] = genJSONScalar(t, kind, "e")
		}
		return Case{Fn: "special:json", Args: []Arg{listArg("[]"+kind, l)}}
	case "map":
		// distinct keys: what a map literal does with a repeated key is not
		// this property's business
		n := rapid.IntRange(0, 3).Draw(t, "n")
		var l []Arg
		seen := map[string]bool{}
		for i := 0; i < n; i++ {
			k := genString(t, "k")
			if seen[k] {
				continue
			}
			seen[k] = true
			l = append(l, strArg(k), genJSONScalar(t, kind, "e"))
		}
		return Case{Fn: "special:json", Args: []Arg{listArg("map[string]"+kind, l)}}
	default:
		n := rapid.IntRange(0, 4).Draw(t, "n")
		l := make([]Arg, n)
		for i := range l {
			l[i] = genJSONScalar(t, rapid.SampledFrom([]string{"string", "int", "float64", "bool"}).Draw(t, "ek"), "e")
		}
		return Case{Fn: "special:json", Args: []Arg{listArg("[]interface{}", l)}}
	}
}

// jsonBuild returns the Ego expression that builds the value from a0.., the
// leaf values, and the Go value.
func jsonBuild(a Arg) (expr string, leaves []any, goVal any) {
	name := func() string { return fmt.Sprintf("a%d", len(leaves)) }
	switch {
	case strings.HasPrefix(a.T, "map[string]"):
		et := strings.TrimPrefix(a.T, "map[string]")
		var parts []string
		m := map[string]any{}
		for i := 0; i+1 < len(a.L); i += 2 {
			k := name()
			leaves = append(leaves, a.L[i].goValue())
			v := name()
			leaves = append(leaves, a.L[i+1].goValue())
			parts = append(parts, k+": "+v)
			m[a.L[i].str()] = a.L[i+1].goValue()
		}
		return "map[string]" + et + "{" + strings.Join(parts, ", ") + "}", leaves, m
	case strings.HasPrefix(a.T, "[]"):
		et := strings.TrimPrefix(a.T, "[]")
		var parts []string
		l := []any{}
		for _, e := range a.L {
			parts = append(parts, name())
			leaves = append(leaves, e.goValue())
			l = append(l, e.goValue())
		}
		return "[]" + et + "{" + strings.Join(parts, ", ") + "}", leaves, l
	}
	return "a0", []any{a.goValue()}, a.goValue()
}

func hasNonFinite(a Arg) bool {
	if a.T == "float64" {
		return math.IsNaN(a.float()) || math.IsInf(a.float(), 0)
	}
	for _, e := range a.L {
		if hasNonFinite(e) {
			return true
		}
	}
	return false
}

func jsonEqual(a, b any) bool {
	switch x := a.(type) {
	case map[string]any:
		y, ok := b.(map[string]any)
		if !ok || len(x) != len(y) {
			return false
		}
		for k, v := range x {
			w, ok := y[k]
			if !ok || !jsonEqual(v, w) {
				return false
			}
		}
		return true
	case []any:
		y, ok := b.([]any)
		if !ok || len(x) != len(y) {
			return false
		}
		for i := range x {
			if !jsonEqual(x[i], y[i]) {
				return false
			}
		}
		return true
	case float64:
		y, ok := b.(float64)
		return ok && math.Float64bits(x) == math.Float64bits(y)
	}
	return reflect.DeepEqual(a, b)
}

// jsonGoType is the Go type of a JSON case and jsonModel the Ego expression of
// an empty value of the same type (the "model" json.Unmarshal is given).
func jsonGoType(a Arg) (reflect.Type, string) {
	scalar := func(k string) (reflect.Type, string) {
		switch k {
		case "string":
			return reflect.TypeOf(""), `""`
		case "int":
			return reflect.TypeOf(int(0)), "0"
		case "float64":
			return reflect.TypeOf(float64(0)), "0.0"
		case "bool":
			return reflect.TypeOf(false), "false"
		}
		return reflect.TypeOf((*any)(nil)).Elem(), ""
	}
	switch {
	case strings.HasPrefix(a.T, "map[string]"):
		et, _ := scalar(strings.TrimPrefix(a.T, "map[string]"))
		return reflect.MapOf(reflect.TypeOf(""), et), a.T + "{}"
	case strings.HasPrefix(a.T, "[]"):
		et, _ := scalar(strings.TrimPrefix(a.T, "[]"))
		return reflect.SliceOf(et), a.T + "{}"
	}
	return scalar(a.T)
}

func oracleJSON(c Case) vkit.Outcome {
	var out vkit.Outcome
	a := c.Args[0]
	if strings.HasPrefix(a.T, "map[") {
		seen := map[string]bool{}
		for i := 0; i+1 < len(a.L); i += 2 {
			if seen[a.L[i].str()] {
				out.Skip = "repeated key in map literal"
				return out
			}
			seen[a.L[i].str()] = true
		}
	}
	expr, leaves, goVal := jsonBuild(a)
	out.NonTrivial = a.interesting()
	wantText, wantErr := json.Marshal(goVal)
	out.Labels = []string{fmt.Sprintf("json type=%s go-marshal-ok=%v", a.T, wantErr == nil)}
	goType, model := jsonGoType(a)
	body := strings.Join([]string{
		"\tv := " + expr,
		"\tb, e := json.Marshal(v)",
		"\tr1 = e",
		"\tif e == nil {",
		"\t\tr0 = string(b)",
		"\t\tm := " + model,
		"\t\te2 := json.Unmarshal(b, &m)",
		"\t\tr2 = e2",
		"\t\tr3 = m",
		"\t\tvar u interface{}",
		"\t\te3 := json.Unmarshal(b, &u)",
		"\t\tr4 = e3",
		"\t\tr5 = u",
		"\t}",
	}, "\n")
	got, res := runEgo(body, leaves)
	desc := fmt.Sprintf("value %s", a)
	kind := jsonKind(a)
	if f := egoFailure(res); f != "" {
		return failf(out, "json: call fails in Ego ("+kind+")", desc+": "+f, "json.Marshal = "+string(wantText))
	}
	if (got[1] != nil) != (wantErr != nil) {
		return failf(out, "json.Marshal: success/failure differs ("+kind+")", fmt.Sprintf("%s: Marshal error = %s, text %s", desc, show(got[1]), show(got[0])), fmt.Sprintf("encoding/json: %s, %v", wantText, wantErr))
	}
	if wantErr != nil {
		return out
	}
	if g, ok := got[0].(string); !ok || g != string(wantText) {
		return failf(out, "json.Marshal: text differs ("+kind+")", fmt.Sprintf("%s: Marshal = %s", desc, show(got[0])), strconv.QuoteToASCII(string(wantText)))
	}
	// round trip 1: into a model of the value's own type (the documented use).
	// The expectation is what encoding/json itself gives for the same type.
	back := reflect.New(goType)
	if err := json.Unmarshal(wantText, back.Interface()); err != nil {
		out.Skip = "go cannot decode its own output"
		return out
	}
	big := ""
	if hasBigInt(a) {
		big = " beyond 2^53"
	}
	if got[2] != nil {
		return failf(out, "json round trip (typed model): Unmarshal error ("+kind+big+")", fmt.Sprintf("%s: Unmarshal(%s, &%s) error %s", desc, wantText, model, show(got[2])), "nil")
	}
	if !same(back.Elem(), got[3]) {
		return failf(out, "json round trip (typed model): value differs ("+kind+big+")", fmt.Sprintf("%s: Unmarshal(Marshal(v), &%s) gives %s", desc, model, show(got[3])), fmt.Sprintf("%#v", back.Elem().Interface()))
	}
	// round trip 2: into a generic destination. docs/LANGUAGE.md json.Unmarshal:
	// "A generic destination (interface{}/any, or a map/array of it) decodes JSON
	// numbers as float64 and JSON objects/arrays as map[string]any/[]any
	// (converted to Ego maps/arrays), exactly as Go's encoding/json does".
	var wantBack any
	_ = json.Unmarshal(wantText, &wantBack)
	if got[4] != nil {
		return failf(out, "json round trip (interface{} destination): Unmarshal error", fmt.Sprintf("%s: var u interface{}; Unmarshal(%s, &u) error %s", desc, wantText, show(got[4])), "nil")
	}
	if !jsonEqual(wantBack, plain(got[5])) {
		return failf(out, "json round trip (interface{} destination): value differs ("+kind+")", fmt.Sprintf("%s: Unmarshal(Marshal(v), &u) = %s", desc, show(got[5])), fmt.Sprintf("%#v", wantBack))
	}
	return out
}

func hasBigInt(a Arg) bool {
	if a.T == "int" {
		return a.I > 1<<53 || a.I < -(1<<53)
	}
	for _, e := range a.L {
		if hasBigInt(e) {
			return true
		}
	}
	return false
}

func jsonKind(a Arg) string {
	if hasNonFinite(a) {
		return a.T + " non-finite"
	}
	return a.T
}

// -------------------------------------------------------------------- sort

var sortElem = map[string]string{"Ints": "[]int", "Int32s": "[]int32", "Int64s": "[]int64", "Float32s": "[]float32", "Float64s": "[]float64", "Strings": "[]string", "Bytes": "[]byte"}

func genArray(t *rapid.T, typ string, allowNaN bool) Arg {
	n := rapid.SampledFrom([]int{0, 0, 1, 2, 3, 5, 8, 13, 40}).Draw(t, "n")
	l := make([]Arg, n)
	for i := range l {
		switch typ {
		case "[]string":
			l[i] = strArg(genString(t, "e"))
		case "[]int":
			l[i] = Arg{T: "int", I: genInt64(t, "e")}
		case "[]int64":
			l[i] = Arg{T: "int64", I: genInt64(t, "e")}
		case "[]int32":
			l[i] = Arg{T: "int32", I: int64(int32(genInt64(t, "e")))}
		case "[]byte":
			l[i] = Arg{T: "byte", I: int64(rapid.IntRange(0, 255).Draw(t, "e"))}
		case "[]float64", "[]float32":
			f := rapid.SampledFrom([]float64{0, math.Copysign(0, -1), 1, -1, 0.5, 2, math.Inf(1), math.Inf(-1), math.NaN(), 1e30, -1e30, 3}).Draw(t, "e")
			if rapid.Bool().Draw(t, "rnd") {
				f = float64(rapid.IntRange(-50, 50).Draw(t, "ev")) / 4
			}
			if math.IsNaN(f) && !allowNaN {
				f = 7
			}
			if typ == "[]float32" {
				l[i] = Arg{T: "float32", U: math.Float64bits(float64(float32(f)))}
			} else {
				l[i] = floatArg(f)
			}
		}
	}
	return listArg(typ, l)
}

func genSort(t *rapid.T) Case {
	fn := rapid.SampledFrom([]string{"Ints", "Int32s", "Int64s", "Float32s", "Float64s", "Strings", "Bytes", "Sort", "Stable", "Stable"}).Draw(t, "fn")
	typ := sortElem[fn]
	if typ == "" {
		typ = rapid.SampledFrom([]string{"[]int", "[]int32", "[]int64", "[]float32", "[]float64", "[]string", "[]byte", "[]float64"}).Draw(t, "elem")
	}
	return Case{Fn: "special:sort", Args: []Arg{strArg(fn), genArray(t, typ, true)}}
}

// keyOf gives an element a canonical identity (bits for floats) and lessOf the
// order Go's sort package uses for the element type.
func elemBits(v any) string {
	switch x := v.(type) {
	case float64:
		if math.IsNaN(x) {
			return "NaN"
		}
		return fmt.Sprintf("f%x", math.Float64bits(x))
	case float32:
		if x != x {
			return "NaN"
		}
		return fmt.Sprintf("f%x", math.Float32bits(x))
	case string:
		return "s" + x
	}
	if i, ok := asInt64(v); ok {
		return fmt.Sprintf("i%d", i)
	}
	return fmt.Sprintf("?%T%v", v, v)
}

func elemLess(a, b any) bool {
	switch x := a.(type) {
	case float64:
		y, _ := b.(float64)
		return x < y || (math.IsNaN(x) && !math.IsNaN(y))
	case float32:
		y, _ := b.(float32)
		return x < y || (x != x && y == y)
	case string:
		y, _ := b.(string)
		return x < y
	}
	i, _ := asInt64(a)
	j, _ := asInt64(b)
	return i < j
}

func toAnySlice(v any) []any {
	rv := reflect.ValueOf(v)
	out := make([]any, rv.Len())
	for i := range out {
		out[i] = rv.Index(i).Interface()
	}
	return out
}

func bitsOf(vs []any) []string {
	out := make([]string, len(vs))
	for i, v := range vs {
		out[i] = elemBits(v)
	}
	return out
}

func oracleSort(c Case) vkit.Outcome {
	var out vkit.Outcome
	fn, arr := c.Args[0].str(), c.Args[1]
	input := toAnySlice(arr.goValue())
	out.NonTrivial = len(input) >= 2
	out.Labels = []string{"sort " + fn + " " + arr.T}
	got, res := runEgo("\tv, e := sort."+fn+"(a0)\n\tr0 = v\n\tr1 = e\n\tr2 = a0", []any{arr.egoValue()})
	sig := "sort." + fn + " " + arr.T + ": "
	desc := fmt.Sprintf("sort.%s(%s)", fn, arr)
	if f := egoFailure(res); f != "" {
		return failf(out, sig+"call fails in Ego", desc+": "+f, "sorted array, nil")
	}
	if got[1] != nil {
		return failf(out, sig+"returns an error", desc+" error "+show(got[1]), "nil error")
	}
	wantPerm := bitsOf(input)
	sort.Strings(wantPerm)
	nanNote := ""
	for _, b := range wantPerm {
		if b == "NaN" {
			nanNote = " (array contains NaN)"
		}
	}
	stable := append([]any(nil), input...)
	sort.SliceStable(stable, func(i, j int) bool { return elemLess(stable[i], stable[j]) })
	for _, w := range []struct {
		which string
		g     any
	}{{"returned array", got[0]}, {"argument array (in place)", got[2]}} {
		which, g := w.which, w.g
		vs, ok := plain(g).([]any)
		if !ok {
			return failf(out, sig+which+" is not an array", desc+": "+show(g), "array")
		}
		gotPerm := bitsOf(vs)
		sort.Strings(gotPerm)
		if strings.Join(gotPerm, "\x01") != strings.Join(wantPerm, "\x01") {
			return failf(out, sig+"not a permutation of the input", fmt.Sprintf("%s: %s = %s", desc, which, show(g)), "a permutation of the input")
		}
		// Ordered: the elements other than NaN are in non-decreasing order.
		// Where the NaNs go is not judged (Go's sort package puts them first;
		// the statement only says "ordered").
		var real []any
		for _, v := range vs {
			if elemBits(v) != "NaN" {
				real = append(real, v)
			}
		}
		for i := 0; i+1 < len(real); i++ {
			if elemLess(real[i+1], real[i]) {
				return failf(out, sig+"not ordered"+nanNote, fmt.Sprintf("%s: %s = %s", desc, which, show(g)), "elements (other than NaN) in non-decreasing order")
			}
		}
		if fn == "Stable" && nanNote == "" && strings.Join(bitsOf(vs), "\x01") != strings.Join(bitsOf(stable), "\x01") {
			return failf(out, sig+"not stable", fmt.Sprintf("%s: %s = %s", desc, which, show(g)), "equal elements (-0 and +0) keep their input order: "+fmt.Sprint(stable))
		}
	}
	return out
}

// comparator sorts: sort an index array by a key array with many ties; the
// index is the payload that makes stability observable.
func genSortFunc(t *rapid.T) Case {
	fn := rapid.SampledFrom([]string{"Slice", "SliceStable", "SliceStable"}).Draw(t, "fn")
	n := rapid.SampledFrom([]int{0, 1, 2, 3, 5, 8, 13, 30, 60}).Draw(t, "n")
	spread := rapid.SampledFrom([]int{1, 2, 3, 10}).Draw(t, "spread")
	l := make([]Arg, n)
	for i := range l {
		l[i] = intArg(rapid.IntRange(0, spread).Draw(t, "k"))
	}
	return Case{Fn: "special:sortfunc", Args: []Arg{strArg(fn), listArg("[]int", l)}}
}

func oracleSortFunc(c Case) vkit.Outcome {
	var out vkit.Outcome
	fn, keysArg := c.Args[0].str(), c.Args[1]
	keys := keysArg.goValue().([]int)
	idx := make([]Arg, len(keys))
	for i := range idx {
		idx[i] = intArg(i)
	}
	out.NonTrivial = len(keys) >= 3
	out.Labels = []string{fmt.Sprintf("sort.%s n=%d", fn, bucket(len(keys)))}
	body := "\tv, e := sort." + fn + "(a1, func(i int, j int) bool {\n\t\treturn a0[a1[i]] < a0[a1[j]]\n\t})\n\tr0 = v\n\tr1 = e\n\tr2 = a1"
	got, res := runEgo(body, []any{keysArg.egoValue(), listArg("[]int", idx).egoValue()})
	sig := "sort." + fn + " with comparator: "
	desc := fmt.Sprintf("keys %v sorted as an index array by sort.%s", keys, fn)
	if f := egoFailure(res); f != "" {
		return failf(out, sig+"call fails in Ego", desc+": "+f, "sorted index array, nil")
	}
	if got[1] != nil {
		return failf(out, sig+"returns an error", desc+" error "+show(got[1]), "nil error")
	}
	for _, w := range []struct {
		which string
		g     any
	}{{"returned array", got[0]}, {"argument array (in place)", got[2]}} {
		which, g := w.which, w.g
		vs, ok := plain(g).([]any)
		if !ok || len(vs) != len(keys) {
			return failf(out, sig+"not a permutation of the input", fmt.Sprintf("%s: %s = %s", desc, which, show(g)), "a permutation of 0..n-1")
		}
		seen := make([]bool, len(keys))
		order := make([]int, len(vs))
		for i, v := range vs {
			k, ok := asInt64(v)
			if !ok || k < 0 || int(k) >= len(keys) || seen[k] {
				return failf(out, sig+"not a permutation of the input", fmt.Sprintf("%s: %s = %s", desc, which, show(g)), "a permutation of 0..n-1")
			}
			seen[k] = true
			order[i] = int(k)
		}
		for i := 0; i+1 < len(order); i++ {
			a, b := order[i], order[i+1]
			if keys[a] > keys[b] {
				return failf(out, sig+"not ordered", fmt.Sprintf("%s: %s = %v", desc, which, order), "keys non-decreasing")
			}
			if fn == "SliceStable" && keys[a] == keys[b] && a > b {
				return failf(out, sig+"not stable", fmt.Sprintf("%s: %s = %v (equal keys at input positions %d, %d swapped)", desc, which, order, b, a), "equal keys keep their input order")
			}
		}
	}
	return out
}

func bucket(n int) int {
	switch {
	case n <= 1:
		return n
	case n <= 3:
		return 3
	case n <= 8:
		return 8
	case n <= 13:
		return 13
	}
	return 60
}

// searches on sorted input
func genSearch(t *rapid.T) Case {
	fn := rapid.SampledFrom([]string{"SearchInts", "SearchFloat64s", "SearchStrings", "Search"}).Draw(t, "fn")
	typ := map[string]string{"SearchInts": "[]int", "SearchFloat64s": "[]float64", "SearchStrings": "[]string", "Search": "[]int"}[fn]
	arr := genArray(t, typ, false)
	vs := arr.L
	sort.SliceStable(vs, func(i, j int) bool { return elemLess(vs[i].goValue(), vs[j].goValue()) })
	var x Arg
	if len(vs) > 0 && rapid.Bool().Draw(t, "present") {
		x = vs[rapid.IntRange(0, len(vs)-1).Draw(t, "pick")]
	} else {
		x = genArray(t, typ, true).L0(typ)
	}
	return Case{Fn: "special:search", Args: []Arg{strArg(fn), arr, x}}
}

// L0 is the first element of a drawn array, or a zero element of its type.
func (a Arg) L0(typ string) Arg {
	if len(a.L) > 0 {
		return a.L[0]
	}
	switch typ {
	case "[]string":
		return strArg("")
	case "[]float64":
		return floatArg(0)
	}
	return intArg(0)
}

func oracleSearch(c Case) vkit.Outcome {
	var out vkit.Outcome
	fn, arr, x := c.Args[0].str(), c.Args[1], c.Args[2]
	var want int
	switch v := arr.goValue().(type) {
	case []int:
		want = sort.SearchInts(v, int(x.I))
	case []float64:
		want = sort.SearchFloat64s(v, x.float())
	case []string:
		want = sort.SearchStrings(v, x.str())
	}
	out.NonTrivial = len(arr.L) >= 2
	out.Labels = []string{"sort." + fn}
	body := "\ti, e := sort." + fn + "(a0, a1)\n\tr0 = i\n\tr1 = e"
	if fn == "Search" {
		body = "\ti, e := sort.Search(len(a0), func(i int) bool {\n\t\treturn a0[i] >= a1\n\t})\n\tr0 = i\n\tr1 = e"
	}
	got, res := runEgo(body, []any{arr.egoValue(), x.egoValue()})
	desc := fmt.Sprintf("sort.%s(%s, %s)", fn, arr, x)
	if f := egoFailure(res); f != "" {
		return failf(out, "sort."+fn+": call fails in Ego", desc+": "+f, strconv.Itoa(want))
	}
	if i, ok := asInt64(got[0]); !ok || got[1] != nil || int(i) != want {
		return failf(out, "sort."+fn+": index differs", fmt.Sprintf("%s = %s, %s", desc, show(got[0]), show(got[1])), fmt.Sprintf("%d, nil", want))
	}
	return out
}

func genIsSorted(t *rapid.T) Case {
	fn := rapid.SampledFrom([]string{"IntsAreSorted", "Float64sAreSorted", "StringsAreSorted", "IsSorted"}).Draw(t, "fn")
	typ := map[string]string{"IntsAreSorted": "[]int", "Float64sAreSorted": "[]float64", "StringsAreSorted": "[]string"}[fn]
	if typ == "" {
		typ = rapid.SampledFrom([]string{"[]int", "[]float64", "[]string", "[]int32", "[]int64", "[]byte", "[]float32"}).Draw(t, "elem")
	}
	arr := genArray(t, typ, false)
	switch rapid.IntRange(0, 2).Draw(t, "presort") {
	case 0:
		sort.SliceStable(arr.L, func(i, j int) bool { return elemLess(arr.L[i].goValue(), arr.L[j].goValue()) })
	case 1: // sorted, then one adjacent pair swapped
		sort.SliceStable(arr.L, func(i, j int) bool { return elemLess(arr.L[i].goValue(), arr.L[j].goValue()) })
		if len(arr.L) >= 2 {
			i := rapid.IntRange(0, len(arr.L)-2).Draw(t, "swap")
			arr.L[i], arr.L[i+1] = arr.L[i+1], arr.L[i]
		}
	}
	return Case{Fn: "special:issorted", Args: []Arg{strArg(fn), arr}}
}

func oracleIsSorted(c Case) vkit.Outcome {
	var out vkit.Outcome
	fn, arr := c.Args[0].str(), c.Args[1]
	vs := toAnySlice(arr.goValue())
	want := sort.SliceIsSorted(vs, func(i, j int) bool { return elemLess(vs[i], vs[j]) })
	out.NonTrivial = len(vs) >= 2
	out.Labels = []string{fmt.Sprintf("sort.%s %s sorted=%v", fn, arr.T, want)}
	got, res := runEgo("\tb, e := sort."+fn+"(a0)\n\tr0 = b\n\tr1 = e", []any{arr.egoValue()})
	desc := fmt.Sprintf("sort.%s(%s)", fn, arr)
	if f := egoFailure(res); f != "" {
		return failf(out, "sort."+fn+" "+arr.T+": call fails in Ego", desc+": "+f, fmt.Sprint(want))
	}
	if b, ok := got[0].(bool); !ok || got[1] != nil || b != want {
		return failf(out, "sort."+fn+" "+arr.T+": answer differs", fmt.Sprintf("%s = %s, %s", desc, show(got[0]), show(got[1])), fmt.Sprintf("%v, nil", want))
	}
	return out
}

// ----------------------------------------------------------------- sprintf

func genSprintf(t *rapid.T) Case {
	kind := rapid.SampledFrom([]string{"int", "float64", "string", "bool", "int32"}).Draw(t, "kind")
	var verbs string
	var v Arg
	switch kind {
	case "int":
		verbs, v = "dboxXcqUv", Arg{T: "int", I: genInt64(t, "v")}
		if rapid.Bool().Draw(t, "small") {
			v.I = int64(rapid.IntRange(-300, 300).Draw(t, "sv"))
		}
	case "int32":
		verbs, v = "dcqUxv", Arg{T: "int32", I: int64(genRune(t, "v"))}
	case "float64":
		verbs, v = "eEfFgGv", floatArg(genFloat(t, "v"))
	case "string":
		verbs, v = "sqvxX", strArg(genString(t, "v"))
	default:
		verbs, v = "tv", Arg{T: "bool", B: rapid.Bool().Draw(t, "v")}
	}
	verb := string(verbs[rapid.IntRange(0, len(verbs)-1).Draw(t, "verb")])
	flags := rapid.SampledFrom([]string{"", "", "", "-", "+", "0", " ", "#", "+0", "-#"}).Draw(t, "flags")
	if verb == "v" {
		// %#v asks for Go syntax; Ego deliberately maps it to %v
		// (internal/runtime/fmt/print.go), so it is not a mirror.
		flags = strings.ReplaceAll(flags, "#", "")
	}
	width := rapid.SampledFrom([]string{"", "", "1", "5", "12"}).Draw(t, "width")
	prec := rapid.SampledFrom([]string{"", "", ".0", ".2", ".10"}).Draw(t, "prec")
	format := rapid.SampledFrom([]string{"", "[", "x=", "100%% "}).Draw(t, "pre") + "%" + flags + width + prec + verb + rapid.SampledFrom([]string{"", "]", "\n", "é"}).Draw(t, "post")
	return Case{Fn: "special:sprintf", Args: []Arg{strArg(format), v}}
}

func verbOf(format string) string {
	f := strings.ReplaceAll(format, "%%", "")
	i := strings.IndexByte(f, '%')
	if i < 0 {
		return "?"
	}
	j := i + 1
	for j < len(f) && strings.IndexByte("+-# 0123456789.", f[j]) >= 0 {
		j++
	}
	if j < len(f) {
		return f[j : j+1]
	}
	return "?"
}

func oracleSprintf(c Case) vkit.Outcome {
	var out vkit.Outcome
	format, v := c.Args[0].str(), c.Args[1]
	want := fmt.Sprintf(format, v.goValue())
	out.NonTrivial = v.interesting() || strings.ContainsAny(format, "+-#0123456789. ")
	out.Labels = []string{"fmt.Sprintf %" + verbOf(format) + " " + v.T}
	got, res := runEgo("\tr0 = fmt.Sprintf(a0, a1)", []any{format, v.egoValue()})
	sig := "fmt.Sprintf %" + verbOf(format) + " " + v.T + ": "
	desc := fmt.Sprintf("fmt.Sprintf(%s, %s)", c.Args[0], v)
	if f := egoFailure(res); f != "" {
		return failf(out, sig+"call fails in Ego", desc+": "+f, strconv.QuoteToASCII(want))
	}
	if g, ok := got[0].(string); !ok || g != want {
		return failf(out, sig+"text differs", desc+" = "+show(got[0]), strconv.QuoteToASCII(want))
	}
	return out
}

// -------------------------------------------------------------------- time

var layouts = []string{time.ANSIC, time.UnixDate, time.RubyDate, time.RFC822, time.RFC822Z, time.RFC850, time.RFC1123, time.RFC1123Z, time.RFC3339, time.RFC3339Nano, time.Kitchen,
	time.Stamp, time.StampMilli, time.StampMicro, time.StampNano, "2006-01-02", "2006-01-02 15:04:05", "1/2/2006 15:04", "Jan _2 06 3:04PM", "Monday, January 2 2006", "15:04:05.000", "15:04:05.999999999", "2006-002", "06/01/02 03:04:05 pm -07:00", "Z07:00 MST", "20060102T150405Z0700", "text without fields", ""}

func genTimeFmt(t *rapid.T) Case {
	sec := rapid.Int64Range(-62135596800, 253402300799).Draw(t, "sec") // years 1..9999
	if rapid.Bool().Draw(t, "recent") {
		sec = rapid.Int64Range(0, 4102444800).Draw(t, "sec2")
	}
	nsec := rapid.SampledFrom([]int64{0, 0, 1, 5, 1000, 123456789, 999999999, 500000000, 1000000000, -1}).Draw(t, "nsec")
	return Case{Fn: "special:timefmt", Args: []Arg{int64Arg(sec), int64Arg(nsec), strArg(rapid.SampledFrom(layouts).Draw(t, "layout"))}}
}

func oracleTimeFmt(c Case) vkit.Outcome {
	var out vkit.Outcome
	sec, nsec, layout := c.Args[0].I, c.Args[1].I, c.Args[2].str()
	tm := time.Unix(sec, nsec)
	out.NonTrivial = true
	out.Labels = []string{"time.Unix+Format"}
	got, res := runEgo("\tt := time.Unix(a0, a1)\n\tr0 = t.Format(a2)\n\tr1 = t.String()", []any{sec, nsec, layout})
	desc := fmt.Sprintf("time.Unix(%d, %d).Format(%q)", sec, nsec, layout)
	if f := egoFailure(res); f != "" {
		return failf(out, "time.Unix/Format: call fails in Ego", desc+": "+f, strconv.Quote(tm.Format(layout)))
	}
	if g, ok := got[0].(string); !ok || g != tm.Format(layout) {
		return failf(out, "time.Time.Format: text differs", desc+" = "+show(got[0]), strconv.Quote(tm.Format(layout)))
	}
	if g, ok := got[1].(string); !ok || g != tm.String() {
		return failf(out, "time.Time.String: text differs", fmt.Sprintf("time.Unix(%d, %d).String() = %s", sec, nsec, show(got[1])), strconv.Quote(tm.String()))
	}
	return out
}

func genTimeParse(t *rapid.T) Case {
	layout := rapid.SampledFrom(layouts).Draw(t, "layout")
	sec := rapid.Int64Range(0, 4102444800).Draw(t, "sec")
	nsec := rapid.SampledFrom([]int64{0, 0, 123456789, 500000000}).Draw(t, "nsec")
	value := time.Unix(sec, nsec).UTC().Format(layout)
	switch rapid.IntRange(0, 5).Draw(t, "damage") {
	case 0:
		if len(value) > 0 {
			i := rapid.IntRange(0, len(value)-1).Draw(t, "pos")
			value = value[:i] + rapid.SampledFrom([]string{"x", "9", " ", "", "13", "-"}).Draw(t, "ins") + value[i+1:]
		}
	case 1:
		value = genString(t, "junk")
	case 2:
		value = time.Unix(sec, nsec).UTC().Format(rapid.SampledFrom(layouts).Draw(t, "other"))
	}
	return Case{Fn: "special:timeparse", Args: []Arg{strArg(layout), strArg(value)}}
}

func oracleTimeParse(c Case) vkit.Outcome {
	var out vkit.Outcome
	layout, value := c.Args[0].str(), c.Args[1].str()
	tm, err := time.Parse(layout, value)
	out.NonTrivial = true
	out.Labels = []string{fmt.Sprintf("time.Parse go-ok=%v", err == nil)}
	const canon = "2006-01-02T15:04:05.999999999Z07:00 MST"
	got, res := runEgo("\tt, e := time.Parse(a0, a1)\n\tr1 = e\n\tif e == nil {\n\t\tr0 = t.Format(a2)\n\t}", []any{layout, value, canon})
	desc := fmt.Sprintf("time.Parse(%q, %q)", layout, value)
	if f := egoFailure(res); f != "" {
		return failf(out, "time.Parse: call fails in Ego", desc+": "+f, fmt.Sprintf("%v, %v", tm, err))
	}
	if (got[1] != nil) != (err != nil) {
		return failf(out, "time.Parse: success/failure differs", fmt.Sprintf("%s error = %s", desc, show(got[1])), fmt.Sprintf("%v, %v", tm, err))
	}
	if err == nil {
		if g, ok := got[0].(string); !ok || g != tm.Format(canon) {
			return failf(out, "time.Parse: value differs", desc+" = "+show(got[0]), tm.Format(canon))
		}
	}
	return out
}

func genDuration(t *rapid.T) Case {
	var n int64
	switch rapid.IntRange(0, 3).Draw(t, "class") {
	case 0:
		n = rapid.SampledFrom([]int64{0, 1, -1, 999, 1000, 1001, 999999, 1000000, 999999999, 1000000000, 59999999999, 60000000000, 3599999999999, 3600000000000, 86400000000000, math.MaxInt64, math.MinInt64, math.MinInt64 + 1, 1500000000, -1500000000}).Draw(t, "n")
	case 1:
		n = rapid.Int64Range(-1e13, 1e13).Draw(t, "n")
	default:
		n = rapid.Int64().Draw(t, "n")
	}
	return Case{Fn: "special:duration", Args: []Arg{int64Arg(n)}}
}

func oracleDuration(c Case) vkit.Outcome {
	var out vkit.Outcome
	n := c.Args[0].I
	d := time.Duration(n)
	out.NonTrivial = n < 0 || n > 9
	out.Labels = []string{"time.Duration methods"}
	got, res := runEgo("\td := time.Duration(a0)\n\tr0 = d.String()\n\tr1 = d.Hours()\n\tr2 = d.Minutes()\n\tr3 = d.Seconds()\n\tr4 = d.Milliseconds()\n\tr5 = d.Microseconds()\n\tr6 = d.Nanoseconds()", []any{n})
	desc := fmt.Sprintf("time.Duration(%d)", n)
	if f := egoFailure(res); f != "" {
		return failf(out, "time.Duration: call fails in Ego", desc+": "+f, d.String())
	}
	wants := []any{d.String(), d.Hours(), d.Minutes(), d.Seconds(), d.Milliseconds(), d.Microseconds(), d.Nanoseconds()}
	names := []string{"String", "Hours", "Minutes", "Seconds", "Milliseconds", "Microseconds", "Nanoseconds"}
	for i, w := range wants {
		if !same(reflect.ValueOf(w), got[i]) {
			return failf(out, "time.Duration."+names[i]+": differs", fmt.Sprintf("%s.%s() = %s", desc, names[i], show(got[i])), fmt.Sprint(w))
		}
	}
	return out
}
