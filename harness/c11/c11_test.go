package c11

// C11 "Runtime packages match the Go functions they wrap".
//
// Statement decided: each Ego runtime function that mirrors a Go
// standard-library function returns the same result and the same
// success/failure for every argument the Go function accepts; documented
// round trips hold (base64, Roman numerals, JSON); sort results are ordered
// permutations of their input, stable for the stable variants.
//
// Preconditions / scope (soundness notes):
//   - "Mirrors" are only the functions docs/LANGUAGE.md presents with Go's name
//     and signature (table.go quotes the sentence per package). Ego-only
//     functions and documented deviations (strings.Split with an optional
//     delimiter, math.Max/Min variadic, time.Date's nil location,
//     time.ParseDuration's "d" suffix, fmt.Sprint's spacing rule, …) are NOT
//     compared; the meta-check lists them as uncovered with the reason.
//   - The Go reference is called in-process on the same values; an argument
//     tuple on which the Go function panics (strings.Repeat with a negative
//     count, FormatInt with base 1) is outside "every argument the Go function
//     accepts" and is skipped; generators avoid those regions.
//   - Success/failure must agree; when Go reports an error the other results
//     are not compared, and error text is never compared.
//   - Floats are compared bit for bit, except that any NaN equals any NaN.
//   - Integer results may come back in any Go integer width.
//   - Arguments are placed in the symbol table with the parameter's declared
//     type (what a Go caller would pass); results are read back from it, so
//     neither the lexer nor fmt is on the path. Programs run with dynamic
//     typing, as `ego run` does by default.
//   - Searches get sorted input; the is-sorted family and the sorts' ordering
//     requirement use Go's order for floats (NaN first) but NaNs are only
//     generated for the sorts.
//   - Time formatting is compared in the process's local zone (same for both).

import (
	"encoding/json"
	"fmt"
	"math"
	"reflect"
	"sort"
	"strconv"
	"strings"
	"testing"

	"github.com/tucats/ego/internal/language/bytecode"
	"github.com/tucats/ego/internal/language/data"
	"github.com/tucats/ego/internal/language/symbols"
	"github.com/tucats/ego/verif/egorun"
	"github.com/tucats/ego/verif/vkit"
	"pgregory.net/rapid"
)

// Case is one call: Fn is "pkg.Func" for a table entry or "special:<kind>".
type Case struct {
	Fn   string `json:"fn"`
	Args []Arg  `json:"args"`
}

var mirrorByName = func() map[string]*mirror {
	m := map[string]*mirror{}
	for i := range mirrors {
		m[mirrors[i].name] = &mirrors[i]
	}
	return m
}()

// ------------------------------------------------------------ running Ego

const nResults = 8

// runEgo runs `func main() { body }` with args bound to a0..an and returns
// the values of the package-level variables r0..r7 afterwards.
func runEgo(body string, args []any) ([nResults]any, egorun.Result) {
	var sb strings.Builder
	for i := 0; i < nResults; i++ {
		fmt.Fprintf(&sb, "var r%d interface{}\n", i)
	}
	sb.WriteString("func main() {\n" + body + "\n}\n")
	var out [nResults]any
	res := egorun.RunWith(sb.String(), egorun.Config{Types: "dynamic", Optimize: 1, ConstFold: true, EntryPoint: "main"}, &egorun.Hooks{
		Before: func(st *symbols.SymbolTable) {
			for i, a := range args {
				st.SetAlways(fmt.Sprintf("a%d", i), a)
			}
		},
		After: func(st *symbols.SymbolTable, _ *bytecode.Context) {
			for i := range out {
				v, _ := st.Get(fmt.Sprintf("r%d", i))
				out[i] = unwrap(v)
			}
		}})
	return out, res
}

type unset struct{}

// unwrap strips Ego's constant and interface{} boxes. A variable that was never
// assigned holds an empty interface box and is reported as unset{}.
func unwrap(v any) any {
	for i := 0; i < 4; i++ {
		switch w := v.(type) {
		case data.Immutable:
			v = w.Value
		case data.Interface:
			if w.BaseType == nil && w.Value == nil {
				return unset{}
			}
			v = w.Value
		default:
			return v
		}
	}
	return v
}

func egoFailure(r egorun.Result) string {
	switch {
	case r.GoPanic != "":
		return "Go panic in ego: " + r.GoPanic
	case r.CompileErr != "":
		return "compile error: " + r.CompileErr
	case r.RunErr != "":
		return "runtime error: " + r.RunErr
	}
	return ""
}

// plain converts an Ego value to plain Go data: arrays to []any, maps to
// map[string]any, byte arrays to []any of byte.
func plain(v any) any {
	v = unwrap(v)
	switch x := v.(type) {
	case *data.Array:
		if x == nil {
			return []any(nil)
		}
		if x.Type() != nil && x.Type().Kind() == data.ByteKind {
			b := x.GetBytes()
			out := make([]any, len(b))
			for i := range b {
				out[i] = b[i]
			}
			return out
		}
		out := make([]any, x.Len())
		for i := range out {
			e, _ := x.Get(i)
			out[i] = plain(e)
		}
		return out
	case *data.Map:
		out := map[string]any{}
		for _, k := range x.Keys() {
			e, _, _ := x.Get(k)
			out[fmt.Sprint(k)] = plain(e)
		}
		return out
	}
	return v
}

func asInt64(v any) (int64, bool) {
	switch g := v.(type) {
	case int:
		return int64(g), true
	case int8:
		return int64(g), true
	case int16:
		return int64(g), true
	case int32:
		return int64(g), true
	case int64:
		return g, true
	case uint8:
		return int64(g), true
	case uint16:
		return int64(g), true
	case uint32:
		return int64(g), true
	}
	return 0, false
}

func sameFloat(a, b float64) bool {
	return (math.IsNaN(a) && math.IsNaN(b)) || math.Float64bits(a) == math.Float64bits(b)
}

// same compares one Go result with what Ego returned.
func same(want reflect.Value, got any) bool {
	got = plain(got)
	switch want.Kind() {
	case reflect.Int, reflect.Int8, reflect.Int16, reflect.Int32, reflect.Int64:
		g, ok := asInt64(got)
		return ok && g == want.Int()
	case reflect.Uint8, reflect.Uint16, reflect.Uint32, reflect.Uint64, reflect.Uint:
		switch g := got.(type) {
		case uint64:
			return g == want.Uint()
		case uint:
			return uint64(g) == want.Uint()
		}
		g, ok := asInt64(got)
		return ok && g >= 0 && uint64(g) == want.Uint()
	case reflect.Float64, reflect.Float32:
		switch g := got.(type) {
		case float64:
			return sameFloat(g, want.Float())
		case float32:
			return want.Kind() == reflect.Float32 && sameFloat(float64(g), want.Float())
		}
		return false
	case reflect.Complex128:
		g, ok := got.(complex128)
		return ok && sameFloat(real(g), real(want.Complex())) && sameFloat(imag(g), imag(want.Complex()))
	case reflect.String:
		g, ok := got.(string)
		return ok && g == want.String()
	case reflect.Bool:
		g, ok := got.(bool)
		return ok && g == want.Bool()
	case reflect.Slice:
		g, ok := got.([]any)
		if !ok || len(g) != want.Len() {
			return false
		}
		for i := range g {
			if !same(want.Index(i), g[i]) {
				return false
			}
		}
		return true
	case reflect.Map: // map[string]T
		g, ok := got.(map[string]any)
		if !ok || len(g) != want.Len() {
			return false
		}
		for _, k := range want.MapKeys() {
			e, found := g[k.String()]
			if !found || !same(want.MapIndex(k), e) {
				return false
			}
		}
		return true
	case reflect.Interface:
		if want.IsNil() {
			return got == nil
		}
		return same(want.Elem(), got)
	}
	return false
}

func show(v any) string {
	v = plain(v)
	switch g := v.(type) {
	case string:
		return strconv.QuoteToASCII(g)
	case float64:
		return fmt.Sprintf("float64(%v /%#x)", g, math.Float64bits(g))
	case error:
		return "error(" + strconv.QuoteToASCII(g.Error()) + ")"
	case nil:
		return "nil"
	case unset:
		return "<unset>"
	case []any:
		var es []string
		for _, e := range g {
			es = append(es, show(e))
		}
		return "[" + strings.Join(es, ", ") + "]"
	}
	return fmt.Sprintf("%T(%v)", v, v)
}

func showGo(v reflect.Value) string {
	if v.Kind() == reflect.Interface && v.IsNil() {
		return "nil"
	}
	switch v.Kind() {
	case reflect.String:
		return strconv.QuoteToASCII(v.String())
	case reflect.Float64:
		return fmt.Sprintf("float64(%v /%#x)", v.Float(), math.Float64bits(v.Float()))
	case reflect.Slice:
		var es []string
		for i := 0; i < v.Len(); i++ {
			es = append(es, showGo(v.Index(i)))
		}
		return "[" + strings.Join(es, ", ") + "]"
	}
	if e, ok := v.Interface().(error); ok {
		return "error(" + strconv.QuoteToASCII(e.Error()) + ")"
	}
	return fmt.Sprintf("%s(%v)", v.Type(), v.Interface())
}

var errorType = reflect.TypeOf((*error)(nil)).Elem()

// ------------------------------------------------------- table-driven part

func genMirror(t *rapid.T, m *mirror) Case {
	ft := reflect.TypeOf(m.ref)
	var args []Arg
	n := ft.NumIn()
	for i := 0; i < n; i++ {
		pt := ft.In(i)
		count := 1
		if ft.IsVariadic() && i == n-1 {
			pt = pt.Elem()
			count = rapid.IntRange(0, 4).Draw(t, "nvariadic")
		}
		for k := 0; k < count; k++ {
			label := fmt.Sprintf("arg%d", len(args))
			if i < len(m.gens) && m.gens[i] != nil {
				args = append(args, m.gens[i](t, label, args))
			} else {
				args = append(args, genByType(t, label, pt, args))
			}
		}
	}
	return Case{Fn: m.name, Args: args}
}

func callGo(m *mirror, args []Arg) (out []reflect.Value, panicked any) {
	defer func() {
		if p := recover(); p != nil {
			panicked = p
		}
	}()
	in := make([]reflect.Value, len(args))
	for i, a := range args {
		in[i] = reflect.ValueOf(a.goValue())
	}
	return reflect.ValueOf(m.ref).Call(in), nil
}

func oracleMirror(c Case, m *mirror) vkit.Outcome {
	var out vkit.Outcome
	pkg := strings.SplitN(c.Fn, ".", 2)[0]
	want, p := callGo(m, c.Args)
	if p != nil {
		out.Skip = "go panics: " + c.Fn
		return out
	}
	ft := reflect.TypeOf(m.ref)
	nres := ft.NumOut()
	hasErr := nres > 0 && ft.Out(nres-1) == errorType
	// program
	var as, vs, assign []string
	var vals []any
	for i, a := range c.Args {
		as = append(as, fmt.Sprintf("a%d", i))
		vals = append(vals, a.egoValue())
	}
	for i := 0; i < nres; i++ {
		vs = append(vs, fmt.Sprintf("v%d", i))
		assign = append(assign, fmt.Sprintf("\tr%d = v%d", i, i))
	}
	body := "\t" + strings.Join(vs, ", ") + " := " + c.Fn + "(" + strings.Join(as, ", ") + ")\n" + strings.Join(assign, "\n")
	got, res := runEgo(body, vals)

	interesting := len(c.Args) == 0
	for _, a := range c.Args {
		if a.interesting() {
			interesting = true
		}
	}
	out.NonTrivial = interesting
	goFailed := hasErr && !want[nres-1].IsNil()
	outcome := "ok"
	if goFailed {
		outcome = "error"
	}
	out.Labels = []string{"fn " + c.Fn, "pkg " + pkg + " go-outcome=" + outcome}
	out.Key = c.Fn + "|" + argsKey(c.Args)

	fail := func(rel, observed string) vkit.Outcome {
		var ws []string
		for _, w := range want {
			ws = append(ws, showGo(w))
		}
		out.Fail = &vkit.Failure{Sig: c.Fn + ": " + rel, Observed: fmt.Sprintf("%s(%s): %s", c.Fn, argsText(c.Args), observed), Expected: "Go returns " + strings.Join(ws, ", ")}
		return out
	}
	if f := egoFailure(res); f != "" {
		if goFailed && res.RunErr != "" && res.GoPanic == "" {
			return fail("error not returned as a value", f)
		}
		return fail("call fails in Ego", f)
	}
	if hasErr {
		egoErr := got[nres-1]
		egoFailed := egoErr != nil
		if _, isUnset := egoErr.(unset); isUnset {
			return fail("error result not delivered", "r"+strconv.Itoa(nres-1)+" unset")
		}
		if egoFailed != goFailed {
			return fail("success/failure differs", "Ego error result = "+show(egoErr))
		}
		if goFailed {
			return out
		}
		nres--
	}
	for i := 0; i < nres; i++ {
		if !same(want[i], got[i]) {
			return fail(fmt.Sprintf("result %d differs", i), fmt.Sprintf("Ego result %d = %s", i, show(got[i])))
		}
	}
	return out
}

func argsKey(args []Arg) string {
	b, _ := json.Marshal(args)
	return string(b)
}

func argsText(args []Arg) string {
	var ss []string
	for _, a := range args {
		ss = append(ss, a.String())
	}
	return strings.Join(ss, ", ")
}

// ------------------------------------------------------------------ oracle

func oracle(c Case) vkit.Outcome {
	if strings.HasPrefix(c.Fn, "special:") {
		f, ok := specials[strings.TrimPrefix(c.Fn, "special:")]
		if !ok {
			return vkit.Outcome{Skip: "unknown special " + c.Fn}
		}
		out := f.oracle(c)
		out.Labels = append(out.Labels, "fn "+c.Fn)
		if out.Key == "" {
			out.Key = c.Fn + "|" + argsKey(c.Args)
		}
		return out
	}
	m, ok := mirrorByName[c.Fn]
	if !ok {
		return vkit.Outcome{Skip: "not in table: " + c.Fn}
	}
	return oracleMirror(c, m)
}

func gen(t *rapid.T) Case {
	// half of the cases exercise a table entry, half a round trip / sort / format check
	if rapid.IntRange(0, 1).Draw(t, "kind") == 0 {
		n := rapid.SampledFrom(specialNames).Draw(t, "special")
		return specials[n].gen(t)
	}
	i := rapid.IntRange(0, len(mirrors)-1).Draw(t, "fn")
	return genMirror(t, &mirrors[i])
}

// fixed: every table entry once with plain arguments, so that a function whose
// wrapper does not work at all is reported whatever the seed.
func fixed() []Case {
	var cs []Case
	for i := range mirrors {
		m := &mirrors[i]
		ft := reflect.TypeOf(m.ref)
		var args []Arg
		for j := 0; j < ft.NumIn(); j++ {
			pt := ft.In(j)
			if ft.IsVariadic() && j == ft.NumIn()-1 {
				args = append(args, strArg("a"), strArg("../b"))
				continue
			}
			switch pt.Kind() {
			case reflect.String:
				args = append(args, strArg([]string{"héllo wörld", "l", "L"}[j%3]))
			case reflect.Int:
				args = append(args, intArg([]int{10, 2, 64, 64}[j%4]))
			case reflect.Int32:
				args = append(args, Arg{T: "int32", I: 'l'})
			case reflect.Uint8:
				args = append(args, Arg{T: "byte", I: 'g'})
			case reflect.Int64:
				args = append(args, int64Arg(-255))
			case reflect.Uint64:
				args = append(args, Arg{T: "uint64", U: 255})
			case reflect.Float64:
				args = append(args, floatArg(0.75))
			case reflect.Complex128:
				args = append(args, Arg{T: "complex128", U: math.Float64bits(1.5), V: math.Float64bits(-2)})
			case reflect.Bool:
				args = append(args, Arg{T: "bool", B: true})
			case reflect.Slice:
				args = append(args, listArg("[]string", []Arg{strArg("x"), strArg(""), strArg("é")}))
			}
		}
		cs = append(cs, Case{Fn: m.name, Args: args})
	}
	for _, n := range specialNames {
		cs = append(cs, specials[n].fixed()...)
	}
	return cs
}

// metaCheck enumerates the packages' declaration tables and reports what the
// check covers.
func metaCheck() map[string]any {
	covered := map[string][]string{}
	uncovered := map[string][]string{}
	var unclassified, missing, sigDiffers []string
	declared := map[string]bool{}
	for _, pn := range pkgNames {
		p := pkgs[pn]
		keys := p.Keys()
		sort.Strings(keys)
		for _, k := range keys {
			v, _ := p.Get(k)
			name := pn + "." + k
			switch v.(type) {
			case data.Function, *data.Type:
			default:
				continue // constants
			}
			declared[name] = true
			if m, ok := mirrorByName[name]; ok {
				covered[pn] = append(covered[pn], k)
				if f, isF := v.(data.Function); isF && f.Declaration != nil {
					if d := declDiff(f.Declaration, reflect.TypeOf(m.ref)); d != "" {
						sigDiffers = append(sigDiffers, name+": "+d)
					}
				}
				continue
			}
			if kind, ok := specialCovers[name]; ok {
				covered[pn] = append(covered[pn], k+" ("+kind+" check)")
				continue
			}
			if why, ok := uncoveredReason[name]; ok {
				uncovered[pn] = append(uncovered[pn], k+": "+why)
				continue
			}
			unclassified = append(unclassified, name)
		}
	}
	for i := range mirrors {
		if !declared[mirrors[i].name] {
			missing = append(missing, mirrors[i].name)
		}
	}
	return map[string]any{
		"meta_covered":                               covered,
		"meta_uncovered":                             uncovered,
		"meta_declared_but_unclassified":             unclassified,
		"meta_in_table_but_not_declared":             missing,
		"meta_declaration_differs_from_go_signature": sigDiffers,
		"meta_table_size":                            fmt.Sprint(len(mirrors)),
	}
}

// declDiff compares Ego's declaration with the Go function's signature.
func declDiff(d *data.Declaration, ft reflect.Type) string {
	if len(d.Parameters) != ft.NumIn() {
		return fmt.Sprintf("%d parameters declared, Go has %d", len(d.Parameters), ft.NumIn())
	}
	if len(d.Returns) != ft.NumOut() {
		return fmt.Sprintf("%d results declared, Go has %d", len(d.Returns), ft.NumOut())
	}
	if d.Variadic != ft.IsVariadic() {
		return "variadic flag differs"
	}
	norm := func(s string) string {
		s = strings.ReplaceAll(s, "uint8", "byte")
		return s
	}
	for i, p := range d.Parameters {
		gt := ft.In(i)
		if ft.IsVariadic() && i == ft.NumIn()-1 {
			gt = gt.Elem()
		}
		if norm(p.Type.String()) != norm(gt.String()) {
			return fmt.Sprintf("parameter %d declared %s, Go has %s", i, p.Type.String(), gt.String())
		}
	}
	return ""
}

func TestC11(t *testing.T) {
	vkit.Run(t, vkit.Spec[Case]{
		ID:    "C11",
		Level: "exploration",
		Rule: fmt.Sprintf("table of %d mirrored functions (strings, strconv, math, cmplx, filepath native passthroughs) called through an Ego program with arguments placed in the symbol table and compared with the Go function on the same values "+
			"(typed generators: small-alphabet Unicode strings incl. invalid UTF-8 with related second arguments, number-like and quote-like text, boundary ints, NaN/Inf/-0/subnormal floats, runes incl. invalid, path-like text); "+
			"plus %d special checks: base64 encode/decode vs encoding/base64 and round trip, Roman numerals, JSON marshal vs encoding/json and generic round trip, sorts (ordered + permutation, in place and returned; stable = Go's stable order), comparator sorts with (key, index) pairs, searches, is-sorted, fmt.Sprintf scalar verbs, time formatting/parsing, Duration methods. "+
			"Non-trivial: some argument outside ASCII letters / 0..9; distinct by (function, arguments).", len(mirrors), len(specials)),
		Assumptions: []string{
			"mirrored = documented in docs/LANGUAGE.md with Go's name and signature; Ego-only functions and documented deviations are not compared (see coverage.meta_uncovered)",
			"argument tuples on which the Go reference panics are skipped",
			"on a Go error only success/failure is compared; error text never",
			"floats bit-for-bit, NaN equals NaN; integer results in any width",
			"dynamic typing, arguments carry the declared parameter type",
		},
		Gen:      gen,
		Oracle:   oracle,
		Fixed:    fixed,
		Extra:    metaCheck,
		Quick:    4000,
		Thorough: 120000,
	})
}
