package c11

import (
	"fmt"
	"math"
	"testing"

	"github.com/tucats/ego/internal/language/bytecode"
	"github.com/tucats/ego/internal/language/data"
	"github.com/tucats/ego/internal/language/symbols"
	"github.com/tucats/ego/verif/egorun"
)

func TestProbe(t *testing.T) {
	type tc struct {
		src  string
		args []any
	}
	for _, c := range []tc{
		{"r0 = strings.Index(a0, a1)", []any{"h\xffllo", "l"}},
		{"x, y, z := strings.Cut(a0, a1)\nr0 = x\nr1 = y\nr2 = z", []any{"a=b", "="}},
		{"r0 = strings.Fields(a0)", []any{" a b\xff  c "}},
		{"x, e := strconv.Atoi(a0)\nr0 = x\nr1 = e", []any{"12x"}},
		{"x, e := strconv.ParseInt(a0, a1, a2)\nr0 = x\nr1 = e", []any{"-0x10", 0, 64}},
		{"x, y := cmplx.Polar(a0)\nr0 = x\nr1 = y", []any{complex(1, math.Inf(1))}},
		{"r0 = strings.Join(a0, a1)", []any{data.NewArrayFromStrings("a", "b"), ","}},
		{"r0 = filepath.Join(a0, a1, a2)", []any{"a", "../b", "c"}},
		{"x, e := sort.Ints(a0)\nr0 = x\nr1 = e\nr2 = a0", []any{data.NewArrayFromInterfaces(data.IntType, 3, 1, 2)}},
		{"r0 = strings.ContainsRune(a0, a1)", []any{"héllo", int32(233)}},
		{"r0 = strings.IndexByte(a0, a1)", []any{"hello", byte('l')}},
		{"r0 = strconv.FormatUint(a0, a1)", []any{uint64(math.MaxUint64), 16}},
		{"r0 = math.Mod(a0, a1)", []any{math.Inf(1), math.Copysign(0, -1)}},
		{"r0 = strconv.FormatFloat(a0, a1, a2, a3)", []any{1.5, byte('g'), -1, 64}},
		{"r0 = fmt.Sprintf(a0, a1)", []any{"%08.3f|", 3.14159}},
		{"b, e := json.Marshal(a0)\nr0 = b\nr1 = e\nr2 = string(b)", []any{"a<b\xff"}},
		{"t := time.Unix(a0, a1)\nr0 = t.Format(a2)", []any{int64(1705315800), int64(5), "2006-01-02T15:04:05.999999999Z07:00"}},
		{"d := time.Duration(a0)\nr0 = d.String()\nr1 = d.Hours()", []any{int64(5400000000000)}},
	} {
		src := "var r0 interface{}\nvar r1 interface{}\nvar r2 interface{}\nfunc main() {\n" + c.src + "\n}\n"
		var r [3]any
		res := egorun.RunWith(src, egorun.Config{Types: "dynamic", Optimize: 1, ConstFold: true, EntryPoint: "main"}, &egorun.Hooks{
			Before: func(st *symbols.SymbolTable) {
				for i, a := range c.args {
					st.SetAlways(fmt.Sprintf("a%d", i), a)
				}
			},
			After: func(st *symbols.SymbolTable, _ *bytecode.Context) {
				for i := range r {
					r[i], _ = st.Get(fmt.Sprintf("r%d", i))
				}
			}})
		fmt.Printf("%-45q => %T %v | %T %v | %T %v  cerr=%q rerr=%q panic=%q\n", c.src, r[0], r[0], r[1], r[1], r[2], r[2], res.CompileErr, res.RunErr, res.GoPanic)
	}
}
