package c11

// Argument values: JSON-serialisable (strings are carried Go-quoted so that
// invalid UTF-8 survives a replay file, floats as IEEE bits so that NaN, -0 and
// infinities do), convertible to the Go value the reference function takes and
// to the Ego value placed in the symbol table.

import (
	"fmt"
	"math"
	"reflect"
	"strconv"
	"strings"

	"github.com/tucats/ego/internal/language/data"
	"pgregory.net/rapid"
)

// Arg is one argument value.
type Arg struct {
	T string `json:"t"`           // string int int32 byte int64 uint64 float64 float32 complex128 bool []string []int []int32 []int64 []float64 []float32 []byte
	Q string `json:"q,omitempty"` // string value, strconv.QuoteToASCII
	I int64  `json:"i,omitempty"` // integer kinds
	U uint64 `json:"u,omitempty"` // uint64 value, float64 bits (real part for complex)
	V uint64 `json:"v,omitempty"` // imaginary part bits
	B bool   `json:"b,omitempty"`
	L []Arg  `json:"l,omitempty"` // elements of an array
}

func strArg(s string) Arg           { return Arg{T: "string", Q: strconv.QuoteToASCII(s)} }
func intArg(i int) Arg              { return Arg{T: "int", I: int64(i)} }
func int64Arg(i int64) Arg          { return Arg{T: "int64", I: i} }
func floatArg(f float64) Arg        { return Arg{T: "float64", U: math.Float64bits(f)} }
func (a Arg) str() string           { s, _ := strconv.Unquote(a.Q); return s }
func (a Arg) float() float64        { return math.Float64frombits(a.U) }
func (a Arg) cplx() complex128      { return complex(math.Float64frombits(a.U), math.Float64frombits(a.V)) }
func listArg(t string, l []Arg) Arg { return Arg{T: t, L: l} }

// goValue is the plain Go value of the argument.
func (a Arg) goValue() any {
	switch a.T {
	case "string":
		return a.str()
	case "int":
		return int(a.I)
	case "int32":
		return int32(a.I)
	case "byte":
		return byte(a.I)
	case "int64":
		return a.I
	case "uint64":
		return a.U
	case "float64":
		return a.float()
	case "float32":
		return float32(a.float())
	case "complex128":
		return a.cplx()
	case "bool":
		return a.B
	case "[]string":
		out := make([]string, len(a.L))
		for i, e := range a.L {
			out[i] = e.str()
		}
		return out
	case "[]int":
		out := make([]int, len(a.L))
		for i, e := range a.L {
			out[i] = int(e.I)
		}
		return out
	case "[]int32":
		out := make([]int32, len(a.L))
		for i, e := range a.L {
			out[i] = int32(e.I)
		}
		return out
	case "[]int64":
		out := make([]int64, len(a.L))
		for i, e := range a.L {
			out[i] = e.I
		}
		return out
	case "[]byte":
		out := make([]byte, len(a.L))
		for i, e := range a.L {
			out[i] = byte(e.I)
		}
		return out
	case "[]float64":
		out := make([]float64, len(a.L))
		for i, e := range a.L {
			out[i] = e.float()
		}
		return out
	case "[]float32":
		out := make([]float32, len(a.L))
		for i, e := range a.L {
			out[i] = float32(e.float())
		}
		return out
	}
	panic("c11: unknown argument type " + a.T)
}

// egoValue is the value as an Ego program holds it: scalars are the same Go
// values, arrays are *data.Array of the element type.
func (a Arg) egoValue() any {
	elem := func(t *data.Type) any {
		vs := make([]any, len(a.L))
		for i, e := range a.L {
			vs[i] = e.goValue()
		}
		return data.NewArrayFromInterfaces(t, vs...)
	}
	switch a.T {
	case "[]string":
		return elem(data.StringType)
	case "[]int":
		return elem(data.IntType)
	case "[]int32":
		return elem(data.Int32Type)
	case "[]int64":
		return elem(data.Int64Type)
	case "[]float64":
		return elem(data.Float64Type)
	case "[]float32":
		return elem(data.Float32Type)
	case "[]byte":
		return data.NewArrayFromBytes(a.goValue().([]byte)...)
	}
	return a.goValue()
}

func (a Arg) String() string {
	switch a.T {
	case "string":
		return a.Q
	case "float64", "float32":
		return fmt.Sprintf("%s(%v /%#x)", a.T, a.float(), a.U)
	case "complex128":
		return fmt.Sprintf("complex(%v, %v)", math.Float64frombits(a.U), math.Float64frombits(a.V))
	case "uint64":
		return fmt.Sprintf("uint64(%d)", a.U)
	case "bool":
		return fmt.Sprint(a.B)
	case "int", "int32", "byte", "int64":
		return fmt.Sprintf("%s(%d)", a.T, a.I)
	}
	var es []string
	for _, e := range a.L {
		es = append(es, e.String())
	}
	return a.T + "{" + strings.Join(es, ", ") + "}"
}

// interesting reports whether the value lies outside "ASCII letters / small
// ints" (the non-triviality rule of the property's design entry).
func (a Arg) interesting() bool {
	switch a.T {
	case "string":
		for _, r := range a.str() {
			if !(r >= 'a' && r <= 'z' || r >= 'A' && r <= 'Z') {
				return true
			}
		}
		return a.str() == ""
	case "int", "int32", "int64", "byte":
		return a.I < 0 || a.I > 9
	case "uint64":
		return a.U > 9
	case "float64", "float32":
		f := a.float()
		return f != math.Trunc(f) || math.IsNaN(f) || math.IsInf(f, 0) || math.Abs(f) > 9 || (f == 0 && math.Signbit(f))
	case "complex128":
		return true
	case "bool":
		return false
	}
	if len(a.L) == 0 {
		return true
	}
	for _, e := range a.L {
		if e.interesting() {
			return true
		}
	}
	return false
}

// ------------------------------------------------------------- generators

// alphabet is deliberately small so that substrings, prefixes and repeated
// characters occur by chance, and it spans 1-4 byte encodings, case pairs,
// white space and bytes that are not valid UTF-8.
var alphabet = []string{"a", "b", "A", "B", "é", "É", "ß", "世", "😀", " ", "\t", "\n", "/", ".", ",", "=", "-", "0", "7", "\xff", "\xc3", "\x00", " ", "İ", "ǅ", "%", "\"", "\\", "<"}

func genString(t *rapid.T, label string) string {
	n := rapid.SampledFrom([]int{0, 0, 1, 1, 2, 3, 4, 5, 6, 8, 12}).Draw(t, label+"len")
	var sb strings.Builder
	for i := 0; i < n; i++ {
		sb.WriteString(rapid.SampledFrom(alphabet).Draw(t, label))
	}
	return sb.String()
}

// genRelated draws a string related to base (a piece of it, a case variant,
// itself) or an independent one: the second argument of Index, HasPrefix, ….
func genRelated(t *rapid.T, label, base string) string {
	switch rapid.IntRange(0, 6).Draw(t, label+"rel") {
	case 0:
		return genString(t, label)
	case 1:
		return base
	case 2:
		return strings.ToUpper(base)
	case 3: // a prefix (byte-wise, may cut a character in half)
		return base[:rapid.IntRange(0, len(base)).Draw(t, label+"cut")]
	case 4:
		return base[rapid.IntRange(0, len(base)).Draw(t, label+"cut"):]
	case 5:
		i := rapid.IntRange(0, len(base)).Draw(t, label+"from")
		j := rapid.IntRange(i, len(base)).Draw(t, label+"to")
		return base[i:j]
	default:
		return rapid.SampledFrom(alphabet).Draw(t, label)
	}
}

var boundaryInts = []int64{0, 1, -1, 2, 7, 10, 16, 36, 37, 64, 127, 128, 255, 256, 32767, 65535, 65536, math.MaxInt32, math.MinInt32, math.MaxInt32 + 1, math.MaxInt64, math.MinInt64, math.MaxInt64 - 1}

func genInt64(t *rapid.T, label string) int64 {
	switch rapid.IntRange(0, 3).Draw(t, label+"class") {
	case 0:
		return rapid.SampledFrom(boundaryInts).Draw(t, label)
	case 1:
		return int64(rapid.IntRange(-20, 20).Draw(t, label))
	case 2:
		return rapid.Int64Range(-1_000_000, 1_000_000).Draw(t, label)
	default:
		return rapid.Int64().Draw(t, label)
	}
}

var specialFloats = []float64{0, math.Copysign(0, -1), 1, -1, 0.5, -0.5, 1.5, 2.5, -2.5, math.Pi, -math.Pi, math.E, math.Inf(1), math.Inf(-1), math.NaN(),
	math.MaxFloat64, -math.MaxFloat64, math.SmallestNonzeroFloat64, -math.SmallestNonzeroFloat64, 2.2250738585072014e-308, 1e308, 1e-308, 1 << 53, 1<<53 + 2, 1e15, 1e21, 1e-7, 100, 1e6, 0.1, 0.3, 4.5e15 + 0.5, math.MaxFloat32, 1e-45}

func genFloat(t *rapid.T, label string) float64 {
	switch rapid.IntRange(0, 3).Draw(t, label+"class") {
	case 0:
		return rapid.SampledFrom(specialFloats).Draw(t, label)
	case 1:
		return float64(rapid.IntRange(-1000, 1000).Draw(t, label)) / 8
	case 2:
		return rapid.Float64Range(-10, 10).Draw(t, label)
	default:
		return math.Float64frombits(rapid.Uint64().Draw(t, label))
	}
}

func genRune(t *rapid.T, label string) int32 {
	switch rapid.IntRange(0, 3).Draw(t, label+"class") {
	case 0:
		return rapid.SampledFrom([]int32{'a', 'A', 'é', 'É', 'ß', '世', 0x1F600, ' ', '\n', 0, 0xFFFD, 0xD800, 0x10FFFF, 0x110000, -1, math.MaxInt32, math.MinInt32, 0x7f, 0x80, 0xff, 0x130, 0x2028, '"', '\'', '\\'}).Draw(t, label)
	case 1:
		return int32(rapid.IntRange(0, 127).Draw(t, label))
	case 2:
		return int32(rapid.IntRange(0, 0x10FFFF).Draw(t, label))
	default:
		return rapid.Int32().Draw(t, label)
	}
}

func genUint64(t *rapid.T, label string) uint64 {
	switch rapid.IntRange(0, 2).Draw(t, label+"class") {
	case 0:
		return rapid.SampledFrom([]uint64{0, 1, 255, 256, math.MaxUint32, math.MaxInt64, math.MaxInt64 + 1, math.MaxUint64, math.MaxUint64 - 1}).Draw(t, label)
	case 1:
		return uint64(rapid.IntRange(0, 100).Draw(t, label))
	default:
		return rapid.Uint64().Draw(t, label)
	}
}

// genByType draws a value of the Go type a reference function expects.
func genByType(t *rapid.T, label string, typ reflect.Type, prev []Arg) Arg {
	switch typ.Kind() {
	case reflect.String:
		for _, p := range prev {
			if p.T == "string" {
				return strArg(genRelated(t, label, p.str()))
			}
		}
		return strArg(genString(t, label))
	case reflect.Int:
		return Arg{T: "int", I: genInt64(t, label)}
	case reflect.Int32:
		return Arg{T: "int32", I: int64(genRune(t, label))}
	case reflect.Uint8:
		return Arg{T: "byte", I: int64(rapid.SampledFrom([]int{0, 'a', 'A', ' ', '/', '=', 0x7f, 0x80, 0xc3, 0xff, '0'}).Draw(t, label))}
	case reflect.Int64:
		return Arg{T: "int64", I: genInt64(t, label)}
	case reflect.Uint64:
		return Arg{T: "uint64", U: genUint64(t, label)}
	case reflect.Float64:
		return floatArg(genFloat(t, label))
	case reflect.Complex128:
		return Arg{T: "complex128", U: math.Float64bits(genFloat(t, label+"re")), V: math.Float64bits(genFloat(t, label+"im"))}
	case reflect.Bool:
		return Arg{T: "bool", B: rapid.Bool().Draw(t, label)}
	case reflect.Slice:
		if typ.Elem().Kind() == reflect.String {
			n := rapid.IntRange(0, 4).Draw(t, label+"n")
			l := make([]Arg, n)
			for i := range l {
				l[i] = strArg(genString(t, label))
			}
			return listArg("[]string", l)
		}
	}
	panic("c11: no generator for " + typ.String())
}
