package c11

import (
	"github.com/tucats/ego/internal/language/data"
	rbase64 "github.com/tucats/ego/internal/runtime/base64"
	rcmplx "github.com/tucats/ego/internal/runtime/cmplx"
	rfilepath "github.com/tucats/ego/internal/runtime/filepath"
	rfmt "github.com/tucats/ego/internal/runtime/fmt"
	rjson "github.com/tucats/ego/internal/runtime/json"
	rmath "github.com/tucats/ego/internal/runtime/math"
	rsort "github.com/tucats/ego/internal/runtime/sort"
	rstrconv "github.com/tucats/ego/internal/runtime/strconv"
	rstrings "github.com/tucats/ego/internal/runtime/strings"
	rtime "github.com/tucats/ego/internal/runtime/time"
)

// pkgs are the declaration tables of the runtime packages in scope.
var pkgs = map[string]*data.Package{
	"strings":  rstrings.StringsPackage,
	"strconv":  rstrconv.StrconvPackage,
	"math":     rmath.MathPackage,
	"cmplx":    rcmplx.CmplxPackage,
	"sort":     rsort.SortPackage,
	"filepath": rfilepath.FilepathPackage,
	"base64":   rbase64.Base64Package,
	"json":     rjson.JsonPackage,
	"time":     rtime.TimePackage,
	"fmt":      rfmt.FmtPackage,
}

var pkgNames = []string{"strings", "strconv", "math", "cmplx", "sort", "filepath", "base64", "json", "time", "fmt"}
