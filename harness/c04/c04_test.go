// Package c04 decides property C04 "Strict-mode programs mean the same under
// relaxed typing": a program that runs to completion without error under
// strict type checking must produce exactly the same output, and no error,
// under relaxed type checking (one direction only, as stated), at every
// optimizer level.
package c04

import (
	"fmt"
	"regexp"
	"strings"
	"testing"

	"github.com/tucats/ego/verif/egorun"
	"github.com/tucats/ego/verif/proggen"
	"github.com/tucats/ego/verif/vkit"
	"pgregory.net/rapid"
)

// Case is a program and an optimizer level.
type Case struct {
	Program proggen.Program `json:"program"`
	Ego     bool            `json:"ego_flavoured"`
	Opt     int             `json:"opt"`
}

var digits = regexp.MustCompile(`-?[0-9]+(\.[0-9]+)?`)
var quoted = regexp.MustCompile(`"(\\.|[^"\\])*"`)
var idents = regexp.MustCompile(`\b(p[0-9]*_)?(fn|T|rec|id_[a-z0-9]+|v|e|r|m|s|i|a|b|c|f|p|q|z|k|L|mv|ok|d|arr|err)[0-9]+\b`)

func norm(s string) string {
	s = quoted.ReplaceAllString(s, "S")
	s = idents.ReplaceAllString(s, "ID")
	s = digits.ReplaceAllString(s, "N")
	if len(s) > 110 {
		s = s[:110]
	}
	return s
}

func firstDiffLine(a, b string) (string, string) {
	la, lb := strings.Split(a, "\n"), strings.Split(b, "\n")
	for i := 0; i < len(la) || i < len(lb); i++ {
		x, y := "<end>", "<end>"
		if i < len(la) {
			x = la[i]
		}
		if i < len(lb) {
			y = lb[i]
		}
		if x != y {
			return x, y
		}
	}
	return "", ""
}

func oracle(c Case) vkit.Outcome {
	var out vkit.Outcome
	src := c.Program.EgoSource()
	out.Key = fmt.Sprint(c.Opt) + "|" + src
	strict := egorun.Run(src, egorun.Config{Types: "strict", Optimize: c.Opt, Extensions: true, EntryPoint: "main"})
	out.Labels = []string{fmt.Sprintf("opt=%d", c.Opt), fmt.Sprintf("ego-flavoured=%v", c.Ego)}
	if strict.Runaway {
		out.Inconclusive = "the strict run did not end within the harness bound"
		return out
	}
	if strict.GoPanic != "" {
		out.Fail = &vkit.Failure{Sig: "go-panic-strict", Observed: strict.GoPanic + "\n" + strict.Stack, Expected: "no Go panic"}
		return out
	}
	if strict.Failed() {
		// strict mode removed the program: nothing to compare (counted, so
		// the acceptance rate is visible in the evidence)
		out.Labels = append(out.Labels, "strict-rejects-or-errors")
		return out
	}
	out.Labels = append(out.Labels, "strict-accepts")
	// boundaries crossed with a constant or a narrower type
	b := 0
	for _, f := range c.Program.Features {
		switch {
		case strings.HasPrefix(f, "var-decl"), strings.HasPrefix(f, "assign"), strings.HasPrefix(f, "opassign"), strings.HasPrefix(f, "define-cast"):
			b |= 1
		case strings.HasPrefix(f, "op "), strings.HasPrefix(f, "compare"):
			b |= 2
		case f == "call", f == "variadic-call", strings.HasSuffix(f, "method-call"):
			b |= 4
		case f == "early-return", f == "multiple-return", f == "named-result", f == "recursion":
			b |= 8
		}
	}
	nb := 0
	for i := 0; i < 4; i++ {
		if b&(1<<i) != 0 {
			nb++
		}
	}
	out.NonTrivial = nb >= 2
	relaxed := egorun.Run(src, egorun.Config{Types: "relaxed", Optimize: c.Opt, Extensions: true, EntryPoint: "main"})
	if relaxed.Runaway {
		out.Inconclusive = "the relaxed run did not end within the harness bound"
		return out
	}
	switch {
	case relaxed.GoPanic != "":
		out.Fail = &vkit.Failure{Sig: "go-panic-relaxed", Observed: relaxed.GoPanic + "\n" + relaxed.Stack, Expected: "no Go panic"}
	case relaxed.Failed():
		msg := relaxed.CompileErr + relaxed.RunErr
		out.Fail = &vkit.Failure{Sig: "relaxed-fails: " + norm(egorun.StripPositions(msg)) + optc(c.Opt),
			Observed: "strict completes, relaxed fails with: " + msg + "\n--- program ---\n" + src, Expected: "same output as strict, no error"}
	case relaxed.Stdout != strict.Stdout:
		x, y := firstDiffLine(strict.Stdout, relaxed.Stdout)
		out.Fail = &vkit.Failure{Sig: "output-diff strict=" + norm(x) + " relaxed=" + norm(y) + optc(c.Opt),
			Observed: fmt.Sprintf("first differing line: strict %q, relaxed %q\n--- program ---\n%s", x, y, src), Expected: "identical output"}
	}
	return out
}

func optc(o int) string {
	if o >= 2 {
		return " [o23]"
	}
	return " [o01]"
}

func gen(t *rapid.T) Case {
	var c Case
	c.Ego = rapid.IntRange(0, 3).Draw(t, "egoflavoured") == 0
	if c.Ego {
		c.Program = proggen.EgoProgramNoTry(t, "p_")
	} else {
		c.Program = proggen.GoProgram(t, "p_")
	}
	c.Opt = rapid.IntRange(0, 3).Draw(t, "opt")
	return c
}

func TestC04(t *testing.T) {
	vkit.Run(t, vkit.Spec[Case]{
		ID:    "C04",
		Level: "exploration",
		Rule: "programs from proggen.GoProgram (strict-clean by Go's typing) and, one in four, proggen.EgoProgram, at optimizer level 0-3; run strict, and if that completes without error run relaxed: same stdout, no error. " +
			"Non-trivial: strict accepted the program and it crosses >= 2 of the four coercion boundaries (assignment, expression, argument, return); distinct by program x level. The label histogram reports how many programs strict accepts.",
		Gen:      gen,
		Oracle:   oracle,
		Quick:    600,
		Thorough: 1500,
	})
}
