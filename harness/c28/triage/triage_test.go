package triage

import (
	"testing"
	"testing/synctest"
	"time"

	"github.com/tucats/ego/internal/caches"
)

// virtual time
func TestPurgeLifetimeBubble(t *testing.T) {
	synctest.Test(t, func(t *testing.T) {
		_ = caches.SetExpiration(caches.OAuthCodeCache, "5m")
		caches.Purge(caches.OAuthCodeCache)
		caches.Add(caches.OAuthCodeCache, "code", "v")
		time.Sleep(121 * time.Second)
		_, found := caches.Find(caches.OAuthCodeCache, "code")
		t.Logf("found after 121s of a 5m lifetime (after purge): %v", found)
		caches.Purge(caches.OAuthCodeCache)
		time.Sleep(61 * time.Second)
	})
}

// real time, no synctest: 125 s
func TestPurgeLifetimeReal(t *testing.T) {
	_ = caches.SetExpiration(caches.SymbolTableCache, "1h")
	_ = caches.SetExpiration(caches.DebugSessionCache, "1h")
	caches.Purge(caches.SymbolTableCache)
	caches.Add(caches.SymbolTableCache, "session", "v")
	caches.Add(caches.DebugSessionCache, "session", "v")
	time.Sleep(125 * time.Second)
	_, found := caches.Find(caches.SymbolTableCache, "session")
	_, found2 := caches.Find(caches.DebugSessionCache, "session")
	t.Logf("1h lifetime, purged class: found after 125s = %v; 1h lifetime, unpurged class: found = %v", found, found2)
}
