//go:build !race

package c28

const raceBuild = false

func raceCaptureStart(dir string) func() { return func() {} }

func raceReport() string { return "" }
