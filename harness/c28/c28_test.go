// Package c28 decides property C28, "Server caches behave like bounded expiring
// maps", for github.com/tucats/ego/internal/caches.
//
// Two kinds of case, both drawn as plain data:
//
//   - "seq": a history of add/find/delete/purge/purge-local/set-expiration/
//     size/advance-time over 4 keys x 3 cache classes with a limit of 1..3
//     entries, executed inside a testing/synctest bubble. time.Now, time.Sleep and
//     the cache's own sweeper goroutine run on virtual time; ego needs no clock
//     hook. Execution only records a trace (results, Size of every class after
//     every step, listener calls with their virtual time stamps); the verdict is
//     computed after the bubble by comparing the trace with a map-with-deadlines
//     model.
//   - "conc": 2..6 goroutines run op lists concurrently on real time against
//     separate cache classes. Only assertions that hold for every schedule are
//     made (single writer per key, versions published through atomics).
//
// What the model asserts, and where each assertion comes from:
//
//   - Find of an entry strictly before its deadline returns the value most
//     recently stored (statement). A hit re-arms the deadline with the cache's
//     current lifetime (find.go: "a cache hit updates the item's expiration
//     timestamp"; DESIGN 3.9).
//   - Find of an entry at or past its deadline that the sweeper has not yet
//     reported may answer either way (statement: "unless ... expired").
//   - Find never returns a value after Delete or Purge/PurgeLocal of it, never a
//     value that was overwritten, and never a value that was not stored (statement).
//   - Size(class) <= limit after every step (statement); the limit is the
//     ego.server.cache.maxsize setting at the time the cache is created
//     (cache.go newCache), which is how the server configures it.
//   - An Add of a new key while Size == limit is not stored (cache.go: "If the
//     cache is full, no new items are added"; fullcache_test.go); below the
//     limit it is stored.
//   - Delete returns true and calls the eviction listener exactly once, before
//     it returns, for a present entry; returns false and calls nothing for an
//     absent key (delete.go doc comment, statement).
//   - Every entry whose deadline has passed is reported to the listener exactly
//     once, not before its deadline, and no later than one scan interval (60 s)
//     after it (statement; find.go: "By default, the cache is scanned every 60
//     seconds and any expired items are removed"). Nothing is asserted about
//     listener calls for entries removed by purge or overwritten by Add; the
//     statement is silent about them.
//   - The lifetime configured with SetExpiration governs entries added after a
//     purge (statement: "a cache's configured lifetime stays in force after
//     the cache is purged"). The model is evaluated a second time under the
//     hypothesis "purge resets the lifetime to the default"; a trace that only
//     the second model explains gets the signature of that root cause.
//
// Preconditions taken from real callers (DESIGN 3.9, HOWTO rule 1):
//
//   - SetExpiration is called with positive durations only (admin/run.go "1h",
//     "15m"; commands/server.go "5m"; the oauth packages pass configured
//     positive durations). A few unparsable strings are generated; for them the
//     documented error is expected and nothing changes.
//   - When SetExpiration is called while entries exist (no caller does that,
//     the package comment says "before items are added") the model accepts both
//     the old and the re-based deadline for those entries.
//   - caches.Active and caches.PurgeAll are not in the property's operation
//     list and are not called (PurgeAll can be added to the concurrent batches
//     with VERIF_C28_PURGEALL=1, see withPurgeAll). OnPurge stays nil (cluster
//     is C29's subject).
//   - Keys are strings, as at every call site.
//   - The default lifetime and the scan interval are 60 s (cache.go expireTime,
//     scanTime; both documented in comments of the package).
//   - A purged cache's sweeper exits at its next wake-up (cache.go expire: "When
//     the scan detects that the cache no longer exists ... it stops"). The
//     harness relies on this to end a bubble; a real-time watchdog turns a
//     bubble that does not end into a HARNESS-ERROR (exit 2), never a verdict.
package c28

import (
	"fmt"
	"os"
	"runtime/debug"
	"sort"
	"strconv"
	"strings"
	"sync"
	"sync/atomic"
	"testing"
	"testing/synctest"
	"time"

	"github.com/tucats/ego/internal/caches"
	"github.com/tucats/ego/internal/cli/settings"
	"github.com/tucats/ego/internal/defs"
	"github.com/tucats/ego/verif/vkit"
	"pgregory.net/rapid"
)

// ---------------------------------------------------------------- case data

// Op is one operation of a history. Which fields matter depends on K:
//
//	add, find, del        C (class index), Key (key index)
//	purge, purgelocal, size  C
//	setexp                C, Dur (a duration string)
//	sleep                 Ms (virtual milliseconds)
type Op struct {
	K   string `json:"k"`
	C   int    `json:"c,omitempty"`
	Key int    `json:"key,omitempty"`
	Dur string `json:"dur,omitempty"`
	Ms  int64  `json:"ms,omitempty"`
}

// Case is a sequential history (Kind "seq", Ops) or a concurrent batch (Kind
// "conc", Workers: worker i owns key i, Reps repetitions of its list).
type Case struct {
	Kind    string `json:"kind"`
	Limit   int    `json:"limit"`
	Ops     []Op   `json:"ops,omitempty"`
	Workers [][]Op `json:"workers,omitempty"`
	Reps    int    `json:"reps,omitempty"`
}

const (
	nKeys      = 4
	nClasses   = 3
	defaultMs  = int64(60_000) // cache.go expireTime
	scanMs     = int64(60_000) // cache.go scanTime
	sigPurge   = "lifetime reverts to default after purge"
	watchdogS  = 600
	maxWorkers = 6
)

// Sequential classes: two predefined classes whose lifetimes the server
// configures (OAuth codes 5m, symbol tables 1h) and one user-defined class.
var seqClass = [nClasses]int{caches.OAuthCodeCache, caches.SymbolTableCache, 9001}

// Concurrent classes are disjoint from the sequential ones: their sweepers run
// on the real clock and must never "own" a class that a bubble uses.
var concClass = [nClasses]int{caches.AuthCache, 9101, 9102}

func keyName(i int) string { return "k" + strconv.Itoa(i) }

func keyIndex(k any) int {
	s, ok := k.(string)
	if !ok || len(s) < 2 || s[0] != 'k' {
		return -1
	}
	n, err := strconv.Atoi(s[1:])
	if err != nil {
		return -1
	}
	return n
}

// ---------------------------------------------------------------- generator

var sleepPool = []int64{1, 5, 10, 29, 30, 31, 59, 60, 61, 90, 119, 120, 121, 300, 301, 900, 3600, 3661}
var durPool = []string{"10s", "30s", "45s", "90s", "2m", "5m", "15m", "1h", "24h"}
var badDurPool = []string{"", "abc", "5", "1x"}

// seqOpGen returns the generator of one operation. Histories are focused: most
// operations address the case's hot class and hot key, so that add / expire /
// find / delete / purge sequences on one entry are common rather than
// accidental; the hot class is mostly given the case's hot lifetime, and half
// of the sleeps are placed relative to that lifetime or to the default. The
// operations of a history are independent draws (given the hot parameters),
// which is what lets rapid shrink a history by deleting operations.
func seqOpGen(hotC, hotK int, hotDur string) *rapid.Generator[Op] {
	hd, _ := time.ParseDuration(hotDur)
	hotLife := hd.Milliseconds()
	return rapid.Custom(func(t *rapid.T) Op {
		w := rapid.IntRange(0, 99).Draw(t, "w")
		c := hotC
		if rapid.IntRange(0, 9).Draw(t, "otherc") < 3 {
			c = rapid.IntRange(0, nClasses-1).Draw(t, "c")
		}
		key := func() int {
			if rapid.IntRange(0, 9).Draw(t, "otherk") < 5 {
				return rapid.IntRange(0, nKeys-1).Draw(t, "key")
			}
			return hotK
		}
		switch {
		case w < 24:
			return Op{K: "add", C: c, Key: key()}
		case w < 48:
			return Op{K: "find", C: c, Key: key()}
		case w < 57:
			return Op{K: "del", C: c, Key: key()}
		case w < 61:
			return Op{K: "purge", C: c}
		case w < 64:
			return Op{K: "purgelocal", C: c}
		case w < 71:
			switch x := rapid.IntRange(0, 11).Draw(t, "which"); {
			case x == 0:
				return Op{K: "setexp", C: c, Dur: rapid.SampledFrom(badDurPool).Draw(t, "dur")}
			case x < 7 && c == hotC:
				return Op{K: "setexp", C: c, Dur: hotDur}
			}
			return Op{K: "setexp", C: c, Dur: rapid.SampledFrom(durPool).Draw(t, "dur")}
		case w < 74:
			return Op{K: "size", C: c}
		default:
			if rapid.Bool().Draw(t, "relative") {
				// half a lifetime (two of these straddle a deadline that only a
				// re-arm moves), the deadline itself, deadline + one scan interval
				L := hotLife
				if rapid.Bool().Draw(t, "default") {
					L = defaultMs
				}
				return Op{K: "sleep", Ms: rapid.SampledFrom([]int64{L / 2, L/2 + 1000, L - 1000, L, L + 1000, L + scanMs - 1000, L + scanMs, L + scanMs + 1000}).Draw(t, "rel")}
			}
			return Op{K: "sleep", Ms: 1000 * rapid.SampledFrom(sleepPool).Draw(t, "s")}
		}
	})
}

// genScenario draws a skeleton that walks one entry through a situation the
// statement talks about, with 0..2 random operations between the skeleton's
// steps (which may or may not disturb it; the model does not care).
func genScenario(t *rapid.T, limit, hotC, hotK int, hotDur string) Case {
	c := Case{Kind: "seq", Limit: limit}
	L := defaultMs
	var sk []Op
	if rapid.Bool().Draw(t, "custom") {
		d, _ := time.ParseDuration(hotDur)
		L = d.Milliseconds()
		sk = append(sk, Op{K: "setexp", C: hotC, Dur: hotDur})
	}
	add, find, del := Op{K: "add", C: hotC, Key: hotK}, Op{K: "find", C: hotC, Key: hotK}, Op{K: "del", C: hotC, Key: hotK}
	sleep := func(ms int64) Op { return Op{K: "sleep", Ms: ms} }
	jitter := 1000 * rapid.SampledFrom([]int64{-1, 0, 1, 30}).Draw(t, "jitter")
	switch rapid.IntRange(0, 3).Draw(t, "scenario") {
	case 0: // a hit re-arms the deadline; then the entry expires and is swept
		sk = append(sk, add, sleep(L/2+1000), find, sleep(L/2+1000), find, sleep(L+scanMs+jitter), find)
	case 1: // lifetime after purge
		sk = append(sk, Op{K: rapid.SampledFrom([]string{"purge", "purgelocal"}).Draw(t, "p"), C: hotC}, add,
			sleep(rapid.SampledFrom([]int64{defaultMs + scanMs + 1000, L - 1000, L + scanMs + 1000}).Draw(t, "s")), find)
	case 2: // fill to the limit, overflow, make room
		for k := 0; k < nKeys; k++ {
			sk = append(sk, Op{K: "add", C: hotC, Key: k})
		}
		sk = append(sk, Op{K: "find", C: hotC, Key: nKeys - 1}, Op{K: "del", C: hotC, Key: 0}, Op{K: "add", C: hotC, Key: nKeys - 1}, Op{K: "find", C: hotC, Key: nKeys - 1}, Op{K: "find", C: hotC, Key: 0})
	case 3: // delete and expiry are each reported once
		sk = append(sk, add, del, find, del, add, sleep(L+jitter), del, add, sleep(L+scanMs+jitter), del, find)
	}
	extra := rapid.SliceOfN(seqOpGen(hotC, hotK, hotDur), 0, 2)
	for _, op := range sk {
		c.Ops = append(c.Ops, op)
		c.Ops = append(c.Ops, extra.Draw(t, "extra")...)
	}
	return c
}

func genSeq(t *rapid.T) Case {
	limit := rapid.IntRange(1, 3).Draw(t, "limit")
	hotC := rapid.IntRange(0, nClasses-1).Draw(t, "hotc")
	hotK := rapid.IntRange(0, nKeys-1).Draw(t, "hotk")
	hotDur := rapid.SampledFrom(durPool).Draw(t, "hotdur")
	if rapid.IntRange(0, 2).Draw(t, "scenario") == 0 {
		return genScenario(t, limit, hotC, hotK, hotDur)
	}
	return Case{Kind: "seq", Limit: limit, Ops: rapid.SliceOfN(seqOpGen(hotC, hotK, hotDur), 1, 40).Draw(t, "ops")}
}

var concOpGen = rapid.Custom(func(t *rapid.T) Op {
	w := rapid.IntRange(0, 99).Draw(t, "w")
	c := rapid.IntRange(0, nClasses-1).Draw(t, "c")
	switch {
	case w < 30:
		return Op{K: "add", C: c}
	case w < 65:
		return Op{K: "find", C: c, Key: rapid.IntRange(0, maxWorkers-1).Draw(t, "key")}
	case w < 77:
		return Op{K: "del", C: c}
	case w < 83:
		return Op{K: "purge", C: c}
	case w < 87:
		return Op{K: "purgelocal", C: c}
	case w < 92:
		return Op{K: "setexp", C: c, Dur: rapid.SampledFrom([]string{"1ms", "50ms", "60s", "1h"}).Draw(t, "dur")}
	case w < 95 && withPurgeAll:
		return Op{K: "purgeall"}
	default:
		return Op{K: "size", C: c}
	}
})

// withPurgeAll adds caches.PurgeAll to the concurrent batches. It is off by
// default: PurgeAll is not in the property's operation list, and on the pinned
// tree it reads the cache list without the lock (proposed/C28-2.md), which the
// race detector reports on practically every batch; Go's testing package then
// fails the run however the finding is classified. Set VERIF_C28_PURGEALL=1 to
// exercise it (e.g. against a tree with proposed/C28-2.diff applied).
var withPurgeAll = os.Getenv("VERIF_C28_PURGEALL") == "1"

func genConc(t *rapid.T) Case {
	return Case{Kind: "conc",
		Limit:   rapid.SampledFrom([]int{1, 2, 3, 8}).Draw(t, "limit"),
		Reps:    rapid.IntRange(1, 6).Draw(t, "reps"),
		Workers: rapid.SliceOfN(rapid.SliceOfN(concOpGen, 1, 16), 2, maxWorkers).Draw(t, "workers")}
}

// ---------------------------------------------------------------- listener plumbing

type event struct {
	T     int64 // virtual ms since the case's epoch (seq only)
	Class int   // class index
	Key   int
	Val   int64
	OK    bool // key and value had the expected types
}

var (
	lisMu   sync.Mutex
	seqRec  *[]event   // non-nil while a sequential case records
	seqT0   time.Time  // epoch of the running sequential case
	concRec *concState // non-nil while a concurrent case runs
)

func classIndex(tbl [nClasses]int, id int) int {
	for i, v := range tbl {
		if v == id {
			return i
		}
	}
	return -1
}

// listener is the one eviction listener of the process (registered once,
// outside any bubble); it routes by class id to whichever case is running.
func listener(id int, key any, value any) {
	lisMu.Lock()
	defer lisMu.Unlock()
	if ci := classIndex(seqClass, id); ci >= 0 {
		if seqRec != nil {
			v, ok := value.(int64)
			k := keyIndex(key)
			*seqRec = append(*seqRec, event{T: time.Since(seqT0).Milliseconds(), Class: ci, Key: k, Val: v, OK: ok && k >= 0})
		}
		return
	}
	if ci := classIndex(concClass, id); ci >= 0 && concRec != nil {
		v, ok := value.(int64)
		k := keyIndex(key)
		if !ok || k < 0 || k >= maxWorkers {
			concRec.fail("listener: unknown key or value type", fmt.Sprintf("listener(%d, %v, %v)", id, key, value), "a key and value that were added")
			return
		}
		if v>>epochShift != concRec.epoch {
			// a late call about an entry of an earlier batch (a real-time
			// sweeper between its unlock and its notification)
			return
		}
		concRec.reports[[3]int64{int64(ci), int64(k), v}]++
	}
}

// ---------------------------------------------------------------- sequential execution

type step struct {
	T          int64 // virtual ms since epoch when the op ran (sleep: after it)
	Found      bool
	Val        int64
	ValOK      bool
	Del        bool
	Err        bool
	SizeBefore int
	Sizes      [nClasses]int // Size of every class after the step
	Events     []event
}

var theT *testing.T

// runSeq executes the history in a bubble and returns the trace. It makes no
// judgement. A Go panic raised by a cache operation on the history's goroutine
// is caught inside the bubble (a panic leaving a bubble goroutine would end the
// process and with it shrinking) and returned as text.
func runSeq(c Case) (trace []step, panicked string) {
	settings.SetDefault(defs.ServerMaxCacheSizeSetting, strconv.Itoa(c.Limit))
	realNow := time.Now() // only used to place the bubble's epoch in the future of every real clock reading
	trace = make([]step, len(c.Ops))
	var events []event

	wd := time.AfterFunc(watchdogS*time.Second, func() {
		fmt.Printf("HARNESS-ERROR property=C28 a synctest bubble did not end within %ds: a cache sweeper did not exit after its cache was purged (harness assumption broken)\n", watchdogS)
		os.Exit(2)
	})
	defer wd.Stop()

	synctest.Test(theT, func(_ *testing.T) {
		// rule (b): be far in the future of the real clock, so that nothing
		// outside the bubble considers bubble-time records expired.
		time.Sleep(time.Until(realNow.Add(10 * 366 * 24 * time.Hour)))
		epoch := time.Now()
		lisMu.Lock()
		events = events[:0]
		seqRec, seqT0 = &events, epoch
		lisMu.Unlock()
		drain := func() []event {
			lisMu.Lock()
			defer lisMu.Unlock()
			out := append([]event(nil), events...)
			events = events[:0]
			return out
		}
		runOps := func() {
			defer func() {
				if p := recover(); p != nil {
					panicked = fmt.Sprintf("panic: %v\n%s", p, debug.Stack())
				}
			}()
			runHistory(c, trace, epoch, drain)
		}
		runOps()
		// rule (c): leave nothing behind. Reset every class to the default
		// lifetime (so that a tree in which the lifetime survives a purge starts
		// the next case from the same state as one in which it does not), purge,
		// and sleep one scan interval so that the sweepers see their cache gone
		// and exit.
		lisMu.Lock()
		seqRec = nil
		lisMu.Unlock()
		for _, id := range seqClass {
			_ = caches.SetExpiration(id, "60s")
			caches.PurgeLocal(id)
			caches.Purge(id) // either one suffices; OnPurge is nil
		}
		time.Sleep(time.Duration(scanMs+1000) * time.Millisecond)
		synctest.Wait()
	})
	return trace, panicked
}

func runHistory(c Case, trace []step, epoch time.Time, drain func() []event) {
	{
		for i, op := range c.Ops {
			st := &trace[i]
			id := seqClass[op.C]
			st.SizeBefore = caches.Size(id)
			switch op.K {
			case "add":
				caches.Add(id, keyName(op.Key), int64(i+1))
			case "find":
				v, found := caches.Find(id, keyName(op.Key))
				st.Found = found
				st.Val, st.ValOK = v.(int64)
			case "del":
				st.Del = caches.Delete(id, keyName(op.Key))
			case "purge":
				caches.Purge(id)
			case "purgelocal":
				caches.PurgeLocal(id)
			case "setexp":
				st.Err = caches.SetExpiration(id, op.Dur) != nil
			case "size":
			case "sleep":
				time.Sleep(time.Duration(op.Ms) * time.Millisecond)
				// let every sweeper that woke at this instant finish its sweep
				// (and its listener calls) before the next operation runs
				synctest.Wait()
			}
			st.T = time.Since(epoch).Milliseconds()
			for ci := range seqClass {
				st.Sizes[ci] = caches.Size(seqClass[ci])
			}
			st.Events = drain()
		}
	}
}

// egoFrame names the first ego frame below the panic in a stack dump.
func egoFrame(stack string) string {
	seen := false
	for _, l := range strings.Split(stack, "\n") {
		if strings.HasPrefix(l, "panic(") {
			seen = true
			continue
		}
		if seen && strings.HasPrefix(l, "github.com/tucats/ego/internal/") {
			if i := strings.LastIndex(l, "("); i > 0 {
				l = l[:i]
			}
			return strings.TrimPrefix(l, "github.com/tucats/ego/")
		}
	}
	return "unknown"
}

// ---------------------------------------------------------------- model

type entry struct {
	class, key int
	val        int64
	dlo, dhi   int64 // deadline interval (equal unless SetExpiration ran while the entry existed)
	touch      int64 // time of the Add or of the last Find hit
	firstD     int64 // deadline given by the Add alone (no re-arming)
	ended      string
	delMiss    bool // a Delete of the key returned false while the entry was past its deadline
}

type ck struct{ c, k int }

type stats struct {
	findAfterDelete, findAfterPurge, findAfterExpiry, findExpiredHit, findExpiredMiss int
	findLiveHit, findNever, addAtLimit, addOverwrite, addNew, delHit, delMissAbsent   int
	sweepReports, purgeNonEmpty, addAfterPurgeCustom, setexpLive, badDur, rearmSaved  int
}

type verdict struct {
	fail *vkit.Failure
	at   int // failing step, len(ops) if none
	st   stats
}

func fmtOps(ops []Op, upto int) string {
	var b strings.Builder
	for i, op := range ops {
		if i > upto {
			break
		}
		switch op.K {
		case "add", "find", "del":
			fmt.Fprintf(&b, "%d:%s(c%d,k%d) ", i, op.K, op.C, op.Key)
		case "setexp":
			fmt.Fprintf(&b, "%d:setexp(c%d,%q) ", i, op.C, op.Dur)
		case "sleep":
			fmt.Fprintf(&b, "%d:sleep(%ds) ", i, op.Ms/1000)
		default:
			fmt.Fprintf(&b, "%d:%s(c%d) ", i, op.K, op.C)
		}
	}
	return b.String()
}

// checkSeq compares a trace with the deadline-map model. purgeResets selects
// the alternative model in which a purge sets the class's lifetime back to the
// default.
func checkSeq(c Case, trace []step, purgeResets bool) verdict {
	var v verdict
	v.at = len(c.Ops)
	life := [nClasses]int64{defaultMs, defaultMs, defaultMs}
	custom := [nClasses]bool{}       // lifetime differs from the default
	purgedCustom := [nClasses]bool{} // purged while a non-default lifetime was configured
	cur := map[ck]*entry{}
	byVal := map[int64]*entry{}
	lastEnd := map[ck]string{}

	failAt := func(i int, sig, observed, expected string) verdict {
		v.fail = &vkit.Failure{Sig: sig, Observed: fmt.Sprintf("step %d at t=%dms: %s; history: %s", i, trace[i].T, observed, fmtOps(c.Ops, i)), Expected: expected}
		v.at = i
		return v
	}
	end := func(e *entry, why string) {
		e.ended = why
		lastEnd[ck{e.class, e.key}] = why
		delete(cur, ck{e.class, e.key})
	}
	present := func(class int) []*entry {
		var es []*entry
		for _, e := range cur {
			if e.class == class {
				es = append(es, e)
			}
		}
		sort.Slice(es, func(i, j int) bool { return es[i].val < es[j].val })
		return es
	}

	for i, op := range c.Ops {
		st := trace[i]
		now := st.T
		evs := st.Events
		for _, ev := range evs {
			if !ev.OK {
				return failAt(i, "listener: key or value of unexpected type", fmt.Sprintf("event %+v", ev), "the key and value that were added")
			}
		}
		// optional(ev) consumes listener calls about which the statement says
		// nothing: entries that this very step purged or overwrote.
		unexpected := func(allowed map[int64]bool) *event {
			for k := range evs {
				if !allowed[evs[k].Val] {
					return &evs[k]
				}
			}
			return nil
		}

		switch op.K {
		case "sleep":
			for _, ev := range evs {
				e := byVal[ev.Val]
				switch {
				case e == nil || e.class != ev.Class || e.key != ev.Key:
					return failAt(i, "listener: sweep reported an entry that was never stored", fmt.Sprintf("event %+v", ev), "only stored entries are reported")
				case e.ended == "expired" || e.ended == "deleted":
					return failAt(i, "listener: entry reported twice ("+e.ended+" then sweep)", fmt.Sprintf("event %+v for an entry already reported as %s", ev, e.ended), "exactly one report per entry removed by expiry or deletion")
				case e.ended != "":
					// purged / overwritten / rejected: the statement is silent
				case ev.T < e.dlo:
					return failAt(i, "sweep: entry evicted before its deadline", fmt.Sprintf("entry c%d/k%d v%d reported evicted at t=%dms, deadline %dms (lifetime in force %dms)", e.class, e.key, e.val, ev.T, e.dlo, life[e.class]), "no eviction before the deadline given by the configured lifetime")
				default:
					v.st.sweepReports++
					end(e, "expired")
				}
			}
		case "add":
			k := ck{op.C, op.Key}
			old := cur[k]
			allowed := map[int64]bool{}
			if old != nil {
				allowed[old.val] = true
			}
			if ev := unexpected(allowed); ev != nil {
				return failAt(i, "listener: report during add for an entry that was not removed", fmt.Sprintf("event %+v", *ev), "no report")
			}
			ne := &entry{class: op.C, key: op.Key, val: int64(i + 1), dlo: now + life[op.C], dhi: now + life[op.C], touch: now, firstD: now + life[op.C]}
			byVal[ne.val] = ne
			if old != nil {
				v.st.addOverwrite++
				end(old, "overwritten")
				cur[k] = ne
			} else {
				stored := st.Sizes[op.C] > st.SizeBefore
				if st.SizeBefore >= c.Limit {
					v.st.addAtLimit++
				} else {
					v.st.addNew++
				}
				if !stored && st.SizeBefore < c.Limit {
					return failAt(i, "add: not stored although the cache was below its limit", fmt.Sprintf("Size before=%d after=%d limit=%d", st.SizeBefore, st.Sizes[op.C], c.Limit), "entry stored")
				}
				if stored {
					cur[k] = ne
				} else {
					ne.ended = "rejected"
					lastEnd[k] = "rejected"
				}
			}
			if cur[k] == ne && purgedCustom[op.C] {
				v.st.addAfterPurgeCustom++
			}
		case "find":
			if len(evs) > 0 {
				return failAt(i, "listener: report during find", fmt.Sprintf("event %+v", evs[0]), "no report")
			}
			k := ck{op.C, op.Key}
			e := cur[k]
			if st.Found {
				if !st.ValOK {
					return failAt(i, "find: value of unexpected type", "Find returned a non-int64", "the stored value")
				}
				if e == nil {
					why := lastEnd[k]
					if prev := byVal[st.Val]; prev != nil && prev.class == op.C && prev.key == op.Key {
						why = prev.ended
					}
					if why == "" {
						why = "never stored"
					}
					return failAt(i, "find: returned a value after "+why, fmt.Sprintf("Find(c%d,k%d) = v%d, true", op.C, op.Key, st.Val), "not found")
				}
				if st.Val != e.val {
					return failAt(i, "find: returned a value other than the most recently stored", fmt.Sprintf("Find(c%d,k%d) = v%d, most recent is v%d", op.C, op.Key, st.Val, e.val), fmt.Sprintf("v%d", e.val))
				}
				if e.delMiss {
					return failAt(i, "find: returned a value after deleted", fmt.Sprintf("Find(c%d,k%d) = v%d after Delete of the key returned", op.C, op.Key, st.Val), "not found")
				}
				if now < e.dlo {
					v.st.findLiveHit++
					if now >= e.firstD {
						v.st.rearmSaved++
					}
				} else {
					v.st.findExpiredHit++
				}
				e.dlo, e.dhi, e.touch = now+life[op.C], now+life[op.C], now
			} else {
				switch {
				case e != nil && now < e.dlo:
					return failAt(i, "find: live entry not found", fmt.Sprintf("Find(c%d,k%d) missed v%d at t=%dms; stored/last hit at %dms, deadline %dms (lifetime in force %dms)", op.C, op.Key, e.val, now, e.touch, e.dlo, life[op.C]), fmt.Sprintf("v%d", e.val))
				case e != nil:
					v.st.findExpiredMiss++
				case lastEnd[k] == "deleted":
					v.st.findAfterDelete++
				case lastEnd[k] == "purged":
					v.st.findAfterPurge++
				case lastEnd[k] == "expired":
					v.st.findAfterExpiry++
				default:
					v.st.findNever++
				}
			}
		case "del":
			k := ck{op.C, op.Key}
			e := cur[k]
			switch {
			case e == nil:
				v.st.delMissAbsent++
				if st.Del {
					return failAt(i, "delete: returned true for an absent key", fmt.Sprintf("Delete(c%d,k%d) = true", op.C, op.Key), "false")
				}
				if len(evs) > 0 {
					return failAt(i, "listener: report during delete of an absent key", fmt.Sprintf("event %+v", evs[0]), "no report")
				}
			case st.Del:
				v.st.delHit++
				n := 0
				for _, ev := range evs {
					if ev.Val == e.val && ev.Class == e.class && ev.Key == e.key {
						n++
					} else {
						return failAt(i, "listener: delete reported a different entry", fmt.Sprintf("event %+v, deleted entry v%d", ev, e.val), "the deleted entry")
					}
				}
				if n != 1 {
					return failAt(i, fmt.Sprintf("listener: deleted entry reported %s", times(n)), fmt.Sprintf("Delete(c%d,k%d) = true with %d listener calls", op.C, op.Key, n), "exactly one")
				}
				end(e, "deleted")
			default: // Delete returned false for an entry the model holds
				if now < e.dlo {
					return failAt(i, "delete: returned false for a live entry", fmt.Sprintf("Delete(c%d,k%d) = false, entry v%d deadline %dms now %dms", op.C, op.Key, e.val, e.dlo, now), "true")
				}
				if len(evs) > 0 {
					return failAt(i, "listener: report during a delete that returned false", fmt.Sprintf("event %+v", evs[0]), "no report")
				}
				e.delMiss = true
			}
		case "purge", "purgelocal":
			allowed := map[int64]bool{}
			es := present(op.C)
			for _, e := range es {
				allowed[e.val] = true
			}
			if ev := unexpected(allowed); ev != nil {
				return failAt(i, "listener: report during purge for an entry that was not removed", fmt.Sprintf("event %+v", *ev), "no report")
			}
			if len(es) > 0 {
				v.st.purgeNonEmpty++
			}
			for _, e := range es {
				end(e, "purged")
			}
			if custom[op.C] {
				purgedCustom[op.C] = true
			}
			if purgeResets {
				life[op.C] = defaultMs
			}
		case "setexp":
			if len(evs) > 0 {
				return failAt(i, "listener: report during set-expiration", fmt.Sprintf("event %+v", evs[0]), "no report")
			}
			d, err := time.ParseDuration(op.Dur)
			if err != nil {
				v.st.badDur++
				if !st.Err {
					return failAt(i, "set-expiration: no error for an invalid duration", fmt.Sprintf("SetExpiration(%q) = nil", op.Dur), "an error")
				}
				break
			}
			if st.Err {
				return failAt(i, "set-expiration: error for a valid duration", fmt.Sprintf("SetExpiration(%q) failed", op.Dur), "nil")
			}
			life[op.C] = d.Milliseconds()
			custom[op.C] = life[op.C] != defaultMs
			purgedCustom[op.C] = false
			for _, e := range present(op.C) {
				v.st.setexpLive++
				alt := e.touch + life[op.C]
				e.dlo, e.dhi = min(e.dlo, alt), max(e.dhi, alt)
			}
		case "size":
			if len(evs) > 0 {
				return failAt(i, "listener: report during size", fmt.Sprintf("event %+v", evs[0]), "no report")
			}
		}

		// after every step: sizes, and expired entries must have been reported
		for ci := 0; ci < nClasses; ci++ {
			certain, maybe := 0, 0
			for _, e := range present(ci) {
				if now < e.dlo {
					certain++
				} else {
					maybe++
				}
				if now > e.dhi+scanMs {
					return failAt(i, "sweep: expired entry not removed and reported within one scan interval", fmt.Sprintf("entry c%d/k%d v%d: deadline %dms (lifetime in force %dms), now %dms, no listener call; Size=%d", e.class, e.key, e.val, e.dhi, life[ci], now, st.Sizes[ci]), "reported to the eviction listener by deadline + 60s")
				}
			}
			sz := st.Sizes[ci]
			if sz > c.Limit {
				return failAt(i, "size: more entries than the limit", fmt.Sprintf("Size(c%d)=%d limit=%d after %s", ci, sz, c.Limit, op.K), "Size <= limit")
			}
			if sz < certain {
				return failAt(i, "size: fewer entries than live entries", fmt.Sprintf("Size(c%d)=%d, %d entries are before their deadline", ci, sz, certain), fmt.Sprintf(">= %d", certain))
			}
			if sz > certain+maybe {
				return failAt(i, "size: counts entries that were removed", fmt.Sprintf("Size(c%d)=%d, model holds %d live + %d expired-unswept", ci, sz, certain, maybe), fmt.Sprintf("<= %d", certain+maybe))
			}
		}
	}
	return v
}

func times(n int) string {
	switch n {
	case 0:
		return "0 times"
	case 1:
		return "once"
	default:
		return "more than once"
	}
}

func seqOracle(c Case) vkit.Outcome {
	var out vkit.Outcome
	if c.Limit < 1 || len(c.Ops) == 0 {
		out.Skip = "empty"
		return out
	}
	for _, op := range c.Ops {
		if op.C < 0 || op.C >= nClasses || op.Key < 0 || op.Key >= nKeys || op.Ms < 0 {
			out.Skip = "malformed"
			return out
		}
	}
	trace, panicked := runSeq(c)
	if panicked != "" {
		out.Labels = []string{"seq", "seq:panic"}
		out.Fail = &vkit.Failure{Sig: "panic:" + egoFrame(panicked), Observed: clip(panicked, 4000) + "\nhistory: " + fmtOps(c.Ops, len(c.Ops)), Expected: "no panic"}
		return out
	}
	prim := checkSeq(c, trace, false)
	s := prim.st
	if prim.fail != nil {
		alt := checkSeq(c, trace, true)
		// The alternative model is the primary one plus "purge resets the
		// lifetime"; the two only differ after a purge of a class whose
		// lifetime was configured. (Narrowing the attribution further, e.g. to
		// classes purged since their last SetExpiration, was tried and is wrong:
		// an entry added in that state keeps its short deadline across a later
		// SetExpiration, and the known defect was then reported under another
		// signature.)
		switch {
		case alt.fail == nil:
			out.Fail = &vkit.Failure{Sig: sigPurge, Observed: prim.fail.Observed + " [the whole trace is explained by a model in which Purge/PurgeLocal resets the class's lifetime to the 60s default; primary signature: " + prim.fail.Sig + "]", Expected: prim.fail.Expected}
		case alt.at > prim.at:
			// the purge defect explains step prim.at; something else fails later
			out.Fail = alt.fail
			out.Fail.Observed += " [judged by the model in which purge resets the lifetime, which explains an earlier discrepancy at step " + strconv.Itoa(prim.at) + "]"
			s = alt.st
		default:
			out.Fail = prim.fail
		}
	}
	out.NonTrivial = s.findAfterDelete+s.findAfterPurge+s.findAfterExpiry+s.findExpiredHit+s.findExpiredMiss+s.addAtLimit > 0
	lab := func(n int, name string) {
		if n > 0 {
			out.Labels = append(out.Labels, "seq:"+name)
		}
	}
	out.Labels = append(out.Labels, "seq")
	lab(s.findAfterDelete, "find-after-delete")
	lab(s.findAfterPurge, "find-after-purge")
	lab(s.findAfterExpiry, "find-after-expiry-report")
	lab(s.findExpiredHit, "find-expired-unswept-hit")
	lab(s.findExpiredMiss, "find-expired-unswept-miss")
	lab(s.findLiveHit, "find-live-hit")
	lab(s.rearmSaved, "find-hit-only-thanks-to-rearm")
	lab(s.addAtLimit, "add-at-limit")
	lab(s.addOverwrite, "add-overwrite")
	lab(s.delHit, "delete-hit")
	lab(s.sweepReports, "sweep-report")
	lab(s.purgeNonEmpty, "purge-nonempty")
	lab(s.addAfterPurgeCustom, "add-after-purge-with-custom-lifetime")
	lab(s.setexpLive, "setexp-with-entries-present")
	lab(s.badDur, "setexp-invalid")
	return out
}

// ---------------------------------------------------------------- concurrent mode

type concState struct {
	started [nClasses][maxWorkers]atomic.Int64 // version whose Add is about to start
	added   [nClasses][maxWorkers]atomic.Int64 // version whose Add has returned
	floor   [nClasses][maxWorkers]atomic.Int64 // versions <= floor were deleted/purged and the call returned
	// under lisMu:
	reports map[[3]int64]int
	failure *vkit.Failure
	// versions of this batch are epoch<<epochShift + 1, 2, ...: unique in the
	// process, so that a listener call can always be attributed to its batch
	epoch int64
}

const epochShift = 24

var concEpoch int64

// fail records the first violation. Caller must hold lisMu iff called from the
// listener; other callers use failLocked.
func (s *concState) fail(sig, observed, expected string) {
	if s.failure == nil {
		s.failure = &vkit.Failure{Sig: "conc: " + sig, Observed: observed, Expected: expected}
	}
}

func (s *concState) failLocked(sig, observed, expected string) {
	lisMu.Lock()
	defer lisMu.Unlock()
	s.fail(sig, observed, expected)
}

func (s *concState) entryReports(c, k int, v int64) int {
	lisMu.Lock()
	defer lisMu.Unlock()
	return s.reports[[3]int64{int64(c), int64(k), v}]
}

func atomicMax(a *atomic.Int64, v int64) {
	for {
		o := a.Load()
		if v <= o || a.CompareAndSwap(o, v) {
			return
		}
	}
}

func runConc(c Case) *vkit.Failure {
	settings.SetDefault(defs.ServerMaxCacheSizeSetting, strconv.Itoa(c.Limit))
	concEpoch++
	s := &concState{reports: map[[3]int64]int{}, epoch: concEpoch}
	base := concEpoch << epochShift
	lisMu.Lock()
	concRec = s
	lisMu.Unlock()
	nw := len(c.Workers)
	var wg sync.WaitGroup
	startGate := make(chan struct{})
	for w := 0; w < nw; w++ {
		wg.Add(1)
		go func(me int, ops []Op) {
			defer wg.Done()
			defer func() {
				if p := recover(); p != nil {
					st := string(debug.Stack())
					s.failLocked("panic in "+egoFrame(st), fmt.Sprintf("panic: %v\n%s", p, clip(st, 4000)), "no panic")
				}
			}()
			ver := [nClasses]int64{base, base, base}
			var last [nClasses][maxWorkers]int64
			<-startGate
			for r := 0; r < c.Reps; r++ {
				for _, op := range ops {
					id := concClass[op.C]
					switch op.K {
					case "add":
						nv := ver[op.C] + 1
						s.started[op.C][me].Store(nv)
						caches.Add(id, keyName(me), nv)
						s.added[op.C][me].Store(nv)
						ver[op.C] = nv
					case "del":
						ok := caches.Delete(id, keyName(me))
						// whatever Delete answered, no version added so far may be found from now on
						atomicMax(&s.floor[op.C][me], ver[op.C])
						// This goroutine is the only writer of the key, so a
						// Delete that found something removed this goroutine's
						// newest version; the listener runs synchronously in
						// Delete, so it has been told by now, once. (Counted per
						// entry, not per key: a sweeper's late call about an
						// older version of the key must not be mistaken for it.)
						if n := s.entryReports(op.C, me, ver[op.C]); ok && n != 1 {
							s.failLocked("delete returned true but the listener was called "+times(n), fmt.Sprintf("Delete(class %d, k%d)=true removed version %d, listener calls for that entry: %d", id, me, ver[op.C]-base, n), "exactly one")
						}
					case "find":
						k := op.Key % nw
						fl := s.floor[op.C][k].Load()
						val, found := caches.Find(id, keyName(k))
						st := s.started[op.C][k].Load()
						if found {
							v, isInt := val.(int64)
							switch {
							case !isInt:
								s.failLocked("find returned a value of another type", fmt.Sprintf("%v", val), "int64 version")
							case v <= fl:
								s.failLocked("found after its delete/purge returned", fmt.Sprintf("Find(class %d,k%d)=v%d, but v<=%d were deleted or purged by calls that returned before this Find began", id, k, v-base, fl-base), "not found or a newer version")
							case v > st:
								s.failLocked("found a version that was never added", fmt.Sprintf("Find(class %d,k%d)=v%d, newest started add v%d", id, k, v-base, st-base), "<= newest add")
							case v < last[op.C][k]:
								s.failLocked("per-key version went backwards", fmt.Sprintf("Find(class %d,k%d)=v%d after this goroutine saw v%d", id, k, v-base, last[op.C][k]-base), "non-decreasing versions")
							default:
								last[op.C][k] = v
							}
						}
					case "purgeall":
						var snap [nClasses][maxWorkers]int64
						for ci := 0; ci < nClasses; ci++ {
							for k := 0; k < nw; k++ {
								snap[ci][k] = s.added[ci][k].Load()
							}
						}
						caches.PurgeAll()
						for ci := 0; ci < nClasses; ci++ {
							for k := 0; k < nw; k++ {
								atomicMax(&s.floor[ci][k], snap[ci][k])
							}
						}
					case "purge", "purgelocal":
						var snap [maxWorkers]int64
						for k := 0; k < nw; k++ {
							snap[k] = s.added[op.C][k].Load()
						}
						if op.K == "purge" {
							caches.Purge(id)
						} else {
							caches.PurgeLocal(id)
						}
						for k := 0; k < nw; k++ {
							atomicMax(&s.floor[op.C][k], snap[k])
						}
					case "setexp":
						_ = caches.SetExpiration(id, op.Dur)
					case "size":
						if n := caches.Size(id); n > c.Limit {
							s.failLocked("size exceeds limit", fmt.Sprintf("Size(class %d)=%d limit=%d", id, n, c.Limit), "Size <= limit")
						}
					}
				}
			}
		}(w, c.Workers[w])
	}
	close(startGate)
	wg.Wait()
	for ci, id := range concClass {
		if n := caches.Size(id); n > c.Limit {
			s.failLocked("size exceeds limit", fmt.Sprintf("final Size(class %d)=%d limit=%d", id, n, c.Limit), "Size <= limit")
		}
		_ = ci
		_ = caches.SetExpiration(id, "60s")
		caches.PurgeLocal(id)
		caches.Purge(id)
	}
	lisMu.Lock()
	concRec = nil
	keys := make([][3]int64, 0, len(s.reports))
	for k := range s.reports {
		keys = append(keys, k)
	}
	sort.Slice(keys, func(i, j int) bool {
		for x := 0; x < 3; x++ {
			if keys[i][x] != keys[j][x] {
				return keys[i][x] < keys[j][x]
			}
		}
		return false
	})
	for _, k := range keys {
		if s.reports[k] > 1 {
			s.fail("entry reported to the listener more than once", fmt.Sprintf("class index %d key k%d version %d: %d calls", k[0], k[1], k[2], s.reports[k]), "at most one")
		}
	}
	f := s.failure
	lisMu.Unlock()
	if f == nil {
		if r := raceReport(); r != "" {
			f = &vkit.Failure{Sig: "conc: data race " + raceSite(r), Observed: clip(r, 3000), Expected: "no data race between cache operations"}
		}
	}
	return f
}

func clip(s string, n int) string {
	if len(s) > n {
		return s[:n] + "..."
	}
	return s
}

// raceSite names the two conflicting accesses of the first race report by
// their innermost ego frames, in sorted order, e.g.
// "caches.PurgeAll <-> caches.newCache". The same pair of code sites gives the
// same signature whichever goroutine the detector happened to see second.
func raceSite(report string) string {
	var sites []string
	want := false
	for _, l := range strings.Split(report, "\n") {
		t := strings.TrimSpace(l)
		switch {
		case strings.HasPrefix(t, "Goroutine ") || strings.HasPrefix(t, "=================="):
			if len(sites) > 0 {
				want = false
				if strings.HasPrefix(t, "Goroutine ") {
					goto done
				}
			}
		case strings.HasPrefix(t, "Read at ") || strings.HasPrefix(t, "Write at ") || strings.HasPrefix(t, "Previous read at ") || strings.HasPrefix(t, "Previous write at ") ||
			strings.HasPrefix(t, "Atomic read at ") || strings.HasPrefix(t, "Atomic write at ") || strings.HasPrefix(t, "Previous atomic read at ") || strings.HasPrefix(t, "Previous atomic write at "):
			want = true
		case want && strings.HasPrefix(t, "github.com/tucats/ego/internal/"):
			if i := strings.LastIndex(t, "("); i > 0 {
				t = t[:i]
			}
			sites = append(sites, strings.TrimPrefix(t, "github.com/tucats/ego/internal/"))
			want = false
		}
	}
done:
	if len(sites) == 0 {
		return "(no ego frame)"
	}
	sort.Strings(sites)
	return strings.Join(sites, " <-> ")
}

func concOracle(c Case) vkit.Outcome {
	var out vkit.Outcome
	nw := len(c.Workers)
	if c.Limit < 1 || nw < 2 || nw > maxWorkers || c.Reps < 1 {
		out.Skip = "malformed"
		return out
	}
	hasAdd := [maxWorkers]bool{}
	removes := false
	for w, ops := range c.Workers {
		for _, op := range ops {
			if op.C < 0 || op.C >= nClasses || op.Key < 0 {
				out.Skip = "malformed"
				return out
			}
			switch op.K {
			case "add":
				hasAdd[w] = true
			case "del", "purge", "purgelocal", "purgeall":
				removes = true
			}
		}
	}
	foreignFind := false
	for w, ops := range c.Workers {
		for _, op := range ops {
			if op.K == "find" && op.Key%nw != w && hasAdd[op.Key%nw] {
				foreignFind = true
			}
		}
	}
	out.NonTrivial = foreignFind && removes
	out.Labels = []string{"conc", fmt.Sprintf("conc:workers=%d", nw)}
	if out.NonTrivial {
		out.Labels = append(out.Labels, "conc:foreign-find+remove")
	}
	out.Fail = runConc(c)
	return out
}

// ---------------------------------------------------------------- test

func fixedCases() []Case {
	return []Case{
		// the configured lifetime must survive a purge: long lifetime
		{Kind: "seq", Limit: 3, Ops: []Op{{K: "setexp", C: 0, Dur: "5m"}, {K: "purge", C: 0}, {K: "add", C: 0, Key: 0}, {K: "sleep", Ms: 121000}, {K: "find", C: 0, Key: 0}}},
		// short lifetime
		{Kind: "seq", Limit: 3, Ops: []Op{{K: "setexp", C: 2, Dur: "10s"}, {K: "purgelocal", C: 2}, {K: "add", C: 2, Key: 1}, {K: "sleep", Ms: 71000}, {K: "size", C: 2}}},
		// find re-arms; expiry is reported once; delete reports once
		{Kind: "seq", Limit: 2, Ops: []Op{{K: "add", C: 1, Key: 0}, {K: "sleep", Ms: 59000}, {K: "find", C: 1, Key: 0}, {K: "sleep", Ms: 59000}, {K: "find", C: 1, Key: 0}, {K: "add", C: 1, Key: 1}, {K: "add", C: 1, Key: 2}, {K: "del", C: 1, Key: 1}, {K: "find", C: 1, Key: 1}, {K: "sleep", Ms: 121000}, {K: "find", C: 1, Key: 0}}},
		{Kind: "conc", Limit: 2, Reps: 4, Workers: [][]Op{
			{{K: "add", C: 0}, {K: "find", C: 0, Key: 1}, {K: "del", C: 0}, {K: "add", C: 0}, {K: "size", C: 0}},
			{{K: "add", C: 0}, {K: "find", C: 0, Key: 0}, {K: "purge", C: 0}, {K: "find", C: 0, Key: 0}},
			{{K: "add", C: 0}, {K: "find", C: 0, Key: 0}, {K: "find", C: 0, Key: 1}, {K: "setexp", C: 0, Dur: "1h"}},
		}},
	}
}

func TestC28(t *testing.T) {
	theT = t
	dir := os.Getenv("VERIF_RUN_DIR")
	if dir == "" {
		dir = t.TempDir()
	}
	stop := raceCaptureStart(dir)
	defer stop()
	caches.SetOnEvict(listener)
	defer caches.SetOnEvict(nil)

	vkit.Run(t, vkit.Spec[Case]{
		ID:    "C28",
		Level: "exploration",
		Rule: "seq (3 of 4 cases): 1..40 operations add/find/delete/purge/purge-local/set-expiration/size/advance-time over 4 keys x 3 cache classes, limit 1..3, " +
			"run in a synctest bubble (virtual clock, real sweeper goroutines) and judged against a deadline-map model; non-trivial = contains a find after the delete, purge or expiry of that key, " +
			"a find of an entry past its deadline, or an add of a new key at the limit. " +
			"conc (1 of 4): 2..6 goroutines x 1..16 ops x 1..6 repetitions on real time (single writer per key), invariants only; non-trivial = a goroutine looks up another goroutine's key and the batch contains a delete or purge. Distinct by history.",
		Assumptions: []string{
			"default lifetime 60s and scan interval 60s (cache.go expireTime/scanTime)",
			"the limit is ego.server.cache.maxsize at cache creation; an add of a new key at the limit is not stored (cache.go, fullcache_test.go)",
			"SetExpiration arguments are positive durations (all callers); with entries present both the old and the re-based deadline are accepted",
			"a purged cache's sweeper exits at its next wake-up (cache.go expire); otherwise the run ends with HARNESS-ERROR",
			"concurrent mode: race detection only when the tier is built with -race (check.json)",
		},
		Gen: func(t *rapid.T) Case {
			if rapid.IntRange(0, 3).Draw(t, "kind") == 0 {
				return genConc(t)
			}
			return genSeq(t)
		},
		Oracle: func(c Case) vkit.Outcome {
			switch c.Kind {
			case "seq":
				return seqOracle(c)
			case "conc":
				return concOracle(c)
			}
			return vkit.Outcome{Skip: "unknown kind"}
		},
		Fixed:    fixedCases,
		Quick:    6000,
		Thorough: 120000,
	})
}
