// Package c03 decides property C03 "Arithmetic follows the documented typing
// rules" (docs/LANGUAGE.md#typeConversion, "Combining values in an
// expression" and "Assigning to a variable").
//
// Operands are placed in the symbol table as Go values of the exact Go type
// (so the lexer is not on the path) and the result is handed, as a Go value of
// its exact dynamic type, to a native function the harness installs (so fmt is
// not on the path either). Each case is one small function body:
//
//	func main() { x := gx; [y := gy;] <statement>; vout(<x or r>) }
//
// Preconditions taken from the documentation, not from the code:
//   - an untyped constant adapts to the typed operand's type, in every mode;
//     in strict mode only if lossless (else an error); in dynamic/relaxed mode
//     a fractional constant is truncated toward zero for an integer operand
//     ("anInt32 + 2.7 silently drops the fractional part").
//   - same-type operands keep the type; fixed-width results wrap like Go.
//   - two typed operands of different kinds: strict rejects; dynamic/relaxed
//     promote "to whichever type loses the least precision". The promoted type
//     is asserted only where that sentence is unambiguous (both signed or both
//     unsigned integers of different width -> the wider; an integer of at most
//     32 bits or a float32 with a float64 -> float64); every other pair is
//     executed and must not error in dynamic/relaxed and must error in strict,
//     but its result type is not judged.
//   - x++ / x += 1 / x = x + 1 (and --, -=) agree in value and type for every
//     numeric type, in every mode (the statement says so explicitly).
//   - unary minus works on every signed, floating (and complex) type and is
//     Go's negation; it is not judged on unsigned types.
//
// Not generated: float constants that are not exactly representable when the
// variable is a float32 (Go rounds, the reference says "losslessly": not
// settled by the statement), integer constants outside the variable's range
// in strict mode are expected to be rejected, division or modulo by zero
// (C01's territory), % on floats.
package c03

import (
	"fmt"
	"math"
	"math/cmplx"
	"strconv"
	"strings"
	"testing"

	"github.com/tucats/ego/internal/language/data"
	"github.com/tucats/ego/internal/language/symbols"
	"github.com/tucats/ego/verif/egorun"
	"github.com/tucats/ego/verif/vkit"
	"pgregory.net/rapid"
)

// Case is one arithmetic statement on typed operands.
type Case struct {
	Mode string `json:"mode"` // dynamic | relaxed | strict
	Opt  int    `json:"opt"`  // optimizer level 0..3
	T    string `json:"t"`    // type of x
	X    string `json:"x"`    // value of x
	// Form: binconst (r := x op K), constbin (r := K op x), opassign (x op= K),
	// assignbin (x = x op K), incdec (x++ / x--), neg (r := -x),
	// binvar (r := x op y, y typed)
	Form string `json:"form"`
	Op   string `json:"op,omitempty"` // + - * / %  (incdec: + or -)
	K    string `json:"k,omitempty"`  // constant literal text
	YT   string `json:"yt,omitempty"`
	Y    string `json:"y,omitempty"`
}

var intTypes = []string{"int8", "int16", "int32", "int64", "int", "uint8", "uint16", "uint32", "uint64", "uint"}
var floatTypes = []string{"float32", "float64"}
var complexTypes = []string{"complex64", "complex128"}
var allTypes = append(append(append([]string{}, intTypes...), floatTypes...), complexTypes...)

func isInt(t string) bool      { return strings.Contains(t, "int") }
func isUnsigned(t string) bool { return strings.HasPrefix(t, "uint") }
func isFloat(t string) bool    { return strings.HasPrefix(t, "float") }
func isComplex(t string) bool  { return strings.HasPrefix(t, "complex") }
func bits(t string) int {
	switch t {
	case "int8", "uint8":
		return 8
	case "int16", "uint16":
		return 16
	case "int32", "uint32", "float32":
		return 32
	case "complex64":
		return 64
	case "complex128":
		return 128
	}
	return 64
}

// boundary values per type, as text
func valuesFor(t string) []string {
	switch {
	case isInt(t) && !isUnsigned(t):
		b := bits(t)
		min := -(int64(1) << (b - 1))
		max := (int64(1) << (b - 1)) - 1
		return []string{"0", "1", "-1", "5", "-7", fmt.Sprint(min), fmt.Sprint(min + 1), fmt.Sprint(max), fmt.Sprint(max - 1), fmt.Sprint(max / 2)}
	case isUnsigned(t):
		b := bits(t)
		var max uint64 = math.MaxUint64
		if b < 64 {
			max = (uint64(1) << b) - 1
		}
		return []string{"0", "1", "5", "100", fmt.Sprint(max), fmt.Sprint(max - 1), fmt.Sprint(max/2 + 1), fmt.Sprint(max / 2)}
	case isFloat(t):
		return []string{"0", "-0", "1", "-1", "2.5", "-7.25", "1e30", "-1e-30", "+Inf", "-Inf", "NaN", "0.1"}
	default:
		return []string{"0", "1", "-1", "2.5", "-7.25", "1+2i", "-0.5-3i", "1e10+1e-10i"}
	}
}

// constants per variable type
func constsFor(t string) []string {
	switch {
	case isInt(t):
		return []string{"1", "2", "3", "7", "100", "200", "70000", "2.7", "2.0", "0.5"}
	case t == "float32":
		return []string{"1", "2", "3", "2.5", "0.25", "100"}
	case t == "float64":
		return []string{"1", "2", "3", "2.5", "2.7", "0.1", "100"}
	default:
		return []string{"1", "2", "3", "2.5", "0.25"}
	}
}

func parseComplex(s string) complex128 {
	c, err := strconv.ParseComplex(s, 128)
	if err != nil {
		panic("bad complex " + s)
	}
	return c
}

// mk builds the Go value of type t from text.
func mk(t, s string) any {
	switch t {
	case "int8", "int16", "int32", "int64", "int":
		v, err := strconv.ParseInt(s, 10, 64)
		if err != nil {
			panic(err)
		}
		switch t {
		case "int8":
			return int8(v)
		case "int16":
			return int16(v)
		case "int32":
			return int32(v)
		case "int64":
			return int64(v)
		}
		return int(v)
	case "uint8", "uint16", "uint32", "uint64", "uint":
		v, err := strconv.ParseUint(s, 10, 64)
		if err != nil {
			panic(err)
		}
		switch t {
		case "uint8":
			return uint8(v)
		case "uint16":
			return uint16(v)
		case "uint32":
			return uint32(v)
		case "uint64":
			return uint64(v)
		}
		return uint(v)
	case "float32", "float64":
		var f float64
		switch s {
		case "-0":
			f = math.Copysign(0, -1)
		default:
			var err error
			f, err = strconv.ParseFloat(s, 64)
			if err != nil {
				panic(err)
			}
		}
		if t == "float32" {
			return float32(f)
		}
		return f
	case "complex64":
		return complex64(parseComplex(s))
	case "complex128":
		return parseComplex(s)
	}
	panic("type " + t)
}

type integer interface {
	~int8 | ~int16 | ~int32 | ~int64 | ~int | ~uint8 | ~uint16 | ~uint32 | ~uint64 | ~uint
}
type floaty interface{ ~float32 | ~float64 }
type complexy interface{ ~complex64 | ~complex128 }

func intOp[T integer](op string, a, b T) (T, bool) {
	switch op {
	case "+":
		return a + b, true
	case "-":
		return a - b, true
	case "*":
		return a * b, true
	case "/":
		if b == 0 {
			return 0, false
		}
		return a / b, true
	case "%":
		if b == 0 {
			return 0, false
		}
		return a % b, true
	}
	panic(op)
}
func floatOp[T floaty](op string, a, b T) (T, bool) {
	switch op {
	case "+":
		return a + b, true
	case "-":
		return a - b, true
	case "*":
		return a * b, true
	case "/":
		if b == 0 {
			return 0, false
		}
		return a / b, true
	}
	return 0, false
}
func complexOp[T complexy](op string, a, b T) (T, bool) {
	switch op {
	case "+":
		return a + b, true
	case "-":
		return a - b, true
	case "*":
		return a * b, true
	case "/":
		if b == 0 {
			return 0, false
		}
		return a / b, true
	}
	return 0, false
}

// goOp computes a op b with Go's semantics for two values of the same Go type.
func goOp(op string, a, b any) (any, bool) {
	switch x := a.(type) {
	case int8:
		return wrap(intOp(op, x, b.(int8)))
	case int16:
		return wrap(intOp(op, x, b.(int16)))
	case int32:
		return wrap(intOp(op, x, b.(int32)))
	case int64:
		return wrap(intOp(op, x, b.(int64)))
	case int:
		return wrap(intOp(op, x, b.(int)))
	case uint8:
		return wrap(intOp(op, x, b.(uint8)))
	case uint16:
		return wrap(intOp(op, x, b.(uint16)))
	case uint32:
		return wrap(intOp(op, x, b.(uint32)))
	case uint64:
		return wrap(intOp(op, x, b.(uint64)))
	case uint:
		return wrap(intOp(op, x, b.(uint)))
	case float32:
		return wrap(floatOp(op, x, b.(float32)))
	case float64:
		return wrap(floatOp(op, x, b.(float64)))
	case complex64:
		return wrap(complexOp(op, x, b.(complex64)))
	case complex128:
		return wrap(complexOp(op, x, b.(complex128)))
	}
	panic(fmt.Sprintf("goOp %T", a))
}

func wrap[T any](v T, ok bool) (any, bool) { return v, ok }

func goNeg(a any) any {
	switch x := a.(type) {
	case int8:
		return -x
	case int16:
		return -x
	case int32:
		return -x
	case int64:
		return -x
	case int:
		return -x
	case float32:
		return -x
	case float64:
		return -x
	case complex64:
		return -x
	case complex128:
		return -x
	}
	panic("neg")
}

// convert a Go numeric value to type t with Go conversion semantics
// (used for promotion of typed operands, which are always in range of the
// wider type in the asserted pairs).
func conv(t string, v any) any {
	switch x := v.(type) {
	case int8:
		return fromI(t, int64(x))
	case int16:
		return fromI(t, int64(x))
	case int32:
		return fromI(t, int64(x))
	case int64:
		return fromI(t, x)
	case int:
		return fromI(t, int64(x))
	case uint8:
		return fromU(t, uint64(x))
	case uint16:
		return fromU(t, uint64(x))
	case uint32:
		return fromU(t, uint64(x))
	case uint64:
		return fromU(t, x)
	case uint:
		return fromU(t, uint64(x))
	case float32:
		if t == "float64" {
			return float64(x)
		}
		return x
	case float64:
		return x
	}
	panic("conv")
}
func fromI(t string, v int64) any {
	switch t {
	case "int8":
		return int8(v)
	case "int16":
		return int16(v)
	case "int32":
		return int32(v)
	case "int64":
		return v
	case "int":
		return int(v)
	case "float32":
		return float32(v)
	case "float64":
		return float64(v)
	}
	panic("fromI " + t)
}
func fromU(t string, v uint64) any {
	switch t {
	case "uint8":
		return uint8(v)
	case "uint16":
		return uint16(v)
	case "uint32":
		return uint32(v)
	case "uint64":
		return v
	case "uint":
		return uint(v)
	case "float32":
		return float32(v)
	case "float64":
		return float64(v)
	}
	panic("fromU " + t)
}

// constant adaptation: the constant literal k adapted to type t.
// lossless reports whether the adaptation loses no information; val is the
// adapted value under the documented lenient rule (fraction truncated toward
// zero, overflow wraps), nil when the lenient value is not specified by the
// reference (float constant out of an integer's range).
func adapt(t, k string) (val any, lossless bool) {
	f, err := strconv.ParseFloat(k, 64)
	if err != nil {
		panic(err)
	}
	isIntLit := !strings.ContainsAny(k, ".eE")
	switch {
	case isInt(t):
		tr := math.Trunc(f)
		exact := tr == f
		if isUnsigned(t) {
			if tr < 0 {
				return nil, false
			}
			u := uint64(tr)
			v := fromU(t, u)
			fits := bits(t) == 64 || u <= (uint64(1)<<bits(t))-1
			return v, exact && fits
		}
		i := int64(tr)
		v := fromI(t, i)
		fits := bits(t) == 64 || (i >= -(int64(1)<<(bits(t)-1)) && i <= (int64(1)<<(bits(t)-1))-1)
		return v, exact && fits
	case t == "float32":
		_ = isIntLit
		return float32(f), float64(float32(f)) == f
	case t == "float64":
		return f, true
	case t == "complex64":
		return complex(float32(f), 0), float64(float32(f)) == f
	case t == "complex128":
		return complex(f, 0), true
	}
	panic("adapt")
}

func isZero(v any) bool {
	switch x := v.(type) {
	case float32:
		return x == 0
	case float64:
		return x == 0
	case complex64:
		return x == 0
	case complex128:
		return x == 0
	}
	return fmt.Sprint(v) == "0"
}

func typeName(v any) string { return fmt.Sprintf("%T", v) }

func same(a, b any) bool {
	if typeName(a) != typeName(b) {
		return false
	}
	switch x := a.(type) {
	case float32:
		y := b.(float32)
		return math.Float32bits(x) == math.Float32bits(y) || (x != x && y != y)
	case float64:
		y := b.(float64)
		return math.Float64bits(x) == math.Float64bits(y) || (x != x && y != y)
	case complex64:
		y := b.(complex64)
		return same(real(x), real(y)) && same(imag(x), imag(y))
	case complex128:
		y := b.(complex128)
		return same(real(x), real(y)) && same(imag(x), imag(y))
	}
	return a == b
}

func show(v any) string {
	switch x := v.(type) {
	case float32:
		return fmt.Sprintf("float32(%v bits=%08x)", x, math.Float32bits(x))
	case float64:
		return fmt.Sprintf("float64(%v bits=%016x)", x, math.Float64bits(x))
	case complex64, complex128:
		return fmt.Sprintf("%T(%v)", x, x)
	}
	return fmt.Sprintf("%T(%v)", v, v)
}

// expectation of the reference model
type expect struct {
	err       bool // an Ego error is required
	val       any  // required value (exact dynamic type), when !err && judged
	typeOnly  string
	judged    bool   // false: only "no Go panic" and error-ness per errJudged
	errJudged bool   // error-ness is specified
	why       string // which documented rule
}

func promoted(a, b string) (string, bool) {
	if a == b {
		return a, true
	}
	ia, ib := isInt(a), isInt(b)
	if ia && ib {
		// `int`/`uint` are distinct kinds of the same width as int64/uint64:
		// which of the two wins is not specified.
		if a == "int" || b == "int" || a == "uint" || b == "uint" {
			return "", false
		}
		if isUnsigned(a) == isUnsigned(b) && bits(a) != bits(b) {
			if bits(a) > bits(b) {
				return a, true
			}
			return b, true
		}
		return "", false
	}
	small := func(t string) bool { return (isInt(t) && bits(t) <= 32) || t == "float32" }
	if a == "float64" && small(b) {
		return "float64", true
	}
	if b == "float64" && small(a) {
		return "float64", true
	}
	return "", false
}

func model(c Case) expect {
	x := mk(c.T, c.X)
	strict := c.Mode == "strict"
	switch c.Form {
	case "neg":
		if isUnsigned(c.T) {
			return expect{why: "unary minus on unsigned: not judged"}
		}
		return expect{val: goNeg(x), judged: true, errJudged: true, why: "unary minus is Go's negation and keeps the type"}
	case "incdec", "binconst", "constbin", "opassign", "assignbin":
		k := c.K
		if c.Form == "incdec" {
			k = "1"
		}
		kv, lossless := adapt(c.T, k)
		if !lossless {
			if strict {
				return expect{err: true, errJudged: true, judged: true, why: "strict: a constant adapts only losslessly"}
			}
			if kv == nil {
				return expect{why: "lenient adaptation of an out-of-range constant: not specified"}
			}
		}
		a, b := x, kv
		if c.Form == "constbin" {
			a, b = kv, x
		}
		r, ok := goOp(c.Op, a, b)
		if !ok {
			return expect{why: "division by zero: outside C03"}
		}
		return expect{val: r, judged: true, errJudged: true, why: "constant adapts to the variable's type; result keeps the type and wraps like Go"}
	case "binvar":
		y := mk(c.YT, c.Y)
		if c.T == c.YT {
			r, ok := goOp(c.Op, x, y)
			if !ok {
				return expect{why: "division by zero: outside C03"}
			}
			return expect{val: r, judged: true, errJudged: true, why: "same-type operands keep the type and wrap like Go"}
		}
		if strict {
			return expect{err: true, errJudged: true, judged: true, why: "strict: two typed operands of different kinds are rejected"}
		}
		pt, ok := promoted(c.T, c.YT)
		if (c.Op == "/" || c.Op == "%") && isZero(y) {
			return expect{why: "division by zero: outside C03"}
		}
		if !ok {
			return expect{err: false, errJudged: true, why: "promotion target not specified for this pair; must not fail"}
		}
		r, ok2 := goOp(c.Op, conv(pt, x), conv(pt, y))
		if !ok2 {
			return expect{why: "division by zero: outside C03"}
		}
		return expect{val: r, judged: true, errJudged: true, why: "dynamic/relaxed: promoted to the type losing least precision (" + pt + ")"}
	}
	panic("form " + c.Form)
}

func source(c Case) (src, result string) {
	var b strings.Builder
	b.WriteString("func main() {\n x := gx\n")
	stmt := ""
	result = "x"
	switch c.Form {
	case "neg":
		stmt, result = "r := -x", "r"
	case "incdec":
		stmt = "x" + c.Op + c.Op
	case "binconst":
		stmt, result = "r := x "+c.Op+" "+c.K, "r"
	case "constbin":
		stmt, result = "r := "+c.K+" "+c.Op+" x", "r"
	case "opassign":
		stmt = "x " + c.Op + "= " + c.K
	case "assignbin":
		stmt = "x = x " + c.Op + " " + c.K
	case "binvar":
		b.WriteString(" y := gy\n")
		stmt, result = "r := x "+c.Op+" y", "r"
	}
	b.WriteString(" " + stmt + "\n vout(" + result + ")\n}\n")
	return b.String(), result
}

func oracle(c Case) vkit.Outcome {
	var out vkit.Outcome
	exp := model(c)
	src, _ := source(c)
	var got []any
	fn := data.Function{
		Declaration: &data.Declaration{Name: "vout", Parameters: []data.Parameter{{Name: "v", Type: data.InterfaceType}}},
		Value: func(s *symbols.SymbolTable, args data.List) (any, error) {
			got = append(got, args.Get(0))
			return nil, nil
		},
	}
	res := egorun.RunWith(src, egorun.Config{Types: c.Mode, Optimize: c.Opt, Extensions: true, EntryPoint: "main"}, &egorun.Hooks{
		Before: func(st *symbols.SymbolTable) {
			st.SetAlways("gx", mk(c.T, c.X))
			if c.Form == "binvar" {
				st.SetAlways("gy", mk(c.YT, c.Y))
			}
			st.SetAlways("vout", fn)
		},
	})
	boundary := func(t, v string) bool {
		vs := valuesFor(t)
		if isInt(t) {
			return v != "0" && v != "1" && v != "5" && v != "-1" && v != "-7" && v != "100"
		}
		_ = vs
		return v != "0" && v != "1" && v != "-1" && v != "2.5"
	}
	out.NonTrivial = (c.T != "int" && c.T != "float64") || boundary(c.T, c.X)
	optc := "o01"
	if c.Opt >= 2 {
		optc = "o23"
	}
	out.Labels = []string{"form=" + c.Form + " " + c.Mode, "T=" + c.T, "judged=" + fmt.Sprint(exp.judged)}
	desc := fmt.Sprintf("%s | mode=%s opt=%d x=%s(%s)", strings.TrimSpace(strings.ReplaceAll(src, "\n", "; ")), c.Mode, c.Opt, c.T, c.X)
	if c.Form == "binvar" {
		desc += fmt.Sprintf(" y=%s(%s)", c.YT, c.Y)
	}
	sigBase := fmt.Sprintf("%s op=%s T=%s mode=%s %s", c.Form, c.Op, c.T, c.Mode, optc)
	if c.Form == "binvar" {
		sigBase += " YT=" + c.YT
	}
	if res.GoPanic != "" {
		out.Fail = &vkit.Failure{Sig: "gopanic " + sigBase, Observed: desc + " => Go panic: " + res.GoPanic + "\n" + res.Stack, Expected: "no Go panic"}
		return out
	}
	failed := res.CompileErr != "" || res.RunErr != ""
	errText := res.CompileErr + res.RunErr
	if !exp.errJudged {
		return out
	}
	if exp.err {
		if !failed {
			g := "nothing"
			if len(got) > 0 {
				g = show(got[0])
			}
			out.Fail = &vkit.Failure{Sig: "accepted " + sigBase + lossyClass(c), Observed: desc + " => ran, result " + g, Expected: "an error (" + exp.why + ")"}
		}
		return out
	}
	if failed {
		out.Fail = &vkit.Failure{Sig: "rejected " + sigBase + lossyClass(c), Observed: desc + " => error: " + errText, Expected: wantText(exp) + " (" + exp.why + ")"}
		return out
	}
	if len(got) != 1 {
		out.Fail = &vkit.Failure{Sig: "noresult " + sigBase, Observed: desc + fmt.Sprintf(" => %d results, stdout %q", len(got), res.Stdout), Expected: "one result"}
		return out
	}
	if !exp.judged {
		return out
	}
	if !same(got[0], exp.val) {
		kind := "value"
		if typeName(got[0]) != typeName(exp.val) {
			kind = "type got=" + typeName(got[0])
		}
		out.Fail = &vkit.Failure{Sig: kind + " " + sigBase + lossyClass(c), Observed: desc + " => " + show(got[0]), Expected: show(exp.val) + " (" + exp.why + ")"}
	}
	return out
}

func lossyClass(c Case) string {
	if c.K == "" {
		return ""
	}
	_, lossless := adapt(c.T, c.K)
	if lossless {
		return ""
	}
	if strings.Contains(c.K, ".") {
		return " const=fractional"
	}
	return " const=overflow"
}

func wantText(e expect) string {
	if e.judged {
		return show(e.val)
	}
	return "no error"
}

var opsFor = func(t string) []string {
	if isInt(t) {
		return []string{"+", "-", "*", "/", "%"}
	}
	return []string{"+", "-", "*", "/"}
}

var modes = []string{"dynamic", "relaxed", "strict"}

func gen(t *rapid.T) Case {
	c := Case{Mode: rapid.SampledFrom(modes).Draw(t, "mode"), Opt: rapid.IntRange(0, 3).Draw(t, "opt")}
	c.T = rapid.SampledFrom(allTypes).Draw(t, "T")
	c.X = rapid.SampledFrom(valuesFor(c.T)).Draw(t, "x")
	c.Form = rapid.SampledFrom([]string{"neg", "incdec", "incdec", "binconst", "constbin", "opassign", "assignbin", "binvar", "binvar"}).Draw(t, "form")
	switch c.Form {
	case "neg":
	case "incdec":
		c.Op = rapid.SampledFrom([]string{"+", "-"}).Draw(t, "op")
	case "opassign":
		c.Op = rapid.SampledFrom([]string{"+", "-", "*", "/"}).Draw(t, "op")
		c.K = rapid.SampledFrom(constsFor(c.T)).Draw(t, "k")
	case "binconst", "constbin", "assignbin":
		c.Op = rapid.SampledFrom(opsFor(c.T)).Draw(t, "op")
		c.K = rapid.SampledFrom(constsFor(c.T)).Draw(t, "k")
	case "binvar":
		c.Op = rapid.SampledFrom(opsFor(c.T)).Draw(t, "op")
		if rapid.Bool().Draw(t, "sameType") {
			c.YT = c.T
		} else {
			c.YT = rapid.SampledFrom(allTypes).Draw(t, "YT")
		}
		if !isInt(c.YT) && c.Op == "%" {
			c.Op = "*"
		}
		c.Y = rapid.SampledFrom(valuesFor(c.YT)).Draw(t, "y")
	}
	return c
}

// enumerate lists the finite domain completely (thorough tier).
func enumerate() []Case {
	var cs []Case
	for _, mode := range modes {
		for _, opt := range []int{0, 1, 2, 3} {
			for _, t := range allTypes {
				for _, x := range valuesFor(t) {
					cs = append(cs, Case{Mode: mode, Opt: opt, T: t, X: x, Form: "neg"})
					for _, op := range []string{"+", "-"} {
						cs = append(cs, Case{Mode: mode, Opt: opt, T: t, X: x, Form: "incdec", Op: op})
					}
					for _, k := range constsFor(t) {
						for _, op := range opsFor(t) {
							cs = append(cs, Case{Mode: mode, Opt: opt, T: t, X: x, Form: "binconst", Op: op, K: k})
							cs = append(cs, Case{Mode: mode, Opt: opt, T: t, X: x, Form: "assignbin", Op: op, K: k})
							if op != "%" {
								cs = append(cs, Case{Mode: mode, Opt: opt, T: t, X: x, Form: "opassign", Op: op, K: k})
							}
						}
						cs = append(cs, Case{Mode: mode, Opt: opt, T: t, X: x, Form: "constbin", Op: "-", K: k})
					}
				}
			}
		}
		// typed pairs: every ordered pair of types, three value pairs, at
		// two optimizer levels
		for _, opt := range []int{0, 2} {
			for _, t := range allTypes {
				for _, yt := range allTypes {
					xs, ys := valuesFor(t), valuesFor(yt)
					for i := 0; i < 3; i++ {
						x, y := xs[(i*3+1)%len(xs)], ys[(i*5+2)%len(ys)]
						for _, op := range opsFor(t) {
							if op == "%" && !isInt(yt) {
								continue
							}
							cs = append(cs, Case{Mode: mode, Opt: opt, T: t, X: x, Form: "binvar", Op: op, YT: yt, Y: y})
						}
					}
				}
			}
		}
	}
	return cs
}

func TestC03(t *testing.T) {
	_ = cmplx.Abs
	spec := vkit.Spec[Case]{
		ID:    "C03",
		Level: "exploration",
		Rule: "cases = (type of x in 14 numeric types) x (boundary value) x (form: -x, x++/x--, x op K, K op x, x op= K, x = x op K, x op y) x operator x " +
			"(untyped constant K incl. fractional and out-of-range, or typed y of any numeric type) x type mode x optimizer level 0..3; " +
			"oracle = reference model of docs/LANGUAGE.md#typeConversion computed with Go's own arithmetic on the exact Go types. " +
			"Non-trivial: T is not int/float64, or x is a boundary value; distinct by the full tuple. quick samples with rapid, thorough enumerates the whole finite space.",
		Assumptions: []string{
			"operands enter and leave as Go values through the symbol table and a native callback, so literals and fmt are not on the path",
			"promotion target asserted only for unambiguous pairs (see package comment); other mixed pairs only checked for error-ness",
		},
		Oracle:    oracle,
		MaxRounds: 6,
	}
	if vkit.Tier() == "thorough" {
		spec.Fixed = enumerate
		spec.Exhaustive = true
	} else {
		spec.Gen = gen
		spec.Quick = 2500
	}
	vkit.Run(t, spec)
}
