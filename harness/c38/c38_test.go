package c38

// C38 "Every user-visible message has localized text".
//
// Domain (finite part): every constant message key that the Go sources of the
// tree under test ($VERIF_REPO, default /repo; tests and tools/ skipped) pass
// to a message lookup entry point, with the prefix that entry point adds
// (scan_test.go quotes the code for each rule), × every shipped language
// (internal/i18n/languages/messages_<lang>.txt). One case per (key, language).
// Domain (generated part): Accept-Language header values.
//
// Preconditions / scope decisions taken from the code, the docs and callers:
//   - Only constant keys (literals, constant concatenations, named constants).
//     Call sites whose key is computed at run time are counted
//     (coverage: dynamic_sites) and not judged.
//   - docs/internals/LOCALIZATION.md: "A language file can be incomplete … a
//     lookup for a given language will check the English localization"; and
//     tools/lang/compile.go drops translations identical to English from the
//     generated map. So a key absent from a non-English file is NOT a
//     violation; only English must have every key. A non-English entry that
//     is present must be non-empty and use the English placeholder names.
//   - i18n.translate returns the key itself when English has no entry. That is
//     the documented last resort, and it is exactly what the property forbids
//     for a key the code emits: the user would read "error.foo.bar".
//   - Entry points that pass unknown text through on purpose (ui.Say's format
//     strings, errors.Message("free text"), cli ParmDesc such as
//     "table-name [table-name...]") are judged only for key-shaped constants
//     (dot separated words without blanks); ui.Log applies the code's own rule
//     (contains a dot, no blank ⇒ key, "log." prefixed).
//   - internal/errors/messages.go: the flow-control signals whose key starts
//     with "_" are marked "THESE SHOULD NOT BE LOCALIZED" and are excluded.
//   - Log messages are in scope: docs/API.md says the text form of the server
//     log "is localized on the server side", and the [log] section exists in
//     all four language files.
//   - Placeholders: "{{name}}" or "{{name|format…}}" as parsed by
//     github.com/tucats/subs (name = text before the first "|"); the property
//     compares the *set of names*, not formats or order.
//   - Shipped languages are the messages_<lang>.txt files; NegotiateLanguage
//     may return "" (documented: "let the server pick its own default") or one
//     of them.

import (
	"encoding/json"
	"fmt"
	"os"
	"path/filepath"
	"sort"
	"strings"
	"sync"
	"testing"

	"github.com/tucats/ego/internal/i18n"
	"github.com/tucats/ego/verif/vkit"
	"pgregory.net/rapid"
)

type Case struct {
	Kind   string `json:"kind"` // key | header | langs
	Family string `json:"family,omitempty"`
	Key    string `json:"key,omitempty"`
	Alt    string `json:"alt,omitempty"`
	Lang   string `json:"lang,omitempty"`
	Site   string `json:"site,omitempty"`
	Refs   int    `json:"refs,omitempty"`
	Header string `json:"header,omitempty"`
}

func repoRoot() string {
	if r := os.Getenv("VERIF_REPO"); r != "" {
		return r
	}
	return "/repo"
}

var (
	shippedOnce sync.Once
	shipped     []string
	shippedSet  map[string]bool
)

func shippedLangs() []string {
	shippedOnce.Do(func() {
		shippedSet = map[string]bool{}
		files, _ := filepath.Glob(filepath.Join(repoRoot(), "internal/i18n/languages", "messages_*.txt"))
		for _, f := range files {
			l := strings.TrimSuffix(strings.TrimPrefix(filepath.Base(f), "messages_"), ".txt")
			shipped = append(shipped, l)
			shippedSet[l] = true
		}
		sort.Strings(shipped)
	})
	return shipped
}

// placeholders mirrors subs.splitOutFormats/handleFormat: the names between
// "{{" and the first "|" or "}}".
func placeholders(text string) []string {
	set := map[string]bool{}
	for i, seg := range strings.Split(text, "{{") {
		if i == 0 || !strings.Contains(seg, "}}") {
			continue
		}
		expr := strings.SplitN(seg, "}}", 2)[0]
		name, _, _ := strings.Cut(expr, "|")
		set[name] = true
	}
	out := make([]string, 0, len(set))
	for k := range set {
		out = append(out, k)
	}
	sort.Strings(out)
	return out
}

var (
	mu      sync.Mutex
	failing = map[string]bool{}
	stats   scanStats
	scanned bool
	nKeys   = map[string]int{}
)

var (
	recOnce sync.Once
	rec     map[string]map[string]bool
)

// recordedKeys reads the optional "keys" lists of the C38 entries of the
// known-findings file (VERIF_KNOWN, default <root>/known_findings.json):
// signature -> set of keys recorded for it.
func recordedKeys() map[string]map[string]bool {
	recOnce.Do(func() {
		rec = map[string]map[string]bool{}
		p := os.Getenv("VERIF_KNOWN")
		if p == "" {
			p = filepath.Join(vkit.Root(), "known_findings.json")
		}
		b, err := os.ReadFile(p)
		if err != nil {
			return
		}
		var kf struct {
			Findings []struct {
				Property string   `json:"property"`
				Sig      string   `json:"sig"`
				Keys     []string `json:"keys"`
			} `json:"findings"`
		}
		if json.Unmarshal(b, &kf) != nil {
			return
		}
		for _, f := range kf.Findings {
			if f.Property == "C38" && len(f.Keys) > 0 {
				m := map[string]bool{}
				for _, k := range f.Keys {
					m[k] = true
				}
				rec[f.Sig] = m
			}
		}
	})
	return rec
}

func resolved(text, key string) bool { return text != "" && text != key }

func keyOracle(c Case) vkit.Outcome {
	var out vkit.Outcome
	out.Key = "key:" + c.Family + ":" + c.Key + ":" + c.Lang
	// The domain is "every key the code emits". A saved case whose key the
	// code no longer emits (the finding was repaired by changing the call
	// site) is outside it.
	if scannedTree(); !emitted[c.Family+"\x00"+c.Key] {
		out.Skip = "key is not emitted by the code (stale saved case)"
		return out
	}
	// the catalog key that is really used: Key, or Alt when English has no Key
	key := c.Key
	if c.Alt != "" && !resolved(i18n.Text("en", c.Key), c.Key) {
		key = c.Alt
	}
	en := i18n.Text("en", key)
	enOK := resolved(en, key)
	tx := i18n.Text(c.Lang, key)
	txOK := resolved(tx, key)
	enPH := placeholders(en)
	anyOther := false
	for _, l := range shippedLangs() {
		if l != "en" && i18n.Text(l, key) != en {
			anyOther = true
		}
	}
	out.NonTrivial = enOK && (len(enPH) > 0 || anyOther)
	how := "translated"
	if c.Lang == "en" {
		how = "english"
	} else if tx == en {
		how = "english-fallback-or-identical"
	}
	ph := "no-placeholder"
	if len(enPH) > 0 {
		ph = "placeholder"
	}
	out.Labels = []string{"key family=" + c.Family, "key lang=" + c.Lang + " " + how, "key " + ph}
	if key != c.Key {
		out.Labels = append(out.Labels, "key resolved through alternate prefix opt.")
	}
	fail := func(sig, obs, exp string) {
		// a recorded finding lists its keys; the same failure for a key that
		// is not on the list is a new defect and gets its own signature
		if ks, ok := recordedKeys()[sig]; ok && !ks[c.Key] {
			sig += " (key not in the recorded list)"
		}
		out.Fail = &vkit.Failure{Sig: sig, Observed: obs, Expected: exp}
		mu.Lock()
		failing[fmt.Sprintf("%s | %s | %s", sig, c.Key, c.Site)] = true
		mu.Unlock()
	}
	switch {
	case !enOK:
		// same root cause whichever language the case was asked in: the key
		// has no English entry, so every language shows the raw key
		fail("unresolved family="+c.Family+" lang=en",
			fmt.Sprintf("key %q (family %s, first used at %s, %d reference(s)): i18n.Text(\"en\", key) = %q; i18n.Text(%q, key) = %q", c.Key, c.Family, c.Site, c.Refs, en, c.Lang, tx),
			"non-empty English text different from the key")
	case !txOK:
		fail("translation-empty family="+c.Family+" lang="+c.Lang,
			fmt.Sprintf("key %q: i18n.Text(%q, key) = %q while English is %q", key, c.Lang, tx, en),
			"non-empty text (own entry or English fallback)")
	case c.Lang != "en":
		if got := placeholders(tx); strings.Join(got, ",") != strings.Join(enPH, ",") {
			fail("placeholder-mismatch family="+c.Family+" lang="+c.Lang,
				fmt.Sprintf("key %q: %s placeholders {%s} in %q; English placeholders {%s} in %q", key, c.Lang, strings.Join(got, ","), tx, strings.Join(enPH, ","), en),
				"the same set of {{placeholder}} names as the English text")
		}
	}
	return out
}

func headerOracle(c Case) vkit.Outcome {
	var out vkit.Outcome
	shippedLangs()
	got := i18n.NegotiateLanguage(c.Header)
	// classification (independent tokenisation, only for labels / NT)
	ranges, wild, withQ, region := 0, false, false, false
	hasShipped := false
	for _, item := range strings.Split(c.Header, ",") {
		tag, params, _ := strings.Cut(item, ";")
		tag = strings.TrimSpace(tag)
		if strings.Contains(params, "q=") {
			withQ = true
		}
		switch {
		case tag == "":
		case tag == "*":
			wild = true
		default:
			ranges++
			prim, _, hasRegion := strings.Cut(tag, "-")
			region = region || hasRegion
			if shippedSet[strings.ToLower(prim)] {
				hasShipped = true
			}
		}
	}
	out.NonTrivial = ranges >= 1
	res := "result=shipped"
	if got == "" {
		res = "result=empty"
	} else if !shippedSet[got] {
		res = "result=NOT-SHIPPED"
	}
	size := "len<100"
	if len(c.Header) >= 10000 {
		size = "len>=10000"
	} else if len(c.Header) >= 100 {
		size = "len 100..9999"
	}
	out.Labels = []string{"header " + res, "header " + size,
		fmt.Sprintf("header ranges=%s wildcard=%v q=%v region=%v names-shipped=%v", bucket(ranges), wild, withQ, region, hasShipped)}
	if got != "" && !shippedSet[got] {
		out.Fail = &vkit.Failure{Sig: "negotiate returns a language that is not shipped",
			Observed: fmt.Sprintf("NegotiateLanguage(%q) = %q", clip(c.Header, 300), got),
			Expected: fmt.Sprintf("\"\" or one of %v", shipped)}
	}
	return out
}

func bucket(n int) string {
	switch {
	case n == 0:
		return "0"
	case n == 1:
		return "1"
	case n <= 5:
		return "2..5"
	default:
		return ">5"
	}
}

func clip(s string, n int) string {
	if len(s) > n {
		return s[:n] + "…"
	}
	return s
}

func langsOracle(c Case) vkit.Outcome {
	var out vkit.Outcome
	out.Key = "langs"
	out.NonTrivial = true
	out.Labels = []string{"langs"}
	shippedLangs()
	var extra []string
	for _, l := range i18n.SupportedLanguages() {
		if !shippedSet[l] {
			extra = append(extra, l)
		}
	}
	if len(extra) > 0 || !shippedSet["en"] {
		out.Fail = &vkit.Failure{Sig: "SupportedLanguages is not a subset of the shipped language files",
			Observed: fmt.Sprintf("SupportedLanguages()=%v, language files=%v", i18n.SupportedLanguages(), shipped),
			Expected: "every negotiable language has a messages_<lang>.txt file, and English is shipped"}
	}
	return out
}

func oracle(c Case) vkit.Outcome {
	switch c.Kind {
	case "key":
		return keyOracle(c)
	case "header":
		return headerOracle(c)
	case "langs":
		return langsOracle(c)
	}
	return vkit.Outcome{Skip: "unknown kind"}
}

// fixed: the enumerated part. One case per (family, key, language).
var (
	scanOnce  sync.Once
	scanRefs  []Ref
	scanSt    scanStats
	emitted   map[string]bool
)

// scanned returns the keys the tree emits (one scan per process).
func scannedTree() ([]Ref, scanStats) {
	scanOnce.Do(func() {
		scanRefs, scanSt = scanTree(repoRoot())
		emitted = map[string]bool{}
		for _, r := range scanRefs {
			emitted[r.Family+"\x00"+r.Key] = true
		}
	})
	return scanRefs, scanSt
}

func fixed() []Case {
	refs, st := scannedTree()
	type agg struct {
		ref  Ref
		refs int
	}
	var order []string
	byKey := map[string]*agg{}
	for _, r := range refs {
		k := r.Family + "\x00" + r.Key
		if a, ok := byKey[k]; ok {
			a.refs++
			continue
		}
		byKey[k] = &agg{ref: r, refs: 1}
		order = append(order, k)
	}
	mu.Lock()
	stats, scanned = st, true
	for _, k := range order {
		nKeys[byKey[k].ref.Family]++
	}
	mu.Unlock()
	cases := []Case{{Kind: "langs"}}
	for _, k := range order {
		a := byKey[k]
		for _, l := range shippedLangs() {
			cases = append(cases, Case{Kind: "key", Family: a.ref.Family, Key: a.ref.Key, Alt: a.ref.Alt, Lang: l, Site: a.ref.Site, Refs: a.refs})
		}
	}
	return cases
}

// ---- Accept-Language generator ----

var otherLangs = []string{"de", "zh", "pt", "it", "ru", "ko", "nl", "sv", "ar", "he", "tlh", "x", "i", "e", "j", "enx", "fra", "jap", "esp", "e-n", "en_US", "fr_FR.UTF-8", "c", "posix"}
var regions = []string{"US", "GB", "CA", "FR", "ES", "MX", "JP", "419", "Latn-US", "Hant-TW", "x-private", "", "-", "u-co-phonebk"}
var qValues = []string{"1", "1.0", "1.000", "0", "0.0", "0.000", "0.5", "0.8", "0.9", "0.1", "0.001", "0.999", "1.1", "2", "-1", "-0.5", "1e3", "1e-3", "NaN", "Inf", "-Inf", "+Inf", "", " ", "abc", "0,5", "0x1p-2", ".5", "5.", "1_0", "٠.٥"}

func genTag(t *rapid.T) string {
	var prim string
	switch rapid.IntRange(0, 9).Draw(t, "tagclass") {
	case 0, 1, 2, 3:
		prim = rapid.SampledFrom(shippedLangs()).Draw(t, "shipped")
	case 4, 5:
		prim = rapid.SampledFrom(otherLangs).Draw(t, "other")
	case 6:
		return "*"
	case 7:
		prim = rapid.StringMatching(`[a-zA-Z]{1,8}`).Draw(t, "alpha")
	default:
		prim = rapid.StringN(0, 12, -1).Draw(t, "garbage")
	}
	if rapid.Bool().Draw(t, "upper") {
		if rapid.Bool().Draw(t, "allupper") {
			prim = strings.ToUpper(prim)
		} else if len(prim) > 0 {
			prim = strings.ToUpper(prim[:1]) + prim[1:]
		}
	}
	if rapid.IntRange(0, 2).Draw(t, "hasregion") == 0 {
		prim += "-" + rapid.SampledFrom(regions).Draw(t, "region")
	}
	return prim
}

func genWS(t *rapid.T, label string) string {
	return rapid.SampledFrom([]string{"", "", "", " ", "  ", "\t", " \t "}).Draw(t, label)
}

func genItem(t *rapid.T) string {
	item := genWS(t, "ws1") + genTag(t) + genWS(t, "ws2")
	n := rapid.SampledFrom([]int{0, 0, 1, 1, 1, 2, 3}).Draw(t, "nparams")
	for i := 0; i < n; i++ {
		var p string
		switch rapid.IntRange(0, 5).Draw(t, "paramclass") {
		case 0, 1, 2, 3:
			p = "q=" + rapid.SampledFrom(qValues).Draw(t, "q")
		case 4:
			p = rapid.SampledFrom([]string{"Q=0.5", "q =0.5", "q= 0.5", "q", "q=", "=", "level=1", "charset=utf-8", "q=0.5=0.7", "qq=1"}).Draw(t, "oddparam")
		default:
			p = fmt.Sprintf("q=%.3f", rapid.Float64Range(0, 1).Draw(t, "qf"))
		}
		item += ";" + genWS(t, "ws3") + p + genWS(t, "ws4")
	}
	return item
}

func genHeader(t *rapid.T) string {
	switch rapid.IntRange(0, 9).Draw(t, "hclass") {
	case 0: // what browsers send
		return rapid.SampledFrom([]string{
			"fr-CA,fr;q=0.9,en;q=0.8,*;q=0.1", "en-US,en;q=0.9", "ja,en-US;q=0.9,en;q=0.8", "es-419,es;q=0.9",
			"de-DE,de;q=0.9,en;q=0.1", "*", "*;q=0.5", "", " ", "en", "EN", "fr;q=0", "de, *;q=0.1", "zh-Hant-TW,zh;q=0.9",
			"da, en-gb;q=0.8, en;q=0.7", "fr;q=0.5,es;q=0.5", "fr;q=NaN,es;q=NaN", ",", ";", ",;,;", "-", "-en", "en-", "--",
		}).Draw(t, "corpus")
	case 1: // raw garbage
		return rapid.StringN(0, 200, -1).Draw(t, "raw")
	case 2: // garbage built from the syntax characters
		return rapid.StringOfN(rapid.SampledFrom([]rune(",;=-*q.01 \taeEfFjJsSnNrR\x00\n\ré日")), 0, 120, -1).Draw(t, "syntaxsoup")
	case 3: // very long: many items
		n := rapid.SampledFrom([]int{50, 200, 1000, 3000}).Draw(t, "nitems")
		base := rapid.SliceOfN(rapid.Custom(genItem), 1, 6).Draw(t, "base")
		var b strings.Builder
		for i := 0; i < n; i++ {
			if i > 0 {
				b.WriteString(",")
			}
			b.WriteString(base[i%len(base)])
		}
		if rapid.Bool().Draw(t, "tail") {
			b.WriteString("," + genItem(t))
		}
		return b.String()
	case 4: // very long: one long tag or long parameter
		n := rapid.SampledFrom([]int{300, 5000, 70000}).Draw(t, "biglen")
		unit := rapid.SampledFrom([]string{"a", "en", "-", "fr-", ";", ";q=1", " ", "é", "q=0.5;"}).Draw(t, "unit")
		s := strings.Repeat(unit, n/len(unit)+1)
		return genItem(t) + "," + s + "," + genItem(t)
	default:
		items := rapid.SliceOfN(rapid.Custom(genItem), 0, 8).Draw(t, "items")
		sep := rapid.SampledFrom([]string{",", ", ", " , ", ",,", ",\t"}).Draw(t, "sep")
		return strings.Join(items, sep)
	}
}

func TestC38(t *testing.T) {
	if len(shippedLangs()) == 0 || !shippedSet["en"] {
		t.Fatalf("no language files under %s/internal/i18n/languages", repoRoot())
	}
	vkit.Run(t, vkit.Spec[Case]{
		ID:    "C38",
		Level: "exploration",
		Rule: "enumerated: every constant key passed in the Go sources (tests and tools/ excluded) to i18n.T/Text/L/M/E(+Lang), errors.Message (ErrXxx declarations and key-shaped constants), " +
			"ui.Log/WriteLog, ui.Say/SayAlways, the debugger's say, and cli.Option Description/ParmDesc, with the prefix the entry point adds, x every shipped language (one case per key and language; complete for constant keys, see keys_by_family); " +
			"English must resolve to non-empty text other than the key, every other language must give non-empty text (own entry or English fallback) with the English {{placeholder}} name set. " +
			"generated: Accept-Language headers (browser corpus, tag lists with q-values/wildcards/regions/odd parameters, syntax soup, raw unicode garbage, up to 70 kB long); NegotiateLanguage must return \"\" or a shipped language. " +
			"Non-trivial: key case = the English text has a placeholder or some language has its own entry; header case = at least one non-wildcard language range. Distinct by (family,key,language) / header text.",
		Assumptions: []string{
			"keys computed at run time are out of scope (counted in dynamic_sites)",
			"a key missing from a non-English file is the documented English fallback, not a violation",
			"constants that are not key-shaped are literal text for ui.Say, errors.Message and cli ParmDesc/Description (counted in free_text_sites)",
			"shipped languages = internal/i18n/languages/messages_<lang>.txt",
		},
		Gen:      func(t *rapid.T) Case { return Case{Kind: "header", Header: genHeader(t)} },
		Oracle:   oracle,
		Fixed:    fixed,
		Quick:    15000,
		Thorough: 150000,
		Extra: func() map[string]any {
			mu.Lock()
			defer mu.Unlock()
			if !scanned {
				return nil
			}
			total, sites, dyn, free, notl := 0, 0, 0, 0, 0
			kb := map[string]any{}
			for f, n := range nKeys {
				kb[f] = n
				total += n
			}
			for _, n := range stats.Sites {
				sites += n
			}
			for _, n := range stats.Dynamic {
				dyn += n
			}
			for _, n := range stats.FreeText {
				free += n
			}
			for _, n := range stats.NotLocal {
				notl += n
			}
			m := map[string]any{}
			// numbers are added up over the shards by the driver: only
			// shard 0 reports them (every shard scans the same tree)
			if vkit.ShardIndex() == 0 {
				m = map[string]any{
					"keys_enumerated":         total,
					"key_language_cases":      total * len(shipped),
					"languages":               shipped,
					"keys_by_family":          kb,
					"constant_sites":          sites,
					"dynamic_sites":           dyn,
					"free_text_sites":         free,
					"not_localized_by_design": notl,
					"go_files_scanned":        stats.Files,
					"dynamic_site_list":       stats.DynamicList,
				}
			}
			if len(failing) > 0 {
				var fl []string
				for k := range failing {
					fl = append(fl, k)
				}
				sort.Strings(fl)
				m["failing_keys"] = fl
			}
			return m
		},
	})
}

// TestC38Inventory prints the scan result; development aid only
// (go test -run TestC38Inventory -v), not run by the driver.
func TestC38Inventory(t *testing.T) {
	if os.Getenv("C38_INVENTORY") == "" {
		t.Skip("set C38_INVENTORY=1")
	}
	refs, st := scanTree(repoRoot())
	fmt.Printf("files=%d sites=%v dynamic=%v free=%v notlocal=%v\n", st.Files, st.Sites, st.Dynamic, st.FreeText, st.NotLocal)
	for _, d := range st.DynamicList {
		fmt.Println("DYNAMIC", d)
	}
	for _, d := range st.FreeList {
		fmt.Println("FREE", d)
	}
	for _, r := range refs {
		fmt.Printf("REF %s\t%s\t%s\t%s\n", r.Family, r.Key, r.Alt, r.Site)
	}
}
