package c38

// Source scan: collects every *constant* message key that the Go sources of
// the tree under test hand to one of ego's message lookup entry points,
// together with the catalog key the entry point really looks up (each entry
// point adds its own prefix; the rules below are copied from the code and
// quoted next to each rule).

import (
	"fmt"
	"go/ast"
	"go/parser"
	"go/token"
	"os"
	"path/filepath"
	"regexp"
	"sort"
	"strconv"
	"strings"
)

const modPath = "github.com/tucats/ego"

// Ref is one constant key found in the source.
type Ref struct {
	Family string // entry point family, e.g. "ui.Log"
	Key    string // catalog key looked up first
	Alt    string // second catalog key tried when Key is absent (cli help only)
	Site   string // file:line relative to the tree
}

type scanStats struct {
	Files       int
	Sites       map[string]int // family -> constant call sites
	Dynamic     map[string]int // family -> call sites whose key is not a constant
	FreeText    map[string]int // family -> constant arguments the entry point treats as literal text
	NotLocal    map[string]int // family -> constants that are deliberately not localized
	DynamicList []string
	FreeList    []string
}

type pkgInfo struct {
	dir    string
	files  map[string]*ast.File
	consts map[string]ast.Expr
	// import alias -> import path, per file
	imports map[*ast.File]map[string]string
}

type scanner struct {
	root  string
	fset  *token.FileSet
	pkgs  map[string]*pkgInfo // by directory
	refs  []Ref
	stats scanStats
	// ErrXxx declarations of internal/errors and how often each name is
	// referenced anywhere else in the non-test sources
	errDecls []errDecl
	errUses  map[string]int
}

type errDecl struct {
	name, key string
	pos       token.Pos
}

// keyShaped: what a catalog key looks like (dot-separated words, no blanks,
// no format verbs). Entry points that pass unknown text through unchanged
// (ui.Say, errors.Message, cli descriptions) are only held to the property for
// constants of this shape; anything else is literal text by design.
var keyShaped = regexp.MustCompile(`^[A-Za-z_][A-Za-z0-9_\-]*(\.[A-Za-z0-9_\-@]+)+$`)

func newScanner(root string) *scanner {
	return &scanner{root: root, fset: token.NewFileSet(), pkgs: map[string]*pkgInfo{}, errUses: map[string]int{},
		stats: scanStats{Sites: map[string]int{}, Dynamic: map[string]int{}, FreeText: map[string]int{}, NotLocal: map[string]int{}}}
}

func (s *scanner) loadPkg(dir string) *pkgInfo {
	if p, ok := s.pkgs[dir]; ok {
		return p
	}
	p := &pkgInfo{dir: dir, files: map[string]*ast.File{}, consts: map[string]ast.Expr{}, imports: map[*ast.File]map[string]string{}}
	s.pkgs[dir] = p
	ents, err := os.ReadDir(dir)
	if err != nil {
		return p
	}
	for _, e := range ents {
		n := e.Name()
		if e.IsDir() || !strings.HasSuffix(n, ".go") || strings.HasSuffix(n, "_test.go") {
			continue
		}
		path := filepath.Join(dir, n)
		f, err := parser.ParseFile(s.fset, path, nil, parser.SkipObjectResolution)
		if err != nil {
			panic(fmt.Sprintf("c38 scan: cannot parse %s: %v", path, err))
		}
		p.files[path] = f
		imp := map[string]string{}
		for _, is := range f.Imports {
			ip, _ := strconv.Unquote(is.Path.Value)
			name := ip[strings.LastIndex(ip, "/")+1:]
			if is.Name != nil {
				name = is.Name.Name
			}
			imp[name] = ip
		}
		p.imports[f] = imp
		// every const declaration of the file, package level or local
		ast.Inspect(f, func(n ast.Node) bool {
			gd, ok := n.(*ast.GenDecl)
			if !ok || gd.Tok != token.CONST {
				return true
			}
			for _, sp := range gd.Specs {
				vs := sp.(*ast.ValueSpec)
				for i, name := range vs.Names {
					if i < len(vs.Values) {
						if _, dup := p.consts[name.Name]; !dup {
							p.consts[name.Name] = vs.Values[i]
						}
					}
				}
			}
			return true
		})
	}
	return p
}

// constString evaluates e as a constant string: literals, concatenations,
// constants of the same package, constants of other packages of the module.
func (s *scanner) constString(p *pkgInfo, f *ast.File, e ast.Expr, depth int) (string, bool) {
	if depth > 12 {
		return "", false
	}
	switch v := e.(type) {
	case *ast.BasicLit:
		if v.Kind != token.STRING {
			return "", false
		}
		str, err := strconv.Unquote(v.Value)
		return str, err == nil
	case *ast.ParenExpr:
		return s.constString(p, f, v.X, depth+1)
	case *ast.BinaryExpr:
		if v.Op != token.ADD {
			return "", false
		}
		a, ok1 := s.constString(p, f, v.X, depth+1)
		b, ok2 := s.constString(p, f, v.Y, depth+1)
		return a + b, ok1 && ok2
	case *ast.Ident:
		if ce, ok := p.consts[v.Name]; ok {
			return s.constString(p, nil, ce, depth+1)
		}
	case *ast.SelectorExpr:
		id, ok := v.X.(*ast.Ident)
		if !ok || f == nil {
			return "", false
		}
		ip, ok := p.imports[f][id.Name]
		if !ok || !strings.HasPrefix(ip, modPath+"/") {
			return "", false
		}
		q := s.loadPkg(filepath.Join(s.root, strings.TrimPrefix(ip, modPath+"/")))
		if ce, ok := q.consts[v.Sel.Name]; ok {
			// constants of q may refer to q's own constants only through
			// plain identifiers (imports of q's files are not followed)
			return s.constString(q, nil, ce, depth+1)
		}
	}
	return "", false
}

type entry struct {
	family string
	arg    int
	rule   func(k string) (key string, isKey bool)
}

func prefixed(prefix string) func(string) (string, bool) {
	return func(k string) (string, bool) { return prefix + k, true }
}

// ui.FormatLogMessage: "if strings.Count(message, ".") > 0 &&
// strings.Count(message, " ") == 0 && !strings.HasPrefix(message, "log.")
// { message = "log." + message }", then i18n.T(message). Text without a dot
// or with a blank is printed as it is.
func logRule(k string) (string, bool) {
	if strings.Count(k, ".") > 0 && strings.Count(k, " ") == 0 {
		if !strings.HasPrefix(k, "log.") {
			k = "log." + k
		}
		return k, true
	}
	return k, false
}

// ui.SayAlways: "if strings.Index(format, ".") > 0 { format = i18n.T(format…) }";
// otherwise, and when there is no translation, the text is a fmt format.
func sayRule(k string) (string, bool) { return k, keyShaped.MatchString(k) }

// errors.Message(m) stores m; Error() renders i18n.ELang(lang,
// strings.TrimPrefix(m, "error.")), i.e. catalog key "error."+m, and falls
// back to m itself (free text) when there is none.
func errRule(k string) (string, bool) {
	k = strings.TrimPrefix(k, "error.")
	return "error." + k, keyShaped.MatchString("error." + k)
}

func asIs(k string) (string, bool) { return k, true }

var entries = map[string]map[string]entry{
	modPath + "/internal/i18n": {
		"T":     {"i18n.T", 0, asIs},
		"Text":  {"i18n.T", 1, asIs},
		"L":     {"i18n.L", 0, prefixed("label.")},
		"LLang": {"i18n.L", 1, prefixed("label.")},
		"M":     {"i18n.M", 0, prefixed("msg.")},
		"MLang": {"i18n.M", 1, prefixed("msg.")},
		"E":     {"i18n.E", 0, prefixed("error.")},
		"ELang": {"i18n.E", 1, prefixed("error.")},
	},
	modPath + "/internal/cli/ui": {
		"Log":       {"ui.Log", 1, logRule},
		"WriteLog":  {"ui.Log", 1, logRule},
		"Say":       {"ui.Say", 0, sayRule},
		"SayAlways": {"ui.Say", 0, sayRule},
	},
	modPath + "/internal/errors": {
		"Message": {"errors.Message", 0, errRule},
	},
}

func (s *scanner) rel(pos token.Pos) string {
	p := s.fset.Position(pos)
	r, err := filepath.Rel(s.root, p.Filename)
	if err != nil {
		r = p.Filename
	}
	return fmt.Sprintf("%s:%d", r, p.Line)
}

func (s *scanner) add(family, key, alt string, pos token.Pos) {
	s.refs = append(s.refs, Ref{Family: family, Key: key, Alt: alt, Site: s.rel(pos)})
	s.stats.Sites[family]++
}

func typeString(e ast.Expr) string {
	switch v := e.(type) {
	case *ast.Ident:
		return v.Name
	case *ast.SelectorExpr:
		if id, ok := v.X.(*ast.Ident); ok {
			return id.Name + "." + v.Sel.Name
		}
	case *ast.StarExpr:
		return typeString(v.X)
	case *ast.ArrayType:
		return "[]" + typeString(v.Elt)
	case *ast.MapType:
		return "[]" + typeString(v.Value)
	}
	return ""
}

func (s *scanner) scanPkg(dir string) {
	p := s.loadPkg(dir)
	relDir, _ := filepath.Rel(s.root, dir)
	pkgPath := modPath
	if relDir != "." {
		pkgPath = modPath + "/" + filepath.ToSlash(relDir)
	}
	paths := make([]string, 0, len(p.files))
	for path := range p.files {
		paths = append(paths, path)
	}
	sort.Strings(paths)
	for _, path := range paths {
		f := p.files[path]
		s.stats.Files++
		imp := p.imports[f]
		cliAlias := ""
		for a, ip := range imp {
			if ip == modPath+"/internal/cli/cli" {
				cliAlias = a
			}
		}
		optionType := ""
		if pkgPath == modPath+"/internal/cli/cli" {
			optionType = "Option"
		} else if cliAlias != "" {
			optionType = cliAlias + ".Option"
		}
		inherited := map[*ast.CompositeLit]string{}
		inErrDecl := map[*ast.CallExpr]bool{}
		declIdent := map[*ast.Ident]bool{}
		errAlias := map[string]bool{}
		for a, ip := range imp {
			if ip == modPath+"/internal/errors" {
				errAlias[a] = true
			}
		}
		ast.Inspect(f, func(n ast.Node) bool {
			switch v := n.(type) {
			case *ast.GenDecl:
				// var ErrXxx = Message("key") in package errors
				if pkgPath == modPath+"/internal/errors" && v.Tok == token.VAR {
					for _, sp := range v.Specs {
						vs := sp.(*ast.ValueSpec)
						for i, name := range vs.Names {
							if i >= len(vs.Values) || !strings.HasPrefix(name.Name, "Err") {
								continue
							}
							call, ok := vs.Values[i].(*ast.CallExpr)
							if !ok {
								continue
							}
							if id, ok := call.Fun.(*ast.Ident); ok && id.Name == "Message" && len(call.Args) == 1 {
								inErrDecl[call] = true
								k, ok := s.constString(p, f, call.Args[0], 0)
								if !ok {
									s.stats.Dynamic["errors.decl"]++
									continue
								}
								// "Return values used to signal flow change.
								// THESE SHOULD NOT BE LOCALIZED." (messages.go):
								// the keys that start with "_".
								if strings.HasPrefix(k, "_") {
									s.stats.NotLocal["errors.decl"]++
									continue
								}
								declIdent[name] = true
								s.errDecls = append(s.errDecls, errDecl{name: name.Name, key: "error." + strings.TrimPrefix(k, "error."), pos: call.Pos()})
							}
						}
					}
				}
			case *ast.SelectorExpr:
				if id, ok := v.X.(*ast.Ident); ok && errAlias[id.Name] && strings.HasPrefix(v.Sel.Name, "Err") {
					s.errUses[v.Sel.Name]++
				}
			case *ast.Ident:
				if pkgPath == modPath+"/internal/errors" && strings.HasPrefix(v.Name, "Err") && !declIdent[v] {
					s.errUses[v.Name]++
				}
			case *ast.CallExpr:
				if inErrDecl[v] {
					return true
				}
				var ent entry
				found := false
				switch fun := v.Fun.(type) {
				case *ast.SelectorExpr:
					if id, ok := fun.X.(*ast.Ident); ok {
						if ip, ok := imp[id.Name]; ok {
							if m, ok := entries[ip]; ok {
								ent, found = m[fun.Sel.Name]
							}
						}
					}
					// debugger: func (s *session) say(msgID string, …) → i18n.T(msgID)
					if !found && pkgPath == modPath+"/internal/language/debugger" && fun.Sel.Name == "say" {
						ent, found = entry{"debugger.say", 0, asIs}, true
					}
				case *ast.Ident:
					if m, ok := entries[pkgPath]; ok {
						ent, found = m[fun.Name]
					}
				}
				if !found || len(v.Args) <= ent.arg {
					return true
				}
				k, ok := s.constString(p, f, v.Args[ent.arg], 0)
				if !ok {
					// a nested lookup such as ui.Say(i18n.M("x")) is not a
					// dynamic key of ui.Say: the inner call is scanned itself
					if c, isCall := v.Args[ent.arg].(*ast.CallExpr); isCall {
						if se, ok := c.Fun.(*ast.SelectorExpr); ok {
							if id, ok := se.X.(*ast.Ident); ok && imp[id.Name] == modPath+"/internal/i18n" {
								return true
							}
						}
					}
					s.stats.Dynamic[ent.family]++
					s.stats.DynamicList = append(s.stats.DynamicList, ent.family+" "+s.rel(v.Pos()))
					return true
				}
				key, isKey := ent.rule(k)
				if !isKey {
					s.stats.FreeText[ent.family]++
					s.stats.FreeList = append(s.stats.FreeList, fmt.Sprintf("%s %s %q", ent.family, s.rel(v.Pos()), k))
					return true
				}
				s.add(ent.family, key, "", v.Pos())
			case *ast.CompositeLit:
				ts := ""
				if v.Type != nil {
					ts = typeString(v.Type)
				} else {
					ts = inherited[v]
				}
				if strings.HasPrefix(ts, "[]") {
					el := strings.TrimPrefix(ts, "[]")
					for _, e := range v.Elts {
						if kv, ok := e.(*ast.KeyValueExpr); ok {
							e = kv.Value
						}
						if u, ok := e.(*ast.UnaryExpr); ok {
							e = u.X
						}
						if c, ok := e.(*ast.CompositeLit); ok && c.Type == nil {
							inherited[c] = el
						}
					}
				}
				if optionType == "" || ts != optionType {
					return true
				}
				// cli help: "fullDescription := i18n.T(option.Description);
				// if fullDescription == option.Description { fullDescription =
				// i18n.T(optMessagePrefix + option.Description) }" and
				// "parmDesc := i18n.T(g.ParameterDescription)".
				// "if option.Private { continue }" (addOptionsToTable): the
				// description of a private non-subcommand option is never
				// shown. For subcommands and parameters the help code only
				// tries the key as it is ("if optionDescription ==
				// c.Description" never holds for them), so no "opt." form.
				private, optType := false, ""
				for _, e := range v.Elts {
					if kv, ok := e.(*ast.KeyValueExpr); ok {
						if id, ok := kv.Key.(*ast.Ident); ok {
							switch id.Name {
							case "Private":
								if b, ok := kv.Value.(*ast.Ident); ok && b.Name == "true" {
									private = true
								}
							case "OptionType":
								optType = typeString(kv.Value)
								optType = optType[strings.LastIndex(optType, ".")+1:]
							}
						}
					}
				}
				for _, e := range v.Elts {
					kv, ok := e.(*ast.KeyValueExpr)
					if !ok {
						continue
					}
					id, ok := kv.Key.(*ast.Ident)
					if !ok || (id.Name != "Description" && id.Name != "ParmDesc") {
						continue
					}
					if private && optType != "Subcommand" && id.Name == "Description" {
						s.stats.NotLocal["cli.Description"]++
						continue
					}
					fam := "cli." + id.Name
					k, ok := s.constString(p, f, kv.Value, 0)
					if !ok {
						s.stats.Dynamic[fam]++
						s.stats.DynamicList = append(s.stats.DynamicList, fam+" "+s.rel(kv.Pos()))
						continue
					}
					if k == "" {
						continue
					}
					// Description is always looked up (as it is, then with
					// "opt." in front), so every constant without a blank is
					// a key; ParmDesc is looked up as it is and is often plain
					// text ("table-name [table-name...]"): key-shaped only.
					isKey := keyShaped.MatchString(k)
					if id.Name == "Description" {
						isKey = !strings.ContainsAny(k, " \t")
					}
					if !isKey {
						s.stats.FreeText[fam]++
						s.stats.FreeList = append(s.stats.FreeList, fmt.Sprintf("%s %s %q", fam, s.rel(kv.Pos()), k))
						continue
					}
					alt := ""
					if id.Name == "Description" && optType != "Subcommand" && optType != "ParameterType" {
						alt = "opt." + k
					}
					s.add(fam, k, alt, kv.Pos())
				}
			}
			return true
		})
	}
}

// scanTree walks the tree (skipping tests, tools/, hidden and vendor
// directories) and returns the references sorted by family, key, site.
func scanTree(root string) ([]Ref, scanStats) {
	s := newScanner(root)
	var dirs []string
	err := filepath.WalkDir(root, func(path string, d os.DirEntry, err error) error {
		if err != nil {
			return err
		}
		if !d.IsDir() {
			return nil
		}
		name := d.Name()
		if path != root && (strings.HasPrefix(name, ".") || name == "vendor" || name == "testdata" || name == "node_modules") {
			return filepath.SkipDir
		}
		if path == filepath.Join(root, "tools") {
			return filepath.SkipDir
		}
		dirs = append(dirs, path)
		return nil
	})
	if err != nil {
		panic(fmt.Sprintf("c38 scan: walk %s: %v", root, err))
	}
	sort.Strings(dirs)
	for _, d := range dirs {
		s.scanPkg(d)
	}
	for _, d := range s.errDecls {
		if s.errUses[d.name] == 0 {
			// declared but referenced nowhere in the non-test Go sources:
			// the code cannot emit it
			s.stats.NotLocal["errors.decl unreferenced"]++
			s.stats.FreeList = append(s.stats.FreeList, fmt.Sprintf("errors.decl unreferenced %s %s %q", s.rel(d.pos), d.name, d.key))
			continue
		}
		s.add("errors.decl", d.key, "", d.pos)
	}
	sort.SliceStable(s.refs, func(i, j int) bool {
		a, b := s.refs[i], s.refs[j]
		if a.Family != b.Family {
			return a.Family < b.Family
		}
		if a.Key != b.Key {
			return a.Key < b.Key
		}
		return a.Site < b.Site
	})
	sort.Strings(s.stats.DynamicList)
	sort.Strings(s.stats.FreeList)
	return s.refs, s.stats
}
