// Package c25 decides property C25 "Passwords are accepted exactly when they
// match".
//
// A case names a backend (file or SQLite user store), the plaintext-password
// setting, one to three users (name, password, stored-credential format,
// permissions) and a list of login attempts (user name text, password text).
// The users are created the way auth.SetUser creates them (name lower-cased,
// WriteUser, Flush); the attempts are made with auth.ValidatePassword, all of
// them once ("phase A") and then all of them again ("phase B"), so every attempt
// is evaluated both before and after the migration that the first successful
// legacy login causes.
//
// Oracle: the statement's iff. An attempt (user, pass) authenticates iff
//
//	lower(user) is the name of a user            ("exists, case-insensitively")
//	and pass equals that user's password, and, when the credential is stored
//	as {plaintext}, ego.server.plaintext.passwords is true
//	                                             ("matches the stored credential
//	                                              in whichever supported format")
//	and the user holds ego.logon or ego.root.
//
// The model never looks at what is currently stored, so it is the same before
// and after migration ("upgrading ... never changes which passwords are
// accepted"). A verdict that differs between an evaluation before and an
// evaluation after the migration of the same case is reported under its own
// signature.
//
// Preconditions and deliberate limits
//
//   - Stored names are lower-case (auth.SetUser lower-cases; so do the
//     handlers). The candidate's case varies.
//   - Passwords of users are non-empty. ValidatePassword rejects the empty
//     candidate before it looks at the store (validate_test.go expects that),
//     so for a user whose password is empty "matches" and "authenticates"
//     cannot both be decided by the statement; such users are not generated.
//     The empty candidate is generated and must be rejected.
//   - bcrypt looks at the first 72 bytes of a password only. x/crypto v0.52
//     refuses to *create* a hash from more than 72 bytes but
//     CompareHashAndPassword silently truncates. For a credential that was
//     stored as bcrypt from the start, whether a longer candidate with the same
//     first 72 bytes "matches" is bcrypt's definition of matching, not ego's:
//     that cell is generated and labelled but not asserted. For a credential
//     that was stored in a legacy format the statement's second sentence does
//     decide it: such a candidate is rejected before the migration (SHA-256
//     differs) and must be rejected after it.
//   - Passwords contain no NUL byte (bcrypt's key schedule appends one and
//     cycles; library semantics again) and are valid UTF-8.
//   - Legacy credentials cannot be created through any current API; they are
//     written with WriteUser as validate_test.go does. bcrypt credentials are
//     created with bcrypt.MinCost (ValidatePassword accepts any cost); a few
//     cases go through the real auth.SetUser (cost 12).
//   - Permission names are the exact constants ego.logon / ego.root.
package c25

import (
	"crypto/sha256"
	"encoding/hex"
	"fmt"
	"os"
	"path/filepath"
	"sort"
	"strings"
	"sync"
	"testing"

	"github.com/google/uuid"
	"github.com/tucats/ego/internal/cli/settings"
	"github.com/tucats/ego/internal/defs"
	"github.com/tucats/ego/internal/language/data"
	"github.com/tucats/ego/internal/language/symbols"
	"github.com/tucats/ego/internal/server/auth"
	"github.com/tucats/ego/verif/vkit"
	"golang.org/x/crypto/bcrypt"
	"pgregory.net/rapid"
)

// ---------------------------------------------------------------------------
// case data

type User struct {
	// Name as handed to the creation path (may be mixed case; it is stored
	// lower-cased, as auth.SetUser does).
	Name     string `json:"name"`
	Password string `json:"password"`
	// Format of the stored credential: bcrypt | bcrypt-2b | bcrypt-2y | sha256 | plaintext
	Format string   `json:"format"`
	Perms  []string `json:"perms"`
	// NilPerms: the record has no permission list at all.
	NilPerms bool `json:"nil_perms,omitempty"`
}

type Attempt struct {
	User string `json:"user"`
	Pass string `json:"pass"`
	// UseStored: the candidate password is the text of the credential stored
	// for lower(User) at the time of the attempt (pass-the-hash).
	UseStored bool `json:"use_stored,omitempty"`
}

type Case struct {
	Backend   string `json:"backend"` // file | db
	Plaintext bool   `json:"plaintext_enabled"`
	// ViaSetUser: users are created by the real auth.SetUser (bcrypt, cost 12);
	// only valid when every user's format is "bcrypt".
	ViaSetUser bool      `json:"via_setuser,omitempty"`
	Users      []User    `json:"users"`
	Attempts   []Attempt `json:"attempts"`
}

// ---------------------------------------------------------------------------
// the stores (one pair per process, reset at the start of every case)

type svc interface {
	ReadUser(session int, name string, doNotLog bool) (defs.User, error)
	WriteUser(session int, user defs.User) error
	DeleteUser(session int, name string) error
	ListUsers(suppressPasswords bool) map[string]defs.User
	Flush() error
	Close() error
}

var (
	storeOnce sync.Once
	stores    = map[string]svc{}
	storeErr  error
	theT      testing.TB
)

func getStore(backend string) (svc, error) {
	storeOnce.Do(func() {
		base := os.Getenv("VERIF_RUN_DIR")
		if base == "" {
			base = theT.TempDir()
		}
		dir := filepath.Join(base, fmt.Sprintf("c25-s%d-p%d", vkit.ShardIndex(), os.Getpid()))
		if storeErr = os.MkdirAll(dir, 0o700); storeErr != nil {
			return
		}
		f, err := auth.NewFileService(filepath.Join(dir, "users.json"), "admin", "")
		if err != nil {
			storeErr = err
			return
		}
		d, err := auth.NewDatabaseService("sqlite3://"+filepath.Join(dir, "users.db"), "admin", "")
		if err != nil {
			storeErr = err
			return
		}
		stores["file"], stores["db"] = f, d
	})
	return stores[backend], storeErr
}

// reset removes every user except the default administrator.
func reset(s svc) error {
	for _, n := range sortedKeys(s.ListUsers(true)) {
		if n == "admin" {
			continue
		}
		if err := s.DeleteUser(0, n); err != nil {
			return err
		}
	}
	return s.Flush()
}

func sortedKeys[V any](m map[string]V) []string {
	ks := make([]string, 0, len(m))
	for k := range m {
		ks = append(ks, k)
	}
	sort.Strings(ks)
	return ks
}

func sha(s string) string {
	h := sha256.Sum256([]byte(s))
	return hex.EncodeToString(h[:])
}

// storedCredential builds the stored form of a password.
func storedCredential(u User) (string, error) {
	switch u.Format {
	case "bcrypt", "bcrypt-2b", "bcrypt-2y":
		h, err := bcrypt.GenerateFromPassword([]byte(u.Password), bcrypt.MinCost)
		if err != nil {
			return "", err
		}
		s := string(h) // $2a$04$...
		switch u.Format {
		case "bcrypt-2b":
			s = "$2b$" + s[4:]
		case "bcrypt-2y":
			s = "$2y$" + s[4:]
		}
		return s, nil
	case "sha256":
		return sha(u.Password), nil
	case "plaintext":
		return "{" + u.Password + "}", nil
	}
	return "", fmt.Errorf("unknown format %q", u.Format)
}

func isBcryptFormat(f string) bool { return strings.HasPrefix(f, "bcrypt") }

func createUser(s svc, c Case, u User) error {
	name := strings.ToLower(u.Name)
	if c.ViaSetUser {
		st := symbols.NewSymbolTable("c25")
		st.SetAlways(defs.SessionVariable, 0)
		args := data.NewMap(data.StringType, data.InterfaceType).
			SetAlways("name", u.Name).
			SetAlways("password", u.Password)
		if len(u.Perms) > 0 {
			perms := []any{}
			for _, p := range u.Perms {
				perms = append(perms, p)
			}
			args.SetAlways("permissions", perms)
		}
		_, err := auth.SetUser(st, data.NewList(args))
		return err
	}
	cred, err := storedCredential(u)
	if err != nil {
		return err
	}
	rec := defs.User{Name: name, ID: uuid.NewSHA1(uuid.NameSpaceOID, []byte("c25/"+name)), Password: cred}
	if !u.NilPerms {
		rec.Permissions = append([]string{}, u.Perms...)
	}
	if err := s.WriteUser(0, rec); err != nil {
		return err
	}
	return s.Flush()
}

// ---------------------------------------------------------------------------
// the model

func holdsLogon(u User) bool {
	if u.NilPerms {
		return false
	}
	for _, p := range u.Perms {
		if p == defs.LogonPermission || p == defs.RootPermission {
			return true
		}
	}
	return false
}

func findUser(c Case, candidate string) (User, bool) {
	l := strings.ToLower(candidate)
	for _, u := range c.Users {
		if strings.ToLower(u.Name) == l {
			return u, true
		}
	}
	return User{}, false
}

// expected is the statement's iff. asserted is false only in the cell the
// package comment describes (credential stored as bcrypt from the start,
// candidate longer than 72 bytes sharing the first 72 bytes with the password).
func expected(c Case, user, pass string) (accept, asserted bool) {
	if user == "" || pass == "" {
		return false, true
	}
	u, ok := findUser(c, user)
	if !ok {
		return false, true
	}
	if isBcryptFormat(u.Format) && len(pass) > 72 && len(u.Password) >= 72 && pass[:72] == u.Password[:72] {
		return false, false
	}
	match := pass == u.Password
	if u.Format == "plaintext" && !c.Plaintext {
		match = false
	}
	return match && holdsLogon(u), true
}

func swapCase(s string) string {
	b := []byte(s)
	for i, ch := range b {
		switch {
		case ch >= 'a' && ch <= 'z':
			b[i] = ch - 32
		case ch >= 'A' && ch <= 'Z':
			b[i] = ch + 32
		}
	}
	return string(b)
}

// passRelation / userRelation classify an attempt from the case data alone
// (labels and signatures).
func passRelation(c Case, a Attempt, u User, found bool) string {
	switch {
	case a.UseStored:
		return "stored-credential-text"
	case a.Pass == "":
		return "empty"
	case !found:
		for _, o := range c.Users {
			if o.Password == a.Pass {
				return "password-of-an-existing-user"
			}
		}
		return "other"
	case a.Pass == u.Password:
		return "equal"
	case len(a.Pass) > 72 && len(u.Password) >= 72 && a.Pass[:72] == u.Password[:72]:
		return "longer-than-72-same-first-72"
	case len(u.Password) > 72 && a.Pass == u.Password[:72]:
		return "first-72-of-longer-password"
	case strings.EqualFold(a.Pass, u.Password):
		return "case-variant"
	case strings.TrimSpace(a.Pass) == strings.TrimSpace(u.Password):
		return "whitespace-variant"
	case strings.HasPrefix(a.Pass, u.Password):
		return "extension"
	case strings.HasPrefix(u.Password, a.Pass):
		return "proper-prefix"
	}
	for _, o := range c.Users {
		if o.Password == a.Pass {
			return "password-of-another-user"
		}
	}
	return "other"
}

func userRelation(a Attempt, u User, found bool) string {
	switch {
	case a.User == "":
		return "empty"
	case !found:
		return "unknown"
	case a.User == strings.ToLower(u.Name):
		return "exact"
	default:
		return "case-variant"
	}
}

func permClass(u User) string {
	if u.NilPerms {
		return "nil"
	}
	var hasL, hasR, other bool
	for _, p := range u.Perms {
		switch p {
		case defs.LogonPermission:
			hasL = true
		case defs.RootPermission:
			hasR = true
		default:
			other = true
		}
	}
	s := ""
	if hasL {
		s += "logon+"
	}
	if hasR {
		s += "root+"
	}
	if other {
		s += "custom+"
	}
	if s == "" {
		return "none"
	}
	return strings.TrimSuffix(s, "+")
}

// ---------------------------------------------------------------------------
// the oracle

type eval struct {
	idx      int
	phase    string
	migrated bool // the user's legacy credential had already been replaced by bcrypt
	got      bool
	want     bool
	asserted bool
	pass     string
	found    bool
	u        User
}

func oracle(c Case) (out vkit.Outcome) {
	s, err := getStore(c.Backend)
	if err != nil || s == nil {
		return vkit.Outcome{Inconclusive: fmt.Sprintf("store: %v", err)}
	}
	if c.ViaSetUser {
		for _, u := range c.Users {
			if u.Format != "bcrypt" || u.NilPerms {
				return vkit.Outcome{Skip: "SetUser only creates bcrypt credentials"}
			}
		}
	}
	seen := map[string]bool{}
	for _, u := range c.Users {
		l := strings.ToLower(u.Name)
		if l == "" || l == "admin" || seen[l] || u.Password == "" {
			return vkit.Outcome{Skip: "invalid user list"}
		}
		seen[l] = true
	}
	saved := auth.AuthService
	auth.AuthService = s
	defer func() { auth.AuthService = saved }()
	if c.Plaintext {
		settings.SetDefault(defs.PlaintextPasswordSetting, "true")
	} else {
		settings.SetDefault(defs.PlaintextPasswordSetting, "false")
	}
	defer settings.SetDefault(defs.PlaintextPasswordSetting, "false")

	if err := reset(s); err != nil {
		return vkit.Outcome{Inconclusive: "reset: " + err.Error()}
	}
	defer reset(s)
	for _, u := range c.Users {
		if err := createUser(s, c, u); err != nil {
			return vkit.Outcome{Inconclusive: "create user: " + err.Error()}
		}
	}

	labels := map[string]bool{"backend=" + c.Backend: true}
	if c.ViaSetUser {
		labels["users created by auth.SetUser (cost 12)"] = true
	}
	var evals []eval
	nearMiss := false
	for _, phase := range []string{"A", "B"} {
		for i, a := range c.Attempts {
			u, found := findUser(c, a.User)
			pass := a.Pass
			migrated := false
			if found {
				rec, err := s.ReadUser(0, strings.ToLower(u.Name), true)
				if err != nil {
					return vkit.Outcome{Fail: &vkit.Failure{Sig: "created user cannot be read backend=" + c.Backend,
						Observed: fmt.Sprintf("ReadUser(%q): %v", strings.ToLower(u.Name), err), Expected: "the user just created"}}
				}
				migrated = !isBcryptFormat(u.Format) && auth.IsBcryptHash(rec.Password)
				if a.UseStored {
					pass = rec.Password
				}
			} else if a.UseStored {
				pass = ""
			}
			want, asserted := expected(c, a.User, pass)
			got := auth.ValidatePassword(0, a.User, pass)
			evals = append(evals, eval{idx: i, phase: phase, migrated: migrated, got: got, want: want, asserted: asserted, pass: pass, found: found, u: u})

			pr, ur := passRelation(c, a, u, found), userRelation(a, u, found)
			if pr != "equal" && pr != "other" && pr != "empty" || ur == "case-variant" {
				nearMiss = true
			}
			if found {
				st := "original"
				if migrated {
					st = "migrated"
				}
				labels[fmt.Sprintf("format=%s plaintext-enabled=%v stored=%s", u.Format, c.Plaintext, st)] = true
				labels["pass="+pr+" format="+strings.SplitN(u.Format, "-", 2)[0]] = true
				labels["perms="+permClass(u)+" pass="+map[bool]string{true: "equal", false: "not-equal"}[pr == "equal"]] = true
				if !asserted {
					labels["unasserted: bcrypt-from-the-start, candidate >72 bytes with the same first 72 (library semantics), accepted="+fmt.Sprint(got)] = true
				}
			}
			labels["user="+ur] = true
			if got {
				labels["verdict=accept"] = true
			} else {
				labels["verdict=reject"] = true
			}
		}
	}
	// what the stored credentials look like at the end (observation only)
	for _, u := range c.Users {
		if rec, err := s.ReadUser(0, strings.ToLower(u.Name), true); err == nil && !isBcryptFormat(u.Format) {
			if auth.IsBcryptHash(rec.Password) {
				labels["legacy credential migrated to bcrypt"] = true
			} else {
				for _, e := range evals {
					if e.found && e.u.Name == u.Name && e.got {
						labels[fmt.Sprintf("legacy credential accepted but not migrated (password %s 72 bytes)", map[bool]string{true: ">", false: "<="}[len(u.Password) > 72])] = true
					}
				}
			}
		}
	}

	for _, l := range sortedKeys(labels) {
		out.Labels = append(out.Labels, l)
	}
	for _, u := range c.Users {
		if !isBcryptFormat(u.Format) {
			out.NonTrivial = true
		}
	}
	if nearMiss {
		out.NonTrivial = true
	}

	dirOf := func(e eval) string {
		if e.got {
			return "accepted-but-should-be-rejected"
		}
		return "rejected-but-should-be-accepted"
	}
	describe := func(e eval) string {
		a := c.Attempts[e.idx]
		return fmt.Sprintf("phase %s attempt %d: ValidatePassword(%q, %q) = %v (credential %s)", e.phase, e.idx, a.User, clip(e.pass), e.got,
			map[bool]string{true: "already migrated to bcrypt", false: "as originally stored"}[e.migrated])
	}
	// 1. a verdict on a migrated credential that differs from the iff: the
	// upgrade changed which passwords are accepted (the signature names the
	// relation of the candidate to the password only: format, permissions and
	// name spelling do not matter once the credential is bcrypt).
	for _, e := range evals {
		if !e.migrated || !e.asserted || e.got == e.want {
			continue
		}
		obs := describe(e)
		for _, before := range evals {
			if before.idx == e.idx && !before.migrated && before.pass == e.pass {
				obs = describe(before) + "; " + obs
				break
			}
		}
		out.Fail = &vkit.Failure{Sig: fmt.Sprintf("after-migration: %s pass=%s", dirOf(e), passRelation(c, c.Attempts[e.idx], e.u, e.found)),
			Observed: obs, Expected: fmt.Sprintf("%v, before and after the upgrade of the %s credential to bcrypt", e.want, e.u.Format)}
		return out
	}
	// 2. any other verdict that differs from the iff
	for _, e := range evals {
		if !e.asserted || e.got == e.want {
			continue
		}
		a := c.Attempts[e.idx]
		format, logon := "-", "-"
		if e.found {
			format, logon = strings.SplitN(e.u.Format, "-", 2)[0], fmt.Sprint(holdsLogon(e.u))
			if e.u.Format == "plaintext" {
				format += fmt.Sprintf("(enabled=%v)", c.Plaintext)
			}
		}
		out.Fail = &vkit.Failure{Sig: fmt.Sprintf("iff: %s format=%s pass=%s user=%s logon-or-root=%s", dirOf(e), format,
			passRelation(c, a, e.u, e.found), userRelation(a, e.u, e.found), logon),
			Observed: describe(e), Expected: fmt.Sprintf("%v", e.want)}
		return out
	}
	return out
}

func clip(s string) string {
	if len(s) > 90 {
		return fmt.Sprintf("%s…(%d bytes)", s[:80], len(s))
	}
	return s
}

// ---------------------------------------------------------------------------
// generator

var namePool = []string{"alice", "bob", "carol", "dave", "x", "user.1", "svc-account_2"}

var unknownNames = []string{"mallory", "alic", "alicee", "alice ", " alice", "bo", "admin2", "nobody"}

var permSets = [][]string{
	{},
	{defs.LogonPermission},
	{defs.RootPermission},
	{defs.LogonPermission, defs.RootPermission},
	{"payroll"},
	{defs.LogonPermission, "payroll"},
	{"ego.table.read", defs.RootPermission},
	{"ego.table.read", "ego.server.admin"},
}

const asciiAlphabet = "abcdefghijklmnopqrstuvwxyzABCDEFGHIJKLMNOPQRSTUVWXYZ0123456789 !#$%&()*+,-./:;<=>?@[]^_{|}~'\"\\"

var wideRunes = []rune("éßñ日Ω")

func genPassword(t *rapid.T, label string) string {
	var n int
	switch rapid.IntRange(0, 9).Draw(t, label+"-lenclass") {
	case 0:
		n = 1
	case 1:
		n = 71
	case 2, 3:
		n = 72
	case 4:
		n = 73
	case 5:
		n = rapid.IntRange(74, 90).Draw(t, label+"-long")
	default:
		n = rapid.IntRange(2, 16).Draw(t, label+"-len")
	}
	b := make([]byte, 0, n+4)
	wide := n <= 16 && rapid.IntRange(0, 4).Draw(t, label+"-wide?") == 0
	for len(b) < n {
		if wide && len(b)+3 <= n && rapid.IntRange(0, 3).Draw(t, label+"-w") == 0 {
			b = append(b, string(rapid.SampledFrom(wideRunes).Draw(t, label+"-r"))...)
			continue
		}
		b = append(b, asciiAlphabet[rapid.IntRange(0, len(asciiAlphabet)-1).Draw(t, label+"-c")])
	}
	// at least one letter, so that a case variant exists
	hasLetter := false
	for _, ch := range b {
		if ch >= 'a' && ch <= 'z' || ch >= 'A' && ch <= 'Z' {
			hasLetter = true
		}
	}
	if !hasLetter {
		b[0] = 'q'
	}
	return string(b)
}

func mixCase(t *rapid.T, s, label string) string {
	switch rapid.IntRange(0, 2).Draw(t, label) {
	case 0:
		return strings.ToUpper(s)
	case 1:
		return strings.ToUpper(s[:1]) + s[1:]
	}
	b := []byte(s)
	for i := range b {
		if i%2 == 1 && b[i] >= 'a' && b[i] <= 'z' {
			b[i] -= 32
		}
	}
	return string(b)
}

func genAttempt(t *rapid.T, c Case, i int) Attempt {
	u := c.Users[rapid.IntRange(0, len(c.Users)-1).Draw(t, "target")]
	if i == 0 || rapid.IntRange(0, 2).Draw(t, "first?") > 0 {
		u = c.Users[0]
	}
	lname := strings.ToLower(u.Name)
	wrong := genPassword(t, "wrong")
	if len(wrong) > 16 {
		wrong = wrong[:16]
	}
	if wrong == u.Password {
		wrong += "x"
	}
	p := u.Password
	switch rapid.IntRange(0, 17).Draw(t, "attclass") {
	case 0, 1, 2, 3:
		return Attempt{User: lname, Pass: p}
	case 4:
		return Attempt{User: lname, Pass: wrong}
	case 5:
		return Attempt{User: lname, Pass: ""}
	case 6:
		return Attempt{User: lname, Pass: swapCase(p)}
	case 7:
		return Attempt{User: mixCase(t, lname, "ucase"), Pass: p}
	case 8:
		return Attempt{User: mixCase(t, lname, "ucase"), Pass: wrong}
	case 9:
		return Attempt{User: rapid.SampledFrom(unknownNames).Draw(t, "unknown"), Pass: p}
	case 10:
		if rapid.Bool().Draw(t, "emptyuser") {
			return Attempt{User: "", Pass: p}
		}
		return Attempt{User: lname + " ", Pass: p}
	case 11:
		if len(c.Users) > 1 {
			o := c.Users[1]
			if strings.EqualFold(o.Name, u.Name) {
				o = c.Users[0]
			}
			return Attempt{User: lname, Pass: o.Password}
		}
		return Attempt{User: lname, Pass: p + p}
	case 12:
		return Attempt{User: lname, Pass: p + rapid.SampledFrom([]string{"x", " ", "\n", "0"}).Draw(t, "suffix")}
	case 13:
		if len(p) > 1 {
			return Attempt{User: lname, Pass: p[:len(p)-1]}
		}
		return Attempt{User: lname, Pass: " " + p}
	case 14:
		return Attempt{User: lname, UseStored: true}
	case 15, 16:
		// the 72-byte boundary
		switch {
		case len(p) > 72:
			return Attempt{User: lname, Pass: p[:72]}
		case len(p) == 72:
			return Attempt{User: lname, Pass: p + rapid.SampledFrom([]string{"x", "xyz0123456789", " "}).Draw(t, "over")}
		default:
			return Attempt{User: lname, Pass: p + strings.Repeat("x", 73-len(p))}
		}
	default:
		if u.Format == "plaintext" {
			return Attempt{User: lname, Pass: "{" + p + "}"}
		}
		return Attempt{User: lname, Pass: sha(p)}
	}
}

func gen(t *rapid.T) Case {
	c := Case{
		Backend:   rapid.SampledFrom([]string{"file", "db"}).Draw(t, "backend"),
		Plaintext: rapid.Bool().Draw(t, "plaintext"),
	}
	nu := rapid.SampledFrom([]int{1, 1, 2, 2, 3}).Draw(t, "nusers")
	names := rapid.Permutation(namePool).Draw(t, "names")[:nu]
	for i := 0; i < nu; i++ {
		u := User{Name: names[i]}
		if rapid.IntRange(0, 3).Draw(t, "mixedname") == 0 {
			u.Name = mixCase(t, u.Name, "namecase")
		}
		u.Format = rapid.SampledFrom([]string{"bcrypt", "bcrypt", "bcrypt-2b", "bcrypt-2y", "sha256", "sha256", "sha256", "plaintext", "plaintext"}).Draw(t, "format")
		u.Password = genPassword(t, "pw")
		if isBcryptFormat(u.Format) && len(u.Password) > 72 {
			// no bcrypt credential can be created from more than 72 bytes
			u.Password = u.Password[:72]
		}
		if rapid.IntRange(0, 14).Draw(t, "nilperms") == 0 {
			u.NilPerms = true
			u.Perms = []string{}
		} else {
			// logon-bearing sets twice as likely as the others
			k := rapid.IntRange(0, len(permSets)+2).Draw(t, "permset")
			if k >= len(permSets) {
				k = 1 + (k-len(permSets))%3
			}
			u.Perms = append([]string{}, permSets[k]...)
		}
		c.Users = append(c.Users, u)
	}
	allPlainBcrypt := true
	for _, u := range c.Users {
		if u.Format != "bcrypt" || u.NilPerms {
			allPlainBcrypt = false
		}
	}
	if allPlainBcrypt && rapid.IntRange(0, 5).Draw(t, "setuser") == 0 {
		c.ViaSetUser = true
	}
	na := rapid.IntRange(2, 5).Draw(t, "nattempts")
	if c.ViaSetUser {
		na = 2
	}
	for i := 0; i < na; i++ {
		c.Attempts = append(c.Attempts, genAttempt(t, c, i))
	}
	return c
}

func fixed() []Case {
	p72 := strings.Repeat("Abcdefgh", 9)
	logon := []string{defs.LogonPermission}
	var cs []Case
	for _, b := range []string{"file", "db"} {
		cs = append(cs,
			// the real creation path, mixed-case name
			Case{Backend: b, ViaSetUser: true, Users: []User{{Name: "Staff", Password: "Quidditch7", Format: "bcrypt", Perms: logon}},
				Attempts: []Attempt{{User: "staff", Pass: "Quidditch7"}, {User: "STAFF", Pass: "Quidditch7"}, {User: "staff", Pass: "quidditch7"}, {User: "staff", Pass: ""}}},
			// legacy SHA-256: wrong first, then right (migrates), then the rest
			Case{Backend: b, Users: []User{{Name: "payroll", Password: "payroll1", Format: "sha256", Perms: []string{defs.RootPermission, "checks"}}},
				Attempts: []Attempt{{User: "payroll", Pass: "Payroll1"}, {User: "payroll", Pass: "payroll1"}, {User: "Payroll", Pass: "payroll1"}, {User: "payroll", UseStored: true}}},
			// legacy SHA-256 without logon/root: right password, never accepted
			Case{Backend: b, Users: []User{{Name: "bogus", Password: "zork", Format: "sha256", Perms: []string{"employees"}}},
				Attempts: []Attempt{{User: "bogus", Pass: "zork"}, {User: "bogus", Pass: "Zork"}}},
			// {plaintext}, setting on and off
			Case{Backend: b, Plaintext: true, Users: []User{{Name: "quoted", Password: "hunter2", Format: "plaintext", Perms: logon}},
				Attempts: []Attempt{{User: "quoted", Pass: "{hunter2}"}, {User: "quoted", Pass: "hunter2"}, {User: "quoted", Pass: "Hunter2"}}},
			Case{Backend: b, Plaintext: false, Users: []User{{Name: "quoted", Password: "hunter2", Format: "plaintext", Perms: logon}},
				Attempts: []Attempt{{User: "quoted", Pass: "hunter2"}, {User: "quoted", Pass: "{hunter2}"}, {User: "quoted", Pass: "anything"}}},
			// the 72-byte boundary on a legacy credential
			Case{Backend: b, Users: []User{{Name: "longpw", Password: p72, Format: "sha256", Perms: logon}},
				Attempts: []Attempt{{User: "longpw", Pass: p72 + "x"}, {User: "longpw", Pass: p72}}},
			Case{Backend: b, Users: []User{{Name: "longer", Password: p72 + "y", Format: "sha256", Perms: logon}},
				Attempts: []Attempt{{User: "longer", Pass: p72}, {User: "longer", Pass: p72 + "y"}, {User: "longer", Pass: p72 + "z"}}},
		)
	}
	return cs
}

func TestC25(t *testing.T) {
	theT = t
	vkit.Run(t, vkit.Spec[Case]{
		ID:    "C25",
		Level: "exploration",
		Rule: "backend (file|SQLite) x plaintext setting x 1..3 users (stored lower-case; password 1..90 bytes weighted to 71/72/73; credential stored as bcrypt $2a/$2b/$2y at minimum cost, " +
			"legacy SHA-256 or {plaintext}; 8 permission sets and nil) x 2..5 attempts (right, wrong, empty, password case variant, user-name case variant, unknown/empty/space-padded user, " +
			"another user's password, extension, prefix, 72-byte boundary, the stored credential text itself, {pw}/sha(pw)), every attempt evaluated twice so that it is seen before and after " +
			"the migration a successful legacy login causes. Non-trivial: a user's credential is stored in a legacy format, or an attempt is a near miss (anything but equal/unrelated/empty " +
			"password with the exact name); distinct by case.",
		Assumptions: []string{
			"users have non-empty passwords (ValidatePassword rejects the empty candidate before looking at the store)",
			"for credentials stored as bcrypt from the start, candidates longer than 72 bytes that share the first 72 bytes are not asserted (bcrypt library semantics)",
			"passwords are valid UTF-8 without NUL; permission names are the exact constants",
			"legacy credentials are written with WriteUser (no current API creates them); bcrypt test credentials use bcrypt.MinCost",
		},
		Gen:      gen,
		Oracle:   oracle,
		Fixed:    fixed,
		Quick:    40,
		Thorough: 1000,
	})
}
