// Package c30 decides property C30: "The resource store behaves like a keyed
// record set" — for every history of create / insert / read / update / delete
// operations with equality and comparison filters, the struct-backed resource
// store (internal/resources) on a SQLite file returns exactly the records a
// simple in-memory table would return.
//
// Preconditions taken from the real callers (tokens/blacklist.go,
// server/tables/security.go, dsns/dsn_sqldb.go, server/auth/users_sqldb.go):
//
//   - A handle is made with Open(StructValue{}, "lowercase_table", "sqlite3://path"),
//     optionally SetPrimaryKey(col), then CreateIf() (dsns also calls Create()).
//   - Filter values have the Go type of the column (string for TEXT, int for
//     integer, bool for boolean; a UUID column is compared with a uuid.UUID or
//     its canonical string). Nobody filters on a []string / json.RawMessage
//     column, so the check does not either.
//   - Callers pass a nil *Filter on purpose to mean "no filter on that column"
//     (security.go: pHandle.Read(dsnFilter, nameFilter) with either one nil,
//     also nil first and non-nil second: ReadAllPermissions with dsn "@all"
//     and ?user=x; removeTablePermissions: Delete(dsnFilter, tableFilter)). The
//     model therefore treats a nil filter as absent.
//   - ReadOne / DeleteOne / UpdateOne are only used on handles whose primary key
//     was set explicitly with SetPrimaryKey (dsns). A handle that relies on the
//     default key only learns it inside Create(), i.e. not when the table
//     already exists; the check uses the *One operations only with an explicit
//     key.
//   - Sort is used with ordinary column names (dsns: Sort("name")); OrderBy does
//     not quote names, so the check never sorts by the keyword-named column
//     "Table" (callers do filter on such columns: "user", "table").
//   - Strings are valid UTF-8 without NUL (user names, DSN names, token ids come
//     from JSON bodies and URLs).
//
// What the oracle demands is only what the statement says: the records (and,
// for Delete, the count) a slice-of-structs table would give. A filter that
// names a column the record type does not have must give an error or match
// nothing — never be dropped.
package c30

import (
	"encoding/json"
	"fmt"
	"math"
	"os"
	"path/filepath"
	"sort"
	"strings"
	"testing"

	"github.com/google/uuid"
	"github.com/tucats/ego/internal/resources"
	"github.com/tucats/ego/verif/vkit"
	"pgregory.net/rapid"
)

// Rec is the record type stored through the resource handle. Field order is the
// column order; the first column is the default primary key.
type Rec struct {
	Name   string
	ID     uuid.UUID
	Count  int
	Active bool
	Tags   []string
	Blob   json.RawMessage
	Table  string
}

// RecData is Rec as plain JSON data (what the case file holds and what the
// model stores).
type RecData struct {
	Name   string   `json:"name"`
	ID     string   `json:"id"` // canonical UUID text
	Count  int      `json:"count"`
	Active bool     `json:"active"`
	Tags   []string `json:"tags"`
	Blob   string   `json:"blob"`
	Table  string   `json:"table"`
}

// Val is a filter or key value: a literal (S/I/B, chosen by the column type),
// or, when Row >= 0 and the model table is not empty, the value that column has
// in model row Row mod len.
type Val struct {
	Row int    `json:"row"`
	S   string `json:"s,omitempty"`
	I   int    `json:"i,omitempty"`
	B   bool   `json:"b,omitempty"`
}

// Filter describes one filter argument.
//
//	Kind "valid":  handle.<Op>(Col, value)
//	Kind "absent": a nil *Filter, as callers pass for "no filter"
//	Kind "badcol": handle.<Op>(Col, value) where Col is not a column
type Filter struct {
	Kind      string `json:"kind"`
	Col       string `json:"col,omitempty"` // as spelled (any letter case)
	Op        string `json:"op,omitempty"`  // eq ne lt gt
	V         Val    `json:"v"`
	UUIDAsStr bool   `json:"uuid_as_str,omitempty"`
}

// Op is one step of a history.
type Op struct {
	Kind    string   `json:"kind"` // insert read update delete readone deleteone updateone createif create reopen
	Rec     *RecData `json:"rec,omitempty"`
	Filters []Filter `json:"filters,omitempty"`
	Sort    []string `json:"sort,omitempty"`
	Key     *Val     `json:"key,omitempty"`
	Begin   bool     `json:"begin,omitempty"` // call handle.Begin() first, as dsns/auth do
}

// Case is a whole history.
type Case struct {
	Key    string `json:"key"`    // "" (default = first column), "name", "id", "count"
	Ptr    bool   `json:"ptr"`    // pass records to Insert/Update by pointer
	Create bool   `json:"create"` // first creation through Create() instead of CreateIf()
	Ops    []Op   `json:"ops"`
}

// ---------------------------------------------------------------- generator

var strPool = []string{"", "a", "A", "b", "ab", "O'Brien", "NULL", "null", `say "hi"`, "ü", "日本語", " a", "a ",
	"%", "_", "1", "01", "-1", "10", "9", "true", "x';drop table c30_recs;--", "$1", "?", `\`, "a\nb", "\t", "''", "nil", "0"}

var namePool = []string{"", "a", "A", "b", "O'Brien", "NULL", "ü", "1", "10", "9"}

var intPool = []int{0, 1, -1, 2, 9, 10, -10, 255, math.MaxInt32, math.MaxInt32 + 1, math.MinInt32, math.MaxInt64, math.MinInt64, math.MaxInt64 - 1}

var uuidPool = []string{
	"00000000-0000-0000-0000-000000000000",
	"00000000-0000-0000-0000-000000000001",
	"ffffffff-ffff-ffff-ffff-ffffffffffff",
	"12345678-1234-4234-8234-123456789abc",
	"a2345678-1234-4234-8234-123456789abc",
	"0a000000-0000-4000-8000-000000000000",
}

var tagsPool = [][]string{nil, {}, {""}, {"a"}, {"a", "b"}, {"O'Brien", "<x>&y"}, {"日本", "null"}, {`"`, `\`, ","}}

var blobPool = []string{"", "null", "{}", `{"a":1}`, `[1,2]`, `"str"`, `{"k":"O'Brien"}`, `[{"id":"ü"}]`, "  { } "}

var realCols = []string{"name", "id", "count", "active", "table"}
var colSpell = map[string][]string{
	"name":   {"name", "Name", "NAME"},
	"id":     {"id", "ID", "Id"},
	"count":  {"count", "Count", "COUNT"},
	"active": {"active", "Active"},
	"table":  {"table", "Table", "TABLE"},
}
var badCols = []string{"nope", "names", "user", "tags2", "nam", "name ", "\"name\"", "rowid", "1"}
var sortCols = []string{"name", "id", "count", "active"}

func cleanStr(s string) string { return strings.ReplaceAll(s, "\x00", "0") }

func genStr(t *rapid.T, pool []string, label string) string {
	if rapid.IntRange(0, 9).Draw(t, label+"_src") < 7 {
		return rapid.SampledFrom(pool).Draw(t, label)
	}
	return cleanStr(rapid.StringN(0, 6, -1).Draw(t, label+"_any"))
}

func genInt(t *rapid.T, label string) int {
	if rapid.IntRange(0, 9).Draw(t, label+"_src") < 7 {
		return rapid.SampledFrom(intPool).Draw(t, label)
	}
	return rapid.Int().Draw(t, label+"_any")
}

func genUUID(t *rapid.T, label string) string {
	if rapid.IntRange(0, 9).Draw(t, label+"_src") < 7 {
		return rapid.SampledFrom(uuidPool).Draw(t, label)
	}
	b := rapid.SliceOfN(rapid.Byte(), 16, 16).Draw(t, label+"_any")
	var u uuid.UUID
	copy(u[:], b)
	return u.String()
}

func genRec(t *rapid.T) *RecData {
	r := &RecData{
		Name:   genStr(t, namePool, "name"),
		ID:     genUUID(t, "id"),
		Count:  genInt(t, "count"),
		Active: rapid.Bool().Draw(t, "active"),
		Blob:   rapid.SampledFrom(blobPool).Draw(t, "blob"),
		Table:  genStr(t, strPool, "table"),
	}
	if rapid.IntRange(0, 9).Draw(t, "tags_src") < 8 {
		r.Tags = rapid.SampledFrom(tagsPool).Draw(t, "tags")
	} else {
		r.Tags = rapid.SliceOfN(rapid.Map(rapid.StringN(0, 4, -1), cleanStr), 0, 3).Draw(t, "tags_any")
	}
	return r
}

func genVal(t *rapid.T, col string) Val {
	v := Val{Row: -1}
	if rapid.IntRange(0, 9).Draw(t, "val_src") < 6 {
		v.Row = rapid.IntRange(0, 7).Draw(t, "val_row")
	}
	// the literal is always drawn: it is what is used when the table is empty
	switch col {
	case "name":
		v.S = genStr(t, namePool, "fname")
	case "table":
		v.S = genStr(t, strPool, "ftable")
	case "id":
		v.S = genUUID(t, "fid")
	case "count":
		v.I = genInt(t, "fcount")
	case "active":
		v.B = rapid.Bool().Draw(t, "factive")
	default:
		v.Row = -1
		v.S = genStr(t, strPool, "fbad")
	}
	return v
}

func genFilter(t *rapid.T, allowOdd bool) Filter {
	kind := "valid"
	if allowOdd {
		switch rapid.IntRange(0, 5).Draw(t, "fkind") {
		case 0, 1:
			kind = "absent"
		case 2, 3:
			kind = "badcol"
		}
	}
	if kind == "absent" {
		return Filter{Kind: kind, V: Val{Row: -1}}
	}
	op := rapid.SampledFrom([]string{"eq", "eq", "eq", "ne", "lt", "gt"}).Draw(t, "fop")
	if kind == "badcol" {
		col := rapid.SampledFrom(badCols).Draw(t, "badcol")
		return Filter{Kind: kind, Col: col, Op: op, V: genVal(t, "")}
	}
	col := rapid.SampledFrom(realCols).Draw(t, "fcol")
	f := Filter{Kind: kind, Col: rapid.SampledFrom(colSpell[col]).Draw(t, "fspell"), Op: op, V: genVal(t, col)}
	if col == "id" {
		f.UUIDAsStr = rapid.Bool().Draw(t, "uuid_as_str")
	}
	return f
}

func genFilters(t *rapid.T, allowOdd bool, min int) []Filter {
	n := rapid.SampledFrom([]int{0, 1, 1, 1, 2, 2, 3}).Draw(t, "nfilters")
	if n < min {
		n = min
	}
	fs := make([]Filter, 0, n)
	for i := 0; i < n; i++ {
		fs = append(fs, genFilter(t, allowOdd))
	}
	return fs
}

func gen(t *rapid.T) Case {
	c := Case{
		Key:    rapid.SampledFrom([]string{"", "", "name", "name", "id", "count"}).Draw(t, "key"),
		Ptr:    rapid.Bool().Draw(t, "ptr"),
		Create: rapid.IntRange(0, 3).Draw(t, "create") == 0,
	}
	// one case in four may contain nil filters and filters on unknown columns
	allowOdd := rapid.IntRange(0, 3).Draw(t, "odd") == 0
	kinds := []string{"insert", "insert", "insert", "insert", "insert", "insert", "read", "read", "read", "read", "read", "read",
		"update", "update", "update", "update", "delete", "delete", "delete", "createif", "reopen", "create"}
	if c.Key != "" {
		kinds = append(kinds, "readone", "readone", "deleteone", "deleteone", "updateone", "updateone", "updateone")
	}
	n := rapid.IntRange(1, 16).Draw(t, "nops")
	for i := 0; i < n; i++ {
		op := Op{Begin: rapid.Bool().Draw(t, "begin")}
		if i < 2 && rapid.IntRange(0, 3).Draw(t, "lead_insert") > 0 {
			op.Kind = "insert"
		} else {
			op.Kind = rapid.SampledFrom(kinds).Draw(t, "kind")
		}
		switch op.Kind {
		case "insert", "updateone":
			op.Rec = genRec(t)
			if op.Kind == "updateone" && rapid.Bool().Draw(t, "uo_hit") {
				// aim at an existing row: the oracle replaces the key field by
				// that of a model row
				k := Val{Row: rapid.IntRange(0, 7).Draw(t, "uo_row")}
				op.Key = &k
			}
		case "read":
			op.Filters = genFilters(t, allowOdd, 0)
			if rapid.IntRange(0, 2).Draw(t, "sorted") == 0 {
				op.Sort = rapid.SliceOfNDistinct(rapid.SampledFrom(sortCols), 1, 2, rapid.ID[string]).Draw(t, "sort")
			}
		case "update":
			op.Rec = genRec(t)
			op.Filters = genFilters(t, allowOdd, 0)
			if len(op.Filters) == 0 && rapid.IntRange(0, 3).Draw(t, "upd_all") > 0 {
				op.Filters = genFilters(t, allowOdd, 1)
			}
			if rapid.Bool().Draw(t, "keep_key") {
				// like WriteUser / SetUserPasskeys: update the row found by key
				// with a record carrying the same key
				k := Val{Row: rapid.IntRange(0, 7).Draw(t, "upd_row")}
				op.Key = &k
			}
		case "delete":
			op.Filters = genFilters(t, allowOdd, 0)
			if len(op.Filters) == 0 && rapid.IntRange(0, 3).Draw(t, "del_all") > 0 {
				op.Filters = genFilters(t, allowOdd, 1)
			}
		case "readone", "deleteone":
			col := c.Key
			k := genVal(t, col)
			op.Key = &k
		}
		c.Ops = append(c.Ops, op)
	}
	return c
}

// ---------------------------------------------------------------- model

type model struct {
	key  string // name | id | count
	rows []RecData
}

func colOf(spelled string) string {
	for _, c := range []string{"name", "id", "count", "active", "tags", "blob", "table"} {
		if strings.EqualFold(c, spelled) {
			return c
		}
	}
	return ""
}

func colType(col string) string {
	switch col {
	case "name", "table":
		return "string"
	case "id":
		return "uuid"
	case "count":
		return "int"
	case "active":
		return "bool"
	}
	return "?"
}

// value is a resolved filter/key value.
type value struct {
	s string
	i int
	b bool
}

func fieldOf(r RecData, col string) value {
	switch col {
	case "name":
		return value{s: r.Name}
	case "table":
		return value{s: r.Table}
	case "id":
		return value{s: r.ID}
	case "count":
		return value{i: r.Count}
	case "active":
		return value{b: r.Active}
	}
	return value{}
}

func (m *model) resolve(v Val, col string) value {
	if v.Row >= 0 && len(m.rows) > 0 && col != "" {
		return fieldOf(m.rows[v.Row%len(m.rows)], col)
	}
	return value{s: v.S, i: v.I, b: v.B}
}

// cmp compares the column of r with v: strings bytewise (SQLite BINARY
// collation = Go string order on UTF-8), ints numerically, false < true.
func cmp(r RecData, col string, v value) int {
	f := fieldOf(r, col)
	switch colType(col) {
	case "string", "uuid":
		return strings.Compare(f.s, v.s)
	case "int":
		switch {
		case f.i < v.i:
			return -1
		case f.i > v.i:
			return 1
		}
		return 0
	case "bool":
		a, b := 0, 0
		if f.b {
			a = 1
		}
		if v.b {
			b = 1
		}
		return a - b
	}
	return 0
}

type rfilter struct {
	col string
	op  string
	v   value
}

func match(r RecData, fs []rfilter) bool {
	for _, f := range fs {
		c := cmp(r, f.col, f.v)
		ok := false
		switch f.op {
		case "eq":
			ok = c == 0
		case "ne":
			ok = c != 0
		case "lt":
			ok = c < 0
		case "gt":
			ok = c > 0
		}
		if !ok {
			return false
		}
	}
	return true
}

func (m *model) keyOf(r RecData) string {
	switch m.key {
	case "id":
		return "u:" + r.ID
	case "count":
		return fmt.Sprintf("i:%d", r.Count)
	}
	return "s:" + r.Name
}

func (m *model) find(k string) int {
	for i, r := range m.rows {
		if m.keyOf(r) == k {
			return i
		}
	}
	return -1
}

func canon(r RecData) string {
	if r.Tags == nil {
		r.Tags = []string{}
	}
	b, _ := json.Marshal(r)
	return string(b)
}

func multiset(rows []RecData) []string {
	out := make([]string, len(rows))
	for i, r := range rows {
		out[i] = canon(r)
	}
	sort.Strings(out)
	return out
}

func sameSet(a, b []RecData) bool {
	x, y := multiset(a), multiset(b)
	if len(x) != len(y) {
		return false
	}
	for i := range x {
		if x[i] != y[i] {
			return false
		}
	}
	return true
}

func show(rows []RecData) string {
	return clip(strings.Join(multiset(rows), " "), 1200)
}

func clip(s string, n int) string {
	if len(s) > n {
		return s[:n] + "…"
	}
	return s
}

// ---------------------------------------------------------------- driving ego

func toRec(d RecData) Rec {
	u, _ := uuid.Parse(d.ID)
	return Rec{Name: d.Name, ID: u, Count: d.Count, Active: d.Active, Tags: d.Tags, Blob: json.RawMessage(d.Blob), Table: d.Table}
}

func fromAny(items []any) ([]RecData, error) {
	out := make([]RecData, 0, len(items))
	for _, it := range items {
		p, ok := it.(*Rec)
		if !ok || p == nil {
			return nil, fmt.Errorf("Read returned a %T, not *Rec", it)
		}
		out = append(out, RecData{Name: p.Name, ID: p.ID.String(), Count: p.Count, Active: p.Active, Tags: p.Tags, Blob: string(p.Blob), Table: p.Table})
	}
	return out, nil
}

var runDir string

// shared is the store re-used by all cases of this process. Opening and closing
// a modernc SQLite connection costs far more (mmap/munmap) than a whole history,
// so by default a case starts from the long-lived handle — the way the server
// uses these handles — after resetting everything a history can change: error
// state, sort order, primary-key marks, and the table itself (dropped).
// C30_FRESH=1 gives every case its own database file instead.
var shared *store

func acquire(key string) (*store, func(), error) {
	if os.Getenv("C30_FRESH") != "" {
		dir, err := os.MkdirTemp(runDir, "c30-")
		if err != nil {
			return nil, nil, err
		}
		st := &store{path: filepath.Join(dir, "store.db"), key: key}
		if err := st.open(); err != nil {
			os.RemoveAll(dir)
			return nil, nil, err
		}
		return st, func() {
			if st.h != nil {
				st.h.Close()
			}
			os.RemoveAll(dir)
		}, nil
	}
	if shared == nil {
		dir, err := os.MkdirTemp(runDir, "c30-")
		if err != nil {
			return nil, nil, err
		}
		shared = &store{path: filepath.Join(dir, "store.db")}
	}
	shared.key = key
	if shared.h != nil {
		shared.h.Begin().Sort().SetPrimaryKey(key) // "" clears every mark
		if _, err := shared.h.Database.Exec(`DROP TABLE IF EXISTS "c30_recs"`); err != nil {
			shared.h.Close()
			shared.h = nil
		}
	}
	if shared.h == nil {
		for _, suffix := range []string{"", "-wal", "-shm"} {
			os.Remove(shared.path + suffix)
		}
		if err := shared.open(); err != nil {
			return nil, nil, err
		}
	}
	return shared, func() {}, nil
}

type store struct {
	h    *resources.ResHandle
	path string
	key  string
}

func (s *store) open() error {
	h, err := resources.Open(Rec{}, "c30_recs", "sqlite3://"+s.path)
	if err != nil {
		return err
	}
	if s.key != "" {
		h.SetPrimaryKey(s.key)
	}
	if os.Getenv("C30_SYNC") == "" {
		// Durability against power loss is not part of the property; without
		// this every statement costs an fsync of the WAL (~5 ms here). The
		// pragma is per connection; the handle is used sequentially, so
		// database/sql keeps re-using the one connection it has opened.
		h.Database.Exec("PRAGMA synchronous=OFF;")
	}
	s.h = h
	return nil
}

func (s *store) arg(d RecData, ptr bool) any {
	r := toRec(d)
	if ptr {
		return &r
	}
	return r
}

func (s *store) readAll() ([]RecData, error) {
	items, err := s.h.Sort().Read()
	if err != nil {
		return nil, err
	}
	return fromAny(items)
}

// build turns the case's filters into real *resources.Filter arguments and the
// model's filters. odd reports "absent"/"badcol" presence.
func (s *store) build(m *model, fs []Filter) (args []*resources.Filter, mf []rfilter, shapes []string, nAbsent, nBad int, absentFirst bool) {
	seenReal := false
	for _, f := range fs {
		switch f.Kind {
		case "absent":
			args = append(args, nil)
			shapes = append(shapes, "absent")
			nAbsent++
			if !seenReal {
				absentFirst = true
			}
			continue
		}
		col := colOf(f.Col)
		if f.Kind == "badcol" {
			col = ""
		}
		v := m.resolve(f.V, col)
		var gv any
		switch colType(col) {
		case "string":
			gv = v.s
		case "uuid":
			if f.UUIDAsStr {
				gv = v.s
			} else {
				u, _ := uuid.Parse(v.s)
				gv = u
			}
		case "int":
			gv = v.i
		case "bool":
			gv = v.b
		default:
			gv = v.s
		}
		var rf *resources.Filter
		switch f.Op {
		case "eq":
			rf = s.h.Equals(f.Col, gv)
		case "ne":
			rf = s.h.NotEquals(f.Col, gv)
		case "lt":
			rf = s.h.LessThan(f.Col, gv)
		case "gt":
			rf = s.h.GreaterThan(f.Col, gv)
		}
		args = append(args, rf)
		seenReal = true
		if f.Kind == "badcol" {
			nBad++
			shapes = append(shapes, "badcol")
			continue
		}
		mf = append(mf, rfilter{col: col, op: f.Op, v: v})
		shapes = append(shapes, f.Op+":"+colType(col))
	}
	// absentFirst only matters when a non-nil filter follows
	if !seenReal {
		absentFirst = false
	}
	return
}

func shapeSig(shapes []string) string {
	u := map[string]bool{}
	var l []string
	for _, s := range shapes {
		if !u[s] {
			u[s] = true
			l = append(l, s)
		}
	}
	sort.Strings(l)
	return "[" + strings.Join(l, ",") + "]"
}

func sortedOK(rows []RecData, cols []string) bool {
	for i := 1; i < len(rows); i++ {
		for _, c := range cols {
			d := cmp(rows[i-1], c, fieldOf(rows[i], c))
			if d < 0 {
				break
			}
			if d > 0 {
				return false
			}
		}
	}
	return true
}

// ---------------------------------------------------------------- oracle

func oracle(c Case) (out vkit.Outcome) {
	labels := map[string]bool{}
	defer func() {
		for l := range labels {
			out.Labels = append(out.Labels, l)
		}
		sort.Strings(out.Labels)
	}()
	fail := func(sig, observed, expected string) vkit.Outcome {
		out.Fail = &vkit.Failure{Sig: sig, Observed: observed, Expected: expected}
		return out
	}

	m := &model{key: c.Key}
	if m.key == "" {
		m.key = "name"
	}
	st, release, err := acquire(c.Key)
	if err != nil {
		return fail("open error", err.Error(), "a handle")
	}
	defer release()
	if c.Create {
		err = st.h.Create()
	} else {
		err = st.h.CreateIf()
	}
	if err != nil {
		return fail("create error", err.Error(), "table created")
	}
	keyLabel := c.Key
	if keyLabel == "" {
		keyLabel = "default"
	}
	labels["key="+keyLabel] = true

	inserts := 0
	for i, op := range c.Ops {
		if op.Begin {
			st.h.Begin()
		}
		where := fmt.Sprintf("op %d %s", i, op.Kind)
		mutating := false
		auditSig := op.Kind + " state"
		switch op.Kind {
		case "insert":
			mutating = true
			r := *op.Rec
			dup := m.find(m.keyOf(r)) >= 0
			err := st.h.Insert(st.arg(r, c.Ptr))
			if dup {
				labels["insert duplicate key"] = true
			} else {
				if err != nil {
					return fail("insert error", where+": "+err.Error(), "inserted "+canon(r))
				}
				m.rows = append(m.rows, r)
				inserts++
			}

		case "read":
			args, mf, shapes, nAbsent, nBad, absentFirst := st.build(m, op.Filters)
			ss := shapeSig(shapes)
			for _, s := range shapes {
				labels["filter "+s] = true
			}
			if len(mf) > 0 && inserts >= 2 {
				out.NonTrivial = true
			}
			var want []RecData
			for _, r := range m.rows {
				if match(r, mf) {
					want = append(want, r)
				}
			}
			items, err := st.h.Sort(op.Sort...).Read(args...)
			st.h.Sort()
			if len(op.Sort) > 0 {
				labels["read sorted"] = true
			}
			if nBad > 0 {
				labels["read badcol"] = true
				if err == nil && len(items) > 0 {
					got, _ := fromAny(items)
					return fail("unknown-column filter ignored op=read", fmt.Sprintf("%s filters=%s: no error and %d record(s): %s", where, ss, len(got), show(got)), "an error or no records (the record type has no such column)")
				}
				continue
			}
			if err != nil {
				if nAbsent > 0 && absentFirst {
					return fail("nil filter before a real filter op=read", where+" filters="+ss+": "+err.Error(), fmt.Sprintf("%d record(s): %s", len(want), show(want)))
				}
				return fail("read error filters="+ss, where+": "+err.Error(), fmt.Sprintf("%d record(s): %s", len(want), show(want)))
			}
			got, cerr := fromAny(items)
			if cerr != nil {
				return fail("read result type", where+": "+cerr.Error(), "*Rec values")
			}
			switch {
			case len(mf) == 0:
				labels["read all"] = true
			case len(want) == 0:
				labels["read filtered: none match"] = true
			case len(want) == len(m.rows):
				labels["read filtered: all match"] = true
			default:
				labels["read filtered: proper subset"] = true
			}
			if !sameSet(got, want) {
				return fail("read records filters="+ss, fmt.Sprintf("%s filters=%s: %d record(s): %s", where, ss, len(got), show(got)), fmt.Sprintf("%d record(s): %s", len(want), show(want)))
			}
			if len(op.Sort) > 0 && !sortedOK(got, op.Sort) {
				return fail("read order sort="+strings.Join(op.Sort, ","), fmt.Sprintf("%s: order %v", where, got), "non-decreasing by "+strings.Join(op.Sort, ","))
			}

		case "update":
			mutating = true
			args, mf, shapes, nAbsent, nBad, absentFirst := st.build(m, op.Filters)
			ss := shapeSig(shapes)
			auditSig = "update state filters=" + ss
			if nAbsent > 0 && absentFirst {
				auditSig = "nil filter before a real filter op=update"
			}
			for _, s := range shapes {
				labels["filter "+s] = true
			}
			if len(mf) > 0 && inserts >= 2 {
				out.NonTrivial = true
			}
			r := *op.Rec
			var hit []int
			for j, row := range m.rows {
				if match(row, mf) {
					hit = append(hit, j)
				}
			}
			if op.Key != nil && len(hit) > 0 {
				// keep the key of (one of) the matched rows
				src := m.rows[hit[op.Key.Row%len(hit)]]
				switch m.key {
				case "name":
					r.Name = src.Name
				case "id":
					r.ID = src.ID
				case "count":
					r.Count = src.Count
				}
			}
			err := st.h.Update(st.arg(r, c.Ptr), args...)
			if nBad > 0 {
				labels["update badcol"] = true
				auditSig = "unknown-column filter ignored op=update"
				break // state must be unchanged whether or not an error came back
			}
			// would the update leave two rows with one key?
			conflict := false
			if len(hit) > 1 {
				conflict = true
			} else if len(hit) == 1 {
				if j := m.find(m.keyOf(r)); j >= 0 && j != hit[0] {
					conflict = true
				}
			}
			switch {
			case len(hit) == 0:
				labels["update: none match"] = true
			case conflict:
				labels["update: key conflict"] = true
			case len(hit) == len(m.rows):
				labels["update: all match"] = true
			default:
				labels["update: proper subset"] = true
			}
			if conflict {
				break // rejected as a whole: state unchanged
			}
			if err != nil {
				if nAbsent > 0 && absentFirst {
					return fail("nil filter before a real filter op=update", where+" filters="+ss+": "+err.Error(), fmt.Sprintf("%d row(s) replaced", len(hit)))
				}
				return fail("update error filters="+ss, where+": "+err.Error(), fmt.Sprintf("%d row(s) replaced", len(hit)))
			}
			for _, j := range hit {
				m.rows[j] = r
			}

		case "delete":
			mutating = true
			args, mf, shapes, nAbsent, nBad, absentFirst := st.build(m, op.Filters)
			ss := shapeSig(shapes)
			auditSig = "delete state filters=" + ss
			if nAbsent > 0 && absentFirst {
				auditSig = "nil filter before a real filter op=delete"
			}
			for _, s := range shapes {
				labels["filter "+s] = true
			}
			if len(mf) > 0 && inserts >= 2 {
				out.NonTrivial = true
			}
			n, err := st.h.Delete(args...)
			if nBad > 0 {
				labels["delete badcol"] = true
				auditSig = "unknown-column filter ignored op=delete"
				break
			}
			var keep []RecData
			for _, row := range m.rows {
				if !match(row, mf) {
					keep = append(keep, row)
				}
			}
			want := len(m.rows) - len(keep)
			switch {
			case len(mf) == 0:
				labels["delete all"] = true
			case want == 0:
				labels["delete: none match"] = true
			case want == len(m.rows):
				labels["delete: all match"] = true
			default:
				labels["delete: proper subset"] = true
			}
			if err != nil {
				if nAbsent > 0 && absentFirst {
					return fail("nil filter before a real filter op=delete", where+" filters="+ss+": "+err.Error(), fmt.Sprintf("%d row(s) deleted", want))
				}
				return fail("delete error filters="+ss, where+": "+err.Error(), fmt.Sprintf("%d row(s) deleted", want))
			}
			m.rows = keep
			if int(n) != want {
				return fail("delete count filters="+ss, fmt.Sprintf("%s filters=%s: count %d", where, ss, n), fmt.Sprintf("count %d", want))
			}

		case "readone":
			v := m.resolve(*op.Key, m.key)
			k, arg := keyArg(m.key, v)
			j := m.find(k)
			item, err := st.h.ReadOne(arg)
			if j < 0 {
				labels["readone miss"] = true
				if err == nil {
					got, _ := fromAny([]any{item})
					return fail("readone returns a record for an absent key", where+": "+show(got), "an error")
				}
				continue
			}
			labels["readone hit"] = true
			if err != nil {
				return fail("readone error key="+m.key, where+": "+err.Error(), canon(m.rows[j]))
			}
			got, cerr := fromAny([]any{item})
			if cerr != nil {
				return fail("read result type", where+": "+cerr.Error(), "*Rec")
			}
			if canon(got[0]) != canon(m.rows[j]) {
				return fail("readone record key="+m.key, where+": "+canon(got[0]), canon(m.rows[j]))
			}

		case "deleteone":
			mutating = true
			auditSig = "deleteone state key=" + m.key
			v := m.resolve(*op.Key, m.key)
			k, arg := keyArg(m.key, v)
			j := m.find(k)
			err := st.h.DeleteOne(arg)
			if j < 0 {
				labels["deleteone miss"] = true
				break
			}
			labels["deleteone hit"] = true
			if err != nil {
				return fail("deleteone error key="+m.key, where+": "+err.Error(), "row deleted")
			}
			m.rows = append(m.rows[:j:j], m.rows[j+1:]...)

		case "updateone":
			mutating = true
			auditSig = "updateone state key=" + m.key
			r := *op.Rec
			if op.Key != nil && len(m.rows) > 0 {
				src := m.rows[op.Key.Row%len(m.rows)]
				switch m.key {
				case "name":
					r.Name = src.Name
				case "id":
					r.ID = src.ID
				case "count":
					r.Count = src.Count
				}
			}
			j := m.find(m.keyOf(r))
			err := st.h.UpdateOne(st.arg(r, c.Ptr))
			if j < 0 {
				labels["updateone miss"] = true
				break
			}
			labels["updateone hit"] = true
			if err != nil {
				return fail("updateone error key="+m.key, where+": "+err.Error(), "row replaced")
			}
			m.rows[j] = r

		case "createif":
			mutating = true
			labels["createif on existing table"] = true
			if err := st.h.CreateIf(); err != nil {
				return fail("createif error", where+": "+err.Error(), "no error, table kept")
			}

		case "create":
			mutating = true
			labels["create on existing table"] = true
			_ = st.h.Create() // an error is fine; the data must survive

		case "reopen":
			mutating = true
			labels["reopen"] = true
			if err := st.h.Close(); err != nil {
				return fail("close error", where+": "+err.Error(), "closed")
			}
			st.h = nil
			if err := st.open(); err != nil {
				return fail("open error", where+": "+err.Error(), "a handle")
			}
			if err := st.h.CreateIf(); err != nil {
				return fail("createif error", where+": "+err.Error(), "no error, table kept")
			}
		}

		if mutating {
			got, err := st.readAll()
			if err != nil {
				return fail("read-all error", where+": "+err.Error(), "all records")
			}
			if !sameSet(got, m.rows) {
				return fail(auditSig, fmt.Sprintf("after %s the table holds %d record(s): %s", where, len(got), show(got)), fmt.Sprintf("%d record(s): %s", len(m.rows), show(m.rows)))
			}
		}
	}
	labels[fmt.Sprintf("rows at end=%s", bucket(len(m.rows)))] = true
	return out
}

func bucket(n int) string {
	switch {
	case n == 0:
		return "0"
	case n == 1:
		return "1"
	case n <= 3:
		return "2-3"
	}
	return "4+"
}

// keyArg gives the model key and the Go value handed to ReadOne/DeleteOne.
func keyArg(key string, v value) (string, any) {
	switch key {
	case "id":
		u, _ := uuid.Parse(v.s)
		return "u:" + v.s, u
	case "count":
		return fmt.Sprintf("i:%d", v.i), v.i
	}
	return "s:" + v.s, v.s
}

// fixed cases: the shapes the callers use, spelled out.
func fixed() []Case {
	a := RecData{Name: "a", ID: uuidPool[1], Count: 1, Active: true, Tags: []string{"x"}, Blob: `{"a":1}`, Table: "t1"}
	b := RecData{Name: "O'Brien", ID: uuidPool[2], Count: -1, Active: false, Tags: nil, Blob: "", Table: "t1"}
	d := RecData{Name: "", ID: uuidPool[0], Count: math.MaxInt64, Active: true, Tags: []string{}, Blob: "null", Table: "NULL"}
	lit := func(s string) Val { return Val{Row: -1, S: s} }
	return []Case{
		{Key: "", Ops: []Op{
			{Kind: "insert", Rec: &a}, {Kind: "insert", Rec: &b}, {Kind: "insert", Rec: &d},
			{Kind: "read", Filters: []Filter{{Kind: "valid", Col: "name", Op: "eq", V: lit("O'Brien")}}},
			{Kind: "read", Filters: []Filter{{Kind: "valid", Col: "table", Op: "eq", V: lit("t1")}, {Kind: "valid", Col: "active", Op: "eq", V: Val{Row: -1, B: true}}}},
			{Kind: "read", Filters: []Filter{{Kind: "valid", Col: "count", Op: "lt", V: Val{Row: -1, I: 1}}}, Sort: []string{"name"}},
			{Kind: "update", Rec: &RecData{Name: "a", ID: uuidPool[3], Count: 7, Tags: []string{"y"}, Blob: "{}", Table: "t2"}, Filters: []Filter{{Kind: "valid", Col: "name", Op: "eq", V: lit("a")}}},
			{Kind: "reopen"},
			{Kind: "delete", Filters: []Filter{{Kind: "valid", Col: "Table", Op: "eq", V: lit("t1")}}},
			{Kind: "read"},
		}},
		{Key: "name", Ops: []Op{
			{Kind: "insert", Rec: &a, Begin: true}, {Kind: "insert", Rec: &b, Begin: true},
			{Kind: "readone", Key: &Val{Row: -1, S: "a"}, Begin: true},
			{Kind: "updateone", Rec: &RecData{Name: "a", ID: uuidPool[4], Count: 2, Blob: "[]", Table: "z"}, Begin: true},
			{Kind: "deleteone", Key: &Val{Row: -1, S: "O'Brien"}, Begin: true},
			{Kind: "readone", Key: &Val{Row: -1, S: "O'Brien"}, Begin: true},
			{Kind: "read", Sort: []string{"name"}, Begin: true},
		}},
	}
}

func TestC30(t *testing.T) {
	runDir = os.Getenv("VERIF_RUN_DIR")
	if runDir == "" {
		runDir = t.TempDir()
	}
	vkit.Run(t, vkit.Spec[Case]{
		ID:    "C30",
		Level: "exploration",
		Rule: "histories of 1..16 operations (insert, read, update, delete, readone, deleteone, updateone, createif, create, close+reopen) on a fresh SQLite file, " +
			"record = {Name string, ID uuid, Count int, Active bool, Tags []string, Blob json.RawMessage, Table string}, primary key default/name/id/count; " +
			"0..3 filters per read/update/delete (eq, ne, lt, gt on the string/uuid/int/bool columns, column names in any letter case, values from small pools with quotes, NULL-like, empty, unicode, boundary ints, or taken from a model row); " +
			"one history in four may also pass nil filters (callers' 'no filter') and filters on unknown columns. After every mutating step the whole table is read and compared with the model. " +
			"Non-trivial: a read/update/delete with at least one real filter after >= 2 successful inserts; distinct by history.",
		Assumptions: []string{
			"filter values have the column's Go type; no filters on []string / RawMessage columns; strings are valid UTF-8 without NUL",
			"a nil *Filter means 'no filter' (security.go passes them deliberately)",
			"ReadOne/DeleteOne/UpdateOne only with an explicit SetPrimaryKey (dsns); Sort only by name/id/count/active",
			"SQLite TEXT comparison is bytewise (BINARY collation), which equals Go string order",
			"an insert or update that would give two rows one primary key is rejected as a whole and changes nothing",
		},
		Gen:      gen,
		Oracle:   oracle,
		Fixed:    fixed,
		Quick:    500,
		Thorough: 4000,
	})
}
