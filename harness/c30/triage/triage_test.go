package triage

import (
	"path/filepath"
	"testing"

	"github.com/tucats/ego/internal/resources"
)

type Perm struct {
	ID    string
	User  string
	DSN   string
	Table string
}

func TestTriage(t *testing.T) {
	h, err := resources.Open(Perm{}, "table_perms", "sqlite3://"+filepath.Join(t.TempDir(), "x.db"))
	if err != nil {
		t.Fatal(err)
	}
	if err := h.CreateIf(); err != nil {
		t.Fatal(err)
	}
	h.Insert(Perm{ID: "1", User: "alice", DSN: "d1", Table: "t"})
	h.Insert(Perm{ID: "2", User: "bob", DSN: "d1", Table: "t"})

	// 1. unknown column
	f := h.Equals("name", "alice")
	t.Logf("Equals(\"name\") filter=%v handle.Err=%v", f, h.Err)
	rows, err := h.Read(f)
	t.Logf("Read(unknown col): %d rows err=%v", len(rows), err)
	rows, err = h.Read(h.Equals("dsn", "d1"), h.Equals("name", "alice"))
	t.Logf("Read(dsn=d1, unknown col): %d rows err=%v", len(rows), err)

	// 2. nil filter first (ReadAllPermissions: dsn=@all, ?user=alice)
	var dsnFilter *resources.Filter
	rows, err = h.Read(dsnFilter, h.Equals("user", "alice"))
	t.Logf("Read(nil, user=alice): %d rows err=%v", len(rows), err)
	rows, err = h.Read(h.Equals("user", "alice"), dsnFilter)
	t.Logf("Read(user=alice, nil): %d rows err=%v", len(rows), err)
	n, err := h.Delete(dsnFilter, h.Equals("table", "zzz"))
	t.Logf("Delete(nil, table=zzz): n=%d err=%v", n, err)

	// 3. delete with unknown column
	n, err = h.Delete(h.Equals("nope", "x"))
	t.Logf("Delete(unknown col): n=%d err=%v", n, err)
	rows, _ = h.Read()
	t.Logf("rows left: %d", len(rows))
}
