// Package c36 decides C36 "langlint rewrites are crash-safe" by fault
// enumeration with strace: for a message file, the file-system calls of a clean
// `langlint <file>` run are recorded, then the run is repeated once per call
// with SIGKILL delivered on entry to exactly that call
// (strace -f -e inject=<syscall>:signal=SIGKILL:when=<i>; the call itself does
// not happen), which is a real crash between two file-system operations with
// no hook in the tool.
//
// What is asserted after each crash (statement of C36):
//   - the path holds exactly the original bytes or exactly the bytes a clean run
//     writes (never missing, empty, or partial);
//   - a subsequent uninterrupted `langlint <file>` succeeds (exit 0, no error
//     line), leaves the formatted bytes at the path and creates no file that it
//     does not remove again ("no temporary or backup files" is read as "its
//     own": files the *crashed* run left are only counted in the labels).
//
// Preconditions / facts learned while probing:
//   - The sequence of file-system calls of a run is deterministic; which thread
//     issues a call is not (under load the Go scheduler moves the main goroutine
//     to another thread). A crash point is therefore identified by (syscall
//     name, occurrence of that name in the whole clean trace). strace, however,
//     keeps its injection counter per syscall name *and per thread*, so the
//     `when=` value is a prediction: the occurrence on its thread in the most
//     frequent thread partition of the clean runs, alternating with the global
//     occurrence. After every injected run the harness checks that the process
//     was killed and that the calls up to and including the killed one are
//     exactly the predicted prefix of the clean trace; otherwise the run is
//     discarded and repeated (up to 12 times). A point that cannot be
//     reproduced is inconclusive, never a violation. No verdict depends on
//     timing: there are no time limits, only trace comparisons.
//   - Generated and fixed files have unique keys and balanced braces, so a clean
//     run prints no warnings and exits 0 ("succeeds" is then unambiguous).
//   - If strace is missing or ptrace is not permitted the check reports
//     HARNESS-ERROR (exit 2), never a violation.
package c36

import (
	"bytes"
	"encoding/json"
	"errors"
	"fmt"
	"os"
	"os/exec"
	"path/filepath"
	"regexp"
	"sort"
	"strconv"
	"strings"
	"sync"
	"sync/atomic"
	"testing"

	"github.com/tucats/ego/verif/vkit"
	"pgregory.net/rapid"
)

// Case is one crash point of one file, or (Syscall == "") every crash point
// of that file.
type Case struct {
	Name    string `json:"name"`
	Content string `json:"content"`
	Syscall string `json:"syscall,omitempty"`
	When    int    `json:"when,omitempty"`
}

const (
	fileName = "messages_xx.txt"
	// file-system calls: everything that takes a path (%file) plus the
	// descriptor calls a rewrite can be made of. fcntl is left out: Go issues
	// F_GETFL/F_SETFL pairs after every open; they change no file, so the state
	// on entry to them is the state on entry to the next call that is traced.
	traceSet = "%file,read,write,pread64,pwrite64,writev,close,fstat,fchmod,fchown,fsync,fdatasync,sync_file_range,ftruncate,fallocate,lseek,getdents64,flock,dup,dup3"
	attempts = 12
)

var (
	binDir    string
	scratch   string
	dirSeq    atomic.Int64
	knownSigs = map[string]bool{}

	statMu sync.Mutex
	stats  = map[string]int{}

	cacheMu sync.Mutex
	cache   = map[string]*fileInfo{}
)

func stat(k string, n int) { statMu.Lock(); stats[k] += n; statMu.Unlock() }

// ------------------------------------------------------------------ tracing

type event struct {
	Tid  int
	Name string
	Key  string // name + the arguments that identify the call (paths, written bytes)
}

var (
	entryRE = regexp.MustCompile(`^(\d+)\s+([a-z_0-9]+)\((.*)$`)
	tmpRE   = regexp.MustCompile(`\.langlint-\d+`)
	strRE   = regexp.MustCompile(`"(?:[^"\\]|\\.)*"`)
)

// parseTrace returns the syscall entries of an strace -f -o file in the order
// strace saw them, and whether the tracee was killed.
func parseTrace(b []byte) (evs []event, killed bool) {
	for _, line := range strings.Split(string(b), "\n") {
		m := entryRE.FindStringSubmatch(line)
		if m == nil {
			if strings.Contains(line, "+++ killed by SIGKILL +++") {
				killed = true
			}
			continue
		}
		tid, _ := strconv.Atoi(m[1])
		name, rest := m[2], m[3]
		if name == "execve" {
			// strace's own exec of the tool: langlint does not exist yet, and
			// strace cannot inject into it
			continue
		}
		rest = tmpRE.ReplaceAllString(rest, ".langlint-N")
		key := name
		switch name {
		case "read", "pread64", "readlinkat", "readlink", "getdents64", "close", "fstat", "fchmod", "fchown", "fsync", "fdatasync",
			"ftruncate", "lseek", "flock", "dup", "dup3", "fallocate", "sync_file_range":
			// descriptor calls: descriptor numbers are incidental, quoted
			// strings (if any) are results
		case "write", "pwrite64", "writev":
			// the bytes written tell the temp file from stdout
			if q := strRE.FindString(rest); q != "" {
				key += "(" + q + ")"
			}
		default: // path calls: the quoted strings are the paths
			key += "(" + strings.Join(strRE.FindAllString(rest, -1), ",") + ")"
		}
		evs = append(evs, event{Tid: tid, Name: name, Key: key})
	}
	return evs, killed
}

func keys(evs []event) []string {
	ks := make([]string, len(evs))
	for i, e := range evs {
		ks[i] = e.Key
	}
	return ks
}

func newDir() (string, error) {
	d := filepath.Join(scratch, fmt.Sprintf("d%d", dirSeq.Add(1)))
	return d, os.MkdirAll(d, 0o755)
}

// runTraced runs langlint on dir/messages_xx.txt under strace; inject is ""
// or "<syscall>:signal=SIGKILL:when=<i>".
func runTraced(dir, inject string) (evs []event, killed bool, exit int, output string, err error) {
	tr := filepath.Join(dir, ".trace")
	args := []string{"-f", "-qq", "-o", tr, "-e", "trace=" + traceSet}
	if inject != "" {
		args = append(args, "-e", "inject="+inject)
	}
	args = append(args, filepath.Join(binDir, "langlint"), fileName)
	cmd := exec.Command("strace", args...)
	cmd.Dir = dir
	// With GOMAXPROCS set, the Go runtime of the tool does not start its
	// cgroup-limit poller, whose background pread64 calls would interleave
	// with the tool's own calls at varying positions.
	cmd.Env = append(os.Environ(), "GOMAXPROCS=2")
	out, rerr := cmd.CombinedOutput()
	output = string(out)
	stat("strace_runs", 1)
	if rerr != nil {
		var ee *exec.ExitError
		if !errors.As(rerr, &ee) {
			return nil, false, 0, output, rerr
		}
		exit = ee.ExitCode()
	}
	b, ferr := os.ReadFile(tr)
	_ = os.Remove(tr)
	if ferr != nil {
		return nil, false, exit, output, fmt.Errorf("strace wrote no trace (%v): %s", ferr, clip(output))
	}
	evs, killed = parseTrace(b)
	if len(evs) == 0 {
		return nil, killed, exit, output, fmt.Errorf("strace trace has no syscall entries: %s", clip(output))
	}
	return evs, killed, exit, output, nil
}

func listDir(dir string) []string {
	ents, _ := os.ReadDir(dir)
	var names []string
	for _, e := range ents {
		if e.Name() == ".trace" {
			continue
		}
		names = append(names, e.Name())
	}
	sort.Strings(names)
	return names
}

// fileInfo is what the clean runs of one file content tell.
type fileInfo struct {
	err       string // measurement failed (inconclusive)
	formatted []byte
	changed   bool
	events    []event
	points    []point
	tempIdx   int // index of the call that creates the temp file, -1 if none
	openIdx   int // index of the first open of the target
	lastDirOp int // index of the last rename/unlink
}

// point is one call of the clean trace = the crash point "on entry to it".
type point struct {
	Name       string
	When       int // occurrence of this syscall name in the whole trace (identifies the point)
	ThreadWhen int // occurrence on its thread in the most frequent clean thread partition
	Index      int // position in the clean trace
}

func cleanOnce(content []byte) (evs []event, formatted []byte, err error) {
	dir, err := newDir()
	if err != nil {
		return nil, nil, err
	}
	defer os.RemoveAll(dir)
	if err := os.WriteFile(filepath.Join(dir, fileName), content, 0o644); err != nil {
		return nil, nil, err
	}
	evs, killed, exit, out, err := runTraced(dir, "")
	if err != nil {
		return nil, nil, err
	}
	if killed || exit != 0 || strings.Contains(out, ": error: ") || strings.Contains(out, ": warning: ") {
		return nil, nil, fmt.Errorf("clean run did not succeed silently: exit %d killed=%v output %q", exit, killed, clip(out))
	}
	formatted, err = os.ReadFile(filepath.Join(dir, fileName))
	if err != nil {
		return nil, nil, fmt.Errorf("clean run: %v", err)
	}
	if l := listDir(dir); len(l) != 1 {
		return nil, nil, fmt.Errorf("CLEAN-RUN-LEFT-FILES %v", l)
	}
	return evs, formatted, nil
}

// measure records the clean trace of a content (twice, to rule out a run in
// which the runtime's background calls interleaved unusually) and derives the
// crash points.
func measure(content string) *fileInfo {
	cacheMu.Lock()
	if fi, ok := cache[content]; ok {
		cacheMu.Unlock()
		return fi
	}
	cacheMu.Unlock()
	fi := &fileInfo{tempIdx: -1, openIdx: -1, lastDirOp: -1}
	defer func() {
		cacheMu.Lock()
		cache[content] = fi
		cacheMu.Unlock()
	}()
	// Clean runs: the sequence of calls is deterministic, the thread that
	// issues a call is not (the Go scheduler may move the main goroutine). Take
	// the call sequence that at least two runs agree on, and of the thread
	// partitions seen with it the most frequent one.
	var runs [][]event
	bySeq := map[string][]int{}
	chosen := ""
	for try := 0; try < 6 && (chosen == "" || try < 3); try++ {
		evs, formatted, err := cleanOnce([]byte(content))
		if err != nil {
			fi.err = err.Error()
			return fi
		}
		if fi.formatted != nil && !bytes.Equal(fi.formatted, formatted) {
			fi.err = "two clean runs produced different content"
			return fi
		}
		fi.formatted = formatted
		k := strings.Join(keys(evs), "\n")
		runs = append(runs, evs)
		bySeq[k] = append(bySeq[k], len(runs)-1)
		if len(bySeq[k]) >= 2 && chosen == "" {
			chosen = k
		}
	}
	if chosen == "" {
		fi.err = "no two clean traces agree on the sequence of calls"
		return fi
	}
	parts := map[string]int{}
	best, bestN := "", 0
	for _, ri := range bySeq[chosen] {
		pk := fmt.Sprint(threadRanks(runs[ri]))
		parts[pk]++
		if parts[pk] > bestN {
			best, bestN = pk, parts[pk]
			fi.events = runs[ri]
		}
	}
	_ = best
	fi.changed = !bytes.Equal(fi.formatted, []byte(content))
	ranks := threadRanks(fi.events)
	perThread := map[string]int{}
	global := map[string]int{}
	for n, e := range fi.events {
		ck := fmt.Sprintf("%d/%s", ranks[n], e.Name)
		perThread[ck]++
		global[e.Name]++
		fi.points = append(fi.points, point{Name: e.Name, When: global[e.Name], ThreadWhen: perThread[ck], Index: n})
		if fi.openIdx < 0 && e.Name == "openat" && strings.Contains(e.Key, fileName+`"`) {
			fi.openIdx = n
		}
		if fi.tempIdx < 0 && strings.HasPrefix(e.Name, "open") && strings.Contains(e.Key, ".langlint-") {
			fi.tempIdx = n
		}
		if strings.HasPrefix(e.Name, "rename") || strings.HasPrefix(e.Name, "unlink") {
			fi.lastDirOp = n
		}
	}
	return fi
}

// threadRanks numbers the threads of a trace in order of first appearance.
func threadRanks(evs []event) []int {
	m := map[int]int{}
	r := make([]int, len(evs))
	for i, e := range evs {
		k, ok := m[e.Tid]
		if !ok {
			k = len(m)
			m[e.Tid] = k
		}
		r[i] = k
	}
	return r
}

func (fi *fileInfo) phase(n int) string {
	switch {
	case fi.openIdx < 0 || n <= fi.openIdx:
		return "startup"
	case fi.tempIdx < 0:
		return "no-rewrite"
	case n <= fi.tempIdx:
		return "read"
	case n <= fi.lastDirOp:
		return "rewrite"
	default:
		return "after"
	}
}

// ------------------------------------------------------------------- oracle

type pointResult struct {
	inconclusive string
	fail         *vkit.Failure
	nontrivial   bool
	labels       []string
}

func describe(content, formatted []byte, b []byte, err error) string {
	switch {
	case err != nil:
		return "missing"
	case bytes.Equal(b, content):
		return "original"
	case bytes.Equal(b, formatted):
		return "formatted"
	case len(b) == 0:
		return "empty"
	case bytes.HasPrefix(formatted, b):
		return "partial-formatted"
	case bytes.HasPrefix(content, b):
		return "partial-original"
	default:
		return "other"
	}
}

func others(dir string, content, formatted []byte) string {
	var parts []string
	for _, n := range listDir(dir) {
		if n == fileName {
			continue
		}
		kind := "other-file"
		switch {
		case strings.HasSuffix(n, ".langlint-bak"):
			kind = "backup"
		case strings.Contains(n, ".langlint-"):
			kind = "temp"
		}
		b, err := os.ReadFile(filepath.Join(dir, n))
		parts = append(parts, kind+"="+describe(content, formatted, b, err))
	}
	if len(parts) == 0 {
		return "no other file"
	}
	sort.Strings(parts)
	return strings.Join(parts, " ")
}

func runPoint(c Case, fi *fileInfo, p point) pointResult {
	var r pointResult
	content := []byte(c.Content)
	want := keys(fi.events[:p.Index+1])
	ph := fi.phase(p.Index)
	var dir string
	verified := false
	why := ""
	for a := 0; a < attempts && !verified; a++ {
		if dir != "" {
			os.RemoveAll(dir)
			stat("points_retried", 1)
		}
		var err error
		dir, err = newDir()
		if err == nil {
			err = os.WriteFile(filepath.Join(dir, fileName), content, 0o644)
		}
		if err != nil {
			r.inconclusive = "scratch: " + err.Error()
			return r
		}
		// strace counts per thread: try the occurrence the clean partition
		// predicts, and alternately the global occurrence (all calls on one thread)
		when := p.ThreadWhen
		if a%2 == 1 {
			when = p.When
		}
		evs, killed, _, out, err := runTraced(dir, fmt.Sprintf("%s:signal=SIGKILL:when=%d", p.Name, when))
		if err != nil {
			r.inconclusive = "strace: " + clip(err.Error())
			os.RemoveAll(dir)
			return r
		}
		got := keys(evs)
		switch {
		case !killed:
			why = "process was not killed: " + clip(out)
		case len(got) != len(want):
			why = fmt.Sprintf("killed at call %d (%s), predicted call %d (%s)", len(got), got[len(got)-1], len(want), want[len(want)-1])
		case strings.Join(got, "\n") != strings.Join(want, "\n"):
			why = "calls before the kill differ from the clean trace"
		default:
			verified = true
		}
	}
	defer os.RemoveAll(dir)
	if !verified {
		stat("points_unreproduced", 1)
		r.inconclusive = "crash point not reproduced"
		r.labels = append(r.labels, "unreproduced "+ph+":"+p.Name+" ("+clip(why)+")")
		return r
	}
	stat("points_verified", 1)
	r.nontrivial = fi.tempIdx >= 0 && p.Index > fi.tempIdx
	r.labels = append(r.labels, "kill "+ph+":"+p.Name)

	// 1. the path holds the original or the formatted bytes
	path := filepath.Join(dir, fileName)
	b, err := os.ReadFile(path)
	state := describe(content, fi.formatted, b, err)
	oth := others(dir, content, fi.formatted)
	r.labels = append(r.labels, "after crash: path "+state)
	where := fmt.Sprintf("SIGKILL on entry to %s (occurrence %d of %s, call %d of %d of the clean run, phase %s)", fi.events[p.Index].Key, p.When, p.Name, p.Index+1, len(fi.events), ph)
	if state != "original" && state != "formatted" {
		r.fail = &vkit.Failure{Sig: "after crash: path " + state + "; " + oth,
			Observed: fmt.Sprintf("%s: path is %s; directory: %v (%s)", where, state, listDir(dir), oth),
			Expected: "the path holds exactly the original or exactly the formatted content"}
		return r
	}

	// 2. a later uninterrupted run succeeds and leaves nothing of its own
	before := listDir(dir)
	cmd := exec.Command(filepath.Join(binDir, "langlint"), fileName)
	cmd.Dir = dir
	out, rerr := cmd.CombinedOutput()
	stat("later_runs", 1)
	if rerr != nil || strings.Contains(string(out), ": error: ") {
		r.fail = &vkit.Failure{Sig: "later run fails after a crash that left the path " + state + "; " + oth,
			Observed: fmt.Sprintf("%s; then `langlint %s`: %v, output %q", where, fileName, rerr, clip(string(out))),
			Expected: "a subsequent uninterrupted run succeeds"}
		return r
	}
	b2, err := os.ReadFile(path)
	if err != nil || !bytes.Equal(b2, fi.formatted) {
		r.fail = &vkit.Failure{Sig: "later run leaves wrong content after a crash that left the path " + state,
			Observed: fmt.Sprintf("%s; after the later run the path is %s", where, describe(content, fi.formatted, b2, err)),
			Expected: "formatted content at the path"}
		return r
	}
	had := map[string]bool{}
	for _, n := range before {
		had[n] = true
	}
	var fresh []string
	after := listDir(dir)
	for _, n := range after {
		if !had[n] {
			fresh = append(fresh, n)
		}
	}
	if len(fresh) > 0 {
		r.fail = &vkit.Failure{Sig: "later run leaves its own temporary/backup file behind",
			Observed: fmt.Sprintf("%s; the later run created and left %v", where, fresh),
			Expected: "no new file besides the message file"}
		return r
	}
	if len(after) > 1 {
		r.labels = append(r.labels, "crashed run's leftover still there after the later run")
	}
	return r
}

func oracle(c Case) vkit.Outcome {
	var out vkit.Outcome
	fi := measure(c.Content)
	if fi.err != "" {
		if strings.HasPrefix(fi.err, "CLEAN-RUN-LEFT-FILES") {
			out.Fail = &vkit.Failure{Sig: "uninterrupted run leaves a temporary/backup file behind",
				Observed: fi.err, Expected: "only the message file in the directory after a successful run"}
			return out
		}
		out.Inconclusive = "clean run could not be measured"
		out.Labels = []string{"measure: " + clipN(fi.err, 100)}
		return out
	}
	var pts []point
	if c.Syscall == "" {
		pts = fi.points
		stat("files_enumerated_as_one_case", 1)
	} else {
		for _, p := range fi.points {
			if p.Name == c.Syscall && p.When == c.When {
				pts = append(pts, p)
			}
		}
		if len(pts) == 0 {
			out.Inconclusive = "crash point not in the clean trace"
			return out
		}
	}
	var fails []*vkit.Failure
	for _, p := range pts {
		r := runPoint(c, fi, p)
		out.Labels = append(out.Labels, r.labels...)
		if r.inconclusive != "" {
			out.Inconclusive = r.inconclusive
			continue
		}
		if r.nontrivial {
			out.NonTrivial = true
			stat("points_nontrivial", 1)
		}
		if r.fail != nil {
			fails = append(fails, r.fail)
		}
	}
	if c.Syscall == "" {
		out.Labels = append(out.Labels, fmt.Sprintf("file: changed=%v bytes~%s", fi.changed, sizeClass(len(c.Content))))
	}
	for _, f := range fails {
		if !knownSigs[f.Sig] {
			out.Fail = f
			return out
		}
	}
	if len(fails) > 0 {
		out.Fail = fails[0]
	}
	return out
}

func sizeClass(n int) string {
	switch {
	case n < 100:
		return "<100"
	case n < 4096:
		return "<4K"
	case n < 65536:
		return "<64K"
	default:
		return ">=64K"
	}
}

func clip(s string) string { return clipN(s, 500) }

func clipN(s string, n int) string {
	if len(s) > n {
		return s[:n] + "…"
	}
	return s
}

// ------------------------------------------------------------ files and cases

func bigFile(sections, keysPer int) string {
	var sb strings.Builder
	sb.WriteString("# generated large file\n\n")
	for s := sections - 1; s >= 0; s-- {
		fmt.Fprintf(&sb, "[section%03d]\n", s)
		for k := keysPer - 1; k >= 0; k-- {
			fmt.Fprintf(&sb, "key.%04d=Message number {{n}} of section %d, key %d: some text to give the line a realistic length\n", (k*7919)%keysPer, s, k)
		}
		sb.WriteString("\n\n")
	}
	return sb.String()
}

func fixedFiles() []Case {
	return []Case{
		{Name: "tiny", Content: "b=2\na=1\n"},
		{Name: "sections", Content: "# Messages\n\nego=Execute\n\n\n[ego]\nrun=Run a program\nhello=Hello, {{name}}!\n# about config\nconfig.set=Set\nconfig=Manage\n[error]\nz.last=last\na.first=first '{' brace\n\n[msg]\nx = spaced\n"},
		{Name: "crlf-no-final-newline", Content: "[s]\r\nb=2\r\n\r\n\r\na=1\r\n# c\r\nk=v=w"},
		{Name: "blank-lines-only", Content: "\n\n\n"},
		{Name: "already-formatted", Content: "# c\n\n[s]\na=1\nb=2\n"},
		{Name: "large-300KB", Content: bigFile(30, 100)},
	}
}

// fixedCases enumerates every crash point of every fixed file as its own case.
func fixedCases() []Case {
	var cs []Case
	for _, f := range fixedFiles() {
		fi := measure(f.Content)
		if fi.err != "" {
			cs = append(cs, f) // the oracle reports why
			continue
		}
		for _, p := range fi.points {
			cs = append(cs, Case{Name: f.Name, Content: f.Content, Syscall: p.Name, When: p.When})
		}
	}
	return cs
}

// genFile draws a warning-free message file: unique keys per section, unique
// section names, balanced braces; layout and order are free.
func genFile(t *rapid.T) Case {
	crlf := rapid.IntRange(0, 3).Draw(t, "crlf") == 0
	finalNL := rapid.IntRange(0, 3).Draw(t, "final_newline") != 0
	nsec := rapid.IntRange(0, 4).Draw(t, "sections")
	scale := rapid.SampledFrom([]int{1, 1, 1, 4, 40}).Draw(t, "scale")
	var lines []string
	if rapid.Bool().Draw(t, "head_comment") {
		lines = append(lines, "# Messages for a generated language")
	}
	for s := -1; s < nsec; s++ {
		if s >= 0 {
			lines = append(lines, fmt.Sprintf("[sec%d]", rapid.IntRange(0, 9).Draw(t, "secname")*10+s))
		}
		nk := rapid.IntRange(0, 6).Draw(t, "keys") * scale
		ids := rapid.Permutation(seq(nk)).Draw(t, "order")
		for _, id := range ids {
			key := fmt.Sprintf("k%d", id)
			if id%3 == 0 {
				key = fmt.Sprintf("grp.k%d", id)
			}
			val := rapid.SampledFrom([]string{"text", "Hello, {{name}}!", "a = b", "", "值 '{' x", "trailing  ", "1234567890 1234567890 1234567890"}).Draw(t, "value")
			lines = append(lines, key+"="+val)
			switch rapid.IntRange(0, 9).Draw(t, "between") {
			case 0:
				lines = append(lines, "")
			case 1:
				lines = append(lines, "# note", "")
			}
		}
	}
	eol := "\n"
	if crlf {
		eol = "\r\n"
	}
	content := strings.Join(lines, eol)
	if finalNL && len(lines) > 0 {
		content += eol
	}
	return Case{Name: "generated", Content: content}
}

func seq(n int) []int {
	s := make([]int, n)
	for i := range s {
		s[i] = i
	}
	return s
}

func loadKnownSigs() {
	p := os.Getenv("VERIF_KNOWN")
	if p == "" {
		p = filepath.Join(vkit.Root(), "known_findings.json")
	}
	b, err := os.ReadFile(p)
	if err != nil {
		return
	}
	var kf struct {
		Findings []struct {
			Property string `json:"property"`
			Sig      string `json:"sig"`
		} `json:"findings"`
	}
	if json.Unmarshal(b, &kf) == nil {
		for _, f := range kf.Findings {
			if f.Property == "C36" {
				knownSigs[f.Sig] = true
			}
		}
	}
}

func harnessError(t *testing.T, format string, args ...any) {
	msg := strings.ReplaceAll(fmt.Sprintf(format, args...), "\n", " | ")
	fmt.Printf("HARNESS-ERROR property=C36 %s\n", msg)
	t.Fatalf("harness error: %s", msg)
}

func TestC36(t *testing.T) {
	binDir = os.Getenv("VERIF_BIN")
	if binDir == "" {
		binDir = filepath.Join(vkit.Root(), ".bin")
	}
	if _, err := os.Stat(filepath.Join(binDir, "langlint")); err != nil {
		harnessError(t, "missing tool binary langlint (run tools/prep.sh langlint): %v", err)
	}
	if _, err := exec.LookPath("strace"); err != nil {
		harnessError(t, "strace is not installed: %v", err)
	}
	base := os.Getenv("VERIF_RUN_DIR")
	if base == "" {
		base = t.TempDir()
	}
	var err error
	scratch, err = os.MkdirTemp(base, fmt.Sprintf("c36-%d-", vkit.ShardIndex()))
	if err != nil {
		harnessError(t, "scratch directory: %v", err)
	}
	defer os.RemoveAll(scratch)
	loadKnownSigs()

	// smoke test: can strace trace and kill here at all?
	{
		dir, _ := newDir()
		_ = os.WriteFile(filepath.Join(dir, fileName), []byte("b=2\na=1\n"), 0o644)
		evs, killed, _, out, err := runTraced(dir, "openat:signal=SIGKILL:when=1")
		if err != nil || !killed || len(evs) != 1 {
			harnessError(t, "strace cannot trace/inject here (ptrace not permitted?): err=%v killed=%v calls=%d output=%s", err, killed, len(evs), clip(out))
		}
		os.RemoveAll(dir)
	}

	vkit.Run(t, vkit.Spec[Case]{
		ID:    "C36",
		Level: "fault_enumeration",
		Rule: "for each message file (6 fixed files from 3 bytes to 300 KB incl. CRLF, blank-only and already-formatted ones; plus generated warning-free files) " +
			"the file-system calls of a clean `langlint <file>` run are recorded with strace (" + traceSet + "), and the run is repeated with SIGKILL injected on entry to every " +
			"(syscall, occurrence) pair of that trace - exhaustive per file. Fixed files: one case per crash point; generated files: one case enumerates all points of the file. " +
			"Each injected run is checked to have died at the predicted call after the predicted prefix. " +
			"Non-trivial: the crash point lies after the temp file was created. Distinct by (file, syscall, occurrence).",
		Assumptions: []string{
			"a crash is a SIGKILL between two file-system calls (on entry to a call); power loss / page-cache loss (missing fsync) is not modelled",
			"'no temporary or backup files' is read as: the later run leaves none of its own; leftovers of the crashed run are only counted (label)",
			"the clean run of every file used exits 0 without warnings, so 'succeeds' means exit 0 and formatted content",
			"the traced runs set GOMAXPROCS=2 so that the Go runtime's cgroup poller (background pread64 calls) does not perturb the trace; the tool's own calls are unaffected",
			"strace counts injections per syscall name and thread; a crash point whose injected run did not die at the predicted call is retried and, failing that, inconclusive",
		},
		Gen:      genFile,
		Oracle:   oracle,
		Fixed:    fixedCases,
		Quick:    2,
		Thorough: 6,
		Extra: func() map[string]any {
			statMu.Lock()
			defer statMu.Unlock()
			m := map[string]any{}
			for k, v := range stats {
				m[k] = v
			}
			var names []string
			for _, f := range fixedFiles() {
				names = append(names, f.Name)
			}
			m["files_enumerated_point_by_point"] = fmt.Sprintf("%d fixed files (%s), their crash points distributed over the shards", len(names), strings.Join(names, ", "))
			return m
		},
	})
}
