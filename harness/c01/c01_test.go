// Package c01 decides property C01 "Go-compatible programs print what Go
// prints": generated programs of the documented common core (proggen.GoProgram)
// are compiled by the real Go toolchain (goref, many programs per binary) and
// run by Ego in-process in all three type modes; standard output and
// abort/no-abort must agree.
//
// What is compared (and why):
//   - no abort in Go  => Ego reports no error and prints exactly Go's stdout;
//   - Go aborts with a runtime panic (injected integer division by zero, index
//     out of range, or an unrecovered panic(string)) => Ego also stops with an
//     error, after printing exactly what Go printed before the abort. Ego
//     writes its own abort report ("panic: <msg>" / "Call frames:" lines) to
//     the program's output stream where Go writes its report to stderr; that
//     report is Ego's diagnostic, not program output, so a suffix consisting
//     only of that report is accepted.
//
// Every mismatch found in-process is confirmed with the real CLI
// ($VERIF_BIN/ego run --types M) before it is reported, because the property
// is about what a user of `ego run` sees.
package c01

import (
	"encoding/json"
	"fmt"
	"os"
	"os/exec"
	"path/filepath"
	"regexp"
	"strings"
	"sync"
	"testing"

	"github.com/tucats/ego/verif/egorun"
	"github.com/tucats/ego/verif/goref"
	"github.com/tucats/ego/verif/proggen"
	"github.com/tucats/ego/verif/vkit"
	"pgregory.net/rapid"
)

// Case is one generated program.
type Case struct {
	Index   int             `json:"index"`
	Program proggen.Program `json:"program"`
	// Known is set only on hand-written cases that reproduce a recorded
	// finding (a difference from Go that ego's own tests pin, so it cannot be
	// repaired here); their failure signature is "pinned-difference: <Known>".
	// Generated cases never carry it, so a recorded finding cannot hide a
	// failure of a generated program.
	Known string `json:"known,omitempty"`
}

var (
	goMu      sync.Mutex
	goResults = map[string]goref.Result{} // by program body
)

func goResult(p proggen.Program) (goref.Result, error) {
	goMu.Lock()
	r, ok := goResults[p.Body]
	goMu.Unlock()
	if ok {
		return r, nil
	}
	rs, err := goref.RunBatch([]goref.Unit{{Body: p.Body, Entry: p.Prefix + "main"}})
	if err != nil {
		return goref.Result{}, err
	}
	goMu.Lock()
	goResults[p.Body] = rs[0]
	goMu.Unlock()
	return rs[0], nil
}

var modes = []string{"dynamic", "relaxed", "strict"}

var abortReport = regexp.MustCompile(`^(panic: [^\n]*\n|Error: [^\n]*\n)?(Call frames:\n)?(  at: [^\n]*\n)*$`)

var digits = regexp.MustCompile(`-?[0-9]+(\.[0-9]+)?(e[+-]?[0-9]+)?`)
var quoted = regexp.MustCompile(`"(\\.|[^"\\])*"`)
var idents = regexp.MustCompile(`\b(p[0-9]+_)?(fn|T|rec|id_[a-z0-9]+|v|e|r|m|s|i|a|b|c|f|p|q|z|k|L|mv|ok)[0-9]*\b`)

func norm(s string) string {
	s = quoted.ReplaceAllString(s, "S")
	s = idents.ReplaceAllString(s, "ID")
	s = digits.ReplaceAllString(s, "N")
	if len(s) > 120 {
		s = s[:120]
	}
	return s
}

func firstDiffLine(a, b string) (string, string) {
	la, lb := strings.Split(a, "\n"), strings.Split(b, "\n")
	for i := 0; i < len(la) || i < len(lb); i++ {
		x, y := "<end>", "<end>"
		if i < len(la) {
			x = la[i]
		}
		if i < len(lb) {
			y = lb[i]
		}
		if x != y {
			return x, y
		}
	}
	return "", ""
}

// compare returns "" when Ego's result agrees with Go's, else a
// description and a signature.
func compare(g goref.Result, e egorun.Result) (sig, observed string) {
	if e.GoPanic != "" {
		return "go-panic-in-ego", "Go panic inside ego: " + e.GoPanic + "\n" + e.Stack
	}
	errText := e.CompileErr + e.RunErr
	if !g.Panicked {
		if e.Failed() {
			kind := "runtime-error"
			if e.CompileErr != "" {
				kind = "compile-error"
			}
			return kind + ": " + norm(egorun.StripPositions(errText)), "Ego reports an error where Go runs to completion: " + errText
		}
		if e.Stdout != g.Stdout {
			x, y := firstDiffLine(g.Stdout, e.Stdout)
			return "output-diff go=" + norm(x) + " ego=" + norm(y), fmt.Sprintf("first differing line: Go %q, Ego %q", x, y)
		}
		return "", ""
	}
	// Go aborted
	if !e.Failed() {
		return "no-abort", "Go aborts with a runtime panic (" + firstLine(g.Stderr) + "), Ego completes without error"
	}
	if e.CompileErr != "" {
		return "compile-error: " + norm(egorun.StripPositions(errText)), "Ego does not compile a program Go compiles: " + errText
	}
	if !strings.HasPrefix(e.Stdout, g.Stdout) {
		x, y := firstDiffLine(g.Stdout, e.Stdout)
		return "output-diff-before-abort go=" + norm(x) + " ego=" + norm(y), fmt.Sprintf("output before the abort differs: Go %q, Ego %q (Ego error: %s)", x, y, errText)
	}
	rest := e.Stdout[len(g.Stdout):]
	if !abortReport.MatchString(rest) {
		return "extra-output-after-abort " + norm(firstLine(rest)), fmt.Sprintf("Ego printed more than Go before stopping: %q", rest)
	}
	return "", ""
}

func firstLine(s string) string {
	if i := strings.Index(s, "\n"); i >= 0 {
		return s[:i]
	}
	return s
}

var cliOnce sync.Once
var cliHome string

// cliRun runs the program with the real CLI.
func cliRun(src, mode string) (stdout, stderr string, failed bool, ok bool) {
	bin := filepath.Join(os.Getenv("VERIF_BIN"), "ego")
	if _, err := os.Stat(bin); err != nil {
		return "", "", false, false
	}
	base := os.Getenv("VERIF_RUN_DIR")
	if base == "" {
		base = os.TempDir()
	}
	cliOnce.Do(func() {
		cliHome = filepath.Join(base, fmt.Sprintf("clihome-%d", os.Getpid()))
		_ = os.MkdirAll(cliHome, 0o700)
	})
	f, err := os.CreateTemp(cliHome, "prog*.ego")
	if err != nil {
		return "", "", false, false
	}
	defer os.Remove(f.Name())
	_, _ = f.WriteString(src)
	f.Close()
	cmd := exec.Command(bin, "run", "--types", mode, f.Name())
	cmd.Env = append(os.Environ(), "HOME="+cliHome, "EGO_PATH="+cliHome)
	var so, se strings.Builder
	cmd.Stdout, cmd.Stderr = &so, &se
	err = cmd.Run()
	return so.String(), se.String(), err != nil, true
}

func oracle(c Case) vkit.Outcome {
	var out vkit.Outcome
	p := c.Program
	g, err := goResult(p)
	if err != nil {
		out.Skip = "goref: " + err.Error()
		return out
	}
	if g.BuildErr != "" {
		// a generator bug, never a finding: make it visible in the labels
		out.Skip = "go-build-error"
		return out
	}
	out.Key = p.Body
	nprinted := strings.Count(g.Stdout, "\n")
	out.NonTrivial = nprinted >= 3 && len(p.Features) >= 5
	for _, f := range p.Features {
		out.Labels = append(out.Labels, f)
	}
	if g.Panicked {
		out.Labels = append(out.Labels, "go-aborted")
	} else {
		out.Labels = append(out.Labels, "go-completed")
	}
	src := p.EgoSource()
	for _, mode := range modes {
		e := egorun.Run(src, egorun.Config{Types: mode, Optimize: 0, EntryPoint: "main"})
		if e.Runaway {
			out.Inconclusive = "the Ego run did not end within the harness bound (" + mode + ")"
			return out
		}
		sig, obs := compare(g, e)
		if sig == "" {
			continue
		}
		// confirm with the real CLI
		if so, se, failed, ok := cliRun(src, mode); ok {
			ce := egorun.Result{Stdout: so}
			if failed {
				ce.RunErr = strings.TrimSpace(se)
				if ce.RunErr == "" {
					ce.RunErr = "exit status != 0"
				}
			}
			if s2, _ := compare(g, ce); s2 == "" {
				out.Labels = append(out.Labels, "inprocess-only-mismatch (CLI agrees with Go): "+sig)
				continue
			}
		}
		scope := mode
		if c.Known != "" {
			sig, scope = "pinned-difference: "+c.Known, "any mode"
		}
		out.Fail = &vkit.Failure{
			Sig:      sig + " [" + scope + "]",
			Observed: obs + "\nmode=" + mode + "\n--- program ---\n" + src,
			Expected: fmt.Sprintf("what Go does: aborted=%v stdout=%q", g.Panicked, clip(g.Stdout, 600)),
		}
		return out
	}
	return out
}

func clip(s string, n int) string {
	if len(s) > n {
		return s[:n] + "…"
	}
	return s
}

// programs generates this shard's programs deterministically and runs them
// all with Go in batches.
func programs(n int) []Case {
	var cs []Case
	var units []goref.Unit
	for i := 0; i < n; i++ {
		idx := vkit.ShardIndex()*1000003 + i
		pfx := fmt.Sprintf("p%d_", i)
		gen := rapid.Custom(func(t *rapid.T) proggen.Program { return proggen.GoProgram(t, pfx) })
		seed := int(vkit.DerivedSeed(0)%1000000007) + i
		p := gen.Example(seed)
		cs = append(cs, Case{Index: idx, Program: p})
		units = append(units, goref.Unit{Body: p.Body, Entry: pfx + "main"})
	}
	const batch = 100
	for lo := 0; lo < len(units); lo += batch {
		hi := lo + batch
		if hi > len(units) {
			hi = len(units)
		}
		rs, err := goref.RunBatch(units[lo:hi])
		if err != nil {
			continue // the oracle retries program by program
		}
		goMu.Lock()
		for i, r := range rs {
			goResults[units[lo+i].Body] = r
		}
		goMu.Unlock()
	}
	return cs
}

func TestC01(t *testing.T) {
	n := 150
	if vkit.Tier() == "thorough" {
		n = 300
	}
	if v := os.Getenv("VERIF_CHECKS"); v != "" {
		fmt.Sscan(v, &n)
	}
	vkit.Run(t, vkit.Spec[Case]{
		ID:    "C01",
		Level: "exploration",
		Rule: "programs drawn by proggen.GoProgram (typed scalars of every width, strings, bools, slices, maps with two-value reads, structs with value/pointer receivers, closures, variadics, multiple returns, if/else, three for forms, range, tagged/tagless switch, labelled break/continue, defer, panic/recover, injected runtime aborts), " +
			"each compiled and run by Go (reference) and run by Ego in dynamic, relaxed and strict mode; non-trivial: >= 3 printed lines and >= 5 distinct constructs; distinct by program text",
		Assumptions: []string{
			"the Go toolchain (go1.26.8) is the reference implementation",
			"Ego's abort report (panic:/Call frames: lines on the output stream) is diagnostic text, not program output",
			"constructs the property places outside (see proggen package comment) are not generated",
		},
		Oracle: oracle,
		Fixed:  func() []Case { return allCases(n) },
	})
}

var allOnce sync.Once
var all []Case

// allCases: vkit distributes Fixed cases round-robin over shards; here every
// shard generates only its own programs, so return them at this shard's
// positions.
func allCases(n int) []Case {
	allOnce.Do(func() {
		mine := programs(n)
		shards, me := vkit.Shards(), vkit.ShardIndex()
		all = make([]Case, 0, n*shards)
		for i := 0; i < n; i++ {
			for s := 0; s < shards; s++ {
				if s == me {
					all = append(all, mine[i])
				} else {
					all = append(all, Case{})
				}
			}
		}
	})
	return all
}

// TestReduce shrinks the program of a replay file (VERIF_REDUCE=<file>) while
// the same signature keeps failing, and prints the result. A development aid
// for triage, not part of the check.
func TestReduce(t *testing.T) {
	path := os.Getenv("VERIF_REDUCE")
	if path == "" {
		t.Skip("VERIF_REDUCE not set")
	}
	b, err := os.ReadFile(path)
	if err != nil {
		t.Fatal(err)
	}
	var rf struct {
		Sig  string `json:"sig"`
		Case Case   `json:"case"`
	}
	if err := json.Unmarshal(b, &rf); err != nil {
		t.Fatal(err)
	}
	mode := rf.Sig[strings.LastIndex(rf.Sig, "[")+1 : len(rf.Sig)-1]
	want := rf.Sig[:strings.LastIndex(rf.Sig, " [")]
	p := rf.Case.Program
	test := func(body string) bool {
		q := p
		q.Body = body
		g, err := goResult(q)
		if err != nil || g.BuildErr != "" {
			return false
		}
		e := egorun.Run(q.EgoSource(), egorun.Config{Types: mode, Optimize: 0, EntryPoint: "main"})
		sig, _ := compare(g, e)
		return sig == want
	}
	if !test(p.Body) {
		t.Fatalf("the replay does not fail with signature %q any more", want)
	}
	red := proggen.ReduceLines(p.Body, 400, test)
	q := p
	q.Body = red
	fmt.Println("=== reduced program (" + mode + ", " + want + ") ===")
	fmt.Println(q.EgoSource())
}

// TestReduceEgo is TestReduce without the Go toolchain, for failures that only
// one type mode shows: the predicate is "that mode still fails with the same
// normalized error while dynamic mode (or relaxed, for a dynamic-mode failure)
// runs without error".
func TestReduceEgo(t *testing.T) {
	path := os.Getenv("VERIF_REDUCE")
	if path == "" {
		t.Skip("VERIF_REDUCE not set")
	}
	b, err := os.ReadFile(path)
	if err != nil {
		t.Fatal(err)
	}
	var rf struct {
		Sig  string `json:"sig"`
		Case Case   `json:"case"`
	}
	if err := json.Unmarshal(b, &rf); err != nil {
		t.Fatal(err)
	}
	mode := rf.Sig[strings.LastIndex(rf.Sig, "[")+1 : len(rf.Sig)-1]
	other := "dynamic"
	if mode == "dynamic" {
		other = "relaxed"
	}
	p := rf.Case.Program
	errOf := func(body, m string) string {
		q := p
		q.Body = body
		e := egorun.Run(q.EgoSource(), egorun.Config{Types: m, Optimize: 0, EntryPoint: "main"})
		return norm(egorun.StripPositions(e.CompileErr + e.RunErr))
	}
	want := errOf(p.Body, mode)
	if want == "" {
		t.Fatalf("no error in mode %s any more", mode)
	}
	test := func(body string) bool { return errOf(body, mode) == want && errOf(body, other) == "" }
	red := proggen.ReduceLines(p.Body, 3000, test)
	q := p
	q.Body = red
	fmt.Println("=== reduced program (" + mode + ", " + want + ") ===")
	fmt.Println(q.EgoSource())
}
