package proggen

import (
	"fmt"
	"strings"

	"pgregory.net/rapid"
)

// EH programs: marker prints, try/catch, throw, runtime errors, defer,
// panic/recover, return, loops with break/continue, calls to depth 4. The
// generator only builds shapes whose behaviour the references pin down:
//
//   - a catchable error (throw of an error value, integer division by zero,
//     index out of range) raised while a try is active — also inside called
//     functions — goes to the innermost active try's catch exactly once and
//     execution continues after the try; outside any try it stops the program;
//   - deferred calls run once each, LIFO, when the function returns by any
//     return or by reaching its end, or unwinds from panic(); a recover() in a
//     deferred closure stops the panic and the caller continues after the call;
//   - NOT pinned down, so never generated: a catchable error escaping a
//     function that has registered defers (do they run?), panic() while a try
//     is active (docs say catchable, the code disagrees), errors raised inside
//     deferred functions, defer inside loops or try blocks.
//
// The rules above are enforced structurally: a function that may let an error
// escape has no defer; panic (direct or through calls) never happens under an
// active try.

// EHNode is one statement of an EH program.
type EHNode struct {
	// Kind: mark, try, throw, div0, index, defer, deferclosure, deferrecover,
	// panic, return, call, loop, break, continue, switch, continueouter
	//
	// switch: a tagless switch whose executed clause is Body; N == 0 puts it
	// in a case clause, N == 1 in the default clause. A bare break inside it
	// leaves the switch only; continue goes to the enclosing loop.
	// continueouter: "continue L" from an inner loop to the loop that directly
	// encloses it (that loop carries a label, Labeled).
	Kind    string   `json:"k"`
	Labeled bool     `json:"lab,omitempty"`
	N       int      `json:"n,omitempty"`     // marker number / callee index / loop count / switch clause
	At      int      `json:"at,omitempty"`    // loop: iteration at which the guarded statement fires
	Body    []EHNode `json:"body,omitempty"`  // try body / loop body
	Catch   []EHNode `json:"catch,omitempty"` // catch body
}

// EHProgram is a list of functions; function 0 is the entry point.
type EHProgram struct {
	Funcs [][]EHNode `json:"funcs"`
}

type ehGen struct {
	t        *rapid.T
	marker   int
	nfuncs   int
	mayRaise []bool // function may let a catchable error escape
	mayPanic []bool // function may let a panic escape
	hasPanic []bool // a panic can be raised inside the function or its callees (even if recovered)
}

func (g *ehGen) mark() EHNode {
	g.marker++
	return EHNode{Kind: "mark", N: g.marker}
}

type ehCtx struct {
	fn       int
	inTry    int
	inLoop   int
	depth    int
	raises   *bool // set when an error can escape the current function
	panics   *bool
	anyPanic *bool
	noDefer  bool
	topLevel bool // directly in the function's statement list
	recovers bool // the function starts with a recover defer
}

func (g *ehGen) stmts(c ehCtx, n int) []EHNode {
	var out []EHNode
	for i := 0; i < n; i++ {
		out = append(out, g.stmt(c)...)
	}
	return out
}

func (g *ehGen) stmt(c ehCtx) []EHNode {
	pick := rapid.IntRange(0, 16).Draw(g.t, "ehstmt")
	if c.depth >= 3 && ((pick >= 4 && pick <= 6) || pick == 14) {
		pick = 0
	}
	switch pick {
	case 0, 1, 2:
		return []EHNode{g.mark()}
	case 3: // raise a catchable error
		kind := rapid.SampledFrom([]string{"throw", "div0", "index"}).Draw(g.t, "errkind")
		if c.inTry == 0 {
			if c.noDefer {
				*c.raises = true
			} else {
				return []EHNode{g.mark()}
			}
		}
		g.marker++
		return []EHNode{{Kind: kind, N: g.marker}}
	case 4, 5: // try
		c2 := c
		c2.inTry++
		c2.depth++
		c2.topLevel = false
		body := g.stmts(c2, rapid.IntRange(1, 3).Draw(g.t, "trylen"))
		c3 := c
		c3.depth++
		c3.topLevel = false
		catch := append([]EHNode{g.mark()}, g.stmts(c3, rapid.IntRange(0, 2).Draw(g.t, "catchlen"))...)
		return []EHNode{{Kind: "try", Body: body, Catch: catch}}
	case 6: // loop
		c2 := c
		c2.inLoop++
		c2.depth++
		c2.topLevel = false
		n := rapid.IntRange(1, 3).Draw(g.t, "loopn")
		body := g.stmts(c2, rapid.IntRange(1, 3).Draw(g.t, "looplen"))
		return []EHNode{{Kind: "loop", N: n, Body: body, Labeled: targetsOuter(body)}}
	case 7: // break / continue at a given iteration
		if c.inLoop == 0 {
			return []EHNode{g.mark()}
		}
		return []EHNode{{Kind: rapid.SampledFrom([]string{"break", "continue"}).Draw(g.t, "bc"), At: rapid.IntRange(0, 2).Draw(g.t, "bcat")}}
	case 8, 9: // call a later function
		if c.fn+1 >= g.nfuncs {
			return []EHNode{g.mark()}
		}
		callee := rapid.IntRange(c.fn+1, g.nfuncs-1).Draw(g.t, "callee")
		if g.hasPanic[callee] {
			// no panic while a try is active anywhere up the stack
			if c.inTry > 0 {
				return []EHNode{g.mark()}
			}
			*c.anyPanic = true
		}
		if g.mayPanic[callee] && !c.recovers {
			*c.panics = true
		}
		if g.mayRaise[callee] && c.inTry == 0 {
			if !c.noDefer {
				return []EHNode{g.mark()}
			}
			*c.raises = true
		}
		return []EHNode{{Kind: "call", N: callee}}
	case 10: // defer
		if !c.topLevel || c.noDefer || c.inTry > 0 || c.inLoop > 0 {
			return []EHNode{g.mark()}
		}
		g.marker++
		return []EHNode{{Kind: rapid.SampledFrom([]string{"defer", "deferclosure"}).Draw(g.t, "dk"), N: g.marker}}
	case 11: // panic
		if c.inTry > 0 || c.noDefer {
			return []EHNode{g.mark()}
		}
		if !c.recovers {
			*c.panics = true
		}
		*c.anyPanic = true
		g.marker++
		return []EHNode{{Kind: "panic", N: g.marker}}
	case 14: // tagless switch; the executed clause is a case or the default
		c2 := c
		c2.depth++
		c2.topLevel = false
		body := g.stmts(c2, rapid.IntRange(1, 3).Draw(g.t, "switchlen"))
		return []EHNode{{Kind: "switch", N: rapid.IntRange(0, 1).Draw(g.t, "clause"), Body: body}}
	case 15, 16: // continue the loop that encloses the current loop
		if c.inLoop < 2 {
			return []EHNode{g.mark()}
		}
		return []EHNode{{Kind: "continueouter", At: rapid.IntRange(0, 2).Draw(g.t, "coat")}}
	case 13: // a continue that leaves a try through a switch or an inner loop, then an error
		// try { loop { try { switch|loop { M; continue; M } } catch { M } M }; error } catch { M }
		// The continue passes control out of the inner try without running
		// to its end; the error raised afterwards belongs to the outer try.
		if c.depth >= 2 {
			return []EHNode{g.mark()}
		}
		at := rapid.IntRange(0, 1).Draw(g.t, "tplat")
		// the try sits between the loop that is continued and the switch or
		// inner loop the continue statement is written in
		var jump EHNode
		if rapid.Bool().Draw(g.t, "tplswitch") {
			jump = EHNode{Kind: "switch", N: rapid.IntRange(0, 1).Draw(g.t, "tplclause"), Body: []EHNode{g.mark(), {Kind: "continue", At: at}, g.mark()}}
		} else {
			jump = EHNode{Kind: "loop", N: 2, Body: []EHNode{g.mark(), {Kind: "continueouter", At: at}, g.mark()}}
		}
		wrapped := EHNode{Kind: "try", Body: []EHNode{g.mark(), jump, g.mark()}, Catch: []EHNode{g.mark()}}
		loop := EHNode{Kind: "loop", N: rapid.IntRange(2, 3).Draw(g.t, "tpln"), Body: []EHNode{wrapped, g.mark()}}
		loop.Labeled = targetsOuter(loop.Body)
		g.marker++
		raise := EHNode{Kind: rapid.SampledFrom([]string{"throw", "div0", "index"}).Draw(g.t, "tplerr"), N: g.marker}
		return []EHNode{{Kind: "try", Body: []EHNode{loop, g.mark(), raise, g.mark()}, Catch: []EHNode{g.mark()}}}
	case 12: // return
		if c.fn == 0 && c.topLevel {
			return []EHNode{g.mark()}
		}
		return []EHNode{{Kind: "return"}}
	default:
		return []EHNode{g.mark()}
	}
}

// targetsOuter reports whether the body of a loop contains, inside a directly
// nested loop (through any try or switch, but no further loop), a
// continueouter statement: that statement names this loop's label.
func targetsOuter(body []EHNode) bool {
	var walk func(nodes []EHNode, loops int) bool
	walk = func(nodes []EHNode, loops int) bool {
		for _, n := range nodes {
			switch n.Kind {
			case "continueouter":
				if loops == 1 {
					return true
				}
			case "loop":
				if loops == 0 && walk(n.Body, 1) {
					return true
				}
			case "try":
				if walk(n.Body, loops) || walk(n.Catch, loops) {
					return true
				}
			case "switch":
				if walk(n.Body, loops) {
					return true
				}
			}
		}
		return false
	}
	return walk(body, 0)
}

// EHGen draws an EH program.
func EHGen(t *rapid.T) EHProgram {
	g := &ehGen{t: t}
	g.nfuncs = rapid.IntRange(1, 5).Draw(t, "nfuncs")
	g.mayRaise = make([]bool, g.nfuncs)
	g.mayPanic = make([]bool, g.nfuncs)
	g.hasPanic = make([]bool, g.nfuncs)
	p := EHProgram{Funcs: make([][]EHNode, g.nfuncs)}
	// generate callees first so callers know their effects
	for fn := g.nfuncs - 1; fn >= 0; fn-- {
		var raises, panics, anyPanic bool
		// a function either may let errors escape (then it has no defers and
		// no panic) or it is "defer-capable"
		noDefer := rapid.IntRange(0, 2).Draw(t, "nodefer") == 0
		recovers := !noDefer && rapid.IntRange(0, 2).Draw(t, "recovers") == 0
		c := ehCtx{fn: fn, raises: &raises, panics: &panics, anyPanic: &anyPanic, noDefer: noDefer, topLevel: true, recovers: recovers}
		var body []EHNode
		if recovers {
			g.marker++
			body = append(body, EHNode{Kind: "deferrecover", N: g.marker})
		}
		body = append(body, g.stmts(c, rapid.IntRange(2, 6).Draw(t, "fnlen"))...)
		p.Funcs[fn] = body
		g.mayRaise[fn] = raises
		g.mayPanic[fn] = panics
		g.hasPanic[fn] = anyPanic
	}
	return p
}

// Render prints the Ego source of the program.
func (p EHProgram) Render() string {
	var b strings.Builder
	ctr := 0
	var labels []string // label of each enclosing loop ("" when it has none), innermost last
	var emit func(nodes []EHNode, ind string, loopVar string)
	emit = func(nodes []EHNode, ind string, loopVar string) {
		for _, n := range nodes {
			switch n.Kind {
			case "mark":
				fmt.Fprintf(&b, "%sfmt.Printf(\"M%d\\n\")\n", ind, n.N)
			case "throw":
				fmt.Fprintf(&b, "%sthrow errors.New(\"E%d\")\n", ind, n.N)
			case "div0":
				ctr++
				fmt.Fprintf(&b, "%sz%d := 0\n%sfmt.Printf(\"X%d %%d\\n\", 7 / z%d)\n", ind, ctr, ind, n.N, ctr)
			case "index":
				ctr++
				fmt.Fprintf(&b, "%sa%d := []int{1, 2}\n%sfmt.Printf(\"X%d %%d\\n\", a%d[5])\n", ind, ctr, ind, n.N, ctr)
			case "try":
				ctr++
				fmt.Fprintf(&b, "%stry {\n", ind)
				emit(n.Body, ind+"\t", loopVar)
				fmt.Fprintf(&b, "%s} catch (e%d) {\n", ind, ctr)
				fmt.Fprintf(&b, "%s\tfmt.Printf(\"C %%v\\n\", e%d)\n", ind, ctr)
				emit(n.Catch, ind+"\t", loopVar)
				fmt.Fprintf(&b, "%s}\n", ind)
			case "loop":
				ctr++
				lv := fmt.Sprintf("i%d", ctr)
				label := ""
				if n.Labeled {
					label = fmt.Sprintf("L%d", ctr)
					fmt.Fprintf(&b, "%s%s:\n", ind, label)
				}
				fmt.Fprintf(&b, "%sfor %s := 0; %s < %d; %s++ {\n", ind, lv, lv, n.N, lv)
				labels = append(labels, label)
				emit(n.Body, ind+"\t", lv)
				labels = labels[:len(labels)-1]
				fmt.Fprintf(&b, "%s}\n", ind)
			case "switch":
				fmt.Fprintf(&b, "%sswitch {\n", ind)
				if n.N == 0 {
					fmt.Fprintf(&b, "%scase len(\"a\") == 1:\n", ind)
					emit(n.Body, ind+"\t", loopVar)
					fmt.Fprintf(&b, "%sdefault:\n%s\tfmt.Printf(\"U\\n\")\n", ind, ind)
				} else {
					fmt.Fprintf(&b, "%scase len(\"a\") == 2:\n%s\tfmt.Printf(\"U\\n\")\n", ind, ind)
					fmt.Fprintf(&b, "%sdefault:\n", ind)
					emit(n.Body, ind+"\t", loopVar)
				}
				fmt.Fprintf(&b, "%s}\n", ind)
			case "continueouter":
				if len(labels) >= 2 && labels[len(labels)-2] != "" {
					fmt.Fprintf(&b, "%sif %s == %d {\n%s\tcontinue %s\n%s}\n", ind, loopVar, n.At, ind, labels[len(labels)-2], ind)
				}
			case "break", "continue":
				fmt.Fprintf(&b, "%sif %s == %d {\n%s\t%s\n%s}\n", ind, loopVar, n.At, ind, n.Kind, ind)
			case "call":
				fmt.Fprintf(&b, "%sf%d()\n", ind, n.N)
			case "defer":
				fmt.Fprintf(&b, "%sdefer fmt.Printf(\"M%d\\n\")\n", ind, n.N)
			case "deferclosure":
				fmt.Fprintf(&b, "%sdefer func() {\n%s\tfmt.Printf(\"M%d\\n\")\n%s}()\n", ind, ind, n.N, ind)
			case "deferrecover":
				fmt.Fprintf(&b, "%sdefer func() {\n%s\tif r := recover(); r != nil {\n%s\t\tfmt.Printf(\"M%d\\n\")\n%s\t}\n%s}()\n", ind, ind, ind, n.N, ind, ind)
			case "panic":
				fmt.Fprintf(&b, "%spanic(\"P%d\")\n", ind, n.N)
			case "return":
				fmt.Fprintf(&b, "%sreturn\n", ind)
			}
		}
	}
	for i, f := range p.Funcs {
		fmt.Fprintf(&b, "func f%d() {\n", i)
		emit(f, "\t", "")
		b.WriteString("}\n\n")
	}
	b.WriteString("func main() {\n\tf0()\n\tfmt.Printf(\"END\\n\")\n}\n")
	head := "package main\n\nimport \"fmt\"\n"
	if strings.Contains(b.String(), "errors.New(") {
		head += "import \"errors\"\n"
	}
	return head + "\n" + b.String()
}

type ehErr struct{ n int }
type ehPanic struct{ n int }
type ehReturn struct{}
type ehBreak struct{}
type ehContinue struct{}
type ehContinueOuter struct{}

// EHResult is what the reference interpreter predicts.
type EHResult struct {
	Trace  []string `json:"trace"`  // marker lines in order ("M7", "END")
	Status string   `json:"status"` // ok | error | panic
}

// Interp runs the reference interpreter of the documented rules.
func (p EHProgram) Interp() (res EHResult) {
	var trace []string
	steps := 0
	var call func(fn int)
	var exec func(nodes []EHNode, defers *[]EHNode, iter int)
	exec = func(nodes []EHNode, defers *[]EHNode, iter int) {
		for _, n := range nodes {
			steps++
			if steps > 100000 {
				panic("ehgen: runaway")
			}
			switch n.Kind {
			case "mark":
				trace = append(trace, fmt.Sprintf("M%d", n.N))
			case "throw", "div0", "index":
				panic(ehErr{n.N})
			case "try":
				func() {
					caught := false
					func() {
						defer func() {
							if r := recover(); r != nil {
								if _, ok := r.(ehErr); ok {
									caught = true
									return
								}
								panic(r)
							}
						}()
						exec(n.Body, defers, iter)
					}()
					if caught {
						exec(n.Catch, defers, iter)
					}
				}()
			case "loop":
				func() {
					for i := 0; i < n.N; i++ {
						brk := false
						func() {
							defer func() {
								if r := recover(); r != nil {
									switch r.(type) {
									case ehBreak:
										brk = true
									case ehContinue:
									case ehContinueOuter:
										// leaves this loop; the enclosing loop
										// goes on with its next iteration
										panic(ehContinue{})
									default:
										panic(r)
									}
								}
							}()
							exec(n.Body, defers, i)
						}()
						if brk {
							break
						}
					}
				}()
			case "break":
				if iter == n.At {
					panic(ehBreak{})
				}
			case "continue":
				if iter == n.At {
					panic(ehContinue{})
				}
			case "continueouter":
				if iter == n.At {
					panic(ehContinueOuter{})
				}
			case "switch":
				func() {
					defer func() {
						if r := recover(); r != nil {
							if _, ok := r.(ehBreak); ok {
								return // a bare break leaves the switch
							}
							panic(r)
						}
					}()
					exec(n.Body, defers, iter)
				}()
			case "call":
				call(n.N)
			case "defer", "deferclosure", "deferrecover":
				*defers = append(*defers, n)
			case "panic":
				panic(ehPanic{n.N})
			case "return":
				panic(ehReturn{})
			}
		}
	}
	call = func(fn int) {
		var defers []EHNode
		var pending any
		func() {
			defer func() {
				if r := recover(); r != nil {
					if _, ok := r.(ehReturn); ok {
						return
					}
					pending = r
				}
			}()
			exec(p.Funcs[fn], &defers, -1)
		}()
		// run defers LIFO; a recover defer stops a pending panic
		for i := len(defers) - 1; i >= 0; i-- {
			d := defers[i]
			switch d.Kind {
			case "defer", "deferclosure":
				trace = append(trace, fmt.Sprintf("M%d", d.N))
			case "deferrecover":
				if _, ok := pending.(ehPanic); ok {
					trace = append(trace, fmt.Sprintf("M%d", d.N))
					pending = nil
				}
			}
		}
		if pending != nil {
			panic(pending)
		}
	}
	status := "ok"
	func() {
		defer func() {
			if r := recover(); r != nil {
				switch r.(type) {
				case ehErr:
					status = "error"
				case ehPanic:
					status = "panic"
				default:
					panic(r)
				}
			}
		}()
		call(0)
		trace = append(trace, "END")
	}()
	return EHResult{Trace: trace, Status: status}
}

// Stats describes the shape of a program (for non-triviality and labels).
func (p EHProgram) Stats() (maxDepth int, crossFn bool, deferWithPanic bool, kinds map[string]int) {
	kinds = map[string]int{}
	var walk func(nodes []EHNode, d int, inTry bool)
	hasPanic, hasDefer := false, false
	walk = func(nodes []EHNode, d int, inTry bool) {
		if d > maxDepth {
			maxDepth = d
		}
		for _, n := range nodes {
			kinds[n.Kind]++
			switch n.Kind {
			case "try":
				walk(n.Body, d+1, true)
				walk(n.Catch, d+1, inTry)
			case "loop", "switch":
				walk(n.Body, d+1, inTry)
			case "call":
				if inTry {
					crossFn = true
				}
			case "panic":
				hasPanic = true
			case "defer", "deferclosure", "deferrecover":
				hasDefer = true
			}
		}
	}
	for _, f := range p.Funcs {
		walk(f, 0, false)
	}
	deferWithPanic = hasPanic && hasDefer
	return
}
