package proggen

import "strings"

// ReduceLines shrinks a failing program by deleting lines (single lines and
// balanced "{ ... }" blocks) while stillFails keeps returning true. It is a
// greedy delta reduction bounded by maxTrials calls of stillFails; the result
// still fails (or is the input). stillFails must return false for programs
// that are no longer valid.
func ReduceLines(src string, maxTrials int, stillFails func(string) bool) string {
	lines := strings.Split(src, "\n")
	trials := 0
	try := func(cand []string) bool {
		if trials >= maxTrials {
			return false
		}
		trials++
		return stillFails(strings.Join(cand, "\n"))
	}
	changed := true
	for changed && trials < maxTrials {
		changed = false
		// blocks first (largest win), then single lines, from the end
		for i := len(lines) - 1; i >= 0 && trials < maxTrials; i-- {
			if i >= len(lines) {
				continue
			}
			l := strings.TrimSpace(lines[i])
			if l == "" {
				continue
			}
			end := i
			if strings.HasSuffix(l, "{") {
				depth := 0
				end = -1
				for j := i; j < len(lines); j++ {
					depth += strings.Count(lines[j], "{") - strings.Count(lines[j], "}")
					if depth == 0 {
						end = j
						break
					}
				}
				if end < 0 {
					continue
				}
			} else if strings.HasPrefix(l, "}") {
				continue
			}
			cand := append(append([]string{}, lines[:i]...), lines[end+1:]...)
			if try(cand) {
				lines = cand
				changed = true
			}
		}
	}
	return strings.Join(lines, "\n")
}
