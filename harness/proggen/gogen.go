// Package proggen generates programs for the language-core checks.
//
// GoProgram draws a program that is at the same time a well-typed Go program
// and an Ego program in the documented Go-compatible core (C01): typed scalars
// of every width, strings, bools, slices, maps read with the two-value form,
// structs with value and pointer receivers, closures, variadics, multiple
// returns, if/else, the three for forms, range over slices, tagged and
// tagless switch, labelled break/continue, defer, panic(string) and recover()
// of an explicit panic. Go's typing rules hold by construction: both operands
// of a binary operator have the same type, an untyped constant is always
// representable in the type it meets, no constant expression is built from
// two constants (Go would evaluate it exactly at compile time), every
// variable is used. All output goes through fmt.Printf with explicit verbs.
//
// Kept out on purpose (outside the property or a documented difference):
// compound operators other than += -= *= /=, string indexing, rune, ^, shifts,
// string(int), recover of runtime errors, Println formats, use of a missing
// map value, ranging over a map, float-to-integer conversions (out-of-range
// results are implementation-defined in Go), division by a variable (except
// the deliberately injected division by a zero variable).
//
// Runtime aborts are injected on purpose at a chosen rate: integer division
// by a zero variable, slice index out of range, unrecovered panic. A runtime
// error (not panic) is only injected into main of a program that registers no
// defer, because whether pending defers run when a *runtime error* unwinds is
// not something the references promise.
package proggen

import (
	"fmt"
	"sort"
	"strings"

	"pgregory.net/rapid"
)

// Program is a generated program.
type Program struct {
	// Prefix is prepended to every top-level identifier so that many
	// programs can be compiled into one Go binary.
	Prefix string `json:"prefix"`
	// Body is the text of all top-level declarations, including
	// `func <Prefix>main()`; it is the same text for Go and for Ego.
	Body string `json:"body"`
	// Features lists the constructs the program contains (for the
	// coverage histogram), sorted.
	Features []string `json:"features"`
	// Abort is "", "div0", "index" or "panic": the runtime abort injected.
	Abort string `json:"abort,omitempty"`
}

// EgoSource returns the complete Ego/Go source with a main that calls the
// program's entry point.
func (p Program) EgoSource() string {
	imports := "import \"fmt\"\n"
	if strings.Contains(p.Body, "errors.New(") {
		imports += "import \"errors\"\n"
	}
	return "package main\n\n" + imports + "\n" + p.Body + "\nfunc main() {\n\t" + p.Prefix + "main()\n}\n"
}

var intTypes = []string{"int8", "int16", "int32", "int64", "int", "uint8", "uint16", "uint32", "uint64", "uint"}
var floatTypes = []string{"float32", "float64"}

func isInt(t string) bool    { return contains(intTypes, t) }
func isUns(t string) bool    { return isInt(t) && strings.HasPrefix(t, "uint") }
func isFloat(t string) bool  { return contains(floatTypes, t) }
func isNum(t string) bool    { return isInt(t) || isFloat(t) }
func isScalar(t string) bool { return isNum(t) || t == "string" || t == "bool" }

type variable struct {
	name string
	typ  string
	// minLen: for slices, a lower bound of the length that holds for the
	// whole life of the variable (slices are only ever appended to).
	minLen int
	// frozen: must not be assigned (loop counters, range variables).
	frozen bool
}

type structType struct {
	name   string
	fields []variable // name/typ
	// methods
	valMethod string // returns int: sum-like of int fields
	ptrMethod string // mutates a field
}

type function struct {
	name     string
	params   []string // types
	results  []string // types
	variadic bool     // last param is ...T
}

type gen struct {
	t      *rapid.T
	prefix string
	n      int
	types  []string // active scalar types of this program
	scopes [][]variable
	funcs  []function
	strs   []structType
	feat   map[string]bool
	out    *strings.Builder
	depth  int
	// inFunc: result types of the function being generated (nil in main)
	results   []string
	inLoop    int
	labels    []string
	hasDefer  bool
	stmtCount int
	budget    int
	// pendingDecls collects top-level declarations (types, helpers) in
	// the order they must appear.
	pendingDecls []string
	// noDefer: no defer statement may be generated in the current function.
	noDefer bool
	// ego: also generate Ego-only constructs (try/catch, dynamic retyping,
	// [] array literals, runtime errors inside try); the result is not a Go
	// program any more.
	ego bool
	// noTry: with ego, do not generate try/catch.
	noTry bool
}

func (g *gen) f(s string) { g.feat[s] = true }

func (g *gen) name(kind string) string {
	g.n++
	return fmt.Sprintf("%s%s%d", g.prefix, kind, g.n)
}

func (g *gen) local(kind string) string {
	g.n++
	return fmt.Sprintf("%s%d", kind, g.n)
}

func (g *gen) push() { g.scopes = append(g.scopes, nil) }
func (g *gen) pop()  { g.scopes = g.scopes[:len(g.scopes)-1] }
func (g *gen) declare(v variable) {
	g.scopes[len(g.scopes)-1] = append(g.scopes[len(g.scopes)-1], v)
}

func (g *gen) vars(pred func(variable) bool) []variable {
	var r []variable
	for _, s := range g.scopes {
		for _, v := range s {
			if pred(v) {
				r = append(r, v)
			}
		}
	}
	return r
}

func (g *gen) varsOf(t string) []variable {
	return g.vars(func(v variable) bool { return v.typ == t })
}

func (g *gen) ind() string { return strings.Repeat("\t", g.depth) }

func (g *gen) line(format string, a ...any) {
	g.out.WriteString(g.ind() + fmt.Sprintf(format, a...) + "\n")
}

func (g *gen) pick(label string, n int) int { return rapid.IntRange(0, n-1).Draw(g.t, label) }
func (g *gen) chance(label string, pct int) bool {
	return rapid.IntRange(0, 99).Draw(g.t, label) < pct
}

// ---- literals --------------------------------------------------------------

func (g *gen) literal(t string) string {
	switch {
	case isInt(t):
		// narrow types: values at and near the ends of the range are common,
		// so that arithmetic wraps and a value that silently lost its declared
		// width prints something else
		if b, ok := boundaryLiterals[t]; ok && g.chance("edge", 30) {
			return rapid.SampledFrom(b).Draw(g.t, "edgelit")
		}
		max := 100
		v := rapid.IntRange(0, max).Draw(g.t, "lit")
		if v != 0 && !isUns(t) && g.chance("neg", 25) {
			return fmt.Sprintf("-%d", v)
		}
		return fmt.Sprint(v)
	case isFloat(t):
		f := rapid.SampledFrom([]string{"0.5", "1.5", "2.25", "3.0", "10.0", "0.125", "7.75", "100.5"}).Draw(g.t, "flit")
		if g.chance("fneg", 25) {
			return "-" + f
		}
		return f
	case t == "string":
		return rapid.SampledFrom([]string{`"a"`, `"bc"`, `""`, `"héllo"`, `"x y"`, `"Z9"`, `"tab\there"`, `"q\"uote"`}).Draw(g.t, "slit")
	case t == "bool":
		return rapid.SampledFrom([]string{"true", "false"}).Draw(g.t, "blit")
	}
	panic("literal " + t)
}

var boundaryLiterals = map[string][]string{
	"int8":   {"127", "126", "-128", "-127", "64", "-65"},
	"int16":  {"32767", "32766", "-32768", "30000", "-30000", "16384"},
	"int32":  {"2147483647", "2147483646", "-2147483648", "2000000000", "-2000000000"},
	"uint8":  {"255", "254", "200", "128", "250"},
	"uint16": {"65535", "65534", "60000", "32768"},
	"uint32": {"4294967295", "4294967294", "4000000000", "2147483648"},
}

// nonZeroLiteral for divisors.
func (g *gen) nonZeroLiteral(t string) string {
	if isInt(t) {
		v := rapid.IntRange(1, 9).Draw(g.t, "div")
		if !isUns(t) && g.chance("negdiv", 20) {
			return fmt.Sprintf("-%d", v)
		}
		return fmt.Sprint(v)
	}
	return rapid.SampledFrom([]string{"0.5", "2.0", "4.0", "1.5"}).Draw(g.t, "fdiv")
}

type expr struct {
	s       string
	isConst bool
}

// ---- expressions -----------------------------------------------------------

// expr generates an expression of scalar type t.
func (g *gen) expr(t string, depth int) expr {
	vs := g.varsOf(t)
	leaf := depth <= 0 || g.chance("leaf", 35)
	if leaf {
		return g.leaf(t, vs)
	}
	switch {
	case isNum(t):
		switch g.pick("numform", 10) {
		case 0, 1, 2, 3: // arithmetic
			ops := []string{"+", "-", "*"}
			// & and | are only generated on plain int: ego converts both
			// operands to int and returns an int for every integer type (its
			// own unit tests pin that), which differs from Go for the other
			// widths -- recorded as a known finding of C01, kept out of the
			// search by construction.
			if t == "int" {
				ops = append(ops, "&", "|")
			}
			op := rapid.SampledFrom(ops).Draw(g.t, "op")
			a := g.expr(t, depth-1)
			b := g.expr(t, depth-1)
			if a.isConst && b.isConst {
				a = g.nonConst(t, vs)
			}
			g.f("op " + op + " " + class(t))
			return expr{s: "(" + a.s + " " + op + " " + b.s + ")"}
		case 4: // division / modulo by a non-zero literal
			op := "/"
			if isInt(t) && g.chance("mod", 50) {
				op = "%"
			}
			a := g.expr(t, depth-1)
			if a.isConst {
				a = g.nonConst(t, vs)
			}
			g.f("op " + op + " " + class(t))
			return expr{s: "(" + a.s + " " + op + " " + g.nonZeroLiteral(t) + ")"}
		case 5: // unary minus on signed / float
			if isUns(t) {
				return g.leaf(t, vs)
			}
			a := g.nonConst(t, vs)
			g.f("unary-minus " + class(t))
			return expr{s: "(-" + a.s + ")"}
		case 6: // conversion from another numeric type
			if src := g.convertible(t); src != nil {
				g.f("conv " + class(src.typ) + "->" + class(t))
				return expr{s: t + "(" + src.name + ")"}
			}
			return g.leaf(t, vs)
		case 7: // call
			if c, ok := g.callReturning(t, depth); ok {
				return c
			}
			return g.leaf(t, vs)
		case 8: // len
			if t == "int" {
				if c, ok := g.lenExpr(); ok {
					return c
				}
			}
			return g.leaf(t, vs)
		default:
			return g.compound(t, vs)
		}
	case t == "string":
		switch g.pick("strform", 4) {
		case 0, 1:
			a := g.expr(t, depth-1)
			b := g.expr(t, depth-1)
			if a.isConst && b.isConst {
				a = g.nonConst(t, vs)
			}
			g.f("string-concat")
			return expr{s: "(" + a.s + " + " + b.s + ")"}
		case 2:
			if c, ok := g.callReturning(t, depth); ok {
				return c
			}
		}
		return g.compound(t, vs)
	case t == "bool":
		switch g.pick("boolform", 6) {
		case 0, 1, 2: // comparison
			ct := rapid.SampledFrom(g.types).Draw(g.t, "cmpT")
			if ct == "bool" {
				ct = "int"
			}
			ops := []string{"==", "!=", "<", "<=", ">", ">="}
			op := rapid.SampledFrom(ops).Draw(g.t, "cmp")
			a := g.expr(ct, depth-1)
			b := g.expr(ct, depth-1)
			if a.isConst && b.isConst {
				a = g.nonConst(ct, g.varsOf(ct))
			}
			g.f("compare " + class(ct))
			return expr{s: "(" + a.s + " " + op + " " + b.s + ")"}
		case 3:
			op := rapid.SampledFrom([]string{"&&", "||"}).Draw(g.t, "logic")
			a := g.expr(t, depth-1)
			b := g.expr(t, depth-1)
			if a.isConst && b.isConst {
				a = g.nonConst(t, vs)
			}
			g.f("logic " + op)
			return expr{s: "(" + a.s + " " + op + " " + b.s + ")"}
		case 4:
			a := g.nonConst(t, vs)
			g.f("logic !")
			return expr{s: "(!" + a.s + ")"}
		}
		return g.leaf(t, vs)
	}
	panic("expr " + t)
}

func class(t string) string {
	return t
}

func (g *gen) leaf(t string, vs []variable) expr {
	if len(vs) > 0 && g.chance("usevar", 70) {
		return expr{s: vs[g.pick("var", len(vs))].name}
	}
	return expr{s: g.literal(t), isConst: true}
}

// nonConst returns an expression of type t that is not a constant
// expression: a variable if one exists, else a call-free construction.
func (g *gen) nonConst(t string, vs []variable) expr {
	if len(vs) > 0 {
		return expr{s: vs[g.pick("ncvar", len(vs))].name}
	}
	// no variable of this type in scope: build one from any numeric
	// variable, or fall back on a parameterless helper expression
	if isNum(t) {
		if src := g.convertible(t); src != nil {
			return expr{s: t + "(" + src.name + ")"}
		}
	}
	// struct field / slice element of that type
	if c, ok := g.compoundOK(t); ok {
		return c
	}
	// as a last resort declare nothing new: use a helper identity call
	return expr{s: g.identityCall(t)}
}

// convertible picks a variable whose conversion to t is defined identically
// in Go and in the reference (no float -> integer).
func (g *gen) convertible(t string) *variable {
	cands := g.vars(func(v variable) bool {
		if v.typ == t || !isNum(v.typ) {
			return false
		}
		if isInt(t) && isFloat(v.typ) {
			return false
		}
		return true
	})
	if len(cands) == 0 {
		return nil
	}
	v := cands[g.pick("convsrc", len(cands))]
	return &v
}

// compound: struct field or slice element or map-free container read.
func (g *gen) compound(t string, vs []variable) expr {
	if c, ok := g.compoundOK(t); ok {
		return c
	}
	return g.leaf(t, vs)
}

func (g *gen) compoundOK(t string) (expr, bool) {
	var opts []string
	for _, v := range g.vars(func(v variable) bool { return true }) {
		if v.typ == "[]"+t && v.minLen > 0 {
			opts = append(opts, fmt.Sprintf("%s[%d]", v.name, g.pick("idx", v.minLen)))
		}
		for _, st := range g.strs {
			if v.typ == st.name || v.typ == "*"+st.name {
				for _, f := range st.fields {
					if f.typ == t {
						opts = append(opts, v.name+"."+f.name)
					}
				}
			}
		}
	}
	if len(opts) == 0 {
		return expr{}, false
	}
	g.f("container-read")
	return expr{s: opts[g.pick("copt", len(opts))]}, true
}

func (g *gen) lenExpr() (expr, bool) {
	cands := g.vars(func(v variable) bool {
		return strings.HasPrefix(v.typ, "[]") || v.typ == "string" || strings.HasPrefix(v.typ, "map[")
	})
	if len(cands) == 0 {
		return expr{}, false
	}
	g.f("len")
	return expr{s: "len(" + cands[g.pick("lenv", len(cands))].name + ")"}, true
}

// identityCall makes sure a helper `func <prefix>idT(x T) T { return x }`
// exists and returns a call on a literal (a call is never a constant).
func (g *gen) identityCall(t string) string {
	name := g.prefix + "id_" + t
	found := false
	for _, f := range g.funcs {
		if f.name == name {
			found = true
		}
	}
	if !found {
		g.funcs = append(g.funcs, function{name: name, params: []string{t}, results: []string{t}})
		g.pendingDecls = append(g.pendingDecls, fmt.Sprintf("func %s(x %s) %s {\n\treturn x\n}\n", name, t, t))
	}
	return name + "(" + g.literal(t) + ")"
}

func (g *gen) callReturning(t string, depth int) (expr, bool) {
	var cands []function
	for _, f := range g.funcs {
		if len(f.results) == 1 && f.results[0] == t {
			cands = append(cands, f)
		}
	}
	if len(cands) == 0 {
		return expr{}, false
	}
	f := cands[g.pick("fn", len(cands))]
	g.f("call")
	return expr{s: g.callText(f, depth)}, true
}

func (g *gen) callText(f function, depth int) string {
	var args []string
	for i, p := range f.params {
		if f.variadic && i == len(f.params)-1 {
			n := g.pick("nvar", 4)
			for j := 0; j < n; j++ {
				args = append(args, g.expr(p, depth-1).s)
			}
			g.f("variadic-call")
			continue
		}
		if p == "smallint" {
			args = append(args, fmt.Sprint(1+g.pick("recn", 8)))
			continue
		}
		args = append(args, g.expr(p, depth-1).s)
	}
	return f.name + "(" + strings.Join(args, ", ") + ")"
}

// ---- printing --------------------------------------------------------------

func verb(t string, g *gen) string {
	switch {
	case isInt(t):
		if isUns(t) && g.chance("hex", 20) {
			return "%x"
		}
		return "%d"
	case isFloat(t):
		return "%.6g"
	case t == "string":
		if g.chance("q", 30) {
			return "%q"
		}
		return "%s"
	case t == "bool":
		return "%t"
	}
	panic("verb " + t)
}

func (g *gen) printVar(v variable) {
	switch {
	case isScalar(v.typ):
		g.line(`fmt.Printf("%s=%s\n", %s)`, v.name, verb(v.typ, g), v.name)
	case strings.HasPrefix(v.typ, "[]"):
		et := v.typ[2:]
		g.line(`fmt.Printf("len(%s)=%%d\n", len(%s))`, v.name, v.name)
		if v.minLen > 0 {
			g.line(`fmt.Printf("%s[0]=%s\n", %s[0])`, v.name, verb(et, g), v.name)
		}
	case strings.HasPrefix(v.typ, "map["):
		g.line(`fmt.Printf("len(%s)=%%d\n", len(%s))`, v.name, v.name)
	default:
		for _, st := range g.strs {
			if v.typ == st.name || v.typ == "*"+st.name {
				for _, f := range st.fields {
					g.line(`fmt.Printf("%s.%s=%s\n", %s.%s)`, v.name, f.name, verb(f.typ, g), v.name, f.name)
				}
			}
		}
	}
}

// ---- statements ------------------------------------------------------------

func (g *gen) block(n int) {
	for i := 0; i < n && g.budget > 0; i++ {
		g.stmt()
	}
}

func (g *gen) stmt() {
	g.budget--
	g.stmtCount++
	maxKind := 16
	if g.ego {
		maxKind = 20
	}
	if g.depth > 3 {
		maxKind = 6
	}
	// struct statements (literals, field stores, methods, value copies) get
	// extra weight: value semantics of structs is a large part of the core
	if len(g.strs) > 0 && g.chance("structy", 10) {
		g.structStmt()
		return
	}
	switch g.pick("stmt", maxKind) {
	case 16, 17:
		if g.noTry {
			g.printExprStmt()
		} else {
			g.tryStmt()
		}
	case 18:
		g.dynamicStmt()
	case 19:
		g.arrayLiteralStmt()
	case 0, 1:
		g.declStmt()
	case 2, 3:
		g.assignStmt()
	case 4:
		g.incDecStmt()
	case 5:
		g.printExprStmt()
	case 6:
		g.ifStmt()
	case 7:
		g.forStmt()
	case 8:
		g.rangeStmt()
	case 9:
		g.switchStmt()
	case 10:
		g.sliceStmt()
	case 11:
		g.mapStmt()
	case 12:
		g.structStmt()
	case 13:
		g.closureStmt()
	case 14:
		g.multiReturnStmt()
	case 15:
		if g.chance("shadow", 40) {
			g.shadowStmt()
		} else {
			g.deferStmt()
		}
	}
}

// shadowStmt redeclares a numeric variable of an enclosing scope in the
// current block from its own outer value ("x := x + 1"): the right-hand x is
// the outer one, the new x lives until the block ends and the outer x is
// untouched. Only inside a nested block (the function body's own variables
// cannot be redeclared with := alone).
func (g *gen) shadowStmt() {
	if len(g.scopes) < 2 || g.depth < 2 {
		g.printExprStmt()
		return
	}
	inner := map[string]bool{}
	for _, v := range g.scopes[len(g.scopes)-1] {
		inner[v.name] = true
	}
	var cands []variable
	for _, sc := range g.scopes[:len(g.scopes)-1] {
		for _, v := range sc {
			if isNum(v.typ) && !inner[v.name] {
				cands = append(cands, v)
			}
		}
	}
	if len(cands) == 0 {
		g.printExprStmt()
		return
	}
	v := cands[g.pick("shv", len(cands))]
	op := rapid.SampledFrom([]string{"+", "-", "*"}).Draw(g.t, "shop")
	g.line("%s := %s %s %s", v.name, v.name, op, g.literal(v.typ))
	g.f("shadowing-redeclaration")
	if g.inLoop > 0 {
		g.f("shadowing-redeclaration-in-loop")
	}
	nv := variable{name: v.name, typ: v.typ}
	g.declare(nv)
	g.printVar(nv)
}

func (g *gen) scalarType() string {
	return rapid.SampledFrom(g.types).Draw(g.t, "type")
}

func (g *gen) declStmt() {
	t := g.scalarType()
	n := g.local("v")
	e := g.expr(t, 2)
	form := g.pick("declform", 3)
	switch {
	case form == 0:
		g.line("var %s %s = %s", n, t, e.s)
		g.f("var-decl " + class(t))
	case form == 1 && !e.isConst:
		g.line("%s := %s", n, e.s)
		g.f("define-typed " + class(t))
	case form == 1 && (t == "int" || t == "float64" || t == "string" || t == "bool"):
		// an untyped constant takes its default type
		g.line("%s := %s", n, e.s)
		g.f("define-const " + class(t))
	default:
		if e.isConst && t != "string" && t != "bool" {
			g.line("%s := %s(%s)", n, t, e.s)
			g.f("define-cast " + class(t))
		} else {
			g.line("var %s %s = %s", n, t, e.s)
			g.f("var-decl " + class(t))
		}
	}
	v := variable{name: n, typ: t}
	g.declare(v)
	g.printVar(v)
}

func (g *gen) mutable() []variable {
	return g.vars(func(v variable) bool { return isScalar(v.typ) && !v.frozen })
}

func (g *gen) assignStmt() {
	vs := g.mutable()
	if len(vs) == 0 {
		g.declStmt()
		return
	}
	v := vs[g.pick("avar", len(vs))]
	t := v.typ
	switch {
	case isNum(t) && g.chance("opassign", 50):
		op := rapid.SampledFrom([]string{"+=", "-=", "*=", "/="}).Draw(g.t, "aop")
		rhs := g.expr(t, 2).s
		if op == "/=" {
			rhs = g.nonZeroLiteral(t)
		}
		g.line("%s %s %s", v.name, op, rhs)
		g.f("opassign " + op + " " + class(t))
	case t == "string" && g.chance("strappend", 40):
		g.line("%s += %s", v.name, g.expr(t, 1).s)
		g.f("opassign += string")
	default:
		g.line("%s = %s", v.name, g.assigned(t, g.expr(t, 2)))
		g.f("assign " + class(t))
	}
	g.printVar(v)
}

// assigned is the text of e as the right-hand side of a plain assignment to a
// variable of type t. In dynamic mode Ego documents that assigning a constant
// of another type changes the variable's type ("the variable's type changes
// to match", docs/LANGUAGE.md, Assigning to a variable), a documented
// difference from Go and so outside C01: a bare constant is therefore only
// assigned to a variable of the constant's own default type, and converted
// explicitly ("v = uint8(128)") otherwise.
func (g *gen) assigned(t string, e expr) string {
	// Ego-flavoured programs (never compared with Go, only with other Ego
	// runs) keep the bare constant: under strict and relaxed checking it must
	// adapt to the variable's type, which C02 and C04 rely on.
	if !g.ego && e.isConst && isNum(t) && t != "int" && t != "float64" {
		return t + "(" + e.s + ")"
	}
	return e.s
}

func (g *gen) incDecStmt() {
	vs := g.vars(func(v variable) bool { return isNum(v.typ) && !v.frozen })
	if len(vs) == 0 {
		g.declStmt()
		return
	}
	v := vs[g.pick("ivar", len(vs))]
	op := rapid.SampledFrom([]string{"++", "--"}).Draw(g.t, "incdec")
	g.line("%s%s", v.name, op)
	g.f("incdec " + op + " " + class(v.typ))
	g.printVar(v)
}

func (g *gen) printExprStmt() {
	t := g.scalarType()
	e := g.expr(t, 3)
	g.n++
	g.line(`fmt.Printf("e%d=%s\n", %s)`, g.n, verb(t, g), e.s)
	g.f("print-expr " + class(t))
}

// cond is a boolean expression that is never a constant expression (Go
// rejects duplicate constant cases in a tagless switch).
func (g *gen) cond() string {
	e := g.expr("bool", 2)
	if e.isConst {
		a := g.nonConst("int", g.varsOf("int"))
		op := rapid.SampledFrom([]string{"==", "!=", "<", ">"}).Draw(g.t, "ccmp")
		return "(" + a.s + " " + op + " " + g.literal("int") + ")"
	}
	return e.s
}

// nonConstCond: Go accepts constant conditions, but keep them variable.
func (g *gen) ifStmt() {
	g.f("if")
	g.line("if %s {", g.cond())
	g.nested(2)
	if g.chance("else", 50) {
		if g.chance("elseif", 30) {
			g.line("} else if %s {", g.cond())
			g.nested(1)
			g.f("else-if")
		}
		g.line("} else {")
		g.nested(2)
		g.f("else")
	}
	g.line("}")
}

func (g *gen) nested(n int) {
	g.depth++
	g.push()
	k := 1 + g.pick("nstmts", n)
	g.block(k)
	g.pop()
	g.depth--
}

func (g *gen) forStmt() {
	iv := g.local("i")
	limit := 2 + g.pick("limit", 4)
	labelled := g.chance("label", 25) && g.depth < 3
	label := ""
	form := g.pick("forform", 3)
	if form != 0 {
		g.line("%s := 0", iv)
	}
	if labelled {
		// the label must be attached to the for statement itself
		label = g.local("L")
		g.line("%s:", label)
		g.f("label")
	}
	switch form {
	case 0: // three-clause
		g.line("for %s := 0; %s < %d; %s++ {", iv, iv, limit, iv)
		g.f("for-3clause")
	case 1: // condition only
		g.line("for %s < %d {", iv, limit)
		g.f("for-cond")
	case 2: // infinite with break
		g.line("for {")
		g.f("for-infinite")
	}
	g.depth++
	g.push()
	g.declare(variable{name: iv, typ: "int", frozen: true})
	if form == 2 {
		g.line("if %s >= %d {", iv, limit)
		g.line("\tbreak")
		g.line("}")
	}
	if form != 0 {
		// the counter advances first, so continue cannot loop forever
		g.line("%s++", iv)
	}
	g.line(`fmt.Printf("%s=%%d\n", %s)`, iv, iv)
	g.inLoop++
	if labelled {
		g.labels = append(g.labels, label)
	}
	// optional early break / continue (a labelled loop always uses its
	// label: Go rejects an unused label)
	if labelled || g.chance("brk", 35) {
		kw := rapid.SampledFrom([]string{"break", "continue"}).Draw(g.t, "brkkw")
		tgt := ""
		if labelled {
			tgt = " " + label
			g.f("labelled-" + kw)
		} else if len(g.labels) > 0 && g.chance("tolabel", 50) {
			tgt = " " + g.labels[g.pick("lbl", len(g.labels))]
			g.f("labelled-" + kw)
		} else {
			g.f(kw)
		}
		g.line("if %s == %d {", iv, 1+g.pick("brkat", limit))
		g.line("\t%s%s", kw, tgt)
		g.line("}")
	}
	g.block(1 + g.pick("forbody", 3))
	if labelled {
		g.labels = g.labels[:len(g.labels)-1]
	}
	g.inLoop--
	g.pop()
	g.depth--
	g.line("}")
}

func (g *gen) sliceVars() []variable {
	return g.vars(func(v variable) bool { return strings.HasPrefix(v.typ, "[]") })
}

func (g *gen) newSlice() variable {
	t := g.scalarType()
	n := g.local("s")
	k := 1 + g.pick("slen", 4)
	var els []string
	for i := 0; i < k; i++ {
		els = append(els, g.literal(t))
	}
	g.line("%s := []%s{%s}", n, t, strings.Join(els, ", "))
	g.f("slice-literal " + class(t))
	v := variable{name: n, typ: "[]" + t, minLen: k}
	g.declare(v)
	g.printVar(v)
	return v
}

func (g *gen) rangeStmt() {
	ss := g.sliceVars()
	var s variable
	if len(ss) == 0 || g.chance("newslice", 30) {
		s = g.newSlice()
	} else {
		s = ss[g.pick("rs", len(ss))]
	}
	et := s.typ[2:]
	iv, ev := g.local("i"), g.local("e")
	form := g.pick("rangeform", 3)
	switch form {
	case 0:
		g.line("for %s, %s := range %s {", iv, ev, s.name)
	case 1:
		g.line("for _, %s := range %s {", ev, s.name)
	case 2:
		g.line("for %s := range %s {", iv, s.name)
	}
	g.f("range-slice")
	g.depth++
	g.push()
	if form != 1 {
		g.declare(variable{name: iv, typ: "int", frozen: true})
		g.line(`fmt.Printf("%s=%%d\n", %s)`, iv, iv)
	}
	if form != 2 {
		g.declare(variable{name: ev, typ: et, frozen: true})
		g.line(`fmt.Printf("%s=%s\n", %s)`, ev, verb(et, g), ev)
	}
	g.inLoop++
	g.block(1 + g.pick("rangebody", 2))
	g.inLoop--
	g.pop()
	g.depth--
	g.line("}")
}

func (g *gen) switchStmt() {
	if g.chance("tagged", 55) {
		t := rapid.SampledFrom([]string{"int", "string"}).Draw(g.t, "swT")
		if !contains(g.types, t) {
			t = "int"
		}
		tag := g.expr(t, 2)
		if tag.isConst {
			tag = g.nonConst(t, g.varsOf(t))
		}
		g.line("switch %s {", tag.s)
		g.f("switch-tagged " + t)
		used := map[string]bool{}
		k := 1 + g.pick("ncases", 3)
		for i := 0; i < k; i++ {
			lit := g.literal(t)
			if used[lit] {
				continue
			}
			used[lit] = true
			// Go rejects duplicate constant cases; one literal per case,
			// sometimes two
			cs := lit
			if g.chance("twocase", 25) {
				l2 := g.literal(t)
				if !used[l2] {
					used[l2] = true
					cs += ", " + l2
					g.f("switch-multi-value-case")
				}
			}
			g.line("case %s:", cs)
			g.nested(1)
		}
		if g.chance("default", 60) {
			g.line("default:")
			g.nested(1)
			g.f("switch-default")
		}
		g.line("}")
		return
	}
	g.line("switch {")
	g.f("switch-tagless")
	k := 1 + g.pick("ncond", 3)
	for i := 0; i < k; i++ {
		g.line("case %s:", g.cond())
		g.nested(1)
	}
	if g.chance("default2", 60) {
		g.line("default:")
		g.nested(1)
		g.f("switch-default")
	}
	g.line("}")
}

func contains(xs []string, x string) bool {
	for _, y := range xs {
		if y == x {
			return true
		}
	}
	return false
}

func (g *gen) sliceStmt() {
	ss := g.sliceVars()
	if len(ss) == 0 {
		g.newSlice()
		return
	}
	s := ss[g.pick("ss", len(ss))]
	et := s.typ[2:]
	op := g.pick("sliceop", 3)
	if s.minLen == 0 {
		op = 0
	}
	switch op {
	case 0: // append (the variable keeps its minimum length)
		g.line("%s = append(%s, %s)", s.name, s.name, g.expr(et, 2).s)
		g.f("append")
	case 1: // element store
		g.line("%s[%d] = %s", s.name, g.pick("sidx", s.minLen), g.expr(et, 2).s)
		g.f("slice-store")
	case 2: // element op-assign
		if isNum(et) {
			g.line("%s[%d] += %s", s.name, g.pick("sidx2", s.minLen), g.expr(et, 1).s)
			g.f("slice-opassign")
		} else {
			g.line("%s = append(%s, %s)", s.name, s.name, g.expr(et, 1).s)
			g.f("append")
		}
	}
	g.printVar(s)
	g.line(`fmt.Printf("%s[last]=%s\n", %s[len(%s)-1])`, s.name, verb(et, g), s.name, s.name)
}

func (g *gen) mapStmt() {
	ms := g.vars(func(v variable) bool { return strings.HasPrefix(v.typ, "map[") })
	if len(ms) == 0 || g.chance("newmap", 30) {
		kt := rapid.SampledFrom([]string{"string", "int"}).Draw(g.t, "mk")
		vt := g.scalarType()
		n := g.local("m")
		k := 1 + g.pick("mlen", 3)
		used := map[string]bool{}
		var els []string
		for i := 0; i < k; i++ {
			key := g.literal(kt)
			if used[key] {
				continue
			}
			used[key] = true
			els = append(els, key+": "+g.literal(vt))
		}
		g.line("%s := map[%s]%s{%s}", n, kt, vt, strings.Join(els, ", "))
		g.f("map-literal")
		v := variable{name: n, typ: "map[" + kt + "]" + vt}
		g.declare(v)
		g.printVar(v)
		return
	}
	m := ms[g.pick("mm", len(ms))]
	kt := m.typ[4:strings.Index(m.typ, "]")]
	vt := m.typ[strings.Index(m.typ, "]")+1:]
	switch g.pick("mapop", 2) {
	case 0:
		g.line("%s[%s] = %s", m.name, g.expr(kt, 1).s, g.expr(vt, 2).s)
		g.f("map-store")
		g.printVar(m)
	case 1:
		val, ok := g.local("mv"), g.local("ok")
		g.line("%s, %s := %s[%s]", val, ok, m.name, g.expr(kt, 1).s)
		g.line("if %s {", ok)
		g.line("\t"+`fmt.Printf("%s=%s\n", %s)`, val, verb(vt, g), val)
		g.line("} else {")
		g.line("\t"+`fmt.Printf("%s missing\n")`, val)
		g.line("}")
		g.f("map-two-value-read")
	}
}

func (g *gen) structStmt() {
	if len(g.strs) == 0 {
		g.declStmt()
		return
	}
	st := g.strs[g.pick("st", len(g.strs))]
	svs := g.vars(func(v variable) bool { return v.typ == st.name || v.typ == "*"+st.name })
	if len(svs) == 0 || g.chance("newstruct", 30) {
		n := g.local("p")
		var els []string
		for _, f := range st.fields {
			els = append(els, f.name+": "+g.expr(f.typ, 1).s)
		}
		ptr := g.chance("ptr", 35)
		amp := ""
		typ := st.name
		if ptr {
			amp = "&"
			typ = "*" + st.name
			g.f("struct-pointer")
		}
		g.line("%s := %s%s{%s}", n, amp, st.name, strings.Join(els, ", "))
		g.f("struct-literal")
		v := variable{name: n, typ: typ}
		g.declare(v)
		g.printVar(v)
		return
	}
	v := svs[g.pick("sv", len(svs))]
	nops := 3
	if v.typ == st.name {
		nops = 7
	}
	switch g.pick("structop", nops) {
	case 3:
		// assignment copies a struct value
		q := g.local("q")
		g.line("%s := %s", q, v.name)
		g.line("%s.F0 = %s.F0 + %s", q, q, g.literal("int"))
		g.f("struct-copy-by-assignment")
		g.printVar(variable{name: q, typ: st.name})
	case 4:
		// a composite literal holds a copy of the struct
		q := g.local("s")
		g.line("%s := []%s{%s}", q, st.name, v.name)
		g.line("%s[0].F0 = %s", q, g.literal("int"))
		if g.chance("appendstruct", 50) {
			g.line("%s = append(%s, %s)", q, q, v.name)
			g.line("%s[1].F0 = %s", q, g.literal("int"))
			g.line(`fmt.Printf("%s[1].F0=%%d\n", %s[1].F0)`, q, q)
		}
		g.line(`fmt.Printf("%s[0].F0=%%d len=%%d\n", %s[0].F0, len(%s))`, q, q, q)
		g.f("struct-copy-into-slice")
	case 5:
		q := g.local("m")
		g.line("%s := map[string]%s{\"k\": %s}", q, st.name, v.name)
		g.line("%s.F0 = %s", v.name, g.literal("int"))
		g.line(`fmt.Printf("%s[k].F0=%%d\n", %s["k"].F0)`, q, q)
		g.f("struct-copy-into-map")
	case 6:
		// passed by value: the callee changes its own copy
		g.n++
		g.line(`fmt.Printf("m%d=%%d\n", %s(%s))`, g.n, st.name+"_grow", v.name)
		g.f("struct-passed-by-value")
	case 0:
		f := st.fields[g.pick("fld", len(st.fields))]
		g.line("%s.%s = %s", v.name, f.name, g.assigned(f.typ, g.expr(f.typ, 2)))
		g.f("field-store")
	case 1:
		g.n++
		g.line(`fmt.Printf("m%d=%%d\n", %s.%s())`, g.n, v.name, st.valMethod)
		g.f("value-method-call")
	case 2:
		g.line("%s.%s(%s)", v.name, st.ptrMethod, g.expr("int", 1).s)
		g.f("pointer-method-call")
	}
	g.printVar(v)
}

func (g *gen) closureStmt() {
	// a counter closure over a captured local, or a plain function value
	t := "int"
	cap := g.local("c")
	fn := g.local("f")
	g.line("%s := %s", cap, g.literal(t))
	g.declare(variable{name: cap, typ: t})
	if g.chance("counter", 50) {
		g.line("%s := func(d int) int {", fn)
		g.line("\t%s += d", cap)
		g.line("\treturn %s * 2", cap)
		g.line("}")
		g.f("closure-mutating-capture")
	} else {
		g.line("%s := func(d int) int {", fn)
		g.line("\treturn d + %s", cap)
		g.line("}")
		g.f("closure-reading-capture")
	}
	k := 1 + g.pick("ncalls", 3)
	for i := 0; i < k; i++ {
		g.n++
		g.line(`fmt.Printf("r%d=%%d\n", %s(%s))`, g.n, fn, g.expr("int", 1).s)
	}
	g.line(`fmt.Printf("%s=%%d\n", %s)`, cap, cap)
}

func (g *gen) multiReturnStmt() {
	var cands []function
	for _, f := range g.funcs {
		if len(f.results) == 2 {
			cands = append(cands, f)
		}
	}
	if len(cands) == 0 {
		g.printExprStmt()
		return
	}
	f := cands[g.pick("mr", len(cands))]
	a, b := g.local("a"), g.local("b")
	g.line("%s, %s := %s", a, b, g.callText(f, 2))
	g.f("multiple-return")
	va, vb := variable{name: a, typ: f.results[0]}, variable{name: b, typ: f.results[1]}
	g.declare(va)
	g.declare(vb)
	g.printVar(va)
	g.printVar(vb)
}

func (g *gen) deferStmt() {
	if g.inLoop > 0 || g.depth > 1 || g.noDefer {
		g.printExprStmt()
		return
	}
	g.hasDefer = true
	g.n++
	if g.chance("deferclosure", 50) {
		vs := g.vars(func(v variable) bool { return isScalar(v.typ) })
		g.line("defer func() {")
		if len(vs) > 0 {
			v := vs[g.pick("dv", len(vs))]
			g.line("\t"+`fmt.Printf("deferred%d %s=%s\n", %s)`, g.n, v.name, verb(v.typ, g), v.name)
		} else {
			g.line("\t"+`fmt.Printf("deferred%d\n")`, g.n)
		}
		g.line("}()")
		g.f("defer-closure")
	} else {
		t := g.scalarType()
		g.line(`defer fmt.Printf("deferred%d=%s\n", %s)`, g.n, verb(t, g), g.expr(t, 1).s)
		g.f("defer-call")
	}
}

// ---- Ego-only statements (EgoProgram) ----------------------------------------

func (g *gen) tryStmt() {
	g.f("try-catch")
	g.line("try {")
	g.depth++
	g.push()
	g.block(1 + g.pick("trybody", 2))
	switch g.pick("tryerr", 4) {
	case 0:
		z, q := g.local("z"), g.local("q")
		g.line("%s := 0", z)
		g.line("%s := 7 / %s", q, z)
		g.line(`fmt.Printf("unreachable %%d\n", %s)`, q)
		g.f("try-div0")
	case 1:
		s := g.local("s")
		g.line("%s := []int{1, 2}", s)
		g.line(`fmt.Printf("unreachable %%d\n", %s[5])`, s)
		g.f("try-index")
	case 2:
		g.line(`throw errors.New("oops")`)
		g.f("try-throw")
	default:
		g.f("try-no-error")
	}
	g.pop()
	g.depth--
	e := g.local("err")
	g.line("} catch (%s) {", e)
	g.line("	"+`fmt.Printf("caught %%v\n", %s)`, e)
	g.line("}")
}

func (g *gen) dynamicStmt() {
	d := g.local("d")
	g.line("%s := %s", d, g.literal("int"))
	g.line(`fmt.Printf("%s=%%v\n", %s)`, d, d)
	g.line(`%s = %s`, d, g.literal("string"))
	g.line(`fmt.Printf("%s=%%v\n", %s)`, d, d)
	g.f("dynamic-retype")
}

func (g *gen) arrayLiteralStmt() {
	a := g.local("arr")
	g.line("%s := [%s, %s, %s]", a, g.literal("int"), g.literal("int"), g.literal("int"))
	g.line(`fmt.Printf("%s=%%v %%d\n", %s, len(%s))`, a, a, a)
	g.f("ego-array-literal")
}

// ---- top-level declarations --------------------------------------------------

func (g *gen) genStruct() {
	st := structType{name: g.name("T")}
	nf := 2 + g.pick("nfields", 2)
	hasInt := false
	for i := 0; i < nf; i++ {
		t := g.scalarType()
		if i == 0 {
			t = "int"
		}
		if t == "int" {
			hasInt = true
		}
		st.fields = append(st.fields, variable{name: fmt.Sprintf("F%d", i), typ: t})
	}
	_ = hasInt
	st.valMethod = "Sum"
	st.ptrMethod = "Bump"
	var b strings.Builder
	fmt.Fprintf(&b, "type %s struct {\n", st.name)
	for _, f := range st.fields {
		fmt.Fprintf(&b, "\t%s %s\n", f.name, f.typ)
	}
	b.WriteString("}\n\n")
	// value receiver: reads fields
	fmt.Fprintf(&b, "func (r %s) Sum() int {\n\tt := r.F0\n", st.name)
	for _, f := range st.fields[1:] {
		if isInt(f.typ) {
			fmt.Fprintf(&b, "\tt += int(r.%s)\n", f.name)
		}
		if f.typ == "string" {
			fmt.Fprintf(&b, "\tt += len(r.%s)\n", f.name)
		}
	}
	b.WriteString("\treturn t\n}\n\n")
	// pointer receiver: mutates
	fmt.Fprintf(&b, "func (r *%s) Bump(d int) {\n\tr.F0 = r.F0 + d\n}\n\n", st.name)
	// by-value parameter: changes its own copy only
	fmt.Fprintf(&b, "func %s_grow(r %s) int {\n\tr.F0 = r.F0 + 100\n\treturn r.F0\n}\n\n", st.name, st.name)
	g.pendingDecls = append(g.pendingDecls, b.String())
	g.strs = append(g.strs, st)
	g.f("struct-type")
	g.f("method-value-receiver")
	g.f("method-pointer-receiver")
}

func (g *gen) genFunc() {
	f := function{name: g.name("fn")}
	np := 1 + g.pick("nparams", 3)
	for i := 0; i < np; i++ {
		f.params = append(f.params, g.scalarType())
	}
	kind := g.pick("fkind", 5)
	switch kind {
	case 0:
		f.results = []string{g.scalarType(), g.scalarType()}
	case 1:
		f.variadic = true
		f.params[len(f.params)-1] = rapid.SampledFrom([]string{"int", g.scalarType()}).Draw(g.t, "vt")
		if !isNum(f.params[len(f.params)-1]) {
			f.params[len(f.params)-1] = "int"
		}
		f.results = []string{f.params[len(f.params)-1]}
	default:
		f.results = []string{g.scalarType()}
	}
	saveOut, saveScopes, saveDepth := g.out, g.scopes, g.depth
	saveBudget := g.budget
	saveNoDefer := g.noDefer
	saveHasDefer := g.hasDefer
	g.hasDefer = false
	g.out = &strings.Builder{}
	g.scopes = nil
	g.depth = 0
	g.budget = 6
	g.push()
	var ps []string
	for i, p := range f.params {
		pn := fmt.Sprintf("a%d", i)
		if f.variadic && i == len(f.params)-1 {
			ps = append(ps, pn+" ..."+p)
			g.declare(variable{name: pn, typ: "[]" + p, minLen: 0})
		} else {
			ps = append(ps, pn+" "+p)
			g.declare(variable{name: pn, typ: p})
		}
	}
	named := kind == 2 && len(f.results) == 1
	res := strings.Join(f.results, ", ")
	if len(f.results) > 1 {
		res = "(" + res + ")"
	}
	if named {
		res = "(res " + f.results[0] + ")"
	}
	g.line("func %s(%s) %s {", f.name, strings.Join(ps, ", "), res)
	g.depth++
	switch {
	case named:
		// named result set by a deferred recover of an explicit panic
		g.f("named-result")
		g.f("recover")
		g.line("defer func() {")
		g.line("\tif r := recover(); r != nil {")
		g.line("\t\t" + `fmt.Printf("recovered %%v\n", r)`)
		g.line("\t\tres = %s", g.assigned(f.results[0], g.expr(f.results[0], 1)))
		g.line("\t}")
		g.line("}()")
		g.noDefer = true
		g.block(1 + g.pick("fb1", 2))
		if g.chance("closure-sets-result", 40) {
			cl := g.local("set")
			g.line("%s := func() {", cl)
			g.line("\tres = %s", g.assigned(f.results[0], g.expr(f.results[0], 1)))
			g.line("}")
			g.line("%s()", cl)
			g.line(`fmt.Printf("res=%s\n", res)`, verb(f.results[0], g))
			g.f("closure-assigns-named-result")
		}
		g.line("if %s {", g.cond())
		g.line("\t"+`panic("%s boom")`, f.name)
		g.line("}")
		g.f("panic-recovered")
		g.line("return %s", g.expr(f.results[0], 2).s)
	case f.variadic:
		g.f("variadic-func")
		t := f.results[0]
		g.line("var total %s = %s", t, g.literal(t))
		g.line("for _, x := range a%d {", len(f.params)-1)
		g.line("\ttotal += x")
		g.line("}")
		g.declare(variable{name: "total", typ: t})
		g.block(g.pick("fb2", 2))
		g.line("return total")
	default:
		g.block(1 + g.pick("fb3", 3))
		if g.chance("earlyret", 40) {
			g.line("if %s {", g.cond())
			g.line("\treturn %s", g.retExprs(f))
			g.line("}")
			g.f("early-return")
		}
		g.line("return %s", g.retExprs(f))
	}
	g.depth--
	g.line("}")
	g.pop()
	body := g.out.String()
	g.out, g.scopes, g.depth, g.budget, g.noDefer = saveOut, saveScopes, saveDepth, saveBudget, saveNoDefer
	g.hasDefer = saveHasDefer
	g.pendingDecls = append(g.pendingDecls, body+"\n")
	g.funcs = append(g.funcs, f)
	if len(f.results) == 2 {
		g.f("func-multiple-results")
	}
}

// retExprs builds the operands of a return statement. In a function that has
// registered a defer they are plain variables or literals: ego runs deferred
// calls before it evaluates the operands of an unnamed-result return (its own
// corpus, tests/defer/basic.ego, pins that), Go after, so an operand with a
// visible side effect would print in a different order -- recorded as a known
// finding of C01, kept out of the search by construction.
func (g *gen) retExprs(f function) string {
	var rs []string
	depth := 2
	if g.hasDefer {
		depth = 0
	}
	for _, r := range f.results {
		rs = append(rs, g.expr(r, depth).s)
	}
	return strings.Join(rs, ", ")
}

func (g *gen) genRecursive() {
	name := g.name("rec")
	g.pendingDecls = append(g.pendingDecls, fmt.Sprintf("func %s(n int) int {\n\tif n <= 1 {\n\t\treturn 1\n\t}\n\treturn n * %s(n-1)\n}\n\n", name, name))
	g.funcs = append(g.funcs, function{name: name, params: []string{"smallint"}, results: []string{"int"}})
	g.f("recursion")
}

// GoProgram draws one program whose top-level names start with prefix.
func GoProgram(t *rapid.T, prefix string) Program { return program(t, prefix, false, false) }

// EgoProgram draws a program in the same style that additionally uses
// Ego-only constructs (try/catch with runtime errors and throw, dynamic
// retyping of a variable, [] array literals). It is not a Go program; it is
// used where no Go reference is needed (C02, C04). Language extensions must be
// enabled to run it.
func EgoProgram(t *rapid.T, prefix string) Program { return program(t, prefix, true, false) }

// EgoProgramNoTry is EgoProgram without try/catch: every runtime error,
// including a type error, ends the program (used by C04, which must know that
// a program ran to completion without any type error).
func EgoProgramNoTry(t *rapid.T, prefix string) Program { return program(t, prefix, true, true) }

func program(t *rapid.T, prefix string, ego, noTry bool) Program {
	g := &gen{t: t, prefix: prefix, feat: map[string]bool{}, out: &strings.Builder{}, ego: ego, noTry: noTry}
	// active types: int always, plus a few others
	all := append(append([]string{}, intTypes...), floatTypes...)
	g.types = []string{"int"}
	k := 2 + g.pick("ntypes", 3)
	for i := 0; i < k; i++ {
		c := rapid.SampledFrom(all).Draw(t, "atype")
		if !contains(g.types, c) {
			g.types = append(g.types, c)
		}
	}
	if g.chance("strings", 70) {
		g.types = append(g.types, "string")
	}
	if g.chance("bools", 50) {
		g.types = append(g.types, "bool")
	}
	// helpers
	ns := g.pick("nstructs", 3)
	for i := 0; i < ns; i++ {
		g.genStruct()
	}
	nf := 1 + g.pick("nfuncs", 4)
	for i := 0; i < nf; i++ {
		g.genFunc()
	}
	if g.chance("rec", 30) {
		g.genRecursive()
	}
	// main
	abort := ""
	if g.chance("abort", 15) {
		abort = rapid.SampledFrom([]string{"div0", "index", "panic"}).Draw(t, "abortkind")
	}
	g.noDefer = abort == "div0" || abort == "index"
	g.budget = 8 + g.pick("mainlen", 14)
	total := g.budget
	abortAt := -1
	if abort != "" {
		abortAt = g.pick("abortat", total)
	}
	g.push()
	g.line("func %smain() {", prefix)
	g.depth++
	for g.budget > 0 {
		if abortAt >= 0 && total-g.budget >= abortAt {
			g.injectAbort(abort)
			abortAt = -1
		}
		g.stmt()
	}
	if abortAt >= 0 {
		g.injectAbort(abort)
	}
	g.line(`fmt.Printf("done\n")`)
	g.depth--
	g.line("}")
	g.pop()
	var feats []string
	for f := range g.feat {
		feats = append(feats, f)
	}
	sort.Strings(feats)
	body := strings.Join(g.pendingDecls, "") + g.out.String()
	// smallint parameters (recursion depth) are plain ints in the source
	return Program{Prefix: prefix, Body: body, Features: feats, Abort: abort}
}

func (g *gen) injectAbort(kind string) {
	g.f("abort-" + kind)
	switch kind {
	case "div0":
		z, r := g.local("z"), g.local("q")
		t := rapid.SampledFrom(intTypes).Draw(g.t, "divT")
		g.line("var %s %s = 0", z, t)
		g.line("var %s %s = 7", r, t)
		g.line(`fmt.Printf("before abort\n")`)
		g.line(`fmt.Printf("%s=%%d\n", %s / %s)`, r, r, z)
	case "index":
		s := g.local("s")
		g.line("%s := []int{1, 2, 3}", s)
		g.line(`fmt.Printf("before abort\n")`)
		k := g.local("k")
		g.line("%s := len(%s) + %d", k, s, g.pick("over", 3))
		g.line(`fmt.Printf("%s=%%d\n", %s[%s])`, s, s, k)
	case "panic":
		g.line(`fmt.Printf("before abort\n")`)
		g.line(`panic("fatal %s")`, g.local("p"))
	}
}
