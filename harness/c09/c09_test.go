// C09 "Finished executions leave nothing running".
//
// What is decided: when an Ego program (or a callback a runtime function makes
// into Ego: sort comparators, sort.Search predicates, String() methods used by
// fmt, tables.Find predicates) finishes — normally, with a runtime error, with
// an unrecovered panic(), with a compile error, or by os.Exit — nothing the
// interpreter started for it keeps running: repeating the execution does not
// make the number of live goroutines grow.
//
// Oracle (in a worker process, package workerproc): run the same terminating
// program 20 times, wait for the goroutine count to settle, record g1 and the
// set of live goroutine ids; run it 40 more times, settle, record g2. The
// property holds iff g2 <= g1. One-time process-wide workers (os/signal's
// loop, cache sweepers) are started during the first batch and so never
// count. When g2 > g1 the worker waits up to 6 s more for the count to come
// back (a leaked goroutine is blocked forever; one that is merely slow to exit
// on a loaded machine is not) and then reports the stacks of the goroutines
// that exist now and did not exist at g1. If every such goroutine is runnable
// or running the machine is starved and the case is inconclusive.
//
// A case (60 executions) is cut off after 45 s of worker CPU time or idleness
// (inconclusive). Preconditions taken from the statement and from real callers:
//   - Programs terminate, and every goroutine a program starts finishes on
//     its own: it signals main (WaitGroup / channel) as its last Ego action or
//     fails after signalling. Programs that leave their own goroutine blocked
//     are allowed by the statement and are not generated.
//   - Entry points: `ego run FILE`, `ego test FILE`, POST /admin/run
//     (admin.RunCodeHandler with httptest; one fixed dashboard session, not the
//     debugger mode, whose parked goroutine is the session's own). Ego service
//     files (internal/server/services) are not driven by this check.
package c09

import (
	"encoding/json"
	"fmt"
	"os"
	"path/filepath"
	"regexp"
	"runtime"
	"sort"
	"strconv"
	"strings"
	"sync"
	"testing"
	"time"

	"github.com/tucats/ego/internal/cli/settings"
	"github.com/tucats/ego/internal/defs"
	"github.com/tucats/ego/verif/egorun"
	"github.com/tucats/ego/verif/vkit"
	"github.com/tucats/ego/verif/workerproc"
	"pgregory.net/rapid"
)

func TestMain(m *testing.M) { workerproc.Main(m) }

// Case is one program with the entry point and configuration it runs under.
type Case struct {
	Entry    string        `json:"entry"` // run | test | server
	Cfg      egorun.Config `json:"cfg"`
	Src      string        `json:"src"`
	Features []string      `json:"features"` // what the generator put in (labels, non-triviality)
	Ending   string        `json:"ending"`
}

const (
	batch1 = 20
	batch2 = 40
	// how long a count that is still higher after the second batch is given
	// to come back before the extra goroutines are examined
	extendedWait = 6 * time.Second
)

// -------------------------------------------------------------- worker side

type measureReq struct {
	Entry string        `json:"entry"`
	Cfg   egorun.Config `json:"cfg"`
	Src   string        `json:"src"`
	N1    int           `json:"n1"`
	N2    int           `json:"n2"`
}

type measureResp struct {
	G0       int            `json:"g0"`
	G1       int            `json:"g1"`
	G2       int            `json:"g2"`
	Phases   map[string]int `json:"phases"`
	Msg      string         `json:"msg,omitempty"` // first error text seen
	Extra    []string       `json:"extra,omitempty"`
	States   map[string]int `json:"states,omitempty"`   // state of the extra goroutines
	Creators map[string]int `json:"creators,omitempty"` // "created by" of the extra goroutines
	Settled  bool           `json:"settled"`
}

var reGoroutineHdr = regexp.MustCompile(`^goroutine (\d+) \[([^\],]*)`)

// goroutines returns id -> full stack text of every live goroutine.
func goroutines() map[int]string {
	buf := make([]byte, 1<<20)
	for {
		n := runtime.Stack(buf, true)
		if n < len(buf) {
			buf = buf[:n]
			break
		}
		buf = make([]byte, 2*len(buf))
	}
	out := map[int]string{}
	for _, g := range strings.Split(string(buf), "\n\n") {
		if m := reGoroutineHdr.FindStringSubmatch(g); m != nil {
			id, _ := strconv.Atoi(m[1])
			out[id] = g
		}
	}
	return out
}

// settle waits until the goroutine count has been the same for 12
// consecutive polls (2 ms apart), for at most max.
func settle(max time.Duration) (n int, stable bool) {
	deadline := time.Now().Add(max)
	last, same := -1, 0
	for time.Now().Before(deadline) {
		runtime.Gosched()
		n = runtime.NumGoroutine()
		if n == last {
			same++
		} else {
			same, last = 0, n
		}
		if same >= 12 {
			return n, true
		}
		time.Sleep(2 * time.Millisecond)
	}
	return runtime.NumGoroutine(), false
}

func init() {
	workerproc.OnWorkerStart = func() {
		egorun.Init()
		dir, _ := os.Getwd()
		sb := filepath.Join(dir, "sandbox")
		_ = os.MkdirAll(sb, 0o755)
		settings.SetDefault(defs.SandboxPathSetting, sb)
	}
	workerproc.Handle("measure", func(raw json.RawMessage) (any, error) {
		var rq measureReq
		if err := json.Unmarshal(raw, &rq); err != nil {
			return nil, err
		}
		rs := measureResp{Phases: map[string]int{}}
		rs.G0 = runtime.NumGoroutine()
		run := func(n int) {
			for i := 0; i < n; i++ {
				r := workerproc.RunEntry(rq.Entry, rq.Src, rq.Cfg)
				rs.Phases[r.Phase]++
				if rs.Msg == "" && (r.Msg != "" || r.GoPanic != "") {
					rs.Msg = r.Msg + r.GoPanic
				}
			}
		}
		run(rq.N1)
		rs.G1, _ = settle(2 * time.Second)
		before := goroutines()
		rs.G1 = runtime.NumGoroutine()
		if len(before) > rs.G1 {
			rs.G1 = len(before)
		}
		run(rq.N2)
		rs.G2, rs.Settled = settle(2 * time.Second)
		if rs.G2 > rs.G1 {
			// leaked goroutines stay; slow ones go away
			deadline := time.Now().Add(extendedWait)
			for time.Now().Before(deadline) && runtime.NumGoroutine() > rs.G1 {
				time.Sleep(10 * time.Millisecond)
			}
			rs.G2 = runtime.NumGoroutine()
		}
		if rs.G2 > rs.G1 {
			after := goroutines()
			rs.States, rs.Creators = map[string]int{}, map[string]int{}
			var ids []int
			for id := range after {
				if _, old := before[id]; !old {
					ids = append(ids, id)
				}
			}
			sort.Ints(ids)
			for _, id := range ids {
				g := after[id]
				if m := reGoroutineHdr.FindStringSubmatch(g); m != nil {
					rs.States[m[2]]++
				}
				creator := "unknown"
				for _, l := range strings.Split(g, "\n") {
					if strings.HasPrefix(l, "created by ") {
						creator = strings.TrimPrefix(l, "created by ")
						if i := strings.Index(creator, " in goroutine"); i > 0 {
							creator = creator[:i]
						}
					}
				}
				rs.Creators[workerproc.ShortFunc(creator+"(")]++
				if len(rs.Extra) < 6 {
					rs.Extra = append(rs.Extra, g)
				}
			}
		}
		return rs, nil
	})
}

// ---------------------------------------------------------------- generator

// parts of a program: declarations at file level and statements of the body
type prog struct {
	decls    []string
	body     []string
	features map[string]bool
	n        int // unique-name counter
}

func (p *prog) name(prefix string) string {
	p.n++
	return prefix + strconv.Itoa(p.n)
}

func (p *prog) feat(f string) { p.features[f] = true }

// an Ego statement that fails at run time
func genFailure(t *rapid.T, label string) string {
	return rapid.SampledFrom([]string{
		"zz := 0\nfmt.Println(10 / zz)",
		"var na []int\nfmt.Println(na[7])",
		"var np *int\nfmt.Println(*np)",
		"fmt.Println(strconv.Atoi(5, 6, 7))",
		"var nm map[string]int\nnm[\"a\"] = undefinedName",
		"xs := []int{1}\nxs[3] = 1",
		"var q any = \"s\"\nfmt.Println(q.(int))",
		"fmt.Println(strings.Repeat(\"a\", -1))",
	}).Draw(t, label)
}

// the body of a callback: plain, failing at the k-th call, panicking, nested
func genCallback(t *rapid.T, p *prog, plain string) (pre, body string) {
	switch rapid.IntRange(0, 6).Draw(t, "cb") {
	case 0, 1:
		return "", plain
	case 2:
		p.feat("callback-error")
		cnt := p.name("cnt")
		k := rapid.IntRange(1, 6).Draw(t, "k")
		return cnt + " := 0", fmt.Sprintf("%s = %s + 1\nif %s >= %d {\n%s\n}\n%s", cnt, cnt, cnt, k, genFailure(t, "cbfail"), plain)
	case 3:
		p.feat("callback-panic")
		cnt := p.name("cnt")
		k := rapid.IntRange(1, 6).Draw(t, "k")
		return cnt + " := 0", fmt.Sprintf("%s = %s + 1\nif %s >= %d {\npanic(\"in callback\")\n}\n%s", cnt, cnt, cnt, k, plain)
	case 4:
		p.feat("callback-nested-sort")
		return "", "inner := []int{3, 1, 2}\nsort.Slice(inner, func(a int, b int) bool {\nreturn inner[a] < inner[b]\n})\n" + plain
	case 5:
		p.feat("callback-try")
		return "", "try {\n" + genFailure(t, "cbtry") + "\n} catch (e) {\n_ = e\n}\n" + plain
	default:
		p.feat("callback-goroutine")
		return "", "var cwg sync.WaitGroup\ncwg.Add(1)\ngo func() {\ncwg.Done()\n}()\ncwg.Wait()\n" + plain
	}
}

func maybeTry(t *rapid.T, p *prog, stmt string) string {
	if rapid.IntRange(0, 2).Draw(t, "try") == 0 {
		return stmt
	}
	p.feat("try")
	return "try {\n" + stmt + "\n} catch (e) {\nfmt.Println(\"caught\", e)\n}"
}

func genAction(t *rapid.T, p *prog) {
	switch rapid.IntRange(0, 9).Draw(t, "action") {
	case 0, 1: // sort.Slice / SliceStable with an Ego comparator
		fn := rapid.SampledFrom([]string{"Slice", "SliceStable"}).Draw(t, "sortfn")
		p.feat("sort." + fn)
		n := rapid.IntRange(2, 40).Draw(t, "len")
		arr := p.name("arr")
		vals := make([]string, n)
		for i := range vals {
			vals[i] = strconv.Itoa((i*7919 + 13) % 101)
		}
		pre, body := genCallback(t, p, "return "+arr+"[i] < "+arr+"[j]")
		st := fmt.Sprintf("%s := []int{%s}\n%s\nsort.%s(%s, func(i int, j int) bool {\n%s\n})\nfmt.Println(%s[0])", arr, strings.Join(vals, ", "), pre, fn, arr, body, arr)
		p.body = append(p.body, maybeTry(t, p, st))
	case 2: // sort.Search with an Ego predicate
		p.feat("sort.Search")
		arr := p.name("arr")
		pre, body := genCallback(t, p, "return "+arr+"[i] >= 7")
		st := fmt.Sprintf("%s := []int{1, 3, 5, 7, 9, 11, 13}\n%s\nidx%s, serr%s := sort.Search(len(%s), func(i int) bool {\n%s\n})\nfmt.Println(idx%s, serr%s)", arr, pre, arr, arr, arr, body, arr, arr)
		p.body = append(p.body, maybeTry(t, p, st))
	case 3: // fmt with an Ego String() method
		p.feat("fmt-String-method")
		ty := p.name("T")
		meth := "return \"T\" + strconv.Itoa(v.n)"
		if rapid.IntRange(0, 2).Draw(t, "strfail") == 0 {
			p.feat("callback-error")
			meth = genFailure(t, "strf") + "\n" + meth
		}
		p.decls = append(p.decls, fmt.Sprintf("type %s struct {\nn int\n}\nfunc (v %s) String() string {\n%s\n}", ty, ty, meth))
		st := rapid.SampledFrom([]string{
			"fmt.Println(%s{n: 1})", "fmt.Println(fmt.Sprintf(\"%%v %%s\", %s{n: 2}, \"x\"))", "fmt.Println([]any{%s{n: 3}})",
		}).Draw(t, "fmtform")
		p.body = append(p.body, maybeTry(t, p, fmt.Sprintf(st, ty)))
	case 4, 5: // goroutines that all finish before main goes on
		p.feat("goroutines")
		n := rapid.IntRange(1, 6).Draw(t, "ngo")
		wg := p.name("wg")
		work := rapid.SampledFrom([]string{
			"x := id * 2\n_ = x",
			"s := []int{3, 2, 1}\nsort.Slice(s, func(a int, b int) bool {\nreturn s[a] < s[b]\n})",
			"func() {\ndefer func() {\nrecover()\n}()\npanic(\"in goroutine, recovered\")\n}()",
			"try {\nzz := 0\n_ = 1 / zz\n} catch (e) {\n_ = e\n}",
			"sd, _ := time.ParseDuration(\"1ms\")\ntime.Sleep(sd)",
			"var iwg sync.WaitGroup\niwg.Add(1)\ngo func() {\niwg.Done()\n}()\niwg.Wait()",
		}).Draw(t, "work")
		if strings.Contains(work, "sort.Slice") {
			p.feat("sort.Slice")
		}
		work = "_ = id\n" + work
		switch rapid.IntRange(0, 3).Draw(t, "gostyle") {
		case 0: // named worker, WaitGroup by pointer
			w := p.name("worker")
			p.decls = append(p.decls, fmt.Sprintf("func %s(id int, wg *sync.WaitGroup) {\n%s\nwg.Done()\n}", w, work))
			p.body = append(p.body, fmt.Sprintf("var %s sync.WaitGroup\nfor gi := 0; gi < %d; gi++ {\n%s.Add(1)\ngo %s(gi, &%s)\n}\n%s.Wait()", wg, n, wg, w, wg, wg))
		case 1: // closures
			p.body = append(p.body, fmt.Sprintf("var %s sync.WaitGroup\nfor gi := 0; gi < %d; gi++ {\n%s.Add(1)\ngo func(id int) {\n%s\n%s.Done()\n}(gi)\n}\n%s.Wait()", wg, n, wg, work, wg, wg))
		case 2: // results over a channel
			ch := p.name("ch")
			p.feat("channels")
			p.body = append(p.body, fmt.Sprintf("%s := make(chan, %d)\nfor gi := 0; gi < %d; gi++ {\ngo func(id int) {\n%s\n%s <- id\n}(gi)\n}\nfor gi := 0; gi < %d; gi++ {\nv := <-%s\n_ = v\n}", ch, n, n, work, ch, n, ch))
		default: // a goroutine that fails after it has signalled
			p.feat("goroutine-error")
			p.body = append(p.body, fmt.Sprintf("var %s sync.WaitGroup\n%s.Add(1)\ngo func() {\n%s.Done()\n%s\n}()\n%s.Wait()", wg, wg, wg, genFailure(t, "gofail"), wg))
		}
	case 6: // defer / recover / nested calls
		p.feat("defer-recover")
		f := p.name("f")
		p.decls = append(p.decls, fmt.Sprintf("func %s(n int) int {\ndefer func() {\nif r := recover(); r != nil {\nfmt.Println(\"recovered\", r)\n}\n}()\nif n <= 0 {\npanic(\"bottom\")\n}\nreturn %s(n-1) + 1\n}", f, f))
		p.body = append(p.body, fmt.Sprintf("fmt.Println(%s(%d))", f, rapid.IntRange(0, 5).Draw(t, "depth")))
	case 7: // time
		p.feat("time")
		p.body = append(p.body, rapid.SampledFrom([]string{
			"d%[1]d, _ := time.ParseDuration(\"1ms\")\ntime.Sleep(d%[1]d)", "t%[1]d := time.Now()\nd%[1]d, _ := time.ParseDuration(\"1ms\")\ntime.Sleep(d%[1]d)\nfmt.Println(time.Since(t%[1]d).String() != \"\")",
		}).Draw(t, "timeform"))
		p.n++
		p.body[len(p.body)-1] = fmt.Sprintf(p.body[len(p.body)-1], p.n)
	case 8: // tables.Find with an Ego predicate
		p.feat("tables.Find")
		tb := p.name("tb")
		pre, body := genCallback(t, p, "return age > \"40\"")
		st := fmt.Sprintf("%s := tables.New(\"Name\", \"Age\")\n%s.AddRow(\"Tom\", 55)\n%s.AddRow(\"Bob\", 35)\n%s.AddRow(\"Ann\", 41)\n%s\nrows%s := %s.Find(func(name string, age string) bool {\n_ = name\n%s\n})\nfmt.Println(rows%s)", tb, tb, tb, tb, pre, tb, tb, body, tb)
		p.body = append(p.body, maybeTry(t, p, st))
	default: // plain computation
		acc := p.name("acc")
		p.body = append(p.body, fmt.Sprintf("%s := 0\nfor ci := 0; ci < 50; ci++ {\n%s = %s + ci\n}\nfmt.Println(%s)", acc, acc, acc, acc))
	}
}

func genCase(t *rapid.T) Case {
	p := &prog{features: map[string]bool{}}
	entry := rapid.SampledFrom([]string{"run", "run", "run", "test", "server", "server"}).Draw(t, "entry")
	cfg := egorun.Config{
		Types:      rapid.SampledFrom([]string{"dynamic", "dynamic", "relaxed", "strict"}).Draw(t, "types"),
		Optimize:   rapid.SampledFrom([]int{0, 1, 2, 3}).Draw(t, "opt"),
		Extensions: true,
	}
	p.decls = append(p.decls, "func ident(x int) int {\nreturn x\n}")
	na := rapid.IntRange(1, 3).Draw(t, "nactions")
	for i := 0; i < na; i++ {
		genAction(t, p)
	}
	ending := rapid.SampledFrom([]string{"normal", "normal", "runtime-error", "runtime-error", "panic", "panic-nested", "compile-error", "exit", "error-in-defer"}).Draw(t, "ending")
	tail := ""
	switch ending {
	case "runtime-error":
		p.body = append(p.body, genFailure(t, "endfail"))
	case "panic":
		p.body = append(p.body, "panic(\"unrecovered\")")
	case "panic-nested":
		f := p.name("deep")
		p.decls = append(p.decls, fmt.Sprintf("func %s(n int) int {\ndefer fmt.Println(\"unwinding\", n)\nif n == 0 {\npanic(\"deep\")\n}\nreturn %s(n - 1)\n}", f, f))
		p.body = append(p.body, fmt.Sprintf("fmt.Println(%s(3))", f))
	case "compile-error":
		tail = rapid.SampledFrom([]string{"\nfunc broken( {\n", "\nvar v undefinedType\n", "\n}}}\n", "\nx := := 1\n", "\nfunc unused() {\nq := 1\n}\n"}).Draw(t, "broken")
	case "exit":
		p.body = append(p.body, "os.Exit(3)")
	case "error-in-defer":
		p.body = append(p.body, "defer func() {\n"+genFailure(t, "deferfail")+"\n}()")
	}
	c := Case{Entry: entry, Cfg: cfg, Ending: ending}
	for f := range p.features {
		c.Features = append(c.Features, f)
	}
	sort.Strings(c.Features)
	body := strings.Join(p.body, "\n")
	decls := strings.Join(p.decls, "\n")
	imports := "import (\n\"fmt\"\n\"os\"\n\"sort\"\n\"strconv\"\n\"strings\"\n\"sync\"\n\"tables\"\n\"time\"\n)\n"
	switch entry {
	case "run":
		c.Src = "package main\n" + imports + decls + "\nfunc main() {\n" + body + "\n}\n" + tail
	case "test":
		c.Src = imports + decls + "\n@test \"c09\"\n{\n" + body + "\n}\n" + tail
	default:
		c.Src = imports + decls + "\n" + body + "\n" + tail
	}
	return c
}

func fixed() []Case {
	cfg := egorun.Config{Types: "dynamic", Optimize: 1, Extensions: true}
	var cs []Case
	for _, e := range []string{"run", "test", "server"} {
		wrap := func(decls, body string) string {
			switch e {
			case "run":
				return "package main\n" + decls + "\nfunc main() {\n" + body + "\n}\n"
			case "test":
				return decls + "\n@test \"t\"\n{\n" + body + "\n}\n"
			}
			return decls + "\n" + body + "\n"
		}
		cs = append(cs,
			Case{Entry: e, Cfg: cfg, Ending: "normal", Src: wrap("", "fmt.Println(1 + 2)")},
			Case{Entry: e, Cfg: cfg, Ending: "normal", Features: []string{"sort.Slice"}, Src: wrap("", "a := []int{5, 2, 9, 1, 7, 3, 8}\nsort.Slice(a, func(i int, j int) bool {\nreturn a[i] < a[j]\n})\nfmt.Println(a)")},
			Case{Entry: e, Cfg: cfg, Ending: "runtime-error", Features: []string{"sort.SliceStable", "callback-error"}, Src: wrap("", "a := []int{5, 2, 9, 1, 7, 3, 8}\nsort.SliceStable(a, func(i int, j int) bool {\nzz := 0\nreturn a[i] < a[j] / zz\n})\nfmt.Println(a)")},
			Case{Entry: e, Cfg: cfg, Ending: "panic", Src: wrap("", "panic(\"x\")")},
			Case{Entry: e, Cfg: cfg, Ending: "compile-error", Src: wrap("", "x := := 1")},
			Case{Entry: e, Cfg: cfg, Ending: "normal", Features: []string{"goroutines"}, Src: wrap("", "var wg sync.WaitGroup\nfor i := 0; i < 4; i++ {\nwg.Add(1)\ngo func(n int) {\nwg.Done()\n}(i)\n}\nwg.Wait()")},
		)
	}
	return cs
}

// -------------------------------------------------------------- parent side

var (
	poolMu    sync.Mutex
	worker    *workerproc.Worker
	workDir   string
	started   int
	notes     = map[string]int{}
	maxGrowth int
)

func getWorker() (*workerproc.Worker, error) {
	if worker.Alive() && worker.Calls < 40 {
		return worker, nil
	}
	if worker != nil {
		worker.Kill()
	}
	if workDir == "" {
		root := os.Getenv("VERIF_RUN_DIR")
		if root == "" {
			root = filepath.Join(os.TempDir(), "verif-c09-"+strconv.Itoa(os.Getpid()))
		}
		workDir = filepath.Join(root, "c09-"+strconv.Itoa(os.Getpid()))
		_ = os.MkdirAll(filepath.Join(workDir, "tmp"), 0o755)
	}
	w, err := workerproc.Start(workerproc.Options{Dir: workDir, Env: []string{"VERIF_RUN_DIR=" + workDir, "TMPDIR=" + filepath.Join(workDir, "tmp")}})
	if err != nil {
		return nil, err
	}
	started++
	worker = w
	return w, nil
}

func oracle(c Case) vkit.Outcome {
	poolMu.Lock()
	defer poolMu.Unlock()
	var out vkit.Outcome
	out.Key = c.Entry + "|" + c.Cfg.Types + "|" + strconv.Itoa(c.Cfg.Optimize) + "|" + c.Src
	abnormal := c.Ending != "normal"
	out.NonTrivial = abnormal || len(c.Features) > 0
	out.Labels = []string{"entry=" + c.Entry, "ending=" + c.Ending}
	for _, f := range c.Features {
		out.Labels = append(out.Labels, "feature="+f)
	}
	w, err := getWorker()
	if err != nil {
		out.Inconclusive = "cannot start worker"
		return out
	}
	r := w.Call("measure", measureReq{Entry: c.Entry, Cfg: c.Cfg, Src: c.Src, N1: batch1, N2: batch2}, 45*time.Second)
	switch r.Status {
	case workerproc.Timeout:
		out.Inconclusive = "timeout"
		notes["timeout: "+clip(c.Src, 200)]++
		return out
	case workerproc.Died:
		// a crash of the host is C07's subject; here it only means no count
		cr, _ := workerproc.FindCrash(r.Stderr)
		out.Inconclusive = "worker-died"
		notes[fmt.Sprintf("worker died (exit %d %s) %s", r.ExitCode, r.Signal, cr.Sig)]++
		return out
	}
	if r.Err != "" {
		out.Inconclusive = "worker-error"
		notes["worker error: "+r.Err]++
		return out
	}
	var m measureResp
	_ = json.Unmarshal(r.Data, &m)
	var phases []string
	for k, n := range m.Phases {
		phases = append(phases, fmt.Sprintf("%s:%d", k, n))
		out.Labels = append(out.Labels, "entry="+c.Entry+" outcome="+k)
	}
	sort.Strings(phases)
	if d := m.G2 - m.G1; d > maxGrowth {
		maxGrowth = d
	}
	if m.G2 <= m.G1 {
		return out
	}
	blocked := 0
	for st, n := range m.States {
		if st != "runnable" && st != "running" {
			blocked += n
		}
	}
	if blocked == 0 {
		out.Inconclusive = "extra-goroutines-still-runnable"
		return out
	}
	// signature: who created the goroutines that stayed
	var creators []string
	for k := range m.Creators {
		creators = append(creators, k)
	}
	sort.Slice(creators, func(i, j int) bool {
		if m.Creators[creators[i]] != m.Creators[creators[j]] {
			return m.Creators[creators[i]] > m.Creators[creators[j]]
		}
		return creators[i] < creators[j]
	})
	sig := "leak created by " + creators[0]
	// the worker now carries leaked goroutines: retire it
	worker.Kill()
	out.Fail = &vkit.Failure{
		Sig: sig,
		Observed: fmt.Sprintf("goroutines after %d executions: %d, after %d more: %d (+%d, 6 s after the last one); outcomes %v; first error: %s\nextra goroutines by creator: %v, by state: %v\n%s",
			batch1, m.G1, batch2, m.G2, m.G2-m.G1, phases, clip(m.Msg, 160), m.Creators, m.States, clip(strings.Join(m.Extra, "\n\n"), 5000)),
		Expected: "the number of live goroutines does not grow when a finished execution is repeated (C09)",
	}
	return out
}

func clip(s string, n int) string {
	if len(s) > n {
		return s[:n] + "…"
	}
	return s
}

func TestC09(t *testing.T) {
	defer func() {
		if worker != nil {
			worker.Kill()
		}
	}()
	vkit.Run(t, vkit.Spec[Case]{
		ID:    "C09",
		Level: "exploration",
		Rule: "terminating programs assembled from 1-3 actions (sort.Slice / SliceStable / Search and tables.Find with Ego callbacks that are plain, fail at the k-th call, panic, nest a sort, start a goroutine; fmt using an Ego String() method; 1-6 goroutines synchronised by WaitGroup or channel, incl. one failing after it signalled; defer/recover recursion; time.Sleep) " +
			"and an ending (normal, runtime error, unrecovered panic at depth 0 or 3 with defers, compile error, os.Exit, error in a deferred function), run through `ego run`, `ego test` or POST /admin/run, 20 + 40 times in one worker process. " +
			"Non-trivial: abnormal ending, or a callback from a runtime function, or a goroutine; distinct by entry+configuration+program text.",
		Assumptions: []string{
			"goroutines are counted with runtime.NumGoroutine / runtime.Stack in a worker process that runs nothing else",
			"a count that is higher after the second batch is given 6 s to come back before it is a failure; if all extra goroutines are runnable the case is inconclusive",
			"every goroutine a generated program starts finishes on its own; the debugger mode of /admin/run and Ego service files are not exercised",
		},
		Gen:       genCase,
		Oracle:    oracle,
		Fixed:     fixed,
		Quick:     70,
		Thorough:  1500,
		MaxRounds: 3,
		Extra: func() map[string]any {
			ns := []string{}
			for k, n := range notes {
				ns = append(ns, fmt.Sprintf("%s (x%d)", k, n))
			}
			sort.Strings(ns)
			return map[string]any{"workers_started": started, "max_growth_seen": maxGrowth, "notes": ns}
		},
	})
}
