package c09

import (
	"encoding/json"
	"fmt"
	"os"
	"testing"
	"time"

	"pgregory.net/rapid"
)

// development aid: what do generated programs do (one execution each)?
func TestDev(t *testing.T) {
	if os.Getenv("C09_DEV") == "" {
		t.Skip()
	}
	hist := map[string]int{}
	msgs := map[string]int{}
	rapid.Check(t, func(rt *rapid.T) {
		c := genCase(rt)
		w, _ := getWorker()
		r := w.Call("measure", measureReq{Entry: c.Entry, Cfg: c.Cfg, Src: c.Src, N1: 1, N2: 1}, 5*time.Second)
		var m measureResp
		_ = json.Unmarshal(r.Data, &m)
		ph := ""
		for k := range m.Phases {
			ph = k
		}
		hist[c.Entry+" "+c.Ending+" -> "+r.Status.String()+" "+ph]++
		if r.Status.String() != "ok" {
			fmt.Println("=====", r.Status, c.Entry, c.Features, "\n"+c.Src)
		}
		if m.Msg != "" {
			msgs[c.Entry+" "+c.Ending+": "+clip(m.Msg, 100)]++
		}
	})
	for k, v := range hist {
		fmt.Println(v, k)
	}
	fmt.Println()
	for k, v := range msgs {
		fmt.Println(v, k)
	}
	worker.Kill()
}
