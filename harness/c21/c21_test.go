package c21

// C21 "Native tokens are honoured exactly while valid".
//
// Statement (fixed): A bearer token is accepted if and only if it was issued by
// this server with its current token key, has not been altered, has not
// expired, and its ID is not on the revocation list at the time of the
// request. This holds for every interleaving of token issue, revocation,
// un-revocation, list flush, cache expiry and validation requests.
//
// What is driven. The real server start-up (srvfix, SQLite user database, so
// the revocation store of internal/language/tokens is live) and, per case, a
// history over <= 4 tokens executed inside a testing/synctest bubble:
//   issue     tokens.New(user, "", ttl, ...) (what cipher.New and the logon
//             handler call) or POST /services/admin/logon with an expiration
//   revoke    PUT /admin/tokens (Basic admin credentials) or tokens.Blacklist
//   unrevoke  DELETE /admin/tokens/{id} or tokens.Delete
//   flush     DELETE /admin/tokens or tokens.Flush
//   purge     caches.Purge(Token|Blacklist|Auth) or DELETE /admin/caches[?class=]
//   sleep     virtual time: fixed steps around the 60 s cache lifetime / sweep
//             interval, steps aimed at a token's expiry instant +-1ns/1s, and
//             arbitrary steps up to 4 h
//   setkey    ego.server.token.key changed to another key or back
//   validate  the token string, unmodified or mutated (one hex digit changed
//             to another value, truncated, extended), through
//               router  GET probe route .Authentication(true) via ServeHTTP
//                       (Session.Authenticate: TokenCache, expiry re-check,
//                       auth.TokenUnwrap)
//               authep  GET /services/admin/authenticate (same gate, then the
//                       handler's cipher.Extract)
//               tvalidate / unwrap   tokens.Validate / tokens.Unwrap
//               validate / extract   the Ego-level cipher.Validate / cipher.Extract
//
// Time. DESIGN 1.4: every rapid draw happens before the bubble; the verdict
// leaves the bubble as a value; the bubble first sleeps to 2200-01-01 so that
// goroutines started outside it, which read the real clock, never see
// bubble-time records as expired (the rate-limit pruner, the AuthCache
// sweeper created by the start-up's user write); the forever goroutines ego
// starts lazily (rate-limit pruner, database/sql openers of the SQLite store,
// request bookkeeping) are triggered once outside the bubble by warm-up
// requests that never touch TokenCache or BlacklistCache, so the sweepers of
// those two caches always live inside a bubble and run on virtual time; at the
// end of a bubble the three caches are purged and one scan interval is slept
// so the sweepers exit. A bubble that does not end (real-time watchdog) or
// deadlocks is a HARNESS-ERROR (exit 2), never a verdict.
//
// Model (the statement): for a presentation of token k at virtual time t
//   must reject  the string was altered; or the current key is not the key the
//                token was issued with; or t > expiry; or id is on the list
//   must accept  unaltered, issued with the current key, t < expiry, id not on
//                the list
//   either       t == expiry exactly (the statement does not say which side
//                the instant belongs to)
// expiry = issue instant + ttl (tokens.New doc: "Expires = now + interval").
//
// Preconditions taken from real callers / documentation:
//   * ttl is a positive Go duration string ("15m", "2h", "45s"; New's doc).
//   * ego.server.token.key is a read-only setting at run time
//     (defs.ReadonlySetting): it can only change across a server restart, and a
//     restart empties the in-memory caches. A generated key change therefore
//     purges TokenCache, BlacklistCache and AuthCache together with the key.
//   * A mutation changes the *value* of the token: a hex digit is replaced by a
//     different digit value in lower case (hex.DecodeString reads "A" and "a" as
//     the same nibble, so a change of letter case alters nothing the server
//     sees); truncation removes >= 1 character; extension adds >= 1 character.
//   * Tokens are issued for existing users (admin, alice, bob): the gate decides
//     on the token alone, but /services/admin/authenticate then reports the
//     user's permissions and answers 400 "no such user" for an unknown name.
//   * A second revoke of a listed id fails with a UNIQUE-constraint error /
//     500; the model treats the id as still revoked. Un-revoke of an id that
//     is not listed answers 404 / ErrNotFound and changes nothing.
//   * The model's list follows the operations and is compared with
//     tokens.List() after every list operation; a disagreement makes the case
//     inconclusive (the store itself is C31's subject).
//   * Revocation and caches are process state: every case starts by flushing
//     the list and ends by purging the caches; token ids are random UUIDs, so
//     nothing else leaks between cases.

import (
	"encoding/json"
	"fmt"
	"net/http"
	"os"
	"path/filepath"
	"sort"
	"strings"
	"testing"
	"testing/synctest"
	"time"

	"github.com/google/uuid"
	"github.com/tucats/ego/internal/caches"
	"github.com/tucats/ego/internal/cli/settings"
	"github.com/tucats/ego/internal/defs"
	"github.com/tucats/ego/internal/language/data"
	"github.com/tucats/ego/internal/language/symbols"
	"github.com/tucats/ego/internal/language/tokens"
	"github.com/tucats/ego/internal/router"
	"github.com/tucats/ego/internal/runtime/cipher"
	"github.com/tucats/ego/verif/srvfix"
	"github.com/tucats/ego/verif/vkit"
	"pgregory.net/rapid"
)

// ---------------------------------------------------------------- case data

// Adv is a clock advance.
//
//	abs:    Ns nanoseconds
//	expiry: up to the expiry instant of token Tok plus Delta ns (Ns if that is
//	        in the past or no token exists)
type Adv struct {
	Kind  string `json:"kind"`
	Ns    int64  `json:"ns,omitempty"`
	Delta int64  `json:"delta,omitempty"`
}

// Mut is a mutation of the presented token string.
//
//	hex:   the digit at position Pos (mod len) is xor-ed with X (1..15)
//	trunc: N trailing characters removed; N <= 0 means Num/Den of the length
//	ext:   S appended (or prepended when Front)
type Mut struct {
	Kind  string `json:"kind"`
	Pos   int    `json:"pos,omitempty"`
	X     int    `json:"x,omitempty"`
	N     int    `json:"n,omitempty"`
	Num   int    `json:"num,omitempty"`
	Den   int    `json:"den,omitempty"`
	S     string `json:"s,omitempty"`
	Front bool   `json:"front,omitempty"`
}

type Op struct {
	K    string `json:"k"`              // issue|revoke|unrevoke|flush|purge|sleep|setkey|validate
	Tok  int    `json:"tok,omitempty"`  // token index (mod number of issued tokens)
	User int    `json:"user,omitempty"` // issue: 0..2
	TTL  string `json:"ttl,omitempty"`  // issue
	Via  string `json:"via,omitempty"`
	// issue: new|logon; revoke/unrevoke/flush: rest|direct;
	// validate: router|authep|tvalidate|unwrap|validate|extract
	What string `json:"what,omitempty"` // purge: token|blacklist|auth|token-rest|blacklist-rest|auth-rest|all-rest
	Adv  *Adv   `json:"adv,omitempty"`  // sleep
	Mut  *Mut   `json:"mut,omitempty"`  // validate
	Key  int    `json:"key,omitempty"`  // setkey: 0 original, 1, 2
}

type Case struct {
	Ops []Op `json:"ops"`
}

const (
	maxTokens = 4
	maxOps    = 16
	scanNs    = int64(60 * time.Second)
)

var (
	userNames = []string{"admin", "alice", "bob"}
	ttls      = []string{"20s", "45s", "90s", "2m", "15m", "1h", "1h30m", "3h", "36h"}
	viaVal    = []string{"router", "authep", "tvalidate", "unwrap", "validate", "extract"}
	purges    = []string{"token", "blacklist", "auth", "token-rest", "blacklist-rest", "auth-rest", "all-rest"}
)

func in(s string, l []string) bool {
	for _, x := range l {
		if x == s {
			return true
		}
	}
	return false
}

// ---------------------------------------------------------------- generator

func genAdv(t *rapid.T, tok int) *Adv {
	switch k := rapid.IntRange(0, 9).Draw(t, "advClass"); {
	case k < 4: // inside / around the cache lifetime and the sweep interval
		return &Adv{Kind: "abs", Ns: rapid.SampledFrom([]int64{1, int64(time.Millisecond), int64(time.Second), int64(10 * time.Second), int64(30 * time.Second),
			int64(59 * time.Second), scanNs, int64(61 * time.Second), int64(2 * time.Minute), int64(3 * time.Minute)}).Draw(t, "ns")}
	case k < 8: // aimed at the expiry of a token
		return &Adv{Kind: "expiry", Delta: rapid.SampledFrom([]int64{-int64(time.Second), -1, 0, 1, 1, int64(time.Second), int64(61 * time.Second), int64(3 * time.Minute)}).Draw(t, "delta"),
			Ns: rapid.SampledFrom([]int64{0, int64(time.Second), int64(30 * time.Second)}).Draw(t, "fallback")}
	default:
		return &Adv{Kind: "abs", Ns: rapid.Int64Range(0, int64(4*time.Hour)).Draw(t, "any")}
	}
}

func genMut(t *rapid.T) *Mut {
	switch k := rapid.IntRange(0, 9).Draw(t, "mutClass"); {
	case k < 6:
		// positions: anywhere, or weighted to the header (magic, salt, nonce)
		// and to the tail (GCM tag)
		var pos int
		switch rapid.IntRange(0, 3).Draw(t, "posClass") {
		case 0:
			pos = rapid.IntRange(0, 63).Draw(t, "head")
		case 1:
			pos = -1 - rapid.IntRange(0, 31).Draw(t, "tail") // counted from the end
		default:
			pos = rapid.IntRange(0, 4095).Draw(t, "pos")
		}
		return &Mut{Kind: "hex", Pos: pos, X: rapid.IntRange(1, 15).Draw(t, "x")}
	case k < 8:
		if rapid.Bool().Draw(t, "fewChars") {
			return &Mut{Kind: "trunc", N: rapid.SampledFrom([]int{1, 1, 2, 3, 4, 31, 32, 33}).Draw(t, "n")}
		}
		fr := rapid.SampledFrom([][2]int{{1, 1}, {9, 10}, {3, 4}, {1, 2}, {1, 4}, {99, 100}}).Draw(t, "frac")
		return &Mut{Kind: "trunc", Num: fr[0], Den: fr[1]}
	default:
		return &Mut{Kind: "ext", S: rapid.SampledFrom([]string{"0", "00", "a", "ff", "0000", "deadbeef", "g", "zz", " 00"}).Draw(t, "s"), Front: rapid.IntRange(0, 3).Draw(t, "front") == 0}
	}
}

func genValidate(t *rapid.T, tok int, mutated bool) Op {
	o := Op{K: "validate", Tok: tok, Via: rapid.SampledFrom([]string{"router", "router", "router", "authep", "tvalidate", "unwrap", "validate", "extract"}).Draw(t, "via")}
	if mutated {
		o.Mut = genMut(t)
	}
	return o
}

func genOp(t *rapid.T) Op {
	tok := rapid.IntRange(0, maxTokens-1).Draw(t, "tok")
	lv := func() string { return rapid.SampledFrom([]string{"rest", "direct"}).Draw(t, "lvia") }
	switch k := rapid.IntRange(0, 39).Draw(t, "op"); {
	case k < 4:
		return Op{K: "issue", User: rapid.IntRange(0, 2).Draw(t, "user"), TTL: rapid.SampledFrom(ttls).Draw(t, "ttl"),
			Via: rapid.SampledFrom([]string{"new", "new", "new", "logon"}).Draw(t, "ivia")}
	case k < 9:
		return Op{K: "revoke", Tok: tok, Via: lv()}
	case k < 13:
		return Op{K: "unrevoke", Tok: tok, Via: lv()}
	case k < 15:
		return Op{K: "flush", Via: lv()}
	case k < 19:
		return Op{K: "purge", What: rapid.SampledFrom(purges).Draw(t, "what")}
	case k < 26:
		return Op{K: "sleep", Tok: tok, Adv: genAdv(t, tok)}
	case k < 28:
		return Op{K: "setkey", Key: rapid.SampledFrom([]int{0, 0, 1, 1, 2}).Draw(t, "key")}
	case k < 36:
		return genValidate(t, tok, false)
	default:
		return genValidate(t, tok, true)
	}
}

func genCase(t *rapid.T) Case {
	c := Case{}
	// always start with a token; short lifetimes are over-weighted so that the
	// expiry can fall inside the life of a cache entry
	c.Ops = append(c.Ops, Op{K: "issue", User: rapid.IntRange(0, 2).Draw(t, "user0"),
		TTL: rapid.SampledFrom([]string{"20s", "45s", "90s", "2m", "15m", "1h", "3h"}).Draw(t, "ttl0"),
		Via: rapid.SampledFrom([]string{"new", "new", "new", "logon"}).Draw(t, "ivia0")})
	if rapid.IntRange(0, 9).Draw(t, "template") < 5 {
		// decision cached, status changes, decision asked again
		c.Ops = append(c.Ops, genValidate(t, 0, false))
		switch rapid.IntRange(0, 3).Draw(t, "event") {
		case 0:
			c.Ops = append(c.Ops, Op{K: "revoke", Tok: 0, Via: rapid.SampledFrom([]string{"rest", "direct"}).Draw(t, "ev")})
		case 1:
			c.Ops = append(c.Ops, Op{K: "revoke", Tok: 0, Via: "direct"}, genValidate(t, 0, false),
				Op{K: rapid.SampledFrom([]string{"unrevoke", "unrevoke", "flush"}).Draw(t, "undo"), Tok: 0, Via: rapid.SampledFrom([]string{"rest", "direct"}).Draw(t, "ev")})
		case 2:
			c.Ops = append(c.Ops, Op{K: "sleep", Tok: 0, Adv: &Adv{Kind: "expiry", Delta: rapid.SampledFrom([]int64{-1, 1, 1, int64(time.Second)}).Draw(t, "xd")}})
		case 3:
			c.Ops = append(c.Ops, Op{K: "setkey", Key: 1}, genValidate(t, 0, false), Op{K: "setkey", Key: 0})
		}
		if rapid.Bool().Draw(t, "shortNap") {
			c.Ops = append(c.Ops, Op{K: "sleep", Adv: &Adv{Kind: "abs", Ns: rapid.SampledFrom([]int64{int64(time.Second), int64(10 * time.Second), int64(30 * time.Second)}).Draw(t, "nap")}})
		}
		c.Ops = append(c.Ops, genValidate(t, 0, false))
	}
	room := maxOps - len(c.Ops)
	if room < 0 {
		room = 0
	}
	tail := rapid.IntRange(0, room).Draw(t, "tail")
	if len(c.Ops) == 1 && tail == 0 {
		tail = 1
	}
	for i := 0; i < tail; i++ {
		c.Ops = append(c.Ops, genOp(t))
	}
	return c
}

// ---------------------------------------------------------------- fixture

type fixture struct {
	srv  *srvfix.Fixture
	keys [3]string
	inst string
	t    *testing.T
}

var fx *fixture

func setup(t *testing.T) *fixture {
	os.Unsetenv("EGO_SERVER_TOKEN_KEY")
	srv, err := srvfix.Start(srvfix.Options{UserStore: "sqlite"})
	if err != nil {
		t.Fatalf("harness: %v", err)
	}
	f := &fixture{srv: srv, t: t, inst: uuid.NewString()}
	f.keys[0] = settings.Get(defs.ServerTokenKeySetting)
	if f.keys[0] == "" {
		t.Fatalf("harness: the start-up left no server token key")
	}
	f.keys[1] = "c21-other-key-" + strings.Repeat("k1", 40)
	f.keys[2] = f.keys[0][:len(f.keys[0])-1] + map[bool]string{true: "1", false: "0"}[f.keys[0][len(f.keys[0])-1] == '0']
	settings.SetDefault(defs.ServerTokenKeySetting, f.keys[0])

	srv.Router.New("/c21/probe", func(s *router.Session, w http.ResponseWriter, r *http.Request) int {
		w.WriteHeader(http.StatusOK)
		_, _ = w.Write([]byte(s.User))
		return http.StatusOK
	}, http.MethodGet).Authentication(true)

	// Warm-up outside any bubble (DESIGN 1.4c). None of these requests may
	// create TokenCache or BlacklistCache: their sweepers must be born inside a
	// bubble. A garbage bearer string fails at hex decoding, before any cache.
	if r := f.admin("GET", "/admin/tokens/", ""); r.Status != 200 {
		t.Fatalf("harness: warm-up GET /admin/tokens with Basic admin credentials: %d %s", r.Status, r.Body)
	}
	// /services/admin/authenticate reports the permissions of the token's
	// user and answers 400 "no such user" otherwise, so the users exist.
	for _, u := range userNames[1:] {
		b, _ := json.Marshal(map[string]any{"name": u, "password": "pw-" + u, "permissions": []string{defs.LogonPermission}})
		if r := f.admin("POST", "/admin/users/", string(b)); r.Status != 200 && r.Status != 201 {
			t.Fatalf("harness: create user %s: %d %s", u, r.Status, r.Body)
		}
	}
	if r := f.admin("DELETE", "/admin/caches?class=blacklist", ""); r.Status != 200 {
		t.Fatalf("harness: warm-up DELETE /admin/caches?class=blacklist: %d %s", r.Status, r.Body)
	}
	for _, p := range []string{"/c21/probe", "/services/admin/authenticate"} {
		if r := srv.Do(srvfix.Request{Method: "GET", Path: p, Header: srvfix.Bearer("not-a-token")}); r.Status != 403 && r.Status != 401 {
			t.Fatalf("harness: warm-up GET %s with a garbage bearer: %d %s", p, r.Status, r.Body)
		}
	}
	if n := caches.Size(caches.TokenCache) + caches.Size(caches.BlacklistCache); n != 0 {
		t.Fatalf("harness: the warm-up populated TokenCache/BlacklistCache (%d entries)", n)
	}
	// the revocation store must be live and must work from the outside too
	// (this opens the store's first database connection outside the bubble)
	if err := tokens.Blacklist("c21-selftest"); err != nil {
		t.Fatalf("harness: tokens.Blacklist: %v", err)
	}
	l, err := tokens.List()
	if err != nil || len(l) != 1 || l[0].ID != "c21-selftest" {
		t.Fatalf("harness: revocation store is not live (list after one insert: %v, %v)", l, err)
	}
	if _, err := tokens.Flush(); err != nil {
		t.Fatalf("harness: tokens.Flush: %v", err)
	}
	return f
}

func (f *fixture) admin(method, path, body string) *srvfix.Response {
	h := map[string]string{"Authorization": srvfix.Basic("admin", "secret0")}
	if body != "" {
		h["Content-Type"] = "application/json"
	}
	return f.srv.Do(srvfix.Request{Method: method, Path: path, Header: h, Body: body})
}

func msgOf(r *srvfix.Response) string {
	var m map[string]any
	if r.JSON(&m) == nil {
		if s, ok := m["msg"].(string); ok {
			return s
		}
	}
	return string(r.Body)
}

func clip(s string, n int) string {
	if len(s) > n {
		return s[:n] + "..."
	}
	return s
}

// present shows a token string through one of the six ways and classifies the
// answer as accepted / rejected / something else (descriptive).
func (f *fixture) present(tok, via string) string {
	switch via {
	case "router", "authep":
		path := "/c21/probe"
		if via == "authep" {
			path = "/services/admin/authenticate"
		}
		r := f.srv.Do(srvfix.Request{Method: "GET", Path: path, Header: srvfix.Bearer(tok)})
		switch {
		case r.Panic != nil:
			return fmt.Sprintf("handler panic: %v at %s", r.Panic, srvfix.PanicSite(r.Stack))
		case r.Status == http.StatusOK:
			return "accepted"
		case r.Status == http.StatusForbidden || r.Status == http.StatusUnauthorized:
			return "rejected"
		case via == "authep" && r.Status == http.StatusBadRequest:
			// the handler runs behind the gate: the request was authenticated
			// and the handler's own cipher.Extract (or user lookup) failed
			return "gate accepted, handler answered 400: " + clip(msgOf(r), 120)
		default:
			return fmt.Sprintf("status %d: %s", r.Status, clip(string(r.Body), 160))
		}
	case "tvalidate":
		ok, _ := tokens.Validate(tok, 0)
		if ok {
			return "accepted"
		}
		return "rejected"
	case "unwrap":
		t, err := tokens.Unwrap(tok, 0)
		if err == nil && t != nil {
			return "accepted"
		}
		return "rejected"
	case "validate":
		v, err := cipher.Validate(symbols.NewSymbolTable("c21"), data.NewList(tok))
		if b, ok := v.(bool); ok && b && err == nil {
			return "accepted"
		}
		return "rejected"
	case "extract":
		v, err := cipher.Extract(symbols.NewSymbolTable("c21"), data.NewList(tok))
		if err != nil {
			return "rejected"
		}
		if l, ok := v.(data.List); ok && l.Len() == 2 && l.Get(1) == nil && l.Get(0) != nil {
			return "accepted"
		}
		return fmt.Sprintf("cipher.Extract returned %v without error", v)
	}
	return "unknown via"
}

func mutate(s string, m *Mut) (string, string) {
	if m == nil {
		return s, ""
	}
	switch m.Kind {
	case "hex":
		if len(s) == 0 {
			return s, ""
		}
		p := m.Pos
		if p < 0 {
			p = len(s) + p
		}
		p = ((p % len(s)) + len(s)) % len(s)
		const digits = "0123456789abcdef"
		v := strings.IndexByte(digits, s[p]|0x20)
		if s[p] >= '0' && s[p] <= '9' {
			v = int(s[p] - '0')
		}
		if v < 0 {
			return s, ""
		}
		b := []byte(s)
		b[p] = digits[v^(m.X&15)]
		region := "body"
		switch {
		case p < 8:
			region = "magic"
		case p < 40:
			region = "salt"
		case p < 64:
			region = "nonce"
		case p >= len(s)-32:
			region = "tag"
		}
		return string(b), "hex digit in " + region
	case "trunc":
		n := m.N
		if n <= 0 && m.Den > 0 {
			n = len(s) * m.Num / m.Den
		}
		if n < 1 {
			n = 1
		}
		if n > len(s) {
			n = len(s)
		}
		what := "truncated (even length)"
		if (len(s)-n)%2 == 1 {
			what = "truncated (odd length)"
		}
		if n == len(s) {
			what = "truncated to nothing"
		}
		return s[:len(s)-n], what
	case "ext":
		if m.Front {
			return m.S + s, "extended in front"
		}
		return s + m.S, "extended at the end"
	}
	return s, ""
}

// ---------------------------------------------------------------- the model

type mtok struct {
	str    string
	id     string
	user   string
	ttl    string
	expiry int64 // virtual ns since the epoch of the case
	key    int
	// bookkeeping for labels / non-triviality only (never a verdict):
	// tokAt: instant of the last accepted router validation whose TokenCache
	// entry has not been wiped since (-1 none); blAt: same for the
	// BlacklistCache entry of the id. An entry lives at least 60 s after its
	// last touch. pending: the last status change of this token happened while
	// such an entry could still be alive.
	tokAt, blAt int64
	pending     bool
	everRevoked bool
	keyRestored bool
}

func alive(at, t int64) bool { return at >= 0 && t-at < scanNs }

func validCase(c Case) string {
	if len(c.Ops) < 1 || len(c.Ops) > 4*maxOps {
		return "history length outside the stated domain"
	}
	for _, o := range c.Ops {
		switch o.K {
		case "issue":
			if o.User < 0 || o.User > 2 || (o.Via != "new" && o.Via != "logon") {
				return "bad issue"
			}
			if d, err := time.ParseDuration(o.TTL); err != nil || d <= 0 || d > 100*time.Hour {
				return "bad ttl"
			}
		case "revoke", "unrevoke", "flush":
			if o.Via != "rest" && o.Via != "direct" {
				return "bad via"
			}
		case "purge":
			if !in(o.What, purges) {
				return "bad purge"
			}
		case "sleep":
			if o.Adv == nil || (o.Adv.Kind != "abs" && o.Adv.Kind != "expiry") || o.Adv.Ns < 0 || o.Adv.Ns > int64(100*time.Hour) {
				return "bad sleep"
			}
		case "setkey":
			if o.Key < 0 || o.Key > 2 {
				return "bad key"
			}
		case "validate":
			if !in(o.Via, viaVal) {
				return "bad via"
			}
			if m := o.Mut; m != nil {
				switch m.Kind {
				case "hex":
					if m.X&15 == 0 {
						return "hex mutation that changes nothing"
					}
				case "trunc":
					if m.N < 0 || m.Den < 0 || m.Num < 0 {
						return "bad truncation"
					}
				case "ext":
					if m.S == "" {
						return "empty extension"
					}
				default:
					return "bad mutation"
				}
			}
		default:
			return "unknown op"
		}
		if o.Tok < 0 {
			return "negative token index"
		}
	}
	return ""
}

// ---------------------------------------------------------------- oracle

var bubbleEpoch = time.Date(2200, 1, 1, 0, 0, 0, 0, time.UTC)

const watchdogS = 1500

func oracle(c Case) vkit.Outcome {
	if why := validCase(c); why != "" {
		return vkit.Outcome{Skip: why}
	}
	f := fx
	// outside the bubble: a clean list; the caches were purged by the previous
	// case's epilogue
	if _, err := tokens.Flush(); err != nil {
		return vkit.Outcome{Inconclusive: "cannot flush the revocation store"}
	}
	settings.SetDefault(defs.ServerTokenKeySetting, f.keys[0])

	wd := time.AfterFunc(watchdogS*time.Second, func() {
		fmt.Printf("HARNESS-ERROR property=C21 a synctest bubble did not end within %ds (a goroutine started inside it never exits)\n", watchdogS)
		os.Exit(2)
	})
	defer wd.Stop()

	var out vkit.Outcome
	func() {
		defer func() {
			if p := recover(); p != nil {
				// synctest reports a bubble it cannot finish by panicking out of
				// Test: that is the harness's problem, never a verdict
				fmt.Printf("HARNESS-ERROR property=C21 synctest: %v\n", p)
				os.Exit(2)
			}
		}()
		synctest.Test(f.t, func(*testing.T) {
			defer func() {
				if p := recover(); p != nil {
					out = vkit.Outcome{Fail: &vkit.Failure{Sig: "panic inside the bubble", Observed: fmt.Sprint(p), Expected: "no panic"}}
				}
				// epilogue (DESIGN 1.4c): leave nothing behind
				settings.SetDefault(defs.ServerTokenKeySetting, f.keys[0])
				caches.Purge(caches.TokenCache)
				caches.Purge(caches.BlacklistCache)
				caches.Purge(caches.AuthCache)
				time.Sleep(time.Duration(scanNs) + time.Second)
				synctest.Wait()
			}()
			out = f.execute(c)
		})
	}()
	return out
}

// knownSig: signatures of recorded findings (only used to choose which of
// several failures of one history is handed to vkit).
var knownSig = map[string]bool{}

func loadKnownSigs() {
	p := os.Getenv("VERIF_KNOWN")
	if p == "" {
		p = filepath.Join(vkit.Root(), "known_findings.json")
	}
	b, err := os.ReadFile(p)
	if err != nil {
		return
	}
	var kf struct {
		Findings []struct {
			Property string `json:"property"`
			Sig      string `json:"sig"`
		} `json:"findings"`
	}
	if json.Unmarshal(b, &kf) != nil {
		return
	}
	for _, k := range kf.Findings {
		if k.Property == "C21" {
			knownSig[k.Sig] = true
		}
	}
}

// execute runs inside the bubble.
func (f *fixture) execute(c Case) vkit.Outcome {
	time.Sleep(time.Until(bubbleEpoch))
	start := time.Now()
	now := func() int64 { return int64(time.Since(start)) }

	var toks []*mtok
	revoked := map[string]bool{}
	curKey := 0
	labels := map[string]bool{}
	var trace []string
	nonTrivial := false
	var firstFail *vkit.Failure
	var out vkit.Outcome

	note := func(format string, a ...any) {
		trace = append(trace, fmt.Sprintf("t=%v ", time.Duration(now()))+fmt.Sprintf(format, a...))
		if len(trace) > 80 {
			trace = append([]string{"..."}, trace[len(trace)-60:]...)
		}
	}
	fail := func(sig, observed, expected string) {
		fl := &vkit.Failure{Sig: sig, Observed: observed + "; history: " + strings.Join(trace, "; "), Expected: expected}
		if firstFail == nil || (knownSig[firstFail.Sig] && !knownSig[sig]) {
			firstFail = fl
		}
	}
	finish := func() vkit.Outcome {
		out.NonTrivial = nonTrivial
		out.Fail = firstFail
		for l := range labels {
			out.Labels = append(out.Labels, l)
		}
		if nonTrivial {
			out.Labels = append(out.Labels, "non-trivial: validation after a status change that followed a cached decision")
		}
		sort.Strings(out.Labels)
		return out
	}
	syncCheck := func() string {
		l, err := tokens.List()
		if err != nil {
			return "tokens.List failed"
		}
		got := map[string]bool{}
		for _, it := range l {
			if it.Active {
				got[it.ID] = true
			}
		}
		if len(got) != len(revoked) {
			return "revocation store disagrees with the operations"
		}
		for id := range revoked {
			if !got[id] {
				return "revocation store disagrees with the operations"
			}
		}
		return ""
	}
	// judge compares one presentation with the model.
	judge := func(si int, k int, mt *mtok, presented, mutWhat, via string) {
		t := now()
		var reason string // why the statement requires rejection
		switch {
		case mutWhat != "":
			reason = "altered: " + mutWhat
		case mt.key != curKey:
			reason = "server token key changed"
		case t > mt.expiry:
			reason = "expired"
		case revoked[mt.id]:
			reason = "revoked"
		}
		atExpiry := reason == "" && t == mt.expiry
		obs := f.present(presented, via)
		note("#%d validate tok%d via %s%s -> %s", si, k, via, map[bool]string{true: " [" + mutWhat + "]", false: ""}[mutWhat != ""], obs)

		gate := "direct"
		if via == "router" || via == "authep" {
			gate = "router"
		}
		// labels
		switch {
		case mutWhat != "":
			labels["validate mutated: "+mutWhat+" ("+gate+")"] = true
		case atExpiry:
			labels["validate exactly at the expiry instant -> "+obs] = true
		case reason != "":
			labels["validate must-reject: "+reason+" via "+via] = true
		default:
			labels["validate must-accept via "+via] = true
		}
		if mutWhat == "" {
			// which cache entries this presentation leaves behind
			hit := via == "router" && alive(mt.tokAt, t) // answered from TokenCache alone
			if gate == "router" && (obs == "accepted" || strings.HasPrefix(obs, "gate accepted")) {
				mt.tokAt = t
			}
			if mt.key == curKey && t <= mt.expiry && !hit {
				mt.blAt = t
			}
		}

		state := fmt.Sprintf("token %d of user %q ttl %s, expiry t=%v, key %d (current %d), revoked %v", k, mt.user, mt.ttl, time.Duration(mt.expiry), mt.key, curKey, revoked[mt.id])
		switch {
		case obs != "accepted" && obs != "rejected":
			sig := "unexpected answer via " + via + ": " + strings.SplitN(obs, ":", 2)[0]
			if strings.HasPrefix(obs, "gate accepted") {
				want := "rejected by the gate (403)"
				if reason == "" {
					want = "200"
					sig = "authenticate endpoint: gate accepts a valid token, handler answers 400"
				} else {
					// the same decision of the same gate as a 200 from the probe route
					sig = "router accepts a token that must be rejected: " + strings.SplitN(reason, ":", 2)[0]
				}
				fail(sig, fmt.Sprintf("step #%d: %s; %s", si, obs, state), want)
			} else {
				fail(sig, fmt.Sprintf("step #%d: %s; %s", si, obs, state), "accepted or rejected")
			}
		case atExpiry:
			// either
		case obs == "accepted" && reason != "":
			fail(fmt.Sprintf("%s accepts a token that must be rejected: %s", gate, strings.SplitN(reason, ":", 2)[0]),
				fmt.Sprintf("step #%d: accepted via %s; %s; reason to reject: %s", si, via, state, reason), "rejected ("+reason+")")
		case obs == "rejected" && reason == "":
			why := "fresh"
			switch {
			case mt.everRevoked:
				why = "after un-revoke/flush"
			case mt.keyRestored:
				why = "after the key was changed and changed back"
			}
			fail(fmt.Sprintf("%s rejects a valid token (%s)", gate, why),
				fmt.Sprintf("step #%d: rejected via %s; %s", si, via, state), "accepted: issued with the current key, unaltered, not expired, not revoked")
		}
	}
	wipeAll := func(tok, bl bool) {
		for _, o := range toks {
			if tok {
				o.tokAt = -1
			}
			if bl {
				o.blAt = -1
			}
		}
	}

	for si, op := range c.Ops {
		var k int
		var mt *mtok
		if len(toks) > 0 {
			k = op.Tok % len(toks)
			mt = toks[k]
		}
		switch op.K {
		case "issue":
			ttl, _ := time.ParseDuration(op.TTL)
			user := userNames[op.User]
			var str, id string
			if op.Via == "logon" {
				user = "admin"
				b, _ := json.Marshal(map[string]string{"username": "admin", "password": "secret0", "expiration": op.TTL})
				r := f.srv.Do(srvfix.Request{Method: "POST", Path: "/services/admin/logon", Header: map[string]string{"Content-Type": "application/json"}, Body: string(b)})
				var m map[string]any
				if r.Status != 200 || r.JSON(&m) != nil {
					out.Inconclusive = fmt.Sprintf("logon failed (%d)", r.Status)
					return finish()
				}
				str, _ = m["token"].(string)
				id, _ = m["id"].(string)
			} else {
				var err error
				str, err = tokens.New(user, "", op.TTL, f.inst, 0)
				if err != nil {
					out.Inconclusive = "tokens.New failed: " + err.Error()
					return finish()
				}
			}
			nt := &mtok{str: str, id: id, user: user, ttl: op.TTL, expiry: now() + int64(ttl), key: curKey, tokAt: -1, blAt: -1}
			slot := len(toks)
			if len(toks) < maxTokens {
				toks = append(toks, nt)
			} else {
				slot = op.Tok % maxTokens
				toks[slot] = nt
			}
			note("#%d issue tok%d user %s ttl %s via %s", si, slot, user, op.TTL, op.Via)
			labels["issue via "+op.Via] = true
			if curKey != 0 {
				labels["issue under a changed key"] = true
			}
			if id == "" {
				// the id is needed for revocation; reading it is itself a
				// presentation at the issue instant and is judged as one
				tk, err := tokens.Unwrap(str, 0)
				if err != nil || tk == nil {
					note("#%d unwrap at issue -> %v", si, err)
					fail("direct rejects a valid token (at the issue instant)", fmt.Sprintf("step #%d: tokens.Unwrap of a token just returned by tokens.New(%q, ttl %s): %v", si, user, op.TTL, err), "accepted")
					return finish()
				}
				nt.id = tk.TokenID.String()
				nt.blAt = now()
				if tk.Name != user {
					fail("unwrapped token carries another user", fmt.Sprintf("issued for %q, unwrapped %q", user, tk.Name), user)
				}
			}
			if nt.id == "" {
				out.Inconclusive = "no token id"
				return finish()
			}
		case "revoke":
			if mt == nil {
				continue
			}
			if revoked[mt.id] {
				labels["second revoke of a listed id"] = true
			}
			if op.Via == "rest" {
				b, _ := json.Marshal([]string{mt.id})
				r := f.admin("PUT", "/admin/tokens/", string(b))
				note("#%d PUT /admin/tokens [tok%d] -> %d", si, k, r.Status)
			} else {
				err := tokens.Blacklist(mt.id)
				note("#%d tokens.Blacklist(tok%d) -> %v", si, k, err != nil)
			}
			if !revoked[mt.id] {
				mt.pending = alive(mt.tokAt, now()) || alive(mt.blAt, now())
				if mt.pending {
					labels["revoke while a decision is cached"] = true
				}
				wipeAll(true, true) // a successful Blacklist purges both caches
			}
			revoked[mt.id] = true
			mt.everRevoked = true
		case "unrevoke":
			if mt == nil {
				continue
			}
			if op.Via == "rest" {
				r := f.admin("DELETE", "/admin/tokens/"+mt.id, "")
				note("#%d DELETE /admin/tokens/{tok%d} -> %d", si, k, r.Status)
			} else {
				err := tokens.Delete(mt.id)
				note("#%d tokens.Delete(tok%d) -> %v", si, k, err != nil)
			}
			if revoked[mt.id] {
				mt.pending = alive(mt.blAt, now())
				if mt.pending {
					labels["un-revoke while a decision is cached"] = true
				}
				mt.blAt = -1
				delete(revoked, mt.id)
			} else {
				labels["un-revoke of an id that is not listed"] = true
			}
		case "flush":
			if op.Via == "rest" {
				r := f.admin("DELETE", "/admin/tokens/", "")
				note("#%d DELETE /admin/tokens -> %d", si, r.Status)
			} else {
				_, err := tokens.Flush()
				note("#%d tokens.Flush -> %v", si, err != nil)
			}
			for _, o := range toks {
				if revoked[o.id] {
					o.pending = alive(o.blAt, now())
					if o.pending {
						labels["flush while a decision is cached"] = true
					}
				}
			}
			wipeAll(false, true)
			revoked = map[string]bool{}
		case "purge":
			switch op.What {
			case "token":
				caches.Purge(caches.TokenCache)
			case "blacklist":
				caches.Purge(caches.BlacklistCache)
			case "auth":
				caches.Purge(caches.AuthCache)
			default:
				path := "/admin/caches"
				switch op.What {
				case "token-rest":
					path += "?class=tokens"
				case "blacklist-rest":
					path += "?class=blacklist"
				case "auth-rest":
					path += "?class=permissions"
				}
				if r := f.admin("DELETE", path, ""); r.Status != 200 {
					out.Inconclusive = "cache purge endpoint failed"
					return finish()
				}
			}
			switch strings.TrimSuffix(op.What, "-rest") {
			case "token":
				wipeAll(true, false)
			case "blacklist":
				wipeAll(false, true)
			case "all":
				wipeAll(true, true)
			}
			note("#%d purge %s", si, op.What)
			labels["purge "+strings.TrimSuffix(op.What, "-rest")] = true
			continue
		case "sleep":
			d := op.Adv.Ns
			if op.Adv.Kind == "expiry" && mt != nil && mt.expiry+op.Adv.Delta >= now() {
				d = mt.expiry + op.Adv.Delta - now()
			}
			before := now()
			held := caches.Size(caches.TokenCache) + caches.Size(caches.BlacklistCache)
			if d > 0 {
				time.Sleep(time.Duration(d))
				synctest.Wait() // let sweepers that woke at this instant finish
			}
			if n := caches.Size(caches.TokenCache) + caches.Size(caches.BlacklistCache); n < held {
				// evidence that the sweepers run on the bubble's clock
				labels["cache entries swept on virtual time during a sleep"] = true
			}
			note("#%d sleep %v", si, time.Duration(d))
			for _, o := range toks {
				if before <= o.expiry && now() > o.expiry {
					o.pending = alive(o.tokAt, o.expiry) && !revoked[o.id] && o.key == curKey
					if o.pending {
						labels["expiry passes while a decision is cached"] = true
					}
					labels["a token's expiry instant is crossed"] = true
				}
			}
			if d >= scanNs {
				labels["sleep >= one sweep interval"] = true
			} else if d > 0 {
				labels["sleep < one sweep interval"] = true
			}
			continue
		case "setkey":
			if op.Key != curKey {
				// restart analog: the key only changes across a restart, which
				// empties the in-memory caches
				settings.SetDefault(defs.ServerTokenKeySetting, f.keys[op.Key])
				caches.Purge(caches.TokenCache)
				caches.Purge(caches.BlacklistCache)
				caches.Purge(caches.AuthCache)
				for _, o := range toks {
					if o.key == op.Key {
						o.keyRestored = true
					}
					o.pending = false
				}
				wipeAll(true, true)
				curKey = op.Key
				labels["server key changed"] = true
			}
			note("#%d setkey %d", si, op.Key)
			continue
		case "validate":
			if mt == nil {
				continue
			}
			presented, what := mutate(mt.str, op.Mut)
			if op.Mut != nil && what == "" {
				continue // the mutation did not apply to this string
			}
			if what == "" && mt.pending {
				nonTrivial = true
				labels["validate after a status change that followed a cached decision ("+map[bool]string{true: "router", false: "direct"}[op.Via == "router" || op.Via == "authep"]+")"] = true
			}
			judge(si, k, mt, presented, what, op.Via)
			continue
		}
		if op.K == "revoke" || op.K == "unrevoke" || op.K == "flush" {
			if why := syncCheck(); why != "" {
				out.Inconclusive = why
				return finish()
			}
		}
	}
	return finish()
}

// ---------------------------------------------------------------- fixed cases

func fixedCases() []Case {
	iss := func(ttl string) Op { return Op{K: "issue", User: 1, TTL: ttl, Via: "new"} }
	v := func(via string) Op { return Op{K: "validate", Tok: 0, Via: via} }
	nap := func(ns time.Duration) Op { return Op{K: "sleep", Adv: &Adv{Kind: "abs", Ns: int64(ns)}} }
	exp := func(delta int64) Op { return Op{K: "sleep", Tok: 0, Adv: &Adv{Kind: "expiry", Delta: delta}} }
	var cs []Case
	// revoke with the decision cached, every way of asking
	for _, via := range viaVal {
		cs = append(cs, Case{Ops: []Op{iss("15m"), v(via), {K: "revoke", Tok: 0, Via: "rest"}, nap(10 * time.Second), v(via), v("router"),
			{K: "unrevoke", Tok: 0, Via: "rest"}, v(via), v("router")}})
	}
	// expiry inside the life of the cache entry
	cs = append(cs,
		Case{Ops: []Op{iss("45s"), v("router"), exp(-1), v("router"), exp(0), v("router"), exp(1), v("router"), v("tvalidate"), v("authep")}},
		Case{Ops: []Op{iss("90s"), v("router"), nap(50 * time.Second), v("router"), exp(1), v("router"), v("unwrap")}},
		Case{Ops: []Op{{K: "issue", User: 0, TTL: "20s", Via: "logon"}, v("authep"), exp(int64(time.Second)), v("authep"), v("extract")}},
	)
	// flush, purge, key change and back
	cs = append(cs,
		Case{Ops: []Op{iss("1h"), v("router"), {K: "revoke", Tok: 0, Via: "direct"}, v("router"), {K: "flush", Via: "rest"}, v("router"), v("validate"),
			{K: "revoke", Tok: 0, Via: "direct"}, {K: "purge", What: "all-rest"}, v("router"), nap(3 * time.Minute), v("router")}},
		Case{Ops: []Op{iss("1h"), v("router"), {K: "setkey", Key: 1}, v("router"), v("tvalidate"), iss("1h"), {K: "validate", Tok: 1, Via: "router"},
			{K: "setkey", Key: 0}, v("router"), {K: "validate", Tok: 1, Via: "router"}, {K: "setkey", Key: 2}, v("unwrap")}},
	)
	// mutations of one token: a spread of positions, truncations, extensions
	muts := []*Mut{}
	for _, p := range []int{0, 1, 7, 8, 20, 39, 40, 63, 64, 100, 200, -1, -2, -32, -33} {
		muts = append(muts, &Mut{Kind: "hex", Pos: p, X: 1 + (len(muts)*7)%15})
	}
	for _, n := range []int{1, 2, 3, 32, 33} {
		muts = append(muts, &Mut{Kind: "trunc", N: n})
	}
	muts = append(muts, &Mut{Kind: "trunc", Num: 1, Den: 1}, &Mut{Kind: "trunc", Num: 99, Den: 100}, &Mut{Kind: "trunc", Num: 1, Den: 2},
		&Mut{Kind: "ext", S: "0"}, &Mut{Kind: "ext", S: "00"}, &Mut{Kind: "ext", S: "zz"}, &Mut{Kind: "ext", S: "00", Front: true})
	for i := 0; i < len(muts); i += 6 {
		c := Case{Ops: []Op{iss("15m"), v("router")}}
		for j := i; j < i+6 && j < len(muts); j++ {
			c.Ops = append(c.Ops, Op{K: "validate", Tok: 0, Via: viaVal[j%len(viaVal)], Mut: muts[j]})
		}
		c.Ops = append(c.Ops, v("router"))
		cs = append(cs, c)
	}
	return cs
}

// ---------------------------------------------------------------- test

func TestC21(t *testing.T) {
	loadKnownSigs()
	fx = setup(t)
	vkit.Run(t, vkit.Spec[Case]{
		ID:    "C21",
		Level: "exploration",
		Rule: "histories of 2..17 operations over <= 4 tokens {issue(user, ttl 20s..36h) by tokens.New or the logon endpoint; revoke / un-revoke / flush through the admin REST endpoints or the tokens package; purge TokenCache / BlacklistCache / AuthCache directly or through DELETE /admin/caches; " +
			"advance virtual time (1ns..3min around the 60 s cache lifetime and sweep, aimed at a token's expiry +-1ns/1s/61s, arbitrary up to 4h); change ego.server.token.key and back; validate through the router gate (probe route, /services/admin/authenticate), tokens.Validate, tokens.Unwrap, cipher.Validate, cipher.Extract, " +
			"with the string unmodified or with one hex digit changed (header/salt/nonce/body/tag), truncated or extended}, executed in a testing/synctest bubble and compared with the model of the statement at every validation. " +
			"Non-trivial: an unmodified token is validated after a revoke / un-revoke / flush / expiry of that token, and that status change followed a validation of the same token (so a decision about it was cached when the status changed); distinct by history.",
		Assumptions: []string{
			"expiry = issue instant + ttl; exactly at the expiry instant either answer is accepted",
			"a key change is a restart: it purges TokenCache, BlacklistCache and AuthCache (ego.server.token.key is read-only at run time)",
			"mutations change the value of the string (no letter-case-only changes)",
			"the model's revocation list follows the operations and is compared with tokens.List() after every list operation (disagreement = inconclusive)",
			"TokenCache / BlacklistCache sweepers always run inside the bubble on virtual time; the AuthCache sweeper may run outside on the real clock (it never influences acceptance)",
		},
		Gen:      genCase,
		Oracle:   oracle,
		Fixed:    fixedCases,
		Quick:    60,
		Thorough: 800,
	})
}
