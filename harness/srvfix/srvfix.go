// Package srvfix starts the real ego REST server in-process (no sockets): the
// start-up sequence of `ego server run` up to the listener
// (commands.VerifServerRouter, hook H1) with every path pointed into a scratch
// directory, and sends requests through router.ServeHTTP with httptest.
//
// ego keeps server state in package variables, so there is one Fixture per
// process (Start is idempotent).
package srvfix

import (
	"bytes"
	"encoding/base64"
	"encoding/json"
	"fmt"
	"net/http"
	"net/http/httptest"
	"os"
	"path/filepath"
	"sort"
	"strings"
	"sync"

	"github.com/google/uuid"
	"github.com/tucats/ego/internal/cli/cli"
	"github.com/tucats/ego/internal/cli/settings"
	"github.com/tucats/ego/internal/cli/ui"
	"github.com/tucats/ego/internal/commands"
	"github.com/tucats/ego/internal/defs"
	"github.com/tucats/ego/internal/router"
	"github.com/tucats/ego/internal/runtime/profile"
	"github.com/tucats/ego/internal/server/auth"
	"golang.org/x/crypto/bcrypt"
)

// Options configures the fixture. Zero value: file-backed user store, admin
// user "admin"/"secret0".
type Options struct {
	// UserStore is "file" (default) or "sqlite".
	UserStore string
	// AdminUser / AdminPassword are the default credential (created at start
	// with root privileges, as `ego server` does for a new user database).
	AdminUser, AdminPassword string
	// Settings are applied (settings.SetDefault) before the server starts.
	Settings map[string]string
	// PanicRecovery leaves the router's last-resort recover() on (default
	// off, so that a handler panic reaches the harness).
	PanicRecovery bool
}

// Fixture is the running in-process server.
type Fixture struct {
	Dir    string
	Router *router.Router
	Opts   Options
}

// Response is what a request produced.
type Response struct {
	Status int
	Header http.Header
	Body   []byte
	// Panic is non-nil when the handler panicked and the panic reached the
	// harness (panic recovery off); Stack is its stack.
	Panic any
	Stack string
}

// JSON decodes the body into v (UseNumber).
func (r *Response) JSON(v any) error {
	d := json.NewDecoder(bytes.NewReader(r.Body))
	d.UseNumber()
	return d.Decode(v)
}

var (
	once    sync.Once
	fixture *Fixture
	startEr error
)

// Start brings the server up once per process.
func Start(opts Options) (*Fixture, error) {
	once.Do(func() { fixture, startEr = start(opts) })
	return fixture, startEr
}

func start(opts Options) (*Fixture, error) {
	base := os.Getenv("VERIF_RUN_DIR")
	if base == "" {
		var err error
		if base, err = os.MkdirTemp("", "srvfix"); err != nil {
			return nil, err
		}
	}
	dir := filepath.Join(base, fmt.Sprintf("srv-%d", os.Getpid()))
	if err := os.MkdirAll(dir, 0o700); err != nil {
		return nil, err
	}
	os.Setenv("HOME", dir)
	os.Setenv("EGO_PATH", dir)
	os.Unsetenv("EGO_REALM")
	if err := settings.Load("ego", "default"); err != nil {
		return nil, err
	}
	// what app.Run / prepareRuntime do before any command runs
	if err := profile.InitProfileDefaults(profile.RuntimeDefaults); err != nil {
		return nil, err
	}
	if opts.AdminUser == "" {
		opts.AdminUser, opts.AdminPassword = "admin", "secret0"
	}
	set := func(k, v string) { settings.SetDefault(k, v) }
	set(defs.EgoPathSetting, dir)
	set(defs.DefaultCredentialSetting, opts.AdminUser+":"+opts.AdminPassword)
	switch opts.UserStore {
	case "sqlite":
		set(defs.LogonUserdataSetting, "sqlite3://"+filepath.Join(dir, "users.db"))
	default:
		set(defs.LogonUserdataSetting, filepath.Join(dir, "users.json"))
	}
	set(defs.ServerPanicRecoverySetting, fmt.Sprint(opts.PanicRecovery))
	set(defs.InsecureServerSetting, "true")
	keys := make([]string, 0, len(opts.Settings))
	for k := range opts.Settings {
		keys = append(keys, k)
	}
	sort.Strings(keys)
	for _, k := range keys {
		set(k, opts.Settings[k])
	}
	ui.Active(ui.ServerLogger, false)
	r, err := commands.VerifServerRouter(&cli.Context{AppName: "ego", Version: "verif"})
	if err != nil {
		return nil, fmt.Errorf("VerifServerRouter: %w", err)
	}
	r.Insecure()
	// The default credential's password is replaced by a random one at start
	// (users_file.go), so install the administrator directly in the user
	// store, as an existing user database would hold it.
	hash, err := bcrypt.GenerateFromPassword([]byte(opts.AdminPassword), bcrypt.MinCost)
	if err != nil {
		return nil, err
	}
	if err := auth.AuthService.WriteUser(0, defs.User{Name: opts.AdminUser, ID: uuid.New(), Password: string(hash),
		Permissions: []string{defs.RootPermission, defs.LogonPermission}}); err != nil {
		return nil, fmt.Errorf("bootstrap admin: %w", err)
	}
	_ = auth.AuthService.Flush()
	// settings the caller asked for must survive setServerDefaults
	for _, k := range keys {
		set(k, opts.Settings[k])
	}
	set(defs.ServerPanicRecoverySetting, fmt.Sprint(opts.PanicRecovery))
	return &Fixture{Dir: dir, Router: r, Opts: opts}, nil
}

// Request describes one HTTP request.
type Request struct {
	Method string            `json:"method"`
	Path   string            `json:"path"` // may include ?query
	Header map[string]string `json:"header,omitempty"`
	Body   string            `json:"body,omitempty"`
}

// Do sends a request through the real router (gate + handler).
func (f *Fixture) Do(rq Request) (resp *Response) {
	resp = &Response{}
	var body *bytes.Reader
	body = bytes.NewReader([]byte(rq.Body))
	req, err := http.NewRequest(rq.Method, "http://localhost"+rq.Path, body)
	if err != nil {
		// the path cannot be expressed as a URL: it cannot reach the server
		// through net/http either
		resp.Status = -1
		resp.Body = []byte(err.Error())
		return resp
	}
	req.RemoteAddr = "127.0.0.1:55555"
	req.RequestURI = rq.Path
	hk := make([]string, 0, len(rq.Header))
	for k := range rq.Header {
		hk = append(hk, k)
	}
	sort.Strings(hk)
	for _, k := range hk {
		req.Header.Set(k, rq.Header[k])
	}
	if req.Header.Get("Accept") == "" {
		req.Header.Set("Accept", "application/json")
	}
	w := httptest.NewRecorder()
	func() {
		defer func() {
			if p := recover(); p != nil {
				resp.Panic = p
				resp.Stack = stack()
			}
		}()
		f.Router.ServeHTTP(w, req)
	}()
	resp.Status = w.Code
	resp.Header = w.Header()
	resp.Body = w.Body.Bytes()
	return resp
}

// Basic returns a Basic Authorization header value.
func Basic(user, pass string) string {
	return "Basic " + base64.StdEncoding.EncodeToString([]byte(user+":"+pass))
}

// Logon performs POST /services/admin/logon with Basic credentials and
// returns the bearer token.
func (f *Fixture) Logon(user, pass string) (string, error) {
	r := f.Do(Request{Method: "POST", Path: "/services/admin/logon", Header: map[string]string{"Authorization": Basic(user, pass)}})
	if r.Status != 200 {
		return "", fmt.Errorf("logon %s: status %d: %s", user, r.Status, r.Body)
	}
	var m map[string]any
	if err := r.JSON(&m); err != nil {
		return "", err
	}
	tok, _ := m["token"].(string)
	if tok == "" {
		return "", fmt.Errorf("logon %s: no token in %s", user, r.Body)
	}
	return tok, nil
}

// AdminToken logs the default administrator on.
func (f *Fixture) AdminToken() (string, error) {
	return f.Logon(f.Opts.AdminUser, f.Opts.AdminPassword)
}

// Bearer builds the header map for a token.
func Bearer(tok string) map[string]string {
	return map[string]string{"Authorization": "Bearer " + tok}
}

// CreateUser creates (or replaces) a user through POST /admin/users as the
// administrator, the path the CLI and dashboard use.
func (f *Fixture) CreateUser(adminTok, name, password string, perms []string) error {
	b, _ := json.Marshal(map[string]any{"name": name, "password": password, "permissions": perms})
	h := Bearer(adminTok)
	h["Content-Type"] = "application/json"
	r := f.Do(Request{Method: "POST", Path: "/admin/users/", Header: h, Body: string(b)})
	if r.Status != 200 && r.Status != 201 {
		return fmt.Errorf("create user %s: status %d: %s", name, r.Status, r.Body)
	}
	return nil
}

// CreateSQLiteDSN registers a SQLite database file as a DSN through POST /dsns.
func (f *Fixture) CreateSQLiteDSN(adminTok, name, file string, restricted bool) error {
	b, _ := json.Marshal(map[string]any{"name": name, "provider": "sqlite", "database": file, "restricted": restricted})
	h := Bearer(adminTok)
	h["Content-Type"] = "application/json"
	r := f.Do(Request{Method: "POST", Path: "/dsns/", Header: h, Body: string(b)})
	if r.Status != 200 && r.Status != 201 {
		return fmt.Errorf("create dsn %s: status %d: %s", name, r.Status, r.Body)
	}
	return nil
}

func stack() string {
	buf := make([]byte, 1<<16)
	n := runtimeStack(buf)
	return string(buf[:n])
}

// PanicSite returns the first ego frame below the panic in a stack trace.
func PanicSite(stack string) string {
	lines := strings.Split(stack, "\n")
	seen := false
	for _, l := range lines {
		if strings.HasPrefix(l, "panic(") {
			seen = true
			continue
		}
		if seen && strings.HasPrefix(l, "github.com/tucats/ego/") && !strings.Contains(l, "/verif/") {
			if i := strings.LastIndex(l, "("); i > 0 {
				l = l[:i]
			}
			return strings.TrimPrefix(l, "github.com/tucats/ego/")
		}
	}
	return "unknown"
}
