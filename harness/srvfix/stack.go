package srvfix

import "runtime"

func runtimeStack(buf []byte) int { return runtime.Stack(buf, false) }
